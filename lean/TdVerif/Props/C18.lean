/-
  C18 — native (C++) vs Python helpers, compile-only code paths: property theorems.
  Regenerated from /repo on every run: Gen.PyFuns (`_slice_indices`, `infer_size_impl`, `_infer_size_impl`,
  `_maybe_correct_neg_dim`, translator self-test functions), Gen.DualHelpers.
  Hand models, each tied to the code by a correspondence stream that forces both branches of `is_compiling()`:
  Model.Key (C++ / Python key helpers, pybind dispatch, exception classes), Model.Compile (`_parse_batch_size`,
  `_values_list/_items_list`), Model.CheckKeys (`_check_keys`, Sequential key union), Model.ParseTo (`_parse_to` twin),
  Model.NewUnsafe (`_new_unsafe`), Model.FromTd (`_from_tensordict`), Model.Memo (memoised class predicates),
  Model.Consolidate (contiguity test of `consolidate`), Model.InferSize (hand model + closed form + torch's rule),
  Model.SliceSpec (CPython `slice.indices`).
  `_partial` theorems state in their doc comment the full statement that is false of the code, and come with a proved
  counter-witness that the harness replays on the implementation.
-/
import TdVerif.Gen.PyFuns
import TdVerif.Model.SliceSpec
import TdVerif.Model.Key
import TdVerif.Model.Compile
import TdVerif.Model.DualCoverage
import TdVerif.Lemmas.C18InferSize
import TdVerif.Lemmas.C18Slice
import TdVerif.Lemmas.C18CheckKeys
import TdVerif.Lemmas.C18ParseTo
import TdVerif.Lemmas.C18NewUnsafe
import TdVerif.Lemmas.C18FromTd
import TdVerif.Model.Memo
import TdVerif.Lemmas.C18Consolidate
import TdVerif.Gen.DualHelpers

namespace TdVerif.Props.C18
open TdVerif TdVerif.Key

/-- The compile-path `_slice_indices` (translated from the current source) *is* CPython's
`slice.indices`, for every start/stop/step (incl. `None`, zero step ↦ same error) and every length. -/
theorem slice_indices_eq_cpython (a b c : Option Int) (len : Int) :
    Gen.sliceIndices a b c len = SliceSpec.indices a b c len := by
  unfold Gen.sliceIndices SliceSpec.indices
  cases a <;> cases b <;> cases c <;> simp <;> grind

/-- corollary used by `_getitem_batch_size`: the two paths give the same `len(range(...))`. -/
theorem slice_len_agrees (a b c : Option Int) (len : Int) :
    (Gen.sliceIndices a b c len).map (fun (s, e, st) => SliceSpec.rangeLen s e st)
      = (SliceSpec.indices a b c len).map (fun (s, e, st) => SliceSpec.rangeLen s e st) := by
  rw [slice_indices_eq_cpython]

/-- safety of the compile-path slice arithmetic: for a sequence of length `len ≥ 0`, every element
`start + step * k` (`0 ≤ k < len(range(start, stop, step))`) of the range computed by the translated
`_slice_indices` is a valid position `0 ≤ · < len` — whatever start/stop/step (None, negative, out of range). -/
theorem slice_indices_in_bounds (a b c : Option Int) (len : Int) (hlen : 0 ≤ len) (s e st : Int)
    (h : Gen.sliceIndices a b c len = .ok (s, e, st)) (k : Int) (hk0 : 0 ≤ k)
    (hk : k < SliceSpec.rangeLen s e st) :
    0 ≤ s + st * k ∧ s + st * k < len := by
  rw [slice_indices_eq_cpython] at h
  obtain ⟨hst, hp, hn⟩ := SliceSpec.indices_bounds a b c len hlen s e st h
  exact SliceSpec.range_elem_in_bounds s e st len k hp hn hst hk0 hk

/-- the resulting batch dimension is between 0 and `len` -/
theorem slice_len_bounds (a b c : Option Int) (len : Int) (hlen : 0 ≤ len) (s e st : Int)
    (h : Gen.sliceIndices a b c len = .ok (s, e, st)) :
    0 ≤ SliceSpec.rangeLen s e st ∧ SliceSpec.rangeLen s e st ≤ len := by
  have h' := h
  rw [slice_indices_eq_cpython] at h'
  obtain ⟨hst, hp, hn⟩ := SliceSpec.indices_bounds a b c len hlen s e st h'
  have h0 := SliceSpec.rangeLen_nonneg s e st hst
  refine ⟨h0, ?_⟩
  -- the last element of the range is a valid position and the elements are |st| ≥ 1 apart
  by_cases hz : SliceSpec.rangeLen s e st = 0
  · omega
  · have hk := slice_indices_in_bounds a b c len hlen s e st h (SliceSpec.rangeLen s e st - 1) (by omega) (by omega)
    have hf := slice_indices_in_bounds a b c len hlen s e st h 0 (by omega) (by omega)
    by_cases hpos : 0 < st
    · have := Int.mul_le_mul_of_nonneg_right (show (1 : Int) ≤ st by omega)
        (show 0 ≤ SliceSpec.rangeLen s e st - 1 by omega)
      rw [Int.one_mul] at this
      omega
    · have hneg : 0 < -st := by omega
      have h1 := Int.mul_le_mul_of_nonneg_right (show (1 : Int) ≤ -st by omega)
        (show 0 ≤ SliceSpec.rangeLen s e st - 1 by omega)
      rw [Int.one_mul] at h1
      have h2 : (-st) * (SliceSpec.rangeLen s e st - 1) = -(st * (SliceSpec.rangeLen s e st - 1)) := Int.neg_mul _ _
      omega

/-- `td[:]`-like slices select everything -/
theorem slice_full (len : Int) (hlen : 0 ≤ len) :
    Gen.sliceIndices none none none len = .ok (0, len, 1) ∧ SliceSpec.rangeLen 0 len 1 = len := by
  refine ⟨by rw [slice_indices_eq_cpython]; simp [SliceSpec.indices], ?_⟩
  unfold SliceSpec.rangeLen
  by_cases h : 0 < len
  · simp [h]
  · simp [h]; omega

mutual
theorem unravel_tup_agree : ∀ k : Key, unravelTupPy k = unravelTupCpp k
  | .str s => by simp [unravelTupPy, unravelTupCpp]
  | .bad => by simp [unravelTupPy, unravelTupCpp]
  | .tup l => by simp [unravelTupPy, unravelTupCpp, unravelTupPyL, unravelTupCppL, unravel_tupLO_agree l]
theorem unravel_tupLO_agree : ∀ l : List Key, unravelTupPyLO l = unravelTupCppLO l
  | [] => by simp [unravelTupPyLO, unravelTupCppLO]
  | .str s :: rest => by simp [unravelTupPyLO, unravelTupCppLO, unravel_tupLO_agree rest]
  | .bad :: rest => by
      simp [unravelTupPyLO, unravelTupCppLO, unravel_tupLO_agree rest, unravel_tup_agree .bad]
  | .tup l :: rest => by
      simp [unravelTupPyLO, unravelTupCppLO, unravel_tupLO_agree rest, unravel_tup_agree (.tup l)]
end

theorem unravel_key_loop_agree : ∀ l : List Key, unravelKeyLoopPy l = unravelKeyLoopCpp l
  | [] => by simp [unravelKeyLoopPy, unravelKeyLoopCpp]
  | .str s :: rest => by simp [unravelKeyLoopPy, unravelKeyLoopCpp, unravel_key_loop_agree rest]
  | .bad :: rest => by
      simp [unravelKeyLoopPy, unravelKeyLoopCpp, unravel_key_loop_agree rest, unravel_tup_agree]
  | .tup l :: rest => by
      simp [unravelKeyLoopPy, unravelKeyLoopCpp, unravel_key_loop_agree rest, unravel_tup_agree]

/-- `unravel_key`: both paths return the same key, or both raise. -/
theorem unravel_key_agree (k : Key) : unravelKeyPy k = unravelKeyCpp k := by
  cases k <;> simp [unravelKeyPy, unravelKeyCpp, unravel_key_loop_agree]

theorem unravel_key_list_agree (l : List Key) : unravelKeyListPy l = unravelKeyListCpp l := by
  simp [unravelKeyListPy, unravelKeyListCpp, unravel_key_agree]

/-! call-level agreement: `unravel_key_list` (both C++ overloads + pybind dispatch) and `unravel_keys` -/

theorem unravel_key_list_loop_agree : ∀ l : List Key, unravelKeyListPyLoop l = unravelKeyListCppList l
  | [] => rfl
  | k :: rest => by
    simp only [unravelKeyListPyLoop, unravelKeyListCppList, unravel_key_agree k, unravel_key_list_loop_agree rest]

/-- `unravel_key_list(keys)` as a call: for a list, a tuple or any other object as `keys`, and any members
(valid or not), the Python path returns the same list as the native one, or both raise. -/
theorem unravel_key_list_call_agree (a : KeysArg) : unravelKeyListPyCall a = unravelKeyListCppCall a := by
  cases a <;> simp [unravelKeyListPyCall, unravelKeyListCppCall, unravelKeyListCppTuple, unravel_key_list_loop_agree]

/-- the two C++ overloads (list / tuple) cannot be told apart -/
theorem unravel_key_list_overloads_agree (l : List Key) :
    unravelKeyListCppCall (.tuple l) = unravelKeyListCppCall (.list l) := rfl

/-- the call-level result is the member-wise map exactly when no member is rejected (the first rejected
member aborts the call) -/
theorem unravel_key_list_call_eq_map : ∀ l : List Key,
    unravelKeyListCppList l = if (∀ k ∈ l, unravelKeyCpp k ≠ .err) then some (unravelKeyListCpp l) else none
  | [] => by simp [unravelKeyListCppList, unravelKeyListCpp]
  | k :: rest => by
    have ih := unravel_key_list_call_eq_map rest
    simp only [unravelKeyListCpp] at ih
    simp only [unravelKeyListCppList, unravelKeyListCpp, List.map_cons, List.mem_cons, forall_eq_or_imp, ih]
    cases h : unravelKeyCpp k <;> simp <;> split <;> simp_all

/-- `unravel_keys(*args)`: for any number of positional arguments the Python path does what the native alias
of `unravel_key` does (exactly one key is accepted). -/
theorem unravel_keys_agree (args : List Key) : unravelKeysPyCall args = unravelKeysCppCall args := by
  unfold unravelKeysPyCall unravelKeysCppCall
  match args with
  | [] => simp
  | [k] => simp [unravel_key_agree]
  | _ :: _ :: _ => simp

/-- with exception classes: `unravel_key`, `unravel_key_list(keys)` and `unravel_keys(*args)` return the same value
or raise the *same class* (RuntimeError for an invalid key, TypeError for a bad container / arity) on both paths. -/
theorem unravel_calls_agree_with_class (k : Key) (a : KeysArg) (args : List Key) :
    unravelKeyPyE k = unravelKeyCppE k
      ∧ unravelKeyListPyCallE a = unravelKeyListCppCallE a
      ∧ unravelKeysPyCallE args = unravelKeysCppCallE args := by
  have h1 : ∀ k, unravelKeyPyE k = unravelKeyCppE k := fun k => by
    simp [unravelKeyPyE, unravelKeyCppE, unravel_key_agree]
  refine ⟨h1 k, ?_, ?_⟩
  · cases a <;> simp [unravelKeyListPyCallE, unravelKeyListCppCallE, unravelKeyListCppTuple, unravel_key_list_loop_agree]
  · unfold unravelKeysPyCallE unravelKeysCppCallE
    match args with
    | [] => simp
    | [k] => simp [h1]
    | _ :: _ :: _ => simp

/-! what the unravellers compute, against the obvious specification (`leaves` = the strings left to right) -/

mutual
/-- on a well-formed nested key `_unravel_key_to_tuple` is the list of its strings -/
theorem unravel_tup_valid : ∀ k : Key, Valid k → unravelTupCpp k = leaves k
  | .str s, _ => by simp [unravelTupCpp, leaves]
  | .bad, h => by simp [Valid, validB] at h
  | .tup l, h => by
    simp only [Valid, validB] at h
    simp [unravelTupCpp, unravelTupCppL, leaves, unravel_tupLO_valid l h]
theorem unravel_tupLO_valid : ∀ l : List Key, ValidL l → unravelTupCppLO l = some (leavesL l)
  | [], _ => by simp [unravelTupCppLO, leavesL]
  | .str s :: rest, h => by
    simp only [ValidL, validLB] at h
    simp [unravelTupCppLO, leavesL, leaves, unravel_tupLO_valid rest h]
  | .bad :: rest, h => by simp [ValidL, validLB, validB] at h
  | .tup l :: rest, h => by
    simp only [ValidL, validLB, Bool.and_eq_true, Bool.not_eq_true', List.isEmpty_eq_false_iff] at h
    obtain ⟨⟨h1, h2⟩, h3⟩ := h
    have e := unravel_tup_valid (.tup l) h1
    simp only [unravelTupCppLO, leavesL, unravel_tupLO_valid rest h3, e]
    cases hl : leaves (.tup l) with
    | nil => exact absurd hl h2
    | cons a as => simp
end

theorem unravel_key_loop_valid : ∀ l : List Key, ValidL l → unravelKeyLoopCpp l = leavesL l
  | [], _ => by simp [unravelKeyLoopCpp, leavesL]
  | .str s :: rest, h => by
    simp only [ValidL, validLB] at h
    simp [unravelKeyLoopCpp, leavesL, leaves, unravel_key_loop_valid rest h]
  | .bad :: rest, h => by simp [ValidL, validLB, validB] at h
  | .tup l :: rest, h => by
    simp only [ValidL, validLB, Bool.and_eq_true] at h
    simp [unravelKeyLoopCpp, leavesL, unravel_key_loop_valid rest h.2, unravel_tup_valid (.tup l) h.1.1]

/-- `unravel_key` of a well-formed nested key: its strings, a single string being returned bare -/
theorem unravel_key_valid (l : List Key) (h : Valid (.tup l)) :
    unravelKeyCpp (.tup l) = packKey (leaves (.tup l)) := by
  simp only [Valid, validB] at h
  simp [unravelKeyCpp, leaves, unravel_key_loop_valid l h]

theorem unravel_key_loop_strs : ∀ l : List String, unravelKeyLoopCpp (l.map .str) = l
  | [] => rfl
  | s :: rest => by simp [unravelKeyLoopCpp, unravel_key_loop_strs rest]

/-- canonical form: unravelling an unravelled key changes nothing (`unravel_key` is idempotent), on both paths -/
theorem unravel_key_idempotent (k : Key) (h : unravelKeyCpp k ≠ .err) :
    unravelKeyCpp (unravelKeyCpp k).toKey = unravelKeyCpp k := by
  cases k with
  | str s => simp [unravelKeyCpp, KeyOut.toKey]
  | bad => simp [unravelKeyCpp] at h
  | tup l =>
    clear h
    simp only [unravelKeyCpp]
    generalize unravelKeyLoopCpp l = m
    match m with
    | [] => simp [packKey, KeyOut.toKey, unravelKeyLoopCpp]
    | [x] => simp [packKey, KeyOut.toKey]
    | a :: b :: r =>
      have := unravel_key_loop_strs (a :: b :: r)
      simp only [List.map_cons] at this
      simp [packKey, KeyOut.toKey, this]

example : Valid (.tup [.str "a", .tup [.tup [.str "b"], .str "c"]]) := by simp [Valid, validB, validLB, leaves, leavesL]
example : unravelKeyListCppCall (.tuple [.str "a", .tup [.str "b", .tup [.str "c"]]]) = some [.s "a", .t ["b", "c"]] := by
  simp [unravelKeyListCppCall, unravelKeyListCppTuple, unravelKeyListCppList, unravelKeyCpp, unravelKeyLoopCpp, unravelTupCpp,
    unravelTupCppL, unravelTupCppLO, packKey]
example : unravelKeysPyCall [.str "a", .str "b"] = none := by simp [unravelKeysPyCall]

-- non-vacuity / regression anchors (the three witnesses of DESIGN §7 rows 9, 10, now agreeing)
example : Gen.sliceIndices (some 0) (some 0) none 3 = .ok (0, 0, 1) := by rfl
example : unravelKeyPy (.tup [.str "a", .tup [.str "b", .str "c"]]) = .t ["a", "b", "c"] := by
  simp [unravelKeyPy, unravelKeyLoopPy, unravelTupPy, unravelTupPyL, unravelTupPyLO, packKey]
example : unravelTupPy (.tup [.str "a", .bad]) = [] := by
  simp [unravelTupPy, unravelTupPyL, unravelTupPyLO]

end TdVerif.Props.C18

namespace TdVerif.Props.C18
open TdVerif.Compile

/-- `_parse_batch_size`: the isinstance ladder used under compile returns what the eager
try/except returns, for every spelling of `batch_size` and every kind of `source`. -/
theorem parse_batch_size_agree (b : BsSpelling) (s : Src) : parseBsCompile b s = parseBsEager b s := by
  cases b <;> cases s <;> rfl

theorem lastIdx_lt (k : String) : ∀ (ks : List String) (i : Nat), lastIdx ks k = some i → i < ks.length
  | [], i, h => by simp [lastIdx] at h
  | k' :: ks, i, h => by
    simp only [lastIdx] at h
    cases hi : lastIdx ks k with
    | some j =>
      simp [hi] at h; have := lastIdx_lt k ks j hi; simp; omega
    | none =>
      simp [hi] at h; simp; omega

theorem lookup_branches_agree (k : String) :
    ∀ (ks : List String) (vs : List Int), ks.length = vs.length →
      (lastIdx ks k).bind (fun i => vs[i]?) = lookupLast (ks.zip vs) k
  | [], vs, _ => by simp [lastIdx, lookupLast]
  | k' :: ks, [], h => by simp at h
  | k' :: ks, v :: vs, h => by
    have ih := lookup_branches_agree k ks vs (by simpa using h)
    simp only [lastIdx, List.zip_cons_cons, lookupLast]
    cases hi : lastIdx ks k with
    | some i =>
      have hlt : i < vs.length := by have := lastIdx_lt k ks i hi; simp at h; omega
      simp [hi] at ih; simp [← ih, List.getElem?_eq_getElem hlt]
    | none => simp [hi] at ih; simp [← ih]; split <;> simp

/-- `_values_list(sorting_keys=…)`: the index-map branch (compile) equals the dict branch (eager),
including which key lists raise, for any key/value lists of equal length (duplicates allowed). -/
theorem values_list_branches_agree (ks : List String) (vs : List Int) (sk : List String)
    (h : ks.length = vs.length) : valuesIndex ks vs sk = valuesDict ks vs sk := by
  unfold valuesIndex valuesDict
  congr 1; funext k; exact lookup_branches_agree k ks vs h

theorem items_list_branches_agree (ks : List String) (vs : List Int) (sk : List String)
    (h : ks.length = vs.length) : itemsIndex ks vs sk = itemsDict ks vs sk := by
  unfold itemsIndex itemsDict; rw [values_list_branches_agree ks vs sk h]

example : valuesDict ["a", "b"] [1, 2] ["b", "a"] = some [2, 1] := by decide
example : valuesIndex ["a", "b"] [1, 2] ["b", "zz"] = none := by decide

end TdVerif.Props.C18

namespace TdVerif.Props.C18

/-- Every dual helper that is modelled on both branches (theorems above) still has a compile-only
branch in the current source (list regenerated on every run): if one is renamed or loses its
`is_compiling()` test the model is stale and this fails. Functions with a compile-only branch that are
NOT modelled are listed in the evidence (differential-only); a new one is reported there, it does not
break an obligation (a first version demanded that every such function be listed, which raised an
alarm on harmless repairs that added an `is_compiling()` guard — see DESIGN.md, Corrections). -/
theorem modelled_duals_present : ∀ f ∈ DualCoverage.modelled, f ∈ Gen.dualHelpers := by
  decide +kernel

end TdVerif.Props.C18

/-! ## `infer_size_impl` (eager) / `_infer_size_impl` (the copy torch.compile does not skip)

Both definitions are regenerated from tensordict/utils.py on every run (Gen/PyFuns.lean). -/
namespace TdVerif.Props.C18
open TdVerif.InferSize

/-- (a) the two copies agree on every shape (any length, any integers) and every numel,
including which exception is raised. -/
theorem infer_size_copies_agree (shape : List Int) (numel : Int) :
    Gen.inferSizeImplLocal shape numel = Gen.inferSizeImpl shape numel := by
  rw [genLocal_eq_infer, gen_eq_infer]

/-- the complete input/output relation: the translated code *is* the decision table `closedForm`
(AssertionError / ZeroDivisionError / the filled shape). -/
theorem infer_size_closed_form (shape : List Int) (numel : Int) :
    Gen.inferSizeImpl shape numel = closedForm shape numel := by
  rw [gen_eq_infer, infer_eq_closedForm]

/-- what an accepted call looks like: the shape was well-formed and the result is either the shape itself
(no placeholder, `numel` = its product) or the shape with its placeholder replaced by `numel / others`. -/
theorem infer_size_ok_cases (shape out : List Int) (numel : Int) (h : Gen.inferSizeImpl shape numel = .ok out) :
    Wellformed shape ∧
      ((shape.count (-1) = 0 ∧ numel = others shape ∧ out = shape) ∨
       (shape.count (-1) ≠ 0 ∧ 0 < others shape ∧ others shape ∣ numel ∧ out = shape.set (slot shape) (numel / others shape))) := by
  rw [infer_size_closed_form] at h
  unfold closedForm at h
  by_cases hw : Wellformed shape
  · refine ⟨hw, ?_⟩
    have hP := others_nonneg shape hw.1
    simp only [hw, not_true, if_false] at h
    by_cases hc : shape.count (-1) = 0
    · simp only [hc, if_true] at h
      by_cases hn : numel = others shape
      · simp only [hn, if_true, Except.ok.injEq] at h; exact .inl ⟨hc, hn, h.symm⟩
      · simp [hn] at h
    · simp only [hc, if_false] at h
      by_cases hn : numel = others shape
      · simp only [hn, if_true] at h
        by_cases h0 : others shape = 0
        · simp [h0] at h
        · simp only [h0, if_false, Except.ok.injEq] at h
          refine .inr ⟨hc, by omega, by rw [hn]; exact Int.dvd_refl _, ?_⟩
          rw [hn, Int.ediv_self h0]; exact h.symm
      · simp only [hn, if_false] at h
        by_cases hd : 0 < others shape ∧ others shape ∣ numel
        · simp only [hd, and_self, if_true, Except.ok.injEq] at h
          exact .inr ⟨hc, hd.1, hd.2, h.symm⟩
        · simp [hd] at h
  · simp [hw] at h

/-- (b) soundness: an accepted result has the rank of `shape`, keeps every entry that is not the
placeholder `-1`, multiplies to `numel`, and (for a non-negative `numel`) has no negative entry. -/
theorem infer_size_sound (shape out : List Int) (numel : Int) (h : Gen.inferSizeImpl shape numel = .ok out) :
    out.length = shape.length
      ∧ (∀ i : Nat, shape[i]? ≠ some (-1) → out[i]? = shape[i]?)
      ∧ out.prod = numel
      ∧ (0 ≤ numel → ∀ x ∈ out, 0 ≤ x) := by
  obtain ⟨hw, h | h⟩ := infer_size_ok_cases shape out numel h
  · obtain ⟨hc, hn, rfl⟩ := h
    have hnn := (nonneg_iff out).2 ⟨hw.1, hc⟩
    exact ⟨rfl, fun _ _ => rfl, by rw [hn, others_eq_prod out hnn], fun _ => hnn⟩
  · obtain ⟨hc, hpos, hdvd, rfl⟩ := h
    obtain ⟨h1, h2, h3, h4, h5⟩ := set_slot_spec (numel / others shape) shape hw hc
    refine ⟨by simp, ?_, ?_, ?_⟩
    · intro i hi
      have : slot shape ≠ i := by
        intro he; subst he; exact hi h4
      simp [List.getElem?_set_ne this]
    · rw [h1]; exact Int.ediv_mul_cancel hdvd
    · intro hn; exact h2 (Int.ediv_nonneg hn (by omega))

/-- (c1) acceptance, exactly: no entry below -1, at most one -1, and either `numel` is the product of
the other entries (and this is not the ambiguous `0 = ? * 0` corner) or there is a -1 and that product is
positive and divides `numel`. -/
theorem infer_size_ok_iff (shape : List Int) (numel : Int) :
    (∃ out, Gen.inferSizeImpl shape numel = .ok out) ↔
      Wellformed shape ∧
        ((numel = others shape ∧ ¬ (shape.count (-1) = 1 ∧ others shape = 0))
          ∨ (shape.count (-1) = 1 ∧ 0 < others shape ∧ others shape ∣ numel)) := by
  constructor
  · rintro ⟨out, h⟩
    obtain ⟨hw, h | h⟩ := infer_size_ok_cases shape out numel h
    · exact ⟨hw, .inl ⟨h.2.1, by omega⟩⟩
    · have := hw.2; exact ⟨hw, .inr ⟨by omega, h.2.1, h.2.2.1⟩⟩
  · rintro ⟨hw, h⟩
    rw [infer_size_closed_form]; unfold closedForm
    have := hw.2
    simp only [hw, not_true, if_false]
    by_cases hc : shape.count (-1) = 0
    · rcases h with ⟨hn, _⟩ | ⟨h1, _⟩
      · simp [hc, hn]
      · omega
    · have hc1 : shape.count (-1) = 1 := by omega
      simp only [hc, if_false]
      rcases h with ⟨hn, hz⟩ | ⟨_, hp, hd⟩
      · have h0 : others shape ≠ 0 := fun h0 => hz ⟨hc1, h0⟩
        simp [hn, h0]
      · by_cases hn : numel = others shape
        · have h0 : others shape ≠ 0 := by omega
          simp [hn, h0]
        · simp [hn, hp, hd]

/-- (c1') completeness in the usual sense: whenever a filling of the placeholder exists (`out` has the same
rank, keeps the fixed entries and multiplies to `numel`) and is not the ambiguous
`? * 0 = 0`, the function returns exactly that filling — so the answer is also unique. -/
theorem infer_size_complete (shape out : List Int) (numel : Int) (hw : Wellformed shape)
    (hlen : out.length = shape.length) (hag : ∀ i : Nat, shape[i]? ≠ some (-1) → out[i]? = shape[i]?)
    (hp : out.prod = numel)
    (hamb : ¬ (shape.count (-1) = 1 ∧ others shape = 0)) :
    Gen.inferSizeImpl shape numel = .ok out := by
  by_cases hc : shape.count (-1) = 0
  · have hsn := (nonneg_iff shape).2 ⟨hw.1, hc⟩
    have hno : ∀ i : Nat, shape[i]? ≠ some (-1) := by
      intro i hi; have := hsn (-1) (List.mem_of_getElem? hi); omega
    have heq : out = shape := List.ext_getElem? (fun i => hag i (hno i))
    subst heq
    rw [infer_size_closed_form]; unfold closedForm
    simp [hw, hc, ← hp, others_eq_prod out hsn]
  · have hc1 : shape.count (-1) = 1 := by have := hw.2; omega
    obtain ⟨h1, _, h3, h4, h5⟩ := set_slot_spec (out[slot shape]'(by
      have := (set_slot_spec 0 shape hw hc).2.2.1; omega)) shape hw hc
    have hlt : slot shape < out.length := by omega
    have heq : out = shape.set (slot shape) (out[slot shape]'hlt) := by
      apply List.ext_getElem?
      intro i
      by_cases hi : i = slot shape
      · subst hi; simp [List.getElem?_set_self h3, List.getElem?_eq_getElem hlt]
      · have hne : shape[i]? ≠ some (-1) := fun h => hi (h5 i h)
        rw [hag i hne, List.getElem?_set_ne (fun h => hi h.symm)]
    have hnum : numel = out[slot shape]'hlt * others shape := by rw [← hp, ← h1, ← heq]
    have h0 : others shape ≠ 0 := fun h0 => hamb ⟨hc1, h0⟩
    have hpos : 0 < others shape := by have := others_nonneg shape hw.1; omega
    have hdvd : others shape ∣ numel := by rw [hnum]; exact Int.dvd_mul_left _ _
    obtain ⟨out', h'⟩ := (infer_size_ok_iff shape numel).2 ⟨hw, .inr ⟨hc1, hpos, hdvd⟩⟩
    obtain ⟨_, hcase | hcase⟩ := infer_size_ok_cases shape out' numel h'
    · exact absurd hcase.1 hc
    · rw [h', hcase.2.2.2, hnum, Int.mul_ediv_cancel _ h0, ← heq]

/-- (d) agreement with torch's own rule, for every shape and every element count `numel ≥ 0`: `infer_size_impl`
accepts exactly the calls `Tensor.view/reshape` accept and fills the placeholder with the same value (the two
only differ in the exception raised: AssertionError / ZeroDivisionError vs RuntimeError). -/
theorem infer_size_matches_torch (shape : List Int) (numel : Int) (_hn : 0 ≤ numel) :
    accepted (Gen.inferSizeImpl shape numel) = accepted (torchInfer shape numel) := by
  rw [gen_eq_infer]
  unfold infer torchInfer
  cases hs : scan shape 0 (none, 1) with
  | error e => simp [accepted, bind, Except.bind]
  | ok st =>
    rcases st with ⟨d, n⟩
    have hnn : 0 ≤ n := by
      rw [scan_none] at hs
      by_cases hw : Wellformed shape
      · simp only [hw, if_true, Except.ok.injEq, Prod.mk.injEq] at hs
        have := others_nonneg shape hw.1
        rw [← hs.2]; simpa using this
      · simp [hw] at hs
    simp only [bind, Except.bind, post]
    have hmod : (n > 0 → (Int.fmod numel n = 0 ↔ numel % n = 0)) := by
      intro hp; rw [Int.fmod_eq_emod_of_nonneg _ hnn]
    have hdiv : Int.fdiv numel n = numel / n := Int.fdiv_eq_ediv_of_nonneg _ hnn
    by_cases hc : numel = n ∨ (d.isSome = true ∧ n > 0 ∧ Int.fmod numel n = 0)
    · have hc' : numel = n ∨ (d.isSome = true ∧ n > 0 ∧ numel % n = 0) := by
        rcases hc with h | ⟨h1, h2, h3⟩
        · exact .inl h
        · exact .inr ⟨h1, h2, (hmod h2).1 h3⟩
      simp only [hc, hc', not_true, if_false, if_true]
      cases d with
      | none => rfl
      | some v => by_cases h0 : n = 0 <;> simp [h0, accepted, hdiv]
    · have hc' : ¬ (numel = n ∨ (d.isSome = true ∧ n > 0 ∧ numel % n = 0)) := by
        rintro (h | ⟨h1, h2, h3⟩)
        · exact hc (.inl h)
        · exact hc (.inr ⟨h1, h2, (hmod h2).2 h3⟩)
      simp [hc, hc', accepted]

/-- (c2) the `[-1, 0]`-with-`numel = 0` corner, exactly: Python's `0 // 0`. -/
theorem infer_size_zero_division_iff (shape : List Int) (numel : Int) :
    Gen.inferSizeImpl shape numel = .error "ZeroDivisionError" ↔
      Wellformed shape ∧ shape.count (-1) = 1 ∧ others shape = 0 ∧ numel = 0 := by
  rw [infer_size_closed_form]; unfold closedForm
  by_cases hw : Wellformed shape
  · have := hw.2
    simp only [hw, not_true, if_false, true_and]
    by_cases hc : shape.count (-1) = 0
    · simp only [hc, if_true]
      by_cases hn : numel = others shape <;> simp [hn]
    · have hc1 : shape.count (-1) = 1 := by omega
      simp only [hc1, true_and]
      by_cases hn : numel = others shape
      · by_cases h0 : others shape = 0
        · simp [hn, h0]
        · simp [hn, h0]
      · simp only [hn, if_false]
        by_cases hd : 0 < others shape ∧ others shape ∣ numel
        · simp only [hd, and_self, if_true]
          constructor
          · intro h; simp at h
          · rintro ⟨h0, _⟩; omega
        · simp only [hd, if_false]
          constructor
          · intro h; simp at h
          · rintro ⟨h0, h1⟩; rw [h0, h1] at hn; exact absurd rfl hn
  · simp [hw]

/-- (c3) no other exception class exists. -/
theorem infer_size_error_class (shape : List Int) (numel : Int) (e : String)
    (h : Gen.inferSizeImpl shape numel = .error e) : e = "AssertionError" ∨ e = "ZeroDivisionError" := by
  rw [infer_size_closed_form] at h
  unfold closedForm at h
  repeat' split at h
  all_goals (cases h; try simp)

-- non-vacuity anchors for the infer_size theorems
example : Gen.inferSizeImpl [2, -1, 3] 12 = .ok [2, 2, 3] := by rfl
example : Gen.inferSizeImpl [-1, 0] 0 = .error "ZeroDivisionError" := by rfl
example : Gen.inferSizeImpl [-1, -1] 4 = .error "AssertionError" := by rfl
example : Gen.inferSizeImpl [0, -1] 5 = .error "AssertionError" := by rfl
example : InferSize.Wellformed [2, -1, 3] ∧ [2, -1, 3].count (-1) = 1 ∧ InferSize.others [2, -1, 3] = 6 := by decide

end TdVerif.Props.C18

/-! ## `_check_keys` (tensordict/utils.py): the key agreement test of torch.cat / torch.stack /
maybe_dense_stack / pad_sequence, on both branches of its `is_compiling()` test -/
namespace TdVerif.Props.C18
open TdVerif.CheckKeys

/-- the compile branch (set comprehensions) and the eager branch (`set(...)`) give the same outcome for
any number of operands with any key lists (repeats, any order), strict or not: both raise KeyError, or
both return the first operand's key list (strict), or sets with the same members (not strict). -/
theorem check_keys_branches_agree (tds : List (List String)) (strict : Bool) :
    Out.same (checkKeysCompile tds strict) (checkKeysEager tds strict) := by
  cases tds with
  | nil => simp [checkKeysCompile, checkKeysEager, Out.same]
  | cons first rest =>
    simp only [checkKeysCompile, checkKeysEager]
    rcases loops_agree strict rest (pySetComp first) (pySet first)
        (fun x => by rw [mem_pySetComp, mem_pySet]) with ⟨h1, h2⟩ | ⟨r, r', h1, h2, h3⟩
    · simp [h1, h2, Out.same]
    · simp only [h1, h2]
      cases strict <;> simp [Out.same, h3]

/-- strict mode (cat / stack): accepted exactly when every later operand has exactly the key set of the
first one — a later operand with a missing *or an extra* key is refused; and then the first operand's
keys are returned in its own order. -/
theorem check_keys_strict_iff (first : List String) (rest : List (List String)) :
    (checkKeysEager (first :: rest) true = .keys first ∧ ∀ k ∈ rest, ∀ x, x ∈ k ↔ x ∈ first) ∨
    (checkKeysEager (first :: rest) true = .keyError ∧ ¬ ∀ k ∈ rest, ∀ x, x ∈ k ↔ x ∈ first) := by
  simp only [checkKeysEager]
  rcases loopEager_strict rest (pySet first) with ⟨h1, h2⟩ | ⟨h1, h2⟩
  · left; refine ⟨by simp [h1], ?_⟩
    intro k hk x; rw [h2 k hk x, mem_pySet]
  · right; refine ⟨by simp [h1], ?_⟩
    intro hh; apply h2
    intro k hk x; rw [hh k hk x, mem_pySet]

/-- the same for the compile branch (corollary) -/
theorem check_keys_strict_compile_iff (first : List String) (rest : List (List String)) :
    (checkKeysCompile (first :: rest) true = .keys first ∧ ∀ k ∈ rest, ∀ x, x ∈ k ↔ x ∈ first) ∨
    (checkKeysCompile (first :: rest) true = .keyError ∧ ¬ ∀ k ∈ rest, ∀ x, x ∈ k ↔ x ∈ first) := by
  have ha := check_keys_branches_agree (first :: rest) true
  rcases check_keys_strict_iff first rest with ⟨h1, h2⟩ | ⟨h1, h2⟩
  · left; refine ⟨?_, h2⟩
    rw [h1] at ha
    cases hc : checkKeysCompile (first :: rest) true <;> simp_all [Out.same]
  · right; refine ⟨?_, h2⟩
    rw [h1] at ha
    cases hc : checkKeysCompile (first :: rest) true <;> simp_all [Out.same]

/-- non-strict mode (stack into `out`, pad_sequence): never raises, returns the keys common to all operands -/
theorem check_keys_nonstrict_inter (first : List String) (rest : List (List String)) :
    ∃ r, checkKeysEager (first :: rest) false = .set r ∧ ∀ x, x ∈ r ↔ ∀ k ∈ first :: rest, x ∈ k := by
  obtain ⟨r, hr, hm⟩ := loopEager_nonstrict rest (pySet first)
  refine ⟨r, by simp [checkKeysEager, hr], ?_⟩
  intro x; rw [hm x, mem_pySet]; simp

/-- `TensorDictSequential.forward` / `ProbabilisticTensorDictSequential.forward` with selected out keys: the
compile branch refreshes exactly the entries the eager branch refreshes — the out keys and every leaf of the
input (the order of a set is irrelevant to `update(keys_to_update=…)`). -/
theorem seq_keys_branches_agree (outKeys tdKeys : List String) (x : String) :
    (x ∈ seqKeysCompile outKeys tdKeys ↔ x ∈ seqKeysEager outKeys tdKeys)
      ∧ (x ∈ seqKeysEager outKeys tdKeys ↔ x ∈ outKeys ∨ x ∈ tdKeys) := by
  have h2 : x ∈ seqKeysEager outKeys tdKeys ↔ x ∈ outKeys ∨ x ∈ tdKeys := by
    simp [seqKeysEager, mem_pySet]
  refine ⟨?_, h2⟩
  rw [h2]
  simp only [seqKeysCompile, pyUnion, List.mem_append, List.mem_filter, mem_pySetComp, Bool.not_eq_true',
    List.contains_eq_mem, decide_eq_false_iff_not]
  constructor
  · rintro (h | ⟨h, _⟩)
    · exact .inl h
    · exact .inr h
  · rintro (h | h)
    · exact .inl h
    · by_cases hx : x ∈ outKeys
      · exact .inl hx
      · exact .inr ⟨h, by simpa [mem_pySetComp] using hx⟩

example : checkKeysEager [["a", "b"], ["b", "a"]] true = .keys ["a", "b"] := by decide
example : checkKeysEager [["a", "b"], ["b", "a", "c"]] true = .keyError := by decide
example : checkKeysCompile [["a", "b"], ["b", "a", "c"]] true = .keyError := by decide
example : checkKeysCompile [["a", "b", "c"], ["c", "a"]] false = .set ["a", "c"] := by decide

end TdVerif.Props.C18

/-! ## `_maybe_correct_neg_dim` (tensordict/utils.py; regenerated in Gen/PyFuns.lean): the dim normaliser used by
every dim-taking op on both the eager and the compile path -/
namespace TdVerif.Props.C18

/-- complete input/output relation: with `n = ndim` (or `len(shape)` when `ndim is None`), a dim is accepted
exactly when `-n ≤ dim < n`; the result is `dim` itself or `dim + n`; everything else is IndexError. -/
theorem maybe_correct_neg_dim_spec (dim : Int) (shape : List Int) (ndim : Option Int) :
    Gen.maybeCorrectNegDim dim shape ndim =
      (let n : Int := ndim.getD (Int.ofNat shape.length)
       if -n ≤ dim ∧ dim < n then .ok (if dim < 0 then dim + n else dim) else .error "IndexError") := by
  unfold Gen.maybeCorrectNegDim
  cases ndim <;> simp only [Option.getD] <;> (repeat' split) <;> first | rfl | (simp only [Except.ok.injEq]; omega) | omega | (exfalso; omega)

/-- an accepted dim is normalised into range and is congruent to the dim given -/
theorem maybe_correct_neg_dim_range (dim r : Int) (shape : List Int) (ndim : Option Int)
    (h : Gen.maybeCorrectNegDim dim shape ndim = .ok r) :
    let n : Int := ndim.getD (Int.ofNat shape.length)
    0 ≤ r ∧ r < n ∧ (r = dim ∨ r = dim + n) := by
  rw [maybe_correct_neg_dim_spec] at h
  simp only at h
  split at h
  · rename_i hr
    simp only [Except.ok.injEq] at h
    split at h
    · subst h; exact ⟨by omega, by omega, .inr rfl⟩
    · subst h; exact ⟨by omega, by omega, .inl rfl⟩
  · cases h

/-- normalising twice changes nothing, and the negative spelling `d - n` of a dim `0 ≤ d < n` designates the same dim -/
theorem maybe_correct_neg_dim_canonical (d : Int) (shape : List Int) (ndim : Option Int)
    (h0 : 0 ≤ d) (h1 : d < ndim.getD (Int.ofNat shape.length)) :
    Gen.maybeCorrectNegDim d shape ndim = .ok d
      ∧ Gen.maybeCorrectNegDim (d - ndim.getD (Int.ofNat shape.length)) shape ndim = .ok d := by
  rw [maybe_correct_neg_dim_spec, maybe_correct_neg_dim_spec]
  simp only
  constructor
  · rw [if_pos ⟨by omega, h1⟩, if_neg (by omega)]
  · rw [if_pos ⟨by omega, by omega⟩, if_pos (by omega)]
    congr 1; omega

example : Gen.maybeCorrectNegDim (-1) [4, 5, 6] none = .ok 2 := by rfl
example : Gen.maybeCorrectNegDim 3 [4, 5, 6] none = .error "IndexError" := by rfl
example : Gen.maybeCorrectNegDim (-2) [] (some 2) = .ok 0 := by rfl

end TdVerif.Props.C18

/-! ## `_parse_to` (tensordict/utils.py): the argument parser of `TensorDict.to`, whose compile branch is a
Python twin of torch's native `_parse_to` -/
namespace TdVerif.Props.C18
open TdVerif.ParseTo

/-- the binding loops of the Python twin (`for i in range(len(args))`, `for key in kwargs`, the two checks)
accept a call for a signature exactly when the call *fits* it in the declarative sense: positional arguments
take the first names, each keyword is a free name of the signature or `memory_format`, the required names
are bound, every value has the type its name demands. -/
theorem parse_to_signature_iff (s : Sig) (c : Call) (r : Res) :
    trySig s c = some r ↔ ∃ bound, Fits s c bound ∧ r = finish bound := trySig_iff s c r

/-- overload resolution of the twin = the native rule: the first of the three signatures that fits decides,
and a call that fits none is a TypeError — for every call (any positional values, any keywords). -/
theorem parse_to_first_fit (c : Call) :
    (∃ i, ∃ (h : i < sigs.length), ∃ bound, Fits sigs[i] c bound ∧ (∀ j (hj : j < i), ¬ ∃ b, Fits (sigs[j]'(by omega)) c b)
        ∧ parseToPy c = finish bound)
    ∨ ((∀ s ∈ sigs, ¬ ∃ b, Fits s c b) ∧ parseToPy c = .typeError) := by
  unfold parseToPy
  rcases firstFit c sigs with ⟨i, hi, bound, hf, hlt, hres⟩ | ⟨hall, hres⟩
  · exact .inl ⟨i, hi, bound, hf, hlt, by rw [hres]⟩
  · exact .inr ⟨hall, by rw [hres]⟩

/-- overload resolution is unambiguous: when the first positional argument is not a python int, all the
signatures that fit a call bind it to the same result — so the order of the three signatures only matters for
`to(1)`-like calls (device index for the first signature, a number for the third) -/
theorem parse_to_unambiguous (c : Call) (i j : Nat) (hi : i < sigs.length) (hj : j < sigs.length)
    (bi bj : List (String × Val)) (fi : Fits sigs[i] c bi) (fj : Fits sigs[j] c bj)
    (hint : ∀ n rest, c.pos ≠ .pyInt n :: rest) : finish bi = finish bj :=
  fits_unambiguous c i j hi hj bi bj fi fj hint

/-- hence, away from python-int first arguments, the twin returns what *any* fitting signature gives -/
theorem parse_to_any_fit (c : Call) (i : Nat) (hi : i < sigs.length) (b : List (String × Val))
    (f : Fits sigs[i] c b) (hint : ∀ n rest, c.pos ≠ .pyInt n :: rest) : parseToPy c = finish b := by
  rcases parse_to_first_fit c with ⟨j, hj, bj, fj, _, hres⟩ | ⟨hall, _⟩
  · rw [hres]; exact fits_unambiguous c j i hj hi bj b fj f hint
  · exact absurd ⟨b, f⟩ (hall sigs[i] (List.getElem_mem hi))

/-- the order does matter for a python int: first signature (a device index) wins over the third (a number) -/
example : parseToPy ⟨[.pyInt 1], []⟩ = .ok (some (accel 1)) none false none := by decide

/-- `copy=` (positional or keyword, whatever its value) is refused with RuntimeError once the call fits -/
theorem parse_to_copy_refused (bound : List (String × Val)) (h : (lookup bound "copy").isSome = true) :
    finish bound = .runtimeError := by
  simp [finish, h]

/-- the witnesses of the defect repaired in round 2: `to(dtype)` and `to(tensor)` (and a positional
`non_blocking`, `memory_format=`) are understood by the twin -/
theorem parse_to_dtype_first (t : Nat) (nb : Bool) :
    parseToPy ⟨[.dtype t, .pyBool nb], []⟩ = .ok none (some t) nb none := by
  cases nb <;> rfl
theorem parse_to_tensor_first (d t : Nat) (m : Nat) :
    parseToPy ⟨[.tensor d t], [("memory_format", .memfmt m)]⟩ = .ok (some d) (some t) false (some m) := by
  rfl

example : parseToPy ⟨[.dev 0, .dtype 5, .pyBool true], []⟩ = .ok (some 0) (some 5) true none := by decide
example : parseToPy ⟨[.dev 0], [("device", .dev 0)]⟩ = .typeError := by decide
example : parseToPy ⟨[.dev 0], [("copy", .pyBool false)]⟩ = .runtimeError := by decide
example : parseToPy ⟨[.pyInt 1, .pyBool true], []⟩ = .ok (some cpu) (some tInt64) true none := by decide
example : ∃ bound, Fits sigs[0] ⟨[.dev 0], [("dtype", .dtype 3)]⟩ bound := by
  obtain ⟨b, hb, _⟩ := (parse_to_signature_iff sigs[0] ⟨[.dev 0], [("dtype", .dtype 3)]⟩ (.ok (some 0) (some 3) false none)).1 (by decide)
  exact ⟨b, hb⟩

end TdVerif.Props.C18

/-! ## `TensorDict._new_unsafe` (tensordict/_td.py): unchecked constructor (eager) vs its compile branch, which
falls back to the checked constructor `TensorDict(...)` -/
namespace TdVerif.Props.C18
open TdVerif.NewUnsafe

/-- FULL STATEMENT (false of the code): `newUnsafeCompile src batch names lock = newUnsafeEager src batch names lock`
for every source, batch size and names.  It is false because the eager constructor checks nothing while the compile
branch runs the checked constructor (witnesses below); what holds — and what every op of the library relies on —
is agreement on the inputs its callers build: entries that carry the batch dims, one name per batch dim, distinct
non-None names. -/
theorem new_unsafe_branches_agree_partial (src : List (String × List Nat)) (batch : List Nat)
    (names : Option (List (Option String))) (lock : Bool) (h : Pre src batch names) :
    newUnsafeCompile src batch names lock = newUnsafeEager src batch names lock :=
  new_unsafe_agree src batch names lock h

/-- witness 1: an entry that does not start with the batch dims is stored by the eager constructor and refused
(RuntimeError "batch dimension mismatch") by the compile branch -/
theorem new_unsafe_shape_counterexample :
    newUnsafeEager [("a", [2, 3])] [3] none false = .ok ⟨[3], [none], false, [("a", [2, 3])]⟩
      ∧ newUnsafeCompile [("a", [2, 3])] [3] none false = .runtimeError := by decide

/-- witness 2: repeated dimension names are stored by the eager constructor and refused (ValueError) by the compile branch -/
theorem new_unsafe_names_counterexample :
    newUnsafeEager [("a", [2, 3])] [2, 3] (some [some "x", some "x"]) false
        = .ok ⟨[2, 3], [some "x", some "x"], false, [("a", [2, 3])]⟩
      ∧ newUnsafeCompile [("a", [2, 3])] [2, 3] (some [some "x", some "x"]) false = .valueError := by decide

/-- witness 3 (a laxity of the names setter that the model transcribes): names whose number of `None`s equals the number
of batch dims are silently erased by the checked constructor, even when there are too many of them -/
theorem new_unsafe_names_erased_counterexample :
    newUnsafeCompile [] [2, 3] (some [some "x", none, none]) false = .ok ⟨[2, 3], [none, none], false, []⟩
      ∧ newUnsafeEager [] [2, 3] (some [some "x", none, none]) false
          = .ok ⟨[2, 3], [some "x", none, none], false, []⟩ := by decide

example : Pre [("a", [2, 3]), ("b", [2])] [2] (some [some "t"]) := by
  refine ⟨by decide, ?_⟩
  intro l hl; cases hl; exact ⟨rfl, by decide⟩

end TdVerif.Props.C18

/-! ## `_from_tensordict` (tensordict/tensorclass.py): the key validation before a tensorclass is built from a
tensordict, on both branches of its `is_compiling()` test; and the two Python set builders themselves -/
namespace TdVerif.Props.C18
open TdVerif.FromTd TdVerif.CheckKeys

/-- `{k for k in xs}` and `set(xs)` (as modelled: insertion order) are the same list, for every `xs` — so the
compile-only spellings of the set constructions in `_check_keys`, `_from_tensordict`, `TensorDictSequential.forward`
cannot change an iteration order either. -/
theorem set_builders_agree (l : List String) : pySetComp l = pySet l := pySetComp_eq_pySet l

/-- both branches of the key validation give the same outcome (KeyError / ValueError / the same final non-tensor
dict) for any tensordict keys, any class fields and any non-tensor dict (or None). -/
theorem from_tensordict_branches_agree (tkeys exp : List String) (nt : Option (List (String × Bool))) :
    fromTdCompile tkeys exp nt = fromTdEager tkeys exp nt := from_td_agree tkeys exp nt

/-- an accepted call accounts for every field of the class: a tensor entry, or a binding in the non-tensor dict
(missing fields are added as `None` placeholders) -/
theorem from_tensordict_ok_covers (tkeys exp : List String) (nt : Option (List (String × Bool)))
    (d' : List (String × Bool)) (h : fromTdEager tkeys exp nt = .ok d') :
    ∀ k ∈ exp, k ∈ tkeys ∨ k ∈ d'.map (·.1) := from_td_ok_covers tkeys exp nt d' h

example : fromTdEager ["a"] ["a", "b", "s"] (some [("s", false)]) = .ok [("s", false), ("b", true)] := by decide
example : fromTdEager ["a", "s"] ["a", "s"] (some [("s", false)]) = .keyError := by decide
example : fromTdEager ["a", "s"] ["a", "s"] (some [("s", true)]) = .ok [] := by decide
example : fromTdCompile ["a", "zz"] ["a"] none = .valueError := by decide

end TdVerif.Props.C18

/-! ## memoised class predicates (`_is_tensorclass`, `_is_non_tensor`, `_pass_through_cls`, `_is_tensor_collection`):
memo switched off under torch.compile -/
namespace TdVerif.Props.C18
open TdVerif.Memo

/-- `_is_tensorclass`: its compile branch (memo read, not written) returns what the eager branch returns, in every state
of the memo -/
theorem memo_read_agree (w : World) (c : Nat) : (compileRead w c).1 = (eager w c).1 := by
  unfold compileRead eager; cases memoGet w.memo c <;> rfl

/-- FULL STATEMENT (false of the code): `(compileFresh w c).1 = (eager w c).1` in every state.  It is false when the memo
is stale (witness below); it holds — and the eager branch keeps the invariant — whenever the memo only holds what the
classes say. -/
theorem memo_fresh_agree_partial (w : World) (c : Nat) (h : Inv w) :
    (compileFresh w c).1 = (eager w c).1 ∧ Inv ⟨w.truth, (eager w c).2⟩ := by
  unfold compileFresh eager
  cases hg : memoGet w.memo c with
  | some b => exact ⟨(h c b hg).symm, h⟩
  | none =>
    refine ⟨rfl, ?_⟩
    intro c' b' hb
    simp only [memoGet, List.find?_cons] at hb
    by_cases hc : c = c'
    · subst hc; simp at hb; exact hb.symm
    · have : decide ((c, w.truth c).1 = c') = false := by simpa using hc
      simp only [this] at hb
      exact h c' b' hb

/-- witness: a class attribute changed after the first query — the eager branch answers from the stale memo, the compile
branch recomputes (replayed on the implementation on every run with a scratch class) -/
theorem memo_stale_counterexample :
    (eager ⟨fun _ => true, [(0, false)]⟩ 0).1 = false ∧ (compileFresh ⟨fun _ => true, [(0, false)]⟩ 0).1 = true := by
  decide

example : Inv ⟨fun c => c == 1, [(1, true), (2, false)]⟩ := by
  intro c b h
  simp only [memoGet, List.find?_cons] at h
  by_cases h1 : c = 1
  · subst h1; simp at h; simp [← h]
  · by_cases h2 : c = 2
    · subst h2; simp at h; simp [← h]
    · have e1 : decide ((1, true).1 = c) = false := by simp; omega
      have e2 : decide ((2, false).1 = c) = false := by simp; omega
      simp [e1, e2] at h

end TdVerif.Props.C18

/-! ## `consolidate` (tensordict/base.py): the contiguity test before `v.view(-1).view(torch.uint8)` has a compile-only
branch — open finding C18-consolidate-unit-stride -/
namespace TdVerif.Props.C18
open TdVerif.Consolidate

/-- the eager test clones every leaf that could not be viewed as bytes: no leaf fails, whatever its sizes, strides, offset -/
theorem consolidate_eager_leaf_always_ok (m : TMeta) (hwf : m.sizes.length = m.strides.length) : okEager m = true :=
  eager_always_ok m hwf

/-- FULL STATEMENT (false of the code): `okCompile m = okEager m` for every leaf.  The compile-only test (`not
is_contiguous()`) lets a leaf through unviewable exactly when it is contiguous, has at least one dim, exactly one element
and a last stride other than 1 (what `td[:1, 0]` produces) -/
theorem consolidate_compile_leaf_fails_iff (m : TMeta) :
    okCompile m = false ↔ isContig m = true ∧ m.sizes ≠ [] ∧ numel m = 1 ∧ lastStrideIsOne m = false :=
  compile_fails_iff m

/-- proved part: on every other leaf the two branches agree -/
theorem consolidate_branches_agree_partial (m : TMeta) (hwf : m.sizes.length = m.strides.length)
    (h : numel m ≠ 1 ∨ m.sizes = [] ∨ lastStrideIsOne m = true) : okCompile m = okEager m :=
  compile_ok_partial m hwf h

/-- the witness (shape (1,), stride (2,)), replayed on the implementation on every run -/
theorem consolidate_unit_stride_counterexample :
    okEager ⟨[1], [2], 0⟩ = true ∧ okCompile ⟨[1], [2], 0⟩ = false ∧ isContig ⟨[1], [2], 0⟩ = true :=
  compile_counterexample

end TdVerif.Props.C18
