/-
  C18 — native (C++) vs Python helpers, compile-only code paths: property theorems.
  Models: Gen.PyFuns (regenerated from /repo on every run), Model.Key (hand, tied by correspondence).
-/
import TdVerif.Gen.PyFuns
import TdVerif.Model.SliceSpec
import TdVerif.Model.Key
import TdVerif.Model.Compile
import TdVerif.Model.DualCoverage
import TdVerif.Gen.DualHelpers

namespace TdVerif.Props.C18
open TdVerif TdVerif.Key

/-- The compile-path `_slice_indices` (translated from the current source) *is* CPython's
`slice.indices`, for every start/stop/step (incl. `None`, zero step ↦ same error) and every length. -/
theorem slice_indices_eq_cpython (a b c : Option Int) (len : Int) :
    Gen.sliceIndices a b c len = SliceSpec.indices a b c len := by
  unfold Gen.sliceIndices SliceSpec.indices
  cases a <;> cases b <;> cases c <;> simp <;> grind

/-- corollary used by `_getitem_batch_size`: the two paths give the same `len(range(...))`. -/
theorem slice_len_agrees (a b c : Option Int) (len : Int) :
    (Gen.sliceIndices a b c len).map (fun (s, e, st) => SliceSpec.rangeLen s e st)
      = (SliceSpec.indices a b c len).map (fun (s, e, st) => SliceSpec.rangeLen s e st) := by
  rw [slice_indices_eq_cpython]

mutual
theorem unravel_tup_agree : ∀ k : Key, unravelTupPy k = unravelTupCpp k
  | .str s => by simp [unravelTupPy, unravelTupCpp]
  | .bad => by simp [unravelTupPy, unravelTupCpp]
  | .tup l => by simp [unravelTupPy, unravelTupCpp, unravelTupPyL, unravelTupCppL, unravel_tupLO_agree l]
theorem unravel_tupLO_agree : ∀ l : List Key, unravelTupPyLO l = unravelTupCppLO l
  | [] => by simp [unravelTupPyLO, unravelTupCppLO]
  | .str s :: rest => by simp [unravelTupPyLO, unravelTupCppLO, unravel_tupLO_agree rest]
  | .bad :: rest => by
      simp [unravelTupPyLO, unravelTupCppLO, unravel_tupLO_agree rest, unravel_tup_agree .bad]
  | .tup l :: rest => by
      simp [unravelTupPyLO, unravelTupCppLO, unravel_tupLO_agree rest, unravel_tup_agree (.tup l)]
end

theorem unravel_key_loop_agree : ∀ l : List Key, unravelKeyLoopPy l = unravelKeyLoopCpp l
  | [] => by simp [unravelKeyLoopPy, unravelKeyLoopCpp]
  | .str s :: rest => by simp [unravelKeyLoopPy, unravelKeyLoopCpp, unravel_key_loop_agree rest]
  | .bad :: rest => by
      simp [unravelKeyLoopPy, unravelKeyLoopCpp, unravel_key_loop_agree rest, unravel_tup_agree]
  | .tup l :: rest => by
      simp [unravelKeyLoopPy, unravelKeyLoopCpp, unravel_key_loop_agree rest, unravel_tup_agree]

/-- `unravel_key`: both paths return the same key, or both raise. -/
theorem unravel_key_agree (k : Key) : unravelKeyPy k = unravelKeyCpp k := by
  cases k <;> simp [unravelKeyPy, unravelKeyCpp, unravel_key_loop_agree]

theorem unravel_key_list_agree (l : List Key) : unravelKeyListPy l = unravelKeyListCpp l := by
  simp [unravelKeyListPy, unravelKeyListCpp, unravel_key_agree]

-- non-vacuity / regression anchors (the three witnesses of DESIGN §7 rows 9, 10, now agreeing)
example : Gen.sliceIndices (some 0) (some 0) none 3 = .ok (0, 0, 1) := by rfl
example : unravelKeyPy (.tup [.str "a", .tup [.str "b", .str "c"]]) = .t ["a", "b", "c"] := by
  simp [unravelKeyPy, unravelKeyLoopPy, unravelTupPy, unravelTupPyL, unravelTupPyLO, packKey]
example : unravelTupPy (.tup [.str "a", .bad]) = [] := by
  simp [unravelTupPy, unravelTupPyL, unravelTupPyLO]

end TdVerif.Props.C18

namespace TdVerif.Props.C18
open TdVerif.Compile

/-- `_parse_batch_size`: the isinstance ladder used under compile returns what the eager
try/except returns, for every spelling of `batch_size` and every kind of `source`. -/
theorem parse_batch_size_agree (b : BsSpelling) (s : Src) : parseBsCompile b s = parseBsEager b s := by
  cases b <;> cases s <;> rfl

theorem lastIdx_lt (k : String) : ∀ (ks : List String) (i : Nat), lastIdx ks k = some i → i < ks.length
  | [], i, h => by simp [lastIdx] at h
  | k' :: ks, i, h => by
    simp only [lastIdx] at h
    cases hi : lastIdx ks k with
    | some j =>
      simp [hi] at h; have := lastIdx_lt k ks j hi; simp; omega
    | none =>
      simp [hi] at h; simp; omega

theorem lookup_branches_agree (k : String) :
    ∀ (ks : List String) (vs : List Int), ks.length = vs.length →
      (lastIdx ks k).bind (fun i => vs[i]?) = lookupLast (ks.zip vs) k
  | [], vs, _ => by simp [lastIdx, lookupLast]
  | k' :: ks, [], h => by simp at h
  | k' :: ks, v :: vs, h => by
    have ih := lookup_branches_agree k ks vs (by simpa using h)
    simp only [lastIdx, List.zip_cons_cons, lookupLast]
    cases hi : lastIdx ks k with
    | some i =>
      have hlt : i < vs.length := by have := lastIdx_lt k ks i hi; simp at h; omega
      simp [hi] at ih; simp [← ih, List.getElem?_eq_getElem hlt]
    | none => simp [hi] at ih; simp [← ih]; split <;> simp

/-- `_values_list(sorting_keys=…)`: the index-map branch (compile) equals the dict branch (eager),
including which key lists raise, for any key/value lists of equal length (duplicates allowed). -/
theorem values_list_branches_agree (ks : List String) (vs : List Int) (sk : List String)
    (h : ks.length = vs.length) : valuesIndex ks vs sk = valuesDict ks vs sk := by
  unfold valuesIndex valuesDict
  congr 1; funext k; exact lookup_branches_agree k ks vs h

theorem items_list_branches_agree (ks : List String) (vs : List Int) (sk : List String)
    (h : ks.length = vs.length) : itemsIndex ks vs sk = itemsDict ks vs sk := by
  unfold itemsIndex itemsDict; rw [values_list_branches_agree ks vs sk h]

example : valuesDict ["a", "b"] [1, 2] ["b", "a"] = some [2, 1] := by decide
example : valuesIndex ["a", "b"] [1, 2] ["b", "zz"] = none := by decide

end TdVerif.Props.C18

namespace TdVerif.Props.C18

/-- Every dual helper that is modelled on both branches (theorems above) still has a compile-only
branch in the current source (list regenerated on every run): if one is renamed or loses its
`is_compiling()` test the model is stale and this fails. Functions with a compile-only branch that are
NOT modelled are listed in the evidence (differential-only); a new one is reported there, it does not
break an obligation (a first version demanded that every such function be listed, which raised an
alarm on harmless repairs that added an `is_compiling()` guard — see DESIGN.md, Corrections). -/
theorem modelled_duals_present : ∀ f ∈ DualCoverage.modelled, f ∈ Gen.dualHelpers := by
  decide +kernel

end TdVerif.Props.C18
