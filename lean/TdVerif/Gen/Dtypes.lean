-- GENERATED from /repo by harness/c11_gen.py on every run; do not edit

namespace TdVerif.Gen

/-- (dtype id, str(dtype), element_size) for every dtype of the two tables; id = rank of str(dtype) -/
def dtypes : List (Nat × String × Nat) := [(0, "torch.bfloat16", 2), (1, "torch.bool", 1), (2, "torch.complex128", 16), (3, "torch.complex32", 4), (4, "torch.complex64", 8), (5, "torch.float16", 2), (6, "torch.float32", 4), (7, "torch.float64", 8), (8, "torch.int16", 2), (9, "torch.int32", 4), (10, "torch.int64", 8), (11, "torch.int8", 1), (12, "torch.qint32", 4), (13, "torch.qint8", 1), (14, "torch.quint4x2", 1), (15, "torch.quint8", 1), (16, "torch.uint16", 2), (17, "torch.uint32", 4), (18, "torch.uint64", 8), (19, "torch.uint8", 1)]

/-- tensordict.utils._DTYPE2STRDTYPE as (dtype id, name), in dict order -/
def dtype2str : List (Nat × String) := [(0, "torch.bfloat16"), (1, "torch.bool"), (2, "torch.complex128"), (3, "torch.complex32"), (4, "torch.complex64"), (5, "torch.float16"), (6, "torch.float32"), (7, "torch.float64"), (8, "torch.int16"), (9, "torch.int32"), (10, "torch.int64"), (11, "torch.int8"), (12, "torch.qint32"), (13, "torch.qint8"), (14, "torch.quint4x2"), (15, "torch.quint8"), (19, "torch.uint8"), (16, "torch.uint16"), (17, "torch.uint32"), (18, "torch.uint64")]

/-- tensordict.utils._STRDTYPE2DTYPE as (name, dtype id), in dict order -/
def str2dtype : List (String × Nat) := [("torch.bfloat16", 0), ("torch.bool", 1), ("torch.complex128", 2), ("torch.complex32", 3), ("torch.complex64", 4), ("torch.float16", 5), ("torch.float32", 6), ("torch.float64", 7), ("torch.int16", 8), ("torch.int32", 9), ("torch.int64", 10), ("torch.int8", 11), ("torch.qint32", 12), ("torch.qint8", 13), ("torch.quint4x2", 14), ("torch.quint8", 15), ("torch.uint8", 19), ("torch.uint16", 16), ("torch.uint32", 17), ("torch.uint64", 18)]

end TdVerif.Gen
