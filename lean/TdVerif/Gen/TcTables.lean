-- GENERATED from the tensordict working tree by harness/c15_gen.py on every run; do not edit

import TdVerif.Model.C15Kinds

namespace TdVerif.Gen.Tc
open TdVerif.C15

/-- interned names, sorted; every table below holds indices into this list (509 names) -/
def nameTable : List String := [
  "_CONFLICTING_BATCH_SIZES", "_MutableMapping__marker", "_SHARED_INPLACE_ERROR", "__abs__", "__abstractmethods__", "__add__", "__and__", "__annotations__",
  "__bool__", "__class__", "__class_getitem__", "__contains__", "__dataclass_fields__", "__dataclass_params__", "__delattr__", "__delitem__",
  "__dict__", "__dir__", "__doc__", "__enter__", "__eq__", "__exit__", "__format__", "__ge__",
  "__getattr__", "__getattribute__", "__getitem__", "__getitems__", "__getstate__", "__gt__", "__hash__", "__iadd__",
  "__imul__", "__init__", "__init_subclass__", "__invert__", "__ipow__", "__isub__", "__iter__", "__itruediv__",
  "__le__", "__len__", "__lt__", "__match_args__", "__module__", "__mul__", "__ne__", "__neg__",
  "__new__", "__or__", "__pow__", "__radd__", "__rand__", "__reduce__", "__reduce_ex__", "__repr__",
  "__reversed__", "__rmul__", "__ror__", "__rpow__", "__rsub__", "__rtruediv__", "__rxor__", "__setattr__",
  "__setitem__", "__setstate__", "__sizeof__", "__slots__", "__str__", "__sub__", "__subclasshook__", "__torch_function__",
  "__truediv__", "__weakref__", "__xor__", "_abc_impl", "_add_batch_dim", "_apply_nest", "_batch_size_setter", "_batch_size_setter_checked",
  "_cache", "_cast_reduction", "_change_batch_size", "_check_batch_size", "_check_device", "_check_dim_name", "_check_is_shared", "_check_new_batch_size",
  "_check_unlock", "_clone", "_clone_recurse", "_convert_inplace", "_convert_to_tensor", "_convert_to_tensordict", "_create_nested_str", "_create_nested_tuple",
  "_data", "_default_get", "_depth", "_dtype", "_erase_cache", "_erase_cache_up", "_erase_names", "_exclude",
  "_fast_apply", "_flatten_keys_inplace", "_flatten_keys_outplace", "_from_dict_validated", "_from_module", "_from_tensordict", "_get_at_str", "_get_at_tuple",
  "_get_names_idx", "_get_non_tensor", "_get_str", "_get_sub_tensordict", "_get_tuple", "_get_tuple_maybe_non_tensor", "_grad", "_has_exclusive_keys",
  "_has_names", "_has_non_tensor", "_index_tensordict", "_inplace_set", "_inplace_tensor_operand", "_irecv", "_is_locked", "_is_memmap",
  "_is_non_tensor", "_is_shared", "_isend", "_items_list", "_lazy", "_legacy_permute", "_legacy_squeeze", "_legacy_transpose",
  "_legacy_unsqueeze", "_legacy_view", "_load_memmap", "_lock_parents_weakrefs", "_make_memmap_subtd", "_map", "_maybe_names", "_maybe_remove_batch_dim",
  "_maybe_set_shared_attributes", "_memmap_", "_memmap_prefix", "_multithread_apply_flat", "_multithread_apply_nest", "_multithread_rebuild", "_nested_keys", "_nested_meta_restore",
  "_nested_meta_snapshot", "_new_impl", "_new_unsafe", "_parse_batch_size", "_permute", "_propagate_lock", "_propagate_unlock", "_recv",
  "_reduce", "_reduce_get_metadata", "_reduce_vals_and_metadata", "_remove_batch_dim", "_rename_subtds", "_repeat", "_safe", "_select",
  "_send", "_set_at_str", "_set_at_tuple", "_set_device", "_set_dict", "_set_non_tensor", "_set_str", "_set_tuple",
  "_squeeze", "_stack_onto_", "_stack_onto_at_", "_stream", "_sync_all", "_td_dim_names", "_to_consolidated", "_to_cuda_with_pin_mem",
  "_to_module", "_transpose", "_unbind", "_unsqueeze", "_validate_key", "_validate_value", "_values_list", "_view",
  "_view_dtype", "abs", "abs_", "acos", "acos_", "add", "add_", "addcdiv",
  "addcdiv_", "addcmul", "addcmul_", "all", "amax", "amin", "any", "apply",
  "apply_", "as_tensor", "asin", "asin_", "atan", "atan_", "auto_batch_size_", "auto_device_",
  "batch_dims", "batch_size", "bfloat16", "bitwise_and", "bool", "bytes", "cat", "cat_from_tensordict",
  "cat_tensors", "ceil", "ceil_", "chunk", "clamp", "clamp_max", "clamp_max_", "clamp_min",
  "clamp_min_", "clear", "clear_device_", "clear_refs_for_compile_", "clone", "complex128", "complex32", "complex64",
  "consolidate", "contiguous", "copy", "copy_", "copy_at_", "cos", "cos_", "cosh",
  "cosh_", "cpu", "create_nested", "cuda", "cummax", "cummin", "data", "data_ptr",
  "del_", "densify", "depth", "detach", "detach_", "device", "dim", "div",
  "div_", "double", "dtype", "dumps", "empty", "empty_like", "entry_class", "erf",
  "erf_", "erfc", "erfc_", "exclude", "exp", "exp_", "expand", "expand_as",
  "expm1", "expm1_", "fields", "fill_", "filter_empty_", "filter_non_tensor_data", "flatten", "flatten_keys",
  "float", "float16", "float32", "float64", "floor", "floor_", "frac", "frac_",
  "from_any", "from_consolidated", "from_dataclass", "from_dict", "from_dict_instance", "from_h5", "from_module", "from_modules",
  "from_namedtuple", "from_pytree", "from_struct_array", "from_tensordict", "from_tuple", "fromkeys", "full_like", "gather",
  "gather_and_stack", "get", "get_at", "get_item_shape", "get_non_tensor", "grad", "half", "int",
  "int16", "int32", "int64", "int8", "irecv", "is_consolidated", "is_contiguous", "is_cpu",
  "is_cuda", "is_empty", "is_floating_point", "is_locked", "is_memmap", "is_meta", "is_shared", "isend",
  "isfinite", "isnan", "isneginf", "isposinf", "isreal", "items", "keys", "lazy_stack",
  "lerp", "lerp_", "lgamma", "lgamma_", "load", "load_", "load_memmap", "load_memmap_",
  "load_state_dict", "lock_", "log", "log10", "log10_", "log1p", "log1p_", "log2",
  "log2_", "log_", "logical_and", "logsumexp", "make_memmap", "make_memmap_from_storage", "make_memmap_from_tensor", "map",
  "map_iter", "masked_fill", "masked_fill_", "masked_select", "max", "maximum", "maximum_", "maybe_dense_stack",
  "mean", "memmap", "memmap_", "memmap_like", "memmap_refresh_", "min", "minimum", "minimum_",
  "mul", "mul_", "named_apply", "names", "nanmean", "nansum", "ndim", "ndimension",
  "neg", "neg_", "new_empty", "new_full", "new_ones", "new_tensor", "new_zeros", "non_tensor_items",
  "norm", "numel", "numpy", "ones_like", "param_count", "permute", "pin_memory", "pin_memory_",
  "pop", "popitem", "pow", "pow_", "prod", "qint32", "qint8", "quint4x2",
  "quint8", "rand_like", "randn_like", "reciprocal", "reciprocal_", "record_stream", "recv", "reduce",
  "refine_names", "rename", "rename_", "rename_key_", "repeat", "repeat_interleave", "replace", "requires_grad",
  "requires_grad_", "reshape", "round", "round_", "save", "saved_path", "select", "send",
  "separates", "set", "set_", "set_at_", "set_non_tensor", "setdefault", "shape", "share_memory_",
  "sigmoid", "sigmoid_", "sign", "sign_", "sin", "sin_", "sinh", "sinh_",
  "size", "softmax", "sorted_keys", "split", "split_keys", "sqrt", "sqrt_", "squeeze",
  "stack", "stack_from_tensordict", "stack_tensors", "state_dict", "std", "sub", "sub_", "sum",
  "tan", "tan_", "tanh", "tanh_", "to", "to_dict", "to_h5", "to_module",
  "to_namedtuple", "to_padded_tensor", "to_pytree", "to_struct_array", "to_tensordict", "tolist", "transpose", "trunc",
  "trunc_", "type", "uint16", "uint32", "uint64", "uint8", "unbind", "unflatten",
  "unflatten_keys", "unlock_", "unsqueeze", "update", "update_", "update_at_", "values", "var",
  "view", "where", "zero_", "zero_grad", "zeros_like"
]

/-- tensorclass.py `_METHOD_FROM_TD` (7 entries, source order) -/
def methodFromTd : List Nat := [267, 349, 377, 378, 379, 380, 436]

/-- tensorclass.py `_FALLBACK_METHOD_FROM_TD` (279 entries, source order) -/
def fallbackWrap : List Nat := [3, 5, 6, 8, 20, 31, 32, 35, 36, 37, 39, 45, 46, 47, 49, 50, 51, 52, 57, 59, 60, 61, 62, 69, 72, 74, 76, 77, 90, 96, 102, 103, 104, 105, 106, 115, 118, 141, 143, 145, 156, 163, 165, 167, 170, 175, 184, 193, 194, 195, 196, 197, 198, 199, 200, 201, 202, 203, 204, 205, 206, 207, 208, 209, 210, 211, 212, 213, 214, 215, 218, 219, 220, 222, 223, 224, 225, 226, 227, 228, 229, 230, 231, 232, 233, 234, 235, 237, 238, 239, 240, 241, 243, 244, 245, 246, 247, 248, 249, 250, 251, 252, 253, 257, 259, 260, 263, 264, 265, 268, 271, 272, 273, 274, 275, 276, 277, 278, 279, 280, 281, 283, 284, 285, 286, 287, 288, 289, 290, 291, 292, 293, 294, 295, 296, 297, 298, 301, 303, 304, 305, 306, 308, 309, 311, 312, 318, 319, 320, 321, 322, 323, 336, 337, 338, 339, 340, 343, 344, 345, 346, 347, 351, 353, 354, 355, 356, 357, 358, 359, 360, 361, 362, 363, 365, 367, 368, 369, 370, 371, 372, 373, 374, 375, 376, 381, 382, 383, 384, 385, 386, 388, 389, 392, 393, 394, 395, 396, 397, 398, 400, 405, 406, 407, 409, 410, 411, 412, 413, 414, 415, 416, 419, 420, 421, 424, 425, 426, 427, 428, 429, 430, 432, 433, 434, 435, 438, 440, 442, 444, 445, 448, 449, 450, 451, 452, 453, 454, 455, 457, 459, 460, 461, 462, 463, 464, 465, 466, 468, 469, 470, 471, 472, 473, 474, 475, 476, 478, 479, 480, 481, 482, 486, 487, 488, 489, 490, 491, 492, 493, 495, 496, 497, 498, 503, 504, 505, 506, 507]

/-- tensorclass.py `_FALLBACK_METHOD_FROM_TD_NOWRAP` (66 entries, source order) -/
def fallbackNowrap : List Nat := [11, 83, 84, 85, 88, 97, 110, 111, 112, 114, 116, 117, 120, 131, 142, 147, 148, 149, 157, 158, 161, 190, 216, 217, 221, 255, 258, 262, 266, 270, 315, 316, 324, 325, 326, 327, 328, 329, 330, 331, 332, 333, 334, 335, 341, 342, 364, 366, 387, 390, 391, 401, 402, 404, 408, 422, 423, 431, 437, 439, 446, 456, 458, 483, 485, 502]

/-- tensorclass.py `_FALLBACK_METHOD_FROM_TD_FORCE` (5 entries, source order) -/
def fallbackForce : List Nat := [23, 29, 40, 42, 58]

/-- tensorclass.py `_FALLBACK_METHOD_FROM_TD_COPY` (3 entries, source order) -/
def fallbackCopy : List Nat := [89, 236, 242]

/-- tensorclass.py `_CLEAR_METADATA` (2 entries, source order) -/
def clearMetadata : List Nat := [203, 206]

/-- tensorclass.py `_TD_PASS_THROUGH` (20 entries, source order) -/
def passThrough : List Nat := [222, 236, 269, 286, 310, 311, 371, 403, 405, 417, 418, 459, 463, 464, 486, 494, 495, 498, 505, 508]

/-- reflection: publicApi (308) -/
def publicApi : List Nat := [193, 194, 195, 196, 197, 198, 199, 200, 201, 202, 203, 204, 205, 206, 207, 208, 209, 210, 211, 212, 213, 214, 215, 216, 217, 218, 219, 220, 221, 222, 223, 224, 225, 226, 227, 228, 229, 230, 231, 232, 233, 234, 235, 236, 237, 238, 239, 240, 241, 242, 243, 244, 245, 246, 247, 248, 249, 250, 251, 252, 253, 254, 255, 256, 257, 258, 259, 260, 261, 262, 263, 264, 265, 266, 267, 268, 270, 271, 272, 273, 274, 275, 276, 277, 278, 279, 280, 281, 283, 284, 285, 286, 287, 288, 289, 290, 291, 292, 293, 294, 295, 296, 297, 298, 299, 300, 301, 302, 303, 304, 305, 306, 308, 309, 311, 312, 313, 314, 315, 316, 317, 318, 319, 320, 321, 322, 323, 324, 325, 326, 327, 328, 329, 330, 331, 332, 333, 334, 335, 336, 337, 338, 339, 340, 341, 342, 343, 344, 345, 346, 347, 348, 349, 350, 351, 352, 353, 354, 355, 356, 357, 358, 359, 360, 361, 362, 363, 364, 365, 366, 367, 368, 369, 370, 371, 372, 373, 374, 375, 376, 377, 378, 379, 380, 381, 382, 383, 384, 385, 386, 387, 388, 389, 390, 391, 392, 393, 394, 395, 396, 397, 398, 399, 400, 401, 402, 404, 405, 406, 407, 408, 409, 410, 411, 412, 413, 414, 415, 416, 419, 420, 421, 422, 423, 424, 425, 426, 427, 428, 429, 430, 431, 432, 433, 434, 435, 436, 437, 438, 439, 440, 441, 442, 443, 444, 445, 446, 447, 448, 449, 450, 451, 452, 453, 454, 455, 456, 457, 458, 459, 460, 461, 462, 463, 464, 465, 466, 467, 468, 469, 470, 471, 472, 473, 474, 475, 476, 477, 478, 479, 480, 481, 482, 483, 484, 485, 486, 487, 488, 489, 490, 491, 492, 493, 494, 495, 496, 497, 498, 499, 500, 501, 502, 503, 504, 505, 506, 507]

/-- reflection: operatorApi (40) -/
def operatorApi : List Nat := [3, 5, 6, 8, 11, 15, 19, 20, 21, 23, 26, 27, 29, 31, 32, 35, 36, 37, 38, 39, 40, 41, 42, 45, 46, 47, 49, 50, 51, 52, 57, 58, 59, 60, 61, 62, 64, 69, 72, 74]

/-- reflection: tdAttrs (496) -/
def tdAttrs : List Nat := [0, 1, 2, 3, 4, 5, 6, 7, 8, 9, 10, 11, 14, 15, 16, 17, 18, 19, 20, 21, 22, 23, 25, 26, 27, 28, 29, 30, 31, 32, 33, 34, 35, 36, 37, 38, 39, 40, 41, 42, 44, 45, 46, 47, 48, 49, 50, 51, 52, 53, 54, 55, 56, 57, 58, 59, 60, 61, 62, 63, 64, 65, 66, 67, 68, 69, 70, 71, 72, 73, 74, 75, 76, 77, 78, 79, 80, 81, 82, 83, 84, 85, 86, 87, 88, 89, 90, 91, 92, 93, 94, 95, 96, 97, 98, 99, 100, 101, 102, 103, 104, 105, 106, 107, 108, 110, 111, 112, 113, 114, 115, 116, 117, 118, 119, 120, 121, 122, 123, 124, 125, 126, 127, 128, 129, 130, 131, 132, 133, 134, 135, 136, 137, 138, 139, 140, 141, 142, 143, 144, 145, 146, 147, 148, 149, 150, 151, 152, 153, 154, 155, 156, 157, 158, 159, 160, 161, 162, 163, 164, 165, 166, 167, 168, 169, 170, 171, 172, 173, 174, 175, 176, 177, 178, 179, 180, 181, 182, 183, 184, 185, 186, 187, 188, 189, 190, 191, 192, 193, 194, 195, 196, 197, 198, 199, 200, 201, 202, 203, 204, 205, 206, 207, 208, 209, 210, 211, 212, 213, 214, 215, 216, 217, 218, 219, 220, 221, 222, 223, 224, 225, 226, 227, 228, 229, 230, 231, 232, 233, 234, 235, 236, 237, 238, 239, 240, 241, 242, 243, 244, 245, 246, 247, 248, 249, 250, 251, 252, 253, 254, 255, 256, 257, 258, 259, 260, 261, 262, 263, 264, 265, 266, 267, 268, 270, 271, 272, 273, 274, 275, 276, 277, 278, 279, 280, 281, 283, 284, 285, 286, 287, 288, 289, 290, 291, 292, 293, 294, 295, 296, 297, 298, 299, 300, 301, 302, 303, 304, 305, 306, 308, 309, 311, 312, 313, 314, 315, 316, 317, 318, 319, 320, 321, 322, 323, 324, 325, 326, 327, 328, 329, 330, 331, 332, 333, 334, 335, 336, 337, 338, 339, 340, 341, 342, 343, 344, 345, 346, 347, 348, 349, 350, 351, 352, 353, 354, 355, 356, 357, 358, 359, 360, 361, 362, 363, 364, 365, 366, 367, 368, 369, 370, 371, 372, 373, 374, 375, 376, 377, 378, 379, 380, 381, 382, 383, 384, 385, 386, 387, 388, 389, 390, 391, 392, 393, 394, 395, 396, 397, 398, 399, 400, 401, 402, 404, 405, 406, 407, 408, 409, 410, 411, 412, 413, 414, 415, 416, 419, 420, 421, 422, 423, 424, 425, 426, 427, 428, 429, 430, 431, 432, 433, 434, 435, 436, 437, 438, 439, 440, 441, 442, 443, 444, 445, 446, 447, 448, 449, 450, 451, 452, 453, 454, 455, 456, 457, 458, 459, 460, 461, 462, 463, 464, 465, 466, 467, 468, 469, 470, 471, 472, 473, 474, 475, 476, 477, 478, 479, 480, 481, 482, 483, 484, 485, 486, 487, 488, 489, 490, 491, 492, 493, 494, 495, 496, 497, 498, 499, 500, 501, 502, 503, 504, 505, 506, 507]

/-- reflection: tdProperties (18) -/
def tdProperties : List Nat := [121, 139, 216, 217, 254, 258, 261, 266, 317, 327, 328, 331, 387, 390, 431, 437, 446, 458]

/-- reflection: tdValueAttrs (21) -/
def tdValueAttrs : List Nat := [0, 1, 4, 7, 16, 18, 30, 44, 56, 67, 73, 75, 80, 123, 126, 128, 132, 146, 166, 179, 333]

/-- reflection: tdOwnClassmethods (6) -/
def tdOwnClassmethods : List Nat := [107, 108, 138, 154, 299, 302]

/-- reflection: tdClassmethods (25) -/
def tdClassmethods : List Nat := [10, 70, 71, 107, 108, 138, 154, 222, 296, 297, 298, 299, 301, 302, 303, 304, 305, 306, 308, 309, 343, 348, 350, 375, 464]

/-- reflection: objectAttrs (27) -/
def objectAttrs : List Nat := [9, 14, 16, 17, 18, 20, 22, 23, 25, 28, 29, 30, 33, 34, 40, 42, 44, 46, 48, 53, 54, 55, 63, 66, 68, 70, 73]

/-- reflection: dataclassAdds (7) -/
def dataclassAdds : List Nat := [12, 13, 20, 30, 33, 43, 55]

/-- reflection: dataclassAddsFrozen (9) -/
def dataclassAddsFrozen : List Nat := [12, 13, 14, 20, 30, 33, 43, 55, 63]

/-- reflection: handledFunctions (20) -/
def handledFunctions : List Nat := [222, 236, 269, 286, 310, 311, 371, 403, 405, 417, 418, 459, 463, 464, 486, 494, 495, 498, 505, 508]

/-- reflection: dunderNames (72) -/
def dunderNames : List Nat := [3, 4, 5, 6, 7, 8, 9, 10, 11, 12, 13, 14, 15, 16, 17, 18, 19, 20, 21, 22, 23, 24, 25, 26, 27, 28, 29, 30, 31, 32, 33, 34, 35, 36, 37, 38, 39, 40, 41, 42, 43, 44, 45, 46, 47, 48, 49, 50, 51, 52, 53, 54, 55, 56, 57, 58, 59, 60, 61, 62, 63, 64, 65, 66, 67, 68, 69, 70, 71, 72, 73, 74]

/-- tensorclass.py:_tensorclass, no-wrap loop: `is_property = ...` -/
def propertyRule : PropRule := .propertyOrValue

/-- the list a `for method_name in <LIST>` loop of `_tensorclass` ranges over -/
def tableOf : TableId → List Nat
  | .methodFromTd => methodFromTd
  | .fallbackWrap => fallbackWrap
  | .fallbackNowrap => fallbackNowrap
  | .fallbackForce => fallbackForce
  | .fallbackCopy => fallbackCopy

/-- tensorclass.py:_tensorclass — every `cls.X = …` / `setattr(cls, …)` in source order (55 steps) -/
def installProgram : List Step := [
  .assign 282 [] (.explicit "classmethod:dataclasses.fields"),  -- fields
  .assign 33 [] (.explicit "_init_wrapper"),  -- __init__
  .assign 109 [] (.explicit "classmethod:_from_tensordict"),  -- _from_tensordict
  .assign 307 [] (.explicit "alias:_from_tensordict"),  -- from_tensordict
  .assign 71 [.noAttr] (.explicit "classmethod:__torch_function__"),  -- __torch_function__
  .assign 28 [] (.explicit "_getstate"),  -- __getstate__
  .assign 65 [] (.explicit "_setstate"),  -- __setstate__
  .assign 24 [] (.explicit "_getattr"),  -- __getattr__
  .assign 63 [.notOwn] (.explicit "_setattr_wrapper"),  -- __setattr__
  .assign 26 [.notOwn] (.explicit "_getitem"),  -- __getitem__
  .assign 27 [.notOwn] (.explicit "_getitem"),  -- __getitems__
  .assign 64 [.notOwn] (.explicit "_setitem"),  -- __setitem__
  .assign 15 [.notOwn] (.explicit "_delitem"),  -- __delitem__
  .assign 55 [.notNonTensor] (.explicit "_repr"),  -- __repr__
  .assign 41 [.notOwn] (.explicit "_len"),  -- __len__
  .assign 20 [] (.explicit "_eq"),  -- __eq__
  .assign 46 [] (.explicit "_ne"),  -- __ne__
  .assign 49 [] (.explicit "_or"),  -- __or__
  .assign 74 [] (.explicit "_xor"),  -- __xor__
  .assign 8 [] (.explicit "_bool"),  -- __bool__
  .assign 399 [.noAttr, .noField] (.explicit "_non_tensor_items"),  -- non_tensor_items
  .assign 441 [.noAttr, .noField] (.explicit "_set"),  -- set
  .assign 443 [.noAttr, .noField] (.explicit "_set_at_"),  -- set_at_
  .assign 174 [.noAttr] (.explicit "_set_str"),  -- _set_str
  .assign 169 [.noAttr] (.explicit "_set_at_str"),  -- _set_at_str
  .assign 256 [.noAttr, .noField] (.explicit "_del_"),  -- del_
  .assign 313 [.noAttr, .noField] (.explicit "_get"),  -- get
  .assign 314 [.noAttr, .noField] (.explicit "_get_at"),  -- get_at
  .assign 494 [.noAttr, .noField] (.explicit "_unbind"),  -- unbind
  .assign 186 [] (.explicit "_unbind"),  -- _unbind
  .assign 467 [.noAttr, .noField] (.explicit "_state_dict"),  -- state_dict
  .assign 352 [.noAttr, .noField] (.explicit "_load_state_dict"),  -- load_state_dict
  .assign 145 [.noAttr, .noField] (.explicit "_memmap_"),  -- _memmap_
  .assign 447 [.noAttr, .noField] (.explicit "_share_memory_"),  -- share_memory_
  .assign 499 [.noAttr, .noField] (.explicit "_update"),  -- update
  .assign 500 [.noAttr, .noField] (.explicit "_update_"),  -- update_
  .assign 501 [.noAttr, .noField] (.explicit "_update_at_"),  -- update_at_
  .loop .methodFromTd [.noAttr] (.fromTD),  -- for method_name in _METHOD_FROM_TD
  .loop .fallbackWrap [.noAttr] (.wrap),  -- for method_name in _FALLBACK_METHOD_FROM_TD
  .loop .fallbackForce [] (.wrap),  -- for method_name in _FALLBACK_METHOD_FROM_TD_FORCE
  .loop .fallbackNowrap [.noAttr, .noField] (.nowrap),  -- for method_name in _FALLBACK_METHOD_FROM_TD_NOWRAP
  .loop .fallbackCopy [.noAttr] (.copy),  -- for method_name in _FALLBACK_METHOD_FROM_TD_COPY
  .assign 19 [] (.explicit "__enter__"),  -- __enter__
  .assign 21 [] (.explicit "__exit__"),  -- __exit__
  .assign 350 [.noAttr, .noField] (.fromTD),  -- load_memmap
  .assign 348 [.noAttr, .noField] (.fromTD),  -- load
  .assign 138 [.noAttr] (.explicit "classmethod:_load_memmap"),  -- _load_memmap
  .assign 299 [.noAttr, .noField] (.explicit "classmethod:_from_dict"),  -- from_dict
  .assign 300 [.noAttr, .noField] (.explicit "_from_dict_instance"),  -- from_dict_instance
  .classmethodLoop true,  -- for attr in TensorDict.__dict__: classmethods not in cls.__dict__ and not inherited as a classmethod object
  .assign 484 [.noAttr, .noField] (.explicit "_to_tensordict"),  -- to_tensordict
  .assign 261 [.noAttr, .noField] (.explicit "property:_device"),  -- device
  .assign 254 [.notNonTensor, .noAttr, .noField] (.explicit "property:_data"),  -- data
  .assign 317 [.noAttr, .noField] (.explicit "property:_grad"),  -- grad
  .assign 477 [.noAttr, .noField] (.explicit "_to_dict")  -- to_dict
]

end TdVerif.Gen.Tc
