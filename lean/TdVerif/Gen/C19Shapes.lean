-- GENERATED from /repo by harness/c07_gen.py on every run; do not edit
namespace TdVerif.Gen.C19

def shapes : List (String × String) := [
  ("tensordict/_td.py:TensorDict._add_batch_dim", "748fb499dcd7b5c4"),
  ("tensordict/_td.py:TensorDict._remove_batch_dim", "f3a1b37039fe6d7a"),
  ("tensordict/_td.py:TensorDict._maybe_remove_batch_dim", "6c58d6406fc796a4"),
  ("tensordict/_lazy.py:LazyStackedTensorDict._add_batch_dim", "0db99c84eebb2bde"),
  ("tensordict/_lazy.py:LazyStackedTensorDict._cached_add_batch_dims", "d6703e473f913976"),
  ("tensordict/_lazy.py:LazyStackedTensorDict._remove_batch_dim", "05d560da2d86573d"),
  ("tensordict/_lazy.py:LazyStackedTensorDict._maybe_remove_batch_dim", "a84a861622944643"),
  ("tensordict/nn/functional_modules.py:_process_batched_inputs", "f527a47a708d6c5e"),
  ("tensordict/nn/functional_modules.py:_create_batched_inputs", "439f6ee4e0729e5f"),
  ("tensordict/nn/functional_modules.py:_unwrap_batched", "594212d7481443a3")]

end TdVerif.Gen.C19
