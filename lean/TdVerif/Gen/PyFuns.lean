-- GENERATED from /repo by harness/gen_tables.py on every run; do not edit
namespace TdVerif.Gen

def sliceIndices (v_index_start : Option Int) (v_index_stop : Option Int) (v_index_step : Option Int) (v_len : Int) : Except String (Int × Int × Int) :=
  let v_step : Option Int := v_index_step
  match v_step with
  | none => (
    let v_step : Int := (1 : Int)
    if ((v_step > (0 : Int))) then (
      let v_lower : Int := (0 : Int)
      let v_upper : Int := v_len
      let v_start : Option Int := v_index_start
      let v_stop : Option Int := v_index_stop
      match v_start with
      | none => (
        if ((v_step > (0 : Int))) then (
          let v_start : Int := v_lower
          match v_stop with
          | none => (
            if ((v_step > (0 : Int))) then (
              let v_stop : Int := v_upper
              .ok (v_start, v_stop, v_step))
            else (
              let v_stop : Int := v_lower
              .ok (v_start, v_stop, v_step)))
          | some v_stop => (
            if ((v_stop < (0 : Int))) then (
              let v_stop : Int := (max v_lower (v_len + v_stop))
              .ok (v_start, v_stop, v_step))
            else (
              let v_stop : Int := (min v_upper v_stop)
              .ok (v_start, v_stop, v_step))))
        else (
          let v_start : Int := v_upper
          match v_stop with
          | none => (
            if ((v_step > (0 : Int))) then (
              let v_stop : Int := v_upper
              .ok (v_start, v_stop, v_step))
            else (
              let v_stop : Int := v_lower
              .ok (v_start, v_stop, v_step)))
          | some v_stop => (
            if ((v_stop < (0 : Int))) then (
              let v_stop : Int := (max v_lower (v_len + v_stop))
              .ok (v_start, v_stop, v_step))
            else (
              let v_stop : Int := (min v_upper v_stop)
              .ok (v_start, v_stop, v_step)))))
      | some v_start => (
        if ((v_start < (0 : Int))) then (
          let v_start : Int := (max v_lower (v_len + v_start))
          match v_stop with
          | none => (
            if ((v_step > (0 : Int))) then (
              let v_stop : Int := v_upper
              .ok (v_start, v_stop, v_step))
            else (
              let v_stop : Int := v_lower
              .ok (v_start, v_stop, v_step)))
          | some v_stop => (
            if ((v_stop < (0 : Int))) then (
              let v_stop : Int := (max v_lower (v_len + v_stop))
              .ok (v_start, v_stop, v_step))
            else (
              let v_stop : Int := (min v_upper v_stop)
              .ok (v_start, v_stop, v_step))))
        else (
          let v_start : Int := (min v_upper v_start)
          match v_stop with
          | none => (
            if ((v_step > (0 : Int))) then (
              let v_stop : Int := v_upper
              .ok (v_start, v_stop, v_step))
            else (
              let v_stop : Int := v_lower
              .ok (v_start, v_stop, v_step)))
          | some v_stop => (
            if ((v_stop < (0 : Int))) then (
              let v_stop : Int := (max v_lower (v_len + v_stop))
              .ok (v_start, v_stop, v_step))
            else (
              let v_stop : Int := (min v_upper v_stop)
              .ok (v_start, v_stop, v_step))))))
    else (
      let v_lower : Int := (- (1 : Int))
      let v_upper : Int := (v_len - (1 : Int))
      let v_start : Option Int := v_index_start
      let v_stop : Option Int := v_index_stop
      match v_start with
      | none => (
        if ((v_step > (0 : Int))) then (
          let v_start : Int := v_lower
          match v_stop with
          | none => (
            if ((v_step > (0 : Int))) then (
              let v_stop : Int := v_upper
              .ok (v_start, v_stop, v_step))
            else (
              let v_stop : Int := v_lower
              .ok (v_start, v_stop, v_step)))
          | some v_stop => (
            if ((v_stop < (0 : Int))) then (
              let v_stop : Int := (max v_lower (v_len + v_stop))
              .ok (v_start, v_stop, v_step))
            else (
              let v_stop : Int := (min v_upper v_stop)
              .ok (v_start, v_stop, v_step))))
        else (
          let v_start : Int := v_upper
          match v_stop with
          | none => (
            if ((v_step > (0 : Int))) then (
              let v_stop : Int := v_upper
              .ok (v_start, v_stop, v_step))
            else (
              let v_stop : Int := v_lower
              .ok (v_start, v_stop, v_step)))
          | some v_stop => (
            if ((v_stop < (0 : Int))) then (
              let v_stop : Int := (max v_lower (v_len + v_stop))
              .ok (v_start, v_stop, v_step))
            else (
              let v_stop : Int := (min v_upper v_stop)
              .ok (v_start, v_stop, v_step)))))
      | some v_start => (
        if ((v_start < (0 : Int))) then (
          let v_start : Int := (max v_lower (v_len + v_start))
          match v_stop with
          | none => (
            if ((v_step > (0 : Int))) then (
              let v_stop : Int := v_upper
              .ok (v_start, v_stop, v_step))
            else (
              let v_stop : Int := v_lower
              .ok (v_start, v_stop, v_step)))
          | some v_stop => (
            if ((v_stop < (0 : Int))) then (
              let v_stop : Int := (max v_lower (v_len + v_stop))
              .ok (v_start, v_stop, v_step))
            else (
              let v_stop : Int := (min v_upper v_stop)
              .ok (v_start, v_stop, v_step))))
        else (
          let v_start : Int := (min v_upper v_start)
          match v_stop with
          | none => (
            if ((v_step > (0 : Int))) then (
              let v_stop : Int := v_upper
              .ok (v_start, v_stop, v_step))
            else (
              let v_stop : Int := v_lower
              .ok (v_start, v_stop, v_step)))
          | some v_stop => (
            if ((v_stop < (0 : Int))) then (
              let v_stop : Int := (max v_lower (v_len + v_stop))
              .ok (v_start, v_stop, v_step))
            else (
              let v_stop : Int := (min v_upper v_stop)
              .ok (v_start, v_stop, v_step)))))))
  | some v_step => (
    if ((v_step = (0 : Int))) then (
      .error "ValueError")
    else (
      if ((v_step > (0 : Int))) then (
        let v_lower : Int := (0 : Int)
        let v_upper : Int := v_len
        let v_start : Option Int := v_index_start
        let v_stop : Option Int := v_index_stop
        match v_start with
        | none => (
          if ((v_step > (0 : Int))) then (
            let v_start : Int := v_lower
            match v_stop with
            | none => (
              if ((v_step > (0 : Int))) then (
                let v_stop : Int := v_upper
                .ok (v_start, v_stop, v_step))
              else (
                let v_stop : Int := v_lower
                .ok (v_start, v_stop, v_step)))
            | some v_stop => (
              if ((v_stop < (0 : Int))) then (
                let v_stop : Int := (max v_lower (v_len + v_stop))
                .ok (v_start, v_stop, v_step))
              else (
                let v_stop : Int := (min v_upper v_stop)
                .ok (v_start, v_stop, v_step))))
          else (
            let v_start : Int := v_upper
            match v_stop with
            | none => (
              if ((v_step > (0 : Int))) then (
                let v_stop : Int := v_upper
                .ok (v_start, v_stop, v_step))
              else (
                let v_stop : Int := v_lower
                .ok (v_start, v_stop, v_step)))
            | some v_stop => (
              if ((v_stop < (0 : Int))) then (
                let v_stop : Int := (max v_lower (v_len + v_stop))
                .ok (v_start, v_stop, v_step))
              else (
                let v_stop : Int := (min v_upper v_stop)
                .ok (v_start, v_stop, v_step)))))
        | some v_start => (
          if ((v_start < (0 : Int))) then (
            let v_start : Int := (max v_lower (v_len + v_start))
            match v_stop with
            | none => (
              if ((v_step > (0 : Int))) then (
                let v_stop : Int := v_upper
                .ok (v_start, v_stop, v_step))
              else (
                let v_stop : Int := v_lower
                .ok (v_start, v_stop, v_step)))
            | some v_stop => (
              if ((v_stop < (0 : Int))) then (
                let v_stop : Int := (max v_lower (v_len + v_stop))
                .ok (v_start, v_stop, v_step))
              else (
                let v_stop : Int := (min v_upper v_stop)
                .ok (v_start, v_stop, v_step))))
          else (
            let v_start : Int := (min v_upper v_start)
            match v_stop with
            | none => (
              if ((v_step > (0 : Int))) then (
                let v_stop : Int := v_upper
                .ok (v_start, v_stop, v_step))
              else (
                let v_stop : Int := v_lower
                .ok (v_start, v_stop, v_step)))
            | some v_stop => (
              if ((v_stop < (0 : Int))) then (
                let v_stop : Int := (max v_lower (v_len + v_stop))
                .ok (v_start, v_stop, v_step))
              else (
                let v_stop : Int := (min v_upper v_stop)
                .ok (v_start, v_stop, v_step))))))
      else (
        let v_lower : Int := (- (1 : Int))
        let v_upper : Int := (v_len - (1 : Int))
        let v_start : Option Int := v_index_start
        let v_stop : Option Int := v_index_stop
        match v_start with
        | none => (
          if ((v_step > (0 : Int))) then (
            let v_start : Int := v_lower
            match v_stop with
            | none => (
              if ((v_step > (0 : Int))) then (
                let v_stop : Int := v_upper
                .ok (v_start, v_stop, v_step))
              else (
                let v_stop : Int := v_lower
                .ok (v_start, v_stop, v_step)))
            | some v_stop => (
              if ((v_stop < (0 : Int))) then (
                let v_stop : Int := (max v_lower (v_len + v_stop))
                .ok (v_start, v_stop, v_step))
              else (
                let v_stop : Int := (min v_upper v_stop)
                .ok (v_start, v_stop, v_step))))
          else (
            let v_start : Int := v_upper
            match v_stop with
            | none => (
              if ((v_step > (0 : Int))) then (
                let v_stop : Int := v_upper
                .ok (v_start, v_stop, v_step))
              else (
                let v_stop : Int := v_lower
                .ok (v_start, v_stop, v_step)))
            | some v_stop => (
              if ((v_stop < (0 : Int))) then (
                let v_stop : Int := (max v_lower (v_len + v_stop))
                .ok (v_start, v_stop, v_step))
              else (
                let v_stop : Int := (min v_upper v_stop)
                .ok (v_start, v_stop, v_step)))))
        | some v_start => (
          if ((v_start < (0 : Int))) then (
            let v_start : Int := (max v_lower (v_len + v_start))
            match v_stop with
            | none => (
              if ((v_step > (0 : Int))) then (
                let v_stop : Int := v_upper
                .ok (v_start, v_stop, v_step))
              else (
                let v_stop : Int := v_lower
                .ok (v_start, v_stop, v_step)))
            | some v_stop => (
              if ((v_stop < (0 : Int))) then (
                let v_stop : Int := (max v_lower (v_len + v_stop))
                .ok (v_start, v_stop, v_step))
              else (
                let v_stop : Int := (min v_upper v_stop)
                .ok (v_start, v_stop, v_step))))
          else (
            let v_start : Int := (min v_upper v_start)
            match v_stop with
            | none => (
              if ((v_step > (0 : Int))) then (
                let v_stop : Int := v_upper
                .ok (v_start, v_stop, v_step))
              else (
                let v_stop : Int := v_lower
                .ok (v_start, v_stop, v_step)))
            | some v_stop => (
              if ((v_stop < (0 : Int))) then (
                let v_stop : Int := (max v_lower (v_len + v_stop))
                .ok (v_start, v_stop, v_step))
              else (
                let v_stop : Int := (min v_upper v_stop)
                .ok (v_start, v_stop, v_step))))))))

def inferSizeImpl (v_shape : List Int) (v_numel : Int) : Except String (List Int) :=
  let v_newsize : Int := (1 : Int)
  let v_infer_dim : Option Int := none
  match (List.range v_shape.length).foldlM (m := Except String) (fun (st__ : Option Int × Int) (i__ : Nat) =>
      let v_dim : Int := Int.ofNat i__
      let (v_infer_dim, v_newsize) := st__
      if (((v_shape.getD (Int.toNat v_dim) 0) = (- (1 : Int)))) then (
        match v_infer_dim with
        | none => (
          let v_infer_dim : Int := v_dim
          .ok ((some v_infer_dim), v_newsize))
        | some v_infer_dim => (
          .error "AssertionError"))
      else (
        if (((v_shape.getD (Int.toNat v_dim) 0) ≥ (0 : Int))) then (
          let v_newsize : Int := (v_newsize * (v_shape.getD (Int.toNat v_dim) 0))
          .ok (v_infer_dim, v_newsize))
        else (
          .error "AssertionError")))
      (v_infer_dim, v_newsize) with
  | .error e__ => .error e__
  | .ok (v_infer_dim, v_newsize) => (
    if (¬ (((v_numel = v_newsize)) ∨ ((v_infer_dim.isSome = true) ∧ ((v_newsize > (0 : Int))) ∧ (((Int.fmod v_numel v_newsize) = (0 : Int)))))) then (
      .error "AssertionError")
    else (
      let v_out : List Int := v_shape
      match v_infer_dim with
      | none => (
        .ok v_out)
      | some v_infer_dim => (
        if ((v_newsize = 0)) then .error "ZeroDivisionError" else (
          let v_out : List Int := v_out.set (Int.toNat v_infer_dim) (Int.fdiv v_numel v_newsize)
          .ok v_out))))

def inferSizeImplLocal (v_shape : List Int) (v_numel : Int) : Except String (List Int) :=
  let v_newsize : Int := (1 : Int)
  let v_infer_dim : Option Int := none
  match (List.range v_shape.length).foldlM (m := Except String) (fun (st__ : Option Int × Int) (i__ : Nat) =>
      let v_dim : Int := Int.ofNat i__
      let (v_infer_dim, v_newsize) := st__
      if (((v_shape.getD (Int.toNat v_dim) 0) = (- (1 : Int)))) then (
        match v_infer_dim with
        | none => (
          let v_infer_dim : Int := v_dim
          .ok ((some v_infer_dim), v_newsize))
        | some v_infer_dim => (
          .error "AssertionError"))
      else (
        if (((v_shape.getD (Int.toNat v_dim) 0) ≥ (0 : Int))) then (
          let v_newsize : Int := (v_newsize * (v_shape.getD (Int.toNat v_dim) 0))
          .ok (v_infer_dim, v_newsize))
        else (
          .error "AssertionError")))
      (v_infer_dim, v_newsize) with
  | .error e__ => .error e__
  | .ok (v_infer_dim, v_newsize) => (
    if (¬ (((v_numel = v_newsize)) ∨ ((v_infer_dim.isSome = true) ∧ ((v_newsize > (0 : Int))) ∧ (((Int.fmod v_numel v_newsize) = (0 : Int)))))) then (
      .error "AssertionError")
    else (
      let v_out : List Int := v_shape
      match v_infer_dim with
      | none => (
        .ok v_out)
      | some v_infer_dim => (
        if ((v_newsize = 0)) then .error "ZeroDivisionError" else (
          let v_out : List Int := v_out.set (Int.toNat v_infer_dim) (Int.fdiv v_numel v_newsize)
          .ok v_out))))

def maybeCorrectNegDim (v_dim : Int) (v_shape : List Int) (v_ndim : Option Int) : Except String (Int) :=
  match v_ndim with
  | none => (
    let v_ndim : Int := (Int.ofNat v_shape.length)
    if ((v_dim < (0 : Int))) then (
      let v_new_dim : Int := (v_ndim + v_dim)
      if (((v_new_dim < (0 : Int))) ∨ ((v_new_dim ≥ v_ndim))) then (
        .error "IndexError")
      else (
        .ok (v_new_dim)))
    else (
      let v_new_dim : Int := v_dim
      if (((v_new_dim < (0 : Int))) ∨ ((v_new_dim ≥ v_ndim))) then (
        .error "IndexError")
      else (
        .ok (v_new_dim))))
  | some v_ndim => (
    if ((v_dim < (0 : Int))) then (
      let v_new_dim : Int := (v_ndim + v_dim)
      if (((v_new_dim < (0 : Int))) ∨ ((v_new_dim ≥ v_ndim))) then (
        .error "IndexError")
      else (
        .ok (v_new_dim)))
    else (
      let v_new_dim : Int := v_dim
      if (((v_new_dim < (0 : Int))) ∨ ((v_new_dim ≥ v_ndim))) then (
        .error "IndexError")
      else (
        .ok (v_new_dim))))

def stDivmod (v_a : Int) (v_b : Int) : Except String (Int × Int) :=
  if ((v_b = 0)) then .error "ZeroDivisionError" else (
    let v_q : Int := (Int.fdiv v_a v_b)
    if ((v_b = 0)) then .error "ZeroDivisionError" else (
      let v_r : Int := (Int.fmod v_a v_b)
      .ok (v_q, v_r)))

def stClamp (v_x : Int) (v_lo : Int) (v_hi : Int) : Except String (Int) :=
  let v_y : Int := (max v_lo (min v_x v_hi))
  if ((v_lo ≤ v_y) ∧ (v_y ≤ v_hi)) then (
    .ok (v_y))
  else (
    .ok ((v_lo - (1 : Int))))

def stOpt (v_x : Option Int) (v_d : Int) : Except String (Int) :=
  match v_x with
  | none => (
    let v_x : Int := v_d
    if (True ∧ ((v_x ≠ (3 : Int)))) then (
      .ok ((v_x * (2 : Int))))
    else (
      .ok (((0 : Int) - v_x))))
  | some v_x => (
    if ((v_x < (0 : Int))) then (
      let v_x : Int := (- v_x)
      if (True ∧ ((v_x ≠ (3 : Int)))) then (
        .ok ((v_x * (2 : Int))))
      else (
        .ok (((0 : Int) - v_x))))
    else (
      if (True ∧ ((v_x ≠ (3 : Int)))) then (
        .ok ((v_x * (2 : Int))))
      else (
        .ok (((0 : Int) - v_x)))))

def stGuard (v_a : Int) (v_b : Int) : Except String (Int) :=
  if (((v_b ≠ (0 : Int))) ∧ (((Int.fmod v_a v_b) = (0 : Int)))) then (
    if ((v_b = 0)) then .error "ZeroDivisionError" else (
      .ok ((Int.fdiv v_a v_b))))
  else (
    if (((v_b < (0 : Int))) ∧ (((Int.fdiv v_a v_b) > (1 : Int)))) then (
      if ((v_b = 0)) then .error "ZeroDivisionError" else (
        .ok (((0 : Int) - (Int.fmod v_a v_b)))))
    else (
      .ok ((- (1 : Int)))))

def stLoop (v_xs : List Int) (v_k : Int) : Except String (List Int) :=
  let v_acc : Int := (0 : Int)
  let v_last : Option Int := none
  let v_out : List Int := v_xs
  match (List.range v_xs.length).foldlM (m := Except String) (fun (st__ : Int × List Int × Option Int) (i__ : Nat) =>
      let v_i : Int := Int.ofNat i__
      let (v_acc, v_out, v_last) := st__
      if (((v_xs.getD (Int.toNat v_i) 0) < (- (2 : Int)))) then (
        .error "ValueError")
      else (
        if (((Int.fmod (v_xs.getD (Int.toNat v_i) 0) (2 : Int)) = (0 : Int))) then (
          if ((v_k = 0)) then .error "ZeroDivisionError" else (
            let v_acc : Int := (v_acc + (Int.fdiv (v_xs.getD (Int.toNat v_i) 0) v_k))
            let v_out : List Int := v_out.set (Int.toNat v_i) v_acc
            .ok (v_acc, v_out, v_last)))
        else (
          match v_last with
          | none => (
            let v_last : Int := v_i
            let v_acc : Int := (v_acc - (1 : Int))
            .ok (v_acc, v_out, (some v_last)))
          | some v_last => (
            let v_acc : Int := (v_acc - (1 : Int))
            .ok (v_acc, v_out, (some v_last))))))
      (v_acc, v_out, v_last) with
  | .error e__ => .error e__
  | .ok (v_acc, v_out, v_last) => (
    match v_last with
    | none => (
      .ok v_out)
    | some v_last => (
      if (((5 : Int) = 0)) then .error "ZeroDivisionError" else (
        let v_out : List Int := v_out.set (Int.toNat v_last) (Int.fmod v_acc (5 : Int))
        .ok v_out)))

end TdVerif.Gen
