-- GENERATED from /repo by harness/gen_tables.py on every run; do not edit
namespace TdVerif.Gen

def sliceIndices (v_index_start : Option Int) (v_index_stop : Option Int) (v_index_step : Option Int) (v_len : Int) : Except String (Int × Int × Int) :=
  let v_step : Option Int := v_index_step
  match v_step with
  | none => (
    let v_step : Int := (1 : Int)
    if ((v_step > (0 : Int))) then (
      let v_lower : Int := (0 : Int)
      let v_upper : Int := v_len
      let v_start : Option Int := v_index_start
      let v_stop : Option Int := v_index_stop
      match v_start with
      | none => (
        if ((v_step > (0 : Int))) then (
          let v_start : Int := v_lower
          match v_stop with
          | none => (
            if ((v_step > (0 : Int))) then (
              let v_stop : Int := v_upper
              .ok (v_start, v_stop, v_step))
            else (
              let v_stop : Int := v_lower
              .ok (v_start, v_stop, v_step)))
          | some v_stop => (
            if ((v_stop < (0 : Int))) then (
              let v_stop : Int := (max v_lower (v_len + v_stop))
              .ok (v_start, v_stop, v_step))
            else (
              let v_stop : Int := (min v_upper v_stop)
              .ok (v_start, v_stop, v_step))))
        else (
          let v_start : Int := v_upper
          match v_stop with
          | none => (
            if ((v_step > (0 : Int))) then (
              let v_stop : Int := v_upper
              .ok (v_start, v_stop, v_step))
            else (
              let v_stop : Int := v_lower
              .ok (v_start, v_stop, v_step)))
          | some v_stop => (
            if ((v_stop < (0 : Int))) then (
              let v_stop : Int := (max v_lower (v_len + v_stop))
              .ok (v_start, v_stop, v_step))
            else (
              let v_stop : Int := (min v_upper v_stop)
              .ok (v_start, v_stop, v_step)))))
      | some v_start => (
        if ((v_start < (0 : Int))) then (
          let v_start : Int := (max v_lower (v_len + v_start))
          match v_stop with
          | none => (
            if ((v_step > (0 : Int))) then (
              let v_stop : Int := v_upper
              .ok (v_start, v_stop, v_step))
            else (
              let v_stop : Int := v_lower
              .ok (v_start, v_stop, v_step)))
          | some v_stop => (
            if ((v_stop < (0 : Int))) then (
              let v_stop : Int := (max v_lower (v_len + v_stop))
              .ok (v_start, v_stop, v_step))
            else (
              let v_stop : Int := (min v_upper v_stop)
              .ok (v_start, v_stop, v_step))))
        else (
          let v_start : Int := (min v_upper v_start)
          match v_stop with
          | none => (
            if ((v_step > (0 : Int))) then (
              let v_stop : Int := v_upper
              .ok (v_start, v_stop, v_step))
            else (
              let v_stop : Int := v_lower
              .ok (v_start, v_stop, v_step)))
          | some v_stop => (
            if ((v_stop < (0 : Int))) then (
              let v_stop : Int := (max v_lower (v_len + v_stop))
              .ok (v_start, v_stop, v_step))
            else (
              let v_stop : Int := (min v_upper v_stop)
              .ok (v_start, v_stop, v_step))))))
    else (
      let v_lower : Int := (- (1 : Int))
      let v_upper : Int := (v_len - (1 : Int))
      let v_start : Option Int := v_index_start
      let v_stop : Option Int := v_index_stop
      match v_start with
      | none => (
        if ((v_step > (0 : Int))) then (
          let v_start : Int := v_lower
          match v_stop with
          | none => (
            if ((v_step > (0 : Int))) then (
              let v_stop : Int := v_upper
              .ok (v_start, v_stop, v_step))
            else (
              let v_stop : Int := v_lower
              .ok (v_start, v_stop, v_step)))
          | some v_stop => (
            if ((v_stop < (0 : Int))) then (
              let v_stop : Int := (max v_lower (v_len + v_stop))
              .ok (v_start, v_stop, v_step))
            else (
              let v_stop : Int := (min v_upper v_stop)
              .ok (v_start, v_stop, v_step))))
        else (
          let v_start : Int := v_upper
          match v_stop with
          | none => (
            if ((v_step > (0 : Int))) then (
              let v_stop : Int := v_upper
              .ok (v_start, v_stop, v_step))
            else (
              let v_stop : Int := v_lower
              .ok (v_start, v_stop, v_step)))
          | some v_stop => (
            if ((v_stop < (0 : Int))) then (
              let v_stop : Int := (max v_lower (v_len + v_stop))
              .ok (v_start, v_stop, v_step))
            else (
              let v_stop : Int := (min v_upper v_stop)
              .ok (v_start, v_stop, v_step)))))
      | some v_start => (
        if ((v_start < (0 : Int))) then (
          let v_start : Int := (max v_lower (v_len + v_start))
          match v_stop with
          | none => (
            if ((v_step > (0 : Int))) then (
              let v_stop : Int := v_upper
              .ok (v_start, v_stop, v_step))
            else (
              let v_stop : Int := v_lower
              .ok (v_start, v_stop, v_step)))
          | some v_stop => (
            if ((v_stop < (0 : Int))) then (
              let v_stop : Int := (max v_lower (v_len + v_stop))
              .ok (v_start, v_stop, v_step))
            else (
              let v_stop : Int := (min v_upper v_stop)
              .ok (v_start, v_stop, v_step))))
        else (
          let v_start : Int := (min v_upper v_start)
          match v_stop with
          | none => (
            if ((v_step > (0 : Int))) then (
              let v_stop : Int := v_upper
              .ok (v_start, v_stop, v_step))
            else (
              let v_stop : Int := v_lower
              .ok (v_start, v_stop, v_step)))
          | some v_stop => (
            if ((v_stop < (0 : Int))) then (
              let v_stop : Int := (max v_lower (v_len + v_stop))
              .ok (v_start, v_stop, v_step))
            else (
              let v_stop : Int := (min v_upper v_stop)
              .ok (v_start, v_stop, v_step)))))))
  | some v_step => (
    if ((v_step = (0 : Int))) then (
      .error "ValueError")
    else (
      if ((v_step > (0 : Int))) then (
        let v_lower : Int := (0 : Int)
        let v_upper : Int := v_len
        let v_start : Option Int := v_index_start
        let v_stop : Option Int := v_index_stop
        match v_start with
        | none => (
          if ((v_step > (0 : Int))) then (
            let v_start : Int := v_lower
            match v_stop with
            | none => (
              if ((v_step > (0 : Int))) then (
                let v_stop : Int := v_upper
                .ok (v_start, v_stop, v_step))
              else (
                let v_stop : Int := v_lower
                .ok (v_start, v_stop, v_step)))
            | some v_stop => (
              if ((v_stop < (0 : Int))) then (
                let v_stop : Int := (max v_lower (v_len + v_stop))
                .ok (v_start, v_stop, v_step))
              else (
                let v_stop : Int := (min v_upper v_stop)
                .ok (v_start, v_stop, v_step))))
          else (
            let v_start : Int := v_upper
            match v_stop with
            | none => (
              if ((v_step > (0 : Int))) then (
                let v_stop : Int := v_upper
                .ok (v_start, v_stop, v_step))
              else (
                let v_stop : Int := v_lower
                .ok (v_start, v_stop, v_step)))
            | some v_stop => (
              if ((v_stop < (0 : Int))) then (
                let v_stop : Int := (max v_lower (v_len + v_stop))
                .ok (v_start, v_stop, v_step))
              else (
                let v_stop : Int := (min v_upper v_stop)
                .ok (v_start, v_stop, v_step)))))
        | some v_start => (
          if ((v_start < (0 : Int))) then (
            let v_start : Int := (max v_lower (v_len + v_start))
            match v_stop with
            | none => (
              if ((v_step > (0 : Int))) then (
                let v_stop : Int := v_upper
                .ok (v_start, v_stop, v_step))
              else (
                let v_stop : Int := v_lower
                .ok (v_start, v_stop, v_step)))
            | some v_stop => (
              if ((v_stop < (0 : Int))) then (
                let v_stop : Int := (max v_lower (v_len + v_stop))
                .ok (v_start, v_stop, v_step))
              else (
                let v_stop : Int := (min v_upper v_stop)
                .ok (v_start, v_stop, v_step))))
          else (
            let v_start : Int := (min v_upper v_start)
            match v_stop with
            | none => (
              if ((v_step > (0 : Int))) then (
                let v_stop : Int := v_upper
                .ok (v_start, v_stop, v_step))
              else (
                let v_stop : Int := v_lower
                .ok (v_start, v_stop, v_step)))
            | some v_stop => (
              if ((v_stop < (0 : Int))) then (
                let v_stop : Int := (max v_lower (v_len + v_stop))
                .ok (v_start, v_stop, v_step))
              else (
                let v_stop : Int := (min v_upper v_stop)
                .ok (v_start, v_stop, v_step))))))
      else (
        let v_lower : Int := (- (1 : Int))
        let v_upper : Int := (v_len - (1 : Int))
        let v_start : Option Int := v_index_start
        let v_stop : Option Int := v_index_stop
        match v_start with
        | none => (
          if ((v_step > (0 : Int))) then (
            let v_start : Int := v_lower
            match v_stop with
            | none => (
              if ((v_step > (0 : Int))) then (
                let v_stop : Int := v_upper
                .ok (v_start, v_stop, v_step))
              else (
                let v_stop : Int := v_lower
                .ok (v_start, v_stop, v_step)))
            | some v_stop => (
              if ((v_stop < (0 : Int))) then (
                let v_stop : Int := (max v_lower (v_len + v_stop))
                .ok (v_start, v_stop, v_step))
              else (
                let v_stop : Int := (min v_upper v_stop)
                .ok (v_start, v_stop, v_step))))
          else (
            let v_start : Int := v_upper
            match v_stop with
            | none => (
              if ((v_step > (0 : Int))) then (
                let v_stop : Int := v_upper
                .ok (v_start, v_stop, v_step))
              else (
                let v_stop : Int := v_lower
                .ok (v_start, v_stop, v_step)))
            | some v_stop => (
              if ((v_stop < (0 : Int))) then (
                let v_stop : Int := (max v_lower (v_len + v_stop))
                .ok (v_start, v_stop, v_step))
              else (
                let v_stop : Int := (min v_upper v_stop)
                .ok (v_start, v_stop, v_step)))))
        | some v_start => (
          if ((v_start < (0 : Int))) then (
            let v_start : Int := (max v_lower (v_len + v_start))
            match v_stop with
            | none => (
              if ((v_step > (0 : Int))) then (
                let v_stop : Int := v_upper
                .ok (v_start, v_stop, v_step))
              else (
                let v_stop : Int := v_lower
                .ok (v_start, v_stop, v_step)))
            | some v_stop => (
              if ((v_stop < (0 : Int))) then (
                let v_stop : Int := (max v_lower (v_len + v_stop))
                .ok (v_start, v_stop, v_step))
              else (
                let v_stop : Int := (min v_upper v_stop)
                .ok (v_start, v_stop, v_step))))
          else (
            let v_start : Int := (min v_upper v_start)
            match v_stop with
            | none => (
              if ((v_step > (0 : Int))) then (
                let v_stop : Int := v_upper
                .ok (v_start, v_stop, v_step))
              else (
                let v_stop : Int := v_lower
                .ok (v_start, v_stop, v_step)))
            | some v_stop => (
              if ((v_stop < (0 : Int))) then (
                let v_stop : Int := (max v_lower (v_len + v_stop))
                .ok (v_start, v_stop, v_step))
              else (
                let v_stop : Int := (min v_upper v_stop)
                .ok (v_start, v_stop, v_step))))))))

def inferSizeImpl (v_shape : List Int) (v_numel : Int) : Except String (List Int) :=
  let v_newsize : Int := (1 : Int)
  let v_infer_dim : Option Int := none
  match (List.range v_shape.length).foldlM (m := Except String) (fun (st__ : Option Int × Int) (i__ : Nat) =>
      let v_dim : Int := Int.ofNat i__
      let (v_infer_dim, v_newsize) := st__
      if (((v_shape.getD (Int.toNat v_dim) 0) = (- (1 : Int)))) then (
        match v_infer_dim with
        | none => (
          let v_infer_dim : Int := v_dim
          .ok ((some v_infer_dim), v_newsize))
        | some v_infer_dim => (
          .error "AssertionError"))
      else (
        if (((v_shape.getD (Int.toNat v_dim) 0) ≥ (0 : Int))) then (
          let v_newsize : Int := (v_newsize * (v_shape.getD (Int.toNat v_dim) 0))
          .ok (v_infer_dim, v_newsize))
        else (
          .error "AssertionError")))
      (v_infer_dim, v_newsize) with
  | .error e__ => .error e__
  | .ok (v_infer_dim, v_newsize) => (
    if (¬ (((v_numel = v_newsize)) ∨ ((v_infer_dim.isSome = true) ∧ ((v_newsize > (0 : Int))) ∧ (((Int.fmod v_numel v_newsize) = (0 : Int)))))) then (
      .error "AssertionError")
    else (
      let v_out : List Int := v_shape
      match v_infer_dim with
      | none => (
        .ok v_out)
      | some v_infer_dim => (
        if ((v_newsize = 0)) then .error "ZeroDivisionError" else (
          let v_out : List Int := v_out.set (Int.toNat v_infer_dim) (Int.fdiv v_numel v_newsize)
          .ok v_out))))

def inferSizeImplLocal (v_shape : List Int) (v_numel : Int) : Except String (List Int) :=
  let v_newsize : Int := (1 : Int)
  let v_infer_dim : Option Int := none
  match (List.range v_shape.length).foldlM (m := Except String) (fun (st__ : Option Int × Int) (i__ : Nat) =>
      let v_dim : Int := Int.ofNat i__
      let (v_infer_dim, v_newsize) := st__
      if (((v_shape.getD (Int.toNat v_dim) 0) = (- (1 : Int)))) then (
        match v_infer_dim with
        | none => (
          let v_infer_dim : Int := v_dim
          .ok ((some v_infer_dim), v_newsize))
        | some v_infer_dim => (
          .error "AssertionError"))
      else (
        if (((v_shape.getD (Int.toNat v_dim) 0) ≥ (0 : Int))) then (
          let v_newsize : Int := (v_newsize * (v_shape.getD (Int.toNat v_dim) 0))
          .ok (v_infer_dim, v_newsize))
        else (
          .error "AssertionError")))
      (v_infer_dim, v_newsize) with
  | .error e__ => .error e__
  | .ok (v_infer_dim, v_newsize) => (
    if (¬ (((v_numel = v_newsize)) ∨ ((v_infer_dim.isSome = true) ∧ ((v_newsize > (0 : Int))) ∧ (((Int.fmod v_numel v_newsize) = (0 : Int)))))) then (
      .error "AssertionError")
    else (
      let v_out : List Int := v_shape
      match v_infer_dim with
      | none => (
        .ok v_out)
      | some v_infer_dim => (
        if ((v_newsize = 0)) then .error "ZeroDivisionError" else (
          let v_out : List Int := v_out.set (Int.toNat v_infer_dim) (Int.fdiv v_numel v_newsize)
          .ok v_out))))

def maybeCorrectNegDim (v_dim : Int) (v_shape : List Int) (v_ndim : Option Int) : Except String (Int) :=
  match v_ndim with
  | none => (
    let v_ndim : Int := (Int.ofNat v_shape.length)
    if ((v_dim < (0 : Int))) then (
      let v_new_dim : Int := (v_ndim + v_dim)
      if (((v_new_dim < (0 : Int))) ∨ ((v_new_dim ≥ v_ndim))) then (
        .error "IndexError")
      else (
        .ok (v_new_dim)))
    else (
      let v_new_dim : Int := v_dim
      if (((v_new_dim < (0 : Int))) ∨ ((v_new_dim ≥ v_ndim))) then (
        .error "IndexError")
      else (
        .ok (v_new_dim))))
  | some v_ndim => (
    if ((v_dim < (0 : Int))) then (
      let v_new_dim : Int := (v_ndim + v_dim)
      if (((v_new_dim < (0 : Int))) ∨ ((v_new_dim ≥ v_ndim))) then (
        .error "IndexError")
      else (
        .ok (v_new_dim)))
    else (
      let v_new_dim : Int := v_dim
      if (((v_new_dim < (0 : Int))) ∨ ((v_new_dim ≥ v_ndim))) then (
        .error "IndexError")
      else (
        .ok (v_new_dim))))

end TdVerif.Gen
