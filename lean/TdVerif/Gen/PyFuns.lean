-- GENERATED from /repo by harness/gen_tables.py on every run; do not edit
namespace TdVerif.Gen

def sliceIndices (v_index_start : Option Int) (v_index_stop : Option Int) (v_index_step : Option Int) (v_len : Int) : Except String (Int × Int × Int) :=
  let v_step : Option Int := v_index_step
  match v_step with
  | none => (
    let v_step : Int := (1 : Int)
    if ((v_step > (0 : Int))) then (
      let v_lower : Int := (0 : Int)
      let v_upper : Int := v_len
      let v_start : Option Int := v_index_start
      let v_stop : Option Int := v_index_stop
      match v_start with
      | none => (
        if ((v_step > (0 : Int))) then (
          let v_start : Int := v_lower
          match v_stop with
          | none => (
            if ((v_step > (0 : Int))) then (
              let v_stop : Int := v_upper
              .ok (v_start, v_stop, v_step))
            else (
              let v_stop : Int := v_lower
              .ok (v_start, v_stop, v_step)))
          | some v_stop => (
            if ((v_stop < (0 : Int))) then (
              let v_stop : Int := (max v_lower (v_len + v_stop))
              .ok (v_start, v_stop, v_step))
            else (
              let v_stop : Int := (min v_upper v_stop)
              .ok (v_start, v_stop, v_step))))
        else (
          let v_start : Int := v_upper
          match v_stop with
          | none => (
            if ((v_step > (0 : Int))) then (
              let v_stop : Int := v_upper
              .ok (v_start, v_stop, v_step))
            else (
              let v_stop : Int := v_lower
              .ok (v_start, v_stop, v_step)))
          | some v_stop => (
            if ((v_stop < (0 : Int))) then (
              let v_stop : Int := (max v_lower (v_len + v_stop))
              .ok (v_start, v_stop, v_step))
            else (
              let v_stop : Int := (min v_upper v_stop)
              .ok (v_start, v_stop, v_step)))))
      | some v_start => (
        if ((v_start < (0 : Int))) then (
          let v_start : Int := (max v_lower (v_len + v_start))
          match v_stop with
          | none => (
            if ((v_step > (0 : Int))) then (
              let v_stop : Int := v_upper
              .ok (v_start, v_stop, v_step))
            else (
              let v_stop : Int := v_lower
              .ok (v_start, v_stop, v_step)))
          | some v_stop => (
            if ((v_stop < (0 : Int))) then (
              let v_stop : Int := (max v_lower (v_len + v_stop))
              .ok (v_start, v_stop, v_step))
            else (
              let v_stop : Int := (min v_upper v_stop)
              .ok (v_start, v_stop, v_step))))
        else (
          let v_start : Int := (min v_upper v_start)
          match v_stop with
          | none => (
            if ((v_step > (0 : Int))) then (
              let v_stop : Int := v_upper
              .ok (v_start, v_stop, v_step))
            else (
              let v_stop : Int := v_lower
              .ok (v_start, v_stop, v_step)))
          | some v_stop => (
            if ((v_stop < (0 : Int))) then (
              let v_stop : Int := (max v_lower (v_len + v_stop))
              .ok (v_start, v_stop, v_step))
            else (
              let v_stop : Int := (min v_upper v_stop)
              .ok (v_start, v_stop, v_step))))))
    else (
      let v_lower : Int := (- (1 : Int))
      let v_upper : Int := (v_len - (1 : Int))
      let v_start : Option Int := v_index_start
      let v_stop : Option Int := v_index_stop
      match v_start with
      | none => (
        if ((v_step > (0 : Int))) then (
          let v_start : Int := v_lower
          match v_stop with
          | none => (
            if ((v_step > (0 : Int))) then (
              let v_stop : Int := v_upper
              .ok (v_start, v_stop, v_step))
            else (
              let v_stop : Int := v_lower
              .ok (v_start, v_stop, v_step)))
          | some v_stop => (
            if ((v_stop < (0 : Int))) then (
              let v_stop : Int := (max v_lower (v_len + v_stop))
              .ok (v_start, v_stop, v_step))
            else (
              let v_stop : Int := (min v_upper v_stop)
              .ok (v_start, v_stop, v_step))))
        else (
          let v_start : Int := v_upper
          match v_stop with
          | none => (
            if ((v_step > (0 : Int))) then (
              let v_stop : Int := v_upper
              .ok (v_start, v_stop, v_step))
            else (
              let v_stop : Int := v_lower
              .ok (v_start, v_stop, v_step)))
          | some v_stop => (
            if ((v_stop < (0 : Int))) then (
              let v_stop : Int := (max v_lower (v_len + v_stop))
              .ok (v_start, v_stop, v_step))
            else (
              let v_stop : Int := (min v_upper v_stop)
              .ok (v_start, v_stop, v_step)))))
      | some v_start => (
        if ((v_start < (0 : Int))) then (
          let v_start : Int := (max v_lower (v_len + v_start))
          match v_stop with
          | none => (
            if ((v_step > (0 : Int))) then (
              let v_stop : Int := v_upper
              .ok (v_start, v_stop, v_step))
            else (
              let v_stop : Int := v_lower
              .ok (v_start, v_stop, v_step)))
          | some v_stop => (
            if ((v_stop < (0 : Int))) then (
              let v_stop : Int := (max v_lower (v_len + v_stop))
              .ok (v_start, v_stop, v_step))
            else (
              let v_stop : Int := (min v_upper v_stop)
              .ok (v_start, v_stop, v_step))))
        else (
          let v_start : Int := (min v_upper v_start)
          match v_stop with
          | none => (
            if ((v_step > (0 : Int))) then (
              let v_stop : Int := v_upper
              .ok (v_start, v_stop, v_step))
            else (
              let v_stop : Int := v_lower
              .ok (v_start, v_stop, v_step)))
          | some v_stop => (
            if ((v_stop < (0 : Int))) then (
              let v_stop : Int := (max v_lower (v_len + v_stop))
              .ok (v_start, v_stop, v_step))
            else (
              let v_stop : Int := (min v_upper v_stop)
              .ok (v_start, v_stop, v_step)))))))
  | some v_step => (
    if ((v_step = (0 : Int))) then (
      .error "ValueError")
    else (
      if ((v_step > (0 : Int))) then (
        let v_lower : Int := (0 : Int)
        let v_upper : Int := v_len
        let v_start : Option Int := v_index_start
        let v_stop : Option Int := v_index_stop
        match v_start with
        | none => (
          if ((v_step > (0 : Int))) then (
            let v_start : Int := v_lower
            match v_stop with
            | none => (
              if ((v_step > (0 : Int))) then (
                let v_stop : Int := v_upper
                .ok (v_start, v_stop, v_step))
              else (
                let v_stop : Int := v_lower
                .ok (v_start, v_stop, v_step)))
            | some v_stop => (
              if ((v_stop < (0 : Int))) then (
                let v_stop : Int := (max v_lower (v_len + v_stop))
                .ok (v_start, v_stop, v_step))
              else (
                let v_stop : Int := (min v_upper v_stop)
                .ok (v_start, v_stop, v_step))))
          else (
            let v_start : Int := v_upper
            match v_stop with
            | none => (
              if ((v_step > (0 : Int))) then (
                let v_stop : Int := v_upper
                .ok (v_start, v_stop, v_step))
              else (
                let v_stop : Int := v_lower
                .ok (v_start, v_stop, v_step)))
            | some v_stop => (
              if ((v_stop < (0 : Int))) then (
                let v_stop : Int := (max v_lower (v_len + v_stop))
                .ok (v_start, v_stop, v_step))
              else (
                let v_stop : Int := (min v_upper v_stop)
                .ok (v_start, v_stop, v_step)))))
        | some v_start => (
          if ((v_start < (0 : Int))) then (
            let v_start : Int := (max v_lower (v_len + v_start))
            match v_stop with
            | none => (
              if ((v_step > (0 : Int))) then (
                let v_stop : Int := v_upper
                .ok (v_start, v_stop, v_step))
              else (
                let v_stop : Int := v_lower
                .ok (v_start, v_stop, v_step)))
            | some v_stop => (
              if ((v_stop < (0 : Int))) then (
                let v_stop : Int := (max v_lower (v_len + v_stop))
                .ok (v_start, v_stop, v_step))
              else (
                let v_stop : Int := (min v_upper v_stop)
                .ok (v_start, v_stop, v_step))))
          else (
            let v_start : Int := (min v_upper v_start)
            match v_stop with
            | none => (
              if ((v_step > (0 : Int))) then (
                let v_stop : Int := v_upper
                .ok (v_start, v_stop, v_step))
              else (
                let v_stop : Int := v_lower
                .ok (v_start, v_stop, v_step)))
            | some v_stop => (
              if ((v_stop < (0 : Int))) then (
                let v_stop : Int := (max v_lower (v_len + v_stop))
                .ok (v_start, v_stop, v_step))
              else (
                let v_stop : Int := (min v_upper v_stop)
                .ok (v_start, v_stop, v_step))))))
      else (
        let v_lower : Int := (- (1 : Int))
        let v_upper : Int := (v_len - (1 : Int))
        let v_start : Option Int := v_index_start
        let v_stop : Option Int := v_index_stop
        match v_start with
        | none => (
          if ((v_step > (0 : Int))) then (
            let v_start : Int := v_lower
            match v_stop with
            | none => (
              if ((v_step > (0 : Int))) then (
                let v_stop : Int := v_upper
                .ok (v_start, v_stop, v_step))
              else (
                let v_stop : Int := v_lower
                .ok (v_start, v_stop, v_step)))
            | some v_stop => (
              if ((v_stop < (0 : Int))) then (
                let v_stop : Int := (max v_lower (v_len + v_stop))
                .ok (v_start, v_stop, v_step))
              else (
                let v_stop : Int := (min v_upper v_stop)
                .ok (v_start, v_stop, v_step))))
          else (
            let v_start : Int := v_upper
            match v_stop with
            | none => (
              if ((v_step > (0 : Int))) then (
                let v_stop : Int := v_upper
                .ok (v_start, v_stop, v_step))
              else (
                let v_stop : Int := v_lower
                .ok (v_start, v_stop, v_step)))
            | some v_stop => (
              if ((v_stop < (0 : Int))) then (
                let v_stop : Int := (max v_lower (v_len + v_stop))
                .ok (v_start, v_stop, v_step))
              else (
                let v_stop : Int := (min v_upper v_stop)
                .ok (v_start, v_stop, v_step)))))
        | some v_start => (
          if ((v_start < (0 : Int))) then (
            let v_start : Int := (max v_lower (v_len + v_start))
            match v_stop with
            | none => (
              if ((v_step > (0 : Int))) then (
                let v_stop : Int := v_upper
                .ok (v_start, v_stop, v_step))
              else (
                let v_stop : Int := v_lower
                .ok (v_start, v_stop, v_step)))
            | some v_stop => (
              if ((v_stop < (0 : Int))) then (
                let v_stop : Int := (max v_lower (v_len + v_stop))
                .ok (v_start, v_stop, v_step))
              else (
                let v_stop : Int := (min v_upper v_stop)
                .ok (v_start, v_stop, v_step))))
          else (
            let v_start : Int := (min v_upper v_start)
            match v_stop with
            | none => (
              if ((v_step > (0 : Int))) then (
                let v_stop : Int := v_upper
                .ok (v_start, v_stop, v_step))
              else (
                let v_stop : Int := v_lower
                .ok (v_start, v_stop, v_step)))
            | some v_stop => (
              if ((v_stop < (0 : Int))) then (
                let v_stop : Int := (max v_lower (v_len + v_stop))
                .ok (v_start, v_stop, v_step))
              else (
                let v_stop : Int := (min v_upper v_stop)
                .ok (v_start, v_stop, v_step))))))))

end TdVerif.Gen
