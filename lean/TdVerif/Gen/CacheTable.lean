-- GENERATED from the tensordict working tree by harness/c06_gen.py on every run; do not edit
namespace TdVerif.Gen.CacheTable

inductive PKind | value | callable | other
  deriving Repr, DecidableEq

structure Cached where
  file : String
  cls : String
  name : String
  params : List (String × PKind)
  isProperty : Bool
  isAbstract : Bool
  deriving Repr

/-- every `@cache` site of the source -/
def cached : List Cached := [
  ⟨"tensordict/base.py", "TensorDictBase", "_dtype", [], false, false⟩,
  ⟨"tensordict/base.py", "TensorDictBase", "_depth", [], false, false⟩,
  ⟨"tensordict/base.py", "TensorDictBase", "param_count", [("count_duplicates", .value)], false, false⟩,
  ⟨"tensordict/base.py", "TensorDictBase", "bytes", [("count_duplicates", .value)], false, false⟩,
  ⟨"tensordict/base.py", "TensorDictBase", "_values_list", [("include_nested", .value), ("leaves_only", .value), ("collapse", .value), ("is_leaf", .callable), ("sorting_keys", .value)], false, false⟩,
  ⟨"tensordict/base.py", "TensorDictBase", "_items_list", [("include_nested", .value), ("leaves_only", .value), ("collapse", .value), ("is_leaf", .callable), ("sorting_keys", .value), ("default", .other)], false, false⟩,
  ⟨"tensordict/base.py", "TensorDictBase", "sorted_keys", [], true, false⟩,
  ⟨"tensordict/base.py", "TensorDictBase", "_add_batch_dim", [("in_dim", .value), ("vmap_level", .value)], false, true⟩,
  ⟨"tensordict/base.py", "TensorDictBase", "_remove_batch_dim", [("vmap_level", .value), ("batch_size", .value), ("out_dim", .value)], false, true⟩,
  ⟨"tensordict/base.py", "TensorDictBase", "_maybe_remove_batch_dim", [("funcname", .value), ("vmap_level", .value), ("batch_size", .value), ("out_dim", .value)], false, true⟩,
  ⟨"tensordict/base.py", "TensorDictBase", "flatten_keys", [("separator", .value), ("inplace", .value), ("is_leaf", .callable)], false, false⟩,
  ⟨"tensordict/base.py", "TensorDictBase", "unflatten_keys", [("separator", .value), ("inplace", .value)], false, false⟩,
  ⟨"tensordict/base.py", "TensorDictBase", "detach", [], false, false⟩,
  ⟨"tensordict/_td.py", "TensorDict", "_add_batch_dim", [("in_dim", .value), ("vmap_level", .value)], false, false⟩,
  ⟨"tensordict/_td.py", "TensorDict", "_remove_batch_dim", [("vmap_level", .value), ("batch_size", .value), ("out_dim", .value)], false, false⟩,
  ⟨"tensordict/_td.py", "TensorDict", "_maybe_remove_batch_dim", [("funcname", .value), ("vmap_level", .value), ("batch_size", .value), ("out_dim", .value)], false, false⟩,
  ⟨"tensordict/_td.py", "TensorDict", "_nested_keys", [("include_nested", .value), ("leaves_only", .value), ("is_leaf", .callable), ("sort", .value)], false, false⟩,
  ⟨"tensordict/_lazy.py", "LazyStackedTensorDict", "_has_exclusive_keys", [], true, false⟩,
  ⟨"tensordict/_lazy.py", "LazyStackedTensorDict", "names", [], true, false⟩,
  ⟨"tensordict/_lazy.py", "LazyStackedTensorDict", "_get_str", [("key", .value), ("default", .other), ("as_list", .value), ("as_padded_tensor", .value), ("as_nested_tensor", .value), ("padding_side", .value), ("layout", .other), ("padding_value", .other)], false, false⟩,
  ⟨"tensordict/_lazy.py", "LazyStackedTensorDict", "_add_batch_dim", [("in_dim", .value), ("vmap_level", .value)], false, false⟩,
  ⟨"tensordict/_lazy.py", "LazyStackedTensorDict", "_remove_batch_dim", [("vmap_level", .value), ("batch_size", .value), ("out_dim", .value)], false, false⟩,
  ⟨"tensordict/_lazy.py", "LazyStackedTensorDict", "_maybe_remove_batch_dim", [("funcname", .value), ("vmap_level", .value), ("batch_size", .value), ("out_dim", .value)], false, false⟩,
  ⟨"tensordict/_lazy.py", "LazyStackedTensorDict", "_key_list", [], false, false⟩,
  ⟨"tensordict/_lazy.py", "_CustomOpTensorDict", "_is_shared", [], true, false⟩,
  ⟨"tensordict/_lazy.py", "_CustomOpTensorDict", "_is_memmap", [], true, false⟩,
  ⟨"tensordict/persistent.py", "PersistentTensorDict", "_get_str", [("key", .value), ("default", .other)], false, false⟩,
  ⟨"tensordict/persistent.py", "PersistentTensorDict", "_valid_keys", [], false, false⟩
]

/-- fingerprints of the syntax trees of the transcribed functions (file, function, def | getter | setter, fingerprint; 0 = not found) -/
def cacheCode : List (String × String × String × Nat) := [
  ("tensordict/utils.py", "cache", "def", 150685775575764),
  ("tensordict/utils.py", "_make_cache_key", "def", 186837335423253),
  ("tensordict/utils.py", "erase_cache", "def", 239106187870284),
  ("tensordict/base.py", "TensorDictBase._erase_cache", "def", 190181464572807),
  ("tensordict/base.py", "TensorDictBase._erase_cache_up", "def", 49411097632057),
  ("tensordict/base.py", "TensorDictBase._batch_size_setter", "def", 155495785227950),
  ("tensordict/base.py", "TensorDictBase.clear_device_", "def", 171375968971322),
  ("tensordict/base.py", "TensorDictBase._set_device", "def", 38923840367939),
  ("tensordict/base.py", "TensorDictBase.auto_device_", "def", 55593694086078),
  ("tensordict/_td.py", "TensorDict.names", "setter", 256541085177609),
  ("tensordict/_td.py", "TensorDict._erase_names", "def", 114851756678430),
  ("tensordict/_td.py", "TensorDict._rename_subtds", "def", 105382731557165),
  ("tensordict/_lazy.py", "LazyStackedTensorDict.names", "getter", 269035792762992),
  ("tensordict/_lazy.py", "LazyStackedTensorDict.names", "setter", 167702147396603),
  ("tensordict/_lazy.py", "LazyStackedTensorDict._erase_names", "def", 152738123587569),
  ("tensordict/_lazy.py", "LazyStackedTensorDict._rename_subtds", "def", 67788134349883),
  ("tensordict/_lazy.py", "LazyStackedTensorDict.clear_device_", "def", 151305357075050)
]

end TdVerif.Gen.CacheTable
