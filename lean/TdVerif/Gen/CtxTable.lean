-- GENERATED from the tensordict working tree by harness/c17_gen.py on every run; do not edit

namespace TdVerif.Gen

/-- (file, class, method, decorator argument) of every `@_as_context_manager` method -/
def ctxOps : List (String × String × String × String) := [
  ("tensordict/base.py", "TensorDictBase", "to_module", ""),
  ("tensordict/base.py", "TensorDictBase", "unsqueeze", ""),
  ("tensordict/base.py", "TensorDictBase", "squeeze", ""),
  ("tensordict/base.py", "TensorDictBase", "view", ""),
  ("tensordict/base.py", "TensorDictBase", "transpose", ""),
  ("tensordict/base.py", "TensorDictBase", "permute", ""),
  ("tensordict/base.py", "TensorDictBase", "flatten", ""),
  ("tensordict/base.py", "TensorDictBase", "unflatten", ""),
  ("tensordict/base.py", "TensorDictBase", "flatten_keys", ""),
  ("tensordict/base.py", "TensorDictBase", "unflatten_keys", ""),
  ("tensordict/base.py", "TensorDictBase", "lock_", "is_locked"),
  ("tensordict/base.py", "TensorDictBase", "unlock_", "is_locked"),
  ("tensordict/_td.py", "_SubTensorDict", "lock_", "is_locked"),
  ("tensordict/_td.py", "_SubTensorDict", "unlock_", "is_locked"),
  ("tensordict/_lazy.py", "_CustomOpTensorDict", "lock_", "is_locked"),
  ("tensordict/_lazy.py", "_CustomOpTensorDict", "unlock_", "is_locked"),
  ("tensordict/persistent.py", "PersistentTensorDict", "flatten_keys", ""),
  ("tensordict/persistent.py", "PersistentTensorDict", "unflatten_keys", "")
]

/-- distinct method names usable as context managers -/
def ctxOpNames : List String := ["flatten", "flatten_keys", "lock_", "permute", "squeeze", "to_module", "transpose", "unflatten", "unflatten_keys", "unlock_", "unsqueeze", "view"]

/-- keys of `LAST_OP_MAPS` (tensordict/_contextlib.py) with the function registered for each -/
def lastOpMaps : List (String × String) := [("lock_", "_reverse_lock"), ("unlock_", "_reverse_unlock"), ("transpose", "_reverse_transpose"), ("flatten_keys", "_reverse_flatten_keys"), ("unflatten_keys", "_reverse_unflatten_keys"), ("flatten", "_reverse_flatten"), ("unflatten", "_reverse_unflatten"), ("permute", "_reverse_permute"), ("view", "_reverse_view"), ("unsqueeze", "_reverse_unsqueeze"), ("squeeze", "_reverse_squeeze"), ("to_module", "_reverse_to_module")]

/-- parameter names of the `TensorDictBase` definition of each context-manager method -/
def ctxSignatures : List (String × List String) := [
  ("flatten", ["start_dim", "end_dim"]),
  ("flatten_keys", ["separator", "inplace", "is_leaf"]),
  ("lock_", []),
  ("permute", ["*args", "**kwargs"]),
  ("squeeze", ["*args", "**kwargs"]),
  ("to_module", ["module", "inplace", "return_swap", "swap_dest", "use_state_dict", "non_blocking", "memo"]),
  ("transpose", ["dim0", "dim1"]),
  ("unflatten", ["dim", "unflattened_size"]),
  ("unflatten_keys", ["separator", "inplace"]),
  ("unlock_", []),
  ("unsqueeze", ["*args", "**kwargs"]),
  ("view", ["*shape", "size", "batch_size"])
]

/-- the decorator argument per method: the attribute whose change decides whether the call is recorded -/
def ctxAttr : List (String × String) := [("flatten", ""), ("flatten_keys", ""), ("lock_", "is_locked"), ("permute", ""), ("squeeze", ""), ("to_module", ""), ("transpose", ""), ("unflatten", ""), ("unflatten_keys", ""), ("unlock_", "is_locked"), ("unsqueeze", ""), ("view", "")]

end TdVerif.Gen
