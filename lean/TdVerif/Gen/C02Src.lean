-- GENERATED from the tensordict working tree by harness/c02_gen.py on every run; do not edit

namespace TdVerif.Gen

/-- AST hash (docstring removed) of every function Model/C02Td.lean transcribes, in the working tree -/
def c02Sources : List (String × String) := [
  ("tensordict/utils.py:_maybe_correct_neg_dim", "e16269f298a30300"),
  ("tensordict/utils.py:_infer_size_impl", "6130a97d650e235f"),
  ("tensordict/utils.py:infer_size_impl", "e1946ab43c29fa1a"),
  ("tensordict/utils.py:_get_shape_from_args", "cb8b4fef609dd9a6"),
  ("tensordict/_td.py:TensorDict._transpose", "15b41cdb7c01674a"),
  ("tensordict/_td.py:TensorDict._permute", "4ab8db1b70ca2951"),
  ("tensordict/_td.py:TensorDict._squeeze", "79b131471266a713"),
  ("tensordict/_td.py:TensorDict._unsqueeze", "65503ec060306548"),
  ("tensordict/_td.py:TensorDict._view", "d57743cbec5bb5f2"),
  ("tensordict/_td.py:TensorDict.reshape", "0b5890f1c218ff0a"),
  ("tensordict/_td.py:TensorDict.expand", "8e3be0b271123f4b"),
  ("tensordict/_td.py:TensorDict.split", "240c8664b5ca15b3"),
  ("tensordict/_td.py:TensorDict._unbind", "c5b39fad82337f67"),
  ("tensordict/_td.py:TensorDict._repeat", "a47b097c3ed6b011"),
  ("tensordict/_td.py:TensorDict.repeat_interleave", "6b0b5d0be5bc7dc8"),
  ("tensordict/_td.py:TensorDict.masked_select", "3277e505d907ef36"),
  ("tensordict/base.py:TensorDictBase.transpose", "96192642a46243cc"),
  ("tensordict/base.py:TensorDictBase.permute", "fbdf2515c617b7ad"),
  ("tensordict/base.py:TensorDictBase.squeeze", "5f17906c3807541b"),
  ("tensordict/base.py:TensorDictBase.unsqueeze", "7ac606346691741b"),
  ("tensordict/base.py:TensorDictBase.flatten", "888b007bd77a262c"),
  ("tensordict/base.py:TensorDictBase.unflatten", "345067e0ea2471a2"),
  ("tensordict/base.py:TensorDictBase.view", "085014353d0bfeed"),
  ("tensordict/base.py:TensorDictBase.chunk", "1009739dffefdb86"),
  ("tensordict/base.py:TensorDictBase.unbind", "0733c4bca1e9ee25"),
  ("tensordict/base.py:TensorDictBase.repeat", "7d098c6e0d06a307"),
  ("tensordict/base.py:TensorDictBase.gather", "29ccddf86037f3c2"),
  ("tensordict/_torch_func.py:_gather", "cd681bf4d41dc1ca"),
  ("tensordict/_torch_func.py:_stack", "c4ac011ad3665ecc"),
  ("tensordict/_torch_func.py:_cat", "dac0d495e3f1b6b1"),
  ("tensordict/_torch_func.py:_split", "062a5b309b7a7a6b"),
  ("tensordict/_torch_func.py:_unbind", "a0481eab0812d275")
]

/-- AST hash of every function Model/C17Ctx.lean transcribes, in the working tree -/
def c17Sources : List (String × String) := [
  ("tensordict/utils.py:_as_context_manager", "ccb824c7fb187479"),
  ("tensordict/base.py:TensorDictBase.__enter__", "b9b89de2b47d5699"),
  ("tensordict/base.py:TensorDictBase.__exit__", "8fd9c119af6132ee"),
  ("tensordict/_contextlib.py:_reverse_lock", "24dade106562b11f"),
  ("tensordict/_contextlib.py:_reverse_unlock", "03609580e469e621"),
  ("tensordict/_contextlib.py:_reverse_transpose", "3e0af763afa11700"),
  ("tensordict/_contextlib.py:_reverse_flatten_keys", "ee2511604a428a7d"),
  ("tensordict/_contextlib.py:_reverse_unflatten_keys", "c6e7392d8dff37a9"),
  ("tensordict/_contextlib.py:_reverse_flatten", "d59adef2462e8fb1"),
  ("tensordict/_contextlib.py:_reverse_unflatten", "5e482a47d5ec8d73"),
  ("tensordict/_contextlib.py:_reverse_permute", "0a45781eec3a2ea7"),
  ("tensordict/_contextlib.py:_reverse_view", "3a88533ecc32be10"),
  ("tensordict/_contextlib.py:_reverse_unsqueeze", "9b5392f2d9f1d75e"),
  ("tensordict/_contextlib.py:_reverse_squeeze", "0f31afe84dfa7a23")
]

end TdVerif.Gen
