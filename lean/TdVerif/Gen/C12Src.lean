-- GENERATED from the tensordict working tree by harness/c12_pins.py on every run; do not edit

namespace TdVerif.Gen

/-- AST hash (docstring removed) of the functions the C12 models transcribe, in the working tree -/
def c12Sources : List (String × String) := [
  ("tensordict/utils.py:_split_tensordict", "e139541c77144761"),
  ("tensordict/base.py:TensorDictBase._map", "bd74d4003728324b"),
  ("tensordict/_td.py:TensorDict._multithread_apply_flat", "44679564665d0b6d"),
  ("tensordict/_td.py:TensorDict._multithread_rebuild", "c0cd5b13c51f35ed"),
  ("tensordict/utils.py:TensorDictFuture.result", "9864184530958cbb"),
  ("tensordict/utils.py:_proc_init", "af7edb7450e91b2c"),
  ("tensordict/base.py:TensorDictBase.map", "8e0fd1b34181fa27")
]

/-- AST hash (docstring removed) of the functions the C11 models transcribe, in the working tree -/
def c11Sources : List (String × String) := [
  ("tensordict/_reductions.py:_rebuild_tensordict_files_consolidated", "3a0a01db6e88bdb6"),
  ("tensordict/_reductions.py:_consolidated_is_current", "caf9cc2ef1898ed4"),
  ("tensordict/_reductions.py:_normalize_metadata", "66b94c1fd07c6547"),
  ("tensordict/_reductions.py:_reduce_td", "6545905ea57adce3"),
  ("tensordict/_lazy.py:LazyStackedTensorDict.from_dict", "59b0f3e56a6a23e4"),
  ("tensordict/base.py:TensorDictBase.state_dict", "4ff50a3b8d707d54"),
  ("tensordict/base.py:TensorDictBase.load_state_dict", "51ae9bf9b9c60c6e"),
  ("tensordict/_pytree.py:_tensordict_flatten", "ba6bcf3faaf178bd"),
  ("tensordict/_pytree.py:_tensordict_unflatten", "638b59f819ad6ee0")
]

/-- AST hash (docstring removed) of the functions the C10 models transcribe, in the working tree -/
def c10Sources : List (String × String) := [
  ("tensordict/_td.py:TensorDict._memmap_", "f9faead563a27dca"),
  ("tensordict/_td.py:TensorDict._load_memmap", "02c33ca93950141a"),
  ("tensordict/_td.py:_populate_memmap", "8cf811881ea78212"),
  ("tensordict/_td.py:_save_metadata", "011a7f55d21a8d8f"),
  ("tensordict/_td.py:_update_metadata", "fda5fe30e5bc367a"),
  ("tensordict/_lazy.py:LazyStackedTensorDict._load_memmap", "b077bd81181c4ba1"),
  ("tensordict/memmap.py:MemoryMappedTensor.from_tensor", "190f70b8427d6b4e"),
  ("tensordict/memmap.py:MemoryMappedTensor.from_filename", "8dfaa7568b943a89"),
  ("tensordict/base.py:TensorDictBase.load_memmap_", "fdb521631e21833a"),
  ("tensordict/base.py:TensorDictBase.memmap_refresh_", "badbf115a6cd6d8c"),
  ("tensordict/memmap.py:MemoryMappedTensor.filename", "a9a5fbf22cd5bedd"),
  ("tensordict/tensorclass.py:_memmap_", "23e42771633c6b5c"),
  ("tensordict/tensorclass.py:_from_tensordict", "e426c8f109f0adb9"),
  ("tensordict/tensorclass.py:NonTensorData._memmap_", "a7433415db3d7ac4")
]

end TdVerif.Gen
