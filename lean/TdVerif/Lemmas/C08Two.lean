import TdVerif.Model.C08Lazy2
import TdVerif.Lemmas.C08Stack
namespace TdVerif.C08

/-- stacking respects `≈ₜ` member by member (members of one common shape) -/
theorem T.stack_congr [Inhabited α] (xs ys : List (T α)) (sh : Shape) (sd : Nat)
    (hlen : xs.length = ys.length) (hne : ys ≠ [])
    (hys : ∀ y ∈ ys, y.shape = sh) (hsd : sd ≤ sh.length)
    (h : ∀ i (h1 : i < xs.length) (h2 : i < ys.length), xs[i] ≈ₜ ys[i]) :
    T.stack xs sd ≈ₜ T.stack ys sd := by
  have hxs : ∀ x ∈ xs, x.shape = sh := by
    intro x hx
    obtain ⟨i, hi, rfl⟩ := List.getElem_of_mem hx
    rw [(h i hi (hlen ▸ hi)).1]
    exact hys _ (List.getElem_mem _)
  have hnex : xs ≠ [] := by
    intro hh; rw [hh] at hlen; exact hne (List.length_eq_zero_iff.mp hlen.symm)
  have hhx := head_shape_of_all xs sh hxs hnex
  have hhy := head_shape_of_all ys sh hys hne
  refine ⟨by rw [T.stack_shape, T.stack_shape, hhx, hhy, hlen], ?_⟩
  intro c hc
  rw [T.stack_shape, hhx] at hc
  have hlt := InB.at0_lt_of_insert c sh sd _ hsd hc
  have hc' : InB (c.eraseIdx sd) sh := by
    have := InB.eraseIdx sd hc
    rwa [List.eraseIdx_insertIdx_self] at this
  rw [T.stack_get, T.stack_get, List.getElem?_eq_getElem hlt, List.getElem?_eq_getElem (hlen ▸ hlt),
    Option.getD_some, Option.getD_some]
  exact (h _ hlt (hlen ▸ hlt)).2 _ (by rw [hxs _ (List.getElem_mem _)]; exact hc')

/-- stacking tensordicts respects `≈` member by member (uniform second list) -/
theorem stackTD_congr [Inhabited α] (xs ys : List (TD α)) (b : Shape) (keys : List String) (feat : String → Shape)
    (sd : Nat) (hlen : xs.length = ys.length) (hne : ys ≠ [])
    (hyb : ∀ y ∈ ys, y.batch = b) (hyk : ∀ y ∈ ys, y.keys = keys)
    (hyl : ∀ y ∈ ys, ∀ k ∈ keys, (y.leaf k).shape = b ++ feat k) (hsd : sd ≤ b.length)
    (h : ∀ i (h1 : i < xs.length) (h2 : i < ys.length), xs[i] ≈ ys[i]) :
    stackTD xs sd ≈ stackTD ys sd := by
  obtain ⟨y0, yr, hy0⟩ : ∃ y0 yr, ys = y0 :: yr := by
    cases ys with
    | nil => exact absurd rfl hne
    | cons a r => exact ⟨a, r, rfl⟩
  obtain ⟨x0, xr, hx0⟩ : ∃ x0 xr, xs = x0 :: xr := by
    cases xs with
    | nil => rw [hy0] at hlen; simp at hlen
    | cons a r => exact ⟨a, r, rfl⟩
  have h0 : x0 ≈ y0 := by
    have := h 0 (by rw [hx0]; simp) (by rw [hy0]; simp)
    simpa [hx0, hy0] using this
  refine ⟨?_, ?_, ?_⟩
  · show ((xs.head?.map TD.batch).getD []).insertIdx sd xs.length = ((ys.head?.map TD.batch).getD []).insertIdx sd ys.length
    rw [hx0, hy0] at hlen ⊢
    simp only [List.head?_cons, Option.map_some, Option.getD_some, h0.1, hlen]
  · show (xs.head?.map TD.keys).getD [] = (ys.head?.map TD.keys).getD []
    rw [hx0, hy0]; simp [h0.2.1]
  · intro k hk
    have hkx : (stackTD xs sd).keys = keys := by
      show (xs.head?.map TD.keys).getD [] = keys
      rw [hx0]; simp only [List.head?_cons, Option.map_some, Option.getD_some]
      rw [h0.2.1]; exact hyk y0 (by rw [hy0]; simp)
    rw [hkx] at hk
    show T.stack (xs.map fun m => m.leaf k) sd ≈ₜ T.stack (ys.map fun m => m.leaf k) sd
    apply T.stack_congr _ _ (b ++ feat k) sd (by simp [hlen]) (by simpa using hne)
    · intro t ht
      simp only [List.mem_map] at ht
      obtain ⟨y, hy, rfl⟩ := ht
      exact hyl y hy k hk
    · simp; omega
    · intro i h1 h2
      simp only [List.length_map] at h1 h2
      have hxy := h i h1 h2
      simp only [List.getElem_map]
      apply hxy.2.2 k
      rw [hxy.2.1, hyk _ (List.getElem_mem _)]; exact hk

/-- the inner stacks of a stack of stacks share batch size, keys, shapes, stack dim and count -/
structure Uniform2 (Lo : Lazy2 α) (bIn : Shape) (keys : List String) (feat : String → Shape)
    (sdIn nIn : Nat) : Prop where
  inner : ∀ Li ∈ Lo.members, Uniform Li bIn keys feat ∧ Li.sd = sdIn ∧ Li.members.length = nIn
  hn : 0 < nIn
  hsd : Lo.sd ≤ bIn.length + 1
  hsdIn : sdIn ≤ bIn.length

/-- the plain-member lazy stack of the dense abstractions of the inner stacks -/
def denseOf [Inhabited α] (Lo : Lazy2 α) : Lazy α := ⟨Lo.members.map absL, Lo.sd⟩

theorem abs2_eq [Inhabited α] (Lo : Lazy2 α) : abs2 Lo = absL (denseOf Lo) := rfl

theorem denseOf_batch [Inhabited α] (Lo : Lazy2 α) : (denseOf Lo).batch = Lo.batch := by
  unfold denseOf Lazy.batch Lazy2.batch
  cases Lo.members with
  | nil => rfl
  | cons a r => simp [absL_batch]

theorem denseOf_uniform [Inhabited α] (Lo : Lazy2 α) (bIn : Shape) (keys : List String) (feat : String → Shape)
    (sdIn nIn : Nat) (hU : Uniform2 Lo bIn keys feat sdIn nIn) :
    Uniform (denseOf Lo) (bIn.insertIdx sdIn nIn) keys feat := by
  have hin : ∀ Li ∈ Lo.members, Li.members ≠ [] := by
    intro Li hLi hm
    have := (hU.inner Li hLi).2.2
    rw [hm] at this; simp at this; have := hU.hn; omega
  refine ⟨?_, ?_, ?_, ?_⟩
  · intro m hm
    simp only [denseOf, List.mem_map] at hm
    obtain ⟨Li, hLi, rfl⟩ := hm
    obtain ⟨hUi, hsdi, hni⟩ := hU.inner Li hLi
    rw [absL_batch_eq Li bIn keys feat hUi (hin Li hLi), hsdi, hni]
  · intro m hm
    simp only [denseOf, List.mem_map] at hm
    obtain ⟨Li, hLi, rfl⟩ := hm
    obtain ⟨hUi, _, _⟩ := hU.inner Li hLi
    exact (head_batch_of_uniform Li bIn keys feat hUi (hin Li hLi)).2
  · intro m hm k hk
    simp only [denseOf, List.mem_map] at hm
    obtain ⟨Li, hLi, rfl⟩ := hm
    obtain ⟨hUi, hsdi, hni⟩ := hU.inner Li hLi
    show (T.stack (Li.members.map fun m => m.leaf k) Li.sd).shape = _
    rw [T.stack_shape, head_shape_of_all _ _ (leaf_shapes Li bIn keys feat hUi k hk) (by simpa using hin Li hLi),
      hsdi, List.length_map, hni, insertIdx_append_of_le _ _ _ _ (hsdi ▸ hUi.hsd)]
  · show Lo.sd ≤ (bIn.insertIdx sdIn nIn).length
    rw [List.length_insertIdx_of_le_length hU.hsdIn]
    exact hU.hsd

/-- what the outer code reads from one inner stack -/
def memberRead [Inhabited α] (Li : Lazy α) (out : List Ix) : Option (LRes α) :=
  if out.isEmpty then some (.lazy Li) else lazyGetCoreM Li out

/-- hypothesis of the composition theorem: every inner read with the outer remainder index
materialises to the dense inner stack indexed the same way -/
def InnerOK [Inhabited α] (Lo : Lazy2 α) (out : List Ix) : Prop :=
  ∀ Li ∈ Lo.members, ∀ r dj, memberRead Li out = some r → (absL Li).index out = some dj → absR r ≈ dj

theorem memberIndex2_some [Inhabited α] (Lo : Lazy2 α) (out : List Ix) (i : Nat) (r : LRes α)
    (h : memberIndex2 Lo out i = some r) :
    ∃ (hi : i < Lo.members.length), memberRead (Lo.members[i]) out = some r := by
  unfold memberIndex2 at h
  by_cases hi : i < Lo.members.length
  · refine ⟨hi, ?_⟩
    simpa [List.getElem?_eq_getElem hi, memberRead] using h
  · simp [List.getElem?_eq_none (Nat.le_of_not_lt hi)] at h

theorem get2_one_case [Inhabited α] (Lo : Lazy2 α) (bIn : Shape) (keys : List String) (feat : String → Shape)
    (sdIn nIn : Nat) (hU : Uniform2 Lo bIn keys feat sdIn nIn) (ix : List Ix) (hp : PlainM Lo.sd ix)
    (len : Nat) (ids : Nat → Nat)
    (hrank : ((splitRec Lo.sd ix).item.getD Ix.full).outRank = 1)
    (hishape : itemShape ((splitRec Lo.sd ix).item.getD Ix.full) Lo.members.length = some [len])
    (hmid : ∀ x, x < len → itemCoord ((splitRec Lo.sd ix).item.getD Ix.full) Lo.members.length [x] = ids x)
    (res : List (LRes α)) (hres0 : res ≠ [])
    (hres : allSome ((List.range len).map fun j => memberIndex2 Lo (splitRec Lo.sd ix).out (ids j)) = some res)
    (hin : InnerOK Lo (splitRec Lo.sd ix).out)
    (d : TD α) (hd : (abs2 Lo).index ix = some d) :
    stackTD (res.map absR) (splitRec Lo.sd ix).pos ≈ d := by
  have hUd := denseOf_uniform Lo bIn keys feat sdIn nIn hU
  have hmap := (allSome_eq_some _ _).mp hres
  have hlen : len = res.length := by
    have := congrArg List.length hmap; simpa using this
  have hlen0 : 0 < len := by rw [hlen]; exact List.length_pos_iff.mpr hres0
  have hj : ∀ j (h : j < len), memberIndex2 Lo (splitRec Lo.sd ix).out (ids j) = some (res[j]'(hlen ▸ h)) := by
    intro j h
    have := congrArg (fun l => l[j]?) hmap
    simp [h, hlen ▸ h] at this
    exact this
  obtain ⟨hi0, _⟩ := memberIndex2_some Lo _ _ _ (hj 0 hlen0)
  have hne : (denseOf Lo).members ≠ [] := by
    intro h
    have : (denseOf Lo).members.length = 0 := by rw [h]; rfl
    simp [denseOf] at this; rw [this] at hi0; simp at hi0
  -- the dense side
  have hB := absL_batch_eq (denseOf Lo) _ keys feat hUd hne
  have hd' := hd
  rw [abs2_eq] at hd'
  simp only [TD.index, Option.map_eq_some_iff] at hd'
  obtain ⟨bd, hbd, hdd⟩ := hd'
  rw [hB] at hbd
  have hsplit := shape_splitM (denseOf Lo).members.length ix Lo.sd (bIn.insertIdx sdIn nIn) hUd.hsd hp
  have hsd : (denseOf Lo).sd = Lo.sd := rfl
  rw [hsd] at hbd
  rw [hbd] at hsplit
  cases hso : idxShape (splitRec Lo.sd ix).out (bIn.insertIdx sdIn nIn) with
  | none => simp [hso] at hsplit
  | some so =>
  have hpos := pos_leM ix Lo.sd _ so hUd.hsd hp hso
  -- the dense reads of the dense inner stacks
  let ds : List (TD α) := (List.range len).map fun j =>
    ((denseOf Lo).members[ids j]?.getD default).mapLeaves so (idxT (splitRec Lo.sd ix).out)
  have hds : allSome ((List.range len).map fun j => memberIndex (denseOf Lo) (splitRec Lo.sd ix).out (ids j)) = some ds := by
    rw [allSome_eq_some]
    apply List.ext_getElem
    · simp [ds]
    · intro j h1 h2
      simp only [List.length_map, List.length_range] at h1
      obtain ⟨hi, _⟩ := memberIndex2_some Lo _ _ _ (hj j h1)
      have hi' : ids j < (denseOf Lo).members.length := by simpa [denseOf] using hi
      have hbj : ((denseOf Lo).members[ids j]).batch = bIn.insertIdx sdIn nIn := hUd.hbatch _ (List.getElem_mem _)
      simp [ds, memberIndex_eq, List.getElem?_eq_getElem hi', TD.index, hbj, hso]
  have hds0 : ds ≠ [] := by
    intro h
    have := congrArg List.length h
    simp [ds] at this; omega
  have hdense := get_one_case (denseOf Lo) _ keys feat hUd ix hp len ids hrank
    (by simpa [denseOf] using hishape) (by simpa [denseOf] using hmid) ds hds0 hds d (by rw [← abs2_eq]; exact hd)
  refine TD.Eqv.trans ?_ hdense
  show stackTD (res.map absR) _ ≈ stackTD ds _
  have hdsj : ∀ y ∈ ds, ∃ j, j < len ∧ ∃ (hi : ids j < (denseOf Lo).members.length),
      y = ((denseOf Lo).members[ids j]).mapLeaves so (idxT (splitRec Lo.sd ix).out) := by
    intro y hy
    simp only [ds, List.mem_map, List.mem_range] at hy
    obtain ⟨j, hjl, rfl⟩ := hy
    obtain ⟨hi, _⟩ := memberIndex2_some Lo _ _ _ (hj j hjl)
    have hi' : ids j < (denseOf Lo).members.length := by simpa [denseOf] using hi
    exact ⟨j, hjl, hi', by simp [List.getElem?_eq_getElem hi']⟩
  apply stackTD_congr (res.map absR) ds so keys feat _ (by simp [ds, hlen]) hds0
  · intro y hy
    obtain ⟨j, _, hi, rfl⟩ := hdsj y hy
    rfl
  · intro y hy
    obtain ⟨j, _, hi, rfl⟩ := hdsj y hy
    exact hUd.hkeys ((denseOf Lo).members[ids j]) (List.getElem_mem _)
  · intro y hy k hk
    obtain ⟨j, _, hi, rfl⟩ := hdsj y hy
    show (idxT _ _).shape = _
    rw [idxT_shape, hUd.hleaf ((denseOf Lo).members[ids j]) (List.getElem_mem _) k hk, idxShape_append (feat k) _ _ _ hso]
    rfl
  · exact hpos
  · intro i h1 h2
    have hil : i < len := by simpa [ds] using h2
    obtain ⟨hi, hrd⟩ := memberIndex2_some Lo _ _ _ (hj i hil)
    have hi' : ids i < (denseOf Lo).members.length := by simpa [denseOf] using hi
    have hbj : (absL Lo.members[ids i]).batch = bIn.insertIdx sdIn nIn :=
      hUd.hbatch _ (by simp only [denseOf, List.mem_map]; exact ⟨_, List.getElem_mem hi, rfl⟩)
    have := hin _ (List.getElem_mem hi) _ ((absL Lo.members[ids i]).mapLeaves so (idxT (splitRec Lo.sd ix).out)) hrd
      (by simp [TD.index, hbj, hso])
    simpa [ds, List.getElem?_eq_getElem hi, denseOf] using this

theorem lazyStackR_some (items : List (LRes α)) (p : Nat) (q : Nat × List (LRes α))
    (h : lazyStackR items (p : Int) = some q) : q = (p, items) ∧ items ≠ [] := by
  unfold lazyStackR at h
  cases items with
  | nil => simp at h
  | cons m rest =>
    simp only at h
    have h0 : ¬ ((p : Int) < 0) := by omega
    simp only [h0, if_false] at h
    split at h
    · simp at h
    · split at h
      · simp only [Option.some.injEq] at h
        exact ⟨by rw [← h]; simp, by simp⟩
      · simp at h

/-- the dense side accepts, so the item addressed to the (outer) stack dim has a shape -/
theorem dense_itemShape [Inhabited α] (Lo : Lazy2 α) (bIn : Shape) (keys : List String) (feat : String → Shape)
    (sdIn nIn : Nat) (hU : Uniform2 Lo bIn keys feat sdIn nIn) (hne0 : Lo.members ≠ []) (ix : List Ix)
    (hp : PlainM Lo.sd ix) (d : TD α) (hd : (abs2 Lo).index ix = some d) :
    ∃ so ish, idxShape (splitRec Lo.sd ix).out (bIn.insertIdx sdIn nIn) = some so ∧
      itemShape ((splitRec Lo.sd ix).item.getD Ix.full) Lo.members.length = some ish := by
  have hUd := denseOf_uniform Lo bIn keys feat sdIn nIn hU
  have hne : (denseOf Lo).members ≠ [] := by simpa [denseOf] using hne0
  have hB := absL_batch_eq (denseOf Lo) _ keys feat hUd hne
  rw [abs2_eq] at hd
  simp only [TD.index, Option.map_eq_some_iff] at hd
  obtain ⟨bd, hbd, hdd⟩ := hd
  rw [hB] at hbd
  have hsplit := shape_splitM (denseOf Lo).members.length ix Lo.sd (bIn.insertIdx sdIn nIn) hUd.hsd hp
  rw [show (denseOf Lo).sd = Lo.sd from rfl] at hbd
  rw [hbd] at hsplit
  cases hso : idxShape (splitRec Lo.sd ix).out (bIn.insertIdx sdIn nIn) with
  | none => simp [hso] at hsplit
  | some so =>
    simp only [hso, Option.bind_some] at hsplit
    cases his : itemShape ((splitRec Lo.sd ix).item.getD Ix.full) (denseOf Lo).members.length with
    | none => simp [his] at hsplit
    | some ish => exact ⟨so, ish, rfl, by simpa [denseOf] using his⟩

theorem getitem2_plain [Inhabited α] (Lo : Lazy2 α) (bIn : Shape) (keys : List String) (feat : String → Shape)
    (sdIn nIn : Nat) (hU : Uniform2 Lo bIn keys feat sdIn nIn) (hne0 : Lo.members ≠ []) (ix : List Ix)
    (hp : Plain Lo.sd ix) (hne : ∀ it ∈ ix, it ≠ Ix.ell) (hadv : AtMostOneAdv ix)
    (hnt : ∀ t, (splitRec Lo.sd ix).item ≠ some (.tens t))
    (hin : InnerOK Lo (splitRec Lo.sd ix).out)
    (r2 : LRes2 α) (hr : lazyGetCore2 Lo ix = some r2)
    (d : TD α) (hd : (abs2 Lo).index ix = some d) : absR2 r2 ≈ d := by
  have hpm := Plain.toM ix Lo.sd hp
  obtain ⟨so, ish, hso, hish⟩ := dense_itemShape Lo bIn keys feat sdIn nIn hU hne0 ix hpm d hd
  have hB := splitLoop_before Lo.sd Lo.members.length Lo.batch ix Lo.sd 0 {} (by simp) hp hne
    (by simpa [AtMostOneAdv] using hadv) rfl rfl rfl rfl
  unfold lazyGetCore2 splitIndex2 at hr
  cases hsel : selOf Lo.members.length (splitRec Lo.sd ix).item with
  | none => simp [hB.1 hsel] at hr
  | some p =>
    obtain ⟨sel, ii, nd⟩ := p
    obtain ⟨st', hloop, hspec⟩ := hB.2 sel ii nd hsel
    have hq : (Lo.sd : Int) - st'.numSingle + st'.numNone - st'.numSquash = (splitRec Lo.sd ix).pos := by
      have := hspec.q; simp [Q] at this; omega
    simp only [hloop, Option.bind_some, hspec.hasBool, Bool.false_eq_true, if_false, hspec.isNd,
      hspec.isInteger, hspec.sel, hspec.out, List.nil_append] at hr
    cases hitem : (splitRec Lo.sd ix).item with
    | none =>
      simp only [hitem, selOf, Option.some.injEq, Prod.mk.injEq] at hsel
      obtain ⟨rfl, rfl, rfl⟩ := hsel
      simp only [Bool.false_eq_true, if_false, hq, Sel.ids] at hr
      cases hres : allSome ((List.range Lo.members.length).map (memberIndex2 Lo (splitRec Lo.sd ix).out)) with
      | none => simp [hres] at hr
      | some res =>
        simp only [hres, Option.bind_some, Option.map_eq_some_iff] at hr
        obtain ⟨q, hq', rfl⟩ := hr
        obtain ⟨rfl, hres0⟩ := lazyStackR_some res _ q hq'
        show stackTD (res.map absR) (splitRec Lo.sd ix).pos ≈ d
        have hn := sliceNorm_full Lo.members.length
        exact get2_one_case Lo bIn keys feat sdIn nIn hU ix hpm Lo.members.length (fun j => j)
          (by simp [hitem, Ix.full]) (by simp [hitem, Ix.full, itemShape, hn])
          (by intro x hx; simp [hitem, Ix.full, itemCoord, sliceNormD, hn, sliceAt, at0])
          res hres0 hres hin d hd
    | some it =>
      cases it with
      | int k =>
        simp only [hitem, selOf, Option.map_eq_some_iff, Prod.mk.injEq] at hsel
        obtain ⟨j, hj, rfl, rfl, rfl⟩ := hsel
        simp only [Bool.false_eq_true, if_false, if_true, Option.map_eq_some_iff] at hr
        obtain ⟨x, hx, rfl⟩ := hr
        show absR x ≈ d
        obtain ⟨hi, hrd⟩ := memberIndex2_some Lo _ _ _ hx
        have hUd := denseOf_uniform Lo bIn keys feat sdIn nIn hU
        have hi' : j < (denseOf Lo).members.length := by simpa [denseOf] using hi
        have hbj : (absL Lo.members[j]).batch = bIn.insertIdx sdIn nIn :=
          hUd.hbatch _ (by simp only [denseOf, List.mem_map]; exact ⟨_, List.getElem_mem hi, rfl⟩)
        have h1 := hin _ (List.getElem_mem hi) x ((absL Lo.members[j]).mapLeaves so (idxT (splitRec Lo.sd ix).out)) hrd
          (by simp [TD.index, hbj, hso])
        refine TD.Eqv.trans h1 ?_
        apply get_int_case (denseOf Lo) _ keys feat hUd ix hp k (by simp [hitem, denseOf]) j (by simpa [denseOf] using hj) _ _ d
          (by rw [← abs2_eq]; exact hd)
        simp [memberIndex_eq, denseOf, List.getElem?_eq_getElem hi, TD.index, hbj, hso]
      | slice a bb c =>
        simp only [hitem, selOf, Option.map_eq_some_iff, Prod.mk.injEq] at hsel
        obtain ⟨⟨s0, stp, len⟩, hn, rfl, rfl, rfl⟩ := hsel
        simp only [Bool.false_eq_true, if_false, hq, Sel.ids] at hr
        cases hres : allSome (((List.range len).map (sliceAt s0 stp)).map (memberIndex2 Lo (splitRec Lo.sd ix).out)) with
        | none => rw [hres] at hr; simp at hr
        | some res =>
          simp only [hres, Option.bind_some, Option.map_eq_some_iff] at hr
          obtain ⟨q, hq', rfl⟩ := hr
          obtain ⟨rfl, hres0⟩ := lazyStackR_some res _ q hq'
          show stackTD (res.map absR) (splitRec Lo.sd ix).pos ≈ d
          have hstp : 0 < stp := by
            by_cases h : 0 < stp
            · exact h
            · simp [hitem, itemShape, hn, h] at hish
          exact get2_one_case Lo bIn keys feat sdIn nIn hU ix hpm len (sliceAt s0 stp)
            (by simp [hitem]) (by simp [hitem, itemShape, hn, hstp])
            (by intro x hx; simp [hitem, itemCoord, sliceNormD, hn, at0])
            res hres0 (by rw [← hres, List.map_map]; rfl) hin d hd
      | tens t => exact absurd hitem (hnt t)
      | none => simp [hitem, selOf] at hsel
      | ell => simp [hitem, selOf] at hsel
      | mask m => simp [hitem, selOf] at hsel


/-- reads of a stack of stacks: a result, or (the mask kept nothing) the batch size -/
def ReadOK2 [Inhabited α] (r : LRes2 α) (d : TD α) : Prop :=
  match r with
  | .empty bb => bb = d.batch
  | r => absR2 r ≈ d

theorem getitem2_mask1 [Inhabited α] (Lo : Lazy2 α) (bIn : Shape) (keys : List String) (feat : String → Shape)
    (sdIn nIn : Nat) (hU : Uniform2 Lo bIn keys feat sdIn nIn) (hne0 : Lo.members ≠ []) (ix : List Ix)
    (hp : PlainM Lo.sd ix) (hne : ∀ it ∈ ix, it ≠ Ix.ell) (hadv : AtMostOneAdv ix)
    (m : T Bool) (hitem : (splitRec Lo.sd ix).item = some (.mask m))
    (hin : InnerOK Lo (splitRec Lo.sd ix).out)
    (r2 : LRes2 α) (hr : lazyGetCore2 Lo ix = some r2)
    (d : TD α) (hd : (abs2 Lo).index ix = some d) : ReadOK2 r2 d := by
  obtain ⟨st', hloop, hspec⟩ := splitLoop_mask Lo.sd Lo.members.length Lo.batch m ix Lo.sd 0 {} (by simp) hp hne
    (by simpa [AtMostOneAdv] using hadv) hitem rfl
  have hrank := plainM_mask_rank1 ix Lo.sd m hp hitem
  obtain ⟨k, hk⟩ : ∃ k, m.shape = [k] := by
    match hm : m.shape with
    | [k] => exact ⟨k, rfl⟩
    | [] => simp [hm] at hrank
    | _ :: _ :: _ => simp [hm] at hrank
  have hcat : (st'.maskLoc : Int) - st'.numSingle = (splitRec Lo.sd ix).pos := by
    have := hspec.catDim; simpa using this
  have hUd := denseOf_uniform Lo bIn keys feat sdIn nIn hU
  have hned : (denseOf Lo).members ≠ [] := by simpa [denseOf] using hne0
  have hB := absL_batch_eq (denseOf Lo) _ keys feat hUd hned
  have hlenD : (denseOf Lo).members.length = Lo.members.length := by simp [denseOf]
  -- the dense side
  have hd' := hd
  rw [abs2_eq] at hd'
  simp only [TD.index, Option.map_eq_some_iff] at hd'
  obtain ⟨bd, hbd, hdd⟩ := hd'
  have hbd0 := hbd
  rw [hB, show (denseOf Lo).sd = Lo.sd from rfl, hlenD] at hbd
  have hsplit := shape_splitM Lo.members.length ix Lo.sd (bIn.insertIdx sdIn nIn) hUd.hsd hp
  rw [hbd, hitem] at hsplit
  cases hso : idxShape (splitRec Lo.sd ix).out (bIn.insertIdx sdIn nIn) with
  | none => simp [hso] at hsplit
  | some so =>
  simp only [hso, Option.getD_some, itemShape, Option.bind_some] at hsplit
  have hkn : k = Lo.members.length := by
    by_cases h : m.shape = [Lo.members.length]
    · rw [hk] at h; simpa using h
    · simp [h] at hsplit
  subst hkn
  simp only [hk, if_true, Option.map_some, Option.some.injEq] at hsplit
  have hnz := nonzero_rank1 m _ hk
  unfold lazyGetCore2 splitIndex2 at hr
  simp only [hloop, Option.bind_some, hspec.hasBool, if_true, hspec.maskAt] at hr
  have hsel : (st'.sel.ids Lo.members.length).length ≤ m.shape.headD 0 := by
    rw [hspec.sel, hk]; simp [Sel.ids]
  simp only [hsel, if_true, Option.bind_some, hspec.hasBool, hspec.maskAt, hcat] at hr
  have hneg : ¬ (((splitRec Lo.sd ix).pos : Int) < 0) := by omega
  simp only [hneg, if_false, hk, ne_eq, not_true_eq_false, Int.toNat_natCast, hspec.outWo,
    List.nil_append] at hr
  generalize hch : ((List.range Lo.members.length).filter fun i => m.get [i]) = chosen at hr hnz
  cases hres : allSome (chosen.map fun i => memberIndex2 Lo (splitRec Lo.sd ix).out i) with
  | none => rw [hres] at hr; simp at hr
  | some res =>
    rw [hres] at hr
    simp only [Option.bind_some] at hr
    have hcnt : (nonzero m).length = chosen.length := by rw [hnz]; simp
    cases res with
    | nil =>
      simp only [Option.map_eq_some_iff] at hr
      obtain ⟨bsz, hbsz, rfl⟩ := hr
      have hgbs := getitemBatchSize_eq ix Lo.batch bd (by rw [← denseOf_batch]; exact hbd0)
      rw [hgbs] at hbsz
      simp only [Option.some.injEq] at hbsz
      subst hbsz
      have hch0 : chosen = [] := by
        have := congrArg List.length ((allSome_eq_some _ _).mp hres)
        simpa using this
      have hpos := pos_leM ix Lo.sd _ so hUd.hsd hp hso
      show (bd.eraseIdx (splitRec Lo.sd ix).pos).insertIdx (splitRec Lo.sd ix).pos 0 = d.batch
      rw [← hdd]
      show _ = bd
      rw [hsplit, hcnt, hch0]
      simp only [List.length_nil]
      rw [← insertIdx_eq_take_drop _ _ _ hpos, List.eraseIdx_insertIdx_self]
    | cons r0 rrest =>
      simp only [Option.some.injEq] at hr
      subst hr
      show stackTD ((r0 :: rrest).map absR) (splitRec Lo.sd ix).pos ≈ d
      apply get2_one_case Lo bIn keys feat sdIn nIn hU ix hp chosen.length (fun j => chosen[j]?.getD 0)
        (by simp [hitem]) (by simp [hitem, itemShape, hk, hcnt])
        (by
          intro x hx
          simp only [hitem, Option.getD_some, itemCoord, at0, List.getElem?_cons_zero, Option.getD_some]
          rw [hnz]
          simp [List.getElem?_map, List.getElem?_eq_getElem hx])
        (r0 :: rrest) (by simp) _ hin d hd
      rw [← hres]
      congr 1
      apply List.ext_getElem
      · simp
      · intro j h1 h2
        simp only [List.length_map, List.length_range] at h1
        simp [List.getElem?_eq_getElem h1]


theorem splitRec_out_mem : ∀ (ix : List Ix) (sd : Nat) (it : Ix), it ∈ (splitRec sd ix).out → it ∈ ix
  | [], sd, it, h => by simp [splitRec] at h
  | .none :: r, sd, it, h => by
    simp only [splitRec, List.mem_cons] at h ⊢
    rcases h with h | h
    · exact Or.inl h
    · exact Or.inr (splitRec_out_mem r sd it h)
  | .int k :: r, 0, it, h => by simp only [splitRec] at h; exact List.mem_cons_of_mem _ h
  | .slice a b c :: r, 0, it, h => by simp only [splitRec] at h; exact List.mem_cons_of_mem _ h
  | .tens t :: r, 0, it, h => by simp only [splitRec] at h; exact List.mem_cons_of_mem _ h
  | .mask m :: r, 0, it, h => by simp only [splitRec] at h; exact List.mem_cons_of_mem _ h
  | .ell :: r, 0, it, h => by simp only [splitRec] at h; exact List.mem_cons_of_mem _ h
  | .int k :: r, sd + 1, it, h => by
    simp only [splitRec, List.mem_cons] at h ⊢
    rcases h with h | h
    · exact Or.inl h
    · exact Or.inr (splitRec_out_mem r sd it h)
  | .slice a b c :: r, sd + 1, it, h => by
    simp only [splitRec, List.mem_cons] at h ⊢
    rcases h with h | h
    · exact Or.inl h
    · exact Or.inr (splitRec_out_mem r sd it h)
  | .tens t :: r, sd + 1, it, h => by
    simp only [splitRec, List.mem_cons] at h ⊢
    rcases h with h | h
    · exact Or.inl h
    · exact Or.inr (splitRec_out_mem r sd it h)
  | .ell :: r, sd + 1, it, h => by
    simp only [splitRec, List.mem_cons] at h ⊢
    rcases h with h | h
    · exact Or.inl h
    · exact Or.inr (splitRec_out_mem r sd it h)
  | .mask m :: r, sd + 1, it, h => by
    simp only [splitRec, List.mem_cons] at h ⊢
    rcases h with h | h
    · exact Or.inl h
    · exact Or.inr (splitRec_out_mem r _ it h)

/-- on indices whose mask (if it touches the stack dim) is a rank-1 mask on it, the model with
the rank-2 mask branches is the model without them -/
theorem lazyGetCoreM_eq_core [Inhabited α] (L : Lazy α) (ix : List Ix) (hp : PlainM L.sd ix)
    (hne : ∀ it ∈ ix, it ≠ Ix.ell) (hadv : AtMostOneAdv ix) : lazyGetCoreM L ix = lazyGetCore L ix := by
  unfold lazyGetCoreM
  by_cases hmask : ∃ m, (splitRec L.sd ix).item = some (.mask m)
  · obtain ⟨m, hitem⟩ := hmask
    obtain ⟨st', hloop, hspec⟩ := splitLoop_mask L.sd L.members.length L.batch m ix L.sd 0 {} (by simp) hp hne
      (by simpa [AtMostOneAdv] using hadv) hitem rfl
    have hrank := plainM_mask_rank1 ix L.sd m hp hitem
    cases hs : splitIndex L ix with
    | none => simp [lazyGetCore, hs]
    | some st =>
      have hst : st = st' := by
        unfold splitIndex at hs
        simp only [hloop, Option.bind_some, hspec.hasBool, if_true, hspec.maskAt] at hs
        split at hs
        · simpa using hs.symm
        · simp at hs
      subst hst
      simp only [hspec.hasBool, if_true, hspec.maskAt]
      have : ¬ (m.shape.length = 2) := by omega
      simp [this]
  · have hplain := PlainM.toPlain ix L.sd hp (fun m hm => hmask ⟨m, hm⟩)
    have hB := splitLoop_before L.sd L.members.length L.batch ix L.sd 0 {} (by simp) hplain hne
      (by simpa [AtMostOneAdv] using hadv) rfl rfl rfl rfl
    cases hs : splitIndex L ix with
    | none => simp [lazyGetCore, hs]
    | some st =>
      have hb : st.hasBool = false := by
        unfold splitIndex at hs
        cases hsel : selOf L.members.length (splitRec L.sd ix).item with
        | none => simp [hB.1 hsel] at hs
        | some p =>
          obtain ⟨sel, ii, nd⟩ := p
          obtain ⟨st', hloop, hspec⟩ := hB.2 sel ii nd hsel
          simp only [hloop, Option.bind_some, hspec.hasBool, Bool.false_eq_true, if_false, Option.some.injEq] at hs
          rw [← hs]; exact hspec.hasBool
      simp [hb]


/-- the inner hypothesis of the composition theorem follows from the one-level read theorems
whenever the remainder index is in their grammar for the inner stacks and no inner read is an
empty stack (an all-False mask on the inner stack dim) -/
theorem innerOK_of_refines [Inhabited α] (Lo : Lazy2 α) (bIn : Shape) (keys : List String) (feat : String → Shape)
    (sdIn nIn : Nat) (hU : Uniform2 Lo bIn keys feat sdIn nIn) (out : List Ix)
    (hp : PlainM sdIn out) (hne : ∀ it ∈ out, it ≠ Ix.ell) (hadv : AtMostOneAdv out)
    (hnonempty : ∀ Li ∈ Lo.members, ∀ bb, lazyGetCore Li out ≠ some (.empty bb)) :
    InnerOK Lo out := by
  intro Li hLi r dj hrd hdj
  obtain ⟨hUi, hsdi, hni⟩ := hU.inner Li hLi
  have hnei : Li.members ≠ [] := by
    intro hm; rw [hm] at hni; simp at hni; have := hU.hn; omega
  unfold memberRead at hrd
  by_cases he : out.isEmpty = true
  · simp only [he, if_true, Option.some.injEq] at hrd
    subst hrd
    have : out = [] := by simpa using he
    subst this
    rw [TD.index_nil] at hdj
    simp only [Option.some.injEq] at hdj
    subst hdj
    exact TD.Eqv.refl _
  · simp only [he, Bool.false_eq_true, if_false] at hrd
    have hp' : PlainM Li.sd out := hsdi ▸ hp
    rw [lazyGetCoreM_eq_core Li out hp' hne hadv] at hrd
    by_cases hmask : ∃ m, (splitRec Li.sd out).item = some (.mask m)
    · obtain ⟨m, hm⟩ := hmask
      have := getitem_refines_mask1 Li bIn keys feat hUi hnei out hp' hne hadv m hm r hrd dj hdj
      cases r with
      | empty bb => exact absurd hrd (hnonempty Li hLi bb)
      | member x => exact this
      | lazy x => exact this
      | lazy2 a b => exact this
    · have hplain := PlainM.toPlain out Li.sd hp' (fun m hm => hmask ⟨m, hm⟩)
      exact getitem_refines_core Li bIn keys feat hUi out hplain hne hadv r hrd dj hdj

/-- **Reads of a stack of stacks**: `lazy_of_lazy[index]` materialises to `dense[index]` for
every Ellipsis-free index whose item on the outer stack dim is an integer, a slice, absent or a
rank-1 mask, given that the inner reads refine (`InnerOK`). -/
theorem getitem2_refines_core [Inhabited α] (Lo : Lazy2 α) (bIn : Shape) (keys : List String) (feat : String → Shape)
    (sdIn nIn : Nat) (hU : Uniform2 Lo bIn keys feat sdIn nIn) (hne0 : Lo.members ≠ []) (ix : List Ix)
    (hp : PlainM Lo.sd ix) (hne : ∀ it ∈ ix, it ≠ Ix.ell) (hadv : AtMostOneAdv ix)
    (hnt : ∀ t, (splitRec Lo.sd ix).item ≠ some (.tens t))
    (hin : InnerOK Lo (splitRec Lo.sd ix).out)
    (r2 : LRes2 α) (hr : lazyGetCore2 Lo ix = some r2)
    (d : TD α) (hd : (abs2 Lo).index ix = some d) : ReadOK2 r2 d := by
  by_cases hmask : ∃ m, (splitRec Lo.sd ix).item = some (.mask m)
  · obtain ⟨m, hm⟩ := hmask
    exact getitem2_mask1 Lo bIn keys feat sdIn nIn hU hne0 ix hp hne hadv m hm hin r2 hr d hd
  · have hplain := PlainM.toPlain ix Lo.sd hp (fun m hm => hmask ⟨m, hm⟩)
    have := getitem2_plain Lo bIn keys feat sdIn nIn hU hne0 ix hplain hne hadv hnt hin r2 hr d hd
    cases r2 with
    | inner x => exact this
    | lazy a b => exact this
    | empty bb =>
      -- the non-mask branches never build an empty stack
      exfalso
      have hB := splitLoop_before Lo.sd Lo.members.length Lo.batch ix Lo.sd 0 {} (by simp) hplain hne
        (by simpa [AtMostOneAdv] using hadv) rfl rfl rfl rfl
      unfold lazyGetCore2 splitIndex2 at hr
      cases hsel : selOf Lo.members.length (splitRec Lo.sd ix).item with
      | none => simp [hB.1 hsel] at hr
      | some p =>
        obtain ⟨sel, ii, nd⟩ := p
        obtain ⟨st', hloop, hspec⟩ := hB.2 sel ii nd hsel
        simp only [hloop, Option.bind_some, hspec.hasBool, Bool.false_eq_true, if_false] at hr
        split at hr
        · simp at hr
        · split at hr
          · split at hr
            · simp only [Option.map_eq_some_iff] at hr
              obtain ⟨_, _, h⟩ := hr; cases h
            · simp at hr
          · simp only [Option.bind_eq_some_iff, Option.map_eq_some_iff] at hr
            obtain ⟨_, _, _, _, h⟩ := hr; cases h

/-- with Ellipsis (expanded against the outer batch rank, as the dense stack does) and the inner
hypothesis discharged by the one-level theorems -/
theorem getitem2_refines_all [Inhabited α] (Lo : Lazy2 α) (bIn : Shape) (keys : List String) (feat : String → Shape)
    (sdIn nIn : Nat) (hU : Uniform2 Lo bIn keys feat sdIn nIn) (hne0 : Lo.members ≠ []) (ix : List Ix)
    (hadv : AtMostOneAdv ix)
    (hp : ∀ ix', convertEllipsis ix Lo.batch.length = some ix' →
      PlainM Lo.sd ix' ∧ (∀ t, (splitRec Lo.sd ix').item ≠ some (.tens t)) ∧
      PlainM sdIn (splitRec Lo.sd ix').out ∧
      ∀ Li ∈ Lo.members, ∀ bb, lazyGetCore Li (splitRec Lo.sd ix').out ≠ some (.empty bb))
    (r2 : LRes2 α) (hr : lazyGet2 Lo ix = some r2)
    (d : TD α) (hd : (abs2 Lo).getitem ix = some d) : ReadOK2 r2 d := by
  unfold lazyGet2 at hr
  unfold TD.getitem at hd
  rw [show (abs2 Lo).batch = Lo.batch by rw [abs2_eq]; exact denseOf_batch Lo] at hd
  cases hc : convertEllipsis ix Lo.batch.length with
  | none => simp [hc] at hr
  | some ix' =>
    simp only [hc, Option.bind_some] at hr hd
    obtain ⟨hnoell, hcount⟩ := convertEllipsis_spec ix ix' _ hc
    have hadv' : AtMostOneAdv ix' := by unfold AtMostOneAdv at hadv ⊢; omega
    obtain ⟨hpm, hnt, hpin, hnon⟩ := hp ix' hc
    have hadvo : AtMostOneAdv (splitRec Lo.sd ix').out := by
      have := countP_split ix' Lo.sd
      unfold AtMostOneAdv at hadv' ⊢; omega
    have hin := innerOK_of_refines Lo bIn keys feat sdIn nIn hU (splitRec Lo.sd ix').out hpin
      (fun it hit => hnoell it (splitRec_out_mem ix' Lo.sd it hit)) hadvo hnon
    exact getitem2_refines_core Lo bIn keys feat sdIn nIn hU hne0 ix' hpm hnoell hadv' hnt hin r2 hr d hd

end TdVerif.C08
