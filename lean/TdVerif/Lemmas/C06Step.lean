/-
  C06 — what each lock-machine event does to bindings, flags and liveness (the facts coherence needs).
-/
import TdVerif.Lemmas.C06Coh

namespace TdVerif.C06
open TdVerif.C05

/-- `h'` after an event that resets the caches of `L` and may restructure the nodes `M` -/
structure StepFacts (h h' : Heap) (L M : List Nat) : Prop where
  content : ∀ p, live h p = true → flagged h p = true → p ∉ L → content h' p = content h p
  objs : ∀ o, o < h.size → o ∉ M → (h'.node o).kids = (h.node o).kids ∧ payload (h'.node o) = payload (h.node o)
  clean : ∀ p, (live h' p && flagged h' p) = false → p ∈ L ∨ (live h p && flagged h p) = false
  size : h.size ≤ h'.size

theorem StepFacts.refl (h : Heap) (L M : List Nat) : StepFacts h h L M :=
  ⟨fun _ _ _ _ => rfl, fun _ _ _ => ⟨rfl, rfl⟩, fun _ hp => .inr hp, Nat.le_refl _⟩

/-- bookkeeping that only adds flags / parents -/
theorem facts_of_le {h h' : Heap} (le : Le h h') (st : SameStruct h h') (L M : List Nat) : StepFacts h h' L M := by
  refine ⟨fun p _ _ _ => st.content p, fun o _ _ => st o, fun p hp => .inr ?_, by rw [le.1.1]; exact Nat.le_refl _⟩
  rw [le.1.live] at hp
  cases hl : live h p with
  | false => simp
  | true =>
    rw [hl] at hp
    simp only [Bool.true_and] at hp ⊢
    cases hf : flagged h p with
    | false => rfl
    | true => rw [le.flagged p hf] at hp; cases hp

theorem lockEv_le (h : Heap) (i : Nat) : Le h (lockEv h i).1 := by
  unfold lockEv; split
  · exact Le.refl h
  · exact propLockF_le _ _ _ _

theorem shareEv_le (h : Heap) (i : Nat) : Le h (shareEv h i) := by
  unfold shareEv
  exact foldl_pre Le Le.refl (fun _ _ _ => Le.trans) _ (fun acc j => by
    unfold shareNode; split
    · exact propLockF_le _ _ _ _
    · exact lockEv_le acc j) _ _

/-! ### `unlock_` -/

theorem unlockEv_shape {h : Heap} (o : Ordered h) (i : Nat) : SameShape h (unlockEv h i).1 := by
  have f := unlock_facts o i
  rcases hck : checkAll (propUnlockF (i + 1) h i).1 ((propUnlockF (i + 1) h i).2 ++ [i]) with ⟨h2, b⟩
  rw [hck] at f
  have s := f.ue.1.trans f.ce.1
  cases b with
  | true => rw [unlockEv_ok h i h2 hck]; exact s
  | false => rw [unlockEv_fail h i h2 hck]; exact s.trans (lockEv_shape h2 i)

theorem unlockEv_frame {h : Heap} (o : Ordered h) (i m : Nat) (hm : ¬ Reach h i m) :
    (unlockEv h i).1.node m = h.node m := by
  have f := unlock_facts o i
  rcases hck : checkAll (propUnlockF (i + 1) h i).1 ((propUnlockF (i + 1) h i).2 ++ [i]) with ⟨h2, b⟩
  rw [hck] at f
  have s := f.ue.1.trans f.ce.1
  cases b with
  | true => rw [unlockEv_ok h i h2 hck]; exact f.frame2 m hm
  | false =>
    rw [unlockEv_fail h i h2 hck]
    show (lockEv h2 i).1.node m = h.node m
    unfold lockEv
    split
    · exact f.frame2 m hm
    · rw [propLockF_frame _ _ _ _ _ (fun r => hm (s.symm.reach r))]; exact f.frame2 m hm

theorem facts_unlock {h : Heap} (o : Ordered h) (i : Nat) (M : List Nat) :
    StepFacts h (unlockEv h i).1 (unlockErased h i) M := by
  have st := unlockEv_struct h i
  have sh := unlockEv_shape o i
  refine ⟨fun p _ _ _ => st.content p, fun q _ _ => st q, fun p hp => ?_, by rw [sh.1]; exact Nat.le_refl _⟩
  by_cases hr : Reach h i p
  · left
    have f := unlock_facts o i
    exact f.listed p hr
  · right
    rw [sh.live] at hp
    unfold flagged at hp ⊢
    rw [unlockEv_frame o i p hr] at hp
    exact hp

/-! ### allocation -/

theorem alloc_content {h : Heap} (hinv : Inv h) (nd : LNode) (p : Nat) (hp : p < h.size) :
    content (h.alloc nd) p = content h p :=
  contentF_congr_reach h _ (p + 1) p (fun m r => by
    have := r.le hinv.ordered
    rw [alloc_node_ne h nd m (by omega)]; exact ⟨rfl, rfl⟩)

theorem facts_alloc {h : Heap} (hinv : Inv h) (nd : LNode) (L M : List Nat) : StepFacts h (h.alloc nd) L M := by
  refine ⟨fun p hl _ _ => alloc_content hinv nd p (lt_size_of_live hinv hl),
    fun o ho _ => by rw [alloc_node_ne h nd o (by omega)]; exact ⟨rfl, rfl⟩,
    fun p hp => .inr ?_, by show h.size ≤ h.size + 1; omega⟩
  by_cases hps : p = h.size
  · subst hps
    have := hinv.bounded h.size (Nat.le_refl _)
    simp [live, this]
  · unfold live flagged at hp ⊢
    rw [alloc_node_ne h nd p hps] at hp; exact hp

theorem StepFacts.trans_le {h h1 h2 : Heap} {L M : List Nat} (f : StepFacts h h1 L M)
    (le : Le h1 h2) (st : SameStruct h1 h2) : StepFacts h h2 L M := by
  refine ⟨fun p hl hf hp => by rw [st.content p]; exact f.content p hl hf hp,
    fun o ho hm => ⟨by rw [(st o).1]; exact (f.objs o ho hm).1, by rw [(st o).2]; exact (f.objs o ho hm).2⟩,
    fun p hp => f.clean p ?_, by rw [le.1.1]; exact f.size⟩
  rw [le.1.live] at hp
  cases hl : live h1 p with
  | false => simp
  | true =>
    rw [hl] at hp
    simp only [Bool.true_and] at hp ⊢
    cases hf : flagged h1 p with
    | false => rfl
    | true => rw [le.flagged p hf] at hp; cases hp

/-! ### garbage collection, mutators -/

theorem facts_gc (h : Heap) (i : Nat) (M : List Nat) :
    StepFacts h (h.upd i (fun x => { x with alive := false })) [i] M := by
  have st : SameStruct h (h.upd i (fun x => { x with alive := false })) := by
    apply sameStruct_upd; intro x; exact ⟨rfl, rfl⟩
  refine ⟨fun p _ _ _ => st.content p, fun o _ _ => st o, fun p hp => ?_, Nat.le_refl _⟩
  by_cases hpi : p = i
  · exact .inl (by simp [hpi])
  · right; unfold live flagged at hp ⊢; rw [upd_node_ne _ _ _ _ hpi] at hp; exact hp

theorem write_bindings (n n' : LNode) (k : String) (h : applyEff n (.write k) = some n') :
    payload n' = payload n ∧ n'.kids = n.kids := by
  simp only [applyEff] at h
  split at h
  · simp only [Option.some.injEq] at h; subst h
    refine ⟨?_, rfl⟩
    unfold payload
    simp only [Prod.mk.injEq, and_true]
    unfold bindings
    simp only [List.map_map]
    apply List.map_congr_left
    intro a _
    simp only [Function.comp]
    split <;> rfl
  · cases h

/-- replacing node `i` by a node with the same lock bookkeeping -/
theorem facts_upd_node {h : Heap} (hinv : Inv h) (i : Nat) (n' : LNode)
    (ha : n'.alive = (h.node i).alive) (hfl : n'.flag = (h.node i).flag)
    (hcase : (n'.kids = (h.node i).kids ∧ payload n' = payload (h.node i)) ∨ flagged h i = false)
    (L : List Nat) : StepFacts h (h.upd i (fun _ => n')) L [i] := by
  have nself : (h.upd i (fun _ => n')).node i = n' := upd_node_self h i _
  have nne : ∀ m, m ≠ i → (h.upd i (fun _ => n')).node m = h.node m := fun m hm => upd_node_ne h i m _ hm
  have hlive : ∀ m, live (h.upd i (fun _ => n')) m = live h m := by
    intro m; unfold live
    by_cases hm : m = i
    · subst hm; rw [nself, ha]
    · rw [nne m hm]
  have hflag : ∀ m, flagged (h.upd i (fun _ => n')) m = flagged h m := by
    intro m; unfold flagged
    by_cases hm : m = i
    · subst hm; rw [nself, hfl]
    · rw [nne m hm]
  refine ⟨fun p hl hf _ => ?_, fun o _ ho => ?_, fun p hp => .inr (by rw [hlive, hflag] at hp; exact hp), Nat.le_refl _⟩
  · apply contentF_congr_reach
    intro m r
    by_cases hm : m = i
    · subst hm
      rcases hcase with ⟨a, b⟩ | c
      · rw [nself]; exact ⟨a, b⟩
      · have := (closed_reach hinv hl hf m r).2
        rw [c] at this; cases this
    · rw [nne m hm]; exact ⟨rfl, rfl⟩
  · have : o ≠ i := by simpa using ho
    rw [nne o this]; exact ⟨rfl, rfl⟩

end TdVerif.C06
