/-
  CPython `slice.indices` (Model/SliceSpec.lean): the clamped bounds, and every element of
  `range(*slice.indices(len))` is a valid position of a sequence of length `len`.
-/
import TdVerif.Model.SliceSpec

namespace TdVerif.SliceSpec

/-- the clamping invariant of `slice.indices(len)` for `len ≥ 0` -/
theorem indices_bounds (a b c : Option Int) (len : Int) (hlen : 0 ≤ len) (s e st : Int)
    (h : indices a b c len = .ok (s, e, st)) :
    st ≠ 0 ∧ (0 < st → 0 ≤ s ∧ s ≤ len ∧ 0 ≤ e ∧ e ≤ len) ∧
      (st < 0 → -1 ≤ s ∧ s ≤ len - 1 ∧ -1 ≤ e ∧ e ≤ len - 1) := by
  unfold indices at h
  cases a <;> cases b <;> cases c <;> simp only [Option.getD] at h <;> split at h <;>
    first
    | (cases h; done)
    | (simp only [Except.ok.injEq, Prod.mk.injEq] at h
       obtain ⟨h1, h2, h3⟩ := h
       subst h1 h2 h3
       refine ⟨by omega, ?_, ?_⟩ <;> intro hh <;> (repeat' split) <;> omega)

theorem range_elem_in_bounds (s e st len k : Int)
    (hpos : 0 < st → 0 ≤ s ∧ s ≤ len ∧ 0 ≤ e ∧ e ≤ len)
    (hneg : st < 0 → -1 ≤ s ∧ s ≤ len - 1 ∧ -1 ≤ e ∧ e ≤ len - 1)
    (hst : st ≠ 0) (hk0 : 0 ≤ k) (hk : k < rangeLen s e st) :
    0 ≤ s + st * k ∧ s + st * k < len := by
  unfold rangeLen at hk
  by_cases hp : st > 0
  · have hb := hpos hp
    simp only [hp, if_true] at hk
    by_cases hlt : s < e
    · simp only [hlt, if_true] at hk
      have hk' : k ≤ (e - s - 1) / st := by omega
      have hmul : k * st ≤ e - s - 1 := (Int.le_ediv_iff_mul_le hp).1 hk'
      have hnn : 0 ≤ st * k := Int.mul_nonneg (by omega) hk0
      have hc : st * k = k * st := Int.mul_comm _ _
      omega
    · simp only [hlt, if_false] at hk; omega
  · have hn : st < 0 := by omega
    have hb := hneg hn
    simp only [hp, if_false] at hk
    by_cases hlt : e < s
    · simp only [hlt, if_true] at hk
      have hns : 0 < -st := by omega
      have hk' : k ≤ (s - e - 1) / (-st) := by omega
      have hmul : k * (-st) ≤ s - e - 1 := (Int.le_ediv_iff_mul_le hns).1 hk'
      have hnn : 0 ≤ (-st) * k := Int.mul_nonneg (by omega) hk0
      have h1 : k * (-st) = -(st * k) := by rw [Int.mul_neg, Int.mul_comm]
      have h2 : (-st) * k = -(st * k) := by rw [Int.neg_mul]
      omega
    · simp only [hlt, if_false] at hk; omega

theorem rangeLen_nonneg (s e st : Int) (hst : st ≠ 0) : 0 ≤ rangeLen s e st := by
  unfold rangeLen
  split
  · rename_i hp
    split
    · have : 0 ≤ (e - s - 1) / st := Int.ediv_nonneg (by omega) (by omega)
      omega
    · omega
  · split
    · have : 0 ≤ (s - e - 1) / (-st) := Int.ediv_nonneg (by omega) (by omega)
      omega
    · omega

end TdVerif.SliceSpec
