/-
  C08 — reductions through a lazy stack: member-wise `all()` / `any()` are the dense ones; the
  reductions along a dim are applied to the dense entries.
-/
import TdVerif.Model.C08Reduce
import TdVerif.Lemmas.C08CatN
namespace TdVerif.C08

/-- in bounds of the stacked shape = in range along the stack dim and in bounds of the member shape -/
theorem InB_insertIdx_iff (c : List Nat) (sh : Shape) (sd n : Nat) (hsd : sd ≤ sh.length)
    (hlen : c.length = sh.length + 1) :
    InB c (sh.insertIdx sd n) ↔ at0 c sd < n ∧ InB (c.eraseIdx sd) sh := by
  constructor
  · intro h
    refine ⟨InB.at0_lt_of_insert c sh sd n hsd h, ?_⟩
    have := InB.eraseIdx sd h
    rwa [List.eraseIdx_insertIdx_self] at this
  · intro ⟨h1, h2⟩
    have := InB.insertIdx sd (at0 c sd) n hsd h1 h2
    rwa [insertIdx_eraseIdx_self c sd (by omega)] at this

theorem all_stack_iff (ms : List (T Bool)) (sh : Shape) (sd : Nat) (hsh : ∀ m ∈ ms, m.shape = sh)
    (hne : ms ≠ []) (hsd : sd ≤ sh.length) :
    (T.stack ms sd).allB = ms.all T.allB := by
  rw [Bool.eq_iff_iff]
  simp only [T.allB, List.all_eq_true, mem_allCoords_iff]
  rw [T.stack_shape, head_shape_of_all ms sh hsh hne]
  constructor
  · intro h m hm c hc
    obtain ⟨i, hi, rfl⟩ := List.getElem_of_mem hm
    rw [hsh _ (List.getElem_mem _)] at hc
    have hc' := InB.insertIdx sd i ms.length hsd hi hc
    have := h _ hc'
    rw [T.stack_get] at this
    have hlen : c.length = sh.length := InB.length hc
    have hat : at0 (c.insertIdx sd i) sd = i := by
      simp [at0, List.getElem?_insertIdx_self, hlen, hsd]
    rw [hat, List.eraseIdx_insertIdx_self, List.getElem?_eq_getElem hi] at this
    simpa using this
  · intro h c hc
    have hlen : c.length = sh.length + 1 := by
      rw [InB.length hc, List.length_insertIdx_of_le_length hsd]
    obtain ⟨h1, h2⟩ := (InB_insertIdx_iff c sh sd ms.length hsd hlen).mp hc
    rw [T.stack_get, List.getElem?_eq_getElem h1]
    simp only [Option.getD_some]
    apply h _ (List.getElem_mem _)
    rw [hsh _ (List.getElem_mem _)]
    exact h2

end TdVerif.C08
namespace TdVerif.C08

theorem any_stack_iff (ms : List (T Bool)) (sh : Shape) (sd : Nat) (hsh : ∀ m ∈ ms, m.shape = sh)
    (hne : ms ≠ []) (hsd : sd ≤ sh.length) :
    (T.stack ms sd).anyB = ms.any T.anyB := by
  rw [Bool.eq_iff_iff]
  simp only [T.anyB, List.any_eq_true, mem_allCoords_iff]
  rw [T.stack_shape, head_shape_of_all ms sh hsh hne]
  constructor
  · intro ⟨c, hc, hv⟩
    have hlen : c.length = sh.length + 1 := by
      rw [InB.length hc, List.length_insertIdx_of_le_length hsd]
    obtain ⟨h1, h2⟩ := (InB_insertIdx_iff c sh sd ms.length hsd hlen).mp hc
    rw [T.stack_get, List.getElem?_eq_getElem h1] at hv
    refine ⟨ms[at0 c sd], List.getElem_mem _, c.eraseIdx sd, ?_, by simpa using hv⟩
    rw [hsh _ (List.getElem_mem _)]
    exact h2
  · intro ⟨m, hm, c, hc, hv⟩
    obtain ⟨i, hi, rfl⟩ := List.getElem_of_mem hm
    rw [hsh _ (List.getElem_mem _)] at hc
    refine ⟨c.insertIdx sd i, InB.insertIdx sd i ms.length hsd hi hc, ?_⟩
    have hlen : c.length = sh.length := InB.length hc
    have hat : at0 (c.insertIdx sd i) sd = i := by
      simp [at0, List.getElem?_insertIdx_self, hlen, hsd]
    rw [T.stack_get, hat, List.eraseIdx_insertIdx_self, List.getElem?_eq_getElem hi]
    simpa using hv

/-- `lazy.all()` (member by member) is `dense.all()` -/
theorem all_refines (L : Lazy Bool) (b : Shape) (keys : List String) (feat : String → Shape)
    (hU : Uniform L b keys feat) (hne : L.members ≠ []) : lazyAll L = (absL L).allB := by
  obtain ⟨_, hk0⟩ := head_batch_of_uniform L b keys feat hU hne
  have hkeys : (absL L).keys = keys := hk0
  have hleaf : ∀ k ∈ keys, ((absL L).leaf k).allB = L.members.all fun m => (m.leaf k).allB := by
    intro k hk
    show (T.stack (L.members.map fun m => m.leaf k) L.sd).allB = _
    rw [all_stack_iff _ (b ++ feat k) L.sd (leaf_shapes L b keys feat hU k hk) (by simpa using hne)
      (by simp; have := hU.hsd; omega), List.all_map]
    rfl
  rw [Bool.eq_iff_iff]
  unfold lazyAll TD.allB
  rw [hkeys]
  simp only [List.all_eq_true]
  constructor
  · intro h k hk
    rw [hleaf k hk, List.all_eq_true]
    intro m hm
    exact h m hm k (by rw [hU.hkeys m hm]; exact hk)
  · intro h m hm k hk
    have hkk : k ∈ keys := by rw [← hU.hkeys m hm]; exact hk
    have := h k hkk
    rw [hleaf k hkk, List.all_eq_true] at this
    exact this m hm

/-- `lazy.any()` (member by member) is `dense.any()` -/
theorem any_refines (L : Lazy Bool) (b : Shape) (keys : List String) (feat : String → Shape)
    (hU : Uniform L b keys feat) (hne : L.members ≠ []) : lazyAny L = (absL L).anyB := by
  obtain ⟨_, hk0⟩ := head_batch_of_uniform L b keys feat hU hne
  have hkeys : (absL L).keys = keys := hk0
  have hleaf : ∀ k ∈ keys, ((absL L).leaf k).anyB = L.members.any fun m => (m.leaf k).anyB := by
    intro k hk
    show (T.stack (L.members.map fun m => m.leaf k) L.sd).anyB = _
    rw [any_stack_iff _ (b ++ feat k) L.sd (leaf_shapes L b keys feat hU k hk) (by simpa using hne)
      (by simp; have := hU.hsd; omega), List.any_map]
    rfl
  rw [Bool.eq_iff_iff]
  unfold lazyAny TD.anyB
  rw [hkeys]
  simp only [List.any_eq_true]
  constructor
  · intro ⟨m, hm, k, hk, hv⟩
    have hkk : k ∈ keys := by rw [← hU.hkeys m hm]; exact hk
    refine ⟨k, hkk, ?_⟩
    rw [hleaf k hkk, List.any_eq_true]
    exact ⟨m, hm, hv⟩
  · intro ⟨k, hk, hv⟩
    rw [hleaf k hk, List.any_eq_true] at hv
    obtain ⟨m, hm, hv⟩ := hv
    exact ⟨m, hm, k, by rw [hU.hkeys m hm]; exact hk, hv⟩

/-- the reductions along a dim work on the entries `_get_str` returns, i.e. on the dense entries -/
theorem reduce_entries_dense [Inhabited α] (L : Lazy α) (keys : List String) (red : T α → T β)
    (h : ∀ m ∈ L.members, ∀ k ∈ keys, k ∈ m.keys) :
    lazyReduceEntries L keys red = some (keys.map fun k => (k, red ((absL L).leaf k))) := by
  unfold lazyReduceEntries
  rw [allSome_eq_some]
  simp only [List.map_map]
  apply List.map_congr_left
  intro k hk
  have : lazyGetStr L k = some ((absL L).leaf k) := by
    unfold lazyGetStr
    rw [if_pos]
    · rfl
    · simpa [List.all_eq_true] using fun m hm => h m hm k hk
  simp [this]

end TdVerif.C08
