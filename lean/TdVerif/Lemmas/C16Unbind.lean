/-
  C16 — `unbind` on the representation: piece `i` along `dim` is the slice `i` of the array.
-/
import TdVerif.Lemmas.C16IndexMain

namespace TdVerif.C16
namespace NT
variable {O : Type}

/-- `zip(*rows)`: the `i`-th entry of column `j` is the `j`-th entry of row `i` -/
theorem transposeLists_spec {α : Type} : ∀ (rows : List (List α)) (k : Nat),
    (∀ row ∈ rows, row.length = k) → rows ≠ [] →
    (transposeLists rows).length = k ∧
    ∀ (j i : Nat), ((transposeLists rows)[j]?).bind (fun (col : List α) => col[i]?)
      = (rows[i]?).bind (fun (row : List α) => row[j]?)
  | [], _, _, h => absurd rfl h
  | [row], k, hk, _ => by
    have hr : row.length = k := hk row (by simp)
    simp only [transposeLists]
    refine ⟨by simp [hr], ?_⟩
    intro j i
    simp only [List.getElem?_map]
    cases hj : row[j]? with
    | none => cases i <;> simp [hj]
    | some x => cases i <;> simp [hj]
  | row :: r2 :: rows, k, hk, _ => by
    have hr : row.length = k := hk row (by simp)
    obtain ⟨hl, hel⟩ := transposeLists_spec (r2 :: rows) k (fun x hx => hk x (by simp [hx])) (by simp)
    rw [transposeLists]
    cases hc : transposeLists (r2 :: rows) with
    | nil =>
      rw [hc] at hl
      simp only [List.length_nil] at hl
      have hrow : row = [] := List.eq_nil_of_length_eq_zero (by omega)
      subst hrow
      refine ⟨by simpa using hl, ?_⟩
      intro j i
      simp only [List.map_nil, List.getElem?_nil, Option.bind_none]
      -- every row is empty
      cases hi : (([] : List α) :: r2 :: rows)[i]? with
      | none => rfl
      | some rw' =>
        have : rw' ∈ ([] : List α) :: r2 :: rows := List.mem_of_getElem? hi
        have hlen : rw'.length = k := hk rw' this
        have : rw' = [] := List.eq_nil_of_length_eq_zero (by omega)
        simp [this]
    | cons c0 cs =>
      rw [hc] at hl hel
      refine ⟨by simp [List.length_zipWith, hr, hl], ?_⟩
      intro j i
      simp only [List.getElem?_zipWith]
      cases hrj : row[j]? with
      | none =>
        have hjk : k ≤ j := by
          rw [List.getElem?_eq_none_iff] at hrj; omega
        have hcj : (c0 :: cs)[j]? = none := by
          rw [List.getElem?_eq_none_iff]; omega
        cases i with
        | zero => simp [hcj, hrj]
        | succ i =>
          have := hel j i
          rw [hcj] at this
          simpa [hcj] using this
      | some x =>
        have hjk : j < k := by
          have := (List.getElem?_eq_some_iff.mp hrj).1; omega
        have hcj : j < (c0 :: cs).length := by omega
        rw [List.getElem?_eq_getElem hcj]
        cases i with
        | zero => simp [hrj]
        | succ i =>
          have := hel j i
          rw [List.getElem?_eq_getElem hcj] at this
          simpa using this

/-- inserting position `i` at `dim` into a coordinate of the shape without `dim` -/
theorem inB_insert_coord : ∀ (dim : Nat) (s : Shape) (c : List Nat) (i : Nat), dim < s.length → dim ≤ c.length →
    inB (c.insertIdx dim i) s = (decide (i < s.getD dim 0) && inB c (s.eraseIdx dim))
  | 0, n :: s, c, i, _, _ => by simp [inB]
  | dim + 1, n :: s, [], i, _, hc => by simp at hc
  | dim + 1, n :: s, j :: c, i, hs, hc => by
    have ih := inB_insert_coord dim s c i (by simpa using hs) (by simpa using hc)
    simp only [List.insertIdx_succ_cons, inB, ih, List.getD_cons_succ, List.eraseIdx_cons_succ]
    cases decide (j < n) <;> cases decide (i < s.getD dim 0) <;> simp
  | _, [], _, _, hs, _ => by simp at hs

theorem unbindList_getElem? : ∀ (ms : List (NT O)) (dim i : Nat),
    (unbindList ms dim)[i]? = (ms[i]?).map (fun m => unbind m dim)
  | [], dim, i => by simp [unbindList]
  | m :: r, dim, 0 => by simp [unbindList]
  | m :: r, dim, i + 1 => by simp [unbindList, unbindList_getElem? r dim i]

theorem unbindList_length : ∀ (ms : List (NT O)) (dim : Nat), (unbindList ms dim).length = ms.length
  | [], _ => rfl
  | m :: r, dim => by simp [unbindList, unbindList_length r dim]

theorem mem_unbindList : ∀ (ms : List (NT O)) (dim : Nat) (row : List (NT O)),
    row ∈ unbindList ms dim → ∃ m ∈ ms, row = unbind m dim
  | [], dim, row, h => by simp [unbindList] at h
  | m :: r, dim, row, h => by
    simp only [unbindList, List.mem_cons] at h
    rcases h with rfl | h
    · exact ⟨m, by simp, rfl⟩
    · obtain ⟨m', hm', rfl⟩ := mem_unbindList r dim row h
      exact ⟨m', by simp [hm'], rfl⟩

/-- what `unbind` promises about one entry -/
def UnbindOk (r : NT O) (dim : Nat) : Prop :=
  (unbind r dim).length = (shape r).getD dim 0
  ∧ (∀ p ∈ unbind r dim, wf p = true ∧ shape p = (shape r).eraseIdx dim)
  ∧ ∀ (i : Nat) (c : List Nat), c.length + 1 = (shape r).length →
      ((unbind r dim)[i]?).bind (fun p => getAt p c) = getAt r (c.insertIdx dim i)

theorem shape_stack_cons (m0 : NT O) (r0 : List (NT O)) (d : Nat) :
    shape (.stack (m0 :: r0) d) = (shape m0).insertIdx d (r0.length + 1) := rfl

mutual
theorem unbind_spec : ∀ (r : NT O) (dim : Nat), wf r = true → dim < (shape r).length → UnbindOk r dim
  | .shared o s, dim, _, hdim => by
    simp only [shape] at hdim
    refine ⟨by simp [unbind, shape], ?_, ?_⟩
    · intro p hp
      simp only [unbind, List.mem_replicate] at hp
      rw [hp.2]; simp [wf, shape]
    · intro i c hc
      simp only [shape] at hc
      simp only [unbind, List.getElem?_replicate, getAt_shared]
      rw [inB_insert_coord dim s c i hdim (by omega)]
      by_cases hi : i < s.getD dim 0
      · have hi' : i < s[dim]?.getD 0 := by simpa [List.getD_eq_getElem?_getD] using hi
        simp [hi', getAt_shared]
      · have hi' : ¬ i < s[dim]?.getD 0 := by simpa [List.getD_eq_getElem?_getD] using hi
        simp [hi']
  | .stack ms d, dim, hw, hdim => by
    obtain ⟨m0, r0, rfl, hd, hmem⟩ := wf_stack hw
    rw [shape_stack_cons] at hdim
    have hrank : ((shape m0).insertIdx d (r0.length + 1)).length = (shape m0).length + 1 :=
      List.length_insertIdx_of_le_length hd _
    by_cases hdd : dim = d
    · -- unbinding along the stack dim: the members
      subst hdd
      refine ⟨?_, ?_, ?_⟩
      · simp [unbind, shape_stack_cons, List.getD_eq_getElem?_getD, List.getElem?_insertIdx_self, hd]
      · intro p hp
        simp only [unbind, ↓reduceIte] at hp
        have := hmem p hp
        exact ⟨this.1, by rw [this.2, shape_stack_cons, List.eraseIdx_insertIdx_self]⟩
      · intro i c hc
        rw [shape_stack_cons, hrank] at hc
        simp only [unbind, ↓reduceIte]
        rw [getAt_stack, List.getElem?_insertIdx_self, if_pos (by omega), List.eraseIdx_insertIdx_self]
        simp
    · -- unbinding along another dim: re-stack the members' pieces
      have hne : ∀ m ∈ m0 :: r0, UnbindOk m (if dim < d then dim else dim - 1) := by
        intro m hm
        have := hmem m hm
        apply unbind_members (m0 :: r0) (if dim < d then dim else dim - 1) m hm this.1
        rw [this.2]
        rw [hrank] at hdim
        split <;> omega
      let newDim := if dim < d then dim else dim - 1
      let newStack := if dim > d then d else d - 1
      have hk : ∀ row ∈ unbindList (m0 :: r0) newDim, row.length = (shape m0).getD newDim 0 := by
        intro row hrow
        obtain ⟨m, hm, rfl⟩ := mem_unbindList _ _ _ hrow
        rw [(hne m hm).1, (hmem m hm).2]
      have hrows : unbindList (m0 :: r0) newDim ≠ [] := by simp [unbindList]
      obtain ⟨hlen, hel⟩ := transposeLists_spec _ _ hk hrows
      have hun : unbind (.stack (m0 :: r0) d) dim
          = (transposeLists (unbindList (m0 :: r0) newDim)).map (fun vals => .stack vals newStack) := by
        simp only [unbind, hdd, ↓reduceIte]
        rfl
      have hgetD : ((shape m0).insertIdx d (r0.length + 1)).getD dim 0 = (shape m0).getD newDim 0 := by
        simp only [List.getD_eq_getElem?_getD, List.getElem?_insertIdx]
        show _ = ((shape m0)[if dim < d then dim else dim - 1]?).getD 0
        by_cases h1 : dim < d
        · simp [h1]
        · have h2 : dim ≠ d := hdd
          simp [h1, h2]
      refine ⟨by rw [hun, List.length_map, hlen, shape_stack_cons, hgetD], ?_, ?_⟩
      · -- the pieces are well-formed stacks of the members' pieces
        intro p hp
        rw [hun, List.mem_map] at hp
        obtain ⟨col, hcol, rfl⟩ := hp
        obtain ⟨j, hj⟩ := List.getElem?_of_mem hcol
        -- the column: one piece per member
        have hcolel : ∀ (i : Nat), col[i]? = ((m0 :: r0)[i]?).bind (fun m => (unbind m newDim)[j]?) := by
          intro i
          have := hel j i
          rw [hj, unbindList_getElem?] at this
          simp only [Option.bind_some] at this
          rw [this]
          cases (m0 :: r0)[i]? <;> simp
        have hjk : j < (shape m0).getD newDim 0 := by
          have := (List.getElem?_eq_some_iff.mp hj).1
          omega
        have hcollen : col.length = (m0 :: r0).length := by
          -- compare where the `getElem?` become none
          apply Nat.le_antisymm
          · apply Nat.le_of_not_lt
            intro hlt
            have h1 := hcolel (m0 :: r0).length
            rw [List.getElem?_eq_getElem (by omega)] at h1
            simp at h1
          · apply Nat.le_of_not_lt
            intro hlt
            have h1 := hcolel col.length
            have hm : col.length < (m0 :: r0).length := hlt
            rw [List.getElem?_eq_none_iff.mpr (Nat.le_refl _), List.getElem?_eq_getElem hm] at h1
            simp only [Option.bind_some] at h1
            have hok := hne _ (List.getElem_mem hm)
            have : j < (unbind (m0 :: r0)[col.length] newDim).length := by
              rw [hok.1, (hmem _ (List.getElem_mem hm)).2]; exact hjk
            rw [List.getElem?_eq_getElem this] at h1
            cases h1
        have hpieces : ∀ q ∈ col, wf q = true ∧ shape q = (shape m0).eraseIdx newDim := by
          intro q hq
          obtain ⟨i, hi⟩ := List.getElem?_of_mem hq
          have h1 := hcolel i
          rw [hi] at h1
          cases hmi : (m0 :: r0)[i]? with
          | none => simp [hmi] at h1
          | some m =>
            simp only [hmi, Option.bind_some] at h1
            have hm : m ∈ m0 :: r0 := List.mem_of_getElem? hmi
            have := (hne m hm).2.1 q (List.mem_of_getElem? h1.symm)
            rw [(hmem m hm).2] at this
            exact this
        cases col with
        | nil => simp at hcollen
        | cons q0 qs =>
          have h0 := hpieces q0 (by simp)
          have hns : newStack ≤ ((shape m0).eraseIdx newDim).length := by
            rw [hrank] at hdim
            have : newDim < (shape m0).length := by
              show (if dim < d then dim else dim - 1) < _
              split <;> omega
            rw [List.length_eraseIdx, if_pos this]
            show (if dim > d then d else d - 1) ≤ _
            split <;> omega
          refine ⟨?_, ?_⟩
          · simp only [wf, h0.1, Bool.true_and, Bool.and_eq_true, decide_eq_true_eq]
            refine ⟨by rw [h0.2]; exact hns, ?_⟩
            have : ∀ (l : List (NT O)), (∀ q ∈ l, wf q = true ∧ shape q = (shape m0).eraseIdx newDim) →
                wfList (shape q0) l = true := by
              intro l
              induction l with
              | nil => intro _; rfl
              | cons z zs ih =>
                intro hz
                have hz0 := hz z (by simp)
                simp only [wfList, hz0.1, Bool.true_and, Bool.and_eq_true, decide_eq_true_eq]
                exact ⟨by rw [hz0.2, h0.2], ih (fun y hy => hz y (by simp [hy]))⟩
            exact this qs (fun y hy => hpieces y (by simp [hy]))
          · -- shape: the members' remaining shape with the count re-inserted at the new stack dim
            simp only [shape, h0.2]
            simp only [List.length_cons] at hcollen
            have hq : qs.length + 1 = r0.length + 1 := by omega
            rw [hq]
            rw [hrank] at hdim
            show ((shape m0).eraseIdx (if dim < d then dim else dim - 1)).insertIdx (if dim > d then d else d - 1) (r0.length + 1)
              = ((shape m0).insertIdx d (r0.length + 1)).eraseIdx dim
            by_cases h1 : dim < d
            · have h2 : ¬ dim > d := by omega
              simp only [h1, h2, ↓reduceIte]
              have := List.insertIdx_eraseIdx_of_ge (a := r0.length + 1) (i := dim) (j := d - 1) (as := shape m0) (by omega) (by omega)
              rw [this]
              congr 2
              omega
            · have h2 : dim > d := by omega
              simp only [h1, h2, ↓reduceIte]
              have := List.insertIdx_eraseIdx_of_le (a := r0.length + 1) (i := dim - 1) (j := d) (as := shape m0) (by omega) (by omega)
              rw [this]
              congr 1
              omega
      · -- the object at a coordinate of piece `j`
        intro j c hc
        rw [shape_stack_cons, hrank] at hc
        rw [hrank] at hdim
        rw [hun, List.getElem?_map]
        cases hcolj : (transposeLists (unbindList (m0 :: r0) newDim))[j]? with
        | none =>
          -- no such piece: `j` is outside the unbound dim
          simp only [Option.map_none, Option.bind_none]
          have hjk : (shape m0).getD newDim 0 ≤ j := by
            rw [List.getElem?_eq_none_iff, hlen] at hcolj; exact hcolj
          rw [getAt_stack]
          cases hci : (c.insertIdx dim j)[d]? with
          | none => rfl
          | some i =>
            simp only [Option.bind_some]
            cases hmi : (m0 :: r0)[i]? with
            | none => rfl
            | some m =>
              simp only [Option.bind_some]
              have hm : m ∈ m0 :: r0 := List.mem_of_getElem? hmi
              -- by the member's own unbind: coordinate `j` along `newDim` does not exist
              have hok := (hne m hm).2.2 j ((c.insertIdx dim j).eraseIdx d |>.eraseIdx newDim)
              have hnone : (unbind m newDim)[j]? = none := by
                rw [List.getElem?_eq_none_iff, (hne m hm).1, (hmem m hm).2]; exact hjk
              -- rewrite the coordinate as an insertion into a coordinate of the member without `newDim`
              have hcoord : (c.insertIdx dim j).eraseIdx d
                  = ((c.insertIdx dim j).eraseIdx d |>.eraseIdx newDim).insertIdx newDim j := by
                show _ = (((c.insertIdx dim j).eraseIdx d).eraseIdx (if dim < d then dim else dim - 1)).insertIdx
                  (if dim < d then dim else dim - 1) j
                by_cases h1 : dim < d
                · simp only [h1, ↓reduceIte]
                  have e1 := List.insertIdx_eraseIdx_of_le (a := j) (i := d - 1) (j := dim) (as := c) (by omega) (by omega)
                  have hd1 : d - 1 + 1 = d := by omega
                  rw [hd1] at e1
                  rw [← e1, List.eraseIdx_insertIdx_self]
                · have h2 : dim > d := by omega
                  simp only [h1, ↓reduceIte]
                  have e1 := List.insertIdx_eraseIdx_of_ge (a := j) (i := d) (j := dim - 1) (as := c) (by omega) (by omega)
                  have hd1 : dim - 1 + 1 = dim := by omega
                  rw [hd1] at e1
                  rw [← e1, List.eraseIdx_insertIdx_self]
              have hlen2 : (((c.insertIdx dim j).eraseIdx d).eraseIdx newDim).length + 1 = (shape m).length := by
                rw [(hmem m hm).2]
                have l1 : (c.insertIdx dim j).length = c.length + 1 := List.length_insertIdx_of_le_length (by omega) _
                have l2 : ((c.insertIdx dim j).eraseIdx d).length = c.length := by
                  rw [List.length_eraseIdx, if_pos (by omega), l1]; omega
                rw [List.length_eraseIdx, l2]
                have : newDim < c.length := by
                  show (if dim < d then dim else dim - 1) < _
                  split <;> omega
                rw [if_pos this]; omega
              rw [hcoord, ← hok hlen2, hnone]
              rfl
        | some col =>
          simp only [Option.map_some, Option.bind_some]
          rw [getAt_stack, getAt_stack]
          -- which member: position `newStack` of `c` = position `d` of the full coordinate
          have hpos : (c.insertIdx dim j)[d]? = c[newStack]? := by
            show _ = c[if dim > d then d else d - 1]?
            by_cases h1 : dim < d
            · have h2 : ¬ dim > d := by omega
              simp only [h2, ↓reduceIte]
              exact List.getElem?_insertIdx_of_gt h1
            · have h2 : dim > d := by omega
              simp only [h2, ↓reduceIte]
              exact List.getElem?_insertIdx_of_lt h2
          rw [hpos]
          cases hci : c[newStack]? with
          | none => rfl
          | some i =>
            simp only [Option.bind_some]
            have hel' := hel j i
            rw [hcolj, unbindList_getElem?] at hel'
            simp only [Option.bind_some] at hel'
            rw [hel']
            cases hmi : (m0 :: r0)[i]? with
            | none => rfl
            | some m =>
              simp only [Option.map_some, Option.bind_some]
              have hm : m ∈ m0 :: r0 := List.mem_of_getElem? hmi
              have hcoord : (c.insertIdx dim j).eraseIdx d = (c.eraseIdx newStack).insertIdx newDim j := by
                show _ = (c.eraseIdx (if dim > d then d else d - 1)).insertIdx (if dim < d then dim else dim - 1) j
                by_cases h1 : dim < d
                · have h2 : ¬ dim > d := by omega
                  simp only [h1, h2, ↓reduceIte]
                  have e1 := List.insertIdx_eraseIdx_of_le (a := j) (i := d - 1) (j := dim) (as := c) (by omega) (by omega)
                  have hd1 : d - 1 + 1 = d := by omega
                  rw [hd1] at e1
                  exact e1.symm
                · have h2 : dim > d := by omega
                  simp only [h1, h2, ↓reduceIte]
                  have e1 := List.insertIdx_eraseIdx_of_ge (a := j) (i := d) (j := dim - 1) (as := c) (by omega) (by omega)
                  have hd1 : dim - 1 + 1 = dim := by omega
                  rw [hd1] at e1
                  exact e1.symm
              have hlen2 : (c.eraseIdx newStack).length + 1 = (shape m).length := by
                rw [(hmem m hm).2, List.length_eraseIdx]
                have : newStack < c.length := by
                  show (if dim > d then d else d - 1) < _
                  split <;> omega
                rw [if_pos this]; omega
              rw [hcoord]
              exact (hne m hm).2.2 j (c.eraseIdx newStack) hlen2
theorem unbind_members : ∀ (ms : List (NT O)) (dim : Nat) (m : NT O), m ∈ ms → wf m = true →
    dim < (shape m).length → UnbindOk m dim
  | [], _, m, hm, _, _ => by simp at hm
  | m0 :: r, dim, m, hm, hw, hd => by
    rcases List.mem_cons.mp hm with h | h
    · have : UnbindOk m0 dim := unbind_spec m0 dim (h ▸ hw) (h ▸ hd)
      exact h ▸ this
    · exact unbind_members r dim m h hw hd
end

end NT
end TdVerif.C16
