/-
  C04 — split_keys: lemmas for `split_refines` (Props/C04.lean)
-/
import TdVerif.Model.C04Tree
import TdVerif.Model.C04Spec
import TdVerif.Lemmas.C04

namespace TdVerif.C04
open TdVerif

/-- removing an entry cannot make a key run through a NonTensorData -/
theorem throughNt_remove (p : Path) (t t' : Entry) (hw : WF t) (h : remove p t = some t') (q : Path)
    (hq : throughNt q t' = true) : throughNt q t = true := by
  fun_induction remove p t generalizing t' q
  · simp at h
  · rename_i k kids hsome
    simp at h; subst h
    match q, hq with
    | [_], hq => simp [throughNt] at hq
    | a :: a2 :: rest, hq =>
      simp only [throughNt] at hq ⊢
      by_cases hak : k = a
      · subst hak; rw [dget_ddel_same _ _ hw.kids_nodup] at hq; simp at hq
      · rw [dget_ddel_other hak] at hq; exact hq
  · simp at h
  · rename_i k k2 rest kids c hc ih
    simp at h
    obtain ⟨c', hc', rfl⟩ := h
    match q, hq with
    | [_], hq => simp [throughNt] at hq
    | a :: a2 :: rest', hq =>
      simp only [throughNt] at hq ⊢
      by_cases hak : k = a
      · subst hak
        rw [dget_dset_same] at hq
        rw [hc]
        exact ih c' (hw.child hc) hc' _ hq
      · rw [dget_dset_other _ hak] at hq; exact hq
  · simp at h
  · simp at h


/-- `t'` is what is left of `t` after some removals: still well-formed, and no key runs through a NonTensorData
that did not before -/
def Shrunk (t t' : Entry) : Prop :=
  WF t' ∧ (∀ q, throughNt q t' = true → throughNt q t = true) ∧ ((∃ k, t = .node k) → ∃ k', t' = .node k')

theorem Shrunk.refl {t : Entry} (hw : WF t) : Shrunk t t := ⟨hw, fun _ h => h, id⟩

theorem Shrunk.trans {a b c : Entry} (h1 : Shrunk a b) (h2 : Shrunk b c) : Shrunk a c :=
  ⟨h2.1, fun q h => h1.2.1 q (h2.2.1 q h), fun h => h2.2.2 (h1.2.2 h)⟩

theorem specPop_shrunk (p : Path) (d : Bool) (t : Entry) (hw : WF t) : Shrunk t (specPop p d t).1 := by
  simp only [specPop]
  split
  · exact Shrunk.refl hw
  · split
    · split
      · rename_i t' hr
        exact ⟨wf_remove p _ _ hw hr, fun q hq => throughNt_remove p t t' hw hr q hq,
          fun _ => by obtain ⟨_, k', _, rfl⟩ := remove_shape hr; exact ⟨k', rfl⟩⟩
      · exact Shrunk.refl hw
    · split
      · exact Shrunk.refl hw
      · split <;> exact Shrunk.refl hw

theorem erase_val {o : Out} {x : Option Entry} (h : o.erase = (Out.val x).erase) : o = .val x := by
  cases o <;> simp [Out.erase] at h ⊢
  exact h

theorem splitSet_refines (strict : Bool) : ∀ (keys : List Path) (last out : Entry), WF last →
    (strict = true ∨ ∀ p ∈ keys, throughNt p last = false) →
    (splitSet strict keys last out).1 = (specSplitSet strict keys last out).1 ∧
    (splitSet strict keys last out).2.1 = (specSplitSet strict keys last out).2.1 ∧
    (splitSet strict keys last out).2.2.toOption = (specSplitSet strict keys last out).2.2.toOption ∧
    Shrunk last (specSplitSet strict keys last out).1 := by
  intro keys
  induction keys with
  | nil => intro last out hw _; simp [splitSet, specSplitSet, Shrunk.refl hw]
  | cons p r ih =>
    intro last out hw hs
    have hnt : throughNt p last = false ∨ (!strict) = false := by
      rcases hs with h | h
      · exact Or.inr (by simp [h])
      · exact Or.inl (h p (by simp))
    have hp := pop_refines_aux p (!strict) last hnt
    have hsh := specPop_shrunk p (!strict) last hw
    simp only [splitSet, specSplitSet]
    cases h1 : popT p (!strict) last with
    | mk l1 o1 =>
      cases h2 : specPop p (!strict) last with
      | mk l2 o2 =>
        rw [h1, h2] at hp
        rw [h2] at hsh
        obtain ⟨hl, ho⟩ := hp
        simp only at hl ho hsh
        subst hl
        have hs' : strict = true ∨ ∀ q ∈ r, throughNt q l1 = false := by
          rcases hs with h | h
          · exact Or.inl h
          · refine Or.inr fun q hq => ?_
            cases hx : throughNt q l1 with
            | false => rfl
            | true => have := hsh.2.1 q hx; rw [h q (List.mem_cons_of_mem _ hq)] at this; simp at this
        cases o2 with
        | val x =>
          have := erase_val ho; subst this
          cases x with
          | none =>
            obtain ⟨a, b, c, d⟩ := ih l1 out hsh.1 hs'
            exact ⟨a, b, c, hsh.trans d⟩
          | some v =>
            simp only []
            cases hi : insert p v out with
            | none =>
              obtain ⟨e, he⟩ := setTuple_error_of_insert hi
              simp [he, Except.toOption, hsh]
            | some out' =>
              rw [setTuple_of_insert hi]
              obtain ⟨a, b, c, d⟩ := ih l1 out' hsh.1 hs'
              exact ⟨a, b, c, hsh.trans d⟩
        | err e =>
          cases o1 <;> simp [Out.erase] at ho
          simp [Except.toOption, hsh]
        | ok =>
          cases o1 <;> simp [Out.erase] at ho
          simp [Except.toOption, hsh]
        | res l =>
          cases o1 <;> simp [Out.erase] at ho
          subst ho
          simp [Except.toOption, hsh]


theorem splitSets_refines (strict : Bool) : ∀ (sets : List (List Path)) (last : Entry) (outs : List Entry), WF last →
    (strict = true ∨ ∀ ks ∈ sets, ∀ p ∈ ks, throughNt p last = false) →
    (splitSets strict sets last outs).1 = (specSplitSets strict sets last outs).1 ∧
    (splitSets strict sets last outs).2.1 = (specSplitSets strict sets last outs).2.1 ∧
    (splitSets strict sets last outs).2.2.toOption = (specSplitSets strict sets last outs).2.2.toOption ∧
    Shrunk last (specSplitSets strict sets last outs).1 := by
  intro sets
  induction sets with
  | nil => intro last outs hw _; simp [splitSets, specSplitSets, Shrunk.refl hw]
  | cons ks r ih =>
    intro last outs hw hs
    have hks : strict = true ∨ ∀ p ∈ ks, throughNt p last = false := by
      rcases hs with h | h
      · exact Or.inl h
      · exact Or.inr (h ks (by simp))
    have h1 := splitSet_refines strict ks last (.node []) hw hks
    simp only [splitSets, specSplitSets]
    cases ha : splitSet strict ks last (.node []) with
    | mk l1 rest1 =>
      obtain ⟨o1, e1⟩ := rest1
      cases hb : specSplitSet strict ks last (.node []) with
      | mk l2 rest2 =>
        obtain ⟨o2, e2⟩ := rest2
        rw [ha, hb] at h1
        obtain ⟨hl, ho, he, hsh⟩ := h1
        simp only at hl ho he hsh
        subst hl; subst ho
        have hs' : strict = true ∨ ∀ ks' ∈ r, ∀ p ∈ ks', throughNt p l1 = false := by
          rcases hs with h | h
          · exact Or.inl h
          · refine Or.inr fun ks' hk q hq => ?_
            cases hx : throughNt q l1 with
            | false => rfl
            | true => have := hsh.2.1 q hx; rw [h ks' (List.mem_cons_of_mem _ hk) q hq] at this; simp at this
        cases e2 with
        | ok u =>
          cases e1 with
          | ok u' =>
            obtain ⟨a, b, c, d⟩ := ih l1 (o1 :: outs) hsh.1 hs'
            exact ⟨a, b, c, hsh.trans d⟩
          | error e => simp [Except.toOption] at he
        | error e =>
          cases e1 with
          | ok u' => simp [Except.toOption] at he
          | error e' => simp [Except.toOption, hsh]

/-- `split_keys(*key_sets, inplace, strict)`: popping each key from the running remainder and setting it in a fresh
tensordict per key set, then filtering the empty nested tensordicts out of the remainder, equals the same moves on plain
dicts — same outputs, same remainder, same refusals (a refused call changes nothing). -/
theorem splitT_refines (sets : List (List Path)) (inplace strict : Bool) (t : Entry) (hw : WF t)
    (hs : strict = true ∨ ∀ ks ∈ sets, ∀ p ∈ ks, throughNt p t = false) :
    (splitT sets inplace strict t).1 = (specSplit sets inplace strict t).1 ∧
    (splitT sets inplace strict t).2.erase = (specSplit sets inplace strict t).2.erase := by
  have h := splitSets_refines strict sets t [] hw hs
  simp only [splitT, specSplit]
  cases ha : splitSets strict sets t [] with
  | mk l1 rest1 =>
    obtain ⟨o1, e1⟩ := rest1
    cases hb : specSplitSets strict sets t [] with
    | mk l2 rest2 =>
      obtain ⟨o2, e2⟩ := rest2
      rw [ha, hb] at h
      obtain ⟨hl, ho, he, _⟩ := h
      simp only at hl ho he
      subst hl; subst ho
      cases e2 with
      | ok u =>
        cases e1 with
        | ok u' => simp
        | error e => simp [Except.toOption] at he
      | error e =>
        cases e1 with
        | ok u' => simp [Except.toOption] at he
        | error e' => simp [Out.erase]

/-! ### `filter_empty_` keeps the keys unique -/

theorem filterEmpty_go_keys_sub (kids : Kids) : ∀ k, k ∈ (filterEmpty.go kids).map (·.1) → k ∈ kids.map (·.1) := by
  fun_induction filterEmpty.go kids
  · simp
  · rename_i k nt v r ih
    intro k' hk'
    simp only [List.map_cons, List.mem_cons] at hk' ⊢
    rcases hk' with h | h
    · exact Or.inl h
    · exact Or.inr (ih k' h)
  · rename_i k sub r sub' he ih2 ih1
    intro k' hk'
    simp only [List.map_cons, List.mem_cons]
    exact Or.inr (ih1 k' hk')
  · rename_i k sub r sub' he ih2 ih1
    intro k' hk'
    simp only [List.map_cons, List.mem_cons] at hk' ⊢
    rcases hk' with h | h
    · exact Or.inl h
    · exact Or.inr (ih1 k' h)

theorem wf_filterEmpty_go (kids : Kids) (hw : WF (.node kids)) : WF (.node (filterEmpty.go kids)) := by
  fun_induction filterEmpty.go kids
  · exact hw
  · rename_i k nt v r ih
    have hr := ih hw.tail
    refine WF.node _ ?_ ?_
    · simp only [List.map_cons, List.nodup_cons]
      refine ⟨fun hm => ?_, hr.kids_nodup⟩
      have := filterEmpty_go_keys_sub r k hm
      exact (dget_none_iff k r).mp hw.head_fresh this
    · intro k' v' hm
      simp only [List.mem_cons, Prod.mk.injEq] at hm
      rcases hm with ⟨_, rfl⟩ | hm
      · exact WF.leaf _ _
      · exact hr.kid hm
  · rename_i k sub r sub' he ih2 ih1
    exact ih1 hw.tail
  · rename_i k sub r sub' he ih2 ih1
    have hr := ih1 hw.tail
    have hsub := ih2 hw.head
    refine WF.node _ ?_ ?_
    · simp only [List.map_cons, List.nodup_cons]
      refine ⟨fun hm => ?_, hr.kids_nodup⟩
      have := filterEmpty_go_keys_sub r k hm
      exact (dget_none_iff k r).mp hw.head_fresh this
    · intro k' v' hm
      simp only [List.mem_cons, Prod.mk.injEq] at hm
      rcases hm with ⟨_, rfl⟩ | hm
      · exact hsub
      · exact hr.kid hm

theorem specSplit_good (sets : List (List Path)) (inplace strict : Bool) (kids : Kids) (hw : WF (.node kids))
    (hs : strict = true ∨ ∀ ks ∈ sets, ∀ p ∈ ks, throughNt p (.node kids) = false) :
    ∃ kids', (specSplit sets inplace strict (.node kids)).1 = .node kids' ∧ WF (.node kids') := by
  have h := splitSets_refines strict sets (.node kids) [] hw hs
  simp only [specSplit]
  cases hb : specSplitSets strict sets (.node kids) [] with
  | mk l2 rest2 =>
    obtain ⟨o2, e2⟩ := rest2
    rw [hb] at h
    have hwl : WF l2 := h.2.2.2.1
    have hnode := h.2.2.2.2.2 ⟨kids, rfl⟩
    cases e2 with
    | error e => exact ⟨kids, rfl, hw⟩
    | ok u =>
      cases inplace with
      | false => exact ⟨kids, rfl, hw⟩
      | true =>
        cases l2 with
        | leaf nt v => obtain ⟨_, hk⟩ := hnode; simp at hk
        | node k2 => exact ⟨_, by simp [filterEmpty], wf_filterEmpty_go k2 hwl⟩

end TdVerif.C04
