/-
  Helper lemma for C11: unflatten after flatten consumes exactly the leaves of the tree.
-/
import TdVerif.Model.C11Pytree

namespace TdVerif.C11


mutual
theorem unflatten_flatten : ∀ (t : PT) (rest : List Nat),
    unflatten (flatten t).2 ((flatten t).1 ++ rest) = some (unlockAll t, rest)
  | .leaf v, rest => by simp [flatten, unflatten, unlockAll]
  | .node b n d l kids, rest => by
    have := unflattenKids_flattenKids kids rest
    simp only [flatten, unflatten, unlockAll, this]
theorem unflattenKids_flattenKids : ∀ (kids : List (String × PT)) (rest : List Nat),
    unflattenKids (kids.map (·.1)) (flattenKids kids).2 ((flattenKids kids).1 ++ rest) = some (unlockKids kids, rest)
  | [], rest => by simp [flattenKids, unflattenKids, unlockKids]
  | (k, t) :: tl, rest => by
    have h1 := unflatten_flatten t ((flattenKids tl).1 ++ rest)
    have h2 := unflattenKids_flattenKids tl rest
    simp only [flattenKids, List.map_cons, unflattenKids, unlockKids, List.append_assoc, h1, h2]
end


end TdVerif.C11
