/-
  C13 / inplace=True: value lemmas.
-/
import TdVerif.Model.C13Inplace

namespace TdVerif.C13.Inplace
open TdVerif.C13

theorem inplaceAll_length : ∀ (ws : List (Tn × Tn)) (s : VS), (inplaceAll s ws).2.length = ws.length
  | [], _ => rfl
  | (o, t) :: ws, s => by simp [inplaceAll, inplaceAll_length ws]

theorem inplaceAll_next : ∀ (ws : List (Tn × Tn)) (s : VS), (inplaceAll s ws).1.next = s.next + ws.length
  | [], _ => rfl
  | (o, t) :: ws, s => by
    simp only [inplaceAll, inplaceAll_next ws, inplaceWrite, List.length_cons]; omega

/-- the clones are fresh objects -/
theorem inplaceAll_clones_fresh : ∀ (ws : List (Tn × Tn)) (s : VS) (c : Tn), c ∈ (inplaceAll s ws).2 →
    s.next ≤ c.id ∧ c.id < (inplaceAll s ws).1.next
  | [], _, c, h => by simp [inplaceAll] at h
  | (o, t) :: ws, s, c, h => by
    simp only [inplaceAll, List.mem_cons] at h ⊢
    rw [inplaceAll_next]
    rcases h with rfl | h
    · simp [inplaceWrite]; omega
    · have := inplaceAll_clones_fresh ws _ c h
      rw [inplaceAll_next] at this
      simp only [inplaceWrite] at this ⊢
      omega

/-- an object that is not written keeps its value -/
theorem inplaceAll_untouched : ∀ (ws : List (Tn × Tn)) (s : VS) (x : Nat), x < s.next → (∀ w ∈ ws, w.1.id ≠ x) →
    (inplaceAll s ws).1.vals x = s.vals x
  | [], _, _, _, _ => rfl
  | (o, t) :: ws, s, x, hx, hne => by
    simp only [inplaceAll]
    rw [inplaceAll_untouched ws _ x (by simp only [inplaceWrite]; omega) (fun w hw => hne w (List.mem_cons_of_mem _ hw))]
    have h1 : x ≠ o.id := fun e => hne (o, t) (by simp) e.symm
    have h2 : x ≠ s.next := by omega
    simp [inplaceWrite, h1, h2]

/-- the writes: every written object ends with the value its supplied tensor had, every other existing
object keeps its value — provided the written objects are pairwise distinct and no supplied tensor is
one of them -/
theorem inplaceAll_vals : ∀ (ws : List (Tn × Tn)) (s : VS),
    (ws.map (·.1.id)).Nodup → (∀ w ∈ ws, w.1.id < s.next ∧ w.2.id < s.next) →
    (∀ w ∈ ws, ∀ w' ∈ ws, w.2.id ≠ w'.1.id) →
    (∀ w ∈ ws, (inplaceAll s ws).1.vals w.1.id = s.vals w.2.id) ∧
    (∀ x, x < s.next → x ∉ ws.map (·.1.id) → (inplaceAll s ws).1.vals x = s.vals x)
  | [], s, _, _, _ => by simp [inplaceAll]
  | (o, t) :: ws, s, hnd, hlt, hsep => by
    simp only [List.map_cons, List.nodup_cons] at hnd
    have hlt' : ∀ w ∈ ws, w.1.id < (inplaceWrite s o t).1.next ∧ w.2.id < (inplaceWrite s o t).1.next := by
      intro w hw
      have := hlt w (List.mem_cons_of_mem _ hw)
      simp only [inplaceWrite]; omega
    have ih := inplaceAll_vals ws (inplaceWrite s o t).1 hnd.2 hlt'
      (fun w hw w' hw' => hsep w (List.mem_cons_of_mem _ hw) w' (List.mem_cons_of_mem _ hw'))
    have ho : o.id < s.next ∧ t.id < s.next := hlt (o, t) (by simp)
    simp only [inplaceAll]
    constructor
    · intro w hw
      rcases List.mem_cons.1 hw with rfl | hw'
      · -- the object written first is not written again
        rw [ih.2 o.id (by simp only [inplaceWrite]; omega) hnd.1]
        simp [inplaceWrite]
      · rw [ih.1 w hw']
        have h1 : w.2.id ≠ o.id := hsep w hw (o, t) (by simp)
        have h2 : w.2.id ≠ s.next := by have := (hlt w hw).2; omega
        simp [inplaceWrite, h1, h2]
    · intro x hx hnot
      simp only [List.map_cons, List.mem_cons, not_or] at hnot
      rw [ih.2 x (by simp only [inplaceWrite]; omega) hnot.2]
      have h2 : x ≠ s.next := by omega
      simp [inplaceWrite, hnot.1, h2]

/-- what the first pass leaves: the i-th clone holds the value the i-th written object had -/
theorem inplaceAll_clone_vals : ∀ (ws : List (Tn × Tn)) (s : VS),
    (ws.map (·.1.id)).Nodup → (∀ w ∈ ws, w.1.id < s.next) →
    ∀ p ∈ (ws.map (·.1)).zip (inplaceAll s ws).2, (inplaceAll s ws).1.vals p.2.id = s.vals p.1.id
  | [], s, _, _, p, h => by simp [inplaceAll] at h
  | (o, t) :: ws, s, hnd, hlt, p, h => by
    simp only [List.map_cons, List.nodup_cons] at hnd
    simp only [inplaceAll, List.map_cons, List.zip_cons_cons, List.mem_cons] at h ⊢
    have hlt' : ∀ w ∈ ws, w.1.id < (inplaceWrite s o t).1.next := by
      intro w hw; have := hlt w (List.mem_cons_of_mem _ hw); simp only [inplaceWrite]; omega
    rcases h with rfl | h
    · -- the first clone: id = s.next, never written afterwards
      have hfresh : ∀ (ws : List (Tn × Tn)) (s' : VS) (x : Nat), x < s'.next → (∀ w ∈ ws, w.1.id ≠ x) →
          (inplaceAll s' ws).1.vals x = s'.vals x := by
        intro ws
        induction ws with
        | nil => intro s' x _ _; rfl
        | cons w ws ih =>
          intro s' x hx hne
          obtain ⟨o', t'⟩ := w
          simp only [inplaceAll]
          rw [ih _ x (by simp only [inplaceWrite]; omega) (fun w hw => hne w (List.mem_cons_of_mem _ hw))]
          have h1 : x ≠ o'.id := fun e => hne (o', t') (by simp) e.symm
          have h2 : x ≠ s'.next := by omega
          simp [inplaceWrite, h1, h2]
      have hid : (inplaceWrite s o t).2.id = s.next := rfl
      show (inplaceAll (inplaceWrite s o t).1 ws).1.vals (inplaceWrite s o t).2.id = s.vals o.id
      rw [hid, hfresh ws _ s.next (by simp [inplaceWrite]) (fun w hw => by have := hlt w (List.mem_cons_of_mem _ hw); omega)]
      have ho : o.id < s.next := hlt (o, t) (by simp)
      have hne : s.next ≠ o.id := by omega
      simp [inplaceWrite, hne]
    · have ih := inplaceAll_clone_vals ws (inplaceWrite s o t).1 hnd.2 hlt' p h
      rw [ih]
      have hp : p.1 ∈ ws.map (·.1) := (List.of_mem_zip h).1
      obtain ⟨w, hw, hwe⟩ := List.mem_map.1 hp
      have h1 : p.1.id ≠ o.id := by
        intro e; apply hnd.1; rw [← e, ← hwe]; exact List.mem_map.2 ⟨w, hw, rfl⟩
      have h2 : p.1.id ≠ s.next := by
        have := hlt w (List.mem_cons_of_mem _ hw); rw [hwe] at this; omega
      simp [inplaceWrite, h1, h2]

end TdVerif.C13.Inplace
