/-
  C08 — shape operations of the lazy stack refine the dense ones (TensorDict level).
-/
import TdVerif.Lemmas.C08Shape
import TdVerif.Lemmas.C08Basic
namespace TdVerif.C08

/-- generic lifting: an operation applied member-wise (same leaf map `φ`, batch map `gb`) and
re-stacked at `sd'` refines the dense operation `Φ` as soon as it does so leaf by leaf -/
theorem absL_map [Inhabited α] (L : Lazy α) (b : Shape) (keys : List String) (feat : String → Shape)
    (hU : Uniform L b keys feat) (hne0 : L.members ≠ []) (gb : Shape → Shape) (φ Φ : T α → T α)
    (sd' : Nat) (B : Shape)
    (hbatch : (gb b).insertIdx sd' L.members.length = B)
    (hleaf : ∀ k ∈ keys, T.stack ((L.members.map fun m => m.leaf k).map φ) sd'
      ≈ₜ Φ (T.stack (L.members.map fun m => m.leaf k) L.sd)) :
    absL (⟨L.members.map fun m => m.mapLeaves (gb m.batch) φ, sd'⟩ : Lazy α) ≈ (absL L).mapLeaves B Φ := by
  obtain ⟨hb, hk⟩ := head_batch_of_uniform L b keys feat hU hne0
  cases hm : L.members with
  | nil => exact absurd hm hne0
  | cons m0 rest =>
    have hm0b : m0.batch = b := hU.hbatch m0 (by simp [hm])
    have hm0k : m0.keys = keys := hU.hkeys m0 (by simp [hm])
    refine ⟨?_, ?_, ?_⟩
    · show ((((m0 :: rest).map fun m => m.mapLeaves (gb m.batch) φ).head?.map TD.batch).getD []).insertIdx sd'
        ((m0 :: rest).map fun m => m.mapLeaves (gb m.batch) φ).length = B
      simp only [List.map_cons, List.head?_cons, Option.map_some, Option.getD_some, TD.mapLeaves,
        List.length_cons, List.length_map, hm0b]
      rw [← hbatch, hm]; simp
    · show ((((m0 :: rest).map fun m => m.mapLeaves (gb m.batch) φ).head?.map TD.keys).getD []) = (absL L).keys
      simp only [List.map_cons, List.head?_cons, Option.map_some, Option.getD_some, TD.mapLeaves]
      show m0.keys = (L.members.head?.map TD.keys).getD []
      rw [hm]; simp
    · intro k hkk
      have hkeys : k ∈ keys := by
        have : (absL (⟨(m0 :: rest).map fun m => m.mapLeaves (gb m.batch) φ, sd'⟩ : Lazy α)).keys = keys := by
          show ((((m0 :: rest).map fun m => m.mapLeaves (gb m.batch) φ).head?.map TD.keys).getD []) = keys
          simp only [List.map_cons, List.head?_cons, Option.map_some, Option.getD_some, TD.mapLeaves]
          exact hm0k
        rwa [this] at hkk
      have := hleaf k hkeys
      rw [hm] at this
      show T.stack (((m0 :: rest).map fun m => m.mapLeaves (gb m.batch) φ).map fun m => m.leaf k) sd'
        ≈ₜ Φ (T.stack (L.members.map fun m => m.leaf k) L.sd)
      rw [hm]
      rw [List.map_map] at this ⊢
      exact this

theorem lazyStack_some' (items : List (TD α)) (p : Nat) (L' : Lazy α)
    (h : lazyStack items ((p : Nat) : Int) = some L') : L' = ⟨items, p⟩ ∧ items ≠ [] := by
  obtain ⟨m, rest, h1, h2, _⟩ := lazyStack_some items p L' h
  exact ⟨h2, by rw [h1]; simp⟩

theorem leaf_shapes (L : Lazy α) (b : Shape) (keys : List String) (feat : String → Shape)
    (hU : Uniform L b keys feat) (k : String) (hk : k ∈ keys) :
    ∀ t ∈ L.members.map (fun m => m.leaf k), t.shape = b ++ feat k := by
  intro t ht
  simp only [List.mem_map] at ht
  obtain ⟨m, hm, rfl⟩ := ht
  exact hU.hleaf m hm k hk

theorem absL_batch_eq [Inhabited α] (L : Lazy α) (b : Shape) (keys : List String) (feat : String → Shape)
    (hU : Uniform L b keys feat) (hne0 : L.members ≠ []) :
    (absL L).batch = b.insertIdx L.sd L.members.length := by
  obtain ⟨hb, _⟩ := head_batch_of_uniform L b keys feat hU hne0
  show ((L.members.head?.map TD.batch).getD []).insertIdx L.sd L.members.length = _
  rw [hb]

/-- `lazy.unsqueeze(dim)` materialises to `dense.unsqueeze(dim)` (or raises) -/
theorem unsqueeze_refines [Inhabited α] (L : Lazy α) (b : Shape) (keys : List String)
    (feat : String → Shape) (hU : Uniform L b keys feat) (hne0 : L.members ≠ []) (dim : Int)
    (L' : Lazy α) (h : lazyUnsqueeze L dim = some L') :
    ∃ d : Nat, (d : Int) = (if dim < 0 then (L.batch.length : Int) + dim + 1 else dim) ∧
      d ≤ L.batch.length ∧ absL L' ≈ (absL L).unsqueeze d := by
  have hB := absL_batch_eq L b keys feat hU hne0
  have hr : L.batch.length = b.length + 1 := by
    show (absL L).batch.length = _
    rw [hB, List.length_insertIdx_of_le_length hU.hsd]
  unfold lazyUnsqueeze at h
  dsimp only at h
  generalize hnd : (if dim < 0 then (L.batch.length : Int) + dim + 1 else dim) = nd at h ⊢
  by_cases hrange : nd > (L.batch.length : Int) ∨ nd < 0
  · rw [if_pos hrange] at h; simp at h
  rw [if_neg hrange] at h
  refine ⟨nd.toNat, by omega, by omega, ?_⟩
  split at h
  · rename_i hgt
    obtain ⟨rfl, _⟩ := lazyStack_some' _ _ _ h
    obtain ⟨e, he⟩ : ∃ e, nd.toNat = e + 1 := ⟨nd.toNat - 1, by omega⟩
    apply absL_map L b keys feat hU hne0 (fun s => s.insertIdx (nd.toNat - 1) 1) (fun t => t.unsqueeze (nd.toNat - 1))
      (fun t => t.unsqueeze nd.toNat) L.sd
    · rw [hB, he]; simp only [Nat.add_sub_cancel]
      exact (List.insertIdx_comm _ _ (by omega) (by omega)).symm
    · intro k hk
      have hhead := head_shape_of_all _ _ (leaf_shapes L b keys feat hU k hk) (by simpa using hne0)
      exact unsqueeze_stack_gt (L.members.map fun m => m.leaf k) L.sd nd.toNat (by simpa using hne0) hgt
        (by rw [hhead]; simp; omega)
  · rename_i hle
    obtain ⟨rfl, _⟩ := lazyStack_some' _ _ _ h
    have hle' : nd.toNat ≤ L.sd := by omega
    apply absL_map L b keys feat hU hne0 (fun s => s.insertIdx nd.toNat 1) (fun t => t.unsqueeze nd.toNat)
      (fun t => t.unsqueeze nd.toNat) (L.sd + 1)
    · rw [hB]; exact List.insertIdx_comm _ _ hle' hU.hsd
    · intro k hk
      have hhead := head_shape_of_all _ _ (leaf_shapes L b keys feat hU k hk) (by simpa using hne0)
      exact unsqueeze_stack_le (L.members.map fun m => m.leaf k) L.sd nd.toNat (by simpa using hne0) hle'
        (by rw [hhead]; simp; have := hU.hsd; omega)


/-- SPEC: `td.squeeze(d)`: a non-singleton dim is left alone -/
def TD.squeezeDim (m : TD α) (d : Nat) : TD α := if m.batch[d]? = some 1 then m.squeezeAt d else m

theorem TD.Eqv.refl (a : TD α) : a ≈ a := ⟨rfl, rfl, fun _ _ => ⟨rfl, fun _ _ => rfl⟩⟩

theorem getElem?_insertIdx_lt' {β} (l : List β) (x : β) (i j : Nat) (h : j < i) (hi : i ≤ l.length) :
    (l.insertIdx i x)[j]? = l[j]? := List.getElem?_insertIdx_of_lt h

/-- `lazy.squeeze(dim)` materialises to `dense.squeeze(dim)` (or raises): a non-singleton dim
returns the stack itself, the singleton stack dim returns the only member, any other singleton
dim is squeezed in the members with the stack dim shifted when it lies before it -/
theorem squeeze_refines [Inhabited α] (L : Lazy α) (b : Shape) (keys : List String)
    (feat : String → Shape) (hU : Uniform L b keys feat) (hne0 : L.members ≠ []) (dim : Int)
    (r : LRes α) (h : lazySqueeze L dim = some r) :
    ∃ d : Nat, (d : Int) = (if dim < 0 then (L.batch.length : Int) + dim else dim) ∧
      d < L.batch.length ∧ absR r ≈ (absL L).squeezeDim d := by
  have hB := absL_batch_eq L b keys feat hU hne0
  have hLB : L.batch = b.insertIdx L.sd L.members.length := hB
  have hr : L.batch.length = b.length + 1 := by
    rw [hLB, List.length_insertIdx_of_le_length hU.hsd]
  unfold lazySqueeze at h
  dsimp only at h
  generalize hnd : (if dim < 0 then (L.batch.length : Int) + dim else dim) = nd at h ⊢
  by_cases hrange : nd > (L.batch.length : Int) - 1 ∨ nd < 0
  · rw [if_pos hrange] at h; simp at h
  rw [if_neg hrange] at h
  refine ⟨nd.toNat, by omega, by omega, ?_⟩
  unfold TD.squeezeDim
  rw [show (absL L).batch = L.batch from rfl]
  by_cases hone : L.batch[nd.toNat]? = some 1
  · rw [if_neg (by simpa using hone)] at h
    rw [if_pos hone]
    split at h
    · -- the stack dim itself
      rename_i hsd
      cases hm : L.members with
      | nil => exact absurd hm hne0
      | cons m0 rest =>
        simp only [hm, List.getElem?_cons_zero, Option.map_some, Option.some.injEq] at h
        subst h
        have hn1 : L.members.length = 1 := by
          rw [hLB, hsd, List.getElem?_insertIdx_self] at hone
          simpa [hU.hsd] using hone
        have hrest : rest = [] := by
          rw [hm] at hn1; simpa using hn1
        subst hrest
        have hm0 : m0 ∈ L.members := by simp [hm]
        refine ⟨?_, ?_, ?_⟩
        · show m0.batch = (absL L).batch.eraseIdx nd.toNat
          rw [hB, hsd, List.eraseIdx_insertIdx_self, hU.hbatch m0 hm0]
        · show m0.keys = (L.members.head?.map TD.keys).getD []
          rw [hm]; simp
        · intro k hk
          have hkeys : k ∈ keys := by rw [← hU.hkeys m0 hm0]; exact hk
          have := select_stack (L.members.map fun m => m.leaf k) (b ++ feat k) L.sd 0
            (leaf_shapes L b keys feat hU k hkeys) (by simp; have := hU.hsd; omega) (by simp [hm])
          have h2 : (L.members.map fun m => m.leaf k)[0]'(by simp [hm]) = m0.leaf k := by simp [hm]
          rw [h2] at this
          show m0.leaf k ≈ₜ (T.stack (L.members.map fun m => m.leaf k) L.sd).squeezeAt nd.toNat
          rw [squeezeAt_eq_select, hsd]
          exact ⟨this.1.symm, fun c hc => (this.2 c (this.1 ▸ hc)).symm⟩
    · rename_i hnsd
      split at h
      · rename_i hgt
        simp only [Option.map_eq_some_iff] at h
        obtain ⟨L', hL', rfl⟩ := h
        obtain ⟨rfl, _⟩ := lazyStack_some' _ _ _ hL'
        obtain ⟨e, he⟩ : ∃ e, nd.toNat = e + 1 := ⟨nd.toNat - 1, by omega⟩
        apply absL_map L b keys feat hU hne0 (fun s => s.eraseIdx (nd.toNat - 1)) (fun t => t.squeezeAt (nd.toNat - 1))
          (fun t => t.squeezeAt nd.toNat) L.sd
        · rw [hB, he]; simp only [Nat.add_sub_cancel]
          exact List.insertIdx_eraseIdx_of_le (by omega) (by omega)
        · intro k hk
          have hhead := head_shape_of_all _ _ (leaf_shapes L b keys feat hU k hk) (by simpa using hne0)
          exact select_stack_gt (L.members.map fun m => m.leaf k) L.sd nd.toNat 0 (by simpa using hne0) hgt
            (by rw [hhead]; simp; omega)
      · rename_i hngt
        simp only [Option.map_eq_some_iff] at h
        obtain ⟨L', hL', rfl⟩ := h
        have hlt : nd.toNat < L.sd := by omega
        obtain ⟨e, he⟩ : ∃ e, L.sd = e + 1 := ⟨L.sd - 1, by omega⟩
        have hcast : ((L.sd - 1 : Nat) : Int) = ((L.sd - 1 : Nat) : Int) := rfl
        obtain ⟨rfl, _⟩ := lazyStack_some' _ _ _ hL'
        apply absL_map L b keys feat hU hne0 (fun s => s.eraseIdx nd.toNat) (fun t => t.squeezeAt nd.toNat)
          (fun t => t.squeezeAt nd.toNat) (L.sd - 1)
        · rw [hB, he]; simp only [Nat.add_sub_cancel]
          exact List.insertIdx_eraseIdx_of_ge (by have := hU.hsd; omega) (by omega)
        · intro k hk
          have hhead := head_shape_of_all _ _ (leaf_shapes L b keys feat hU k hk) (by simpa using hne0)
          exact select_stack_lt (L.members.map fun m => m.leaf k) L.sd nd.toNat 0 (by simpa using hne0) hlt
            (by rw [hhead]; simp; have := hU.hsd; omega)
  · rw [if_pos (by simpa using hone)] at h
    rw [if_neg hone]
    simp only [Option.some.injEq] at h
    subst h
    exact TD.Eqv.refl _

/-- `_unbind(dim)` for a dim other than the stack dim: piece `i` is a lazy stack (stack dim
shifted when `dim` lies before it) that materialises to piece `i` of the dense unbind -/
theorem unbind_refines [Inhabited α] (L : Lazy α) (b : Shape) (keys : List String)
    (feat : String → Shape) (hU : Uniform L b keys feat) (hne0 : L.members ≠ []) (dim : Nat)
    (hdim : dim < L.batch.length) (hne : dim ≠ L.sd) (i : Nat) (hi : i < L.batch[dim]?.getD 0) :
    ∃ r, (lazyUnbind L dim)[i]? = some r ∧
      absR r ≈ (absL L).mapLeaves ((absL L).batch.eraseIdx dim) (fun t => t.select dim i) := by
  have hB := absL_batch_eq L b keys feat hU hne0
  have hLB : L.batch = b.insertIdx L.sd L.members.length := hB
  have hr : L.batch.length = b.length + 1 := by
    rw [hLB, List.length_insertIdx_of_le_length hU.hsd]
  unfold lazyUnbind
  rw [if_neg hne]
  dsimp only
  refine ⟨_, by rw [List.getElem?_map, List.getElem?_range hi]; rfl, ?_⟩
  show absL (⟨L.members.map fun m => m.mapLeaves (m.batch.eraseIdx (if dim < L.sd then dim else dim - 1))
      (fun t => t.select (if dim < L.sd then dim else dim - 1) i), if dim > L.sd then L.sd else L.sd - 1⟩ : Lazy α) ≈ _
  by_cases hlt : dim < L.sd
  · have hngt : ¬ dim > L.sd := by omega
    simp only [hlt, hngt, if_true, if_false]
    obtain ⟨e, he⟩ : ∃ e, L.sd = e + 1 := ⟨L.sd - 1, by omega⟩
    apply absL_map L b keys feat hU hne0 (fun s => s.eraseIdx dim) (fun t => t.select dim i)
      (fun t => t.select dim i) (L.sd - 1)
    · rw [hB, he]; simp only [Nat.add_sub_cancel]
      exact List.insertIdx_eraseIdx_of_ge (by have := hU.hsd; omega) (by omega)
    · intro k hk
      have hhead := head_shape_of_all _ _ (leaf_shapes L b keys feat hU k hk) (by simpa using hne0)
      exact select_stack_lt (L.members.map fun m => m.leaf k) L.sd dim i (by simpa using hne0) hlt
        (by rw [hhead]; simp; have := hU.hsd; omega)
  · have hgt : dim > L.sd := by omega
    simp only [hlt, hgt, if_true, if_false]
    obtain ⟨e, he⟩ : ∃ e, dim = e + 1 := ⟨dim - 1, by omega⟩
    apply absL_map L b keys feat hU hne0 (fun s => s.eraseIdx (dim - 1)) (fun t => t.select (dim - 1) i)
      (fun t => t.select dim i) L.sd
    · rw [hB, he]; simp only [Nat.add_sub_cancel]
      exact List.insertIdx_eraseIdx_of_le (by omega) (by omega)
    · intro k hk
      have hhead := head_shape_of_all _ _ (leaf_shapes L b keys feat hU k hk) (by simpa using hne0)
      exact select_stack_gt (L.members.map fun m => m.leaf k) L.sd dim i (by simpa using hne0) hgt
        (by rw [hhead]; simp; omega)


theorem getElem?_swapAt (l : List Nat) (a b i : Nat) (ha : a < l.length) (hb : b < l.length) :
    (swapAt l a b)[i]? = if i = b then l[a]? else if i = a then l[b]? else l[i]? := by
  unfold swapAt
  simp only [List.getElem?_set, List.length_set]
  by_cases h1 : i = b
  · subst h1; simp [hb, List.getElem?_eq_getElem ha]
  · by_cases h2 : i = a
    · subst h2
      have : ¬ b = i := fun h => h1 h.symm
      simp [this, h1, ha, List.getElem?_eq_getElem hb]
    · have h1' : ¬ b = i := fun h => h1 h.symm
      have h2' : ¬ a = i := fun h => h2 h.symm
      simp [h1, h2, h1', h2']

theorem length_swapAt (l : List Nat) (a b : Nat) : (swapAt l a b).length = l.length := by
  simp [swapAt]

/-- neither dim is the stack dim: transpose the members on the shifted pair -/
theorem swap_erase_other (c : List Nat) (a b sd : Nat) (ha : a < c.length) (hb : b < c.length)
    (hsd : sd < c.length) (hna : a ≠ sd) (hnb : b ≠ sd) :
    (swapAt c a b).eraseIdx sd = swapAt (c.eraseIdx sd) (if a < sd then a else a - 1) (if b < sd then b else b - 1)
    ∧ at0 (swapAt c a b) sd = at0 c sd := by
  constructor
  · apply List.ext_getElem?
    intro i
    have hl : (c.eraseIdx sd).length = c.length - 1 := List.length_eraseIdx_of_lt hsd
    have ha' : (if a < sd then a else a - 1) < (c.eraseIdx sd).length := by split <;> omega
    have hb' : (if b < sd then b else b - 1) < (c.eraseIdx sd).length := by split <;> omega
    rw [getElem?_swapAt _ _ _ i ha' hb']
    simp only [List.getElem?_eraseIdx, getElem?_swapAt c a b _ ha hb]
    by_cases h1 : a < sd <;> by_cases h2 : b < sd <;> by_cases h3 : i < sd <;>
      simp only [h1, h2, h3, if_true, if_false] <;> grind
  · simp only [at0, getElem?_swapAt c a b sd ha hb, if_neg (Ne.symm hnb), if_neg (Ne.symm hna)]

theorem swap_shape_other (sh : List Nat) (n a b sd : Nat) (hsd : sd ≤ sh.length)
    (ha : a < sh.length + 1) (hb : b < sh.length + 1) (hna : a ≠ sd) (hnb : b ≠ sd) :
    swapAt (sh.insertIdx sd n) a b
      = (swapAt sh (if a < sd then a else a - 1) (if b < sd then b else b - 1)).insertIdx sd n := by
  apply List.ext_getElem?
  intro i
  have hl : (sh.insertIdx sd n).length = sh.length + 1 := List.length_insertIdx_of_le_length hsd _
  have ha' : (if a < sd then a else a - 1) < sh.length := by split <;> omega
  have hb' : (if b < sd then b else b - 1) < sh.length := by split <;> omega
  rw [getElem?_swapAt _ _ _ i (by omega) (by omega)]
  simp only [List.getElem?_insertIdx, getElem?_swapAt sh _ _ _ ha' hb', length_swapAt]
  by_cases h1 : a < sd <;> by_cases h2 : b < sd <;>
    simp only [h1, h2, if_true, if_false] <;> grind

/-- stack dim swapped with its right neighbour: the members are untouched, the stack dim moves -/
theorem swap_adjacent (c : List Nat) (sd : Nat) (h : sd + 1 < c.length) :
    (swapAt c sd (sd + 1)).eraseIdx sd = c.eraseIdx (sd + 1) ∧ at0 (swapAt c sd (sd + 1)) sd = at0 c (sd + 1) := by
  constructor
  · apply List.ext_getElem?
    intro i
    simp only [List.getElem?_eraseIdx, getElem?_swapAt c sd (sd + 1) _ (by omega) h]
    grind
  · simp only [at0, getElem?_swapAt c sd (sd + 1) sd (by omega) h]
    grind

theorem swap_shape_adjacent (sh : List Nat) (n sd : Nat) (hsd : sd < sh.length) :
    swapAt (sh.insertIdx sd n) sd (sd + 1) = sh.insertIdx (sd + 1) n := by
  apply List.ext_getElem?
  intro i
  have hl : (sh.insertIdx sd n).length = sh.length + 1 := List.length_insertIdx_of_le_length (by omega) _
  rw [getElem?_swapAt _ _ _ i (by omega) (by omega)]
  simp only [List.getElem?_insertIdx]
  grind

/-- the mirrored case: stack dim swapped with its left neighbour -/
theorem swap_adjacent' (c : List Nat) (a : Nat) (h : a + 1 < c.length) :
    (swapAt c a (a + 1)).eraseIdx (a + 1) = c.eraseIdx a ∧ at0 (swapAt c a (a + 1)) (a + 1) = at0 c a := by
  constructor
  · apply List.ext_getElem?
    intro i
    simp only [List.getElem?_eraseIdx, getElem?_swapAt c a (a + 1) _ (by omega) h]
    grind
  · simp only [at0, getElem?_swapAt c a (a + 1) (a + 1) (by omega) h]
    grind

theorem swap_shape_adjacent' (sh : List Nat) (n a : Nat) (hsd : a < sh.length) :
    swapAt (sh.insertIdx (a + 1) n) a (a + 1) = sh.insertIdx a n := by
  apply List.ext_getElem?
  intro i
  have hl : (sh.insertIdx (a + 1) n).length = sh.length + 1 := List.length_insertIdx_of_le_length (by omega) _
  rw [getElem?_swapAt _ _ _ i (by omega) (by omega)]
  simp only [List.getElem?_insertIdx]
  grind

/-- stack dim swapped with the dim two places to the right: the members swap their dims
`sd, sd+1`, the stack dim lands at `sd+2` -/
theorem swap_two (c : List Nat) (sd : Nat) (h : sd + 2 < c.length) :
    (swapAt c sd (sd + 2)).eraseIdx sd = swapAt (c.eraseIdx (sd + 2)) sd (sd + 1)
    ∧ at0 (swapAt c sd (sd + 2)) sd = at0 c (sd + 2) := by
  constructor
  · apply List.ext_getElem?
    intro i
    have hl : (c.eraseIdx (sd + 2)).length = c.length - 1 := List.length_eraseIdx_of_lt h
    rw [getElem?_swapAt _ _ _ i (by omega) (by omega)]
    simp only [List.getElem?_eraseIdx, getElem?_swapAt c sd (sd + 2) _ (by omega) h]
    grind
  · simp only [at0, getElem?_swapAt c sd (sd + 2) sd (by omega) h]
    grind

theorem swap_shape_two (sh : List Nat) (n sd : Nat) (hsd : sd + 1 < sh.length) :
    swapAt (sh.insertIdx sd n) sd (sd + 2) = (swapAt sh sd (sd + 1)).insertIdx (sd + 2) n := by
  apply List.ext_getElem?
  intro i
  have hl : (sh.insertIdx sd n).length = sh.length + 1 := List.length_insertIdx_of_le_length (by omega) _
  rw [getElem?_swapAt _ _ _ i (by omega) (by omega)]
  simp only [List.getElem?_insertIdx, getElem?_swapAt sh sd (sd + 1) _ (by omega) hsd, length_swapAt]
  grind

/-- generic commutation: a member-wise re-indexing `φ` (reads `ψ c`) re-stacked at `sd'` is the
dense re-indexing `Φ` (reads `ρ c`) of the stack at `sd`, provided the shapes and the coordinate
maps commute with inserting / erasing the stack dim -/
theorem stack_reindex [Inhabited α] (ms : List (T α)) (sh : Shape) (sd sd' : Nat)
    (hsh : ∀ m ∈ ms, m.shape = sh) (hne : ms ≠ [])
    (φ Φ : T α → T α) (ψ ρ : List Nat → List Nat) (r R : Shape → Shape)
    (hφg : ∀ t c, (φ t).get c = t.get (ψ c)) (hφs : ∀ t, (φ t).shape = r t.shape)
    (hΦg : ∀ t c, (Φ t).get c = t.get (ρ c)) (hΦs : ∀ t, (Φ t).shape = R t.shape)
    (hshape : R (sh.insertIdx sd ms.length) = (r sh).insertIdx sd' ms.length)
    (hsd' : sd' ≤ (r sh).length)
    (hcoord : ∀ c, InB c ((r sh).insertIdx sd' ms.length) →
      (ρ c).eraseIdx sd = ψ (c.eraseIdx sd') ∧ at0 (ρ c) sd = at0 c sd') :
    T.stack (ms.map φ) sd' ≈ₜ Φ (T.stack ms sd) := by
  have hhead := head_shape_of_all ms sh hsh hne
  have hs1 : (T.stack (ms.map φ) sd').shape = (r sh).insertIdx sd' ms.length := by
    rw [T.stack_shape, map_head_shape ms φ r hφs hne, hhead]; simp
  refine ⟨by rw [hs1, hΦs, T.stack_shape, hhead, hshape], ?_⟩
  intro c hc
  rw [hs1] at hc
  obtain ⟨h1, h2⟩ := hcoord c hc
  have hlt : at0 c sd' < ms.length := InB.at0_lt_of_insert c (r sh) sd' ms.length hsd' hc
  rw [hΦg, T.stack_get, T.stack_get, h1, h2]
  simp [List.getElem?_eq_getElem hlt, hφg]

theorem T.transpose_get (t : T α) (a b : Nat) (c : List Nat) : (t.transpose a b).get c = t.get (swapAt c a b) := rfl
theorem T.transpose_shape (t : T α) (a b : Nat) : (t.transpose a b).shape = swapAt t.shape a b := rfl

theorem swapAt_self (l : List Nat) (a : Nat) : swapAt l a a = l := by
  apply List.ext_getElem?
  intro i
  by_cases ha : a < l.length
  · rw [getElem?_swapAt l a a i ha ha]; grind
  · simp [swapAt, List.set_eq_of_length_le (show l.length ≤ a by omega)]

theorem members_eq_map_id (ms : List (TD α)) : ms = ms.map fun m => m.mapLeaves (id m.batch) id := by
  have : (fun m : TD α => m.mapLeaves (id m.batch) id) = id := by funext m; rfl
  rw [this, List.map_id]

/-- `lazy.transpose(dim0, dim1)` materialises to `dense.transpose(dim0, dim1)` (or raises), when
the dims are equal, neither is the stack dim, or the stack dim is swapped with a neighbour.
(When the stack dim is swapped with a farther dim the members are permuted by a roll; that
branch is tied by the correspondence check and the exhaustive thorough tier, not by a theorem.) -/
theorem transpose_refines [Inhabited α] (L : Lazy α) (b : Shape) (keys : List String)
    (feat : String → Shape) (hU : Uniform L b keys feat) (hne0 : L.members ≠ []) (dim0 dim1 : Int)
    (L' : Lazy α) (h : lazyTranspose L dim0 dim1 = some L') :
    ∃ x y : Nat, (x : Int) = (if dim0 < 0 then (L.batch.length : Int) + dim0 else dim0) ∧
      (y : Int) = (if dim1 < 0 then (L.batch.length : Int) + dim1 else dim1) ∧
      x < L.batch.length ∧ y < L.batch.length ∧
      ((min x y = L.sd → max x y = L.sd + 1) → (max x y = L.sd → min x y + 1 = L.sd) →
        absL L' ≈ (absL L).transpose (min x y) (max x y)) := by
  have hB := absL_batch_eq L b keys feat hU hne0
  have hLB : L.batch = b.insertIdx L.sd L.members.length := hB
  have hr : L.batch.length = b.length + 1 := by
    rw [hLB, List.length_insertIdx_of_le_length hU.hsd]
  unfold lazyTranspose at h
  dsimp only at h
  generalize ha0 : (if dim0 < 0 then (L.batch.length : Int) + dim0 else dim0) = a0 at h ⊢
  generalize hb0 : (if dim1 < 0 then (L.batch.length : Int) + dim1 else dim1) = b0 at h ⊢
  by_cases hrange : a0 < 0 ∨ b0 < 0 ∨ a0 ≥ (L.batch.length : Int) ∨ b0 ≥ (L.batch.length : Int)
  · rw [if_pos hrange] at h; simp at h
  rw [if_neg hrange] at h
  refine ⟨a0.toNat, b0.toNat, by omega, by omega, by omega, by omega, ?_⟩
  intro hfar1 hfar2
  have hmin : (min a0 b0).toNat = min a0.toNat b0.toNat := by omega
  have hmax : (max a0 b0).toNat = max a0.toNat b0.toNat := by omega
  rw [hmin, hmax] at h
  generalize hA : min a0.toNat b0.toNat = A at h hfar1 hfar2 ⊢
  generalize hBB : max a0.toNat b0.toNat = B at h hfar1 hfar2 ⊢
  have hAB : A ≤ B := by omega
  have hBr : B < b.length + 1 := by omega
  have leafEq : ∀ k ∈ keys, ∀ m ∈ L.members.map (fun m => m.leaf k), m.shape = b ++ feat k :=
    fun k hk => leaf_shapes L b keys feat hU k hk
  by_cases heq : A = B
  · rw [if_pos heq] at h
    simp only [Option.some.injEq] at h
    subst h
    subst heq
    refine ⟨by show (absL L).batch = swapAt (absL L).batch A A; rw [swapAt_self], rfl, ?_⟩
    intro k _
    refine ⟨by show _ = swapAt _ A A; rw [swapAt_self], ?_⟩
    intro c _
    show _ = ((absL L).leaf k).get (swapAt c A A)
    rw [swapAt_self]
  rw [if_neg heq] at h
  have hlt : A < B := by omega
  by_cases h1 : A = L.sd
  · rw [if_pos h1] at h
    by_cases h2 : B = A + 1
    · rw [if_pos h2] at h
      obtain ⟨rfl, _⟩ := lazyStack_some' _ _ _ h
      rw [members_eq_map_id L.members]
      apply absL_map L b keys feat hU hne0 id id (fun t => t.transpose A B) B
      · rw [hB, ← h1, h2]; exact (swap_shape_adjacent b _ A (by omega)).symm
      · intro k hk
        apply stack_reindex (L.members.map fun m => m.leaf k) (b ++ feat k) L.sd B (leafEq k hk)
          (by simpa using hne0) id (fun t => t.transpose A B) id (fun c => swapAt c A B) id (fun s => swapAt s A B)
          (fun _ _ => rfl) (fun _ => rfl) (fun _ _ => rfl) (fun _ => rfl)
        · simp only [List.length_map, id]
          rw [← h1, h2, swap_shape_adjacent _ _ A (by simp; omega)]
        · simp; omega
        · intro c hc
          have hcl := InB.length hc
          simp only [List.length_map, id] at hcl
          rw [List.length_insertIdx_of_le_length (by simp; omega)] at hcl
          rw [← h1, h2]
          exact swap_adjacent c A (by rw [hcl]; simp; omega)
    · exact absurd (hfar1 h1) (by omega)
  · rw [if_neg h1] at h
    by_cases h2 : B = L.sd
    · rw [if_pos h2] at h
      have h3 : A + 1 = B := by have := hfar2 h2; omega
      rw [if_pos h3] at h
      obtain ⟨rfl, _⟩ := lazyStack_some' _ _ _ h
      rw [members_eq_map_id L.members]
      apply absL_map L b keys feat hU hne0 id id (fun t => t.transpose A B) A
      · rw [hB, ← h2, ← h3]; exact (swap_shape_adjacent' b _ A (by omega)).symm
      · intro k hk
        apply stack_reindex (L.members.map fun m => m.leaf k) (b ++ feat k) L.sd A (leafEq k hk)
          (by simpa using hne0) id (fun t => t.transpose A B) id (fun c => swapAt c A B) id (fun s => swapAt s A B)
          (fun _ _ => rfl) (fun _ => rfl) (fun _ _ => rfl) (fun _ => rfl)
        · simp only [List.length_map, id]
          rw [← h2, ← h3, swap_shape_adjacent' _ _ A (by simp; omega)]
        · simp; omega
        · intro c hc
          have hcl := InB.length hc
          simp only [List.length_map, id] at hcl
          rw [List.length_insertIdx_of_le_length (by simp; omega)] at hcl
          rw [← h2, ← h3]
          exact swap_adjacent' c A (by rw [hcl]; simp; omega)
    · rw [if_neg h2] at h
      obtain ⟨rfl, _⟩ := lazyStack_some' _ _ _ h
      apply absL_map L b keys feat hU hne0
        (fun s => swapAt s (if A < L.sd then A else A - 1) (if B < L.sd then B else B - 1))
        (fun t => t.transpose (if A < L.sd then A else A - 1) (if B < L.sd then B else B - 1))
        (fun t => t.transpose A B) L.sd
      · rw [hB]; exact (swap_shape_other b _ A B L.sd hU.hsd (by omega) (by omega) h1 h2).symm
      · intro k hk
        apply stack_reindex (L.members.map fun m => m.leaf k) (b ++ feat k) L.sd L.sd (leafEq k hk)
          (by simpa using hne0) _ (fun t => t.transpose A B)
          (fun c => swapAt c (if A < L.sd then A else A - 1) (if B < L.sd then B else B - 1)) (fun c => swapAt c A B)
          (fun s => swapAt s (if A < L.sd then A else A - 1) (if B < L.sd then B else B - 1)) (fun s => swapAt s A B)
          (fun _ _ => rfl) (fun _ => rfl) (fun _ _ => rfl) (fun _ => rfl)
        · simp only [List.length_map]
          exact swap_shape_other _ _ A B L.sd (by simp; have := hU.hsd; omega) (by simp; omega) (by simp; omega) h1 h2
        · simp [length_swapAt]; have := hU.hsd; omega
        · intro c hc
          have hcl := InB.length hc
          simp only [List.length_map] at hcl
          rw [List.length_insertIdx_of_le_length (by simp [length_swapAt]; have := hU.hsd; omega), length_swapAt] at hcl
          exact swap_erase_other c A B L.sd (by rw [hcl]; simp; omega) (by rw [hcl]; simp; omega)
            (by rw [hcl]; simp; have := hU.hsd; omega) h1 h2

end TdVerif.C08
