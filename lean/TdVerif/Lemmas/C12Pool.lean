/-
  Helper lemmas for C12 thread pools: results are found by future identity whatever the completion
  order; rebuild after a complete run is the sequential apply; writers of distinct slots commute.
-/
import TdVerif.Model.C12Pool

namespace TdVerif.C12


theorem result_of_mem (fn : α → β) (args : List α) (i : Nat) (hi : i < args.length) :
    ∀ order : List Nat, i ∈ order → (runTasks fn args order).result i = some (fn args[i]) := by
  intro order
  induction order with
  | nil => intro h; simp at h
  | cons j rest ih =>
    intro hmem
    unfold runTasks
    rw [List.filterMap_cons]
    by_cases hji : j = i
    · subst hji
      simp [List.getElem?_eq_getElem hi, Store.result]
    · have hmem' : i ∈ rest := by
        rcases List.mem_cons.1 hmem with h | h
        · exact absurd h.symm hji
        · exact h
      cases hj : args[j]? with
      | none => simpa [runTasks] using ih hmem'
      | some a =>
        have := ih hmem'
        simp only [Option.map_some]
        unfold Store.result at this ⊢
        rw [List.find?_cons]
        have hne : ((j, fn a).1 == i) = false := by simpa using hji
        simp only [hne]
        exact this

mutual
theorem rebuildKids_ok (fe : Option Bool) (fn : α → Option β) (store : Store (Option β)) :
    ∀ (kids : List (String × Tree α)) (next : Nat),
    (∀ j (h : j < (submitKids kids next).2.length),
        store.result (next + j) = some (fn (submitKids kids next).2[j])) →
    rebuildKids fe store kids (submitKids kids next).1 = some (applyKids fe fn kids)
  | [], next, _ => by simp [submitKids, rebuildKids, applyKids]
  | (k, t) :: rest, next, h => by
    have h1 := rebuildTree_ok fe fn store t next (by
      intro j hj
      have := h j (by simp [submitKids]; omega)
      simpa [submitKids, List.getElem_append_left hj] using this)
    have h2 := rebuildKids_ok fe fn store rest (next + (submitTree t next).2.length) (by
      intro j hj
      have := h ((submitTree t next).2.length + j) (by simp [submitKids]; omega)
      simpa [submitKids, Nat.add_assoc, List.getElem_append_right] using this)
    simp only [submitKids, rebuildKids, applyKids, h1, h2]
    cases applyTree fe fn t <;> rfl
theorem rebuildTree_ok (fe : Option Bool) (fn : α → Option β) (store : Store (Option β)) :
    ∀ (t : Tree α) (next : Nat),
    (∀ j (h : j < (submitTree t next).2.length),
        store.result (next + j) = some (fn (submitTree t next).2[j])) →
    rebuildTree fe store t (submitTree t next).1 = some (applyTree fe fn t)
  | .leaf v, next, h => by
    have := h 0 (by simp [submitTree])
    simp only [submitTree, List.getElem_cons_zero, Nat.add_zero] at this
    simp [submitTree, rebuildTree, applyTree, this]
  | .node kids, next, h => by
    have h1 := rebuildKids_ok fe fn store kids next (by
      intro j hj
      simpa [submitTree] using h j (by simpa [submitTree] using hj))
    simp only [submitTree, rebuildTree, applyTree, h1]
    split <;> rfl
end



theorem write_comm [DecidableEq κ] (st : Slots κ ν) (a b : κ × ν) (h : a = b ∨ a.1 ≠ b.1) :
    (st.write a.1 a.2).write b.1 b.2 = (st.write b.1 b.2).write a.1 a.2 := by
  rcases h with h | h
  · subst h; rfl
  · funext k
    simp only [Slots.write]
    by_cases h1 : k = b.1
    · by_cases h2 : k = a.1
      · exact absurd (h2.symm.trans h1) h
      · subst h1; simp [h2]
    · by_cases h2 : k = a.1
      · subst h2; simp [h1]
      · simp [h1, h2]

theorem distinct_of_pairwise (ws : List (κ × ν)) (hd : ws.Pairwise fun a b => a.1 ≠ b.1) :
    ∀ x ∈ ws, ∀ y ∈ ws, x = y ∨ x.1 ≠ y.1 := by
  induction ws with
  | nil => intro x hx; simp at hx
  | cons w ws ih =>
    rw [List.pairwise_cons] at hd
    intro x hx y hy
    rcases List.mem_cons.1 hx with hx | hx <;> rcases List.mem_cons.1 hy with hy | hy
    · left; rw [hx, hy]
    · right; rw [hx]; exact hd.1 y hy
    · right; rw [hy]; exact fun h => hd.1 x hx h.symm
    · exact ih hd.2 x hx y hy

theorem runWrites_perm [DecidableEq κ] (st : Slots κ ν) (ws ws' : List (κ × ν))
    (hd : ws.Pairwise fun a b => a.1 ≠ b.1) (hp : ws.Perm ws') :
    runWrites st ws = runWrites st ws' := by
  unfold runWrites
  apply hp.foldl_eq'
  intro x hx y hy z
  exact write_comm z x y (distinct_of_pairwise ws hd x hx y hy)

/-- reading a slot after all writers ran: the value of its (unique) writer, or the old content -/
theorem runWrites_lookup [DecidableEq κ] : ∀ (ws : List (κ × ν)) (st : Slots κ ν)
    (_ : ws.Pairwise fun a b => a.1 ≠ b.1) (k : κ),
    runWrites st ws k = match ws.find? (fun w => w.1 = k) with
      | some w => some w.2
      | none => st k := by
  intro ws
  induction ws with
  | nil => intro st _ k; simp [runWrites]
  | cons w ws ih =>
    intro st hd k
    rw [List.pairwise_cons] at hd
    have : runWrites st (w :: ws) = runWrites (st.write w.1 w.2) ws := rfl
    rw [this, ih _ hd.2 k, List.find?_cons]
    by_cases hk : w.1 = k
    · have hnone : ws.find? (fun w => decide (w.1 = k)) = none := by
        rw [List.find?_eq_none]
        intro x hx
        have := hd.1 x hx
        simp only [decide_eq_true_eq]
        intro h; exact this (hk.trans h.symm)
      simp [hk, hnone, Slots.write]
    · simp only [hk, decide_false]
      cases ws.find? (fun w => decide (w.1 = k)) with
      | some _ => rfl
      | none => simp [Slots.write, Ne.symm hk]


end TdVerif.C12
