/-
  Helper lemmas for the C19 vmap model (core Lean only).
-/
import TdVerif.Model.C19Vmap

namespace TdVerif.C19

theorem getD_map_range {α} (f : Nat → α) (n k : Nat) (d : α) (h : k < n) :
    ((List.range n).map f).getD k d = f k := by
  simp [List.getD, h]

theorem headD_map_range {α} (f : Nat → α) (n : Nat) (d : α) (h : 0 < n) :
    ((List.range n).map f).headD d = f 0 := by
  cases n with
  | zero => omega
  | succ m => simp [List.range_succ_eq_map]

theorem getD_insertIdx_self {α} (l : List α) (i : Nat) (x d : α) (h : i ≤ l.length) :
    (l.insertIdx i x).getD i d = x := by
  simp [List.getD, List.getElem?_insertIdx_self, h]

/-- an in-bounds coordinate of a shape with `n` inserted at `o` has its `o`-th component below `n` -/
theorem InB.at_inserted {c : List Nat} {s : Shape} {o n : Nat} (h : InB c (s.insertIdx o n)) (ho : o ≤ s.length) :
    c.getD o 0 < n := by
  have hl : o < (s.insertIdx o n).length := by
    rw [List.length_insertIdx_of_le_length ho]; omega
  have := h.2 o hl
  rwa [getD_insertIdx_self s o n 0 ho] at this

theorem BT.samples_length (x : BT) : x.samples.length = x.size := by simp [BT.samples]

theorem BT.samples_getD (x : BT) (k : Nat) (h : k < x.size) : x.samples.getD k default = x.sample k := by
  simp only [BT.samples]; exact getD_map_range _ _ _ _ h

theorem BT.samples_headD (x : BT) (h : 0 < x.size) : x.samples.headD default = x.sample 0 := by
  simp only [BT.samples]; exact headD_map_range _ _ _ h

/-- **unwrapping a batched tensor at `o` is stacking its samples at `o`** -/
theorem removeBDLeaf_eqv_stack (x : BT) (o : Nat) (hsz : 0 < x.size)
    (ho : o ≤ (x.data.shape.eraseIdx x.bdim).length) :
    (removeBDLeaf o x).Eqv (stack x.samples o) := by
  constructor
  · simp only [removeBDLeaf, movedim, stack, BT.samples_headD x hsz, BT.samples_length, BT.sample, select, BT.size]
  · intro c hc
    simp only [removeBDLeaf, movedim] at hc
    have hk : c.getD o 0 < x.size := InB.at_inserted hc ho
    simp only [removeBDLeaf, movedim, stack, BT.samples_getD x _ hk, BT.sample, select]

/-- sample `k` of a result built from per-sample results is the `k`-th result -/
theorem BT.sample_ofSamples (ts : List T) (k : Nat) (hk : k < ts.length)
    (hshape : ∀ t ∈ ts, t.shape = (ts.headD default).shape) :
    ((BT.ofSamples ts).sample k).Eqv (ts.getD k default) := by
  have hmem : ts.getD k default ∈ ts := by
    simp only [List.getD, List.getElem?_eq_getElem hk, Option.getD_some]; exact List.getElem_mem hk
  constructor
  · simp only [BT.ofSamples, BT.sample, select, stack, List.insertIdx_zero, List.eraseIdx_cons_zero]
    exact (hshape _ hmem).symm
  · intro c _
    simp [BT.ofSamples, BT.sample, select, stack, List.getD]

/-! ### helpers of the property theorems -/

theorem runB_sampleTD (op : TOp) (b : BTD) (k : Nat) : (op.runB b).sampleTD k = op.run (b.sampleTD k) := rfl

theorem runProgB_sampleTD : ∀ (p : List TOp) (b : BTD) (k : Nat),
    (runProgB p b).sampleTD k = runProg p (b.sampleTD k)
  | [], _, _ => rfl
  | op :: p, b, k => by
      show (runProgB p (op.runB b)).sampleTD k = runProg p (op.run (b.sampleTD k))
      rw [runProgB_sampleTD p (op.runB b) k, runB_sampleTD]

theorem runProgB_size : ∀ (p : List TOp) (b : BTD), (runProgB p b).size = b.size
  | [], _ => rfl
  | op :: p, b => by show (runProgB p (op.runB b)).size = b.size; rw [runProgB_size p]; rfl

theorem runProg_batch : ∀ (p : List TOp) (td : TD), (runProg p td).batch = bsProg p td.batch
  | [], _ => rfl
  | op :: p, td => by show (runProg p (op.run td)).batch = bsProg p (op.bs td.batch); rw [runProg_batch p]; rfl

theorem nmProg_cons (op : TOp) (p : List TOp) (b : Shape) (n : Names) :
    nmProg (op :: p) b n = nmProg p (op.bs b) (op.nm b n) := rfl

theorem runProg_names : ∀ (p : List TOp) (td : TD), (runProg p td).names = nmProg p td.batch td.names
  | [], _ => rfl
  | op :: p, td => by
      show (runProg p (op.run td)).names = nmProg (op :: p) td.batch td.names
      rw [runProg_names p, nmProg_cons]; rfl

theorem addBD_sampleTD (i level : Nat) (td : TD) (k : Nat) : (addBD i level td).sampleTD k = td.sel i k := rfl

theorem take_insertIdx {α} : ∀ (s : List α) (o m : Nat) (x : α), o ≤ m → m ≤ s.length →
    (s.insertIdx o x).take (m + 1) = (s.take m).insertIdx o x
  | s, 0, m, x, _, _ => by simp [List.insertIdx_zero]
  | [], o + 1, m, x, ho, hm => by simp at hm; omega
  | a :: s, o + 1, m + 1, x, ho, hm => by
      simp only [List.insertIdx_succ_cons, List.take_succ_cons]
      rw [take_insertIdx s o m x (by omega) (by simpa using hm)]

theorem lookup_mem {α β} [BEq α] [LawfulBEq α] : ∀ (m : List (α × β)) (k : α) (v : β), m.lookup k = some v → (k, v) ∈ m
  | [], _, _, h => by simp at h
  | (k', v') :: m, k, v, h => by
      simp only [List.lookup] at h
      split at h
      · rename_i heq
        have := eq_of_beq heq
        cases h; subst this; simp
      · exact List.mem_cons_of_mem _ (lookup_mem m k v h)


end TdVerif.C19
