/-
  C08 — reads with a rank-2 mask on the stack dim, TensorDict level and the loop: `TD.catList`
  leaf / keys / batch, `get_mask2_case`, the `_split_index` loop on `pre ++ mask :: post`
  (`splitLoop_pre_mask`), and `getitem_refines_mask2_on`.
-/
import TdVerif.Lemmas.C08Mask2
import TdVerif.Lemmas.C08CatN
namespace TdVerif.C08

theorem TD.catList_leaf [Inhabited α] : ∀ (tds : List (TD α)) (d : Nat) (k : String), tds ≠ [] →
    (TD.catList tds d).leaf k = T.catList (tds.map fun t => t.leaf k) d
  | [], _, _, h => absurd rfl h
  | [a], _, _, _ => rfl
  | a :: b :: r, d, k, _ => by
    simp only [TD.catList, TD.cat2, List.map_cons, T.catList]
    rw [TD.catList_leaf (b :: r) d k (by simp)]
    rfl

theorem TD.catList_keys [Inhabited α] : ∀ (a : TD α) (r : List (TD α)) (d : Nat), (TD.catList (a :: r) d).keys = a.keys
  | a, [], _ => rfl
  | a, b :: r, d => by simp [TD.catList, TD.cat2]

/-- the batch size of an n-ary cat is the shape of the cat of shape-only tensors -/
theorem TD.catList_batch [Inhabited α] : ∀ (tds : List (TD α)) (d : Nat), tds ≠ [] →
    (TD.catList tds d).batch = (T.catList (tds.map fun t => (⟨t.batch, fun _ => default⟩ : T α)) d).shape
  | [], _, h => absurd rfl h
  | [a], _, _ => rfl
  | a :: b :: r, d, _ => by
    simp only [TD.catList, TD.cat2, List.map_cons, T.catList, T.cat2]
    rw [TD.catList_batch (b :: r) d (by simp)]
    rfl

end TdVerif.C08
namespace TdVerif.C08

theorem T.catList_shape_congr [Inhabited α] [Inhabited β] : ∀ (xs : List (T α)) (ys : List (T β)) (d : Nat),
    xs.length = ys.length → (∀ i (h1 : i < xs.length) (h2 : i < ys.length), (xs[i]).shape = (ys[i]).shape) →
    (T.catList xs d).shape = (T.catList ys d).shape
  | [], [], _, _, _ => rfl
  | [a], [b], _, _, h => by simpa [T.catList] using h 0 (by simp) (by simp)
  | a :: a' :: r, b :: b' :: r', d, hl, h => by
    have h0 := h 0 (by simp) (by simp)
    simp only [List.getElem_cons_zero] at h0
    have ih := T.catList_shape_congr (a' :: r) (b' :: r') d (by simpa using hl)
      (fun i h1 h2 => by
        have := h (i + 1) (by simp at h1 ⊢; omega) (by simp at h2 ⊢; omega)
        simpa using this)
    simp only [T.catList, T.cat2, h0, ih]
  | [], _ :: _, _, hl, _ => by simp at hl
  | _ :: _, [], _, hl, _ => by simp at hl
  | [_], _ :: _ :: _, _, hl, _ => by simp at hl
  | _ :: _ :: _, [_], _, hl, _ => by simp at hl

/-- **TensorDict-level read refinement, rank-2 mask on the stack dim**: the cat (along the result
position of the mask) of the members indexed with the rows of the mask materialises to the dense
index -/
theorem get_mask2_case [Inhabited α] (L : Lazy α) (b : Shape) (keys : List String) (feat : String → Shape)
    (hU : Uniform L b keys feat) (hne0 : L.members ≠ []) (pre post : List Ix) (m : T Bool) (w : Nat)
    (hpre : BasicPre pre) (hpd : preDims pre = L.sd) (hm : m.shape = [L.members.length, w])
    (res : List (TD α))
    (hres : allSome ((List.range L.members.length).map fun i =>
      (L.members[i]?).bind fun mm => mm.index (pre ++ .mask (m.select 0 i) :: post)) = some res)
    (d : TD α) (hd : (absL L).index (pre ++ .mask m :: post) = some d) :
    TD.catList res (outRank pre) ≈ d := by
  have hB := absL_batch_eq L b keys feat hU hne0
  have hn : 0 < L.members.length := List.length_pos_iff.mpr hne0
  have hsdle : L.sd ≤ b.length := hU.hsd
  obtain ⟨_, hk0⟩ := head_batch_of_uniform L b keys feat hU hne0
  simp only [TD.index, Option.map_eq_some_iff] at hd
  obtain ⟨bd, hbd, rfl⟩ := hd
  rw [hB] at hbd
  -- the mask needs the dim after the stack dim
  have hsd : L.sd < b.length := by
    have hfac := idxShape_pre pre (.mask m :: post) (b.insertIdx L.sd L.members.length) hpre
      (by rw [hpd, List.length_insertIdx_of_le_length hU.hsd]; omega)
    rw [hbd, hpd, drop_insertIdx_self b L.sd _ hU.hsd] at hfac
    cases hps : idxShape pre ((b.insertIdx L.sd L.members.length).take L.sd) with
    | none => simp [hps] at hfac
    | some ps =>
      simp only [hps, Option.bind_some, idxShape, hm] at hfac
      split at hfac
      case isFalse => simp at hfac
      rename_i hc
      have := hc.2
      by_cases hlt : L.sd < b.length
      · exact hlt
      · have : b.drop L.sd = [] := List.drop_eq_nil_of_le (by omega)
        simp [this] at hc
  -- the per-member results
  have hmap := (allSome_eq_some _ _).mp hres
  have hlen : res.length = L.members.length := by
    have := congrArg List.length hmap; simpa using this.symm
  have hri : ∀ i (hi : i < L.members.length), ∃ bi, idxShape (pre ++ .mask (m.select 0 i) :: post) b = some bi ∧
      res[i]'(hlen ▸ hi) = (L.members[i]).mapLeaves bi (idxT (pre ++ .mask (m.select 0 i) :: post)) := by
    intro i hi
    have := congrArg (fun l => l[i]?) hmap
    simp only [List.getElem?_map, List.getElem?_range hi, Option.map_some, List.getElem?_eq_getElem hi,
      List.getElem?_eq_getElem (hlen ▸ hi), Option.bind_some] at this
    simp only [TD.index, hU.hbatch _ (List.getElem_mem hi), Option.map_eq_some_iff, Option.some.injEq] at this
    obtain ⟨bi, h1, h2⟩ := this
    exact ⟨bi, h1, h2.symm⟩
  have hrne : res ≠ [] := by intro h; rw [h] at hlen; simp at hlen; omega
  obtain ⟨r0, rr, hr0⟩ : ∃ r0 rr, res = r0 :: rr := by
    cases res with
    | nil => exact absurd rfl hrne
    | cons a r => exact ⟨a, r, rfl⟩
  refine ⟨?_, ?_, ?_⟩
  · -- batch size: the shapes of shape-only tensors
    rw [TD.catList_batch res _ hrne]
    have key := idx_stack_mask2 (List.replicate L.members.length (⟨b, fun _ => default⟩ : T α)) b L.sd pre post m w
      (by intro t ht; rw [List.eq_of_mem_replicate ht])
      (by
        intro h
        have := congrArg List.length h
        rw [List.length_replicate, List.length_nil] at this
        omega) hsd hpre hpd
      (by simpa using hm) bd (by simpa using hbd)
    have hshape := key.1
    rw [idxT_shape, T.stack_shape] at hshape
    simp only [List.length_replicate] at hshape
    have hhd : (((List.replicate L.members.length (⟨b, fun _ => default⟩ : T α)).head?.map T.shape).getD []) = b := by
      cases hnn : L.members.length with
      | zero => omega
      | succ k => simp [List.replicate_succ]
    rw [hhd, hbd] at hshape
    show _ = bd
    rw [← show ((some bd : Option Shape).getD []) = bd from rfl, ← hshape]
    apply T.catList_shape_congr
    · simp [hlen]
    · intro i h1 h2
      have hi : i < L.members.length := by simpa [hlen] using h1
      obtain ⟨bi, hbi, hres_i⟩ := hri i hi
      simp only [List.getElem_map, List.getElem_range]
      rw [hres_i]
      simp [TD.mapLeaves, idxT_shape, List.getElem?_replicate, hi, hbi]
  · rw [hr0, TD.catList_keys]
    have h0 : 0 < L.members.length := hn
    obtain ⟨bi, _, hres_0⟩ := hri 0 h0
    have : r0 = res[0]'(by rw [hr0]; simp) := by simp [hr0]
    rw [this, hres_0]
    show (L.members[0]).keys = (L.members.head?.map TD.keys).getD []
    rw [hk0]; exact hU.hkeys _ (List.getElem_mem h0)
  · intro k hk
    have hkeys : k ∈ keys := by
      have h0 : 0 < L.members.length := hn
      obtain ⟨bi, _, hres_0⟩ := hri 0 h0
      rw [hr0, TD.catList_keys] at hk
      have : r0 = res[0]'(by rw [hr0]; simp) := by simp [hr0]
      rw [this, hres_0] at hk
      rw [← hU.hkeys _ (List.getElem_mem h0)]; exact hk
    rw [TD.catList_leaf res _ k hrne]
    show _ ≈ₜ idxT (pre ++ .mask m :: post) (T.stack (L.members.map fun mm => mm.leaf k) L.sd)
    have key := idx_stack_mask2 (L.members.map fun mm => mm.leaf k) (b ++ feat k) L.sd pre post m w
      (leaf_shapes L b keys feat hU k hkeys) (by simpa using hne0) (by simp; omega) hpre hpd
      (by simpa using hm) (bd ++ feat k)
      (by
        simp only [List.length_map]
        rw [insertIdx_append_of_le _ _ _ _ hU.hsd]; exact idxShape_append _ _ _ _ hbd)
    simp only [List.length_map] at key
    have e : (res.map fun t => t.leaf k) = (List.range L.members.length).map fun i =>
        idxT (pre ++ .mask (m.select 0 i) :: post) ((L.members.map fun mm => mm.leaf k)[i]?.getD default) := by
      apply List.ext_getElem
      · simp [hlen]
      · intro i h1 h2
        have hi : i < L.members.length := by simpa [hlen] using h1
        obtain ⟨bi, hbi, hres_i⟩ := hri i hi
        simp only [List.getElem_map, List.getElem_range, hres_i, List.getElem?_map,
          List.getElem?_eq_getElem hi, Option.map_some, Option.getD_some]
        rfl
    rw [e]; exact key

end TdVerif.C08
namespace TdVerif.C08

/-- past the stack dim the loop no longer touches `maskDim` -/
theorem splitLoop_after_maskDim (sd n : Nat) (shape : Shape) : ∀ (ix : List Ix) (i : Nat) (st st' : SplitSt),
    sd < st.cursor → splitLoop sd n shape ix i st = some st' → st'.maskDim = st.maskDim
  | [], i, st, st', _, h => by simp [splitLoop] at h; rw [← h]
  | it :: r, i, st, st', hc, h => by
    have hc1 : ¬ st.cursor = sd := by omega
    have hc2 : ¬ st.cursor < sd := by omega
    simp only [splitLoop] at h
    cases it with
    | ell => simp [splitStep] at h
    | none =>
      simp only [splitStep, Option.bind_some] at h
      have := splitLoop_after_maskDim sd n shape r (i + 1) _ st' (by simpa using hc) h
      simpa using this
    | int k =>
      simp only [splitStep, hc1, if_false, Option.bind_some] at h
      have := splitLoop_after_maskDim sd n shape r (i + 1) _ st' (by simp; omega) h
      simpa using this
    | slice a b c =>
      simp only [splitStep, hc1, if_false, Option.bind_some] at h
      have := splitLoop_after_maskDim sd n shape r (i + 1) _ st' (by simp; omega) h
      simpa using this
    | tens t =>
      simp only [splitStep, hc1, hc2, if_false, Option.bind_some] at h
      have := splitLoop_after_maskDim sd n shape r (i + 1) _ st' (by simp; omega) h
      simpa using this
    | mask m =>
      simp only [splitStep, hc1, hc2, if_false, false_and, Option.bind_some] at h
      have := splitLoop_after_maskDim sd n shape r (i + 1) _ st' (by simp; omega) h
      simpa using this

/-- the loop on `pre ++ mask :: post` for a basic prefix that reaches the stack dim exactly -/
theorem splitLoop_pre_mask (sd n : Nat) (shape : Shape) (m : T Bool) (post : List Ix)
    (hpost : ∀ it ∈ post, it ≠ Ix.ell) : ∀ (pre : List Ix) (i : Nat) (st : SplitSt),
    BasicPre pre → st.cursor + preDims pre = sd → i = st.out.length →
    ∃ st', splitLoop sd n shape (pre ++ .mask m :: post) i st = some st' ∧
      st'.out = st.out ++ (pre ++ .mask m :: post) ∧ st'.hasBool = true ∧
      st'.maskLoc = i + pre.length ∧ st'.maskDim = sd ∧ st'.sel = .range 0 1 n ∧
      (st'.maskLoc : Int) - st'.numSingle = (i : Int) - st.numSingle + outRank pre
  | [], i, st, _, hc, hi => by
    have hc0 : st.cursor = sd := by simpa [preDims] using hc
    obtain ⟨st', h1, h2, h3⟩ := splitLoop_after sd n shape post (i + 1)
      { st with hasBool := true, sel := .range 0 1 n, out := st.out ++ [.mask m],
                splitDim := (i : Int) - st.numSingle, maskLoc := i, maskDim := st.cursor,
                cursor := st.cursor + 1 } (by simp; omega) hpost
    have hmd := splitLoop_after_maskDim sd n shape post (i + 1) _ st' (by simp; omega) h1
    refine ⟨st', by simpa [splitLoop, splitStep, hc0] using h1, by simpa using h2, ?_, ?_, ?_, ?_, ?_⟩
    · simpa using h3.hasBool
    · simpa using h3.maskLoc
    · simpa [hc0] using hmd
    · simpa using h3.sel
    · have a := h3.maskLoc; have b := h3.numSingle
      simp only at a b
      rw [a, b]; simp [outRank]
  | .none :: r, i, st, hb, hc, hi => by
    obtain ⟨st', h1, h2, h3, h4, h5, h6, h7⟩ := splitLoop_pre_mask sd n shape m post hpost r (i + 1)
      { st with out := st.out ++ [.none], numNone := st.numNone + (if st.cursor ≤ sd then 1 else 0) }
      (by simpa [BasicPre] using hb) (by simpa [preDims] using hc) (by simp [hi])
    refine ⟨st', by simpa [splitLoop, splitStep] using h1, by simpa using h2, h3, ?_, h5, h6, ?_⟩
    · rw [h4]; simp; omega
    · rw [h7, outRank_cons]; simp; omega
  | .int k :: r, i, st, hb, hc, hi => by
    have hc0 : ¬ st.cursor = sd := by simp [preDims] at hc; omega
    have hc1 : st.cursor < sd := by simp [preDims] at hc; omega
    obtain ⟨st', h1, h2, h3, h4, h5, h6, h7⟩ := splitLoop_pre_mask sd n shape m post hpost r (i + 1)
      { st with numSingle := if st.cursor < sd then st.numSingle + 1 else st.numSingle,
                out := st.out ++ [.int k], cursor := st.cursor + 1 }
      (by simpa [BasicPre] using hb) (by simp [preDims] at hc ⊢; omega) (by simp [hi])
    refine ⟨st', by simpa [splitLoop, splitStep, hc0] using h1, by simpa using h2, h3, ?_, h5, h6, ?_⟩
    · rw [h4]; simp; omega
    · rw [h7, outRank_cons]; simp [hc1]; omega
  | .slice a b c :: r, i, st, hb, hc, hi => by
    have hc0 : ¬ st.cursor = sd := by simp [preDims] at hc; omega
    obtain ⟨st', h1, h2, h3, h4, h5, h6, h7⟩ := splitLoop_pre_mask sd n shape m post hpost r (i + 1)
      { st with out := st.out ++ [.slice a b c], cursor := st.cursor + 1 }
      (by simpa [BasicPre] using hb) (by simp [preDims] at hc ⊢; omega) (by simp [hi])
    refine ⟨st', by simpa [splitLoop, splitStep, hc0] using h1, by simpa using h2, h3, ?_, h5, h6, ?_⟩
    · rw [h4]; simp; omega
    · rw [h7, outRank_cons]; simp; omega
  | .tens _ :: _, _, _, hb, _, _ => by simp [BasicPre] at hb
  | .mask _ :: _, _, _, hb, _, _ => by simp [BasicPre] at hb
  | .ell :: _, _, _, hb, _, _ => by simp [BasicPre] at hb

end TdVerif.C08
namespace TdVerif.C08

theorem set_append_mid {β} (pre post : List β) (x y : β) : (pre ++ x :: post).set pre.length y = pre ++ y :: post := by
  rw [List.set_append_right _ _ (Nat.le_refl _)]; simp

/-- **Reads with a rank-2 mask on the stack dim** (`lazy[pre…, mask2d, post…]`, the mask covering the
stack dim and the next one): for every position `i` of the stack dim the member `i` is indexed with
row `i` of the mask, and the results are concatenated along `mask_loc - num_single`; this
materialises to the dense index. -/
theorem getitem_refines_mask2_on [Inhabited α] (L : Lazy α) (b : Shape) (keys : List String) (feat : String → Shape)
    (hU : Uniform L b keys feat) (hne0 : L.members ≠ []) (pre post : List Ix) (m : T Bool) (w : Nat)
    (hpre : BasicPre pre) (hpd : preDims pre = L.sd) (hpost : ∀ it ∈ post, it ≠ Ix.ell)
    (hm : m.shape = [L.members.length, w])
    (r : LRes α) (hr : lazyGetCoreM L (pre ++ .mask m :: post) = some r)
    (d : TD α) (hd : (absL L).index (pre ++ .mask m :: post) = some d) :
    absR r ≈ d := by
  obtain ⟨st', hloop, hout, hhb, hml, hmd, hsel, hcat⟩ :=
    splitLoop_pre_mask L.sd L.members.length L.batch m post hpost pre 0 {} hpre (by simpa using hpd) rfl
  simp only [List.nil_append, Nat.zero_add] at hout hml
  have hmaskAt : st'.out[st'.maskLoc]? = some (.mask m) := by
    rw [hout, hml]; simp
  have hids : (st'.sel.ids L.members.length).length = L.members.length := by rw [hsel]; simp [Sel.ids]
  have hsplit : splitIndex L (pre ++ .mask m :: post) = some st' := by
    unfold splitIndex
    simp [hloop, hhb, hmaskAt, hids, hm]
  have hcat' : (st'.maskLoc : Int) - st'.numSingle = (outRank pre : Int) := by
    have := hcat; simpa using this
  unfold lazyGetCoreM at hr
  simp only [hsplit, hhb, if_true, hmaskAt, hm, List.length_cons, List.length_nil, hcat', hids, hmd] at hr
  have hneg : ¬ ((outRank pre : Int) < 0) := by omega
  simp only [hneg, if_false, Nat.reduceAdd, if_true, Int.toNat_natCast] at hr
  have hsub : ∀ i, subMaskIdx st'.out st'.maskLoc m i = pre ++ .mask (m.select 0 i) :: post := by
    intro i; unfold subMaskIdx; rw [hout, hml, set_append_mid]
  simp only [hsub] at hr
  cases hres : allSome ((List.range L.members.length).map fun i =>
      (L.members[i]?).bind fun mm => mm.index (pre ++ .mask (m.select 0 i) :: post)) with
  | none => rw [hres] at hr; simp at hr
  | some res =>
    rw [hres] at hr
    simp only [Option.bind_some] at hr
    cases res with
    | nil => simp at hr
    | cons r0 rr =>
      simp only [Option.some.injEq] at hr
      subst hr
      exact get_mask2_case L b keys feat hU hne0 pre post m w hpre hpd hm (r0 :: rr) hres d hd

end TdVerif.C08
