/-
  C06 — StepFacts for every event of the lock machine.
-/
import TdVerif.Lemmas.C06Step
import TdVerif.Lemmas.C05Shallow
import TdVerif.Props.C05

namespace TdVerif.C06
open TdVerif.C05

/-- the nodes an event may restructure (a nested key leads to the node it names) -/
def mutated (h : Heap) : Ev → List Nat
  | .mut i m => if m.eff.isWrite then [] else [i]
  | .mutPath i path m => match walk h i path with
    | some t => if m.eff.isWrite then [] else [t]
    | none => []
  | _ => []

def notMemmap : Ev → Bool
  | .viaMemmap _ => false
  | _ => true

/-- a mutator call leaves the heap as it was, or replaces node `i` by what `applyEff` computes; the latter only for
a value write or when the lock did not block -/
theorem mutEv_cases (h : Heap) (i : Nat) (m : Mut) :
    (mutEv h i m).1 = h ∨ ∃ n', applyEff (h.node i) m.eff = some n' ∧ (mutEv h i m).1 = h.upd i (fun _ => n') ∧
      (m.eff.isWrite = true ∨ (isLocked h i && m.guard.blocks m.kwBypass) = false) := by
  unfold mutEv
  split
  · rename_i hw
    split
    · rename_i n' hae; exact .inr ⟨n', hae, rfl, .inl hw⟩
    · exact .inl rfl
  · split
    · exact .inl rfl
    · rename_i hb
      have hb' : (isLocked h i && m.guard.blocks m.kwBypass) = false := by simpa using hb
      split
      · exact .inl rfl
      · split
        · split
          · split
            · rename_i n' hae; exact .inr ⟨n', hae, rfl, .inr hb'⟩
            · exact .inl rfl
          · exact .inl rfl
        · split
          · rename_i n' hae; exact .inr ⟨n', hae, rfl, .inr hb'⟩
          · exact .inl rfl

theorem facts_mutEv {h : Heap} (hinv : Inv h) (i : Nat) (m : Mut)
    (hm : m.eff.isWrite = true ∨ m.guard.blocks m.kwBypass = true) (L : List Nat) :
    StepFacts h (mutEv h i m).1 L (if m.eff.isWrite then [] else [i]) := by
  rcases mutEv_cases h i m with e | ⟨n', hae, e, hwhy⟩
  · rw [e]; exact StepFacts.refl h _ _
  · rw [e]
    obtain ⟨a, _, c, _, _, _⟩ := applyEff_spec _ _ _ hae
    by_cases hw : m.eff.isWrite = true
    · -- a value write: bindings untouched
      have ⟨wb, wk⟩ : payload n' = payload (h.node i) ∧ n'.kids = (h.node i).kids := by
        cases hme : m.eff with
        | write k => rw [hme] at hae; exact write_bindings _ _ _ hae
        | addLeaf _ _ => rw [hme] at hw; simp [Eff.isWrite] at hw
        | addKid _ _ => rw [hme] at hw; simp [Eff.isWrite] at hw
        | del _ => rw [hme] at hw; simp [Eff.isWrite] at hw
        | rename _ _ => rw [hme] at hw; simp [Eff.isWrite] at hw
        | keep _ => rw [hme] at hw; simp [Eff.isWrite] at hw
        | drop _ => rw [hme] at hw; simp [Eff.isWrite] at hw
        | clear => rw [hme] at hw; simp [Eff.isWrite] at hw
      have f := facts_upd_node hinv i n' a c (.inl ⟨wk, wb⟩) L
      simp only [hw, if_true]
      refine ⟨f.content, fun o _ _ => ?_, f.clean, f.size⟩
      by_cases hoi : o = i
      · subst hoi; rw [upd_node_self]; exact ⟨wk, wb⟩
      · rw [upd_node_ne _ _ _ _ hoi]; exact ⟨rfl, rfl⟩
    · have hw' : m.eff.isWrite = false := by simpa using hw
      have hblk : m.guard.blocks m.kwBypass = true := by
        rcases hm with x | x
        · rw [x] at hw'; cases hw'
        · exact x
      have hnl : isLocked h i = false := by
        rcases hwhy with x | x
        · rw [x] at hw'; cases hw'
        · rw [hblk] at x; simpa using x
      have hnf : flagged h i = false := by
        cases hf : flagged h i with
        | false => rfl
        | true => rw [isLocked_of_flagged h i hf] at hnl; cases hnl
      simp only [hw', Bool.false_eq_true, if_false]
      exact facts_upd_node hinv i n' a c (.inr hnf) L

theorem memmapFlagsF_struct : ∀ n h i, SameStruct h (memmapFlagsF n h i) := by
  intro n
  induction n with
  | zero => intro h i; exact SameStruct.refl h
  | succ n ih =>
    intro h i
    simp only [memmapFlagsF]
    refine SameStruct.trans ?_ (foldl_sameStruct _ (fun acc j => ih acc j) _ _)
    split
    · exact SameStruct.refl h
    · apply sameStruct_upd; intro x; exact ⟨rfl, rfl⟩

/-- the lock bookkeeping of `memmap_` (flags, then `_propagate_lock`) touches no entry and no attribute -/
theorem memmapEv_struct (h : Heap) (i : Nat) : SameStruct h (memmapEv h i) :=
  (memmapFlagsF_struct _ h i).trans (propLockF_struct _ _ _ _)

theorem memmapEv_le (h : Heap) (i : Nat) : Le h (memmapEv h i) :=
  (memmapFlagsF_le _ h i).trans (propLockF_le _ _ _ _)

/-- every event of the lock machine (for `memmap_`: its lock bookkeeping; the rebinding of the leaves is `CEv.memmap`) -/
theorem facts_stepLive (s : State) (hinv : Inv s.heap) (e : Ev) (hok : Props.C05.EvOk e)
    (ht : ∀ i, e.target = some i → live s.heap i = true ∧ i < s.heap.size) :
    StepFacts s.heap (stepLive s e).1.heap (erasedBy s e) (mutated s.heap e) := by
  cases e with
  | lock i => exact facts_of_le (lockEv_le _ i) (lockEv_struct _ i) _ _
  | unlock i =>
    have g := ht i rfl
    have : erasedBy s (.unlock i) = unlockErased s.heap i := by simp [erasedBy, unlockTarget, g.1, g.2]
    rw [this]; exact facts_unlock hinv.ordered i _
  | viaCtor kids leaves lock =>
    simp only [stepLive]
    split
    · cases lock with
      | true => exact (facts_alloc hinv _ _ _).trans_le (lockEv_le _ _) (lockEv_struct _ _)
      | false => exact facts_alloc hinv _ _ _
    · exact StepFacts.refl _ _ _
  | lazyOver ms lock =>
    simp only [stepLive]
    split
    · cases lock with
      | true => exact (facts_alloc hinv _ _ _).trans_le (lockEv_le _ _) (lockEv_struct _ _)
      | false => exact facts_alloc hinv _ _ _
    · exact StepFacts.refl _ _ _
  | viaShare i => exact facts_of_le (shareEv_le _ i) (shareEv_struct _ i) _ _
  | viaMemmap i => exact facts_of_le (memmapEv_le _ i) (memmapEv_struct _ i) _ _
  | gcDrop i =>
    have g := ht i rfl
    simp only [stepLive]
    split
    · rename_i hh
      have : erasedBy s (.gcDrop i) = [] := by simp [erasedBy, unlockTarget, hh]
      rw [this]; exact StepFacts.refl _ _ _
    · rename_i hh
      have hh' : held s.heap i = false := by simpa using hh
      have : erasedBy s (.gcDrop i) = [i] := by simp [erasedBy, unlockTarget, g.1, g.2, hh']
      rw [this]; exact facts_gc _ i _
  | «mut» i m =>
    exact facts_mutEv hinv i m (by simpa [Props.C05.EvOk, Props.C05.evOkB] using hok) _
  | mutPath i path m =>
    have he : erasedBy s (.mutPath i path m) = [] := by simp [erasedBy, unlockTarget]
    rw [he]
    simp only [stepLive, mutPathEv, mutated]
    cases hw : walk s.heap i path with
    | some t =>
      simp only
      exact facts_mutEv hinv t m (by simpa [Props.C05.EvOk, Props.C05.evOkB] using hok) _
    | none => exact StepFacts.refl _ _ _
  | withLock i => exact facts_of_le (lockEv_le _ i) (lockEv_struct _ i) _ _
  | withUnlock i =>
    have g := ht i rfl
    have : erasedBy s (.withUnlock i) = unlockErased s.heap i := by simp [erasedBy, unlockTarget, g.1, g.2]
    rw [this]
    simp only [stepLive]
    split <;> exact facts_unlock hinv.ordered i _
  | exitCtx =>
    simp only [stepLive]
    split
    · rename_i hc; simp [erasedBy, unlockTarget, hc]; exact StepFacts.refl _ _ _
    · rename_i hc; simp [erasedBy, unlockTarget, hc]; exact StepFacts.refl _ _ _
    · rename_i i rest hc
      split
      · rename_i hg
        have : erasedBy s .exitCtx = unlockErased s.heap i := by simp [erasedBy, unlockTarget, hc, hg]
        rw [this]; exact facts_unlock hinv.ordered i _
      · rename_i hg
        have : erasedBy s .exitCtx = [] := by simp [erasedBy, unlockTarget, hc, hg]
        rw [this]; exact StepFacts.refl _ _ _
    · rename_i i rest hc
      have : erasedBy s .exitCtx = [] := by simp [erasedBy, unlockTarget, hc]
      rw [this]
      split
      · exact facts_of_le (lockEv_le _ i) (lockEv_struct _ i) _ _
      · exact StepFacts.refl _ _ _
  | unlockShallow i =>
    have g := ht i rfl
    have he : erasedBy s (.unlockShallow i) = [i] := by simp [erasedBy, unlockTarget, g.1, g.2]
    rw [he]
    show StepFacts s.heap (unlockShallowEv s.heap i).1 [i] _
    rcases unlockShallowEv_cases s.heap i with e | ⟨_, e⟩ | ⟨_, e, _⟩
    · rw [e]; exact StepFacts.refl _ _ _
    · rw [e]; exact facts_of_le (propLockF_le _ _ _ _) (propLockF_struct _ _ _ _) _ _
    · rw [e]
      have st : SameStruct s.heap (s.heap.upd i (fun x => { x with flag := some false, parents := [] })) := by
        apply sameStruct_upd; intro x; exact ⟨rfl, rfl⟩
      refine ⟨fun p _ _ _ => st.content p, fun o _ _ => st o, fun p hp => ?_, Nat.le_refl _⟩
      by_cases hpi : p = i
      · exact .inl (by simp [hpi])
      · right; unfold live flagged at hp ⊢; rw [upd_node_ne _ _ _ _ hpi] at hp; exact hp

end TdVerif.C06
