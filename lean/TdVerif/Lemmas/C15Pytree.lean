/-
  C15 — pytree flatten / unflatten of a tensorclass.
-/
import TdVerif.Lemmas.C15SetInplace

namespace TdVerif.C15
variable {T V : Type}

theorem zip_map_fst_snd {α β : Type} : ∀ (l : List (α × β)), (l.map Prod.fst).zip (l.map Prod.snd) = l
  | [] => rfl
  | (a, b) :: l => by simp [zip_map_fst_snd l]

theorem map_fst_zip_of_length {α β : Type} : ∀ (ks : List α) (vs : List β), ks.length = vs.length →
    (ks.zip vs).map Prod.fst = ks
  | [], _, _ => by simp
  | _ :: _, [], h => by simp at h
  | k :: ks, v :: vs, h => by
    simp only [List.length_cons, Nat.add_right_cancel_iff] at h
    simp [map_fst_zip_of_length ks vs h]

/-- for a well-formed instance `_from_tensordict(td, dict(_non_tensordict))` gives the placeholders back unchanged -/
theorem fromTensordict_of_wf (fields : List String) (tc : TC (TDm T V) V) (hwf : WF fields tc) (hpl : PlaceholdersOnly tc) :
    fromTensordict fields tc.td.keys tc.nt = .ok tc.nt := by
  have hm : Matching fields tc.td.keys tc.nt :=
    ⟨fun kv hkv _ => hpl kv hkv, hwf.td_sub, hwf.nt_sub⟩
  rw [fromTensordict_ok_of_matching hm]
  have h1 : tc.nt.filter (fun kv => !tc.td.keys.contains kv.1) = tc.nt := by
    rw [List.filter_eq_self]
    intro kv hkv
    have hk : kv.1 ∈ tc.nt.keys := List.mem_map.mpr ⟨kv, hkv, rfl⟩
    have : kv.1 ∉ tc.td.keys := fun h => hwf.disj kv.1 h hk
    simpa using this
  have h2 : fields.filter (fun f => !tc.td.keys.contains f && !tc.nt.keys.contains f) = [] := by
    rw [List.filter_eq_nil_iff]
    intro f hf
    rcases hwf.cover f hf with h | h
    · simp [h]
    · simp [h]
  rw [h1, h2]
  simp

end TdVerif.C15
