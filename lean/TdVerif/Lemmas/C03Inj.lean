/-
  C03 lemmas, part 10: a basic index (ints, 0-d integer tensors, slices, `None`, Ellipsis) never selects an element twice —
  torch's coordinate map is injective on the coordinates of the result.
-/
import TdVerif.Lemmas.C03InB

namespace TdVerif.C03
open TorchSpec Td

/-- every slice piece moves with a positive step -/
def StepPos : List Piece → Prop
  | [] => True
  | .sel _ _ :: r => StepPos r
  | .sl _ _ sp _ :: r => 0 < sp ∧ StepPos r
  | .new :: r => StepPos r
  | .adv _ _ _ :: r => StepPos r

theorem stepPos_fulls (dims : Shape) (Q : List Piece) (h : StepPos Q) : StepPos (dims.map Piece.full ++ Q) := by
  induction dims with
  | nil => exact h
  | cons n r ih => exact ⟨by decide, ih⟩

theorem walk_stepPos (items : List Ix) : ∀ (e : Nat) (dims : Shape) (P : List Piece),
    walk e dims items = .ok P → StepPos P := by
  intro e dims P
  induction items generalizing dims P with
  | nil =>
    intro h; simp [walk] at h; subst h
    simpa using stepPos_fulls dims [] trivial
  | cons x r ih =>
    intro h
    cases x with
    | none =>
      simp only [walk] at h
      obtain ⟨P', h1, rfl⟩ := map_ok h
      exact ih dims P' h1
    | ell =>
      simp only [walk] at h
      obtain ⟨P', h1, rfl⟩ := map_ok h
      exact stepPos_fulls _ _ (ih (dims.drop e) P' h1)
    | mask s d =>
      simp only [walk] at h
      split at h
      · obtain ⟨P', h1, rfl⟩ := map_ok h
        exact ih (dims.drop s.length) P' h1
      · cases h
    | int i =>
      cases dims with
      | nil => simp [walk] at h
      | cons n ds =>
        simp only [walk] at h
        obtain ⟨P', h1, rfl, -⟩ := consSel_ok h
        exact ih ds P' h1
    | slice a b c =>
      cases dims with
      | nil => simp [walk] at h
      | cons n ds =>
        simp only [walk] at h
        obtain ⟨P', s, e', st', h1, hc, hi, rfl⟩ := consSlice_ok h
        obtain ⟨_, hst, _⟩ := slice_in_bounds a b c n s e' st' hc hi
        exact ⟨by omega, ih ds P' h1⟩
    | list l =>
      cases dims with
      | nil => simp [walk] at h
      | cons n ds =>
        simp only [walk] at h
        obtain ⟨P', h1, rfl⟩ := consAdv_ok h
        exact ih ds P' h1
    | range a b c =>
      cases dims with
      | nil => simp [walk] at h
      | cons n ds =>
        simp only [walk] at h
        obtain ⟨P', h1, rfl⟩ := consAdv_ok h
        exact ih ds P' h1
    | tensor s d =>
      cases dims with
      | nil => cases s <;> simp [walk] at h
      | cons n ds =>
        cases s with
        | nil =>
          simp only [walk] at h
          obtain ⟨P', h1, rfl, -⟩ := consSel_ok h
          exact ih ds P' h1
        | cons m s' =>
          simp only [walk] at h
          obtain ⟨P', h1, rfl⟩ := consAdv_ok h
          exact ih ds P' h1

/-- without index arrays the coordinate map is injective: a select is constant, a slice moves with a positive step, a new dim has size 1 -/
theorem walkSrc_inj (b : List Nat) (B : Shape) (f : Bool) (P : List Piece) (hna : hasAdv P = false) (hsp : StepPos P) :
    ∀ s1 s2, InB s1 (outDims B f P) → InB s2 (outDims B f P) → walkSrc b P s1 = walkSrc b P s2 → s1 = s2 := by
  induction P with
  | nil =>
    intro s1 s2 h1 h2 _
    cases h1; cases h2; rfl
  | cons p r ih =>
    intro s1 s2 h1 h2 he
    cases p with
    | sel n i =>
      have hna' : hasAdv r = false := by simpa [hasAdv, advShapes] using hna
      simp only [walkSrc, List.cons.injEq, true_and] at he
      exact ih hna' hsp s1 s2 h1 h2 he
    | sl n st sp len =>
      have hna' : hasAdv r = false := by simpa [hasAdv, advShapes] using hna
      simp only [outDims] at h1 h2
      cases s1 with
      | nil => cases h1
      | cons x1 t1 =>
        cases s2 with
        | nil => cases h2
        | cons x2 t2 =>
          obtain ⟨_, ht1⟩ := inB_cons.mp h1
          obtain ⟨_, ht2⟩ := inB_cons.mp h2
          simp only [walkSrc, List.headD_cons, List.tail_cons, List.cons.injEq] at he
          have hx : x1 = x2 := Nat.eq_of_mul_eq_mul_left hsp.1 (by omega)
          rw [hx, ih hna' hsp.2 t1 t2 ht1 ht2 he.2]
    | new =>
      have hna' : hasAdv r = false := by simpa [hasAdv, advShapes] using hna
      simp only [outDims] at h1 h2
      cases s1 with
      | nil => cases h1
      | cons x1 t1 =>
        cases s2 with
        | nil => cases h2
        | cons x2 t2 =>
          obtain ⟨hx1, ht1⟩ := inB_cons.mp h1
          obtain ⟨hx2, ht2⟩ := inB_cons.mp h2
          simp only [walkSrc, List.tail_cons] at he
          have hx : x1 = x2 := by omega
          rw [hx, ih hna' hsp t1 t2 ht1 ht2 he]
    | adv ns sh cols => simp [hasAdv, advShapes] at hna

theorem outDims_noAdv (B : Shape) (P : List Piece) (hna : hasAdv P = false) : outDims B false P = outDims B true P := by
  induction P with
  | nil => rfl
  | cons p r ih =>
    cases p with
    | adv ns sh cols => simp [hasAdv, advShapes] at hna
    | sel n i => simpa [outDims] using ih (by simpa [hasAdv, advShapes] using hna)
    | sl n st sp len => simpa [outDims] using ih (by simpa [hasAdv, advShapes] using hna)
    | new => simpa [outDims] using ih (by simpa [hasAdv, advShapes] using hna)

/-- **A basic index never selects an element twice.** -/
theorem index_src_inj_of_basic (dims : Shape) (items : List Ix) (R : IndexResult) (h : index dims items = .ok R)
    (hb : items.all isBasic = true) :
    ∀ c1 ∈ coords R.shape, ∀ c2 ∈ coords R.shape, R.src c1 = R.src c2 → c1 = c2 := by
  obtain ⟨-, P, hw, hf⟩ := index_inv h
  obtain ⟨B, hB, hshape, hsrc, -⟩ := finalize_ok hf
  have hemp : (advShapes P).isEmpty = true := by rw [advShapes_walk_iff items _ dims P hw]; exact hb
  have hna : hasAdv P = false := by simp [hasAdv, hemp]
  have hnil : advShapes P = [] := by simpa using hemp
  have hB' : B = [] := by rw [hnil] at hB; simpa [broadcastAll] using hB.symm
  subst hB'
  have hsh : R.shape = outDims [] true P := by
    rw [hshape]; unfold outShape
    split
    · exact outDims_noAdv [] P hna
    · simp
  have hs : ∀ c, R.src c = walkSrc [] P c := by
    intro c
    rw [hsrc]; unfold srcCoord
    split <;> simp
  intro c1 hc1 c2 hc2 he
  rw [hsh] at hc1 hc2
  rw [hs c1, hs c2] at he
  exact walkSrc_inj [] [] true P hna (walk_stepPos items _ dims P hw) c1 c2
    ((mem_coords_iff_inB _ c1).mp hc1) ((mem_coords_iff_inB _ c2).mp hc2) he

end TdVerif.C03
