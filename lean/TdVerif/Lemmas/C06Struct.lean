/-
  C06 — lock bookkeeping never touches the bindings; `content` only depends on the bindings below a node.
-/
import TdVerif.Model.C06Cache
import TdVerif.Lemmas.C05Inv3

namespace TdVerif.C06
open TdVerif.C05

/-- key ↦ identity of the bound leaf object (the value version is not a binding) -/
def bindings (n : LNode) : List (String × Nat) := n.leaves.map (fun e => (e.1, e.2.1))

/-- what a read may observe of one tensordict besides its nested tensordicts: the leaf bindings and the metadata attributes -/
def payload (n : LNode) : List (String × Nat) × List (Nat × Nat) := (bindings n, n.attrs)

theorem payload_bindings {a b : LNode} (h : payload a = payload b) : bindings a = bindings b := congrArg Prod.fst h
theorem payload_attrs {a b : LNode} (h : payload a = payload b) : a.attrs = b.attrs := congrArg Prod.snd h

/-- same entries everywhere: same nested tensordicts, same leaf objects under the same keys, same metadata -/
def SameStruct (h h' : Heap) : Prop :=
  ∀ m, (h'.node m).kids = (h.node m).kids ∧ payload (h'.node m) = payload (h.node m)

theorem SameStruct.refl (h : Heap) : SameStruct h h := fun _ => ⟨rfl, rfl⟩
theorem SameStruct.trans {a b c : Heap} (x : SameStruct a b) (y : SameStruct b c) : SameStruct a c :=
  fun m => ⟨by rw [(y m).1, (x m).1], by rw [(y m).2, (x m).2]⟩

theorem sameStruct_upd (h : Heap) (i : Nat) (f : LNode → LNode)
    (hf : ∀ x, (f x).kids = x.kids ∧ ((f x).leaves, (f x).attrs) = (x.leaves, x.attrs)) : SameStruct h (h.upd i f) := by
  intro m
  by_cases hm : m = i
  · subst hm; rw [upd_node_self]
    have := (hf (h.node m)).2
    simp only [Prod.mk.injEq] at this
    exact ⟨(hf _).1, by unfold payload bindings; rw [this.1, this.2]⟩
  · rw [upd_node_ne _ _ _ _ hm]; exact ⟨rfl, rfl⟩

theorem foldl_sameStruct {α} (g : Heap → α → Heap) (hg : ∀ acc j, SameStruct acc (g acc j)) :
    ∀ (ks : List α) (h : Heap), SameStruct h (ks.foldl g h) := by
  intro ks
  induction ks with
  | nil => intro h; exact SameStruct.refl h
  | cons k ks ih => intro h; exact (hg h k).trans (ih (g h k))

theorem propLockF_struct : ∀ n h ps i, SameStruct h (propLockF n h ps i) := by
  intro n
  induction n with
  | zero => intro h ps i; exact SameStruct.refl h
  | succ n ih =>
    intro h ps i
    simp only [propLockF]
    split
    · refine SameStruct.trans ?_ (foldl_sameStruct _ (fun acc j => ih acc _ j) _ _)
      apply sameStruct_upd; intro x; exact ⟨rfl, rfl⟩
    · refine SameStruct.trans ?_ (foldl_sameStruct _ (fun acc j => ih acc _ j) _ _)
      apply sameStruct_upd; intro x; exact ⟨rfl, rfl⟩

theorem lockEv_struct (h : Heap) (i : Nat) : SameStruct h (lockEv h i).1 := by
  unfold lockEv; split
  · exact SameStruct.refl h
  · exact propLockF_struct _ _ _ _

theorem propUnlockF_struct : ∀ n h i, SameStruct h (propUnlockF n h i).1 := by
  intro n
  induction n with
  | zero => intro h i; exact SameStruct.refl h
  | succ n ih =>
    intro h i
    rw [propUnlockF_succ]
    have := foldl_inv' (unlockStep n) (fun acc => SameStruct h acc.1) (kidIds h i)
      (fun acc j _ ha => ha.trans (ih acc.1 j))
      (h.upd i (fun x => { x with flag := if x.lazy then none else some false }), [])
      (by dsimp only; apply sameStruct_upd; intro x; exact ⟨rfl, rfl⟩)
    exact this

theorem checkUnlock_struct (h : Heap) (i : Nat) : SameStruct h (checkUnlock h i).1 := by
  by_cases hp : hasLockedParent h i = true
  · rw [checkUnlock_eq_fail h i hp]; exact SameStruct.refl h
  · have hp' : hasLockedParent h i = false := by simpa using hp
    by_cases hl : (h.node i).lazy = true
    · rw [checkUnlock_eq_lazy h i hp' hl]; exact SameStruct.refl h
    · rw [checkUnlock_eq_plain h i hp' (by simpa using hl)]
      dsimp only; apply sameStruct_upd; intro x; exact ⟨rfl, rfl⟩

theorem checkAll_struct : ∀ (L : List Nat) (h : Heap), SameStruct h (checkAll h L).1 := by
  intro L
  induction L with
  | nil => intro h; exact SameStruct.refl h
  | cons c L ih =>
    intro h
    have c1 := checkUnlock_struct h c
    simp only [checkAll]
    rcases hck : checkUnlock h c with ⟨h', b⟩
    rw [hck] at c1
    cases b with
    | true => exact c1.trans (ih h')
    | false => exact c1

theorem unlockEv_struct (h : Heap) (i : Nat) : SameStruct h (unlockEv h i).1 := by
  have s1 := propUnlockF_struct (i + 1) h i
  have s2 := checkAll_struct ((propUnlockF (i + 1) h i).2 ++ [i]) (propUnlockF (i + 1) h i).1
  rcases hck : checkAll (propUnlockF (i + 1) h i).1 ((propUnlockF (i + 1) h i).2 ++ [i]) with ⟨h2, b⟩
  rw [hck] at s2
  cases b with
  | true => rw [unlockEv_ok h i h2 hck]; exact s1.trans s2
  | false => rw [unlockEv_fail h i h2 hck]; exact (s1.trans s2).trans (lockEv_struct h2 i)

theorem shareEv_struct (h : Heap) (i : Nat) : SameStruct h (shareEv h i) := by
  unfold shareEv
  exact foldl_sameStruct _ (fun acc j => by
    unfold shareNode; split
    · exact propLockF_struct _ _ _ _
    · exact lockEv_struct acc j) _ _

/-! ### `content` -/

theorem contentF_eq (n : Nat) (h : Heap) (i : Nat) :
    contentF (n + 1) h i =
      (payload (h.node i)).2.map (fun a => ([], Ent.attr a.1 a.2)) ++
      (payload (h.node i)).1.map (fun b => ([b.1], Ent.leaf b.2)) ++
      (h.node i).kids.flatMap (fun e => ([e.1], Ent.node e.2) :: (contentF n h e.2).map (fun p => (e.1 :: p.1, p.2))) := by
  simp [contentF, payload, bindings, List.map_map, Function.comp_def]

/-- the bindings and metadata of the subtree only depend on the nodes of the subtree -/
theorem contentF_congr_reach (h h' : Heap) :
    ∀ n i, (∀ m, Reach h i m → (h'.node m).kids = (h.node m).kids ∧ payload (h'.node m) = payload (h.node m)) →
      contentF n h' i = contentF n h i := by
  intro n
  induction n with
  | zero => intro i _; rfl
  | succ n ih =>
    intro i hm
    rw [contentF_eq, contentF_eq, (hm i (Reach.refl i)).1, (hm i (Reach.refl i)).2]
    congr 1
    apply flatMap_congr_mem
    intro e he
    have hk : e.2 ∈ kidIds h i := by unfold kidIds; exact List.mem_map.mpr ⟨e, he, rfl⟩
    rw [ih e.2 (fun m r => hm m ((Reach.kid hk).trans r))]

theorem SameStruct.content {h h' : Heap} (s : SameStruct h h') (i : Nat) : content h' i = content h i :=
  contentF_congr_reach h h' (i + 1) i (fun m _ => s m)

end TdVerif.C06
