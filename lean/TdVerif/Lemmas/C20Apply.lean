/-
  Helper lemmas for the C20 apply model (core Lean only).
-/
import TdVerif.Model.C20Apply

namespace TdVerif.C20
variable {V : Type}

/-! schedule independence -/
theorem find?_runSchedule (fn : Fn V) (tasks : List (Call V)) (sched : List Nat) (i : Nat) (hi : i ∈ sched) :
    futResult (runSchedule fn tasks sched) i = (tasks[i]?).bind (fun t => fn t.key t.item t.args) := by
  unfold futResult runSchedule
  induction sched with
  | nil => simp at hi
  | cons j rest ih =>
    simp only [List.filterMap_cons]
    cases ht : tasks[j]? with
    | none =>
      simp only [Option.map_none]
      by_cases hij : i = j
      · subst hij
        -- not a task: the future does not exist
        simp only [ht, Option.bind_none]
        have : ∀ l : List Nat, (List.filterMap (fun i => Option.map (fun t => (i, fn t.key t.item t.args)) tasks[i]?) l).find? (fun p => p.1 == i) = none := by
          intro l
          rw [List.find?_eq_none]
          intro p hp
          simp only [List.mem_filterMap] at hp
          obtain ⟨k, _, hk⟩ := hp
          cases hk' : tasks[k]? with
          | none => simp [hk'] at hk
          | some t =>
            simp [hk'] at hk; subst hk
            simp only [beq_iff_eq]; intro e; subst e; rw [ht] at hk'; cases hk'
        rw [this]
      · exact ih (by simpa [hij] using hi)
    | some t =>
      simp only [Option.map_some, List.find?_cons]
      by_cases hij : j = i
      · subst hij; simp [ht]
      · have : ((j, fn t.key t.item t.args).1 == i) = false := by simp [hij]
        simp only [this]
        exact ih (by
          rcases List.mem_cons.mp hi with e | h
          · exact absurd e.symm hij
          · exact h)

theorem futResult_not_mem (fn : Fn V) (tasks : List (Call V)) (sched : List Nat) (i : Nat) (hi : i ∉ sched) :
    futResult (runSchedule fn tasks sched) i = none := by
  unfold futResult runSchedule
  have : (List.filterMap (fun i => Option.map (fun t => (i, fn t.key t.item t.args)) tasks[i]?) sched).find? (fun p => p.1 == i) = none := by
    rw [List.find?_eq_none]
    intro p hp
    simp only [List.mem_filterMap] at hp
    obtain ⟨k, hk1, hk⟩ := hp
    cases hk' : tasks[k]? with
    | none => simp [hk'] at hk
    | some t =>
      simp [hk'] at hk; subst hk
      simp only [beq_iff_eq]; intro e; subst e; exact hi hk1
  rw [this]

/-- every completion order that runs each submitted task yields the same `future.result()` for every index -/
theorem futResult_schedule_independent (fn : Fn V) (tasks : List (Call V)) (sched : List Nat)
    (hperm : sched.Perm (List.range tasks.length)) :
    futResult (runSchedule fn tasks sched) = fun i => (tasks[i]?).bind (fun t => fn t.key t.item t.args) := by
  funext i
  by_cases hi : i ∈ sched
  · exact find?_runSchedule fn tasks sched i hi
  · rw [futResult_not_mem fn tasks sched i hi]
    have : ¬ i < tasks.length := by
      intro hlt; exact hi (hperm.mem_iff.mpr (List.mem_range.mpr hlt))
    have : tasks[i]? = none := by simp; omega
    simp [this]


/-- what future number `i` holds once every task ran -/
def resOf (fn : Fn V) (final : List (Call V)) : Nat → Option (Tree V) :=
  fun i => (final[i]?).bind (fun t => fn t.key t.item t.args)

/-! the flat pass does not read `names`; the rebuild does not read `callOnNested` -/
mutual
theorem flatNode_names (o : Opts) (ns : Override (Option (List String))) (fn : Fn V) (pre : Path) :
    ∀ (t : Tree V) (others : List (Tree V)) (acc : List (Call V)),
      flatNode { o with names := ns } fn pre t others acc = flatNode o fn pre t others acc
  | .leaf _, _, _ => by simp [flatNode]
  | .node _ es, others, acc => by simp only [flatNode]; exact flatEntries_names o ns fn pre es others acc
theorem flatEntries_names (o : Opts) (ns : Override (Option (List String))) (fn : Fn V) (pre : Path) :
    ∀ (es : Entries V) (others : List (Tree V)) (acc : List (Call V)),
      flatEntries { o with names := ns } fn pre es others acc = flatEntries o fn pre es others acc
  | .nil, _, _ => by simp [flatEntries]
  | .cons key item rest, others, acc => by
    simp only [flatEntries]
    have h1 : ∀ acc', flatEntries { o with names := ns } fn pre rest others acc' = flatEntries o fn pre rest others acc' :=
      fun acc' => flatEntries_names o ns fn pre rest others acc'
    have h2 : ∀ os', flatNode { { o with names := ns } with callOnNested := false } fn (pre ++ [key]) item os' acc
        = flatNode { o with callOnNested := false } fn (pre ++ [key]) item os' acc :=
      fun os' => flatNode_names { o with callOnNested := false } ns fn (pre ++ [key]) item os' acc
    simp only [h1, h2]
end

theorem startResult_con (o : Opts) (b : Bool) (self : Tree V) (out : Option (Tree V)) :
    startResult { o with callOnNested := b } self out = startResult o self out := by
  unfold startResult; rfl

theorem assemble_con (o : Opts) (b : Bool) (self : Tree V) (m : Meta) (start : Option (Tree V))
    (oc : List (String × Option (Tree V))) :
    assemble { o with callOnNested := b } self m start oc = assemble o self m start oc := by
  unfold assemble makeResult; rfl

mutual
theorem rebuildNode_con (o : Opts) (b : Bool) (res : Nat → Option (Tree V)) :
    ∀ (t : Tree V) (futs : List Fut) (out : Option (Tree V)),
      rebuildNode { o with callOnNested := b } res t futs out = rebuildNode o res t futs out
  | .leaf _, _, _ => by simp [rebuildNode]
  | .node m es, futs, out => by
    simp only [rebuildNode, startResult_con, assemble_con]
    have := fun start => rebuildEntries_con o b res es futs start
    simp only [this]
theorem rebuildEntries_con (o : Opts) (b : Bool) (res : Nat → Option (Tree V)) :
    ∀ (es : Entries V) (futs : List Fut) (out : Option (Tree V)),
      rebuildEntries { o with callOnNested := b } res es futs out = rebuildEntries o res es futs out
  | .nil, _, _ => by simp [rebuildEntries]
  | .cons _ _ _, [], _ => by simp [rebuildEntries]
  | .cons key item rest, f :: fs, out => by
    simp only [rebuildEntries]
    have h1 := rebuildEntries_con o b res rest fs out
    cases f with
    | idx i => simp only [h1]
    | sub l =>
      have h2 := rebuildNode_con { o with names := .noDefault } b res item l (if o.inplace then none else outChild out key)
      simp only [h1]
      rw [show ({ ({ o with callOnNested := b } : Opts) with names := Override.noDefault } : Opts)
            = { ({ o with names := Override.noDefault } : Opts) with callOnNested := b } from rfl, h2]
end

theorem resOf_at (fn : Fn V) (acc : List (Call V)) (c : Call V) (rest : List (Call V)) :
    resOf fn (acc ++ c :: rest) acc.length = fn c.key c.item c.args := by
  simp [resOf]

mutual
theorem flat_rebuild_node (fn : Fn V) : ∀ (t : Tree V) (o : Opts) (pre : Path) (others : List (Tree V))
    (acc acc' : List (Call V)) (futs : List Fut),
    flatNode o fn pre t others acc = .ok (acc', futs) →
    (∃ ts, acc' = acc ++ ts) ∧
    ∀ (suffix : List (Call V)) (out : Option (Tree V)),
      rebuildNode o (resOf fn (acc' ++ suffix)) t futs out = applyNode o fn pre t others out
  | .leaf _, o, pre, others, acc, acc', futs, h => by simp [flatNode] at h
  | .node m es, o, pre, others, acc, acc', futs, h => by
    simp only [flatNode] at h
    obtain ⟨hts, hre⟩ := flat_rebuild_entries fn es o pre others acc acc' futs h
    refine ⟨hts, fun suffix out => ?_⟩
    simp only [rebuildNode, applyNode]
    cases startResult o (Tree.node m es) out with
    | error e => rfl
    | ok start => simp only [hre suffix start]
theorem flat_rebuild_entries (fn : Fn V) : ∀ (es : Entries V) (o : Opts) (pre : Path) (others : List (Tree V))
    (acc acc' : List (Call V)) (futs : List Fut),
    flatEntries o fn pre es others acc = .ok (acc', futs) →
    (∃ ts, acc' = acc ++ ts) ∧
    ∀ (suffix : List (Call V)) (out : Option (Tree V)),
      rebuildEntries o (resOf fn (acc' ++ suffix)) es futs out = applyEntries o fn pre es others out
  | .nil, o, pre, others, acc, acc', futs, h => by
    simp only [flatEntries] at h
    injection h with h; injection h with h1 h2; subst h1; subst h2
    exact ⟨⟨[], by simp⟩, fun suffix out => by simp [rebuildEntries, applyEntries]⟩
  | .cons key item rest, o, pre, others, acc, acc', futs, h => by
    simp only [flatEntries] at h
    by_cases hc : (!o.callOnNested && !isLeafFor o.nodeAsLeaf item) = true
    · -- nested tensordict: recursive flat pass
      simp only [hc, ↓reduceIte] at h
      cases hn : nestedOthers o.hasDefault item key others with
      | error e => simp [hn] at h
      | ok os' =>
        simp only [hn] at h
        cases hf : flatNode { o with callOnNested := false } fn (pre ++ [key]) item os' acc with
        | error e => simp [hf] at h
        | ok p1 =>
          obtain ⟨acc1, l⟩ := p1
          simp only [hf] at h
          cases hr : flatEntries o fn pre rest others acc1 with
          | error e => simp [hr] at h
          | ok p2 =>
            obtain ⟨acc2, fs⟩ := p2
            simp only [hr] at h
            injection h with h; injection h with h1 h2; subst h1; subst h2
            -- the sequential recursion uses o_s; flat ignores names, rebuild ignores callOnNested
            have hf' : flatNode { o with names := .noDefault, callOnNested := false } fn (pre ++ [key]) item os' acc
                = .ok (acc1, l) := by
              have := flatNode_names { o with callOnNested := false } .noDefault fn (pre ++ [key]) item os' acc
              rw [← hf, ← this]
            obtain ⟨⟨ts1, e1⟩, ih1⟩ := flat_rebuild_node fn item _ (pre ++ [key]) os' acc acc1 l hf'
            obtain ⟨⟨ts2, e2⟩, ih2⟩ := flat_rebuild_entries fn rest o pre others acc1 acc2 fs hr
            refine ⟨⟨ts1 ++ ts2, by rw [e2, e1, List.append_assoc]⟩, fun suffix out => ?_⟩
            simp only [rebuildEntries, applyEntries, hc, ↓reduceIte, hn]
            have hnode : rebuildNode { o with names := .noDefault } (resOf fn (acc2 ++ suffix)) item l
                  (if o.inplace then none else outChild out key)
                = applyNode { o with names := .noDefault, callOnNested := false } fn (pre ++ [key]) item os'
                  (if o.inplace then none else outChild out key) := by
              have hcon := rebuildNode_con { o with names := .noDefault } false (resOf fn (acc2 ++ suffix)) item l
                (if o.inplace then none else outChild out key)
              rw [← hcon, e2, List.append_assoc]
              exact ih1 (ts2 ++ suffix) _
            rw [hnode, ih2 suffix out]
    · -- leaf (or first-level entry when call_on_nested): one submitted call
      simp only [hc, Bool.false_eq_true, ↓reduceIte] at h
      cases ha : leafArgs o.hasDefault key others with
      | error e => simp [ha] at h
      | ok args =>
        simp only [ha] at h
        cases hr : flatEntries o fn pre rest others (acc ++ [⟨fnKey o.named o.nestedKeys pre key, item, args⟩]) with
        | error e => simp [hr] at h
        | ok p2 =>
          obtain ⟨acc2, fs⟩ := p2
          simp only [hr] at h
          injection h with h; injection h with h1 h2; subst h1; subst h2
          obtain ⟨⟨ts2, e2⟩, ih2⟩ := flat_rebuild_entries fn rest o pre others _ acc2 fs hr
          refine ⟨⟨(⟨fnKey o.named o.nestedKeys pre key, item, args⟩ : Call V) :: ts2, by rw [e2]; simp⟩, fun suffix out => ?_⟩
          simp only [rebuildEntries, applyEntries, hc, Bool.false_eq_true, ↓reduceIte, ha]
          have hres : resOf fn (acc2 ++ suffix) acc.length = fn (fnKey o.named o.nestedKeys pre key) item args := by
            rw [e2]; simp only [List.append_assoc, List.singleton_append]
            exact resOf_at fn acc _ _
          rw [hres, ih2 suffix out]
end

mutual
theorem flat_error_node (fn : Fn V) : ∀ (t : Tree V) (o : Opts) (pre : Path) (others : List (Tree V))
    (acc : List (Call V)) (e : Err) (out : Option (Tree V)),
    flatNode o fn pre t others acc = .error e → ∃ e', applyNode o fn pre t others out = .error e'
  | .leaf _, o, pre, others, acc, e, out, _ => ⟨.attr, by simp [applyNode]⟩
  | .node m es, o, pre, others, acc, e, out, h => by
    simp only [flatNode] at h
    simp only [applyNode]
    cases hs : startResult o (Tree.node m es) out with
    | error e' => exact ⟨e', rfl⟩
    | ok start =>
      obtain ⟨e', he'⟩ := flat_error_entries fn es o pre others acc e start h
      exact ⟨e', by simp [he']⟩
theorem flat_error_entries (fn : Fn V) : ∀ (es : Entries V) (o : Opts) (pre : Path) (others : List (Tree V))
    (acc : List (Call V)) (e : Err) (out : Option (Tree V)),
    flatEntries o fn pre es others acc = .error e → ∃ e', applyEntries o fn pre es others out = .error e'
  | .nil, o, pre, others, acc, e, out, h => by simp [flatEntries] at h
  | .cons key item rest, o, pre, others, acc, e, out, h => by
    simp only [flatEntries] at h
    simp only [applyEntries]
    by_cases hc : (!o.callOnNested && !isLeafFor o.nodeAsLeaf item) = true
    · simp only [hc, ↓reduceIte] at h ⊢
      cases hn : nestedOthers o.hasDefault item key others with
      | error e1 => exact ⟨e1, rfl⟩
      | ok os' =>
        simp only [hn] at h ⊢
        cases hf : flatNode { o with callOnNested := false } fn (pre ++ [key]) item os' acc with
        | error e1 =>
          have hf' : flatNode { o with names := .noDefault, callOnNested := false } fn (pre ++ [key]) item os' acc
              = .error e1 := by
            have := flatNode_names { o with callOnNested := false } .noDefault fn (pre ++ [key]) item os' acc
            rw [← hf, ← this]
          obtain ⟨e', he'⟩ := flat_error_node fn item _ (pre ++ [key]) os' acc e1
            (if o.inplace then none else outChild out key) hf'
          exact ⟨e', by simp [he']⟩
        | ok p1 =>
          obtain ⟨acc1, l⟩ := p1
          simp only [hf] at h
          cases hr : flatEntries o fn pre rest others acc1 with
          | ok p2 => obtain ⟨a, b⟩ := p2; simp [hr] at h
          | error e2 =>
            obtain ⟨e', he'⟩ := flat_error_entries fn rest o pre others acc1 e2 out hr
            cases applyNode { o with names := .noDefault, callOnNested := false } fn (pre ++ [key]) item os'
                (if o.inplace then none else outChild out key) with
            | error e3 => exact ⟨e3, rfl⟩
            | ok r => exact ⟨e', by simp [he']⟩
    · simp only [hc, Bool.false_eq_true, ↓reduceIte] at h ⊢
      cases ha : leafArgs o.hasDefault key others with
      | error e1 => exact ⟨e1, rfl⟩
      | ok args =>
        simp only [ha] at h ⊢
        cases hr : flatEntries o fn pre rest others (acc ++ [⟨fnKey o.named o.nestedKeys pre key, item, args⟩]) with
        | ok p2 => obtain ⟨a, b⟩ := p2; simp [hr] at h
        | error e2 =>
          obtain ⟨e', he'⟩ := flat_error_entries fn rest o pre others _ e2 out hr
          exact ⟨e', by simp [he']⟩
end

/-! ### dict lemmas -/

def Entries.toList : Entries V → List (String × Tree V)
  | .nil => []
  | .cons k t rest => (k, t) :: Entries.toList rest

theorem keys_eq_toList : ∀ (es : Entries V), es.keys = (Entries.toList es).map (·.1)
  | .nil => rfl
  | .cons k t rest => by simp [Entries.keys, Entries.toList, keys_eq_toList rest]

theorem get?_eq_none_iff : ∀ (es : Entries V) (key : String), es.get? key = none ↔ key ∉ es.keys
  | .nil, key => by simp [Entries.get?, Entries.keys]
  | .cons k t rest, key => by
    have ih := get?_eq_none_iff rest key
    simp only [Entries.get?, Entries.keys, List.mem_cons, not_or]
    by_cases h : k = key
    · simp [h]
    · simp only [h, ↓reduceIte, ih]
      exact ⟨fun hh => ⟨fun e => h e.symm, hh⟩, fun hh => hh.2⟩

theorem get?_mem_toList : ∀ (es : Entries V) (key : String) (t : Tree V), es.get? key = some t →
    (key, t) ∈ Entries.toList es
  | .nil, key, t, h => by simp [Entries.get?] at h
  | .cons k t' rest, key, t, h => by
    simp only [Entries.get?] at h
    by_cases hk : k = key
    · simp [hk] at h; subst h; subst hk; simp [Entries.toList]
    · simp [hk] at h; simp [Entries.toList, get?_mem_toList rest key t h]

theorem get?_of_mem_toList : ∀ (es : Entries V), es.keys.Nodup → ∀ (key : String) (t : Tree V),
    (key, t) ∈ Entries.toList es → es.get? key = some t
  | .nil, _, key, t, h => by simp [Entries.toList] at h
  | .cons k t' rest, hnd, key, t, h => by
    simp only [Entries.keys, List.nodup_cons] at hnd
    simp only [Entries.toList, List.mem_cons] at h
    simp only [Entries.get?]
    rcases h with e | hm
    · injection e with e1 e2; subst e1; subst e2; simp
    · have hk : k ≠ key := by
        intro e; subst e
        apply hnd.1
        rw [keys_eq_toList]; exact List.mem_map.mpr ⟨(k, t), hm, rfl⟩
      simp [hk, get?_of_mem_toList rest hnd.2 key t hm]

/-- permuting the insertion order of an operand does not change what `_get_str` returns -/
theorem get?_perm (es es' : Entries V) (hp : (Entries.toList es').Perm (Entries.toList es)) (hnd : es.keys.Nodup)
    (key : String) : es'.get? key = es.get? key := by
  have hnd' : es'.keys.Nodup := by
    rw [keys_eq_toList] at hnd ⊢
    exact (hp.map _).nodup_iff.mpr hnd
  cases h : es.get? key with
  | none =>
    rw [get?_eq_none_iff] at h ⊢
    rw [keys_eq_toList] at h ⊢
    exact fun hm => h ((hp.map _).mem_iff.mp hm)
  | some t =>
    exact get?_of_mem_toList es' hnd' key t (hp.mem_iff.mpr (get?_mem_toList es key t h))


theorem get?_set_same : ∀ (es : Entries V) (key : String) (v : Tree V), (es.set key v).get? key = some v
  | .nil, key, v => by simp [Entries.set, Entries.get?]
  | .cons k t rest, key, v => by
    simp only [Entries.set]
    by_cases h : k = key
    · simp [h, Entries.get?]
    · simp [h, Entries.get?, get?_set_same rest key v]

theorem get?_set_other : ∀ (es : Entries V) (key key' : String) (v : Tree V), key' ≠ key →
    (es.set key v).get? key' = es.get? key'
  | .nil, key, key', v, hne => by simp [Entries.set, Entries.get?, hne.symm]
  | .cons k t rest, key, key', v, hne => by
    simp only [Entries.set]
    by_cases h : k = key
    · subst h; simp [Entries.get?, hne.symm]
    · simp only [h, ↓reduceIte, Entries.get?, get?_set_other rest key key' v hne]

theorem keys_set_mem : ∀ (es : Entries V) (key : String) (v : Tree V), key ∈ es.keys →
    (es.set key v).keys = es.keys
  | .nil, key, v, h => by simp [Entries.keys] at h
  | .cons k t rest, key, v, h => by
    simp only [Entries.set]
    by_cases hk : k = key
    · simp [hk, Entries.keys]
    · simp only [hk, ↓reduceIte, Entries.keys]
      simp only [Entries.keys, List.mem_cons] at h
      rcases h with e | hm
      · exact absurd e.symm hk
      · rw [keys_set_mem rest key v hm]

/-! ### operands are looked up by key -/

/-- the operand handed to the function for `key`: the operand's entry, or the default -/
def argOf (ot : Tree V) (key : String) : Arg V :=
  match ot with
  | .node _ es => (match es.get? key with | some x => .present x | none => .dflt)
  | .leaf _ => .dflt

theorem leafArgs_ok (d : Bool) (key : String) (others : List (Tree V)) (args : List (Arg V))
    (h : leafArgs d key others = .ok args) :
    args = others.map (fun ot => argOf ot key) ∧
    ∀ ot ∈ others, ∃ m es, ot = .node m es ∧ (d = true ∨ (es.get? key).isSome) := by
  induction others generalizing args with
  | nil => simp [leafArgs] at h; subst h; simp
  | cons ot rest ih =>
    simp only [leafArgs] at h
    cases ot with
    | leaf v => simp [operandGet] at h
    | node m es =>
      simp only [operandGet] at h
      cases hg : es.get? key with
      | some x =>
        simp only [hg] at h
        cases hr : leafArgs d key rest with
        | error e => simp [hr] at h
        | ok xs =>
          simp only [hr] at h; injection h with h; subst h
          obtain ⟨e1, e2⟩ := ih xs hr
          refine ⟨by simp [argOf, hg, e1], ?_⟩
          intro ot hot
          rcases List.mem_cons.mp hot with e | hm
          · exact ⟨m, es, e, Or.inr (by simp [hg])⟩
          · exact e2 ot hm
      | none =>
        simp only [hg] at h
        cases d with
        | false => simp at h
        | true =>
          simp only [↓reduceIte] at h
          cases hr : leafArgs true key rest with
          | error e => simp [hr] at h
          | ok xs =>
            simp only [hr] at h; injection h with h; subst h
            obtain ⟨e1, e2⟩ := ih xs hr
            refine ⟨by simp [argOf, hg, e1], ?_⟩
            intro ot hot
            rcases List.mem_cons.mp hot with e | hm
            · exact ⟨m, es, e, Or.inl rfl⟩
            · exact e2 ot hm

/-! ### the loop over self's entries -/

theorem applyEntries_keys (o : Opts) (fn : Fn V) (pre : Path) : ∀ (es : Entries V) (others : List (Tree V))
    (out : Option (Tree V)) (oc : List (String × Option (Tree V))),
    applyEntries o fn pre es others out = .ok oc → oc.map (·.1) = es.keys
  | .nil, _, _, oc, h => by simp [applyEntries] at h; subst h; rfl
  | .cons key item rest, others, out, oc, h => by
    simp only [applyEntries] at h
    split at h
    · cases h
    · rename_i r hr
      cases hrest : applyEntries o fn pre rest others out with
      | error e => simp [hrest] at h
      | ok rs =>
        simp only [hrest] at h; injection h with h; subst h
        simp [Entries.keys, applyEntries_keys o fn pre rest others out rs hrest]

theorem moveToDevice_leaf (d : Option String) (v : V) : moveToDevice d (Tree.leaf v) = Tree.leaf v := by
  cases d <;> rfl

theorem reconcileNames_spec (rm rm' : Meta) (t t' : Tree V) (h : reconcileNames rm t = .ok (rm', t')) :
    rm'.batch = rm.batch ∧ rm'.device = rm.device ∧ rm'.locked = rm.locked ∧
    (∀ v, t = .leaf v → rm' = rm ∧ t' = t) ∧ (t' = t ∨ ∃ ns, t' = Tree.renameAll ns t) := by
  unfold reconcileNames at h
  cases t with
  | leaf v => simp at h; obtain ⟨e1, e2⟩ := h; subst e1; subst e2; simp
  | node tm tes =>
    simp only at h
    split at h
    · injection h with h; injection h with e1 e2; subst e1; subst e2; simp
    · split at h
      · split at h
        · injection h with h; injection h with e1 e2; subst e1; subst e2; simp
        · split at h
          · injection h with h; injection h with e1 e2; subst e1; subst e2
            exact ⟨rfl, rfl, rfl, by simp, Or.inr ⟨_, rfl⟩⟩
          · cases h
      · split at h
        · injection h with h; injection h with e1 e2; subst e1; subst e2; simp
        · injection h with h; injection h with e1 e2; subst e1; subst e2; simp

theorem validateValue_spec (checked : Bool) (rm rm' : Meta) (t t' : Tree V)
    (h : validateValue checked rm t = .ok (rm', t')) :
    rm'.batch = rm.batch ∧ rm'.device = rm.device ∧ rm'.locked = rm.locked ∧
    (checked = true → rm' = rm ∧ t' = t) ∧ (∀ v, t = .leaf v → rm' = rm ∧ t' = t) := by
  unfold validateValue at h
  cases checked with
  | true => simp at h; obtain ⟨e1, e2⟩ := h; subst e1; subst e2; simp
  | false =>
    simp only [Bool.false_eq_true, ↓reduceIte] at h
    obtain ⟨h1, h2, h3, h4, _⟩ := reconcileNames_spec rm rm' _ t' h
    refine ⟨h1, h2, h3, by simp, fun v hv => ?_⟩
    subst hv
    rw [moveToDevice_leaf] at h4
    exact h4 v rfl

/-- writing outcomes never changes batch size, device or lock flag of the container; with `checked` it does not
touch the names either -/
theorem writeOutcomes_meta (checked : Bool) (fresh : Tree V) :
    ∀ (oc : List (String × Option (Tree V))) (m : Meta) (es : Entries V) (r : Option (Tree V)),
      writeOutcomes checked fresh (some (.node m es)) oc = .ok r →
      ∃ m' es', r = some (.node m' es') ∧ m'.batch = m.batch ∧ m'.device = m.device ∧ m'.locked = m.locked ∧
        (checked = true → m'.names = m.names)
  | [], m, es, r, h => by
    simp [writeOutcomes] at h; subst h; exact ⟨m, es, rfl, rfl, rfl, rfl, fun _ => rfl⟩
  | (k, none) :: rest, m, es, r, h => by
    simp only [writeOutcomes] at h
    exact writeOutcomes_meta checked fresh rest m es r h
  | (k, some t) :: rest, m, es, r, h => by
    simp only [writeOutcomes, Option.getD_some] at h
    cases hv : validateValue checked m t with
    | error e => simp [hv] at h
    | ok p =>
      obtain ⟨m1, t1⟩ := p
      simp only [hv] at h
      obtain ⟨hb, hd, hl, hc, _⟩ := validateValue_spec checked m m1 t t1 hv
      obtain ⟨m', es', e, hb', hd', hl', hc'⟩ := writeOutcomes_meta checked fresh rest m1 _ r h
      refine ⟨m', es', e, by rw [hb', hb], by rw [hd', hd], by rw [hl', hl], fun hck => ?_⟩
      rw [hc' hck, (hc hck).1]

/-- the entry bound by an outcome: the value when the function returned one, else what was there -/
def pickOutcome (x : Option (Option (Tree V))) (old : Option (Tree V)) : Option (Tree V) :=
  match x with
  | some (some t) => some t
  | _ => old

@[simp] theorem pickOutcome_none (old : Option (Tree V)) : pickOutcome none old = old := rfl
@[simp] theorem pickOutcome_some_none (old : Option (Tree V)) : pickOutcome (some none) old = old := rfl
@[simp] theorem pickOutcome_some_some (t : Tree V) (old : Option (Tree V)) : pickOutcome (some (some t)) old = some t := rfl

/-- entries written with `checked` (no `_validate_value`): exactly the non-`None` outcomes are (re)bound, every
other entry of the container is what it was -/
theorem writeOutcomes_get (fresh : Tree V) :
    ∀ (oc : List (String × Option (Tree V))) (m : Meta) (es : Entries V) (r : Option (Tree V)),
      (oc.map (·.1)).Nodup → writeOutcomes true fresh (some (.node m es)) oc = .ok r →
      ∃ es', r = some (.node m es') ∧
        ∀ k, es'.get? k = pickOutcome (List.lookup k oc) (es.get? k)
  | [], m, es, r, _, h => by
    simp [writeOutcomes] at h; subst h; exact ⟨es, rfl, fun k => by simp [List.lookup]⟩
  | (k0, none) :: rest, m, es, r, hnd, h => by
    simp only [writeOutcomes] at h
    simp only [List.map_cons, List.nodup_cons] at hnd
    obtain ⟨es', e, hg⟩ := writeOutcomes_get fresh rest m es r hnd.2 h
    refine ⟨es', e, fun k => ?_⟩
    rw [hg k]
    by_cases hk : k = k0
    · subst hk
      have : List.lookup k rest = none := by
        rw [List.lookup_eq_none_iff]; intro p hp
        simp only [bne_iff_ne, ne_eq]
        intro e
        exact hnd.1 (List.mem_map.mpr ⟨p, hp, e.symm⟩)
      simp [List.lookup, this]
    · have : (k == k0) = false := by simp [hk]
      simp [List.lookup, this]
  | (k0, some t) :: rest, m, es, r, hnd, h => by
    simp only [writeOutcomes, Option.getD_some, validateValue, ↓reduceIte] at h
    simp only [List.map_cons, List.nodup_cons] at hnd
    obtain ⟨es', e, hg⟩ := writeOutcomes_get fresh rest m (es.set k0 t) r hnd.2 h
    refine ⟨es', e, fun k => ?_⟩
    rw [hg k]
    by_cases hk : k = k0
    · subst hk
      have : List.lookup k rest = none := by
        rw [List.lookup_eq_none_iff]; intro p hp
        simp only [bne_iff_ne, ne_eq]
        intro e
        exact hnd.1 (List.mem_map.mpr ⟨p, hp, e.symm⟩)
      simp [List.lookup, this, get?_set_same]
    · have : (k == k0) = false := by simp [hk]
      simp only [List.lookup, this]
      rw [get?_set_other es k0 k t hk]

theorem writeOutcomes_start_none (checked : Bool) (fresh : Tree V) :
    ∀ (oc : List (String × Option (Tree V))) (r0 : Option (Tree V)),
      writeOutcomes checked fresh none oc = .ok r0 →
      (r0 = none ∧ ∀ p ∈ oc, p.2 = none) ∨ writeOutcomes checked fresh (some fresh) oc = .ok r0
  | [], r0, h => by simp [writeOutcomes] at h; exact Or.inl ⟨h.symm, by simp⟩
  | (k, none) :: rest, r0, h => by
    simp only [writeOutcomes] at h ⊢
    rcases writeOutcomes_start_none checked fresh rest r0 h with ⟨e, hall⟩ | h'
    · refine Or.inl ⟨e, ?_⟩
      intro p hp
      rcases List.mem_cons.mp hp with e' | hp'
      · subst e'; rfl
      · exact hall p hp'
    · exact Or.inr h'
  | (k, some t) :: rest, r0, h => by
    right; simp only [writeOutcomes, Option.getD_none, Option.getD_some] at h ⊢; exact h

theorem lookup_none_of_all_none : ∀ (oc : List (String × Option (Tree V))), (∀ p ∈ oc, p.2 = none) → ∀ (k : String),
    pickOutcome (List.lookup k oc) ((none : Option (Tree V))) = none
  | [], _, k => by simp [List.lookup]
  | (k0, x) :: rest, hall, k => by
    have hx : x = none := hall (k0, x) List.mem_cons_self
    subst hx
    simp only [List.lookup]
    cases hk : (k == k0) with
    | true => rfl
    | false => exact lookup_none_of_all_none rest (fun p hp => hall p (List.mem_cons_of_mem _ hp)) k

theorem lookup_none_of_not_key (oc : List (String × Option (Tree V))) (k : String) (h : k ∉ oc.map (·.1)) :
    List.lookup k oc = none := by
  rw [List.lookup_eq_none_iff]; intro p hp
  simp only [bne_iff_ne, ne_eq]
  intro e; exact h (List.mem_map.mpr ⟨p, hp, e.symm⟩)

theorem startResult_out_ok (o : Opts) (self : Tree V) (mo : Meta) (eo : Entries V) (st : Option (Tree V))
    (hin : o.inplace = false) (hs : startResult o self (some (.node mo eo)) = .ok st) :
    ∃ ms es0, st = some (.node ms es0) ∧ mo.locked = false ∧ ms.batch = mo.batch ∧ ms.names = mo.names := by
  simp only [startResult, hin, Bool.false_eq_true, ↓reduceIte] at hs
  by_cases hl : mo.locked = true
  · simp [hl] at hs
  · simp only [hl, Bool.false_eq_true, ↓reduceIte] at hs
    have hl' : mo.locked = false := by simpa using hl
    by_cases hb : bsMismatch o.batchSize mo.batch = true
    · simp [hb] at hs
    · simp only [hb, Bool.false_eq_true, ↓reduceIte] at hs
      cases hd : o.device with
      | noDefault =>
        simp only [hd] at hs; injection hs with hs
        exact ⟨mo, eo, hs.symm, hl', rfl, rfl⟩
      | given d =>
        simp only [hd] at hs
        by_cases hdd : d = mo.device
        · simp only [hdd, ↓reduceIte] at hs; injection hs with hs
          exact ⟨mo, eo, hs.symm, hl', rfl, rfl⟩
        · simp only [hdd, ↓reduceIte] at hs
          by_cases hc : (!o.checked) = true
          · simp [hc] at hs
          · simp only [hc, Bool.false_eq_true, ↓reduceIte] at hs; injection hs with hs
            exact ⟨{ mo with device := d }, Entries.setDevice d eo, hs.symm, hl', rfl, rfl⟩

/-! ### others are matched by key, not by position -/

/-- the same tensordict with its first-level entries inserted in another order -/
def PermTop (ot' ot : Tree V) : Prop :=
  ∃ m eo eo', ot = .node m eo ∧ ot' = .node m eo' ∧ (Entries.toList eo').Perm (Entries.toList eo) ∧ eo.keys.Nodup

/-- operand lists related entry-wise by `PermTop` -/
inductive AllPermTop : List (Tree V) → List (Tree V) → Prop where
  | nil : AllPermTop [] []
  | cons {a b : Tree V} {as bs : List (Tree V)} : PermTop a b → AllPermTop as bs → AllPermTop (a :: as) (b :: bs)

theorem operandGet_permTop (ot' ot : Tree V) (h : PermTop ot' ot) (key : String) :
    operandGet ot' key = operandGet ot key := by
  obtain ⟨m, eo, eo', e1, e2, hp, hnd⟩ := h
  subst e1; subst e2
  simp [operandGet, get?_perm eo eo' hp hnd key]

theorem leafArgs_permTop (d : Bool) (key : String) (others' others : List (Tree V))
    (h : AllPermTop others' others) : leafArgs d key others' = leafArgs d key others := by
  induction h with
  | nil => rfl
  | cons h1 _ ih => simp only [leafArgs, operandGet_permTop _ _ h1 key, ih]

theorem nestedOthers_permTop (d : Bool) (item : Tree V) (key : String) (others' others : List (Tree V))
    (h : AllPermTop others' others) : nestedOthers d item key others' = nestedOthers d item key others := by
  induction h with
  | nil => rfl
  | cons h1 _ ih => simp only [nestedOthers, operandGet_permTop _ _ h1 key, ih]

/-! ### nested keys (paths) -/

/-- the sub-tree under a nested key -/
def Tree.sub : Tree V → Path → Option (Tree V)
  | t, [] => some t
  | .leaf _, _ :: _ => none
  | .node _ es, k :: p => match es.get? k with
    | some t => Tree.sub t p
    | none => none

/-- the operand handed to the function for the leaf at nested key `p`: the operand's entry under the same nested
key; the default as soon as the operand lacks a key on the way -/
def argAtPath : Path → Tree V → Arg V
  | [], _ => .dflt
  | [k], ot => argOf ot k
  | k :: k' :: p, ot =>
    match ot with
    | .node _ es => (match es.get? k with | some x => argAtPath (k' :: p) x | none => .dflt)
    | .leaf _ => .dflt

mutual
/-- unique keys at every level (a Python dict) -/
def Tree.wf : Tree V → Bool
  | .leaf _ => true
  | .node _ es => decide es.keys.Nodup && Entries.wf es
def Entries.wf : Entries V → Bool
  | .nil => true
  | .cons _ t rest => Tree.wf t && Entries.wf rest
end

theorem wf_get? : ∀ (es : Entries V) (k : String) (t : Tree V), Entries.wf es = true → es.get? k = some t → Tree.wf t = true
  | .nil, k, t, _, h => by simp [Entries.get?] at h
  | .cons k0 t0 rest, k, t, hw, h => by
    simp only [Entries.wf, Bool.and_eq_true] at hw
    simp only [Entries.get?] at h
    by_cases hk : k0 = k
    · simp [hk] at h; subst h; exact hw.1
    · simp [hk] at h; exact wf_get? rest k t hw.2 h

theorem sub_leaf_nonempty (v : V) (q : Path) (t : Tree V) (h : Tree.sub (.leaf v) q = some t) : q = [] := by
  cases q with
  | nil => rfl
  | cons a b => simp [Tree.sub] at h

mutual
theorem emptyRec_get?_node : ∀ (es : Entries V) (k : String) (m : Meta) (e2 : Entries V),
    es.get? k = some (.node m e2) → (Entries.emptyRec es).get? k = some (.node m (Entries.emptyRec e2))
  | .nil, k, m, e2, h => by simp [Entries.get?] at h
  | .cons k0 (.leaf v) rest, k, m, e2, h => by
    simp only [Entries.get?] at h
    by_cases hk : k0 = k
    · simp [hk] at h
    · simp only [hk, ↓reduceIte] at h
      simp only [Entries.emptyRec]
      exact emptyRec_get?_node rest k m e2 h
  | .cons k0 (.node m0 e0) rest, k, m, e2, h => by
    simp only [Entries.get?] at h
    simp only [Entries.emptyRec, Entries.get?]
    by_cases hk : k0 = k
    · simp only [hk, ↓reduceIte] at h ⊢
      injection h with h; injection h with h1 h2; subst h1; subst h2; rfl
    · simp only [hk, ↓reduceIte] at h ⊢
      exact emptyRec_get?_node rest k m e2 h
end

theorem emptyRec_get?_leaf : ∀ (es : Entries V) (k : String) (v : V),
    es.keys.Nodup → es.get? k = some (.leaf v) → (Entries.emptyRec es).get? k = none
  | .nil, k, v, _, h => by simp [Entries.get?] at h
  | .cons k0 (.leaf w) rest, k, v, hnd, h => by
    simp only [Entries.keys, List.nodup_cons] at hnd
    simp only [Entries.get?] at h
    simp only [Entries.emptyRec]
    by_cases hk : k0 = k
    · subst hk
      -- the key is not in the rest, hence not in its emptied version either
      have hnone : rest.get? k0 = none := (get?_eq_none_iff rest k0).mpr hnd.1
      cases hh : (Entries.emptyRec rest).get? k0 with
      | none => rfl
      | some t =>
        exfalso
        -- an entry of emptyRec comes from an entry of rest
        have aux : ∀ (es : Entries V) (k : String) (t : Tree V), (Entries.emptyRec es).get? k = some t → (es.get? k).isSome := by
          intro es
          induction es using Entries.rec (motive_1 := fun _ => True) with
          | leaf _ => trivial
          | node _ _ _ => trivial
          | nil => intro k t h; simp [Entries.emptyRec, Entries.get?] at h
          | cons k1 t1 r1 _ ih =>
            intro k t h
            cases t1 with
            | leaf w1 =>
              simp only [Entries.emptyRec] at h
              simp only [Entries.get?]
              by_cases hk1 : k1 = k
              · simp [hk1]
              · simp only [hk1, ↓reduceIte]; exact ih k t h
            | node m1 e1 =>
              simp only [Entries.emptyRec, Entries.get?] at h ⊢
              by_cases hk1 : k1 = k
              · simp [hk1]
              · simp only [hk1, ↓reduceIte] at h ⊢; exact ih k t h
        have h2 := aux rest k0 t hh
        rw [hnone] at h2
        cases h2
    · simp only [hk, ↓reduceIte] at h
      exact emptyRec_get?_leaf rest k v hnd.2 h
  | .cons k0 (.node m0 e0) rest, k, v, hnd, h => by
    simp only [Entries.keys, List.nodup_cons] at hnd
    simp only [Entries.get?] at h
    simp only [Entries.emptyRec, Entries.get?]
    by_cases hk : k0 = k
    · simp [hk] at h
    · simp only [hk, ↓reduceIte] at h ⊢
      exact emptyRec_get?_leaf rest k v hnd.2 h

theorem argAtPath_emptyRec : ∀ (q : Path) (m : Meta) (es : Entries V) (v : V), q ≠ [] →
    Tree.wf (.node m es) = true → Tree.sub (.node m es) q = some (.leaf v) →
    argAtPath q (Tree.emptyRec (.node m es)) = .dflt
  | [], _, _, _, hq, _, _ => absurd rfl hq
  | [k], m, es, v, _, hw, hs => by
    simp only [Tree.wf, Bool.and_eq_true, decide_eq_true_eq] at hw
    simp only [Tree.sub] at hs
    cases hg : es.get? k with
    | none => simp [hg] at hs
    | some t =>
      simp only [hg, Tree.sub] at hs; injection hs with hs; subst hs
      simp [argAtPath, argOf, Tree.emptyRec, emptyRec_get?_leaf es k v hw.1 hg]
  | k :: k' :: p, m, es, v, _, hw, hs => by
    simp only [Tree.wf, Bool.and_eq_true, decide_eq_true_eq] at hw
    simp only [Tree.sub] at hs
    cases hg : es.get? k with
    | none => simp [hg] at hs
    | some t =>
      simp only [hg] at hs
      cases t with
      | leaf w => simp [Tree.sub] at hs
      | node m2 e2 =>
        have hw2 := wf_get? es k _ hw.2 hg
        have ih := argAtPath_emptyRec (k' :: p) m2 e2 v (by simp) hw2 hs
        simp only [argAtPath, Tree.emptyRec, emptyRec_get?_node es k m2 e2 hg]
        simpa [Tree.emptyRec] using ih

/-- the operands of a nested call see, under the rest of the path, what the original operands see under the whole
path -/
theorem nestedOthers_argAtPath (d : Bool) (item : Tree V) (k k' : String) (p : Path)
    (hempty : argAtPath (k' :: p) item.emptyRec = .dflt) :
    ∀ (others os' : List (Tree V)), nestedOthers d item k others = .ok os' →
      os'.map (argAtPath (k' :: p)) = others.map (argAtPath (k :: k' :: p))
  | [], os', h => by simp [nestedOthers] at h; subst h; rfl
  | ot :: rest, os', h => by
    simp only [nestedOthers] at h
    cases ot with
    | leaf w => simp [operandGet] at h
    | node mo eo =>
      simp only [operandGet] at h
      cases hg : eo.get? k with
      | some x =>
        simp only [hg] at h
        cases hr : nestedOthers d item k rest with
        | error e => simp [hr] at h
        | ok xs =>
          simp only [hr] at h; injection h with h; subst h
          simp [argAtPath, hg, nestedOthers_argAtPath d item k k' p hempty rest xs hr]
      | none =>
        simp only [hg] at h
        cases d with
        | false => simp at h
        | true =>
          simp only [↓reduceIte] at h
          cases hr : nestedOthers true item k rest with
          | error e => simp [hr] at h
          | ok xs =>
            simp only [hr] at h; injection h with h; subst h
            simp [argAtPath, hg, hempty, nestedOthers_argAtPath true item k k' p hempty rest xs hr]

theorem anySet_false_lookup : ∀ (oc : List (String × Option (Tree V))), anySet oc = false →
    ∀ k x, List.lookup k oc = some x → x = none
  | [], _, k, x, h => by simp [List.lookup] at h
  | (k0, none) :: rest, hs, k, x, h => by
    simp only [anySet] at hs
    simp only [List.lookup] at h
    cases hk : (k == k0) with
    | true => simp [hk] at h; exact h.symm
    | false => simp only [hk] at h; exact anySet_false_lookup rest hs k x h
  | (k0, some t) :: rest, hs, _, _, _ => by simp [anySet] at hs

/-- a `None` result of `_apply_nest` (fresh target): nothing was set -/
theorem applyNode_none (o : Opts) (fn : Fn V) (pre : Path) (m : Meta) (es : Entries V) (others : List (Tree V))
    (hin : o.inplace = false) (h : applyNode o fn pre (.node m es) others none = .ok none) :
    ∃ oc, applyEntries o fn pre es others none = .ok oc ∧ anySet oc = false := by
  have hs : startResult o (.node m es) none = .ok none := by simp [startResult, hin]
  simp only [applyNode, hs] at h
  cases he : applyEntries o fn pre es others none with
  | error e => simp [he] at h
  | ok oc =>
    refine ⟨oc, rfl, ?_⟩
    simp only [he, assemble] at h
    cases hw : writeOutcomes o.checked (makeResult o m) none oc with
    | error e => simp [hw] at h
    | ok r0 =>
      simp only [hw] at h
      cases hset : anySet oc with
      | false => rfl
      | true => simp [hset] at h


/-! ### same leaves up to node metadata -/

/-- the leaf stored under a nested key, if any -/
def Tree.leafAt (t : Tree V) (p : Path) : Option V :=
  match Tree.sub t p with
  | some (.leaf v) => some v
  | _ => none

/-- two optional trees hold the same leaves under every nested key (they may differ in node metadata) -/
def LeafEq (a b : Option (Tree V)) : Prop := ∀ p, a.bind (fun t => Tree.leafAt t p) = b.bind (fun t => Tree.leafAt t p)

theorem LeafEq.refl (a : Option (Tree V)) : LeafEq a a := fun _ => rfl
theorem LeafEq.trans {a b c : Option (Tree V)} (h1 : LeafEq a b) (h2 : LeafEq b c) : LeafEq a c :=
  fun p => (h1 p).trans (h2 p)
theorem LeafEq.symm {a b : Option (Tree V)} (h : LeafEq a b) : LeafEq b a := fun p => (h p).symm

theorem get?_renameAll (ns : Option (List String)) : ∀ (es : Entries V) (k : String),
    (Entries.renameAll ns es).get? k = (es.get? k).map (Tree.renameAll ns)
  | .nil, k => by simp [Entries.renameAll, Entries.get?]
  | .cons k0 t rest, k => by
    simp only [Entries.renameAll, Entries.get?]
    by_cases hk : k0 = k
    · simp [hk]
    · simp only [hk, ↓reduceIte]; exact get?_renameAll ns rest k

theorem get?_setDevice (d : Option String) : ∀ (es : Entries V) (k : String),
    (Entries.setDevice d es).get? k = (es.get? k).map (Tree.setDevice d)
  | .nil, k => by simp [Entries.setDevice, Entries.get?]
  | .cons k0 t rest, k => by
    simp only [Entries.setDevice, Entries.get?]
    by_cases hk : k0 = k
    · simp [hk]
    · simp only [hk, ↓reduceIte]; exact get?_setDevice d rest k

theorem sub_renameAll (ns : Option (List String)) : ∀ (p : Path) (t : Tree V),
    Tree.sub (Tree.renameAll ns t) p = (Tree.sub t p).map (Tree.renameAll ns)
  | [], t => by simp [Tree.sub]
  | k :: p, .leaf v => by simp [Tree.sub, Tree.renameAll]
  | k :: p, .node m es => by
    simp only [Tree.renameAll, Tree.sub, get?_renameAll]
    cases es.get? k with
    | none => rfl
    | some t => simp [sub_renameAll ns p t]

theorem sub_setDevice (d : Option String) : ∀ (p : Path) (t : Tree V),
    Tree.sub (Tree.setDevice d t) p = (Tree.sub t p).map (Tree.setDevice d)
  | [], t => by simp [Tree.sub]
  | k :: p, .leaf v => by simp [Tree.sub, Tree.setDevice]
  | k :: p, .node m es => by
    simp only [Tree.setDevice, Tree.sub, get?_setDevice]
    cases es.get? k with
    | none => rfl
    | some t => simp [sub_setDevice d p t]

theorem leafAt_renameAll (ns : Option (List String)) (t : Tree V) (p : Path) :
    Tree.leafAt (Tree.renameAll ns t) p = Tree.leafAt t p := by
  unfold Tree.leafAt
  rw [sub_renameAll]
  cases h : Tree.sub t p with
  | none => rfl
  | some x => cases x <;> simp [Tree.renameAll]

theorem leafAt_setDevice (d : Option String) (t : Tree V) (p : Path) :
    Tree.leafAt (Tree.setDevice d t) p = Tree.leafAt t p := by
  unfold Tree.leafAt
  rw [sub_setDevice]
  cases h : Tree.sub t p with
  | none => rfl
  | some x => cases x <;> simp [Tree.setDevice]

theorem leafAt_moveToDevice (d : Option String) (t : Tree V) (p : Path) :
    Tree.leafAt (moveToDevice d t) p = Tree.leafAt t p := by
  unfold moveToDevice
  cases d with
  | none => rfl
  | some dev =>
    cases t with
    | leaf v => rfl
    | node tm tes =>
      simp only
      split
      · rfl
      · exact leafAt_setDevice _ _ p

/-- `_validate_value` never changes a leaf: the stored value holds the same leaves as the value passed -/
theorem validateValue_leafEq (checked : Bool) (rm rm' : Meta) (t t' : Tree V)
    (h : validateValue checked rm t = .ok (rm', t')) : LeafEq (some t') (some t) := by
  intro p
  simp only [Option.bind_some]
  unfold validateValue at h
  cases checked with
  | true => simp at h; rw [h.2]
  | false =>
    simp only [Bool.false_eq_true, ↓reduceIte] at h
    obtain ⟨_, _, _, _, h5⟩ := reconcileNames_spec rm rm' _ t' h
    rcases h5 with e | ⟨ns, e⟩
    · rw [e, leafAt_moveToDevice]
    · rw [e, leafAt_renameAll, leafAt_moveToDevice]

theorem pickOutcome_leafEq (x : Option (Option (Tree V))) (a b : Option (Tree V)) (h : LeafEq a b) :
    LeafEq (pickOutcome x a) (pickOutcome x b) := by
  cases x with
  | none => simpa using h
  | some y => cases y with
    | none => simpa using h
    | some t => simp only [pickOutcome_some_some]; exact LeafEq.refl _

theorem leafEq_map_renameAll (ns : Option (List String)) (a : Option (Tree V)) :
    LeafEq (a.map (Tree.renameAll ns)) a := by
  intro p
  cases a with
  | none => rfl
  | some t => simp [leafAt_renameAll]

/-- entries written (validated or not): under every key the container holds the same leaves as the outcome when the
function returned a value, else the same leaves as before -/
theorem writeOutcomes_leafEq (checked : Bool) (fresh : Tree V) :
    ∀ (oc : List (String × Option (Tree V))) (m : Meta) (es : Entries V) (r : Option (Tree V)),
      (oc.map (·.1)).Nodup → writeOutcomes checked fresh (some (.node m es)) oc = .ok r →
      ∃ m' es', r = some (.node m' es') ∧
        ∀ k, LeafEq (es'.get? k) (pickOutcome (List.lookup k oc) (es.get? k))
  | [], m, es, r, _, h => by
    simp [writeOutcomes] at h; subst h; exact ⟨m, es, rfl, fun k => by simp [List.lookup]; exact LeafEq.refl _⟩
  | (k0, none) :: rest, m, es, r, hnd, h => by
    simp only [writeOutcomes] at h
    simp only [List.map_cons, List.nodup_cons] at hnd
    obtain ⟨m', es', e, hg⟩ := writeOutcomes_leafEq checked fresh rest m es r hnd.2 h
    refine ⟨m', es', e, fun k => ?_⟩
    by_cases hk : k = k0
    · subst hk
      have hl : List.lookup k rest = none := lookup_none_of_not_key rest k hnd.1
      have := hg k
      rw [hl] at this
      simpa [List.lookup] using this
    · have : (k == k0) = false := by simp [hk]
      simpa [List.lookup, this] using hg k
  | (k0, some t) :: rest, m, es, r, hnd, h => by
    simp only [writeOutcomes, Option.getD_some] at h
    simp only [List.map_cons, List.nodup_cons] at hnd
    cases hv : validateValue checked m t with
    | error e => simp [hv] at h
    | ok pr =>
      obtain ⟨m1, t1⟩ := pr
      simp only [hv] at h
      have ht := validateValue_leafEq checked m m1 t t1 hv
      obtain ⟨m', es', e, hg⟩ := writeOutcomes_leafEq checked fresh rest m1 _ r hnd.2 h
      refine ⟨m', es', e, fun k => ?_⟩
      by_cases hk : k = k0
      · subst hk
        have hl : List.lookup k rest = none := lookup_none_of_not_key rest k hnd.1
        have := hg k
        rw [hl, get?_set_same] at this
        simp only [List.lookup, beq_self_eq_true, pickOutcome_some_some, pickOutcome_none] at this ⊢
        exact this.trans ht
      · have hb : (k == k0) = false := by simp [hk]
        have := hg k
        rw [get?_set_other _ k0 k t1 hk] at this
        simp only [List.lookup, hb]
        refine this.trans (pickOutcome_leafEq _ _ _ ?_)
        split
        · exact LeafEq.refl _
        · rw [get?_renameAll]; exact leafEq_map_renameAll _ _

theorem leafAt_node_cons (m : Meta) (es : Entries V) (k : String) (q : Path) :
    Tree.leafAt (.node m es) (k :: q) = (es.get? k).bind (fun t => Tree.leafAt t q) := by
  unfold Tree.leafAt
  simp only [Tree.sub]
  cases es.get? k <;> rfl


/-! ### `_validate_value` puts every written nested tensordict on the container's device -/

theorem onDevice_renameAll (d : String) (ns : Option (List String)) (t : Tree V) (h : Tree.onDevice d t) :
    Tree.onDevice d (Tree.renameAll ns t) := by
  cases t with
  | leaf v => simp [Tree.renameAll, Tree.onDevice]
  | node m es => simpa [Tree.renameAll, Tree.onDevice] using h

theorem onDevice_moveToDevice (d : String) (t : Tree V) : Tree.onDevice d (moveToDevice (some d) t) := by
  cases t with
  | leaf v => simp [moveToDevice, Tree.onDevice]
  | node m es =>
    simp only [moveToDevice]
    split
    · rename_i h; simpa [Tree.onDevice] using h
    · simp [Tree.setDevice, Tree.onDevice]

theorem validateValue_onDevice (d : String) (rm rm' : Meta) (t t' : Tree V) (hd : rm.device = some d)
    (h : validateValue false rm t = .ok (rm', t')) : Tree.onDevice d t' ∧ rm'.device = some d := by
  have hs := validateValue_spec false rm rm' t t' h
  simp only [validateValue, Bool.false_eq_true, ↓reduceIte, hd] at h
  obtain ⟨_, _, _, _, h5⟩ := reconcileNames_spec rm rm' _ t' h
  refine ⟨?_, by rw [hs.2.1, hd]⟩
  rcases h5 with e | ⟨ns, e⟩
  · rw [e]; exact onDevice_moveToDevice d t
  · rw [e]; exact onDevice_renameAll d ns _ (onDevice_moveToDevice d t)

theorem writeOutcomes_onDevice (d : String) (fresh : Tree V) :
    ∀ (oc : List (String × Option (Tree V))) (m : Meta) (es : Entries V) (r : Option (Tree V)),
      m.device = some d → (oc.map (·.1)).Nodup → writeOutcomes false fresh (some (.node m es)) oc = .ok r →
      ∃ m' es', r = some (.node m' es') ∧
        (∀ k t, List.lookup k oc = some (some t) → ∃ t', es'.get? k = some t' ∧ Tree.onDevice d t') ∧
        (∀ k, (∀ t, List.lookup k oc ≠ some (some t)) → ∀ t0, es.get? k = some t0 → Tree.onDevice d t0 →
            ∃ t', es'.get? k = some t' ∧ Tree.onDevice d t')
  | [], m, es, r, _, _, h => by
    simp [writeOutcomes] at h; subst h
    exact ⟨m, es, rfl, fun k t hl => by simp [List.lookup] at hl, fun k _ t0 h0 hd0 => ⟨t0, h0, hd0⟩⟩
  | (k0, none) :: rest, m, es, r, hd, hnd, h => by
    simp only [writeOutcomes] at h
    simp only [List.map_cons, List.nodup_cons] at hnd
    obtain ⟨m', es', e, h1, h2⟩ := writeOutcomes_onDevice d fresh rest m es r hd hnd.2 h
    refine ⟨m', es', e, fun k t hl => ?_, fun k hk t0 h0 hd0 => ?_⟩
    · by_cases hkk : k = k0
      · subst hkk; simp [List.lookup] at hl
      · have : (k == k0) = false := by simp [hkk]
        simp only [List.lookup, this] at hl
        exact h1 k t hl
    · by_cases hkk : k = k0
      · subst hkk
        have hn : List.lookup k rest = none := by
          rw [List.lookup_eq_none_iff]; intro p hp
          simp only [bne_iff_ne, ne_eq]
          intro e
          exact hnd.1 (List.mem_map.mpr ⟨p, hp, e.symm⟩)
        exact h2 k (fun t => by simp [hn]) t0 h0 hd0
      · have : (k == k0) = false := by simp [hkk]
        refine h2 k (fun t ht => hk t ?_) t0 h0 hd0
        simp only [List.lookup, this]; exact ht
  | (k0, some t) :: rest, m, es, r, hd, hnd, h => by
    simp only [writeOutcomes, Option.getD_some] at h
    simp only [List.map_cons, List.nodup_cons] at hnd
    have hn : List.lookup k0 rest = none := by
      rw [List.lookup_eq_none_iff]; intro p hp
      simp only [bne_iff_ne, ne_eq]
      intro e
      exact hnd.1 (List.mem_map.mpr ⟨p, hp, e.symm⟩)
    cases hv : validateValue false m t with
    | error e => simp [hv] at h
    | ok p =>
      obtain ⟨m1, t1⟩ := p
      simp only [hv] at h
      obtain ⟨hon, hd1⟩ := validateValue_onDevice d m m1 t t1 hd hv
      obtain ⟨m', es', e, h1, h2⟩ := writeOutcomes_onDevice d fresh rest m1 _ r hd1 hnd.2 h
      refine ⟨m', es', e, fun k t' hl => ?_, fun k hk t0 h0 hd0 => ?_⟩
      · by_cases hkk : k = k0
        · subst hkk
          refine h2 k (fun t => by simp [hn]) t1 ?_ hon
          exact get?_set_same _ k t1
        · have : (k == k0) = false := by simp [hkk]
          simp only [List.lookup, this] at hl
          exact h1 k t' hl
      · have hkk : k ≠ k0 := by
          intro e; subst e; exact hk t (by simp [List.lookup])
        have : (k == k0) = false := by simp [hkk]
        have hk' : ∀ t', List.lookup k rest ≠ some (some t') := fun t' ht => hk t' (by simp only [List.lookup, this]; exact ht)
        by_cases hnm : m1.names = m.names
        · refine h2 k hk' t0 ?_ hd0
          simp only [hnm, ↓reduceIte]
          rw [get?_set_other es k0 k t1 hkk]; exact h0
        · refine h2 k hk' (Tree.renameAll m1.names t0) ?_ (onDevice_renameAll d _ t0 hd0)
          simp only [hnm, ↓reduceIte]
          rw [get?_set_other _ k0 k t1 hkk, get?_renameAll, h0]; rfl


end TdVerif.C20
