/-
  C08 — the index spec never reads out of bounds: whenever `idxShape` accepts an index, every
  in-bounds coordinate of the result is mapped by `idxCoord` to an in-bounds coordinate of the
  indexed tensor (ints, slices with a positive step, None, integer tensors, boolean masks).
  Consequence: indexing respects `≈ₜ` (`idxT_congr`).
-/
import TdVerif.Lemmas.C08Mask2Get
import TdVerif.Lemmas.C08Set3
namespace TdVerif.C08

/-- the `k`-th element of a normalised slice with a positive step lies inside the dim -/
theorem sliceAt_lt (a b c : Option Int) (d : Nat) (s0 st : Int) (len : Nat)
    (h : sliceNorm a b c d = some (s0, st, len)) (hst : 0 < st) (k : Nat) (hk : k < len) :
    sliceAt s0 st k < d := by
  unfold sliceNorm at h
  cases hi : SliceSpec.indices a b c d with
  | error e => simp [hi] at h
  | ok p =>
    obtain ⟨s, e, st'⟩ := p
    simp only [hi, Option.some.injEq, Prod.mk.injEq] at h
    obtain ⟨rfl, rfl, hlen⟩ := h
    unfold SliceSpec.indices at hi
    simp only at hi
    split at hi
    · simp at hi
    simp only [Except.ok.injEq, Prod.mk.injEq] at hi
    obtain ⟨hs, he, hst'⟩ := hi
    have hneg : ¬ (c.getD 1 < 0) := by omega
    simp only [hneg, if_false] at hs he
    -- 0 ≤ s ≤ d and 0 ≤ e ≤ d
    have hs0 : 0 ≤ s ∧ s ≤ d := by
      rw [← hs]
      cases a with
      | none => simp
      | some v => simp only; split <;> (split <;> omega)
    have he0 : e ≤ d := by
      rw [← he]
      cases b with
      | none => simp
      | some v => simp only; split <;> (split <;> omega)
    unfold SliceSpec.rangeLen at hlen
    rw [if_pos (by omega)] at hlen
    unfold sliceAt
    by_cases hse : s < e
    · rw [if_pos hse] at hlen
      have hq : (k : Int) ≤ (e - s - 1) / st' := by
        have : ((e - s - 1) / st' + 1).toNat = len := hlen
        have hnn : 0 ≤ (e - s - 1) / st' := Int.ediv_nonneg (by omega) (by omega)
        omega
      have hmul : st' * (k : Int) ≤ e - s - 1 := by
        calc st' * (k : Int) ≤ st' * ((e - s - 1) / st') := Int.mul_le_mul_of_nonneg_left hq (by omega)
          _ ≤ e - s - 1 := Int.mul_ediv_self_le (by omega)
      have hnn2 : 0 ≤ st' * (k : Int) := Int.mul_nonneg (by omega) (by omega)
      omega
    · rw [if_neg hse] at hlen
      simp at hlen
      omega


theorem InB.tail' : ∀ {c : List Nat} {x : Nat} {s : Shape}, InB c (x :: s) → InB c.tail s
  | [], _, _, h => by simp [InB] at h
  | _ :: _, _, _, h => h.2

theorem InB.head_lt : ∀ {c : List Nat} {x : Nat} {s : Shape}, InB c (x :: s) → at0 c 0 < x
  | [], _, _, h => by simp [InB] at h
  | _ :: _, _, _, h => by simpa [at0] using h.1

/-- **the index spec never reads out of bounds**: whenever `idxShape` accepts, every in-bounds
result coordinate is mapped to an in-bounds coordinate of the indexed tensor -/
theorem idxCoord_inB : ∀ (ix : List Ix) (sh s : Shape) (c : List Nat), idxShape ix sh = some s →
    InB c s → InB (idxCoord ix sh c) sh
  | [], sh, s, c, h, hc => by
    simp only [idxShape, Option.some.injEq] at h
    subst h; simpa [idxCoord] using hc
  | .none :: r, sh, s, c, h, hc => by
    simp only [idxShape, Option.map_eq_some_iff] at h
    obtain ⟨s', hs', rfl⟩ := h
    simp only [idxCoord]
    exact idxCoord_inB r sh s' c.tail hs' (InB.tail' hc)
  | .ell :: _, _, _, _, h, _ => by simp [idxShape] at h
  | .mask m :: r, sh, s, c, h, hc => by
    simp only [idxShape] at h
    split at h
    case isFalse => simp at h
    rename_i hcond
    simp only [Option.map_eq_some_iff] at h
    obtain ⟨s', hs', rfl⟩ := h
    simp only [idxCoord]
    have hk : at0 c 0 < (nonzero m).length := InB.head_lt hc
    rw [List.getElem?_eq_getElem hk, Option.getD_some]
    have hmem : (nonzero m)[at0 c 0] ∈ allCoords m.shape := by
      have : (nonzero m)[at0 c 0] ∈ nonzero m := List.getElem_mem _
      unfold nonzero at this
      exact (List.mem_filter.mp this).1
    have h1 : InB ((nonzero m)[at0 c 0]) m.shape := (mem_allCoords_iff _ _).mp hmem
    have h2 := idxCoord_inB r (sh.drop m.shape.length) s' c.tail hs' (InB.tail' hc)
    have := InB_append_mk m.shape (sh.drop m.shape.length) _ _ h1 h2
    have e : m.shape ++ sh.drop m.shape.length = sh := by
      have h3 := List.take_append_drop m.shape.length sh
      rw [← hcond.2] at h3; exact h3
    rw [e] at this
    exact this
  | .int _ :: _, [], _, _, h, _ => by simp [idxShape] at h
  | .slice .. :: _, [], _, _, h, _ => by simp [idxShape] at h
  | .tens _ :: _, [], _, _, h, _ => by simp [idxShape] at h
  | .int i :: r, d :: sh, s, c, h, hc => by
    simp only [idxShape] at h
    split at h
    case isFalse => simp at h
    rename_i hcond
    simp only [idxCoord]
    cases hn : normInt i d with
    | none => simp [hn] at hcond
    | some j =>
      simp only [Option.getD_some]
      exact ⟨normInt_lt hn, idxCoord_inB r sh s c h hc⟩
  | .slice a b c' :: r, d :: sh, s, c, h, hc => by
    simp only [idxShape] at h
    cases hsn : sliceNorm a b c' d with
    | none => simp [hsn] at h
    | some p =>
      obtain ⟨s0, st, len⟩ := p
      simp only [hsn] at h
      split at h
      case isFalse => simp at h
      rename_i hst
      simp only [Option.map_eq_some_iff] at h
      obtain ⟨s', hs', rfl⟩ := h
      simp only [idxCoord, sliceNormD, hsn, Option.getD_some]
      exact ⟨sliceAt_lt a b c' d s0 st len hsn hst _ (InB.head_lt hc),
        idxCoord_inB r sh s' c.tail hs' (InB.tail' hc)⟩
  | .tens t :: r, d :: sh, s, c, h, hc => by
    simp only [idxShape] at h
    split at h
    case isFalse => simp at h
    rename_i hcond
    simp only [Option.map_eq_some_iff] at h
    obtain ⟨s', hs', rfl⟩ := h
    simp only [idxCoord]
    have hsplit := (InB_append_iff t.shape s' c).mp hc
    have hmem : c.take t.shape.length ∈ allCoords t.shape := (mem_allCoords_iff _ _).mpr hsplit.1
    have hok := hcond.2
    unfold tensOk at hok
    have := List.all_eq_true.mp hok _ hmem
    cases hn : normInt (t.get (c.take t.shape.length)) d with
    | none => simp [hn] at this
    | some j =>
      simp only [Option.getD_some]
      exact ⟨normInt_lt hn, idxCoord_inB r sh s' (c.drop t.shape.length) hs' hsplit.2⟩

/-- indexing respects `≈ₜ` -/
theorem idxT_congr {a b : T α} (ix : List Ix) (h : a ≈ₜ b) (s : Shape) (hs : idxShape ix a.shape = some s) :
    idxT ix a ≈ₜ idxT ix b := by
  refine ⟨by simp [idxT, h.1], ?_⟩
  intro c hc
  simp only [idxT, hs, Option.getD_some] at hc
  simp only [idxT]
  rw [← h.1]
  exact h.2 _ (idxCoord_inB ix a.shape s c hs hc)

end TdVerif.C08
