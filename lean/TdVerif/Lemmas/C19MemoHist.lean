/-
  C19 — lemmas for Model/C19MemoHist.lean: the cache invariant is preserved by every event.
-/
import TdVerif.Model.C19MemoHist
import TdVerif.Lemmas.C19Vmap

namespace TdVerif.C19.MH
open TdVerif.C19

theorem wfCheck_sound (g : Graph) (h : g.wfCheck = true) : g.WF := by
  intro j hj k hk hm
  simp only [Graph.wfCheck, List.all_eq_true, List.mem_range] at h
  have := h j hj k hk
  simpa [hm] using this

theorem inv_init (g : Graph) : Inv g St.init := by
  intro k e he
  simp [St.init] at he

/-- a rebinding of node `j` leaves the snapshot of every node that does not contain `j` unchanged -/
theorem snapOf_rebind (g : Graph) (k j : Nat) (gens : Nat → Nat) (h : j < g.n → k ∉ g.anc j) :
    snapOf g k (fun j' => if j' = j then gens j + 1 else gens j') = snapOf g k gens := by
  unfold snapOf
  apply List.map_congr_left
  intro j' hj'
  by_cases hjj : j' = j
  · subst hjj
    have := h (List.mem_range.mp hj')
    simp [this]
  · simp [hjj]

theorem step_inv (g : Graph) (hwf : g.WF) (s : St) (hs : Inv g s) (e : Ev) : Inv g (step g s e).1 := by
  cases e with
  | request k i l =>
    unfold step
    by_cases hm : g.memoises k = true
    · simp only [hm, if_true]
      cases hl : (s.memo k).lookup (i, l) with
      | some w => exact hs
      | none =>
        intro k' e he
        simp only at he
        by_cases hk : k' = k
        · subst hk
          simp only [if_true] at he
          rcases List.mem_cons.mp he with rfl | he
          · exact ⟨hm, rfl, rfl, rfl⟩
          · exact hs _ e he
        · simp only [hk, if_false] at he
          exact hs _ e he
    · simp only [hm]
      exact hs
  | write j => exact hs
  | rebind j =>
    intro k e he
    simp only [step] at he
    by_cases hk : k ∈ g.lanc j
    · simp [hk] at he
    · simp only [hk, if_false] at he
      obtain ⟨h1, h2, h3, h4⟩ := hs k e he
      refine ⟨h1, h2, h3, ?_⟩
      simp only [step]
      rw [snapOf_rebind g k j s.gens (fun hj hkj => hk (hwf j hj k hkj h1))]
      exact h4
  | erase j =>
    intro k e he
    simp only [step] at he
    by_cases hk : k = j
    · simp [hk] at he
    · simp only [hk, if_false] at he
      exact hs k e he

/-- what a request returns is built for the requested (in_dim, level) from the current generations -/
theorem request_current (g : Graph) (s : St) (hs : Inv g s) (k i l : Nat) :
    ∃ w, (step g s (.request k i l)).2 = some w ∧ w.inDim = i ∧ w.level = l ∧ w.Current g s k := by
  unfold step
  by_cases hm : g.memoises k = true
  · simp only [hm, if_true]
    cases hl : (s.memo k).lookup (i, l) with
    | some w =>
      have := hs k _ (lookup_mem (s.memo k) (i, l) w hl)
      exact ⟨w, rfl, this.2.1, this.2.2.1, this.2.2.2⟩
    | none => exact ⟨_, rfl, rfl, rfl, rfl⟩
  · simp only [hm]
    exact ⟨_, rfl, rfl, rfl, rfl⟩

theorem run_inv (g : Graph) (hwf : g.WF) : ∀ (es : List Ev) (s : St), Inv g s → Inv g (run g s es).1
  | [], s, hs => hs
  | e :: es, s, hs => by
    simp only [run]
    exact run_inv g hwf es _ (step_inv g hwf s hs e)

theorem run_append (g : Graph) : ∀ (es es' : List Ev) (s : St),
    run g s (es ++ es') = ((run g (run g s es).1 es').1, (run g s es).2 ++ (run g (run g s es).1 es').2)
  | [], es', s => by simp [run]
  | e :: es, es', s => by
    simp only [List.cons_append, run]
    rw [run_append g es es']
    simp [List.append_assoc]

end TdVerif.C19.MH
