/-
  C05 — what `_propagate_lock` establishes (for every heap, every fuel, every shared sub-graph).
-/
import TdVerif.Lemmas.C05Basic

namespace TdVerif.C05

theorem foldl_inv {α} (g : Heap → α → Heap) (P : Heap → Prop) :
    ∀ (ks : List α), (∀ acc j, j ∈ ks → P acc → P (g acc j)) → ∀ h, P h → P (ks.foldl g h) := by
  intro ks
  induction ks with
  | nil => intro _ h hp; exact hp
  | cons k ks ih =>
    intro hstep h hp
    exact ih (fun acc j hj => hstep acc j (List.mem_cons_of_mem _ hj)) _ (hstep h k List.mem_cons_self hp)

/-- a bookkeeping-only update that keeps set flags and registered parents is a `Le` step -/
theorem le_upd (h : Heap) (i : Nat) (f : LNode → LNode)
    (hs : ∀ x, (f x).kids = x.kids ∧ (f x).lazy = x.lazy ∧ (f x).alive = x.alive)
    (hfl : ∀ x, x.flag = some true → (f x).flag = some true)
    (hpa : ∀ x y, y ∈ x.parents → y ∈ (f x).parents) : Le h (h.upd i f) := by
  refine ⟨sameShape_upd h i f hs, fun m hm => ?_, fun m x hx => ?_⟩
  · rw [flagged_iff] at hm ⊢
    simp only [Heap.upd]
    by_cases hmi : m = i
    · subst hmi; simp [hfl _ hm]
    · simp [hmi, hm]
  · simp only [Heap.upd]
    by_cases hmi : m = i
    · subst hmi; simp [hpa _ _ hx]
    · simp [hmi, hx]

theorem upd_node_self (h : Heap) (i : Nat) (f : LNode → LNode) : (h.upd i f).node i = f (h.node i) := by
  simp [Heap.upd]
theorem upd_node_ne (h : Heap) (i m : Nat) (f : LNode → LNode) (hne : m ≠ i) : (h.upd i f).node m = h.node m := by
  simp [Heap.upd, hne]

/-- `_propagate_lock` only adds: shape kept, flags kept, registered parents kept -/
theorem propLockF_le : ∀ n h ps i, Le h (propLockF n h ps i) := by
  intro n
  induction n with
  | zero => intro h ps i; exact Le.refl h
  | succ n ih =>
    intro h ps i
    simp only [propLockF]
    split
    · refine Le.trans ?_ (foldl_le _ (fun acc j => ih acc _ j) _ _)
      exact le_upd h i _ (fun x => ⟨rfl, rfl, rfl⟩) (fun _ _ => rfl) (fun _ _ hy => hy)
    · refine Le.trans ?_ (foldl_le _ (fun acc j => ih acc _ j) _ _)
      exact le_upd h i _ (fun x => ⟨rfl, rfl, rfl⟩) (fun _ _ => rfl)
        (fun _ _ hy => List.mem_append_left _ hy)

/-- frame: nodes that are not below `i` are untouched -/
theorem propLockF_frame : ∀ n h ps i m, ¬ Reach h i m → (propLockF n h ps i).node m = h.node m := by
  intro n
  induction n with
  | zero => intro h ps i m _; rfl
  | succ n ih =>
    intro h ps i m hm
    have hmi : m ≠ i := fun e => hm (e ▸ Reach.refl _)
    have key : ∀ (down : Option (List Nat)) (h1 : Heap), Le h h1 → h1.node m = h.node m →
        ((kidIds h i).foldl (fun acc j => propLockF n acc down j) h1).node m = h.node m := by
      intro down h1 l1 e1
      have := foldl_inv (fun acc j => propLockF n acc down j) (fun acc => Le h acc ∧ acc.node m = h.node m)
        (kidIds h i) (fun acc j hj ⟨la, ea⟩ => ⟨la.trans (propLockF_le n acc down j), by
          rw [ih acc down j m (fun r => hm ((Reach.kid hj).trans (la.1.symm.reach r))), ea]⟩) h1 ⟨l1, e1⟩
      exact this.2
    simp only [propLockF]
    split
    · exact key _ _ (le_upd h i _ (fun x => ⟨rfl, rfl, rfl⟩) (fun _ _ => rfl) (fun _ _ hy => hy))
        (upd_node_ne h i m _ hmi)
    · exact key _ _ (le_upd h i _ (fun x => ⟨rfl, rfl, rfl⟩) (fun _ _ => rfl)
        (fun _ _ hy => List.mem_append_left _ hy)) (upd_node_ne h i m _ hmi)

/-- the children loop of `_propagate_lock`: what each child subtree looks like afterwards -/
theorem propLock_fold_post (n : Nat)
    (ih : ∀ h ps i, Ordered h → NonEmptyLazy h → i < n → (∀ x, x ∈ ps.getD [] → i < x) →
      flagged (propLockF n h ps i) i = true ∧
      (∀ x, x ∈ ps.getD [] → x ∈ parentsOf (propLockF n h ps i) i) ∧
      (∀ q, Reach h i q → flagged (propLockF n h ps i) q = true ∧
        ∀ j, j ∈ kidIds h q → q ∈ parentsOf (propLockF n h ps i) j))
    (h h1 : Heap) (i : Nat) (down : List Nat) (o : Ordered h) (ne : NonEmptyLazy h) (l1 : Le h h1)
    (hin : i ≤ n) (hdown : ∀ x, x ∈ down → i ≤ x) :
    let h' := (kidIds h i).foldl (fun acc j => propLockF n acc (some down) j) h1
    Le h1 h' ∧ ∀ j, j ∈ kidIds h i →
      (∀ x, x ∈ down → x ∈ parentsOf h' j) ∧
      (∀ q, Reach h j q → flagged h' q = true ∧ ∀ j', j' ∈ kidIds h q → q ∈ parentsOf h' j') := by
  intro h'
  have hle : ∀ acc j, Le acc (propLockF n acc (some down) j) := fun acc j => propLockF_le n acc _ j
  refine ⟨foldl_le _ hle _ _, fun j hj => ?_⟩
  obtain ⟨acc, la, lb⟩ := foldl_le_mem _ hle (kidIds h i) h1 j hj
  have lacc : Le h acc := l1.trans la
  have hji := o i j hj
  have := ih acc (some down) j (lacc.1.ordered o) (lacc.1.nonEmptyLazy ne) (by omega)
    (fun x hx => by have := hdown x hx; simp at hx; omega)
  obtain ⟨_, h2, h3⟩ := this
  refine ⟨fun x hx => lb.parentsOf j x (h2 x (by simpa using hx)), fun q hq => ?_⟩
  obtain ⟨f1, f2⟩ := h3 q (lacc.1.reach hq)
  exact ⟨lb.flagged q f1, fun j' hj' => lb.parentsOf j' q (f2 j' (by rw [lacc.1.kidIds]; exact hj'))⟩

/-- **what `_propagate_lock` establishes** on an ordered heap without empty lazy stacks: the node is flagged,
every reference handed down is registered (directly, or through the members for a lazy stack), every node
below is flagged and every container below is registered in each of its entries. -/
theorem propLockF_post : ∀ n h ps i, Ordered h → NonEmptyLazy h → i < n → (∀ x, x ∈ ps.getD [] → i < x) →
    flagged (propLockF n h ps i) i = true ∧
    (∀ x, x ∈ ps.getD [] → x ∈ parentsOf (propLockF n h ps i) i) ∧
    (∀ q, Reach h i q → flagged (propLockF n h ps i) q = true ∧
      ∀ j, j ∈ kidIds h q → q ∈ parentsOf (propLockF n h ps i) j) := by
  intro n
  induction n with
  | zero => intro h ps i _ _ hi; omega
  | succ n ih =>
    intro h ps i o ne hi hps
    by_cases hl : (h.node i).lazy = true
    · -- lazy stack
      let h1 := h.upd i (fun x => { x with flag := some true })
      let down := ps.getD [] ++ [i]
      have l1 : Le h h1 := le_upd h i _ (fun x => ⟨rfl, rfl, rfl⟩) (fun _ _ => rfl) (fun _ _ hy => hy)
      have e : propLockF (n + 1) h ps i = (kidIds h i).foldl (fun acc j => propLockF n acc (some down) j) h1 := by
        simp only [propLockF, hl, if_true]; rfl
      have hdown : ∀ x, x ∈ down → i ≤ x := by
        intro x hx
        rcases List.mem_append.mp hx with hx | hx
        · exact Nat.le_of_lt (hps x hx)
        · simp at hx; omega
      obtain ⟨lf, hk⟩ := propLock_fold_post n ih h h1 i down o ne l1 (by omega) hdown
      rw [e]
      have fl1 : flagged h1 i = true := by rw [flagged_iff]; simp [h1, upd_node_self]
      refine ⟨lf.flagged i fl1, fun x hx => ?_, fun q hq => ?_⟩
      · -- through a member (the stack is not empty)
        have s : SameShape h ((kidIds h i).foldl (fun acc j => propLockF n acc (some down) j) h1) := l1.1.trans lf.1
        rw [mem_parentsOf_lazy _ (s.ordered o) i (by rw [s.lazy]; exact hl)]
        refine ⟨by have := hps x hx; omega, ?_⟩
        obtain ⟨j, hj⟩ := List.exists_mem_of_ne_nil _ (ne i hl)
        exact ⟨j, by rw [s.kidIds]; exact hj, (hk j hj).1 x (List.mem_append_left _ hx)⟩
      · rcases hq.cases_left with rfl | ⟨b, hb, rb⟩
        · exact ⟨lf.flagged _ fl1, fun j hj => (hk j hj).1 _ (by simp [down])⟩
        · exact (hk b hb).2 q rb
    · -- plain tensordict
      have hl' : (h.node i).lazy = false := by simpa using hl
      let new : List Nat := match ps with
        | none => []
        | some l => l.filter (fun p => !((h.node i).parents.contains p))
      let h1 := h.upd i (fun x => { x with flag := some true, parents := x.parents ++ new })
      let down := new ++ [i]
      have l1 : Le h h1 := le_upd h i _ (fun x => ⟨rfl, rfl, rfl⟩) (fun _ _ => rfl)
        (fun _ _ hy => List.mem_append_left _ hy)
      have e : propLockF (n + 1) h ps i = (kidIds h i).foldl (fun acc j => propLockF n acc (some down) j) h1 := by
        simp only [propLockF, hl']
        cases ps <;> rfl
      have hnew : ∀ x, x ∈ new → x ∈ ps.getD [] := by
        intro x hx
        cases ps with
        | none => simp [new] at hx
        | some l => simp only [new, List.mem_filter] at hx; exact hx.1
      have hdown : ∀ x, x ∈ down → i ≤ x := by
        intro x hx
        rcases List.mem_append.mp hx with hx | hx
        · exact Nat.le_of_lt (hps x (hnew x hx))
        · simp at hx; omega
      obtain ⟨lf, hk⟩ := propLock_fold_post n ih h h1 i down o ne l1 (by omega) hdown
      rw [e]
      have fl1 : flagged h1 i = true := by rw [flagged_iff]; simp [h1, upd_node_self]
      refine ⟨lf.flagged i fl1, fun x hx => ?_, fun q hq => ?_⟩
      · apply lf.parentsOf
        rw [parentsOf_plain h1 i (by rw [l1.1.lazy]; exact hl')]
        simp only [h1, upd_node_self, List.mem_append]
        by_cases hc : (h.node i).parents.contains x = true
        · exact .inl (by simpa using hc)
        · right
          cases ps with
          | none => simp at hx
          | some l => simp only [new, List.mem_filter]; exact ⟨by simpa using hx, by simpa using hc⟩
      · rcases hq.cases_left with rfl | ⟨b, hb, rb⟩
        · exact ⟨lf.flagged _ fl1, fun j hj => (hk j hj).1 _ (by simp [down])⟩
        · exact (hk b hb).2 q rb

/-- flags change only below `i` -/
theorem propLockF_flagged_inv (n : Nat) (h : Heap) (ps : Option (List Nat)) (i m : Nat)
    (hf : flagged (propLockF n h ps i) m = true) : flagged h m = true ∨ Reach h i m := by
  by_cases r : Reach h i m
  · exact .inr r
  · left; unfold flagged at hf ⊢; rw [propLockF_frame n h ps i m r] at hf; exact hf

end TdVerif.C05
