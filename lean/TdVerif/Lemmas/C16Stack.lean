/-
  C16 — lemmas about `_stack_non_tensor` (`stackNT`).
-/
import TdVerif.Lemmas.C16Basic

namespace TdVerif.C16
namespace NT
variable {O : Type}

theorem sharedPayload_eq_some {m : NT O} {o : O} (h : sharedPayload m = some o) : m = .shared o (shape m) := by
  cases m with
  | shared o' s => simp [sharedPayload] at h; simp [h, shape]
  | stack ms d => simp [sharedPayload] at h

/-- the outcome of `_stack_non_tensor` in capture mode -/
theorem stackNT_cases [DecidableEq O] (l : List (NT O)) (d : Nat) :
    (stackNT true l d = .stack l d ∧ ¬ (∃ o, ∀ m ∈ l, sharedPayload m = some o) ∨ l = [])
    ∨ (∃ o first rest, l = first :: rest ∧ (∀ m ∈ l, sharedPayload m = some o)
        ∧ stackNT true l d = .shared o ((shape first).insertIdx d l.length)) := by
  cases l with
  | nil => exact Or.inl (Or.inr rfl)
  | cons first rest =>
    simp only [stackNT, Bool.not_true, Bool.false_eq_true, ↓reduceIte]
    cases hf : sharedPayload first with
    | none =>
      refine Or.inl (Or.inl ⟨rfl, ?_⟩)
      rintro ⟨o, ho⟩
      have := ho first (by simp)
      simp [hf] at this
    | some o =>
      simp only
      by_cases hall : rest.all (fun m => sharedPayload m == some o) = true
      · refine Or.inr ⟨o, first, rest, rfl, ?_, by simp [hall]⟩
        intro m hm
        rcases List.mem_cons.mp hm with rfl | hm
        · exact hf
        · simpa using (List.all_eq_true.mp hall) m hm
      · refine Or.inl (Or.inl ⟨by simp [hall], ?_⟩)
        rintro ⟨o', ho'⟩
        have h1 := ho' first (by simp)
        rw [hf] at h1
        injection h1 with h1
        subst h1
        apply hall
        rw [List.all_eq_true]
        intro m hm
        simpa using ho' m (by simp [hm])

theorem stackNT_getAt [DecidableEq O] (l : List (NT O)) (d : Nat) (s : Shape)
    (hs : ∀ m ∈ l, shape m = s) (hd : d ≤ s.length) (c : List Nat) :
    getAt (stackNT true l d) c = (c[d]?).bind (fun i => (l[i]?).bind (fun m => getAt m (c.eraseIdx d))) := by
  rcases stackNT_cases l d with (⟨h, _⟩ | rfl) | ⟨o, first, rest, rfl, hall, h⟩
  · rw [h, getAt_stack]
  · simp [stackNT, getAt_stack]
  · rw [h, getAt_shared, hs first (by simp), inB_insertIdx d s _ c hd]
    cases hc : c[d]? with
    | none => simp
    | some i =>
      simp only [Option.bind_some]
      by_cases hi : i < (first :: rest).length
      · have hm : (first :: rest)[i] ∈ first :: rest := List.getElem_mem hi
        have hsh := sharedPayload_eq_some (hall _ hm)
        rw [hs _ hm] at hsh
        rw [List.getElem?_eq_getElem hi]
        simp only [Option.bind_some]
        rw [hsh, getAt_shared]
        have hi' : i < rest.length + 1 := by simpa using hi
        simp [hi']
      · have : (first :: rest)[i]? = none := by simpa using Nat.le_of_not_lt hi
        have hi' : ¬ i < rest.length + 1 := by simpa using hi
        simp [this, hi']

theorem stackNT_shape [DecidableEq O] (cap : Bool) (first : NT O) (rest : List (NT O)) (d : Nat) :
    shape (stackNT cap (first :: rest) d) = (shape first).insertIdx d (rest.length + 1) := by
  simp only [stackNT]
  cases cap
  · simp [shape]
  · simp only [Bool.not_true, Bool.false_eq_true, ↓reduceIte]
    cases sharedPayload first with
    | none => simp [shape]
    | some o =>
      simp only
      split <;> simp [shape]

end NT
end TdVerif.C16
