/-
  C03 lemmas, part 1: the first loop of `_getitem_batch_size` (`Td.scan`) against torch's plan.
-/
import TdVerif.Model.C03Index

namespace TdVerif.C03
open TorchSpec Td

theorem truePositions_length (d : List Bool) : ∀ p, (truePositions d p).length = d.count true := by
  induction d with
  | nil => intro p; simp [truePositions]
  | cons b r ih => intro p; cases b <;> simp [truePositions, ih]

/-- no `Ellipsis` among the items -/
def noEll (items : List Ix) : Bool := items.all (· != Ix.ell)

@[simp] theorem noEll_nil : noEll [] = true := rfl
@[simp] theorem noEll_cons (x : Ix) (r : List Ix) : noEll (x :: r) = (x != Ix.ell && noEll r) := by
  simp [noEll]

theorem map_ok {α β} {f : α → β} {x : Except Err α} {y : β} (h : x.map f = .ok y) :
    ∃ a, x = .ok a ∧ f a = y := by
  cases x with
  | error e => simp [Except.map] at h
  | ok a => exact ⟨a, rfl, by simpa [Except.map] using h⟩

theorem consSel_ok {n i rest P} (h : consSel n i rest = .ok P) :
    ∃ P', rest = .ok P' ∧ P = .sel n (normIdx i n) :: P' ∧ (-(n : Int) ≤ i ∧ i < n) := by
  unfold consSel at h
  split at h
  · obtain ⟨a, h1, h2⟩ := map_ok h; exact ⟨a, h1, h2.symm, by assumption⟩
  · cases h

theorem consAdv_ok {n s d rest P} (h : consAdv n s d rest = .ok P) :
    ∃ P', rest = .ok P' ∧ P = .adv [n] s [d] :: P' := by
  unfold consAdv at h
  obtain ⟨a, h1, h2⟩ := map_ok h; exact ⟨a, h1, h2.symm⟩

theorem consSlice_ok {n a b c rest P} (h : consSlice n a b c rest = .ok P) :
    ∃ P' s e st, rest = .ok P' ∧ 0 < c.getD 1 ∧ SliceSpec.indices a b c n = .ok (s, e, st) ∧
      P = .sl n s.toNat st.toNat (SliceSpec.rangeLen s e st).toNat :: P' := by
  unfold consSlice at h
  split at h
  · cases h
  · split at h
    · cases h
    · rename_i s e st hi
      obtain ⟨P', h1, h2⟩ := map_ok h
      exact ⟨P', s, e, st, h1, by omega, hi, h2.symm⟩

end TdVerif.C03

namespace TdVerif.C03
open TorchSpec Td

@[simp] theorem advShapes_map_full (dims : Shape) : advShapes (dims.map Piece.full) = [] := by
  induction dims with
  | nil => rfl
  | cons n r ih => simpa [advShapes, Piece.full] using ih

@[simp] theorem advShapes_take_map_full (e : Nat) (dims : Shape) :
    advShapes (List.take e (dims.map Piece.full)) = [] := by
  rw [← List.map_take]; exact advShapes_map_full _

theorem advShapes_append (P Q : List Piece) : advShapes (P ++ Q) = advShapes P ++ advShapes Q := by
  induction P with
  | nil => rfl
  | cons p r ih => cases p <;> simp [advShapes, ih]

/-- the shapes recorded by the first loop are the shapes of torch's index tensors, in order -/
theorem scan_shapes (items : List Ix) : ∀ (e : Nat) (dims : Shape) (P : List Piece) (st : Scan),
    walk e dims items = .ok P → (scan items st).shapes = st.shapes ++ advShapes P := by
  induction items with
  | nil => intro e dims P st h; simp [walk] at h; subst h; simp [scan]
  | cons x r ih =>
    intro e dims P st h
    cases x with
    | none =>
      simp only [walk] at h
      obtain ⟨P', h1, rfl⟩ := map_ok h
      simp [scan, isSep, itemShape, advShapes, ih _ _ _ _ h1]
    | ell =>
      simp only [walk] at h
      obtain ⟨P', h1, rfl⟩ := map_ok h
      simp [scan, isSep, itemShape, advShapes_append, ih _ _ _ _ h1]
    | mask s d =>
      simp only [walk] at h
      split at h
      · obtain ⟨P', h1, rfl⟩ := map_ok h
        simp [scan, isSep, itemShape, advShapes, maskPiece, ih _ _ _ _ h1, truePositions_length]
      · cases h
    | int i =>
      cases dims with
      | nil => simp [walk] at h
      | cons n ds =>
        simp only [walk] at h
        obtain ⟨P', h1, rfl, -⟩ := consSel_ok h
        simp [scan, isSep, itemShape, advShapes, ih _ _ _ _ h1]
    | slice a b c =>
      cases dims with
      | nil => simp [walk] at h
      | cons n ds =>
        simp only [walk] at h
        obtain ⟨P', s, e', st', h1, -, -, rfl⟩ := consSlice_ok h
        simp [scan, isSep, itemShape, advShapes, ih _ _ _ _ h1]
    | list l =>
      cases dims with
      | nil => simp [walk] at h
      | cons n ds =>
        simp only [walk] at h
        obtain ⟨P', h1, rfl⟩ := consAdv_ok h
        simp [scan, isSep, itemShape, advShapes, ih _ _ _ _ h1]
    | range a b c =>
      cases dims with
      | nil => simp [walk] at h
      | cons n ds =>
        simp only [walk] at h
        obtain ⟨P', h1, rfl⟩ := consAdv_ok h
        simp [scan, isSep, itemShape, advShapes, ih _ _ _ _ h1]
    | tensor s d =>
      cases dims with
      | nil => simp [walk] at h
      | cons n ds =>
        cases s with
        | nil =>
          simp only [walk] at h
          obtain ⟨P', h1, rfl, -⟩ := consSel_ok h
          simp [scan, isSep, itemShape, advShapes, ih _ _ _ _ h1]
        | cons m s =>
          simp only [walk] at h
          obtain ⟨P', h1, rfl⟩ := consAdv_ok h
          simp [scan, isSep, itemShape, advShapes, ih _ _ _ _ h1]

end TdVerif.C03

namespace TdVerif.C03
open TorchSpec Td

theorem afterRun_eq_dropWhile (k : List Bool) : afterRun k = (k.dropWhile (·)).all (!·) := by
  induction k with
  | nil => rfl
  | cons b r ih => cases b <;> simp [afterRun, ih]

/-- the recursive `contiguous` is the textbook "strip leading un-indexed, strip the indexed run, nothing indexed left" -/
theorem contiguous_eq_dropWhile (k : List Bool) :
    contiguous k = ((k.dropWhile (!·)).dropWhile (·)).all (!·) := by
  induction k with
  | nil => rfl
  | cons b r ih => cases b <;> simp [contiguous, ih, afterRun_eq_dropWhile]

/-- the `look_for_disjoint` / `disjoint` automaton of `_getitem_batch_size`, on the dims that survive the ints
    (`false` = slice or None, `true` = index array) -/
def pyDisj : (seen look disj : Bool) → List Bool → Bool
  | _, _, d, [] => d
  | seen, _, d, false :: r => pyDisj seen (!d && seen) d r
  | _, look, d, true :: r => pyDisj true look (d || look) r

theorem pyDisj_disj (s l : Bool) (k : List Bool) : pyDisj s l true k = true := by
  induction k generalizing s l with
  | nil => rfl
  | cons b r ih => cases b <;> simp [pyDisj, ih]

theorem pyDisj_look (k : List Bool) : pyDisj true true false k = k.any id := by
  induction k with
  | nil => rfl
  | cons b r ih => cases b <;> simp [pyDisj, ih, pyDisj_disj]

theorem any_id_eq_not_all_not (k : List Bool) : k.any id = !k.all (!·) := by
  induction k with
  | nil => rfl
  | cons c r ih => cases c <;> simp [ih]

theorem pyDisj_run (k : List Bool) : pyDisj true false false k = !afterRun k := by
  induction k with
  | nil => rfl
  | cons b r ih =>
    cases b
    · simp only [pyDisj, afterRun, Bool.not_false, Bool.and_true, pyDisj_look]
      exact any_id_eq_not_all_not r
    · simp [pyDisj, afterRun, ih]

/-- the automaton decides exactly torch's placement rule -/
theorem pyDisj_start (k : List Bool) : pyDisj false false false k = !contiguous k := by
  induction k with
  | nil => rfl
  | cons b r ih => cases b <;> simp [pyDisj, contiguous, ih, pyDisj_run]

theorem pyDisj_falses (n : Nat) (s l d : Bool) : pyDisj s l d (List.replicate n false) = d := by
  induction n generalizing l with
  | zero => rfl
  | succ m ih => simp [List.replicate_succ, pyDisj, ih]

theorem pyDisj_append_false (n : Nat) : ∀ (s l d : Bool) (k : List Bool),
    pyDisj s l d (k ++ List.replicate n false) = pyDisj s l d k := by
  intro s l d k
  induction k generalizing s l d with
  | nil => simp [pyDisj_falses, pyDisj]
  | cons b r ih => cases b <;> simp [pyDisj, ih]

@[simp] theorem kinds_map_full (dims : Shape) : kinds (dims.map Piece.full) = List.replicate dims.length false := by
  induction dims with
  | nil => rfl
  | cons n r ih => simp [kinds, Piece.full, ih, List.replicate_succ]

theorem kinds_append (P Q : List Piece) : kinds (P ++ Q) = kinds P ++ kinds Q := by
  induction P with
  | nil => rfl
  | cons p r ih => cases p <;> simp [kinds, ih]

end TdVerif.C03

namespace TdVerif.C03
open TorchSpec Td

@[simp] theorem isEmpty_append_singleton {α} (l : List α) (x : α) : (l ++ [x]).isEmpty = false := by
  cases l <;> rfl

/-- the first loop's `disjoint` flag is the automaton run over torch's dim kinds -/
theorem scan_disjoint (items : List Ix) : ∀ (e : Nat) (dims : Shape) (P : List Piece) (st : Scan),
    noEll items = true → walk e dims items = .ok P →
    (scan items st).disjoint = pyDisj (!st.shapes.isEmpty) st.look st.disjoint (kinds P) := by
  induction items with
  | nil => intro e dims P st _ h; simp [walk] at h; subst h; simp [scan, pyDisj_falses]
  | cons x r ih =>
    intro e dims P st hn h
    simp only [noEll_cons, Bool.and_eq_true] at hn
    obtain ⟨hx, hr⟩ := hn
    cases x with
    | none =>
      simp only [walk] at h
      obtain ⟨P', h1, rfl⟩ := map_ok h
      simp [scan, isSep, itemShape, kinds, pyDisj, ih _ _ _ _ hr h1]
    | ell => simp at hx
    | mask s d =>
      simp only [walk] at h
      split at h
      · obtain ⟨P', h1, rfl⟩ := map_ok h
        simp [scan, isSep, itemShape, kinds, maskPiece, pyDisj, ih _ _ _ _ hr h1]
      · cases h
    | int i =>
      cases dims with
      | nil => simp [walk] at h
      | cons n ds =>
        simp only [walk] at h
        obtain ⟨P', h1, rfl, -⟩ := consSel_ok h
        simp [scan, isSep, itemShape, kinds, pyDisj, ih _ _ _ _ hr h1]
    | slice a b c =>
      cases dims with
      | nil => simp [walk] at h
      | cons n ds =>
        simp only [walk] at h
        obtain ⟨P', s, e', st', h1, -, -, rfl⟩ := consSlice_ok h
        simp [scan, isSep, itemShape, kinds, pyDisj, ih _ _ _ _ hr h1]
    | list l =>
      cases dims with
      | nil => simp [walk] at h
      | cons n ds =>
        simp only [walk] at h
        obtain ⟨P', h1, rfl⟩ := consAdv_ok h
        simp [scan, isSep, itemShape, kinds, pyDisj, ih _ _ _ _ hr h1]
    | range a b c =>
      cases dims with
      | nil => simp [walk] at h
      | cons n ds =>
        simp only [walk] at h
        obtain ⟨P', h1, rfl⟩ := consAdv_ok h
        simp [scan, isSep, itemShape, kinds, pyDisj, ih _ _ _ _ hr h1]
    | tensor s d =>
      cases dims with
      | nil => simp [walk] at h
      | cons n ds =>
        cases s with
        | nil =>
          simp only [walk] at h
          obtain ⟨P', h1, rfl, -⟩ := consSel_ok h
          simp [scan, isSep, itemShape, kinds, pyDisj, ih _ _ _ _ hr h1]
        | cons m s =>
          simp only [walk] at h
          obtain ⟨P', h1, rfl⟩ := consAdv_ok h
          simp [scan, isSep, itemShape, kinds, pyDisj, ih _ _ _ _ hr h1]

/-- what `_getitem_batch_size` knows after its first loop, in torch's terms -/
theorem scan_init (items : List Ix) (e : Nat) (dims : Shape) (P : List Piece)
    (hn : noEll items = true) (h : walk e dims items = .ok P) :
    (scan items { shapes := [], look := false, disjoint := false }).shapes = advShapes P ∧
    (scan items { shapes := [], look := false, disjoint := false }).disjoint = !contiguous (kinds P) := by
  constructor
  · have := scan_shapes items e dims P { shapes := [], look := false, disjoint := false } h
    rw [this]; rfl
  · have := scan_disjoint items e dims P { shapes := [], look := false, disjoint := false } hn h
    rw [this]; exact pyDisj_start _

end TdVerif.C03
