/-
  C06 — assignments that are accepted under lock and walk down the tree: metadata setters (`names`, `batch_size`, device)
  and `memmap_`.  Both are folds of a node-local step ("touch": invalidate, then replace leaves / attributes of one node)
  over the tensordicts the setter visits.  A single touch of a lazy stack does not keep the caches coherent on its own
  (`@erase_cache` resets the stack's cache only); the fold does, because the members' setters run as well.
-/
import TdVerif.Lemmas.C06Events

namespace TdVerif.C06
open TdVerif.C05

/-- the node-local step both events are made of: `g j` replaces leaves / attributes of node `j` only -/
def touch (g : Nat → LNode → LNode) (skipLazy : Bool) (s : CState) (j : Nat) : CState :=
  if (s.heap.node j).lazy then
    (if skipLazy then s
     else { base := { s.base with heap := s.heap.upd j (g j) }, cache := eraseAt s.cache j })
  else
    { base := { s.base with heap := s.heap.upd j (g j) },
      cache := if flagged s.heap j then eraseUpF s.heap.size s.heap s.cache j else s.cache }

/-- `g` leaves the lock bookkeeping and the nested tensordicts alone -/
def PayloadOnly (g : Nat → LNode → LNode) : Prop :=
  ∀ j n, (g j n).alive = n.alive ∧ (g j n).lazy = n.lazy ∧ (g j n).flag = n.flag ∧ (g j n).parents = n.parents ∧
    (g j n).kids = n.kids

def attrG (f v : Nat) : Nat → LNode → LNode := fun _ n => { n with attrs := setField n.attrs f v }
def memmapG (news : List ((Nat × String) × Nat)) : Nat → LNode → LNode :=
  fun j n => { n with leaves := n.leaves.map (newLeaf news j) }

theorem attrG_payloadOnly (f v : Nat) : PayloadOnly (attrG f v) := fun _ _ => ⟨rfl, rfl, rfl, rfl, rfl⟩
theorem memmapG_payloadOnly (news : List ((Nat × String) × Nat)) : PayloadOnly (memmapG news) :=
  fun _ _ => ⟨rfl, rfl, rfl, rfl, rfl⟩

theorem attrTouch_eq (s : CState) (j f v : Nat) : attrTouch s j f v = touch (attrG f v) false s j := by
  unfold attrTouch touch attrG
  split <;> simp_all

theorem memmapTouch_eq (news : List ((Nat × String) × Nat)) (s : CState) (j : Nat) :
    memmapTouch news s j = touch (memmapG news) true s j := by
  unfold memmapTouch touch memmapG
  split <;> simp_all

theorem flagged_of_flag {h h' : Heap} {m : Nat} (e : (h'.node m).flag = (h.node m).flag) : flagged h' m = flagged h m := by
  unfold flagged; rw [e]

/-- what the fold maintains, relative to the state `s0` it started from; `D` = the nodes touched so far -/
structure Touched (skipLazy : Bool) (s0 s : CState) (D : Nat → Prop) : Prop where
  inv : Inv s.heap
  shape : SameShape s0.heap s.heap
  flags : ∀ m, (s.heap.node m).flag = (s0.heap.node m).flag
  cache : ∀ p, s.cache p = [] ∨ s.cache p = s0.cache p
  modif : ∀ m, s.heap.node m ≠ s0.heap.node m → D m ∧ ((s0.heap.node m).lazy = true → skipLazy = false)
  erased : ∀ k, D k → (s0.heap.node k).lazy = false → ∀ p, live s0.heap p = true → flagged s0.heap p = true →
    Reach s0.heap p k → s.cache p = []

theorem Touched.start (skipLazy : Bool) (s0 : CState) (hinv : Inv s0.heap) : Touched skipLazy s0 s0 (fun _ => False) :=
  ⟨hinv, SameShape.refl _, fun _ => rfl, fun _ => .inr rfl, fun _ h => absurd rfl h, fun _ h => h.elim⟩

theorem touch_cache_cases (g : Nat → LNode → LNode) (b : Bool) (s : CState) (j p : Nat) :
    (touch g b s j).cache p = [] ∨ (touch g b s j).cache p = s.cache p := by
  unfold touch
  split
  · split
    · exact .inr rfl
    · exact eraseAt_cases s.cache j p
  · show (if flagged s.heap j then eraseUpF s.heap.size s.heap s.cache j else s.cache) p = [] ∨ _
    split
    · exact eraseUpF_cases _ _ _ _ _
    · exact .inr rfl

theorem touch_step {g : Nat → LNode → LNode} (hg : PayloadOnly g) {b : Bool} {s0 s : CState} {D : Nat → Prop}
    (hI : Touched b s0 s D) (j : Nat) (hl0 : live s0.heap j = true) :
    Touched b s0 (touch g b s j) (fun k => D k ∨ k = j) := by
  have hl : live s.heap j = true := by rw [hI.shape.live]; exact hl0
  have hj : j < s.heap.size := lt_size_of_live hI.inv hl
  have hlazy : (s.heap.node j).lazy = (s0.heap.node j).lazy := hI.shape.lazy j
  by_cases hskip : (s.heap.node j).lazy = true ∧ b = true
  · -- a lazy stack that the event skips
    have e : touch g b s j = s := by unfold touch; simp [hskip.1, hskip.2]
    rw [e]
    refine ⟨hI.inv, hI.shape, hI.flags, hI.cache, fun m hm => ⟨.inl (hI.modif m hm).1, (hI.modif m hm).2⟩, ?_⟩
    intro k hk hkl p hp hf r
    rcases hk with hk | rfl
    · exact hI.erased k hk hkl p hp hf r
    · rw [← hlazy, hskip.1] at hkl; cases hkl
  · -- node `j` is replaced
    have hheap : (touch g b s j).heap = s.heap.upd j (g j) := by
      unfold touch
      split
      · rename_i hz
        have : b = false := by
          cases b with
          | false => rfl
          | true => exact absurd ⟨hz, rfl⟩ hskip
        simp [this, CState.heap]
      · rfl
    have k5 := hg j (s.heap.node j)
    have nself : (s.heap.upd j (g j)).node j = g j (s.heap.node j) := upd_node_self _ _ _
    have nne : ∀ m, m ≠ j → (s.heap.upd j (g j)).node m = s.heap.node m := fun m hm => upd_node_ne _ _ _ _ hm
    have hinv' : Inv (s.heap.upd j (g j)) :=
      inv_upd_leaves hI.inv hj (g j (s.heap.node j)) k5.1 k5.2.1 k5.2.2.1 k5.2.2.2.1 k5.2.2.2.2
    have hsh : SameShape s.heap (s.heap.upd j (g j)) := by
      refine ⟨rfl, fun m => ?_⟩
      by_cases hm : m = j
      · subst hm; rw [nself]; exact ⟨k5.2.2.2.2, k5.2.1, k5.1⟩
      · rw [nne m hm]; exact ⟨rfl, rfl, rfl⟩
    have hfl : ∀ m, ((s.heap.upd j (g j)).node m).flag = (s.heap.node m).flag := by
      intro m
      by_cases hm : m = j
      · subst hm; rw [nself]; exact k5.2.2.1
      · rw [nne m hm]
    refine ⟨by rw [hheap]; exact hinv', by rw [hheap]; exact hI.shape.trans hsh,
      fun m => by rw [hheap, hfl m]; exact hI.flags m, ?_, ?_, ?_⟩
    · intro p
      rcases touch_cache_cases g b s j p with x | x
      · exact .inl x
      · rw [x]; exact hI.cache p
    · intro m hm
      rw [hheap] at hm
      by_cases hmj : m = j
      · subst hmj
        refine ⟨.inr rfl, fun hz => ?_⟩
        cases hb : b with
        | false => rfl
        | true => exact absurd ⟨by rw [hlazy]; exact hz, hb⟩ hskip
      · rw [nne m hmj] at hm
        exact ⟨.inl (hI.modif m hm).1, (hI.modif m hm).2⟩
    · intro k hk hkl p hp hf r
      rcases hk with hk | rfl
      · rcases touch_cache_cases g b s j p with x | x
        · exact x
        · rw [x]; exact hI.erased k hk hkl p hp hf r
      · -- the plain node just touched: `_erase_cache_up` reached every flagged holder
        have hz : (s.heap.node k).lazy = false := by rw [hlazy]; exact hkl
        have hp' : live s.heap p = true := by rw [hI.shape.live]; exact hp
        have hf' : flagged s.heap p = true := by rw [flagged_of_flag (hI.flags p)]; exact hf
        have r' : Reach s.heap p k := hI.shape.reach r
        have hfk : flagged s.heap k = true := (closed_reach hI.inv hp' hf' k r').2
        have : (touch g b s k).cache = eraseUpF s.heap.size s.heap s.cache k := by
          unfold touch; simp [hz, hfk]
        rw [this]
        exact eraseUpF_reaches s.heap hI.inv p k r' hp' hf' s.heap.size s.cache
          (by have := lt_size_of_live hI.inv hp'; omega)

theorem touch_fold {g : Nat → LNode → LNode} (hg : PayloadOnly g) {b : Bool} {s0 : CState} :
    ∀ (T : List Nat) (s : CState) (D : Nat → Prop), Touched b s0 s D → (∀ j, j ∈ T → live s0.heap j = true) →
      Touched b s0 (T.foldl (touch g b) s) (fun k => D k ∨ k ∈ T) := by
  intro T
  induction T with
  | nil =>
    intro s D hI _
    exact ⟨hI.inv, hI.shape, hI.flags, hI.cache, fun m hm => ⟨.inl (hI.modif m hm).1, (hI.modif m hm).2⟩,
      fun k hk => by
        rcases hk with hk | hk
        · exact hI.erased k hk
        · cases hk⟩
  | cons j T ih =>
    intro s D hI hlive
    have h1 := touch_step hg hI j (hlive j List.mem_cons_self)
    have h2 := ih (touch g b s j) _ h1 (fun k hk => hlive k (List.mem_cons_of_mem _ hk))
    refine ⟨h2.inv, h2.shape, h2.flags, h2.cache, fun m hm => ?_, fun k hk => ?_⟩
    · obtain ⟨a, c⟩ := h2.modif m hm
      refine ⟨?_, c⟩
      rcases a with (a | a) | a
      · exact .inl a
      · exact .inr (a ▸ List.mem_cons_self)
      · exact .inr (List.mem_cons_of_mem _ a)
    · apply h2.erased k
      rcases hk with hk | hk
      · exact .inl (.inl hk)
      · rcases List.mem_cons.mp hk with rfl | hk
        · exact .inl (.inr rfl)
        · exact .inr hk

/-- the caches are coherent after the fold: whoever kept an entry holds no touched node -/
theorem cinv_of_touched (sem : Sem) {b : Bool} {s0 s : CState} {D : Nat → Prop} (h0 : CInv sem s0)
    (hI : Touched b s0 s D) (hres : ∀ o, IsResult s0 o → ¬ D o)
    (hcover : ∀ m, D m → (s0.heap.node m).lazy = true → b = false →
      ∃ k, D k ∧ (s0.heap.node k).lazy = false ∧ Reach s0.heap m k) :
    CInv sem s := by
  have hlive : ∀ m, live s.heap m = live s0.heap m := fun m => hI.shape.live m
  have hflag : ∀ m, flagged s.heap m = flagged s0.heap m := fun m => flagged_of_flag (hI.flags m)
  refine ⟨hI.inv, ?_, ?_, ?_⟩
  · intro p hp
    rw [hlive, hflag] at hp
    rcases hI.cache p with x | x
    · exact x
    · rw [x]; exact h0.clean p hp
  · intro i q o hmem
    rcases hI.cache i with x | x
    · rw [x] at hmem; cases hmem
    · rw [x] at hmem; rw [hI.shape.1]; exact h0.objs i q o hmem
  · refine coherent_transfer sem s0 s hI.cache ?_ ?_ h0.coh
    · intro p hne hne'
      have hlf : (live s0.heap p && flagged s0.heap p) = true := by
        cases hx : (live s0.heap p && flagged s0.heap p) with
        | true => rfl
        | false => exact absurd (h0.clean p hx) hne
      simp only [Bool.and_eq_true] at hlf
      apply contentF_congr_reach
      intro m r
      refine ⟨(hI.shape.2 m).1, ?_⟩
      by_cases hm : s.heap.node m = s0.heap.node m
      · rw [hm]
      · exfalso
        obtain ⟨hd, hz⟩ := hI.modif m hm
        cases hzm : (s0.heap.node m).lazy with
        | false => exact hne' (hI.erased m hd hzm p hlf.1 hlf.2 r)
        | true =>
          obtain ⟨k, hk, hkz, rk⟩ := hcover m hd hzm (hz hzm)
          exact hne' (hI.erased k hk hkz p hlf.1 hlf.2 (r.trans rk))
    · intro o hr
      refine ⟨(hI.shape.2 o).1, ?_⟩
      by_cases hm : s.heap.node o = s0.heap.node o
      · rw [hm]
      · exact absurd (hI.modif o hm).1 (hres o hr)

/-! ### the nodes a setter visits are below the node it was called on -/

theorem attrTargetsF_reach (h : Heap) : ∀ n d i k, k ∈ attrTargetsF n h d i → Reach h i k := by
  intro n
  induction n with
  | zero => intro d i k hk; simp [attrTargetsF] at hk; subst hk; exact .refl _
  | succ n ih =>
    intro d i k hk
    simp only [attrTargetsF] at hk
    split at hk
    · rcases List.mem_cons.mp hk with rfl | hk
      · exact .refl _
      · obtain ⟨c, hc, hkc⟩ := List.mem_flatMap.mp hk
        exact (Reach.kid hc).trans (ih d c k hkc)
    · split at hk
      · simp at hk; subst hk; exact .refl _
      · rcases List.mem_cons.mp hk with rfl | hk
        · exact .refl _
        · obtain ⟨c, hc, hkc⟩ := List.mem_flatMap.mp hk
          exact (Reach.kid hc).trans (ih (d - 1) c k hkc)

theorem attrTargets_live {h : Heap} (hinv : Inv h) {d i : Nat} (hl : live h i = true) :
    ∀ k, k ∈ attrTargets h d i → live h k = true :=
  fun k hk => live_of_reach hinv hl (attrTargetsF_reach h _ d i k (of_mem_dedup hk))

theorem lazyCovered_spec {h : Heap} {ts : List Nat} (hc : lazyCovered h ts = true) :
    ∀ m, m ∈ ts → (h.node m).lazy = true → ∃ k, k ∈ ts ∧ (h.node k).lazy = false ∧ Reach h m k := by
  intro m hm hz
  unfold lazyCovered at hc
  have := (List.all_eq_true.mp hc) m hm
  simp only [hz, Bool.not_true, Bool.false_or, List.any_eq_true, Bool.and_eq_true, Bool.not_eq_true'] at this
  obtain ⟨k, hk, hkz, hr⟩ := this
  refine ⟨k, hk, hkz, ?_⟩
  unfold lazyCovered.reachB at hr
  exact attrTargetsF_reach h _ _ m k (by simpa using hr)

/-! ### a non-empty lazy stack always hands over to a plain tensordict -/

theorem attrTargetsF_self (h : Heap) : ∀ n d i, i ∈ attrTargetsF n h d i := by
  intro n d i
  cases n with
  | zero => simp [attrTargetsF]
  | succ n =>
    simp only [attrTargetsF]
    split
    · exact List.mem_cons_self
    · split
      · simp
      · exact List.mem_cons_self

/-- below every lazy stack there is a plain tensordict that every walk from the stack visits, whatever the depth -/
theorem lazy_chain {h : Heap} (ho : Ordered h) (hne : NonEmptyLazy h) :
    ∀ m, (h.node m).lazy = true → ∃ k, (h.node k).lazy = false ∧ ∀ n, m < n → ∀ d, k ∈ attrTargetsF n h d m := by
  intro m
  induction m using Nat.strongRecOn with
  | _ m ih =>
    intro hz
    have hk := hne m hz
    obtain ⟨c, hc⟩ := List.exists_mem_of_ne_nil _ hk
    have hcm : c < m := ho m c hc
    cases hzc : (h.node c).lazy with
    | false =>
      refine ⟨c, hzc, fun n hn d => ?_⟩
      cases n with
      | zero => omega
      | succ n =>
        simp only [attrTargetsF, hz, if_true]
        exact List.mem_cons_of_mem _ (List.mem_flatMap.mpr ⟨c, hc, attrTargetsF_self h n d c⟩)
    | true =>
      obtain ⟨k, hkz, hk⟩ := ih c hcm hzc
      refine ⟨k, hkz, fun n hn d => ?_⟩
      cases n with
      | zero => omega
      | succ n =>
        simp only [attrTargetsF, hz, if_true]
        exact List.mem_cons_of_mem _ (List.mem_flatMap.mpr ⟨c, hc, hk n (by omega) d⟩)

theorem covered_aux {h : Heap} (ho : Ordered h) (hne : NonEmptyLazy h) :
    ∀ n d i, i < n → ∀ m, m ∈ attrTargetsF n h d i → (h.node m).lazy = true →
      ∃ k, k ∈ attrTargetsF n h d i ∧ (h.node k).lazy = false ∧ lazyCovered.reachB h m k = true := by
  intro n
  induction n with
  | zero => intro d i hi; omega
  | succ n ih =>
    intro d i hi m hm hz
    have self_case : m = i → ∃ k, k ∈ attrTargetsF (n + 1) h d i ∧ (h.node k).lazy = false ∧ lazyCovered.reachB h m k = true := by
      intro e; subst e
      obtain ⟨k, hkz, hk⟩ := lazy_chain ho hne m hz
      refine ⟨k, hk (n + 1) hi d, hkz, ?_⟩
      unfold lazyCovered.reachB
      simpa using hk (m + 1) (by omega) (m + 1)
    simp only [attrTargetsF] at hm
    split at hm
    · rename_i hzi
      rcases List.mem_cons.mp hm with e | hm
      · exact self_case e
      · obtain ⟨c, hc, hmc⟩ := List.mem_flatMap.mp hm
        have hci : c < i := ho i c hc
        obtain ⟨k, hk, hkz, hr⟩ := ih d c (by omega) m hmc hz
        refine ⟨k, ?_, hkz, hr⟩
        simp only [attrTargetsF, hzi, if_true]
        exact List.mem_cons_of_mem _ (List.mem_flatMap.mpr ⟨c, hc, hk⟩)
    · rename_i hzi
      split at hm
      · rename_i hd
        have : m = i := by simpa using hm
        exact self_case this
      · rename_i hd
        rcases List.mem_cons.mp hm with e | hm
        · exact self_case e
        · obtain ⟨c, hc, hmc⟩ := List.mem_flatMap.mp hm
          have hci : c < i := ho i c hc
          obtain ⟨k, hk, hkz, hr⟩ := ih (d - 1) c (by omega) m hmc hz
          refine ⟨k, ?_, hkz, hr⟩
          simp only [attrTargetsF, hzi, hd, if_false]
          exact List.mem_cons_of_mem _ (List.mem_flatMap.mpr ⟨c, hc, hk⟩)

/-- **with non-empty lazy stacks (part of the C05 invariant) every setter walk is covered**, whatever its depth -/
theorem lazyCovered_of_inv {h : Heap} (hinv : Inv h) (d i : Nat) : lazyCovered h (attrTargets h d i) = true := by
  unfold lazyCovered
  rw [List.all_eq_true]
  intro m hm
  cases hz : (h.node m).lazy with
  | false => simp
  | true =>
    obtain ⟨k, hk, hkz, hr⟩ := covered_aux hinv.ordered hinv.nonEmptyLazy (i + 1) d i (by omega) m (of_mem_dedup hm) hz
    simp only [Bool.not_true, Bool.false_or, List.any_eq_true, Bool.and_eq_true, Bool.not_eq_true']
    exact ⟨k, mem_dedup hk, hkz, hr⟩

end TdVerif.C06
