/-
  C04 — malformed keys: the converse of `spells_tup` (Props/C04.lean `malformed_key_iff`)
-/
import TdVerif.Model.Key
import TdVerif.Model.C04Spec
import TdVerif.Lemmas.C04

namespace TdVerif.C04
open TdVerif TdVerif.Key

mutual
theorem tup_spells : ∀ (k : Key) (p : List String), unravelTupCpp k = p → p ≠ [] → Spells k p
  | .str s, p, h, _ => by simp [unravelTupCpp] at h; subst h; exact .str s
  | .bad, p, h, hp => by simp [unravelTupCpp] at h; exact absurd h hp
  | .tup l, p, h, hp => by
    simp only [unravelTupCpp, unravelTupCppL] at h
    cases hl : unravelTupCppLO l with
    | none => rw [hl] at h; simp at h; exact absurd h hp
    | some q =>
      rw [hl] at h; simp at h; subst h
      exact .tup l q (tupL_spells l q hl)
theorem tupL_spells : ∀ (l : List Key) (p : List String), unravelTupCppLO l = some p → SpellsL l p
  | [], p, h => by simp [unravelTupCppLO] at h; subst h; exact .nil
  | .str s :: rest, p, h => by
    simp only [unravelTupCppLO, Option.map_eq_some_iff] at h
    obtain ⟨q, hq, rfl⟩ := h
    exact .cons (.str s) rest [s] q (.str s) (by simp) (tupL_spells rest q hq)
  | .bad :: rest, p, h => by simp [unravelTupCppLO, unravelTupCpp] at h
  | .tup l :: rest, p, h => by
    simp only [unravelTupCppLO] at h
    cases hk : unravelTupCpp (.tup l) with
    | nil => rw [hk] at h; simp at h
    | cons a b =>
      rw [hk] at h
      simp only [Option.map_eq_some_iff] at h
      obtain ⟨q, hq, rfl⟩ := h
      exact .cons (.tup l) rest (a :: b) q (tup_spells (.tup l) (a :: b) hk (by simp)) (by simp) (tupL_spells rest q hq)
end

/-- the keys that spell no path are exactly those the unraveller answers with the empty tuple (which `get`/`set`/`del_` refuse) -/
theorem malformed_iff (k : Key) : unravelTupCpp k = [] ↔ ¬ ∃ p, p ≠ [] ∧ Spells k p := by
  constructor
  · rintro h ⟨p, hp, hs⟩
    rw [spells_tup hs] at h; exact hp h
  · intro h
    cases hu : unravelTupCpp k with
    | nil => rfl
    | cons a b => exact absurd ⟨a :: b, by simp, tup_spells k (a :: b) hu (by simp)⟩ h


end TdVerif.C04
