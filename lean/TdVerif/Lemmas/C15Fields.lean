/-
  C15 — lemmas about `setField` / `getField` used by Props/C15.lean.
-/
import TdVerif.Lemmas.C15Wrap

namespace TdVerif.C15

section fields
variable {T V : Type}

/-- every successful `_set` is one of the two primitive writes, on a declared field of an unlocked instance -/
theorem setField_shape (fields : List String) (o : Opts) (h : Hint) (tc tc' : TC (TDm T V) V) (key : String)
    (a : SetArg T V) (hs : setField fields o h tc key a = .ok tc') :
    tc.td.locked = false ∧ key ∈ fields ∧ ((∃ e, tc' = setTensor tc key e) ∨ (a.kind = .none ∧ tc' = setNone tc key)) := by
  unfold setField at hs
  cases hl : tc.td.locked
  · simp only [hl, Bool.false_eq_true, ↓reduceIte] at hs
    by_cases hk : fields.contains key = true
    · simp only [hk, Bool.not_true, Bool.false_eq_true, ↓reduceIte] at hs
      refine ⟨rfl, by simpa using hk, ?_⟩
      cases ho : o.autocast <;> simp only [ho, Bool.false_eq_true, ↓reduceIte] at hs
      · cases hkind : a.kind <;> simp only [hkind] at hs <;>
          (try (cases hn : o.nocast <;> simp only [hn, Bool.false_eq_true, ↓reduceIte] at hs)) <;>
          simp at hs <;> first
            | exact Or.inl ⟨_, hs.symm⟩
            | exact Or.inr ⟨rfl, hs.symm⟩
      · cases hkind : a.kind <;> cases h <;> simp only [hkind] at hs <;>
          (try (cases hc : a.castAccepted <;> simp only [hc] at hs)) <;>
          (try (cases hc2 : a.castOther <;> simp only [hc2] at hs)) <;>
          simp at hs <;> first
            | exact Or.inl ⟨_, hs.symm⟩
            | exact Or.inr ⟨rfl, hs.symm⟩
    · have hk2 : key ∉ fields := by simpa using hk
      simp [hk2] at hs
  · simp [hl] at hs

theorem keys_setTensor (tc : TC (TDm T V) V) (key : String) (e : Entry T V) (x : String) :
    (x ∈ (setTensor tc key e).td.keys ↔ x = key ∨ x ∈ tc.td.keys)
    ∧ (x ∈ (setTensor tc key e).nt.keys ↔ x ≠ key ∧ x ∈ tc.nt.keys) := by
  simp only [setTensor, TDm.keys, NT.keys]
  exact ⟨keys_assocSet key e tc.td.entries x, keys_assocDel key tc.nt x⟩

theorem keys_setNone (tc : TC (TDm T V) V) (key : String) (x : String) :
    (x ∈ (setNone tc key).td.keys ↔ x ≠ key ∧ x ∈ tc.td.keys)
    ∧ (x ∈ (setNone tc key).nt.keys ↔ x = key ∨ x ∈ tc.nt.keys) := by
  simp only [setNone, TDm.keys, NT.keys]
  exact ⟨keys_assocDel key tc.td.entries x, keys_assocSet key none tc.nt x⟩

theorem nodup_keys_assocDel {α : Type} (k : String) (l : List (String × α)) (h : (l.map Prod.fst).Nodup) :
    ((assocDel k l).map Prod.fst).Nodup := by
  unfold assocDel
  exact List.Nodup.sublist (List.Sublist.map _ List.filter_sublist) h

theorem nodup_keys_assocSet {α : Type} (k : String) (v : α) :
    ∀ l : List (String × α), (l.map Prod.fst).Nodup → ((assocSet k v l).map Prod.fst).Nodup
  | [], _ => by simp [assocSet]
  | (k0, v0) :: r, h => by
    simp only [List.map_cons, List.nodup_cons] at h
    unfold assocSet
    by_cases h0 : k0 = k
    · subst h0; simpa using h
    · simp only [h0, if_false, List.map_cons, List.nodup_cons]
      refine ⟨?_, nodup_keys_assocSet k v r h.2⟩
      intro hm
      rcases (keys_assocSet k v r k0).mp hm with h1 | h1
      · exact h0 h1
      · exact h.1 h1

theorem getField_setTensor (tc : TC (TDm T V) V) (key : String) (e : Entry T V) (g : String) :
    getField (setTensor tc key e) g = if g = key then .ok (unwrapEntry e) else getField tc g := by
  unfold getField setTensor
  simp only [lookup_assocDel, lookup_assocSet]
  by_cases h : g = key <;> simp [h]

theorem getField_setNone (tc : TC (TDm T V) V) (key : String) (g : String) :
    getField (setNone tc key) g = if g = key then .ok (.obj none) else getField tc g := by
  unfold getField setNone
  simp only [lookup_assocDel, lookup_assocSet]
  by_cases h : g = key <;> simp [h]

end fields

end TdVerif.C15
