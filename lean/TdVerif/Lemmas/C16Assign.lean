/-
  C16 — lemmas about indexed assignment on the promoted representation (`assign`, `assignNth`, `assignMembers`).
-/
import TdVerif.Lemmas.C16Tolist

namespace TdVerif.C16
namespace NT
variable {O : Type}

mutual
/-- promoted form: every shared leaf is a scalar (`maybe_to_stack` output) -/
def allScalar : NT O → Bool
  | .shared _ s => s.isEmpty
  | .stack ms _ => allScalarList ms
def allScalarList : List (NT O) → Bool
  | [] => true
  | m :: r => allScalar m && allScalarList r
end

theorem allScalarList_mem : ∀ (ms : List (NT O)), allScalarList ms = true → ∀ m ∈ ms, allScalar m = true
  | [], _, m, hm => by simp at hm
  | m0 :: r, h, m, hm => by
    simp only [allScalarList, Bool.and_eq_true] at h
    rcases List.mem_cons.mp hm with rfl | hm
    · exact h.1
    · exact allScalarList_mem r h.2 m hm

theorem allScalarList_of_mem : ∀ (ms : List (NT O)), (∀ m ∈ ms, allScalar m = true) → allScalarList ms = true
  | [], _ => rfl
  | m0 :: r, h => by
    simp only [allScalarList, Bool.and_eq_true]
    exact ⟨h m0 (by simp), allScalarList_of_mem r (fun m hm => h m (by simp [hm]))⟩

theorem fromShared_allScalar (o : O) : ∀ (s : Shape), allScalar (fromShared o s) = true
  | [] => by simp [fromShared, allScalar]
  | n :: s => by
    simp only [fromShared, allScalar]
    apply allScalarList_of_mem
    intro m hm
    rw [List.mem_replicate] at hm
    rw [hm.2]
    exact fromShared_allScalar o s

mutual
theorem maybeToStack_allScalar : ∀ (r : NT O), allScalar (maybeToStack r) = true
  | .shared o s => by simpa [maybeToStack] using fromShared_allScalar o s
  | .stack ms d => by
    simp only [maybeToStack, allScalar]
    exact maybeToStackList_allScalar ms
theorem maybeToStackList_allScalar : ∀ (ms : List (NT O)), allScalarList (maybeToStackList ms) = true
  | [] => rfl
  | m :: r => by
    simp only [maybeToStackList, allScalarList, Bool.and_eq_true]
    exact ⟨maybeToStack_allScalar m, maybeToStackList_allScalar r⟩
end

theorem fromShared_wf (o : O) : ∀ (s : Shape), posShape s → wf (fromShared o s) = true
  | [], _ => by simp [fromShared, wf]
  | n :: s, hp => by
    have hn : n ≠ 0 := hp n (by simp)
    obtain ⟨k, rfl⟩ := Nat.exists_eq_succ_of_ne_zero hn
    have hs : posShape s := fun m hm => hp m (by simp [hm])
    have ih := fromShared_wf o s hs
    have hsh := fromShared_shape o s hs
    simp only [fromShared, List.replicate_succ, wf, ih, Bool.true_and, Bool.and_eq_true, decide_eq_true_eq]
    refine ⟨by simp, ?_⟩
    rw [hsh]
    have : ∀ (j : Nat), wfList s (List.replicate j (fromShared o s)) = true := by
      intro j
      induction j with
      | zero => rfl
      | succ j ihj => simp [List.replicate_succ, wfList, ih, hsh, ihj]
    exact this k

mutual
theorem maybeToStack_wf : ∀ (r : NT O), wf r = true → posShape (shape r) → wf (maybeToStack r) = true
  | .shared o s, _, hp => by
    simp only [maybeToStack]
    exact fromShared_wf o s hp
  | .stack [] d, h, _ => by simp [wf] at h
  | .stack (m :: ms) d, h, hp => by
    have hw := h
    simp only [wf, Bool.and_eq_true, decide_eq_true_eq] at h
    have hm : posShape (shape m) := by
      intro n hn
      apply hp n
      simp only [shape]
      exact List.mem_insertIdx h.1.2 |>.mpr (Or.inr hn)
    simp only [maybeToStack, maybeToStackList, wf, Bool.and_eq_true, decide_eq_true_eq]
    refine ⟨⟨maybeToStack_wf m h.1.1 hm, by rw [maybeToStack_shape m h.1.1 hm]; exact h.1.2⟩, ?_⟩
    rw [maybeToStack_shape m h.1.1 hm]
    exact maybeToStackList_wf (shape m) ms h.2 hm
theorem maybeToStackList_wf : ∀ (s : Shape) (ms : List (NT O)), wfList s ms = true → posShape s →
    wfList s (maybeToStackList ms) = true
  | s, [], _, _ => rfl
  | s, m :: r, h, hp => by
    simp only [wfList, Bool.and_eq_true, decide_eq_true_eq] at h
    simp only [maybeToStackList, wfList, Bool.and_eq_true, decide_eq_true_eq]
    have hpm : posShape (shape m) := by rw [h.1.2]; exact hp
    exact ⟨⟨maybeToStack_wf m h.1.1 hpm, by rw [maybeToStack_shape m h.1.1 hpm]; exact h.1.2⟩,
      maybeToStackList_wf s r h.2 hp⟩
end

/-! coordinates around the stack dim -/

theorem insertIdx_eraseIdx_getElem? {α : Type} : ∀ (c : List α) (d : Nat) (j : α), c[d]? = some j →
    (c.eraseIdx d).insertIdx d j = c
  | [], d, j, h => by simp at h
  | x :: c, 0, j, h => by simp at h; simp [h]
  | x :: c, d + 1, j, h => by
    simp only [List.getElem?_cons_succ] at h
    simp [insertIdx_eraseIdx_getElem? c d j h]

/-- reading a stack at a coordinate obtained by inserting the member position at the stack dim -/
theorem getAt_stack_insert (ms : List (NT O)) (d j : Nat) (cm : List Nat) (hd : d ≤ cm.length) :
    getAt (.stack ms d) (cm.insertIdx d j) = (ms[j]?).bind (fun m => getAt m cm) := by
  rw [getAt_stack, List.getElem?_insertIdx_self, if_pos hd, List.eraseIdx_insertIdx_self]
  simp

theorem srcCoord_take_length (b : List RIx) (c' ca : List Nat)
    (h : srcCoord b (List.take (outShape b).length c') = some ca) : (outShape b).length ≤ c'.length := by
  have := srcCoord_out_length b _ ca h
  rw [List.length_take] at this
  omega

/-- F1: an integer item adds its position at the consumed dim and nothing to the output -/
theorem srcCoord_mid_fixed (b a : List RIx) (i : Nat) (c' : List Nat) :
    srcCoord (b ++ .fixed i :: a) c' = (srcCoord (b ++ a) c').map (fun cm => cm.insertIdx (nCons b) i) := by
  rw [srcCoord_append b (.fixed i :: a), srcCoord_append b a]
  cases hb : srcCoord b (List.take (outShape b).length c') with
  | none => simp
  | some ca =>
    have hl : ca.length = nCons b := srcCoord_length b _ ca hb
    simp only [Option.bind_some, srcCoord]
    cases srcCoord a (List.drop (outShape b).length c') with
    | none => simp
    | some cr => simp [← hl, insertIdx_append_mid]

/-- F2: a slice / index-list item reads output position `nb` and adds the selected source position at the consumed dim -/
theorem srcCoord_mid_multi (b a : List RIx) (x : RIx) (hx : x.consumes = true) (hf : ∀ i, x ≠ .fixed i) (c' : List Nat) :
    srcCoord (b ++ x :: a) c' =
      (c'[(outShape b).length]?).bind (fun k => (itemPos x k).bind (fun p =>
        (srcCoord (b ++ a) (c'.eraseIdx (outShape b).length)).map (fun cm => cm.insertIdx (nCons b) p))) := by
  rw [srcCoord_append b (x :: a)]
  by_cases hc : (outShape b).length < c'.length
  · obtain ⟨cb, crest, rfl, hcb⟩ : ∃ cb crest, c' = cb ++ crest ∧ cb.length = (outShape b).length :=
      ⟨c'.take (outShape b).length, c'.drop (outShape b).length, (List.take_append_drop _ _).symm,
        by rw [List.length_take]; omega⟩
    rw [List.take_left' hcb, List.drop_left' hcb]
    cases crest with
    | nil => simp at hc; omega
    | cons k cr =>
      rw [← hcb, getElem?_append_mid, eraseIdx_append_mid, srcCoord_item_cons x a k cr hx hf]
      simp only [Option.bind_some]
      rw [srcCoord_append b a, List.take_left' hcb, List.drop_left' hcb]
      cases hb : srcCoord b cb with
      | none => cases itemPos x k <;> simp
      | some ca =>
        have hl : ca.length = nCons b := srcCoord_length b _ ca hb
        cases itemPos x k with
        | none => simp
        | some p =>
          cases srcCoord a cr with
          | none => simp
          | some cr' => simp [← hl, insertIdx_append_mid]
  · have h1 : c'[(outShape b).length]? = none := by
      rw [List.getElem?_eq_none_iff]; omega
    have h2 : List.drop (outShape b).length c' = [] := by
      rw [List.drop_eq_nil_iff]; omega
    rw [h1, h2, srcCoord_item_nil x a hx hf]
    cases srcCoord b (List.take (outShape b).length c') <;> simp


/-! `lastPiece`: which value piece a member receives -/

theorem lastPiece_foldl_not_mem {α : Type} (j : Nat) : ∀ (P : List Nat) (pieces : List α) (acc : Option α), j ∉ P →
    (P.zip pieces).foldl (fun acc pp => if pp.1 = j then some pp.2 else acc) acc = acc
  | [], _, acc, _ => by simp
  | p :: P, [], acc, _ => by simp
  | p :: P, q :: Q, acc, h => by
    simp only [List.mem_cons, not_or] at h
    have hp : ¬ p = j := fun e => h.1 e.symm
    simp only [List.zip_cons_cons, List.foldl_cons, hp, ↓reduceIte]
    exact lastPiece_foldl_not_mem j P Q acc h.2

theorem lastPiece_foldl_at {α : Type} (j : Nat) (pc : α) : ∀ (P : List Nat) (pieces : List α) (acc : Option α) (k : Nat),
    P[k]? = some j → pieces[k]? = some pc → P.Nodup →
    (P.zip pieces).foldl (fun acc pp => if pp.1 = j then some pp.2 else acc) acc = some pc
  | [], _, _, k, h, _, _ => by simp at h
  | p :: P, [], _, k, _, h, _ => by simp at h
  | p :: P, q :: Q, acc, 0, h1, h2, hnd => by
    simp only [List.getElem?_cons_zero, Option.some.injEq] at h1 h2
    subst h1 h2
    simp only [List.nodup_cons] at hnd
    simp only [List.zip_cons_cons, List.foldl_cons, ↓reduceIte]
    exact lastPiece_foldl_not_mem p P Q (some q) hnd.1
  | p :: P, q :: Q, acc, k + 1, h1, h2, hnd => by
    simp only [List.getElem?_cons_succ] at h1 h2
    simp only [List.nodup_cons] at hnd
    simp only [List.zip_cons_cons, List.foldl_cons]
    exact lastPiece_foldl_at j pc P Q _ k h1 h2 hnd.2

theorem lastPiece_none {α : Type} (P : List Nat) (pieces : List α) (j : Nat) (h : j ∉ P) :
    lastPiece P pieces j = none := lastPiece_foldl_not_mem j P pieces none h

theorem lastPiece_some {α : Type} (P : List Nat) (pieces : List α) (j k : Nat) (pc : α)
    (h1 : P[k]? = some j) (h2 : pieces[k]? = some pc) (hnd : P.Nodup) : lastPiece P pieces j = some pc :=
  lastPiece_foldl_at j pc P pieces none k h1 h2 hnd

/-- with equally long lists: a piece is found exactly for the selected positions -/
theorem lastPiece_cases {α : Type} (P : List Nat) (pieces : List α) (j : Nat) (hl : pieces.length = P.length) (hnd : P.Nodup) :
    (j ∉ P ∧ lastPiece P pieces j = none)
    ∨ (∃ (k : Nat) (pc : α), P[k]? = some j ∧ pieces[k]? = some pc ∧ lastPiece P pieces j = some pc) := by
  by_cases hj : j ∈ P
  · obtain ⟨k, hk⟩ := List.getElem?_of_mem hj
    have hkl : k < pieces.length := by
      rw [hl]; exact (List.getElem?_eq_some_iff.mp hk).1
    exact Or.inr ⟨k, pieces[k], hk, List.getElem?_eq_getElem hkl, lastPiece_some P pieces j k _ hk (List.getElem?_eq_getElem hkl) hnd⟩
  · exact Or.inl ⟨hj, lastPiece_none P pieces j hj⟩

/-! structure of `assignNth` / `assignMembers` -/

theorem assignNth_spec : ∀ (ms : List (NT O)) (i : Nat) (rix : List RIx) (v : NT O) (ms' : List (NT O)),
    assignNth ms i rix v = .ok ms' →
    ∃ m m', ms[i]? = some m ∧ assign m rix v = .ok m' ∧ ms' = ms.set i m'
  | [], i, rix, v, ms', h => by simp [assignNth] at h
  | m :: r, 0, rix, v, ms', h => by
    simp only [assignNth] at h
    cases ha : assign m rix v with
    | error e => simp [ha, Except.map] at h
    | ok m' =>
      simp only [ha, Except.map] at h
      injection h with h
      exact ⟨m, m', by simp, ha, by simp [← h]⟩
  | m :: r, i + 1, rix, v, ms', h => by
    simp only [assignNth] at h
    cases hr : assignNth r i rix v with
    | error e => simp [hr, Except.map] at h
    | ok r' =>
      simp only [hr, Except.map] at h
      injection h with h
      obtain ⟨m0, m0', h1, h2, h3⟩ := assignNth_spec r i rix v r' hr
      exact ⟨m0, m0', by simpa using h1, h2, by simp [← h, h3]⟩

theorem assignMembers_spec : ∀ (ms : List (NT O)) (j0 : Nat) (P : List Nat) (pieces : List (NT O)) (rix : List RIx)
    (ms' : List (NT O)), assignMembers ms j0 P pieces rix = .ok ms' →
    ms'.length = ms.length ∧ ∀ (j : Nat) (m : NT O), ms[j]? = some m →
      (lastPiece P pieces (j0 + j) = none → ms'[j]? = some m)
      ∧ (∀ pc, lastPiece P pieces (j0 + j) = some pc → ∃ m', assign m rix pc = .ok m' ∧ ms'[j]? = some m')
  | [], j0, P, pieces, rix, ms', h => by
    simp only [assignMembers] at h
    injection h with h
    subst h
    exact ⟨rfl, by intro j m hm; simp at hm⟩
  | m0 :: r, j0, P, pieces, rix, ms', h => by
    simp only [assignMembers] at h
    cases hlp : lastPiece P pieces j0 with
    | none =>
      simp only [hlp] at h
      cases hr : assignMembers r (j0 + 1) P pieces rix with
      | error e => simp [hr, Except.map] at h
      | ok r' =>
        simp only [hr, Except.map] at h
        injection h with h
        subst h
        obtain ⟨hl, hj⟩ := assignMembers_spec r (j0 + 1) P pieces rix r' hr
        refine ⟨by simp [hl], ?_⟩
        intro j m hm
        cases j with
        | zero =>
          simp only [List.getElem?_cons_zero, Option.some.injEq] at hm
          subst hm
          simp [hlp]
        | succ j =>
          simp only [List.getElem?_cons_succ] at hm
          have := hj j m hm
          have e : j0 + 1 + j = j0 + (j + 1) := by omega
          rw [e] at this
          simpa using this
    | some pc =>
      simp only [hlp] at h
      cases ha : assign m0 rix pc with
      | error e => simp [ha] at h
      | ok m0' =>
        simp only [ha] at h
        cases hr : assignMembers r (j0 + 1) P pieces rix with
        | error e => simp [hr, Except.map] at h
        | ok r' =>
          simp only [hr, Except.map] at h
          injection h with h
          subst h
          obtain ⟨hl, hj⟩ := assignMembers_spec r (j0 + 1) P pieces rix r' hr
          refine ⟨by simp [hl], ?_⟩
          intro j m hm
          cases j with
          | zero =>
            simp only [List.getElem?_cons_zero, Option.some.injEq] at hm
            subst hm
            refine ⟨by simp [hlp], ?_⟩
            intro pc' hpc'
            simp only [Nat.add_zero, hlp, Option.some.injEq] at hpc'
            subst hpc'
            exact ⟨m0', ha, by simp⟩
          | succ j =>
            simp only [List.getElem?_cons_succ] at hm
            have := hj j m hm
            have e : j0 + 1 + j = j0 + (j + 1) := by omega
            rw [e] at this
            simpa using this


end NT
end TdVerif.C16
