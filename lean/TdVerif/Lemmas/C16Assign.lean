/-
  C16 — lemmas about indexed assignment on the promoted representation (`assign`, `assignNth`, `assignMembers`).
-/
import TdVerif.Lemmas.C16Tolist

namespace TdVerif.C16
namespace NT
variable {O : Type}

mutual
/-- promoted form: every shared leaf is a scalar (`maybe_to_stack` output) -/
def allScalar : NT O → Bool
  | .shared _ s => s.isEmpty
  | .stack ms _ => allScalarList ms
def allScalarList : List (NT O) → Bool
  | [] => true
  | m :: r => allScalar m && allScalarList r
end

theorem allScalarList_mem : ∀ (ms : List (NT O)), allScalarList ms = true → ∀ m ∈ ms, allScalar m = true
  | [], _, m, hm => by simp at hm
  | m0 :: r, h, m, hm => by
    simp only [allScalarList, Bool.and_eq_true] at h
    rcases List.mem_cons.mp hm with rfl | hm
    · exact h.1
    · exact allScalarList_mem r h.2 m hm

theorem allScalarList_of_mem : ∀ (ms : List (NT O)), (∀ m ∈ ms, allScalar m = true) → allScalarList ms = true
  | [], _ => rfl
  | m0 :: r, h => by
    simp only [allScalarList, Bool.and_eq_true]
    exact ⟨h m0 (by simp), allScalarList_of_mem r (fun m hm => h m (by simp [hm]))⟩

theorem fromShared_allScalar (o : O) : ∀ (s : Shape), allScalar (fromShared o s) = true
  | [] => by simp [fromShared, allScalar]
  | n :: s => by
    simp only [fromShared, allScalar]
    apply allScalarList_of_mem
    intro m hm
    rw [List.mem_replicate] at hm
    rw [hm.2]
    exact fromShared_allScalar o s

mutual
theorem maybeToStack_allScalar : ∀ (r : NT O), allScalar (maybeToStack r) = true
  | .shared o s => by simpa [maybeToStack] using fromShared_allScalar o s
  | .stack ms d => by
    simp only [maybeToStack, allScalar]
    exact maybeToStackList_allScalar ms
theorem maybeToStackList_allScalar : ∀ (ms : List (NT O)), allScalarList (maybeToStackList ms) = true
  | [] => rfl
  | m :: r => by
    simp only [maybeToStackList, allScalarList, Bool.and_eq_true]
    exact ⟨maybeToStack_allScalar m, maybeToStackList_allScalar r⟩
end

theorem fromShared_wf (o : O) : ∀ (s : Shape), posShape s → wf (fromShared o s) = true
  | [], _ => by simp [fromShared, wf]
  | n :: s, hp => by
    have hn : n ≠ 0 := hp n (by simp)
    obtain ⟨k, rfl⟩ := Nat.exists_eq_succ_of_ne_zero hn
    have hs : posShape s := fun m hm => hp m (by simp [hm])
    have ih := fromShared_wf o s hs
    have hsh := fromShared_shape o s hs
    simp only [fromShared, List.replicate_succ, wf, ih, Bool.true_and, Bool.and_eq_true, decide_eq_true_eq]
    refine ⟨by simp, ?_⟩
    rw [hsh]
    have : ∀ (j : Nat), wfList s (List.replicate j (fromShared o s)) = true := by
      intro j
      induction j with
      | zero => rfl
      | succ j ihj => simp [List.replicate_succ, wfList, ih, hsh, ihj]
    exact this k

mutual
theorem maybeToStack_wf : ∀ (r : NT O), wf r = true → posShape (shape r) → wf (maybeToStack r) = true
  | .shared o s, _, hp => by
    simp only [maybeToStack]
    exact fromShared_wf o s hp
  | .stack [] d, h, _ => by simp [wf] at h
  | .stack (m :: ms) d, h, hp => by
    have hw := h
    simp only [wf, Bool.and_eq_true, decide_eq_true_eq] at h
    have hm : posShape (shape m) := by
      intro n hn
      apply hp n
      simp only [shape]
      exact List.mem_insertIdx h.1.2 |>.mpr (Or.inr hn)
    simp only [maybeToStack, maybeToStackList, wf, Bool.and_eq_true, decide_eq_true_eq]
    refine ⟨⟨maybeToStack_wf m h.1.1 hm, by rw [maybeToStack_shape m h.1.1 hm]; exact h.1.2⟩, ?_⟩
    rw [maybeToStack_shape m h.1.1 hm]
    exact maybeToStackList_wf (shape m) ms h.2 hm
theorem maybeToStackList_wf : ∀ (s : Shape) (ms : List (NT O)), wfList s ms = true → posShape s →
    wfList s (maybeToStackList ms) = true
  | s, [], _, _ => rfl
  | s, m :: r, h, hp => by
    simp only [wfList, Bool.and_eq_true, decide_eq_true_eq] at h
    simp only [maybeToStackList, wfList, Bool.and_eq_true, decide_eq_true_eq]
    have hpm : posShape (shape m) := by rw [h.1.2]; exact hp
    exact ⟨⟨maybeToStack_wf m h.1.1 hpm, by rw [maybeToStack_shape m h.1.1 hpm]; exact h.1.2⟩,
      maybeToStackList_wf s r h.2 hp⟩
end

end NT
end TdVerif.C16
