/-
  C12 helper lemmas on `_split_tensordict` as a whole (gen = eager, partition per branch) and on
  slice-wise functions; the property theorems that use them are in Props/C12.lean.
-/
import TdVerif.Lemmas.C12Chunk

namespace TdVerif.C12

/-- clamp the stop of a slice piece to `n` (what indexing does with `slice(start, stop)`) -/
def clampPiece (n : Nat) : Piece → Piece
  | .rng s e => .rng s (min n e)
  | .idx i => .idx i

/-- `index_with_generator=True` with a chunk size selects the slices of `td.split(min(n, chunksize))`
    (the generator's unclamped stops are clamped by slicing). For every `n > 0`, `chunksize > 0`. -/
theorem genSlices_eq_split (n cs : Nat) (hn : 0 < n) (hcs : 0 < cs) :
    (genLoop n cs 0 cs).map (fun p => (p.1, min n p.2)) = splitSlices n (min n cs) := by
  rw [splitSlices_min]
  unfold splitSlices
  rw [genLoop]
  simp only [hn, hcs, and_self, if_true, List.map_cons]
  congr 1
  by_cases h : cs ≤ n
  · have e : min n cs = cs := by omega
    rw [e]
    exact genLoop_clamp_eq_splitLoop n cs cs (cs + cs) hcs rfl h
  · have e : min n cs = n := by omega
    rw [e, splitLoop_at_end, genLoop]
    have : ¬ cs < n := by omega
    simp [this]

/-- `index_with_generator=True` with a chunk count selects the slices of `td.chunk(min(n, k))`:
    both use the ceiling of `n / min(n, k)` as split size. For every `n > 0`, `k > 0`. -/
theorem genChunks_eq_chunk (n k : Nat) (hn : 0 < n) (hk : 0 < k) :
    some ((genLoop n (ceilDiv n (min n k)) 0 (ceilDiv n (min n k))).map (fun p => (p.1, min n p.2)))
      = chunkSlices n (min n k) := by
  have hk' : 0 < min n k := by omega
  have hc : 0 < ceilDiv n (min n k) := by
    unfold ceilDiv
    apply Nat.div_pos <;> omega
  unfold chunkSlices
  have : ¬ min n k < 1 := by omega
  simp only [this, if_false]
  rw [genSlices_eq_split n _ hn hc, splitSlices_min]

theorem ceilDiv_pos (n k : Nat) (hn : 0 < n) (hk : 0 < k) : 0 < ceilDiv n k := by
  unfold ceilDiv
  apply Nat.div_pos <;> omega

theorem effChunks_pos (n k : Nat) (hn : 0 < n) : effChunks n k = min n k := by
  unfold effChunks
  have : max n 1 = n := by omega
  rw [this]

theorem byCount_gen_eq_eager (n k : Nat) (hn : 0 < n) (hk : 0 < k) :
    (splitByCount n k true).map (List.map (clampPiece n)) = splitByCount n k false := by
  have h0 : ¬ min n k = 0 := by omega
  simp only [splitByCount, effChunks_pos n k hn, if_true, h0, if_false, Except.map, Bool.false_eq_true]
  rw [← genChunks_eq_chunk n k hn hk]
  simp [Function.comp_def, clampPiece]

theorem bySize_gen_eq_eager (n c : Nat) (hn : 0 < n) :
    (splitBySize n c true).map (List.map (clampPiece n)) = splitBySize n c false := by
  by_cases hc : c = 0
  · subst hc
    simp [splitBySize, Except.map, clampPiece, Function.comp_def]
  · have hc' : 0 < c := by omega
    simp only [splitBySize, hc, if_false, if_true, Except.map, Bool.false_eq_true]
    rw [← genSlices_eq_split n c hn hc']
    simp [Function.comp_def, clampPiece]

theorem rng_rows (n : Nat) (l : List (Nat × Nat)) :
    (l.map fun p => Piece.rng p.1 p.2).flatMap (Piece.rows n) = l.flatMap (spanRowsClamp n) := by
  simp only [List.flatMap_map]
  rfl

theorem idx_rows (n : Nat) : ((List.range n).map Piece.idx).flatMap (Piece.rows n) = List.range n := by
  rw [List.flatMap_map, List.flatMap_def]
  have : (List.range n).map (fun i => Piece.rows n (Piece.idx i)) = (List.range n).map fun i => [i] := by
    apply List.map_congr_left
    intro i hi
    have : i < n := by simpa using hi
    simp [Piece.rows, this]
  rw [this, ← List.flatMap_def, List.flatMap_singleton']

theorem byCount_partition (n k : Nat) (gen : Bool) (ps : List Piece)
    (h : splitByCount n k gen = .ok ps) : ps.flatMap (Piece.rows n) = List.range n := by
  cases gen with
  | true =>
    by_cases h0 : effChunks n k = 0
    · simp [splitByCount, h0] at h
    · simp only [splitByCount, if_true, h0, if_false, Except.ok.injEq] at h
      subst h
      rw [rng_rows]
      rcases Nat.eq_zero_or_pos n with hn | hn
      · subst hn
        rw [genLoop]; simp
      · have hc : 0 < ceilDiv n (effChunks n k) := ceilDiv_pos _ _ hn (by omega)
        rw [genLoop_rows n _ 0 _ hc (by omega), List.range_eq_range']
        simp
  | false =>
    by_cases h0 : effChunks n k < 1
    · simp [splitByCount, chunkSlices, h0] at h
    · simp only [splitByCount, chunkSlices, h0, if_false, Except.ok.injEq, Bool.false_eq_true] at h
      subst h
      rw [rng_rows]
      apply splitSlices_rows
      rcases Nat.eq_zero_or_pos n with hn | hn
      · right; exact hn
      · left; exact ceilDiv_pos _ _ hn (by omega)

theorem bySize_partition (n c : Nat) (gen : Bool) (ps : List Piece)
    (h : splitBySize n c gen = .ok ps) : ps.flatMap (Piece.rows n) = List.range n := by
  by_cases hc : c = 0
  · subst hc
    simp only [splitBySize, if_true, Except.ok.injEq] at h
    subst h
    exact idx_rows n
  · have hc' : 0 < c := by omega
    cases gen with
    | true =>
      simp only [splitBySize, hc, if_false, if_true, Except.ok.injEq] at h
      subst h
      rw [rng_rows, genLoop_rows n c 0 c hc' (by omega), List.range_eq_range']
      simp
    | false =>
      simp only [splitBySize, hc, if_false, Except.ok.injEq, Bool.false_eq_true] at h
      subst h
      rw [rng_rows]
      apply splitSlices_rows
      rcases Nat.eq_zero_or_pos n with h0 | h0
      · right; exact h0
      · left; omega

/-- a function that acts slice by slice along the mapped dim: applying it to a concatenation is
    concatenating the applications (row-wise maps, but also functions that drop or duplicate rows) -/
def SliceWise (f : List α → List β) : Prop := ∀ a b, f (a ++ b) = f a ++ f b

theorem SliceWise.nil {f : List α → List β} (hf : SliceWise f) : f [] = [] := by
  have h := hf [] []
  simp only [List.append_nil] at h
  have hl := congrArg List.length h
  simp only [List.length_append] at hl
  exact List.eq_nil_of_length_eq_zero (by omega)

theorem SliceWise.flatten {f : List α → List β} (hf : SliceWise f) (ls : List (List α)) :
    f ls.flatten = (ls.map f).flatten := by
  induction ls with
  | nil => simpa using hf.nil
  | cons l ls ih => simp [hf _ _, ih]

/-- the pieces of a partition, extracted from the rows and concatenated, are the rows -/
theorem extract_partition (rows : List α) (ps : List Piece)
    (hp : ps.flatMap (Piece.rows rows.length) = List.range rows.length) :
    (ps.map fun p => p.extract rows).flatten = rows := by
  have : (ps.map fun p => p.extract rows) = ps.map fun p => gather rows (p.rows rows.length) := by
    apply List.map_congr_left; intro p _; exact extract_eq_gather rows p
  rw [this, gather_flatMap, hp, gather_range]

/-- lengths of the extracted pieces of a partition add up to the dim size -/
theorem extract_lengths_sum (rows : List α) (ps : List Piece)
    (hp : ps.flatMap (Piece.rows rows.length) = List.range rows.length) :
    ((ps.map fun p => (p.extract rows).length)).sum = rows.length := by
  have h := congrArg List.length (extract_partition rows ps hp)
  rw [List.length_flatten, List.map_map] at h
  simpa [Function.comp_def] using h

theorem fill_all_some : ∀ (ls : List (List β)) (rest : List β),
    fill rest (ls.map fun l => (l.length, some l)) = ls.flatten ++ rest.drop (ls.map List.length).sum := by
  intro ls
  induction ls with
  | nil => intro rest; simp [fill]
  | cons l ls ih =>
    intro rest
    simp only [List.map_cons, fill, Option.getD_some, ih, List.flatten_cons, List.append_assoc,
      List.drop_drop, List.sum_cons]

end TdVerif.C12
