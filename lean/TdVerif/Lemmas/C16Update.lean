/-
  C16 — in-place update of a non-tensor entry (NonTensorData._update / NonTensorStack._update).
-/
import TdVerif.Lemmas.C16Nested

namespace TdVerif.C16
namespace NT
variable {O : Type}

theorem posShape_eraseIdx (s : Shape) (d : Nat) (h : posShape s) : posShape (s.eraseIdx d) :=
  fun n hn => h n (List.mem_of_mem_eraseIdx hn)

mutual
theorem updateNT_spec : ∀ (dest src u : NT O), wf dest = true → wf src = true → shape src = shape dest →
    posShape (shape dest) → updateNT dest src = .ok u →
    wf u = true ∧ shape u = shape dest ∧ ∀ c, c.length = (shape dest).length → getAt u c = getAt src c
  | .shared o s, src, u, _, _, hs, _, h => by
    cases src with
    | stack ms d => simp [updateNT] at h
    | shared o2 s2 =>
      simp only [updateNT] at h
      cases h
      simp only [shape] at hs
      subst hs
      exact ⟨rfl, rfl, fun c _ => rfl⟩
  | .stack ms d, src, u, hw, hws, hs, hp, h => by
    obtain ⟨m0, r0, rfl, hd, hmem⟩ := wf_stack hw
    have hrank : ((shape m0).insertIdx d (r0.length + 1)).length = (shape m0).length + 1 :=
      List.length_insertIdx_of_le_length hd _
    -- the (possibly promoted) source
    obtain ⟨src', hsrc', hw', hs', hg'⟩ : ∃ src', promoteTo src (shape (.stack (m0 :: r0) d)) = src' ∧ wf src' = true
        ∧ shape src' = shape (.stack (m0 :: r0) d) ∧ ∀ c, getAt src' c = getAt src c := by
      cases src with
      | stack ms2 d2 => exact ⟨_, rfl, hws, hs, fun _ => rfl⟩
      | shared o2 s2 =>
        refine ⟨_, rfl, fromShared_wf o2 _ hp, fromShared_shape o2 _ hp, ?_⟩
        intro c
        have hs2 : s2 = shape (.stack (m0 :: r0) d) := hs
        show getAt (fromShared o2 _) c = _
        rw [fromShared_getAt, getAt_shared, hs2]
    simp only [updateNT] at h
    rw [hsrc'] at h
    cases hl : updateList (m0 :: r0) (unbind src' d) with
    | error e => rw [hl] at h; cases h
    | ok ms' =>
      rw [hl] at h
      cases h
      rw [shape_stack_cons] at hs' hp
      have hdr : d < (shape src').length := by rw [hs', hrank]; omega
      obtain ⟨hul, hup, hug⟩ := unbind_spec src' d hw' hdr
      have hS : (shape src').eraseIdx d = shape m0 := by rw [hs', List.eraseIdx_insertIdx_self]
      have hpS : posShape (shape m0) := by
        rw [← hS, hs']; exact posShape_eraseIdx _ d hp
      obtain ⟨hlen, hsl, hel⟩ := updateList_spec (m0 :: r0) (unbind src' d) ms' (shape m0) hl hmem
        (fun p hp' => by have := hup p hp'; rw [hS] at this; exact this) hpS
      have hne : ms' ≠ [] := by
        intro hnil; rw [hnil] at hlen; simp at hlen
      have hmem' : ∀ y ∈ ms', wf y = true ∧ shape y = shape m0 := by
        intro y hy
        obtain ⟨i, hi⟩ := List.getElem?_of_mem hy
        obtain ⟨p, _, h1, h2, _⟩ := hel i y hi
        exact ⟨h1, h2⟩
      obtain ⟨hw1, hs1⟩ := wf_stack_intro ms' d (shape m0) hne hd hmem'
      refine ⟨hw1, by rw [hs1, hlen, shape_stack_cons]; rfl, ?_⟩
      intro c hc
      rw [shape_stack_cons, hrank] at hc
      rw [getAt_stack, ← hg' c]
      have hdc : d < c.length := by omega
      have hcd : c[d]? = some c[d] := List.getElem?_eq_getElem hdc
      rw [hcd]
      simp only [Option.bind_some]
      have hback : (c.eraseIdx d).insertIdx d c[d] = c := insertIdx_eraseIdx_getElem? c d c[d] hcd
      have hce : (c.eraseIdx d).length + 1 = (shape src').length := by
        rw [List.length_eraseIdx, if_pos hdc, hs', hrank]; omega
      have key := hug c[d] (c.eraseIdx d) hce
      rw [hback] at key
      rw [← key]
      cases hm' : ms'[c[d]]? with
      | none =>
        have : (unbind src' d)[c[d]]? = none := by
          rw [List.getElem?_eq_none_iff] at hm' ⊢
          omega
        rw [this]
      | some m' =>
        obtain ⟨p, hp', _, _, hgp⟩ := hel c[d] m' hm'
        rw [hp']
        simp only [Option.bind_some]
        exact hgp (c.eraseIdx d) (by rw [List.length_eraseIdx, if_pos hdc]; omega)

theorem updateList_spec : ∀ (ms srcs ms' : List (NT O)) (S : Shape), updateList ms srcs = .ok ms' →
    (∀ m ∈ ms, wf m = true ∧ shape m = S) → (∀ p ∈ srcs, wf p = true ∧ shape p = S) → posShape S →
    ms'.length = ms.length ∧ srcs.length = ms.length
    ∧ ∀ (i : Nat) (m' : NT O), ms'[i]? = some m' → ∃ p, srcs[i]? = some p ∧ wf m' = true ∧ shape m' = S
        ∧ ∀ c, c.length = S.length → getAt m' c = getAt p c
  | [], srcs, ms', S, h, _, _, _ => by
    simp only [updateList] at h
    cases srcs with
    | nil => simp at h; subst h; simp
    | cons a b => simp at h
  | m :: r, srcs, ms', S, h, hm, hsr, hp => by
    cases srcs with
    | nil => simp [updateList] at h
    | cons s rs =>
      simp only [updateList] at h
      cases h1 : updateNT m s with
      | error e => rw [h1] at h; cases h
      | ok m1 =>
        rw [h1] at h
        simp only at h
        cases h2 : updateList r rs with
        | error e => rw [h2] at h; cases h
        | ok r1 =>
          rw [h2] at h
          cases h
          have hmm := hm m (by simp)
          have hss := hsr s (by simp)
          obtain ⟨a1, a2, a3⟩ := updateNT_spec m s m1 hmm.1 hss.1 (by rw [hss.2, hmm.2]) (by rw [hmm.2]; exact hp) h1
          obtain ⟨b1, b2, b3⟩ := updateList_spec r rs r1 S h2 (fun x hx => hm x (by simp [hx])) (fun x hx => hsr x (by simp [hx])) hp
          refine ⟨by simp [b1], by simp [b2], ?_⟩
          intro i m' hi
          cases i with
          | zero =>
            simp only [List.getElem?_cons_zero, Option.some.injEq] at hi
            subst hi
            exact ⟨s, rfl, a1, by rw [a2, hmm.2], fun c hc => a3 c (by rw [hmm.2]; exact hc)⟩
          | succ i =>
            simp only [List.getElem?_cons_succ] at hi ⊢
            exact b3 i m' hi
end

end NT
end TdVerif.C16
