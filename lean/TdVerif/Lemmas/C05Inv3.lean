/-
  C05 — invariant preservation, part 3: allocation (constructors, unpickling), garbage collection, mutators.
-/
import TdVerif.Lemmas.C05Inv2

namespace TdVerif.C05

theorem alloc_node_self (h : Heap) (nd : LNode) : (h.alloc nd).node h.size = nd := by simp [Heap.alloc]
theorem alloc_node_ne (h : Heap) (nd : LNode) (m : Nat) (hm : m ≠ h.size) : (h.alloc nd).node m = h.node m := by
  simp [Heap.alloc, hm]

theorem lt_size_of_live {h : Heap} (hinv : Inv h) {m : Nat} (hl : live h m = true) : m < h.size := by
  by_cases hm : m < h.size
  · exact hm
  · have := hinv.bounded m (by omega)
    unfold live at hl; rw [this] at hl; cases hl

theorem kid_lt_size {h : Heap} (hinv : Inv h) {m j : Nat} (hj : j ∈ kidIds h m) : j < h.size ∧ m < h.size := by
  by_cases hm : m < h.size
  · have := hinv.ordered m j hj; omega
  · have := hinv.bounded m (by omega)
    unfold kidIds at hj; rw [this] at hj; simp at hj

theorem walk_reach (h : Heap) : ∀ (path : List String) (i t : Nat), walk h i path = some t → Reach h i t := by
  intro path
  induction path with
  | nil => intro i t hw; simp [walk] at hw; subst hw; exact Reach.refl _
  | cons k rest ih =>
    intro i t hw
    simp only [walk] at hw
    split at hw
    · rename_i e hfind
      have hk : e.2 ∈ kidIds h i := by
        unfold kidIds; exact List.mem_map.mpr ⟨e, List.mem_of_find?_eq_some hfind, rfl⟩
      exact (Reach.kid hk).trans (ih e.2 t hw)
    · cases hw

theorem live_of_reach {h : Heap} (hinv : Inv h) {i t : Nat} (hl : live h i = true) (r : Reach h i t) : live h t = true := by
  induction r with
  | refl => exact hl
  | step _ hc ih => exact hinv.kidsAlive _ _ ih hc

/-- a new object over existing live entries (a constructor, `__setstate__`, a lazy stack) -/
theorem inv_alloc {h : Heap} (hinv : Inv h) (nd : LNode) (ha : nd.alive = true)
    (hk : ∀ x, x ∈ nd.kids.map (·.2) → x < h.size ∧ live h x = true)
    (hflag : nd.flag ≠ some true) (hlz : nd.lazy = true → nd.kids.map (·.2) ≠ []) :
    Inv (h.alloc nd) := by
  have hsz : (h.alloc nd).size = h.size + 1 := rfl
  have hlive : ∀ m, m ≠ h.size → live (h.alloc nd) m = live h m := by
    intro m hm; unfold live; rw [alloc_node_ne h nd m hm]
  have hkids : ∀ m, m ≠ h.size → kidIds (h.alloc nd) m = kidIds h m := by
    intro m hm; unfold kidIds; rw [alloc_node_ne h nd m hm]
  have hkidsn : kidIds (h.alloc nd) h.size = nd.kids.map (·.2) := by unfold kidIds; rw [alloc_node_self]
  have hflg : ∀ m, m ≠ h.size → flagged (h.alloc nd) m = flagged h m := by
    intro m hm; unfold flagged; rw [alloc_node_ne h nd m hm]
  refine ⟨?_, ?_, ?_, ?_, ?_⟩
  · intro a b hb
    by_cases hai : a = h.size
    · subst hai; rw [hkidsn] at hb; exact (hk b hb).1
    · rw [hkids a hai] at hb; exact hinv.ordered a b hb
  · intro a b hla hb
    by_cases hai : a = h.size
    · subst hai; rw [hkidsn] at hb
      have := hk b hb
      rw [hlive b (by omega)]; exact this.2
    · rw [hkids a hai] at hb; rw [hlive a hai] at hla
      have := kid_lt_size hinv hb
      rw [hlive b (by omega)]; exact hinv.kidsAlive a b hla hb
  · intro a hla
    by_cases hai : a = h.size
    · subst hai; rw [alloc_node_self] at hla; rw [hkidsn]; exact hlz hla
    · rw [alloc_node_ne h nd a hai] at hla; rw [hkids a hai]; exact hinv.nonEmptyLazy a hla
  · intro k hk'
    rw [hsz] at hk'
    rw [alloc_node_ne h nd k (by omega)]; exact hinv.bounded k (by omega)
  · intro p j hl hf hj
    have hps : p ≠ h.size := by
      intro e; subst e
      rw [flagged_iff, alloc_node_self] at hf; exact hflag hf
    rw [hlive p hps] at hl; rw [hflg p hps] at hf; rw [hkids p hps] at hj
    obtain ⟨a, b⟩ := hinv.closed p j hl hf hj
    have hjs := (kid_lt_size hinv hj).1
    refine ⟨by rw [hflg j (by omega)]; exact a, ?_⟩
    have same : ∀ m, Reach h j m → (h.alloc nd).node m = h.node m := by
      intro m r
      have := r.le hinv.ordered
      exact alloc_node_ne h nd m (by omega)
    unfold parentsOf at b ⊢
    rw [parentsOfF_congr_reach h _ (j + 1) j same]; exact b

/-- an object nobody holds dies -/
theorem inv_gc {h : Heap} (hinv : Inv h) {i : Nat} (hh : held h i = false) :
    Inv (h.upd i (fun x => { x with alive := false })) := by
  have nne : ∀ m, m ≠ i → (h.upd i (fun x => { x with alive := false })).node m = h.node m :=
    fun m hm => upd_node_ne h i m _ hm
  have fields : ∀ m, ((h.upd i (fun x => { x with alive := false })).node m).kids = (h.node m).kids ∧
      ((h.upd i (fun x => { x with alive := false })).node m).lazy = (h.node m).lazy ∧
      ((h.upd i (fun x => { x with alive := false })).node m).flag = (h.node m).flag ∧
      ((h.upd i (fun x => { x with alive := false })).node m).parents = (h.node m).parents := by
    intro m
    by_cases hm : m = i
    · subst hm; simp [upd_node_self]
    · rw [nne m hm]; exact ⟨rfl, rfl, rfl, rfl⟩
  have hkids : ∀ m, kidIds (h.upd i (fun x => { x with alive := false })) m = kidIds h m := by
    intro m; unfold kidIds; rw [(fields m).1]
  have hflg : ∀ m, flagged (h.upd i (fun x => { x with alive := false })) m = flagged h m := by
    intro m; unfold flagged; rw [(fields m).2.2.1]
  have hlive : ∀ m, live (h.upd i (fun x => { x with alive := false })) m = true → live h m = true ∧ m ≠ i := by
    intro m hm
    by_cases hmi : m = i
    · subst hmi; unfold live at hm; simp [upd_node_self] at hm
    · unfold live at hm ⊢; rw [nne m hmi] at hm; exact ⟨hm, hmi⟩
  have hpar : ∀ n m, parentsOfF n (h.upd i (fun x => { x with alive := false })) m = parentsOfF n h m := by
    intro n
    induction n with
    | zero => intro m; rfl
    | succ n ih =>
      intro m
      simp only [parentsOfF, (fields m).2.1, (fields m).2.2.2, hkids]
      split
      · congr 1; exact flatMap_congr_mem (fun k _ => ih k)
      · rfl
  refine ⟨fun a b hb => hinv.ordered a b (by rw [← hkids]; exact hb), ?_, ?_, ?_, ?_⟩
  · intro a b hla hb
    obtain ⟨hla0, hai⟩ := hlive a hla
    rw [hkids] at hb
    have hb0 := hinv.kidsAlive a b hla0 hb
    have hbi : b ≠ i := by
      intro e; subst e
      have : held h b = true := by
        unfold held
        rw [List.any_eq_true]
        exact ⟨a, List.mem_range.mpr (lt_size_of_live hinv hla0), by simp [hla0, hb]⟩
      rw [hh] at this; cases this
    unfold live at hb0 ⊢; rw [nne b hbi]; exact hb0
  · intro a hla
    rw [(fields a).2.1] at hla; rw [hkids]; exact hinv.nonEmptyLazy a hla
  · intro k hk
    have hs : (h.upd i (fun x => { x with alive := false })).size = h.size := rfl
    rw [hs] at hk
    by_cases hki : k = i
    · subst hki; simp [upd_node_self, hinv.bounded k hk]
    · rw [nne k hki]; exact hinv.bounded k hk
  · intro p j hl hf hj
    obtain ⟨hl0, _⟩ := hlive p hl
    rw [hflg] at hf; rw [hkids] at hj
    obtain ⟨a, b⟩ := hinv.closed p j hl0 hf hj
    exact ⟨by rw [hflg]; exact a, by unfold parentsOf at b ⊢; rw [hpar]; exact b⟩

theorem mem_setKid (kids : List (String × Nat)) (k : String) (j x : Nat)
    (hx : x ∈ (setKid kids k j).map (·.2)) : x ∈ kids.map (·.2) ∨ x = j := by
  unfold setKid at hx
  split at hx
  · simp only [List.map_map, List.mem_map, Function.comp] at hx
    obtain ⟨e, he, hx⟩ := hx
    split at hx
    · exact .inr hx.symm
    · exact .inl (List.mem_map.mpr ⟨e, he, hx⟩)
  · simp only [List.map_append, List.mem_append, List.map_cons, List.map_nil, List.mem_singleton] at hx
    rcases hx with hx | hx
    · exact .inl hx
    · exact .inr hx

theorem setKid_ne_nil (kids : List (String × Nat)) (k : String) (j : Nat) : setKid kids k j ≠ [] := by
  unfold setKid
  split
  · rename_i h
    cases kids with
    | nil => simp at h
    | cons a l => simp
  · simp

theorem mem_filter_snd {α} (l : List (String × α)) (p : String × α → Bool) (x : α)
    (hx : x ∈ (l.filter p).map (·.2)) : x ∈ l.map (·.2) := by
  obtain ⟨e, he, hx⟩ := List.mem_map.mp hx
  exact List.mem_map.mpr ⟨e, (List.mem_filter.mp he).1, hx⟩

/-- what a storage-dict update can do to a node: lock bookkeeping untouched, entries only dropped / renamed,
or the one entry named by `addKid` added -/
theorem applyEff_spec (n n' : LNode) (e : Eff) (h : applyEff n e = some n') :
    n'.alive = n.alive ∧ n'.lazy = n.lazy ∧ n'.flag = n.flag ∧ n'.parents = n.parents ∧
    (∀ x, x ∈ n'.kids.map (·.2) → x ∈ n.kids.map (·.2) ∨ ∃ k, e = .addKid k x) ∧
    (e.isWrite = true → n'.kids = n.kids) := by
  cases e with
  | addLeaf k o =>
    simp only [applyEff, Option.some.injEq] at h; subst h
    exact ⟨rfl, rfl, rfl, rfl, fun x hx => .inl (mem_filter_snd _ _ x hx), by simp [Eff.isWrite]⟩
  | addKid k j =>
    simp only [applyEff, Option.some.injEq] at h; subst h
    refine ⟨rfl, rfl, rfl, rfl, fun x hx => ?_, by simp [Eff.isWrite]⟩
    rcases mem_setKid _ _ _ _ hx with hx | hx
    · exact .inl hx
    · subst hx; exact .inr ⟨k, rfl⟩
  | del k =>
    simp only [applyEff] at h
    split at h
    · simp only [Option.some.injEq] at h; subst h
      exact ⟨rfl, rfl, rfl, rfl, fun x hx => .inl (mem_filter_snd _ _ x hx), by simp [Eff.isWrite]⟩
    · cases h
  | rename k k' =>
    simp only [applyEff] at h
    split at h
    · cases h
    · split at h
      · simp only [Option.some.injEq] at h; subst h
        exact ⟨rfl, rfl, rfl, rfl, fun x hx => .inl hx, fun _ => rfl⟩
      · split at h
        · rename_i e hfind
          simp only [Option.some.injEq] at h; subst h
          refine ⟨rfl, rfl, rfl, rfl, fun x hx => ?_, by simp [Eff.isWrite]⟩
          rcases mem_setKid _ _ _ _ hx with hx | hx
          · exact .inl (mem_filter_snd _ _ x hx)
          · subst hx
            exact .inl (List.mem_map.mpr ⟨e, List.mem_of_find?_eq_some hfind, rfl⟩)
        · split at h
          · simp only [Option.some.injEq] at h; subst h
            exact ⟨rfl, rfl, rfl, rfl, fun x hx => .inl (mem_filter_snd _ _ x hx), by simp [Eff.isWrite]⟩
          · cases h
  | keep ks =>
    simp only [applyEff] at h
    split at h
    · simp only [Option.some.injEq] at h; subst h
      exact ⟨rfl, rfl, rfl, rfl, fun x hx => .inl (mem_filter_snd _ _ x hx), by simp [Eff.isWrite]⟩
    · cases h
  | drop ks =>
    simp only [applyEff, Option.some.injEq] at h; subst h
    exact ⟨rfl, rfl, rfl, rfl, fun x hx => .inl (mem_filter_snd _ _ x hx), by simp [Eff.isWrite]⟩
  | clear =>
    simp only [applyEff, Option.some.injEq] at h; subst h
    exact ⟨rfl, rfl, rfl, rfl, fun x hx => by simp at hx, by simp [Eff.isWrite]⟩
  | write k =>
    simp only [applyEff] at h
    split at h
    · simp only [Option.some.injEq] at h; subst h
      exact ⟨rfl, rfl, rfl, rfl, fun x hx => .inl hx, fun _ => rfl⟩
    · cases h

end TdVerif.C05
