/-
  C14: `update(keys_to_update=…)` on tensordicts whose keys are all top-level, and what the option
  variants of `TensorDictSequential.forward` return.
-/
import TdVerif.Model.C14Seq
import TdVerif.Lemmas.C14

namespace TdVerif.C14

/-- every key is a top-level key `(name,)` -/
def FlatKeys (ks : List Key) : Prop := ∀ k ∈ ks, ∃ t, k = [t]
def FlatEnv (e : Env) : Prop := ∀ kv ∈ e, ∃ t, kv.1 = [t]

theorem isNodeAt_flat {e : Env} (h : FlatEnv e) (t : String) : isNodeAt e t = false := by
  unfold isNodeAt
  rw [List.any_eq_false]
  intro kv hkv
  obtain ⟨t', ht'⟩ := h kv hkv
  simp [ht']

theorem topNames_mem_flat : ∀ (e : Env), FlatEnv e → ∀ t, t ∈ topNames e ↔ (Env.get? e [t]).isSome
  | [], _, t => by simp [topNames, Env.get?]
  | (k, v) :: r, h, t => by
    obtain ⟨t', ht'⟩ := h (k, v) (by simp)
    have hr : FlatEnv r := fun kv hkv => h kv (List.mem_cons_of_mem _ hkv)
    have ih := topNames_mem_flat r hr t
    simp only at ht'
    subst ht'
    simp only [topNames, List.head?_cons, List.mem_cons, List.mem_filter, Env.get?]
    by_cases e : t' = t
    · subst e; simp
    · have e' : [t'] ≠ [t] := by simpa using e
      simp only [e', if_false]
      rw [← ih]
      constructor
      · rintro (h1 | ⟨h1, _⟩)
        · exact absurd h1.symm e
        · exact h1
      · intro h1; right; exact ⟨h1, by simpa using Ne.symm e⟩

/-- one step of the loop of `update` on flat tensordicts, seen at the key `[t0]` -/
theorem upd_step_flat (src : Env) (hs : FlatEnv src) (K : List Key) (d : Env) (hd : FlatEnv d) (t t0 : String) :
    let d' := (if !(K.any (headIs t)) then d
      else (src.filter (fun kv => headIs t kv.1)).foldl (fun d kv => d.set kv.1 kv.2)
        (d.filter (fun kv => !headIs t kv.1)))
    FlatEnv d' ∧
    (t ≠ t0 → Env.get? d' [t0] = Env.get? d [t0]) := by
  intro d'
  have hfilt : FlatEnv (d.filter (fun kv => !headIs t kv.1)) := fun kv hkv => hd kv (List.mem_filter.1 hkv).1
  have hset : ∀ (l : List (Key × V)) (d0 : Env), FlatEnv d0 → (∀ kv ∈ l, ∃ t, kv.1 = [t]) →
      FlatEnv (l.foldl (fun d kv => d.set kv.1 kv.2) d0) := by
    intro l
    induction l with
    | nil => intro d0 h0 _; exact h0
    | cons kv l ih =>
      intro d0 h0 hl
      apply ih
      · intro x hx
        -- membership in `set`
        have : ∀ (e : Env) (k : Key) (v : V) (x : Key × V), x ∈ Env.set e k v → x ∈ e ∨ x = (k, v) := by
          intro e
          induction e with
          | nil => intro k v x hx; simp [Env.set] at hx; exact Or.inr hx
          | cons y e ihe =>
            intro k v x hx
            obtain ⟨k0, v0⟩ := y
            simp only [Env.set] at hx
            split at hx
            · rcases List.mem_cons.1 hx with h | h
              · exact Or.inr h
              · exact Or.inl (List.mem_cons_of_mem _ h)
            · rcases List.mem_cons.1 hx with h | h
              · exact Or.inl (by simp [h])
              · rcases ihe k v x h with h' | h'
                · exact Or.inl (List.mem_cons_of_mem _ h')
                · exact Or.inr h'
        rcases this d0 kv.1 kv.2 x hx with h | h
        · exact h0 x h
        · rw [h]; exact hl kv (by simp)
      · intro x hx; exact hl x (List.mem_cons_of_mem _ hx)
  have hsrcf : ∀ kv ∈ src.filter (fun kv => headIs t kv.1), ∃ t, kv.1 = [t] :=
    fun kv hkv => hs kv (List.mem_filter.1 hkv).1
  constructor
  · show FlatEnv d'
    simp only [d']
    split
    · exact hd
    · exact hset _ _ hfilt hsrcf
  · intro hne
    show Env.get? d' [t0] = Env.get? d [t0]
    simp only [d']
    split
    · rfl
    · · have hk : headIs t [t0] = false := by simp [headIs]; exact fun e => hne e.symm
        -- entries headed by `t` are rewritten; `[t0]` is not one of them
        have hfold : ∀ (l : List (Key × V)) (d0 : Env), (∀ kv ∈ l, headIs t kv.1 = true) →
            Env.get? (l.foldl (fun d kv => d.set kv.1 kv.2) d0) [t0] = Env.get? d0 [t0] := by
          intro l
          induction l with
          | nil => intro d0 _; rfl
          | cons kv l ih =>
            intro d0 hl
            simp only [List.foldl_cons]
            rw [ih _ (fun x hx => hl x (List.mem_cons_of_mem _ hx)), Env.get?_set]
            have : kv.1 ≠ [t0] := by intro e; have := hl kv (by simp); rw [e, hk] at this; cases this
            simp [this]
        rw [hfold _ _ (fun kv hkv => by simpa using (List.mem_filter.1 hkv).2),
          Env.get?_filter d (fun k => !headIs t k) [t0]]
        simp [hk]


/-- keys occur once (a tensordict is a dict) -/
def KeysNodup (e : Env) : Prop := (e.map (·.1)).Nodup

theorem get?_of_mem_nodup : ∀ (e : Env), KeysNodup e → ∀ k v, (k, v) ∈ e → Env.get? e k = some v
  | [], _, _, _, h => by simp at h
  | (k0, v0) :: r, hnd, k, v, h => by
    simp only [KeysNodup, List.map_cons, List.nodup_cons] at hnd
    simp only [Env.get?]
    rcases List.mem_cons.1 h with h | h
    · injection h with e1 e2; subst e1 e2; simp
    · have : k0 ≠ k := by
        intro e; subst e; exact hnd.1 (List.mem_map.2 ⟨(k0, v), h, rfl⟩)
      simp only [this, if_false]
      exact get?_of_mem_nodup r hnd.2 k v h

/-- the step for `t0` itself: when `[t0]` is asked for (and the source has it), the destination gets the source's value -/
theorem upd_step_self (src : Env) (hs : FlatEnv src) (hn : KeysNodup src) (K : List Key) (d : Env) (hd : FlatEnv d)
    (t0 : String) (v : V) (hv : Env.get? src [t0] = some v) :
    Env.get? (if !(K.any (headIs t0)) then d
      else (src.filter (fun kv => headIs t0 kv.1)).foldl (fun d kv => d.set kv.1 kv.2)
        (d.filter (fun kv => !headIs t0 kv.1))) [t0]
      = if K.any (headIs t0) then some v else Env.get? d [t0] := by
  by_cases hK : K.any (headIs t0) = true
  · simp only [hK, Bool.not_true, Bool.false_eq_true, if_false, if_true]
    -- the filtered source is exactly the entry ([t0], v)
    have hmem : ∀ kv ∈ src.filter (fun kv => headIs t0 kv.1), kv = ([t0], v) := by
      intro kv hkv
      obtain ⟨h1, h2⟩ := List.mem_filter.1 hkv
      obtain ⟨t', ht'⟩ := hs kv h1
      have : t' = t0 := by rw [ht'] at h2; simpa [headIs] using h2
      subst this
      have := get?_of_mem_nodup src hn kv.1 kv.2 h1
      rw [ht', hv] at this
      injection this with this
      exact Prod.ext ht' this.symm
    have hne : src.filter (fun kv => headIs t0 kv.1) ≠ [] := by
      intro e
      -- [t0] is bound in src, so some entry passes the filter
      have : ∃ kv ∈ src, kv.1 = [t0] := by
        clear hmem e
        induction src with
        | nil => simp [Env.get?] at hv
        | cons y r ih =>
          obtain ⟨k0, v0⟩ := y
          simp only [Env.get?] at hv
          by_cases e0 : k0 = [t0]
          · exact ⟨(k0, v0), by simp, e0⟩
          · simp only [e0, if_false] at hv
            obtain ⟨kv, h1, h2⟩ := ih (fun kv hkv => hs kv (List.mem_cons_of_mem _ hkv))
              (by simp only [KeysNodup, List.map_cons, List.nodup_cons] at hn; exact hn.2) hv
            exact ⟨kv, List.mem_cons_of_mem _ h1, h2⟩
      obtain ⟨kv, h1, h2⟩ := this
      have : kv ∈ src.filter (fun kv => headIs t0 kv.1) := List.mem_filter.2 ⟨h1, by rw [h2]; simp [headIs]⟩
      rw [e] at this; cases this
    have hfold : ∀ (l : List (Key × V)) (d0 : Env), l ≠ [] → (∀ kv ∈ l, kv = ([t0], v)) →
        Env.get? (l.foldl (fun d kv => d.set kv.1 kv.2) d0) [t0] = some v := by
      intro l
      induction l with
      | nil => intro d0 h _; exact absurd rfl h
      | cons kv l ih =>
        intro d0 _ hl
        simp only [List.foldl_cons]
        by_cases hle : l = []
        · subst hle; simp only [List.foldl_nil]; rw [hl kv (by simp), Env.get?_set]; simp
        · exact ih _ hle (fun x hx => hl x (List.mem_cons_of_mem _ hx))
    exact hfold _ _ hne hmem
  · have hK' : K.any (headIs t0) = false := by simpa using hK
    simp [hK']

/-- **update on flat tensordicts.** `dest.update(src, keys_to_update=K)` with only top-level keys everywhere: an entry
of `dest` gets the source's value exactly when the key is in `K` and the source has it; everything else stays. -/
theorem updKeys_flat (dest src : Env) (K : List Key) (hd : FlatEnv dest) (hs : FlatEnv src) (hn : KeysNodup src)
    (hK : FlatKeys K) (t0 : String) :
    Env.get? (updKeys dest src K) [t0] =
      if [t0] ∈ K ∧ (Env.get? src [t0]).isSome then Env.get? src [t0] else Env.get? dest [t0] := by
  have hany : K.any (headIs t0) = true ↔ [t0] ∈ K := by
    simp only [List.any_eq_true]
    constructor
    · rintro ⟨k, hk, hh⟩
      obtain ⟨t, rfl⟩ := hK k hk
      have : t = t0 := by simpa [headIs] using hh
      subst this; exact hk
    · intro h; exact ⟨[t0], h, by simp [headIs]⟩
  unfold updKeys
  split
  · rename_i hemp
    have : K = [] := by simpa using hemp
    subst this; simp
  · -- on a flat source the nested branch of the loop body is never taken
    have hstep : (fun (d : Env) (t : String) =>
          if !(K.any (headIs t)) then d
          else if d.any (fun kv => headIs t kv.1) && isNodeAt d t && isNodeAt src t then
            let subK := K.filterMap (fun k => if k.length ≥ 2 && headIs t k then some k.tail else none)
            if subK.isEmpty then d
            else (src.filter (fun kv => headIs t kv.1)).foldl
              (fun d kv => if subK.any (fun k => k.head? == kv.1.tail.head?) then d.set kv.1 kv.2 else d) d
          else
            (src.filter (fun kv => headIs t kv.1)).foldl (fun d kv => d.set kv.1 kv.2)
              (d.filter (fun kv => !headIs t kv.1)))
        = (fun (d : Env) (t : String) =>
          if !(K.any (headIs t)) then d
          else (src.filter (fun kv => headIs t kv.1)).foldl (fun d kv => d.set kv.1 kv.2)
            (d.filter (fun kv => !headIs t kv.1))) := by
      funext d t
      simp [isNodeAt_flat hs]
    rw [hstep]
    -- the loop over the top-level names of the source
    have key : ∀ (names : List String) (d : Env), FlatEnv d → (∀ t ∈ names, (Env.get? src [t]).isSome) →
        Env.get? (names.foldl (fun d t =>
          if !(K.any (headIs t)) then d
          else (src.filter (fun kv => headIs t kv.1)).foldl (fun d kv => d.set kv.1 kv.2)
            (d.filter (fun kv => !headIs t kv.1))) d) [t0]
        = if t0 ∈ names ∧ [t0] ∈ K then Env.get? src [t0] else Env.get? d [t0] := by
      intro names
      induction names with
      | nil => intro d _ _; simp
      | cons t names ih =>
        intro d hdf hnames
        simp only [List.foldl_cons]
        obtain ⟨hflat', hother⟩ := upd_step_flat src hs K d hdf t t0
        rw [ih _ hflat' (fun x hx => hnames x (List.mem_cons_of_mem _ hx))]
        by_cases htt : t = t0
        · subst htt
          obtain ⟨v, hv⟩ := Option.isSome_iff_exists.1 (hnames t (by simp))
          rw [upd_step_self src hs hn K d hdf t v hv]
          by_cases hk : [t] ∈ K
          · simp [hk, hany.2 hk, hv]
          · have : K.any (headIs t) = false := by
              cases h : K.any (headIs t) with
              | false => rfl
              | true => exact absurd (hany.1 h) hk
            simp [hk, this]
        · rw [hother htt]
          simp [Ne.symm htt]
    rw [key (topNames src) dest hd (fun t ht => (topNames_mem_flat src hs t).1 ht)]
    by_cases hsome : (Env.get? src [t0]).isSome
    · simp [(topNames_mem_flat src hs t0).2 hsome, hsome]
    · have hnot : t0 ∉ topNames src := fun h => hsome ((topNames_mem_flat src hs t0).1 h)
      simp [hsome, hnot]


/-! ### runs keep tensordicts flat and duplicate-free -/

theorem set_keys (e : Env) (k : Key) (v : V) :
    (Env.set e k v).map (·.1) = if k ∈ e.map (·.1) then e.map (·.1) else e.map (·.1) ++ [k] := by
  induction e with
  | nil => simp [Env.set]
  | cons y r ih =>
    obtain ⟨k0, v0⟩ := y
    simp only [Env.set]
    by_cases h : k0 = k
    · subst h; simp
    · simp only [h, if_false, List.map_cons, ih, List.mem_cons]
      have : ¬ k = k0 := fun e => h e.symm
      by_cases hm : k ∈ r.map (·.1)
      · simp [hm]
      · simp [hm, this]

theorem set_nodup {e : Env} (h : KeysNodup e) (k : Key) (v : V) : KeysNodup (Env.set e k v) := by
  unfold KeysNodup at h ⊢
  rw [set_keys]
  split
  · exact h
  · rename_i hk
    rw [List.nodup_append]
    exact ⟨h, by simp, by intro a ha b hb; simp at hb; subst hb; intro e; subst e; exact hk ha⟩

theorem set_flat {e : Env} (h : FlatEnv e) (t : String) (v : V) : FlatEnv (Env.set e [t] v) := by
  intro kv hkv
  have hk : kv.1 ∈ (Env.set e [t] v).map (·.1) := List.mem_map.2 ⟨kv, hkv, rfl⟩
  rw [set_keys] at hk
  split at hk
  · obtain ⟨x, hx, he⟩ := List.mem_map.1 hk
    rw [← he]; exact h x hx
  · rcases List.mem_append.1 hk with h1 | h1
    · obtain ⟨x, hx, he⟩ := List.mem_map.1 h1
      rw [← he]; exact h x hx
    · simp at h1; exact ⟨t, h1⟩

theorem writeOuts_inv (f : FnId) (args : List V) : ∀ (ks : List Key) (e : Env) (i : Nat), FlatKeys ks →
    FlatEnv e → KeysNodup e → FlatEnv (writeOuts f args e ks i) ∧ KeysNodup (writeOuts f args e ks i)
  | [], e, _, _, h1, h2 => ⟨h1, h2⟩
  | k :: ks, e, i, hk, h1, h2 => by
    simp only [writeOuts]
    have hks : FlatKeys ks := fun x hx => hk x (List.mem_cons_of_mem _ hx)
    split
    · exact writeOuts_inv f args ks e (i + 1) hks h1 h2
    · obtain ⟨t, rfl⟩ := hk k (by simp)
      exact writeOuts_inv f args ks _ (i + 1) hks (set_flat h1 t _) (set_nodup h2 _ _)

theorem run_inv : ∀ (ms : List Mod) (e r : Env), (∀ m ∈ ms, FlatKeys m.outs) → FlatEnv e → KeysNodup e →
    run ms e = some r → FlatEnv r ∧ KeysNodup r
  | [], e, r, _, h1, h2, h => by simp [run] at h; subst h; exact ⟨h1, h2⟩
  | m :: ms, e, r, hm, h1, h2, h => by
    obtain ⟨e', hr, hrest⟩ := run_cons_inv h
    obtain ⟨args, _, rfl⟩ := runMod_inv hr
    obtain ⟨f1, f2⟩ := writeOuts_inv m.f args m.outs e 0 (hm m (by simp)) h1 h2
    exact run_inv ms _ r (fun x hx => hm x (List.mem_cons_of_mem _ hx)) f1 f2 hrest

end TdVerif.C14
