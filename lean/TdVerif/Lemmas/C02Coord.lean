/-
  Helper lemmas for C02: every coordinate map of Model/C02Tensor acts on a prefix of the
  coordinate and leaves the trailing (feature) part alone — the list-level content of
  "the op acts on the batch dims with the trailing feature dims untouched".
-/
import TdVerif.Lemmas.C02Basic
import TdVerif.Model.C02Td

namespace TdVerif.C02
variable {α : Type}

/-! ### the generic reduction of a batch-view equivalence -/

theorem asBatch_eqv2 {α : Type} (t' : T α) (n' : Nat) (B : T (T α))
    (hshape : t'.shape.take n' = B.shape)
    (hinner : ∀ c, InB c (t'.shape.take n') →
      t'.shape.drop n' = (B.get c).shape ∧ ∀ f, InB f (t'.shape.drop n') → t'.get (c ++ f) = (B.get c).get f) :
    asBatch n' t' ≈ₜₜ B := by
  refine ⟨hshape, ?_⟩
  intro c hc
  exact ⟨(hinner c hc).1, fun f hf => (hinner c hc).2 f hf⟩

theorem InB_take_length {c : List Nat} {s : Shape} {n : Nat} (h : InB c (s.take n)) (hn : n ≤ s.length) :
    c.length = n := by
  have := InB.length_eq h; simp at this; omega

/-! ### transpose -/

theorem swap_append_left (c f : List Nat) (i j : Nat) (hi : i < c.length) (hj : j < c.length) :
    swap (c ++ f) i j = swap c i j ++ f := by
  unfold swap
  simp [List.getD_eq_getElem?_getD, List.getElem?_append_left, hi, hj]

theorem swap_take (l : List Nat) (i j n : Nat) (hi : i < n) (hj : j < n) :
    (swap l i j).take n = swap (l.take n) i j := by
  unfold swap
  apply List.ext_getElem?; intro k
  simp [List.getElem?_take, List.getElem?_set, List.getD_eq_getElem?_getD, hi, hj]
  grind

theorem swap_drop (l : List Nat) (i j n : Nat) (hi : i < n) (hj : j < n) :
    (swap l i j).drop n = l.drop n := by
  unfold swap
  apply List.ext_getElem?; intro k
  simp [List.getElem?_drop, List.getElem?_set]
  grind

theorem swap_length (l : List Nat) (i j : Nat) : (swap l i j).length = l.length := by
  simp [swap]

/-! ### unsqueeze / select / squeeze -/

theorem insertIdx_take (s : List Nat) (d n a : Nat) (hd : d ≤ n) (hn : n ≤ s.length) :
    (s.insertIdx d a).take (n + 1) = (s.take n).insertIdx d a := by
  apply List.ext_getElem?; intro k
  simp [List.getElem?_take, List.getElem?_insertIdx]
  grind

theorem insertIdx_drop (s : List Nat) (d n a : Nat) (hd : d ≤ n) (hn : n ≤ s.length) :
    (s.insertIdx d a).drop (n + 1) = s.drop n := by
  apply List.ext_getElem?; intro k
  simp [List.getElem?_drop, List.getElem?_insertIdx]
  grind

theorem eraseIdx_take (s : List Nat) (d n : Nat) (hd : d < n) (hn : n ≤ s.length) :
    (s.eraseIdx d).take (n - 1) = (s.take n).eraseIdx d := by
  apply List.ext_getElem?; intro k
  simp [List.getElem?_take, List.getElem?_eraseIdx]
  grind

theorem eraseIdx_drop (s : List Nat) (d n : Nat) (hd : d < n) (hn : n ≤ s.length) :
    (s.eraseIdx d).drop (n - 1) = s.drop n := by
  apply List.ext_getElem?; intro k
  simp [List.getElem?_drop, List.getElem?_eraseIdx]
  grind

theorem insertIdx_append_left (c f : List Nat) (d a : Nat) (hd : d ≤ c.length) :
    (c ++ f).insertIdx d a = c.insertIdx d a ++ f := by
  apply List.ext_getElem?; intro k
  simp [List.getElem?_insertIdx, List.getElem?_append]
  grind

/-! ### permute -/
theorem idxOf_range' (n k j : Nat) (h1 : n ≤ j) (h2 : j < n + k) : (List.range' n k).idxOf j = j - n := by
  induction k generalizing n with
  | zero => omega
  | succ k ih =>
    rw [List.range'_succ, List.idxOf_cons]
    by_cases h : n = j
    · simp [h]
    · have : (n == j) = false := by simp [h]
      rw [this]; simp
      rw [ih (n + 1) (by omega) (by omega)]; omega

theorem permSrc_pad (p : List Nat) (n k : Nat) (hp : p.Perm (List.range n)) (c f : List Nat)
    (hc : c.length = n) (hf : f.length = k) :
    permSrc (p ++ List.range' n k) (c ++ f) = permSrc p c ++ f := by
  have hpl : p.length = n := by simpa using hp.length_eq
  have hmem : ∀ j, j ∈ p ↔ j < n := by intro j; rw [hp.mem_iff]; simp
  apply List.ext_getElem?; intro j
  unfold permSrc
  simp only [List.length_append, List.length_range', hpl, List.getElem?_map, List.getElem?_range,
    List.getElem?_append, List.length_map, List.length_range]
  by_cases hj : j < n
  · have hjp : j ∈ p := (hmem j).2 hj
    have hidx : p.idxOf j < n := by rw [← hpl]; exact List.idxOf_lt_length_of_mem hjp
    simp [hj, show j < n + k by omega, List.idxOf_append, hjp, List.getD_eq_getElem?_getD,
      List.getElem?_append_left (show p.idxOf j < c.length by omega)]
  · have hjp : j ∉ p := fun h => hj ((hmem j).1 h)
    by_cases hjk : j < n + k
    · have : (List.range' n k).idxOf j = j - n := idxOf_range' n k j (by omega) hjk
      simp [hj, hjk, List.idxOf_append, hjp, this, hpl, List.getD_eq_getElem?_getD,
        List.getElem?_append_right (show c.length ≤ j - n + n by omega), hc]
      have : j - n < f.length := by omega
      simp [List.getElem?_eq_getElem this]
    · simp [hj, hjk]
      omega
theorem wrapPerm_ofNats (r : Nat) : ∀ (l acc : List Nat), (∀ x ∈ l, x < r) → l.Nodup → (∀ x ∈ l, x ∉ acc) →
    wrapPerm r (l.map Int.ofNat) acc = .ok (acc.reverse ++ l)
  | [], acc, _, _, _ => by simp [wrapPerm]
  | x :: l, acc, hlt, hnd, hdis => by
    have hx : x < r := hlt x (by simp)
    have hxa : x ∉ acc := hdis x (by simp)
    simp only [List.map_cons, wrapPerm]
    have : wrapDim r (Int.ofNat x) = some x := wrapDim_ofNat hx
    rw [this]; simp only [hxa, if_false]
    rw [wrapPerm_ofNats r l (x :: acc) (fun y hy => hlt y (by simp [hy])) (List.nodup_cons.1 hnd).2
      (by
        intro y hy; simp only [List.mem_cons, not_or]
        refine ⟨?_, hdis y (by simp [hy])⟩
        intro h; subst h; exact (List.nodup_cons.1 hnd).1 hy)]
    simp

theorem padPerm_perm (p : List Nat) (n k : Nat) (hp : p.Perm (List.range n)) :
    (p ++ List.range' n k).Perm (List.range (n + k)) := by
  have : List.range (n + k) = List.range n ++ List.range' n k := by
    rw [List.range_eq_range', List.range_eq_range']
    have := List.range'_append (s := 0) (m := n) (n := k) (step := 1)
    simp at this; exact this.symm
  rw [this]; exact List.Perm.append_right _ hp

theorem permShape_take (p : List Nat) (n k : Nat) (s : Shape) (hp : p.Perm (List.range n)) (hs : s.length = n + k) :
    ((p ++ List.range' n k).map (fun i => s.getD i 0)).take n = p.map (fun i => (s.take n).getD i 0) := by
  have hpl : p.length = n := by simpa using hp.length_eq
  have hmem : ∀ j, j ∈ p → j < n := by intro j hj; simpa using (hp.mem_iff.1 hj)
  rw [List.map_append, List.take_append_of_le_length (by simp [hpl])]
  rw [List.take_of_length_le (by simp [hpl])]
  apply List.map_congr_left
  intro i hi
  simp [List.getD_eq_getElem?_getD, List.getElem?_take, hmem i hi]

theorem permShape_drop (p : List Nat) (n k : Nat) (s : Shape) (hp : p.Perm (List.range n)) (hs : s.length = n + k) :
    ((p ++ List.range' n k).map (fun i => s.getD i 0)).drop n = s.drop n := by
  have hpl : p.length = n := by simpa using hp.length_eq
  rw [List.map_append, List.drop_append_of_le_length (by simp [hpl])]
  rw [List.drop_of_length_le (by simp [hpl])]
  apply List.ext_getElem?; intro j
  simp [List.getElem?_map, List.getElem?_range', List.getElem?_drop, List.getD_eq_getElem?_getD]
  by_cases hj : j < k
  · have : n + j < s.length := by omega
    simp [hj, List.getElem?_eq_getElem this]
  · simp [hj]; omega


/-! ### ravel / unravel -/

theorem prod_append (s F : Shape) : prod (s ++ F) = prod s * prod F := by
  induction s with
  | nil => simp [prod]
  | cons d s ih => simp [prod, ih, Nat.mul_assoc]

theorem prod_pos_of_InB : ∀ {c : List Nat} {s : Shape}, InB c s → 0 < prod s
  | [], [], _ => by simp [prod]
  | x :: cs, d :: s, h => by
    simp [InB] at h
    have := prod_pos_of_InB h.2
    simp [prod]; exact Nat.mul_pos (by omega) this
  | [], _ :: _, h => by simp [InB] at h
  | _ :: _, [], h => by simp [InB] at h

theorem ravel_lt : ∀ {c : List Nat} {s : Shape}, InB c s → ravel c s < prod s
  | [], [], _ => by simp [ravel, prod]
  | x :: cs, d :: s, h => by
    simp [InB] at h
    have ih := ravel_lt h.2
    simp only [ravel, prod]
    calc x * prod s + ravel cs s < x * prod s + prod s := by omega
      _ = (x + 1) * prod s := by rw [Nat.add_mul]; simp
      _ ≤ d * prod s := Nat.mul_le_mul_right _ (by omega)
  | [], _ :: _, h => by simp [InB] at h
  | _ :: _, [], h => by simp [InB] at h

theorem unravel_ravel : ∀ {c : List Nat} {s : Shape}, InB c s → unravel (ravel c s) s = c
  | [], [], _ => by simp [ravel, unravel]
  | x :: cs, d :: s, h => by
    simp [InB] at h
    have hlt := ravel_lt h.2
    have hpos : 0 < prod s := by omega
    simp only [ravel, unravel]
    have h1 : (x * prod s + ravel cs s) / prod s = x := by
      rw [Nat.add_comm, Nat.add_mul_div_right _ _ hpos, Nat.div_eq_of_lt hlt]; simp
    have h2 : (x * prod s + ravel cs s) % prod s = ravel cs s := by
      rw [Nat.add_comm, Nat.add_mul_mod_self_right, Nat.mod_eq_of_lt hlt]
    rw [h1, h2, unravel_ravel h.2]
  | [], _ :: _, h => by simp [InB] at h
  | _ :: _, [], h => by simp [InB] at h

theorem ravel_append : ∀ (c : List Nat) (s : Shape) (f : List Nat) (F : Shape), c.length = s.length →
    ravel (c ++ f) (s ++ F) = ravel c s * prod F + ravel f F
  | [], [], f, F, _ => by simp [ravel]
  | x :: cs, d :: s, f, F, h => by
    simp only [List.cons_append, ravel, prod_append]
    rw [ravel_append cs s f F (by simpa using h)]
    rw [Nat.add_mul, Nat.mul_assoc, Nat.add_assoc]
  | [], _ :: _, _, _, h => by simp at h
  | _ :: _, [], _, _, h => by simp at h

theorem unravel_append (F : Shape) (y : Nat) (hy : y < prod F) : ∀ (s : Shape) (x : Nat), x < prod s →
    unravel (x * prod F + y) (s ++ F) = unravel x s ++ unravel y F
  | [], x, hx => by
    simp [prod] at hx; subst hx; simp [unravel]
  | d :: s, x, hx => by
    have hP : 0 < prod F := by omega
    have hQ : 0 < prod s := by
      rcases Nat.eq_zero_or_pos (prod s) with h | h
      · simp [prod, h] at hx
      · exact h
    simp only [List.cons_append, unravel, prod_append]
    have h1 : (x * prod F + y) / (prod s * prod F) = x / prod s := by
      rw [Nat.mul_comm (prod s), ← Nat.div_div_eq_div_mul]
      congr 1
      rw [Nat.add_comm, Nat.add_mul_div_right _ _ hP, Nat.div_eq_of_lt hy]; simp
    have h2 : (x * prod F + y) % (prod s * prod F) = (x % prod s) * prod F + y := by
      rw [Nat.mul_comm (prod s), Nat.mod_mul]
      have a1 : (x * prod F + y) % prod F = y := by
        rw [Nat.add_comm, Nat.add_mul_mod_self_right, Nat.mod_eq_of_lt hy]
      have a2 : (x * prod F + y) / prod F = x := by
        rw [Nat.add_comm, Nat.add_mul_div_right _ _ hP, Nat.div_eq_of_lt hy]; simp
      rw [a1, a2, Nat.add_comm, Nat.mul_comm]
    rw [h1, h2, unravel_append F y hy s (x % prod s) (Nat.mod_lt _ hQ)]

/-! ### reshape -/

theorem reshape_coord (B F shape : Shape) (c f : List Nat) (hc : InB c shape) (hf : InB f F)
    (hprod : prod shape = prod B) :
    unravel (ravel (c ++ f) (shape ++ F)) (B ++ F) = unravel (ravel c shape) B ++ f := by
  rw [ravel_append c shape f F (InB.length_eq hc)]
  rw [unravel_append F (ravel f F) (ravel_lt hf) B (ravel c shape) (by rw [← hprod]; exact ravel_lt hc)]
  rw [unravel_ravel hf]

/-! ### flatten / unflatten -/

theorem flatten_coord (c f : List Nat) (blk : Shape) (a : Nat) (ha : a < c.length) :
    (c ++ f).take a ++ unravel ((c ++ f).getD a 0) blk ++ (c ++ f).drop (a + 1)
      = (c.take a ++ unravel (c.getD a 0) blk ++ c.drop (a + 1)) ++ f := by
  have h1 : (c ++ f).take a = c.take a := by rw [List.take_append_of_le_length (by omega)]
  have h2 : (c ++ f).getD a 0 = c.getD a 0 := by
    simp [List.getD_eq_getElem?_getD, List.getElem?_append_left ha]
  have h3 : (c ++ f).drop (a + 1) = c.drop (a + 1) ++ f := by rw [List.drop_append_of_le_length (by omega)]
  rw [h1, h2, h3]; simp

theorem unflatten_coord (c f : List Nat) (sizes : Shape) (d : Nat) (hd : d + sizes.length ≤ c.length) :
    (c ++ f).take d ++ [ravel (((c ++ f).drop d).take sizes.length) sizes] ++ (c ++ f).drop (d + sizes.length)
      = (c.take d ++ [ravel ((c.drop d).take sizes.length) sizes] ++ c.drop (d + sizes.length)) ++ f := by
  have h1 : (c ++ f).take d = c.take d := by rw [List.take_append_of_le_length (by omega)]
  have h2 : ((c ++ f).drop d).take sizes.length = (c.drop d).take sizes.length := by
    rw [List.drop_append_of_le_length (by omega), List.take_append_of_le_length (by simp; omega)]
  have h3 : (c ++ f).drop (d + sizes.length) = c.drop (d + sizes.length) ++ f := by
    rw [List.drop_append_of_le_length (by omega)]
  rw [h1, h2, h3]; simp

/-! ### narrow -/

theorem modify_append_left (c f : List Nat) (d : Nat) (g : Nat → Nat) (hd : d < c.length) :
    (c ++ f).modify d g = c.modify d g ++ f := by
  apply List.ext_getElem?; intro k
  simp [List.getElem?_modify, List.getElem?_append]
  grind

/-! ### expand -/

theorem expandSrc_append (B F : Shape) (c f : List Nat) (hc : B.length ≤ c.length) (hf : InB f F) :
    expandSrc (B ++ F) (c ++ f) = expandSrc B c ++ f := by
  unfold expandSrc
  have hfl := InB.length_eq hf
  have : (c ++ f).drop ((c ++ f).length - (B ++ F).length) = c.drop (c.length - B.length) ++ f := by
    rw [List.drop_append_of_le_length (by simp; omega)]; congr 1; simp; omega
  rw [this, List.zipWith_append (by simp; omega)]
  congr 1
  -- on the feature part every size-1 dim already has coordinate 0
  clear this hc
  induction f generalizing F with
  | nil => cases F <;> simp
  | cons x f ih =>
    cases F with
    | nil => simp [InB] at hf
    | cons d F =>
      simp [InB] at hf
      simp only [List.zipWith_cons_cons]
      rw [ih F hf.2 (by simpa using hfl)]
      by_cases h : d = 1
      · simp [h]; omega
      · simp [h]


/-! ### torch argument checks on already-resolved arguments -/

theorem inferSize_ofNats (sz : Shape) (m : Nat) (h : prod sz = m) : inferSize (natsToInts sz) m = some sz := by
  unfold inferSize natsToInts
  have h1 : (sz.map Int.ofNat).any (· < -1) = false := by
    simp [List.any_eq_false]
  have h2 : (sz.map Int.ofNat).filter (· ≠ -1) = sz.map Int.ofNat := by
    apply List.filter_eq_self.2; intro x hx; simp at hx ⊢; obtain ⟨y, _, rfl⟩ := hx; omega
  have h3 : (sz.map Int.ofNat).count (-1) = 0 := by
    apply List.count_eq_zero.2; intro hx; simp at hx
  have h4 : (sz.map Int.ofNat).map Int.toNat = sz := by simp [List.map_map, Function.comp_def]
  simp only [h1, h2, h3, h4, h]
  simp


theorem mapM_ok_of_forall {β γ : Type} (f : β → Except Err γ) (g : β → γ) :
    ∀ (l : List β), (∀ x ∈ l, f x = .ok (g x)) → l.mapM f = .ok (l.map g)
  | [], _ => rfl
  | x :: l, h => by
    rw [List.mapM_cons, h x (by simp), mapM_ok_of_forall f g l (fun y hy => h y (by simp [hy]))]
    rfl

theorem range_map_getD (l : List Nat) : (List.range l.length).map (fun i => l.getD i 0) = l := by
  apply List.ext_getElem?; intro k
  simp [List.getElem?_map, List.getElem?_range, List.getD_eq_getElem?_getD]
  by_cases hk : k < l.length
  · simp [hk]
  · simp [hk]

/-- `expandSizes` accepts an all-non-negative size that is compatible with the shape and returns it -/
theorem expandSizes_ok (s size : Shape) (hlen : s.length ≤ size.length)
    (hcompat : ∀ i, i < s.length → s.getD i 0 = 1 ∨ size.getD (size.length - s.length + i) 0 = s.getD i 0) :
    expandSizes s (natsToInts size) = .ok size := by
  unfold expandSizes
  have hl : (natsToInts size).length = size.length := by simp [natsToInts]
  simp only [hl, show ¬ size.length < s.length by omega, if_false]
  rw [mapM_ok_of_forall _ (fun i => size.getD i 0)]
  · rw [range_map_getD]
  · intro i hi
    have hi' : i < size.length := by simpa using hi
    have hv : (natsToInts size).getD i 0 = ((size.getD i 0 : Nat) : Int) := by
      simp [natsToInts, List.getD_eq_getElem?_getD, List.getElem?_map, List.getElem?_eq_getElem hi']
    rw [hv]
    by_cases hlead : i < size.length - s.length
    · simp [hlead]
    · simp only [hlead, if_false]
      have hne : ¬ (((size.getD i 0 : Nat) : Int) = -1) := by omega
      simp only [hne, if_false]
      have hj : i - (size.length - s.length) < s.length := by omega
      rcases hcompat _ hj with h1 | h2
      · rw [if_pos h1, if_neg (by omega)]; simp only [Int.toNat_natCast]
      · have : size.length - s.length + (i - (size.length - s.length)) = i := by omega
        rw [this] at h2
        by_cases h1 : s.getD (i - (size.length - s.length)) 0 = 1
        · rw [if_pos h1, if_neg (by omega)]; simp only [Int.toNat_natCast]
        · rw [if_neg h1, if_pos (by rw [h2]), h2]



/-! ### squeeze() as a view -/

theorem filter_ne_one_cons_one (s : Shape) : (1 :: s).filter (· ≠ 1) = s.filter (· ≠ 1) :=
  List.filter_cons_of_neg (by simp)

theorem filter_ne_one_cons_ne {d : Nat} (s : Shape) (hd : d ≠ 1) : (d :: s).filter (· ≠ 1) = d :: s.filter (· ≠ 1) :=
  List.filter_cons_of_pos (by simpa using hd)

theorem prod_filter_ne_one (s : Shape) : prod (s.filter (· ≠ 1)) = prod s := by
  induction s with
  | nil => rfl
  | cons d s ih =>
    by_cases h : d = 1
    · subst h; rw [filter_ne_one_cons_one, ih]; simp [prod]
    · rw [filter_ne_one_cons_ne s h]; simp only [prod, ih]

theorem squeezeAll_coord : ∀ (s : Shape) (c : List Nat), InB c (s.filter (· ≠ 1)) →
    unravel (ravel c (s.filter (· ≠ 1))) s = unsq1 s c
  | [], c, h => by simp [unravel, unsq1]
  | d :: s, c, h => by
    by_cases hd : d = 1
    · subst hd
      rw [filter_ne_one_cons_one] at h ⊢
      have hlt := ravel_lt h
      rw [prod_filter_ne_one] at hlt
      simp only [unravel, unsq1, if_true]
      rw [Nat.div_eq_of_lt hlt, Nat.mod_eq_of_lt hlt, squeezeAll_coord s c h]
    · rw [filter_ne_one_cons_ne s hd] at h ⊢
      cases c with
      | nil => simp only [InB] at h
      | cons x cs =>
        simp only [InB] at h
        have hlt := ravel_lt h.2
        rw [prod_filter_ne_one] at hlt
        have hpos : 0 < prod s := by omega
        simp only [ravel, unravel, unsq1, hd, if_false, prod_filter_ne_one, List.headD_cons, List.tail_cons]
        have h1 : (x * prod s + ravel cs (s.filter (· ≠ 1))) / prod s = x := by
          rw [Nat.add_comm, Nat.add_mul_div_right _ _ hpos, Nat.div_eq_of_lt hlt]; simp
        have h2 : (x * prod s + ravel cs (s.filter (· ≠ 1))) % prod s = ravel cs (s.filter (· ≠ 1)) := by
          rw [Nat.add_comm, Nat.add_mul_mod_self_right, Nat.mod_eq_of_lt hlt]
        rw [h1, h2, squeezeAll_coord s cs h.2]


theorem reshape_eqv_squeezeAll (u : T (T α)) : T.Eqv2 (u.reshape (u.shape.filter (· ≠ 1))) u.squeezeAll := by
  refine ⟨rfl, ?_⟩
  intro c hc
  have hc' : InB c (u.shape.filter (· ≠ 1)) := hc
  simp only [T.reshape, T.squeezeAll]
  rw [squeezeAll_coord u.shape c hc']
  exact ⟨rfl, fun _ _ => rfl⟩

theorem Eqv2.trans {a b c : T (T α)} (h1 : a ≈ₜₜ b) (h2 : b ≈ₜₜ c) : a ≈ₜₜ c := by
  refine ⟨h1.1.trans h2.1, ?_⟩
  intro x hx
  have hb : InB x b.shape := h1.1 ▸ hx
  obtain ⟨s1, g1⟩ := h1.2 x hx
  obtain ⟨s2, g2⟩ := h2.2 x hb
  refine ⟨s1.trans s2, ?_⟩
  intro f hf
  rw [g1 f hf, g2 f (s1 ▸ hf)]


/-! ### misc -/
theorem swap_comm (l : List Nat) (i j : Nat) : swap l i j = swap l j i := by
  unfold swap
  apply List.ext_getElem?; intro k
  simp [List.getElem?_set, List.getD_eq_getElem?_getD]
  grind
theorem swap_self (l : List Nat) (i : Nat) : swap l i i = l := by
  unfold swap
  apply List.ext_getElem?; intro k
  simp [List.getElem?_set, List.getD_eq_getElem?_getD]
  grind
theorem normDim_some {n : Nat} {d : Int} {i : Nat} (h : normDim n d = some i) :
    (if d < 0 then (n : Int) + d else d) = (i : Int) ∧ i < n := by
  unfold normDim at h
  grind
theorem splitLoop_tiles (k max : Nat) (hk : 0 < k) : ∀ (fuel idx1 : Nat), idx1 ≤ max → max - idx1 ≤ fuel →
    Tiles (splitLoop k max fuel idx1) idx1 max
  | 0, idx1, h1, h2 => by simp [splitLoop, Tiles]; omega
  | fuel + 1, idx1, h1, h2 => by
    unfold splitLoop
    by_cases h : idx1 < max
    · simp only [h, if_true, Tiles, true_and]
      have hnxt : idx1 + (min max (idx1 + k) - idx1) = min max (idx1 + k) := by omega
      rw [hnxt]
      exact splitLoop_tiles k max hk fuel (min max (idx1 + k)) (by omega) (by omega)
    · simp only [h, if_false, Tiles]; omega
theorem splitListLoop_tiles (max : Nat) : ∀ (sizes : List Nat) (idx1 : Nat), idx1 ≤ max →
    Tiles (splitListLoop max sizes idx1).1 idx1 (splitListLoop max sizes idx1).2 ∧ (splitListLoop max sizes idx1).2 ≤ max
  | [], idx1, h => by simp [splitListLoop, Tiles]; exact h
  | s :: rest, idx1, h => by
    have ih := splitListLoop_tiles max rest (min max (idx1 + s)) (by omega)
    simp only [splitListLoop, Tiles, true_and]
    have hnxt : idx1 + (min max (idx1 + s) - idx1) = min max (idx1 + s) := by omega
    rw [hnxt]
    exact ih


/-! ### permutations of `range n` (pigeonhole, sorting) -/

theorem nodup_lt_length_le : ∀ (n : Nat) (l : List Nat), l.Nodup → (∀ x ∈ l, x < n) → l.length ≤ n
  | 0, l, _, h => by
    cases l with
    | nil => simp
    | cons a _ => exact absurd (h a (by simp)) (by omega)
  | n + 1, l, hnd, h => by
    have ih := nodup_lt_length_le n (l.erase n) (hnd.erase n) (by
      intro x hx
      have := (hnd.mem_erase_iff).1 hx
      have := h x this.2
      omega)
    by_cases hm : n ∈ l
    · rw [List.length_erase_of_mem hm] at ih; omega
    · rw [List.erase_of_not_mem hm] at ih; omega

theorem perm_range_of_nodup_lt : ∀ (n : Nat) (l : List Nat), l.Nodup → (∀ x ∈ l, x < n) → l.length = n →
    l.Perm (List.range n)
  | 0, l, _, _, hl => by
    have : l = [] := List.length_eq_zero_iff.1 hl
    subst this; simp
  | n + 1, l, hnd, h, hl => by
    have hm : n ∈ l := by
      by_cases hm : n ∈ l
      · exact hm
      · have := nodup_lt_length_le n l hnd (by
          intro x hx
          have := h x hx
          have : x ≠ n := fun e => hm (e ▸ hx)
          omega)
        omega
    have ih := perm_range_of_nodup_lt n (l.erase n) (hnd.erase n) (by
      intro x hx
      have := (hnd.mem_erase_iff).1 hx
      have := h x this.2
      omega) (by rw [List.length_erase_of_mem hm]; omega)
    rw [List.range_succ]
    exact (List.perm_cons_erase hm).trans ((List.Perm.cons n ih).trans (List.perm_append_singleton n _).symm)

theorem mergeSort_of_perm_range (p : List Nat) (n : Nat) (hp : p.Perm (List.range n)) :
    p.mergeSort = List.range n := by
  apply List.Perm.eq_of_pairwise (le := fun a b => decide (a ≤ b))
  · intro a b _ _ h1 h2
    simp at h1 h2; omega
  · apply List.pairwise_mergeSort
    · intro a b c h1 h2; simp at *; omega
    · intro a b; simp; omega
  · have := List.pairwise_le_range (n := n)
    exact this.imp (by intro a b h; simpa using h)
  · exact (List.mergeSort_perm p _).trans hp

theorem perm_range_of_mergeSort (p : List Nat) (h : p.mergeSort = List.range p.length) : p.Perm (List.range p.length) := by
  have := List.mergeSort_perm p (fun a b => decide (a ≤ b))
  rw [h] at this; exact this.symm


theorem range_map_getD' (l : List Nat) : (List.range l.length).map (fun i => l.getD i 0) = l := by
  apply List.ext_getElem?; intro k
  simp [List.getElem?_map, List.getD_eq_getElem?_getD]
  by_cases hk : k < l.length
  · simp [hk]
  · simp [hk]

/-- `permute` on an explicit permutation `p` of the batch dims (non-negative spelling) -/
theorem permuteMeta_of_perm (p : List Nat) (bs : Shape) (nm : Names) (hp : p.Perm (List.range bs.length)) :
    resShape bs (permuteMeta (natsToInts p) bs nm) = some (p.map (fun i => bs.getD i 0)) := by
  have hlen : p.length = bs.length := by simpa using hp.length_eq
  have hlt : ∀ x ∈ p, x < bs.length := fun x hx => by simpa using (hp.mem_iff.1 hx)
  unfold permuteMeta
  have h1 : (natsToInts p).map (fun d => if d ≥ 0 then d else (bs.length : Int) + d) = natsToInts p := by
    simp [natsToInts, List.map_map, Function.comp_def]
  simp only [h1]
  have h2 : (natsToInts p).any (fun d => d < 0 ∨ d ≥ (bs.length : Int)) = false := by
    simp only [natsToInts, List.any_eq_false, List.mem_map]
    rintro d ⟨x, hx, rfl⟩
    have := hlt x hx
    simp; omega
  have h3 : (natsToInts p).length = bs.length := by simp [natsToInts, hlen]
  have h4 : (natsToInts p).map Int.toNat = p := by simp [natsToInts, List.map_map, Function.comp_def]
  have h5 : p.mergeSort = List.range p.length := by rw [hlen]; exact mergeSort_of_perm_range p _ hp
  simp only [h2, h3, h4, h5, Bool.false_eq_true, if_false, ne_eq, not_true_eq_false]
  by_cases hn : p.length = 0 ∧ bs.length = 0
  · simp only [hn, and_self, if_true, resShape]
    have hb : bs = [] := List.length_eq_zero_iff.1 hn.2
    have hpn : p = [] := List.length_eq_zero_iff.1 hn.1
    subst hb; subst hpn; rfl
  · simp only [hn, if_false]
    by_cases hid : p = List.range p.length
    · simp only [hid.symm, if_true, resShape]
      rw [hid, hlen, range_map_getD']
    · simp only [hid, if_false, resShape]
      rw [hlen, List.drop_length, List.append_nil]


/-! ### repeat -/

theorem zipWith_mod_inb : ∀ (f : List Nat) (F : Shape), InB f F → List.zipWith (· % ·) f F = f
  | [], [], _ => rfl
  | x :: f, d :: F, h => by
    simp only [InB] at h
    simp only [List.zipWith_cons_cons, zipWith_mod_inb f F h.2, Nat.mod_eq_of_lt h.1]
  | [], _ :: _, h => by simp [InB] at h
  | _ :: _, [], h => by simp [InB] at h

theorem zipWith_mul_ones (F : Shape) : List.zipWith (· * ·) F (List.replicate F.length 1) = F := by
  induction F with
  | nil => rfl
  | cons d F ih => simp [List.replicate_succ, ih]


variable {α : Type} in
theorem applyEntry_node_other (call : LeafCall) (bs : Shape) (names : Names) (es : List (String × TD α))
    (hns : ∀ ds sh n, call = LeafCall.squeezeDims ds sh n → False) :
    applyEntry call (.node bs names es) = tdNode (opOfCall call bs) bs names es := by
  cases call <;> first | (exact absurd rfl (fun e => hns _ _ _ e)) | (rw [applyEntry]; exact hns)

variable {α : Type} in
theorem applyEntry_node_squeezeDims (ds : List Nat) (sh : Shape) (n : Nat) (bs : Shape) (names : Names) (es : List (String × TD α)) :
    applyEntry (.squeezeDims ds sh n) (.node bs names es) =
      (match mapEntries (.squeezeDims ds (eraseDims bs ds) bs.length) es with
       | .error e => .error e
       | .ok es' => .ok (.node (eraseDims bs ds) (normNames (names.map fun l => if l.isEmpty then l else eraseDims l ds)) es')) := by
  rw [applyEntry]
  simp only [bind, Except.bind, pure, Except.pure]
  cases mapEntries (LeafCall.squeezeDims ds (eraseDims bs ds) bs.length) es <;> rfl

end TdVerif.C02
