/-
  C08 — basic facts about stack / select / unbind (tensor level).
-/
import TdVerif.Lemmas.C08Read

namespace TdVerif.C08

theorem insertIdx_eraseIdx_self : ∀ (l : List Nat) (i : Nat), i < l.length →
    (l.eraseIdx i).insertIdx i (at0 l i) = l
  | [], i, h => by simp at h
  | a :: l, 0, _ => by simp [at0]
  | a :: l, i + 1, h => by
    simp [at0_cons_succ, insertIdx_eraseIdx_self l i (by simpa using h)]

/-- selecting member `i` of the stack along the stack dim is member `i` -/
theorem select_stack [Inhabited α] (ms : List (T α)) (sh : Shape) (sd i : Nat)
    (hsh : ∀ m ∈ ms, m.shape = sh) (hsd : sd ≤ sh.length) (hi : i < ms.length) :
    (T.stack ms sd).select sd i ≈ₜ ms[i] := by
  have hne : ms ≠ [] := by intro h; simp [h] at hi
  have hhead := head_shape_of_all ms sh hsh hne
  have hmi : ms[i].shape = sh := hsh _ (List.getElem_mem _)
  constructor
  · show ((T.stack ms sd).shape).eraseIdx sd = _
    rw [T.stack_shape, hhead, List.eraseIdx_insertIdx_self, hmi]
  · intro c hc
    have hc' : InB c sh := by
      have : (T.stack ms sd).shape.eraseIdx sd = sh := by
        rw [T.stack_shape, hhead, List.eraseIdx_insertIdx_self]
      exact this ▸ hc
    have hl : sd ≤ c.length := by rw [InB.length hc']; exact hsd
    show (T.stack ms sd).get (c.insertIdx sd i) = _
    rw [T.stack_get, List.eraseIdx_insertIdx_self]
    simp [at0, List.getElem?_insertIdx_self, hl, List.getElem?_eq_getElem hi]

/-- `torch.stack(t.unbind(sd), sd) == t` -/
theorem stack_unbind [Inhabited α] (t : T α) (sd : Nat) (hsd : sd < t.shape.length)
    (hpos : 0 < at0 t.shape sd) :
    T.stack (t.unbind sd) sd ≈ₜ t := by
  have hn : t.shape[sd]?.getD 0 = at0 t.shape sd := rfl
  have hshape : (T.stack (t.unbind sd) sd).shape = t.shape := by
    rw [T.stack_shape]
    unfold T.unbind
    rw [hn]
    cases hk : at0 t.shape sd with
    | zero => omega
    | succ k =>
      simp only [List.range_succ_eq_map, List.map_cons, List.head?_cons, Option.map_some,
        Option.getD_some, List.length_cons, List.length_map, List.length_range, T.select]
      rw [← hk]; exact insertIdx_eraseIdx_self _ _ hsd
  refine ⟨hshape, ?_⟩
  intro c hc
  rw [hshape] at hc
  have hlt : at0 c sd < at0 t.shape sd := by
    apply InB.at0_lt hc
    simp [at0, List.getElem?_eq_getElem hsd]
  have hcl : sd < c.length := by rw [InB.length hc]; exact hsd
  rw [T.stack_get]
  unfold T.unbind
  rw [hn]
  simp only [List.getElem?_map, List.getElem?_range hlt, Option.map_some, Option.getD_some, T.select]
  rw [insertIdx_eraseIdx_self c sd hcl]

end TdVerif.C08
