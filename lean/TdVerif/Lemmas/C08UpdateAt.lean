/-
  C08 — `update_at_` performs the writes of `__setitem__` (model: Model/C08UpdateAt.lean).
-/
import TdVerif.Model.C08UpdateAt
import TdVerif.Lemmas.C08Set
import TdVerif.Lemmas.C08Split
namespace TdVerif.C08

/-- an index without a mask on / spanning the stack dim: `_split_index` reports `has_bool = False` -/
theorem plain_noBool (L : Lazy α) (ix : List Ix) (hp : Plain L.sd ix) (hne : ∀ it ∈ ix, it ≠ Ix.ell)
    (hadv : AtMostOneAdv ix) : ∀ st, splitIndex L ix = some st → st.hasBool = false := by
  intro st hst
  have hB := splitLoop_before L.sd L.members.length L.batch ix L.sd 0 {} (by simp) hp hne
    (by simpa [AtMostOneAdv] using hadv) rfl rfl rfl rfl
  unfold splitIndex at hst
  cases hsel : selOf L.members.length (splitRec L.sd ix).item with
  | none => simp [hB.1 hsel] at hst
  | some p =>
    obtain ⟨sel, ii, nd⟩ := p
    obtain ⟨st', hloop, hspec⟩ := hB.2 sel ii nd hsel
    simp only [hloop, Option.bind_some, hspec.hasBool, Bool.false_eq_true, if_false, Option.some.injEq] at hst
    rw [← hst]; exact hspec.hasBool

/-- for a value of the indexed batch size, and an index without a mask on / spanning the stack dim,
`update_at_` performs the writes of `__setitem__` -/
theorem lazyUpdateAt_eq_set (L : Lazy α) (ix ix' : List Ix) (v : TD α)
    (hix : convertEllipsis ix L.batch.length = some ix')
    (hvb : idxShape ix' L.batch = some v.batch)
    (hnb : ∀ st, splitIndex L ix' = some st → st.hasBool = false) (L' : Lazy α)
    (h : lazyUpdateAt L ix v = some L') : lazySetCore L ix' v = some L' := by
  unfold lazyUpdateAt at h
  rw [hix] at h
  simp only [Option.bind_some] at h
  cases hst : splitIndex L ix' with
  | none => rw [hst] at h; simp at h
  | some st =>
    rw [hst] at h
    simp only [Option.bind_some] at h
    by_cases hb : st.hasBool ∨ st.isNd
    · rw [if_pos hb] at h
      unfold lazySetCoreM at h
      simp only [hst, hnb st hst, Bool.false_eq_true, if_false] at h
      exact h
    · rw [if_neg hb] at h
      have hb1 : st.hasBool = false := by
        cases hh : st.hasBool <;> simp_all
      have hb2 : st.isNd = false := by
        cases hh : st.isNd <;> simp_all
      unfold lazySetCore
      rw [hvb]
      simp only [Option.bind_some, ne_eq, not_true_eq_false, if_false, hst, hb1, hb2, Bool.false_eq_true]
      exact h

end TdVerif.C08
