/-
  C08 — `update_at_` performs the writes of `__setitem__` (model: Model/C08UpdateAt.lean).
-/
import TdVerif.Model.C08UpdateAt
import TdVerif.Lemmas.C08Set
namespace TdVerif.C08

/-- for a value of the indexed batch size `update_at_` performs the writes of `__setitem__` -/
theorem lazyUpdateAt_eq_set (L : Lazy α) (ix ix' : List Ix) (v : TD α)
    (hix : convertEllipsis ix L.batch.length = some ix')
    (hvb : idxShape ix' L.batch = some v.batch) (L' : Lazy α)
    (h : lazyUpdateAt L ix v = some L') : lazySetCore L ix' v = some L' := by
  unfold lazyUpdateAt at h
  rw [hix] at h
  simp only [Option.bind_some] at h
  cases hst : splitIndex L ix' with
  | none => rw [hst] at h; simp at h
  | some st =>
    rw [hst] at h
    simp only [Option.bind_some] at h
    by_cases hb : st.hasBool ∨ st.isNd
    · rw [if_pos hb] at h; exact h
    · rw [if_neg hb] at h
      have hb1 : st.hasBool = false := by
        cases hh : st.hasBool <;> simp_all
      have hb2 : st.isNd = false := by
        cases hh : st.isNd <;> simp_all
      unfold lazySetCore
      rw [hvb]
      simp only [Option.bind_some, ne_eq, not_true_eq_false, if_false, hst, hb1, hb2, Bool.false_eq_true]
      exact h

end TdVerif.C08
