/-
  C08 — torch.stack of lazy stacks, update_, insert / append.
-/
import TdVerif.Lemmas.C08Cat
namespace TdVerif.C08

/-- interchange of two stacks: stacking the operands `rows` (each a list of `n` tensors stacked
at `sd`) along `d` = stacking, at the shifted stack dim, the stacks of the i-th members along the
shifted `d` -/
theorem stack_stack [Inhabited α] (rows : List (List (T α))) (sh : Shape) (n sd d : Nat)
    (hrows : rows ≠ []) (hn : 0 < n) (hlen : ∀ r ∈ rows, r.length = n)
    (hsh : ∀ r ∈ rows, ∀ t ∈ r, t.shape = sh) (hsd : sd ≤ sh.length) (hd : d ≤ sh.length + 1) :
    T.stack ((List.range n).map fun i => T.stack (rows.map fun r => r[i]?.getD default) (if d ≤ sd then d else d - 1))
        (if d ≤ sd then sd + 1 else sd)
      ≈ₜ T.stack (rows.map fun r => T.stack r sd) d := by
  obtain ⟨r0, rrest, hr0⟩ : ∃ r0 rrest, rows = r0 :: rrest := by
    cases rows with
    | nil => exact absurd rfl hrows
    | cons a b => exact ⟨a, b, rfl⟩
  have hr0len : r0.length = n := hlen r0 (by simp [hr0])
  have hr0ne : r0 ≠ [] := by intro h; rw [h] at hr0len; simp at hr0len; omega
  have hheadR : ∀ r ∈ rows, (r.head?.map T.shape).getD [] = sh := by
    intro r hr
    have hl := hlen r hr
    cases r with
    | nil => simp at hl; omega
    | cons a _ => simpa using hsh _ hr a (by simp)
  have hinnerR : ∀ r ∈ rows, (T.stack r sd).shape = sh.insertIdx sd n := by
    intro r hr; rw [T.stack_shape, hheadR r hr, hlen r hr]
  have hcolshape : ∀ i, i < n → (T.stack (rows.map fun r => r[i]?.getD default) (if d ≤ sd then d else d - 1)).shape
      = sh.insertIdx (if d ≤ sd then d else d - 1) rows.length := by
    intro i hi
    rw [T.stack_shape, hr0]
    simp only [List.map_cons, List.head?_cons, Option.map_some, Option.getD_some, List.length_cons, List.length_map]
    rw [List.getElem?_eq_getElem (by omega), Option.getD_some, hsh r0 (by simp [hr0]) _ (List.getElem_mem _)]
  have hshapeL : (T.stack ((List.range n).map fun i => T.stack (rows.map fun r => r[i]?.getD default) (if d ≤ sd then d else d - 1))
        (if d ≤ sd then sd + 1 else sd)).shape
      = (sh.insertIdx (if d ≤ sd then d else d - 1) rows.length).insertIdx (if d ≤ sd then sd + 1 else sd) n := by
    rw [T.stack_shape]
    cases n with
    | zero => omega
    | succ l =>
      simp only [List.range_succ_eq_map, List.map_cons, List.head?_cons, Option.map_some, Option.getD_some,
        List.length_cons, List.length_map, List.length_range]
      rw [hcolshape 0 (by omega)]
  have hshapeR : (T.stack (rows.map fun r => T.stack r sd) d).shape = (sh.insertIdx sd n).insertIdx d rows.length := by
    rw [T.stack_shape, hr0]
    simp only [List.map_cons, List.head?_cons, Option.map_some, Option.getD_some, List.length_cons, List.length_map]
    rw [hinnerR r0 (by simp [hr0])]
  have hshapes : (sh.insertIdx (if d ≤ sd then d else d - 1) rows.length).insertIdx (if d ≤ sd then sd + 1 else sd) n
      = (sh.insertIdx sd n).insertIdx d rows.length := by
    by_cases hds : d ≤ sd
    · simp only [hds, if_true]
      exact List.insertIdx_comm _ _ hds hsd
    · simp only [hds, if_false]
      obtain ⟨e, rfl⟩ : ∃ e, d = e + 1 := ⟨d - 1, by omega⟩
      simp only [Nat.add_sub_cancel]
      exact (List.insertIdx_comm _ _ (by omega) (by omega)).symm
  refine ⟨by rw [hshapeL, hshapeR, hshapes], ?_⟩
  intro c hc
  rw [hshapeL, hshapes] at hc
  have hcl : c.length = sh.length + 2 := by
    rw [InB.length hc, List.length_insertIdx_of_le_length (by rw [List.length_insertIdx_of_le_length hsd]; omega),
      List.length_insertIdx_of_le_length hsd]
  -- bounds of the two stack coordinates
  have hj : at0 c d < rows.length := InB.at0_lt_of_insert c _ d _ (by rw [List.length_insertIdx_of_le_length hsd]; omega) hc
  rw [T.stack_get, T.stack_get]
  by_cases hds : d ≤ sd
  · simp only [hds, if_true]
    have hi : at0 c (sd + 1) < n := by
      apply InB.at0_lt hc
      rw [List.getElem?_insertIdx_of_gt (by omega)]
      simp [List.getElem?_insertIdx_self, hsd]
    rw [List.getElem?_map, List.getElem?_range hi, Option.map_some, Option.getD_some, T.stack_get,
      at0_eraseIdx_of_gt c (sd + 1) d (by omega), List.getElem?_map, List.getElem?_map,
      List.getElem?_eq_getElem hj, Option.map_some, Option.map_some, Option.getD_some, Option.getD_some,
      T.stack_get, at0_eraseIdx_of_le c d sd hds, eraseIdx_eraseIdx_le c d sd hds]
  · simp only [hds, if_false]
    have hsdlt : sd < d := by omega
    obtain ⟨e, rfl⟩ : ∃ e, d = e + 1 := ⟨d - 1, by omega⟩
    simp only [Nat.add_sub_cancel]
    have hi : at0 c sd < n := by
      apply InB.at0_lt hc
      rw [List.getElem?_insertIdx_of_lt (by omega)]
      simp [List.getElem?_insertIdx_self, hsd]
    rw [List.getElem?_map, List.getElem?_range hi, Option.map_some, Option.getD_some, T.stack_get,
      at0_eraseIdx_of_le c sd e (by omega), List.getElem?_map, List.getElem?_map,
      List.getElem?_eq_getElem hj, Option.map_some, Option.map_some, Option.getD_some, Option.getD_some,
      T.stack_get, at0_eraseIdx_of_gt c (e + 1) sd hsdlt, eraseIdx_eraseIdx_le c sd e (by omega)]

/-- **`torch.stack([L1, …, Lk], dim)` of lazy stacks sharing their stack dim (no `out=`) is the
dense stack** of the operands: any number of operands, any rank, any `dim` spelling. -/
theorem stack_refines [Inhabited α] (Ls : List (Lazy α)) (b : Shape) (keys : List String) (feat : String → Shape)
    (n : Nat) (hn : 0 < n)
    (hU : ∀ L ∈ Ls, Uniform L b keys feat) (hlen : ∀ L ∈ Ls, L.members.length = n)
    (dim : Int) (L' : Lazy α) (h : lazyStackOp Ls dim = some L') :
    ∃ (L0 : Lazy α) (d : Nat), Ls.head? = some L0 ∧
      (d : Int) = (if dim < 0 then (L0.batch.length : Int) + dim + 1 else dim) ∧ d ≤ L0.batch.length ∧
      (∀ L ∈ Ls, L.sd = L0.sd) ∧
      absL L' ≈ stackTD (Ls.map absL) d := by
  unfold lazyStackOp at h
  cases Ls with
  | nil => simp at h
  | cons L0 rest =>
    dsimp only at h
    have hU0 := hU L0 (by simp)
    have hne0 : L0.members ≠ [] := by
      intro hm; have := hlen L0 (by simp); rw [hm] at this; simp at this; omega
    have hB0 := absL_batch_eq L0 b keys feat hU0 hne0
    have hr : L0.batch.length = b.length + 1 := by
      show (absL L0).batch.length = _
      rw [hB0, List.length_insertIdx_of_le_length hU0.hsd]
    generalize hd : (if dim < 0 then (L0.batch.length : Int) + dim + 1 else dim) = d at h ⊢
    split at h
    · simp at h
    split at h
    · simp at h
    rename_i hsdne
    split at h
    · simp at h
    rename_i hrange
    split at h
    · simp at h
    have hsdall : ∀ L ∈ L0 :: rest, L.sd = L0.sd := by
      intro L hL
      rcases List.mem_cons.mp hL with rfl | hL
      · rfl
      · by_cases hne : L.sd = L0.sd
        · exact hne
        · exfalso
          apply hsdne
          rw [List.any_eq_true]
          exact ⟨L, hL, by simpa using hne⟩
    refine ⟨L0, d.toNat, rfl, by omega, by omega, hsdall, ?_⟩
    obtain ⟨rfl, _⟩ := lazyStack_some' _ _ _ h
    have hlen0 := hlen L0 (by simp)
    rw [hlen0]
    have hdle : d.toNat ≤ b.length + 1 := by omega
    refine ⟨?_, ?_, ?_⟩
    · -- batch
      show ((((List.range n).map fun i => stackTD ((L0 :: rest).map fun L => L.members[i]?.getD default)
          (if d.toNat ≤ L0.sd then d.toNat else d.toNat - 1)).head?.map TD.batch).getD []).insertIdx
          (if d.toNat ≤ L0.sd then L0.sd + 1 else L0.sd)
          ((List.range n).map fun i => stackTD ((L0 :: rest).map fun L => L.members[i]?.getD default)
            (if d.toNat ≤ L0.sd then d.toNat else d.toNat - 1)).length
        = ((((L0 :: rest).map absL).head?.map TD.batch).getD []).insertIdx d.toNat ((L0 :: rest).map absL).length
      obtain ⟨l, hl⟩ : ∃ l, n = l + 1 := ⟨n - 1, by omega⟩
      subst hl
      simp only [List.range_succ_eq_map, List.map_cons, List.head?_cons, Option.map_some, Option.getD_some,
        List.length_cons, List.length_map, List.length_range, stackTD]
      have hm0 : (L0.members[0]?.getD default).batch = b := by
        rw [List.getElem?_eq_getElem (by omega)]; exact hU0.hbatch _ (List.getElem_mem _)
      rw [hm0]
      show _ = (absL L0).batch.insertIdx d.toNat (rest.length + 1)
      rw [hB0, hlen0]
      by_cases hds : d.toNat ≤ L0.sd
      · simp only [hds, if_true]
        exact List.insertIdx_comm _ _ hds hU0.hsd
      · simp only [hds, if_false]
        obtain ⟨e, he⟩ : ∃ e, d.toNat = e + 1 := ⟨d.toNat - 1, by omega⟩
        rw [he]; simp only [Nat.add_sub_cancel]
        exact (List.insertIdx_comm _ _ (by omega) (by omega)).symm
    · -- keys
      show ((((List.range n).map fun i => stackTD ((L0 :: rest).map fun L => L.members[i]?.getD default)
          (if d.toNat ≤ L0.sd then d.toNat else d.toNat - 1)).head?.map TD.keys).getD [])
        = ((((L0 :: rest).map absL).head?.map TD.keys).getD [])
      obtain ⟨l, hl⟩ : ∃ l, n = l + 1 := ⟨n - 1, by omega⟩
      subst hl
      simp only [List.range_succ_eq_map, List.map_cons, List.head?_cons, Option.map_some, Option.getD_some, stackTD]
      rw [List.getElem?_eq_getElem (by omega), Option.getD_some]
      show _ = (L0.members.head?.map TD.keys).getD []
      obtain ⟨_, hk⟩ := head_batch_of_uniform L0 b keys feat hU0 hne0
      rw [hk]; exact hU0.hkeys _ (List.getElem_mem _)
    · intro k hkk
      have hkeys : k ∈ keys := by
        have : (absL (⟨(List.range n).map fun i => stackTD ((L0 :: rest).map fun L => L.members[i]?.getD default)
            (if d.toNat ≤ L0.sd then d.toNat else d.toNat - 1), if d.toNat ≤ L0.sd then L0.sd + 1 else L0.sd⟩ : Lazy α)).keys = keys := by
          show ((((List.range n).map fun i => stackTD ((L0 :: rest).map fun L => L.members[i]?.getD default)
            (if d.toNat ≤ L0.sd then d.toNat else d.toNat - 1)).head?.map TD.keys).getD []) = keys
          obtain ⟨l, hl⟩ : ∃ l, n = l + 1 := ⟨n - 1, by omega⟩
          subst hl
          simp only [List.range_succ_eq_map, List.map_cons, List.head?_cons, Option.map_some, Option.getD_some, stackTD]
          rw [List.getElem?_eq_getElem (by omega), Option.getD_some]
          exact hU0.hkeys _ (List.getElem_mem _)
        rwa [this] at hkk
      -- the rows of leaf tensors
      have := stack_stack ((L0 :: rest).map fun L => L.members.map fun m => m.leaf k) (b ++ feat k) n L0.sd d.toNat
        (by simp) hn
        (by
          intro r hr
          simp only [List.mem_map] at hr
          obtain ⟨L, hL, rfl⟩ := hr
          simpa using hlen L hL)
        (by
          intro r hr t ht
          simp only [List.mem_map] at hr
          obtain ⟨L, hL, rfl⟩ := hr
          exact leaf_shapes L b keys feat (hU L hL) k hkeys t ht)
        (by simp; have := hU0.hsd; omega) (by simp; omega)
      show T.stack (((List.range n).map fun i => stackTD ((L0 :: rest).map fun L => L.members[i]?.getD default)
          (if d.toNat ≤ L0.sd then d.toNat else d.toNat - 1)).map fun m => m.leaf k) (if d.toNat ≤ L0.sd then L0.sd + 1 else L0.sd)
        ≈ₜ T.stack (((L0 :: rest).map absL).map fun m => m.leaf k) d.toNat
      have e1 : (((List.range n).map fun i => stackTD ((L0 :: rest).map fun L => L.members[i]?.getD default)
          (if d.toNat ≤ L0.sd then d.toNat else d.toNat - 1)).map fun m => m.leaf k)
          = (List.range n).map fun i => T.stack
              (((L0 :: rest).map fun L => L.members.map fun m => m.leaf k).map fun r => r[i]?.getD default)
              (if d.toNat ≤ L0.sd then d.toNat else d.toNat - 1) := by
        rw [List.map_map]
        apply List.map_congr_left
        intro i hi
        simp only [Function.comp, stackTD, List.map_map]
        congr 1
        apply List.map_congr_left
        intro L hL
        simp only [Function.comp, List.getElem?_map]
        cases L.members[i]? <;> rfl
      have e2 : (((L0 :: rest).map absL).map fun m => m.leaf k)
          = ((L0 :: rest).map fun L => L.members.map fun m => m.leaf k).map fun r => T.stack r L0.sd := by
        rw [List.map_map, List.map_map]
        apply List.map_congr_left
        intro L hL
        simp only [Function.comp]
        show T.stack (L.members.map fun m => m.leaf k) L.sd = _
        rw [hsdall L hL]
      rw [e1, e2]
      exact this

/-- **`lazy.update_(v)`** (tensordict source): piece `i` of every entry of `v` (`select(stack_dim, i)`)
is written into member `i`; reading an updated key back through the stack gives `v`'s entry, the
other keys are untouched. -/
theorem update__refines [Inhabited α] (L L' : Lazy α) (v : TD α) (h : lazyUpdate_ L v = some L')
    (hne : L.members ≠ []) (hsd : ∀ k ∈ v.keys, L.sd < (v.leaf k).shape.length)
    (hvb : ∀ k ∈ v.keys, at0 (v.leaf k).shape L.sd = at0 v.batch L.sd) :
    L'.sd = L.sd ∧ L'.members.length = L.members.length ∧
    (∀ k ∈ v.keys, (absL L').leaf k ≈ₜ v.leaf k) ∧
    (∀ k, k ∉ v.keys → (absL L').leaf k = (absL L).leaf k) := by
  unfold lazyUpdate_ at h
  split at h
  · simp at h
  rename_i hb
  have hb' : v.batch[L.sd]? = some L.members.length := by simpa using hb
  simp only [Option.map_eq_some_iff] at h
  obtain ⟨ms, hms, rfl⟩ := h
  have hmap := (allSome_eq_some _ _).mp hms
  have hul : (v.unbind L.sd).length = L.members.length := by simp [TD.unbind, hb']
  have hlen : ms.length = L.members.length := by
    have := congrArg List.length hmap; simp [hul] at this; omega
  have hmem : ∀ i (hi : i < L.members.length), ms[i]'(hlen ▸ hi) =
      { L.members[i] with leaf := fun k => if v.keys.contains k then (v.leaf k).select L.sd i else (L.members[i]).leaf k } := by
    intro i hi
    have := congrArg (fun l => l[i]?) hmap
    simp only [List.getElem?_map, List.getElem?_zip_eq_some] at this
    have hz : (L.members.zip (v.unbind L.sd))[i]? = some (L.members[i], (v.unbind L.sd)[i]'(hul ▸ hi)) := by
      rw [List.getElem?_zip_eq_some]
      exact ⟨List.getElem?_eq_getElem hi, List.getElem?_eq_getElem (hul ▸ hi)⟩
    rw [hz, List.getElem?_eq_getElem (hlen ▸ hi)] at this
    simp only [Option.map_some, TD.update_] at this
    split at this
    · simp only [Option.some.injEq] at this
      rw [← this]
      simp [TD.unbind, TD.mapLeaves]
    · simp at this
  refine ⟨rfl, hlen, ?_, ?_⟩
  · intro k hk
    have hc : v.keys.contains k = true := by simpa using hk
    show T.stack (ms.map fun m => m.leaf k) L.sd ≈ₜ v.leaf k
    have hlist : (ms.map fun m => m.leaf k) = (v.leaf k).unbind L.sd := by
      apply List.ext_getElem
      · simp [T.unbind, hlen]
        have := hvb k hk
        simp only [at0] at this
        rw [this, hb']; rfl
      · intro i h1 h2
        have hi : i < L.members.length := by simpa [hlen] using h1
        simp only [List.getElem_map, hmem i hi, hc, if_true, T.unbind, List.getElem_range]
    rw [hlist]
    apply stack_unbind (v.leaf k) L.sd (hsd k hk)
    rw [hvb k hk]
    simp only [at0, hb', Option.getD_some]
    exact List.length_pos_iff.mpr hne
  · intro k hk
    have hc : v.keys.contains k = false := by simpa using hk
    show T.stack (ms.map fun m => m.leaf k) L.sd = T.stack (L.members.map fun m => m.leaf k) L.sd
    congr 1
    apply List.ext_getElem
    · simp [hlen]
    · intro i h1 h2
      have hi : i < L.members.length := by simpa [hlen] using h1
      simp only [List.getElem_map, hmem i hi, hc]
      simp

/-- **`lazy.insert(index, m)` / `lazy.append(m)`**: Python `list.insert` on the member list — the
stack keeps its stack dim, stays uniform, and position `j` of the dense stack is the new member
at the insertion point, the old members (shifted) elsewhere. -/
theorem insert_refines [Inhabited α] (L L' : Lazy α) (b : Shape) (keys : List String) (feat : String → Shape)
    (hU : Uniform L b keys feat) (index : Int) (m : TD α)
    (hmk : m.keys = keys) (hml : ∀ k ∈ keys, (m.leaf k).shape = b ++ feat k)
    (hne : L.members ≠ []) (h : lazyInsert L index m = some L') :
    ∃ i : Nat, i ≤ L.members.length ∧
      (i : Int) = (if index < 0 then max 0 ((L.members.length : Int) + index) else min index (L.members.length : Int)) ∧
      L' = { L with members := L.members.insertIdx i m } ∧ Uniform L' b keys feat ∧ m.batch = b := by
  unfold lazyInsert at h
  obtain ⟨m0, r0, hm0⟩ : ∃ m0 r0, L.members = m0 :: r0 := by
    cases hh : L.members with
    | nil => exact absurd hh hne
    | cons a r => exact ⟨a, r, rfl⟩
  simp only [hm0, List.head?_cons] at h
  split at h
  · simp at h
  rename_i hbne
  have hmb : m.batch = b := by
    have : m.batch = m0.batch := by simpa using hbne
    rw [this]; exact hU.hbatch m0 (by simp [hm0])
  simp only [Option.some.injEq] at h
  generalize hi : (if index < 0 then max 0 (((m0 :: r0).length : Int) + index) else min index ((m0 :: r0).length : Int)) = i at h
  have hi0 : 0 ≤ i ∧ i ≤ ((m0 :: r0).length : Int) := by
    rw [← hi]; split <;> omega
  refine ⟨i.toNat, by rw [hm0]; simp at hi0 ⊢; omega, by rw [hm0, hi]; omega, by rw [← h, hm0], ?_, hmb⟩
  rw [← h]
  refine ⟨?_, ?_, ?_, hU.hsd⟩
  · intro x hx
    rcases List.mem_insertIdx (by simp at hi0 ⊢; omega) |>.mp hx with rfl | hx
    · exact hmb
    · exact hU.hbatch x (by rw [hm0]; exact hx)
  · intro x hx
    rcases List.mem_insertIdx (by simp at hi0 ⊢; omega) |>.mp hx with rfl | hx
    · exact hmk
    · exact hU.hkeys x (by rw [hm0]; exact hx)
  · intro x hx
    rcases List.mem_insertIdx (by simp at hi0 ⊢; omega) |>.mp hx with rfl | hx
    · exact hml
    · exact hU.hleaf x (by rw [hm0]; exact hx)

end TdVerif.C08
