/-
  C08 — reads with a rank-2 mask ON the stack dim (mask over the stack dim and the next one):
  prefix factorisation of the index (`idxShape_pre`, `idxCoord_pre`), n-ary cat (`T.catList_get`,
  `T.catList_shape`, `blockOf`), the true positions of a rank-2 mask row by row (`nonzero_rank2`,
  `mask2_dec`), and the T-level refinement `idx_stack_mask2`.
-/
import TdVerif.Lemmas.C08Set3
namespace TdVerif.C08

/-- basic items only: ints, slices, None -/
def BasicPre : List Ix → Prop
  | [] => True
  | .none :: r => BasicPre r
  | .int _ :: r => BasicPre r
  | .slice .. :: r => BasicPre r
  | _ :: _ => False

/-- dims of the indexed tensor a basic prefix consumes -/
def preDims : List Ix → Nat
  | [] => 0
  | .none :: r => preDims r
  | _ :: r => preDims r + 1

/-- prefix factorisation of the result shape: a basic prefix `pre` consumes the first `preDims pre`
dims and produces its own result dims; the rest of the index works on the remaining dims -/
theorem idxShape_pre : ∀ (pre rest : List Ix) (S : Shape), BasicPre pre → preDims pre ≤ S.length →
    idxShape (pre ++ rest) S =
      (idxShape pre (S.take (preDims pre))).bind fun ps => (idxShape rest (S.drop (preDims pre))).map (ps ++ ·)
  | [], rest, S, _, _ => by simp [idxShape, preDims]
  | .none :: r, rest, S, hb, hl => by
    simp only [List.cons_append, idxShape, preDims]
    rw [idxShape_pre r rest S (by simpa [BasicPre] using hb) (by simpa [preDims] using hl)]
    cases idxShape r (S.take (preDims r)) <;> simp
    cases idxShape rest (S.drop (preDims r)) <;> simp
  | .int k :: r, rest, [], hb, hl => by simp [preDims] at hl
  | .int k :: r, rest, d :: S, hb, hl => by
    simp only [List.cons_append, idxShape, preDims, List.take_succ_cons, List.drop_succ_cons]
    split
    · exact idxShape_pre r rest S (by simpa [BasicPre] using hb) (by simpa [preDims] using hl)
    · simp
  | .slice a b c :: r, rest, [], hb, hl => by simp [preDims] at hl
  | .slice a b c :: r, rest, d :: S, hb, hl => by
    simp only [List.cons_append, idxShape, preDims, List.take_succ_cons, List.drop_succ_cons]
    cases hsn : sliceNorm a b c d with
    | none => simp
    | some p =>
      obtain ⟨s0, st, len⟩ := p
      simp only
      split
      · rw [idxShape_pre r rest S (by simpa [BasicPre] using hb) (by simpa [preDims] using hl)]
        cases idxShape r (S.take (preDims r)) <;> simp
        cases idxShape rest (S.drop (preDims r)) <;> simp
      · simp
  | .tens _ :: _, _, _, hb, _ => by simp [BasicPre] at hb
  | .mask _ :: _, _, _, hb, _ => by simp [BasicPre] at hb
  | .ell :: _, _, _, hb, _ => by simp [BasicPre] at hb

end TdVerif.C08
namespace TdVerif.C08

theorem outRank_cons (it : Ix) (r : List Ix) : outRank (it :: r) = it.outRank + outRank r := by
  simp [outRank]

/-- prefix factorisation of the coordinate map -/
theorem idxCoord_pre : ∀ (pre rest : List Ix) (S : Shape) (c : List Nat), BasicPre pre →
    preDims pre ≤ S.length → outRank pre ≤ c.length →
    idxCoord (pre ++ rest) S c =
      idxCoord pre (S.take (preDims pre)) (c.take (outRank pre)) ++
        idxCoord rest (S.drop (preDims pre)) (c.drop (outRank pre))
  | [], rest, S, c, _, _, _ => by simp [idxCoord, preDims, outRank]
  | .none :: r, rest, S, c, hb, hl, hc => by
    rw [outRank_cons] at hc ⊢
    simp only [Ix.outRank_none] at hc ⊢
    simp only [List.cons_append, idxCoord, preDims]
    rw [idxCoord_pre r rest S c.tail (by simpa [BasicPre] using hb) (by simpa [preDims] using hl)
      (by simp; omega)]
    cases c with
    | nil => simp at hc
    | cons x c => simp [Nat.add_comm 1]
  | .int k :: r, rest, [], c, hb, hl, hc => by simp [preDims] at hl
  | .int k :: r, rest, d :: S, c, hb, hl, hc => by
    rw [outRank_cons] at hc ⊢
    simp only [Ix.outRank_int, Nat.zero_add] at hc ⊢
    simp only [List.cons_append, idxCoord, preDims, List.take_succ_cons, List.drop_succ_cons, List.cons_append]
    rw [idxCoord_pre r rest S c (by simpa [BasicPre] using hb) (by simpa [preDims] using hl) hc]
  | .slice a b e :: r, rest, [], c, hb, hl, hc => by simp [preDims] at hl
  | .slice a b e :: r, rest, d :: S, c, hb, hl, hc => by
    rw [outRank_cons] at hc ⊢
    simp only [Ix.outRank_slice] at hc ⊢
    simp only [List.cons_append, idxCoord, preDims, List.take_succ_cons, List.drop_succ_cons, List.cons_append]
    rw [idxCoord_pre r rest S c.tail (by simpa [BasicPre] using hb) (by simpa [preDims] using hl)
      (by simp; omega)]
    cases c with
    | nil => simp at hc
    | cons x c => simp [Nat.add_comm 1, at0]
  | .tens _ :: _, _, _, _, hb, _, _ => by simp [BasicPre] at hb
  | .mask _ :: _, _, _, _, hb, _, _ => by simp [BasicPre] at hb
  | .ell :: _, _, _, _, hb, _, _ => by simp [BasicPre] at hb

end TdVerif.C08
namespace TdVerif.C08

/-- which block (and where in it) position `k` of a concatenation of blocks of the given sizes is -/
def blockOf : List Nat → Nat → Nat × Nat
  | [], k => (0, k)
  | s :: r, k => if k < s then (0, k) else ((blockOf r (k - s)).1 + 1, (blockOf r (k - s)).2)

theorem blockOf_spec : ∀ (sizes : List Nat) (k : Nat), k < sizes.sum →
    (blockOf sizes k).1 < sizes.length ∧ (blockOf sizes k).2 < sizes[(blockOf sizes k).1]?.getD 0 ∧
    ((sizes.take (blockOf sizes k).1).sum + (blockOf sizes k).2 = k)
  | [], k, h => by simp at h
  | s :: r, k, h => by
    simp only [blockOf]
    by_cases hk : k < s
    · simp [hk]
    · simp only [hk, if_false]
      have hr : k - s < r.sum := by simp only [List.sum_cons] at h; omega
      obtain ⟨h1, h2, h3⟩ := blockOf_spec r (k - s) hr
      refine ⟨by simp; omega, by simpa using h2, ?_⟩
      simp only [List.take_succ_cons, List.sum_cons]
      omega

/-- indexing a flatMap: position `k` is position `k'` of the image of element `i` -/
theorem getElem?_flatMap_block {β γ} (f : β → List γ) : ∀ (l : List β) (k : Nat),
    k < (l.map fun x => (f x).length).sum →
    (l.flatMap f)[k]? = (l[(blockOf (l.map fun x => (f x).length) k).1]?).bind
      fun x => (f x)[(blockOf (l.map fun x => (f x).length) k).2]?
  | [], k, h => by simp at h
  | a :: l, k, h => by
    simp only [List.flatMap_cons, List.map_cons, blockOf]
    by_cases hk : k < (f a).length
    · simp [hk, List.getElem?_append_left hk]
    · simp only [hk, if_false]
      rw [List.getElem?_append_right (by omega)]
      have hr : k - (f a).length < (l.map fun x => (f x).length).sum := by
        simp only [List.map_cons, List.sum_cons] at h; omega
      rw [getElem?_flatMap_block f l _ hr]
      simp

end TdVerif.C08
namespace TdVerif.C08

theorem set_at0_self (c : List Nat) (d : Nat) (h : d < c.length) : c.set d (at0 c d) = c := by
  apply List.ext_getElem?
  intro i
  simp only [List.getElem?_set, at0]
  by_cases hi : d = i
  · subst hi; simp [h]
  · simp [hi]

/-- element of an n-ary cat: the block the position along `d` falls in, shifted back -/
theorem T.catList_get [Inhabited α] : ∀ (ts : List (T α)) (d : Nat) (c : List Nat), ts ≠ [] →
    at0 c d < (ts.map fun t => at0 t.shape d).sum → d < c.length →
    (T.catList ts d).get c =
      (ts[(blockOf (ts.map fun t => at0 t.shape d) (at0 c d)).1]?.getD default).get
        (c.set d (blockOf (ts.map fun t => at0 t.shape d) (at0 c d)).2)
  | [], _, _, h, _, _ => absurd rfl h
  | [a], d, c, _, hk, hd => by
    simp only [List.map_cons, List.map_nil, List.sum_cons, List.sum_nil, Nat.add_zero] at hk
    simp [T.catList, blockOf, hk, set_at0_self c d hd]
  | a :: b :: r, d, c, _, hk, hd => by
    simp only [T.catList, T.cat2, List.map_cons, blockOf]
    by_cases hx : at0 c d < at0 a.shape d
    · simp [hx, set_at0_self c d hd]
    · simp only [hx, if_false]
      have hat : at0 (c.set d (at0 c d - at0 a.shape d)) d = at0 c d - at0 a.shape d := by
        unfold at0; simp [hd]
      have hk' : at0 (c.set d (at0 c d - at0 a.shape d)) d < ((b :: r).map fun t => at0 t.shape d).sum := by
        rw [hat]
        simp only [List.map_cons, List.sum_cons] at hk ⊢
        omega
      have := T.catList_get (b :: r) d (c.set d (at0 c d - at0 a.shape d)) (by simp) hk' (by simpa using hd)
      rw [this, hat]
      simp only [List.map_cons, List.set_set, List.getElem?_cons_succ, blockOf]

end TdVerif.C08
namespace TdVerif.C08

theorem filter_flatMap' {β γ} (p : γ → Bool) (f : β → List γ) : ∀ (l : List β),
    (l.flatMap f).filter p = l.flatMap fun x => (f x).filter p
  | [] => rfl
  | a :: l => by simp [List.flatMap_cons, List.filter_append, filter_flatMap' p f l]

/-- the true positions of a rank-2 mask, row by row -/
theorem nonzero_rank2 (m : T Bool) (n w : Nat) (hm : m.shape = [n, w]) :
    nonzero m = (List.range n).flatMap fun i => (nonzero (m.select 0 i)).map (i :: ·) := by
  unfold nonzero
  rw [hm]
  simp only [allCoords]
  rw [filter_flatMap']
  apply flatMap_congr_mem
  intro i _
  simp only [T.select, hm, List.eraseIdx_cons_zero, allCoords, List.filter_map]
  congr 1

end TdVerif.C08
namespace TdVerif.C08

theorem take_insertIdx_self {β} (l : List β) (i : Nat) (x : β) (h : i ≤ l.length) : (l.insertIdx i x).take i = l.take i := by
  apply List.ext_getElem?
  intro j
  simp only [List.getElem?_take, List.getElem?_insertIdx]
  by_cases hj : j < i
  · simp [hj]
  · simp [hj]

theorem drop_insertIdx_self {β} (l : List β) (i : Nat) (x : β) (h : i ≤ l.length) : (l.insertIdx i x).drop i = x :: l.drop i := by
  apply List.ext_getElem?
  intro j
  simp only [List.getElem?_drop, List.getElem?_insertIdx]
  cases j with
  | zero => simp [h]
  | succ j =>
    have h1 : ¬ i + (j + 1) < i := by omega
    have h2 : ¬ i + (j + 1) = i := by omega
    simp [h1, h2]

/-- a basic prefix that consumes the whole shape produces exactly its result dims -/
theorem idxShape_pre_length : ∀ (pre : List Ix) (S ps : Shape), BasicPre pre → preDims pre = S.length →
    idxShape pre S = some ps → ps.length = outRank pre
  | [], S, ps, _, hl, h => by
    simp [preDims] at hl
    have : S = [] := List.length_eq_zero_iff.mp hl.symm
    subst this
    simp [idxShape] at h; subst h; simp [outRank]
  | .none :: r, S, ps, hb, hl, h => by
    simp only [idxShape, Option.map_eq_some_iff] at h
    obtain ⟨ps', h', rfl⟩ := h
    rw [outRank_cons]
    simp [idxShape_pre_length r S ps' (by simpa [BasicPre] using hb) (by simpa [preDims] using hl) h']
    omega
  | .int k :: r, [], ps, hb, hl, h => by simp [preDims] at hl
  | .int k :: r, d :: S, ps, hb, hl, h => by
    simp only [idxShape] at h
    split at h
    · rw [outRank_cons]
      simp [idxShape_pre_length r S ps (by simpa [BasicPre] using hb) (by simpa [preDims] using hl) h]
    · simp at h
  | .slice a b c :: r, [], ps, hb, hl, h => by simp [preDims] at hl
  | .slice a b c :: r, d :: S, ps, hb, hl, h => by
    simp only [idxShape] at h
    cases hsn : sliceNorm a b c d with
    | none => simp [hsn] at h
    | some p =>
      obtain ⟨s0, st, len⟩ := p
      simp only [hsn] at h
      split at h
      · simp only [Option.map_eq_some_iff] at h
        obtain ⟨ps', h', rfl⟩ := h
        rw [outRank_cons]
        simp [idxShape_pre_length r S ps' (by simpa [BasicPre] using hb) (by simpa [preDims] using hl) h']
        omega
      · simp at h
  | .tens _ :: _, _, _, hb, _, _ => by simp [BasicPre] at hb
  | .mask _ :: _, _, _, hb, _, _ => by simp [BasicPre] at hb
  | .ell :: _, _, _, hb, _, _ => by simp [BasicPre] at hb

end TdVerif.C08
namespace TdVerif.C08

theorem length_flatMap_sum {β γ} (f : β → List γ) : ∀ (l : List β),
    (l.flatMap f).length = (l.map fun x => (f x).length).sum
  | [] => rfl
  | a :: l => by simp [List.flatMap_cons, length_flatMap_sum f l]

/-- what a rank-2 mask `m` (shape `[n, w]`) on the stack dim selects, decomposed along its rows -/
structure Mask2Dec (m : T Bool) (n : Nat) (k : Nat) (i k' : Nat) : Prop where
  hi : i < n
  hk' : k' < (nonzero (m.select 0 i)).length
  hget : (nonzero m)[k]? = ((nonzero (m.select 0 i))[k']?).map (i :: ·)

theorem mask2_dec (m : T Bool) (n w : Nat) (hm : m.shape = [n, w]) (k : Nat) (hk : k < (nonzero m).length) :
    Mask2Dec m n k (blockOf ((List.range n).map fun i => (nonzero (m.select 0 i)).length) k).1
      (blockOf ((List.range n).map fun i => (nonzero (m.select 0 i)).length) k).2 := by
  have hnz := nonzero_rank2 m n w hm
  have hsum : (nonzero m).length = ((List.range n).map fun i => (nonzero (m.select 0 i)).length).sum := by
    rw [hnz, length_flatMap_sum]; simp
  rw [hsum] at hk
  obtain ⟨h1, h2, _⟩ := blockOf_spec _ k hk
  have h1' : (blockOf ((List.range n).map fun i => (nonzero (m.select 0 i)).length) k).1 < n := by simpa using h1
  refine ⟨h1', ?_, ?_⟩
  · simpa [List.getElem?_map, List.getElem?_range h1'] using h2
  · rw [hnz]
    have := getElem?_flatMap_block (fun i => (nonzero (m.select 0 i)).map (i :: ·)) (List.range n) k (by simpa using hk)
    simp only [List.length_map] at this
    rw [this, List.getElem?_range h1']
    simp [List.getElem?_map]

end TdVerif.C08
namespace TdVerif.C08

/-- shape of an n-ary cat of tensors that agree off `d` -/
theorem T.catList_shape [Inhabited α] (base : Shape) (d : Nat) (hd : d < base.length) :
    ∀ (ts : List (T α)) (xs : List Nat), ts ≠ [] → xs.length = ts.length →
    (∀ i (h1 : i < ts.length) (h2 : i < xs.length), (ts[i]).shape = base.set d (xs[i])) →
    (T.catList ts d).shape = base.set d xs.sum
  | [], _, h, _, _ => absurd rfl h
  | [a], xs, _, hl, h => by
    match xs, hl with
    | [x], _ =>
      have := h 0 (by simp) (by simp)
      simpa [T.catList] using this
  | a :: b :: r, xs, _, hl, h => by
    match xs, hl with
    | x :: xr, hl =>
      have ha := h 0 (by simp) (by simp)
      simp only [List.getElem_cons_zero] at ha
      have ih := T.catList_shape base d hd (b :: r) xr (by simp) (by simpa using hl)
        (fun i h1 h2 => by
          have := h (i + 1) (by simp at h1 ⊢; omega) (by simp at h2 ⊢; omega)
          simpa using this)
      simp only [T.catList, T.cat2, ih, ha, List.sum_cons, List.set_set]
      congr 1
      simp [at0, hd]

end TdVerif.C08
namespace TdVerif.C08

theorem drop_set_self (c : List Nat) (p x : Nat) (h : p < c.length) : (c.set p x).drop p = x :: c.drop (p + 1) := by
  apply List.ext_getElem?
  intro j
  simp only [List.getElem?_drop, List.getElem?_set]
  cases j with
  | zero => simp [h]
  | succ j =>
    have : ¬ p = p + (j + 1) := by omega
    simp [this]
    congr 1; omega

theorem drop_eq_cons_of_lt (sh : Shape) (sd : Nat) (h : sd < sh.length) :
    sh.drop sd = at0 sh sd :: sh.drop (sd + 1) := by
  rw [List.drop_eq_getElem_cons h]
  simp [at0, List.getElem?_eq_getElem h]

theorem set_append_at_len (ps qs : Shape) (x y : Nat) : (ps ++ (x :: qs)).set ps.length y = ps ++ (y :: qs) := by
  rw [List.set_append_right _ _ (Nat.le_refl _)]; simp

/-- **T-level read refinement, rank-2 mask on the stack dim**: indexing the stack with a mask over
(stack dim, next dim) is the cat, along the result position of the mask, of the members indexed
with the rows of the mask -/
theorem idx_stack_mask2 [Inhabited α] (ms : List (T α)) (sh : Shape) (sd : Nat) (pre post : List Ix)
    (m : T Bool) (w : Nat)
    (hsh : ∀ t ∈ ms, t.shape = sh) (hne : ms ≠ []) (hsd : sd < sh.length)
    (hpre : BasicPre pre) (hpd : preDims pre = sd)
    (hm : m.shape = [ms.length, w])
    (s : Shape) (hs : idxShape (pre ++ .mask m :: post) (sh.insertIdx sd ms.length) = some s) :
    T.catList ((List.range ms.length).map fun i =>
        idxT (pre ++ .mask (m.select 0 i) :: post) (ms[i]?.getD default)) (outRank pre)
      ≈ₜ idxT (pre ++ .mask m :: post) (T.stack ms sd) := by
  have hn : 0 < ms.length := List.length_pos_iff.mpr hne
  have hsdle : sd ≤ sh.length := Nat.le_of_lt hsd
  have hhead := head_shape_of_all ms sh hsh hne
  have hstk : (T.stack ms sd).shape = sh.insertIdx sd ms.length := by rw [T.stack_shape, hhead]
  have hS1 := take_insertIdx_self sh sd ms.length hsdle
  have hS2 := drop_insertIdx_self sh sd ms.length hsdle
  have hdrop := drop_eq_cons_of_lt sh sd hsd
  -- the dense result shape, factored
  have hfac := idxShape_pre pre (.mask m :: post) (sh.insertIdx sd ms.length) hpre
    (by rw [hpd, List.length_insertIdx_of_le_length hsdle]; omega)
  rw [hs, hpd, hS1, hS2] at hfac
  cases hps : idxShape pre (sh.take sd) with
  | none => simp [hps] at hfac
  | some ps =>
  simp only [hps, Option.bind_some] at hfac
  have hplen : ps.length = outRank pre :=
    idxShape_pre_length pre (sh.take sd) ps hpre (by rw [hpd]; simp [hsdle]) hps
  simp only [idxShape, hm] at hfac
  rw [hdrop] at hfac
  simp only [List.take_succ_cons, List.take_zero, List.drop_succ_cons, List.drop_zero, ne_eq,
    List.cons_ne_self, not_false_eq_true, true_and, List.length_cons, List.length_nil] at hfac
  split at hfac
  case isFalse => simp at hfac
  rename_i hcond
  have hw : w = at0 sh sd := by
    have := hcond.2
    simp at this
    exact this
  cases hqs : idxShape post (sh.drop (sd + 1)) with
  | none => simp [hqs] at hfac
  | some qs =>
  simp only [hqs, Option.map_some, Option.some.injEq] at hfac
  -- shapes of the pieces
  have hrow : ∀ i, (m.select 0 i).shape = [w] := by intro i; simp [T.select, hm]
  have hpiece : ∀ i, i < ms.length →
      (idxT (pre ++ .mask (m.select 0 i) :: post) (ms[i]?.getD default)).shape
        = ps ++ ((nonzero (m.select 0 i)).length :: qs) := by
    intro i hi
    rw [idxT_shape, List.getElem?_eq_getElem hi, Option.getD_some, hsh _ (List.getElem_mem _)]
    rw [idxShape_pre pre _ sh hpre (by rw [hpd]; exact hsdle), hpd, hps]
    simp only [Option.bind_some, idxShape, hrow, hdrop, hw]
    simp [hqs]
  have hs' : s = ps ++ ((nonzero m).length :: qs) := by simpa using hfac
  have hnzsum : (nonzero m).length = ((List.range ms.length).map fun i => (nonzero (m.select 0 i)).length).sum := by
    rw [nonzero_rank2 m _ w hm, length_flatMap_sum]; simp
  have hposlt : outRank pre < (ps ++ (0 :: qs)).length := by
    have : (ps ++ (0 :: qs)).length = ps.length + (qs.length + 1) := by simp
    omega
  have hpne : ((List.range ms.length).map fun i =>
      idxT (pre ++ .mask (m.select 0 i) :: post) (ms[i]?.getD default)) ≠ [] := by
    intro h
    have := congrArg List.length h
    rw [List.length_map, List.length_range, List.length_nil] at this
    omega
  have hcatshape : (T.catList ((List.range ms.length).map fun i =>
      idxT (pre ++ .mask (m.select 0 i) :: post) (ms[i]?.getD default)) (outRank pre)).shape
        = ps ++ ((nonzero m).length :: qs) := by
    rw [T.catList_shape (ps ++ (0 :: qs)) (outRank pre) hposlt _
      ((List.range ms.length).map fun i => (nonzero (m.select 0 i)).length) hpne (by simp)
      (by
        intro i h1 h2
        have hi : i < ms.length := by simpa using h1
        simp only [List.getElem_map, List.getElem_range]
        rw [hpiece i hi, ← hplen, set_append_at_len])]
    rw [← hplen, set_append_at_len, hnzsum]
  refine ⟨by rw [hcatshape, idxT_shape, hstk, hs, hs']; rfl, ?_⟩
  intro c hc
  rw [hcatshape] at hc
  have hclen : c.length = ps.length + 1 + qs.length := by rw [InB.length hc]; simp; omega
  have hcpos : outRank pre < c.length := by omega
  have hcsplit := (InB_append_iff ps ((nonzero m).length :: qs) c).mp hc
  have hk : at0 c (outRank pre) < (nonzero m).length := by
    apply InB.at0_lt hc
    rw [← hplen]; simp
  obtain ⟨hi, hk', hget⟩ := mask2_dec m ms.length w hm _ hk
  generalize hbi : (blockOf ((List.range ms.length).map fun i => (nonzero (m.select 0 i)).length) (at0 c (outRank pre))).1 = i at hi hk' hget
  generalize hbk : (blockOf ((List.range ms.length).map fun i => (nonzero (m.select 0 i)).length) (at0 c (outRank pre))).2 = k' at hk' hget
  have hsizes : (((List.range ms.length).map fun i =>
      idxT (pre ++ .mask (m.select 0 i) :: post) (ms[i]?.getD default)).map fun t => at0 t.shape (outRank pre))
        = (List.range ms.length).map fun i => (nonzero (m.select 0 i)).length := by
    rw [List.map_map]
    apply List.map_congr_left
    intro j hj
    simp only [Function.comp]
    rw [hpiece j (List.mem_range.mp hj), ← hplen]
    simp [at0]
  rw [T.catList_get _ _ c hpne (by rw [hsizes, ← hnzsum]; exact hk) hcpos, hsizes, hbi, hbk]
  simp only [List.getElem?_map, List.getElem?_range hi, Option.map_some, Option.getD_some,
    List.getElem?_eq_getElem hi]
  -- both sides as reads of member `i`
  show (ms[i]).get (idxCoord (pre ++ .mask (m.select 0 i) :: post) (ms[i]).shape (c.set (outRank pre) k'))
    = (T.stack ms sd).get (idxCoord (pre ++ .mask m :: post) (T.stack ms sd).shape c)
  rw [hsh _ (List.getElem_mem _), hstk]
  rw [idxCoord_pre pre _ sh _ hpre (by rw [hpd]; exact hsdle) (by simp; omega),
    idxCoord_pre pre _ (sh.insertIdx sd ms.length) c hpre
      (by rw [hpd, List.length_insertIdx_of_le_length hsdle]; omega) (by omega)]
  rw [hpd, hS1, hS2, hdrop]
  have htk : (c.set (outRank pre) k').take (outRank pre) = c.take (outRank pre) := by
    rw [List.take_set_of_le (Nat.le_refl _)]
  have hdr : (c.set (outRank pre) k').drop (outRank pre) = k' :: c.drop (outRank pre + 1) := by
    exact drop_set_self c _ k' hcpos
  rw [htk, hdr, List.drop_eq_getElem_cons hcpos]
  have hck : c[outRank pre] = at0 c (outRank pre) := by simp [at0, List.getElem?_eq_getElem hcpos]
  rw [hck]
  simp only [idxCoord, hm, hrow, List.length_cons, List.length_nil, at0, List.getElem?_cons_zero,
    Option.getD_some, List.tail_cons, List.drop_succ_cons, List.drop_zero]
  -- the selected positions
  obtain ⟨r, hr⟩ : ∃ r, (nonzero (m.select 0 i))[k']? = some r := ⟨_, List.getElem?_eq_getElem hk'⟩
  have hgetm : (nonzero m)[c[outRank pre]?.getD 0]? = some (i :: r) := by
    have := hget
    simp only [at0] at this
    rw [this, hr]; rfl
  rw [hr, hgetm]
  simp only [Option.getD_some]
  -- the prefix coordinates have length `sd`
  have hP : (idxCoord pre (sh.take sd) (c.take (outRank pre))).length = sd := by
    have hin : InB (c.take (outRank pre)) ps := by rw [← hplen]; exact hcsplit.1
    rw [idxCoord_length pre (sh.take sd) ps _ hps hin]; simp [hsdle]
  rw [T.stack_get]
  have hat : at0 (idxCoord pre (sh.take sd) (c.take (outRank pre)) ++
      (i :: r ++ idxCoord post (sh.drop (sd + 1)) (c.drop (outRank pre + 1)))) sd = i := by
    simp [at0, List.getElem?_append_right, hP]
  have her : (idxCoord pre (sh.take sd) (c.take (outRank pre)) ++
      (i :: r ++ idxCoord post (sh.drop (sd + 1)) (c.drop (outRank pre + 1)))).eraseIdx sd
      = idxCoord pre (sh.take sd) (c.take (outRank pre)) ++
        (r ++ idxCoord post (sh.drop (sd + 1)) (c.drop (outRank pre + 1))) := by
    rw [List.eraseIdx_append_of_length_le (by omega), hP]; simp
  simp only [List.cons_append] at hat her ⊢
  rw [hat, her, List.getElem?_eq_getElem hi]
  rfl



end TdVerif.C08
