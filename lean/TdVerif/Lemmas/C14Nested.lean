/-
  C14: the advertised keys of a nested sequence are those of its flattening (list lemmas).
-/
import TdVerif.Model.C14Seq
import TdVerif.Lemmas.C14

namespace TdVerif.C14

theorem mem_addIns (outs : List Key) : ∀ (xs acc : List Key) (x : Key),
    x ∈ addIns outs acc xs ↔ x ∈ acc ∨ (x ∈ xs ∧ x ∉ outs)
  | [], acc, x => by simp [addIns]
  | y :: xs, acc, x => by
    simp only [addIns]
    split
    · rename_i hy
      rw [mem_addIns outs xs acc x]
      constructor
      · rintro (h | ⟨h1, h2⟩)
        · exact Or.inl h
        · exact Or.inr ⟨List.mem_cons_of_mem _ h1, h2⟩
      · rintro (h | ⟨h1, h2⟩)
        · exact Or.inl h
        · rcases List.mem_cons.1 h1 with rfl | h1'
          · rcases List.mem_append.1 hy with h | h
            · exact absurd h h2
            · exact Or.inl h
          · exact Or.inr ⟨h1', h2⟩
    · rename_i hy
      rw [mem_addIns outs xs (acc ++ [y]) x]
      simp only [List.mem_append, List.mem_singleton, not_or] at hy ⊢
      constructor
      · rintro ((h | rfl) | ⟨h1, h2⟩)
        · exact Or.inl h
        · exact Or.inr ⟨by simp, hy.1⟩
        · exact Or.inr ⟨List.mem_cons_of_mem _ h1, h2⟩
      · rintro (h | ⟨h1, h2⟩)
        · exact Or.inl (Or.inl h)
        · rcases List.mem_cons.1 h1 with rfl | h1'
          · exact Or.inl (Or.inr rfl)
          · exact Or.inr ⟨h1', h2⟩

theorem addIns_append (outs : List Key) : ∀ (xs ys acc : List Key),
    addIns outs acc (xs ++ ys) = addIns outs (addIns outs acc xs) ys
  | [], ys, acc => rfl
  | x :: xs, ys, acc => by
    simp only [List.cons_append, addIns]
    split <;> exact addIns_append outs xs ys _

/-- only membership in `outs` matters -/
theorem addIns_congr {o1 o2 : List Key} (h : ∀ k, k ∈ o1 ↔ k ∈ o2) : ∀ (xs acc : List Key),
    addIns o1 acc xs = addIns o2 acc xs
  | [], _ => rfl
  | x :: xs, acc => by
    simp only [addIns, List.mem_append, h x]
    split <;> exact addIns_congr h xs _

/-- the exchange law behind nesting: processing `xs` in the outer state after the inner in_keys `a`, or
first inside (state `a`, `b`) and then outside -/
theorem addIns_exchange (outs ins b : List Key) : ∀ (xs a : List Key),
    addIns (outs ++ b) (addIns outs ins a) xs = addIns outs ins (addIns b a xs)
  | [], a => rfl
  | x :: xs, a => by
    simp only [addIns]
    by_cases hin : x ∈ b ++ a
    · simp only [hin, if_true]
      have : x ∈ outs ++ b ++ addIns outs ins a := by
        rcases List.mem_append.1 hin with h | h
        · simp [h]
        · by_cases ho : x ∈ outs
          · simp [ho]
          · have := (mem_addIns outs a ins x).2 (Or.inr ⟨h, ho⟩)
            simp [this]
      simp only [this, if_true]
      exact addIns_exchange outs ins b xs a
    · simp only [hin, if_false]
      have hxb : x ∉ b := fun h => hin (List.mem_append_left _ h)
      have hxa : x ∉ a := fun h => hin (List.mem_append_right _ h)
      have hone : addIns outs ins (a ++ [x]) = addIns outs (addIns outs ins a) [x] := addIns_append outs a [x] ins
      by_cases hc : x ∈ outs ∨ x ∈ ins
      · have hmem : x ∈ outs ++ b ++ addIns outs ins a := by
          rcases hc with h | h
          · simp [h]
          · have := (mem_addIns outs a ins x).2 (Or.inl h)
            simp [this]
        simp only [hmem, if_true]
        rw [← addIns_exchange outs ins b xs (a ++ [x]), hone]
        have : x ∈ outs ++ addIns outs ins a := by
          rcases hc with h | h
          · simp [h]
          · have := (mem_addIns outs a ins x).2 (Or.inl h)
            simp [this]
        simp [addIns, this]
      · have hno : x ∉ outs := fun h => hc (Or.inl h)
        have hni : x ∉ ins := fun h => hc (Or.inr h)
        have hres : x ∉ addIns outs ins a := by
          rw [mem_addIns]; rintro (h | ⟨h, _⟩)
          · exact hni h
          · exact hxa h
        have hmem : ¬ x ∈ outs ++ b ++ addIns outs ins a := by
          simp only [List.mem_append, not_or]; exact ⟨⟨hno, hxb⟩, hres⟩
        simp only [hmem, if_false]
        rw [← addIns_exchange outs ins b xs (a ++ [x]), hone]
        have : ¬ x ∈ outs ++ addIns outs ins a := by
          simp only [List.mem_append, not_or]; exact ⟨hno, hres⟩
        simp [addIns, this]

/-- the in_keys of a block of modules seen from an outer state are the outer `addIns` of its own in_keys -/
theorem inOutAux_nest : ∀ (ms : List Mod) (a b ins outs : List Key),
    (inOutAux ms (addIns outs ins a) (outs ++ b)).1 = addIns outs ins (inOutAux ms a b).1
  | [], _, _, _, _ => rfl
  | m :: ms, a, b, ins, outs => by
    simp only [inOutAux]
    rw [addIns_exchange outs ins b m.ins a, List.append_assoc]
    exact inOutAux_nest ms _ _ ins outs

theorem inOutAux_congr {o1 o2 : List Key} (h : ∀ k, k ∈ o1 ↔ k ∈ o2) : ∀ (ms : List Mod) (ins : List Key),
    (inOutAux ms ins o1).1 = (inOutAux ms ins o2).1
  | [], _ => rfl
  | m :: ms, ins => by
    simp only [inOutAux]
    rw [addIns_congr h]
    exact inOutAux_congr (fun k => by simp [h k]) ms _

theorem inOutAux_append : ∀ (ms1 ms2 : List Mod) (ins outs : List Key),
    inOutAux (ms1 ++ ms2) ins outs = inOutAux ms2 (inOutAux ms1 ins outs).1 (inOutAux ms1 ins outs).2
  | [], _, _, _ => rfl
  | m :: ms1, ms2, ins, outs => by
    simp only [List.cons_append, inOutAux]
    exact inOutAux_append ms1 ms2 _ _

theorem dedupLast_inner : ∀ (b c : List Key), dedupLast (dedupLast b ++ c) = dedupLast (b ++ c)
  | [], c => rfl
  | x :: b, c => by
    simp only [dedupLast, List.cons_append]
    by_cases hb : x ∈ b
    · have : x ∈ b ++ c := List.mem_append_left _ hb
      simp only [hb, this, if_true]
      exact dedupLast_inner b c
    · simp only [hb, if_false, List.cons_append, dedupLast]
      have hiff : x ∈ dedupLast b ++ c ↔ x ∈ b ++ c := by simp [mem_dedupLast]
      by_cases hc : x ∈ b ++ c
      · simp only [hc, hiff.2 hc, if_true]; exact dedupLast_inner b c
      · have : ¬ x ∈ dedupLast b ++ c := fun h => hc (hiff.1 h)
        simp only [hc, this, if_false]; rw [dedupLast_inner b c]

theorem dedupLast_congr_pre : ∀ (a : List Key) {x y : List Key}, (∀ k, k ∈ x ↔ k ∈ y) →
    dedupLast x = dedupLast y → dedupLast (a ++ x) = dedupLast (a ++ y)
  | [], _, _, _, h => h
  | k :: a, x, y, hm, h => by
    simp only [List.cons_append, dedupLast]
    have : k ∈ a ++ x ↔ k ∈ a ++ y := by simp [hm k]
    by_cases hk : k ∈ a ++ x
    · simp only [hk, this.1 hk, if_true]; exact dedupLast_congr_pre a hm h
    · have hk' : ¬ k ∈ a ++ y := fun h' => hk (this.2 h')
      simp only [hk, hk', if_false]; rw [dedupLast_congr_pre a hm h]

end TdVerif.C14
