/-
  Helper lemmas for C17: the binder, closed forms of the batch arithmetic, permutations / argsort.
-/
import TdVerif.Model.C17Ctx
import TdVerif.Lemmas.C02Coord
import TdVerif.Lemmas.C02Meta

namespace TdVerif.C17
open TdVerif.C02

/-- what `bindParams` returns for two required parameters: exactly the three Python spellings -/
theorem bindParams2 (a b : String) (c : Call) (vs : List Val)
    (h : bindParams [(a, Option.none), (b, Option.none)] c = .ok vs) :
    ∃ x y, vs = [x, y] ∧
    ((c.args = [x, y] ∧ c.kw a = Option.none ∧ c.kw b = Option.none) ∨
     (c.args = [x] ∧ c.kw a = Option.none ∧ c.kw b = some y) ∨
     (c.args = [] ∧ c.kw a = some x ∧ c.kw b = some y)) := by
  unfold bindParams at h
  split at h
  · cases h
  · split at h
    · cases h
    · split at h
      · cases h
      · rename_i hlen _ _
        simp only [bindLoop, bindOne] at h
        rcases hargs : c.args with _ | ⟨a0, _ | ⟨a1, _ | ⟨a2, rest⟩⟩⟩
        · simp only [hargs, List.getElem?_nil] at h
          rcases hka : c.kw a with _ | va <;> rcases hkb : c.kw b with _ | vb <;> simp [hka, hkb] at h
          subst h
          exact ⟨va, vb, rfl, Or.inr (Or.inr ⟨rfl, rfl, rfl⟩)⟩
        · simp only [hargs, List.getElem?_cons_zero, List.getElem?_cons_succ, List.getElem?_nil] at h
          rcases hka : c.kw a with _ | va <;> rcases hkb : c.kw b with _ | vb <;> simp [hka, hkb] at h
          subst h
          exact ⟨a0, vb, rfl, Or.inr (Or.inl ⟨rfl, rfl, rfl⟩)⟩
        · simp only [hargs, List.getElem?_cons_zero, List.getElem?_cons_succ] at h
          rcases hka : c.kw a with _ | va <;> rcases hkb : c.kw b with _ | vb <;> simp [hka, hkb] at h
          subst h
          exact ⟨a0, a1, rfl, Or.inl ⟨rfl, rfl, rfl⟩⟩
        · simp [hargs] at hlen

theorem asInt_ok {v : Val} {i : Int} (h : asInt v = .ok i) : v = .int i := by
  cases v <;> simp [asInt] at h; subst h; rfl

theorem perm_range_mem {p : List Nat} {n : Nat} (hp : p.Perm (List.range n)) (k : Nat) : k ∈ p ↔ k < n := by
  rw [hp.mem_iff]; simp

theorem getD_idxOf {β : Type} (p : List Nat) (f : Nat → β) (d : β) (k : Nat) (hk : k ∈ p) :
    (p.map f).getD (p.idxOf k) d = f k := by
  have hlt : p.idxOf k < p.length := List.idxOf_lt_length_of_mem hk
  rw [List.getD_eq_getElem?_getD, List.getElem?_map, List.getElem?_eq_getElem hlt]
  simp only [Option.map_some, Option.getD_some, List.getElem_idxOf]

/-- permuting by `p` and then by `invPerm p` is the identity on any list of per-dim attributes -/
theorem invPerm_undoes {β : Type} (p : List Nat) (n : Nat) (hp : p.Perm (List.range n)) (f : Nat → β) (d : β) :
    (invPerm p).map (fun i => (p.map f).getD i d) = (List.range n).map f := by
  have hlen : p.length = n := by simpa using hp.length_eq
  unfold invPerm
  rw [hlen, List.map_map]
  apply List.map_congr_left
  intro k hk
  have : k ∈ p := (perm_range_mem hp k).2 (by simpa using hk)
  simp only [Function.comp_apply, getD_idxOf p f d k this]

theorem invPerm_perm (p : List Nat) (n : Nat) (hp : p.Perm (List.range n)) : (invPerm p).Perm (List.range n) := by
  have hlen : p.length = n := by simpa using hp.length_eq
  have hmap : (invPerm p).map (fun i => p.getD i 0) = List.range n := by
    have := invPerm_undoes p n hp (fun x => x) 0
    simpa using this
  apply perm_range_of_nodup_lt
  · -- nodup: the image under `p.getD · 0` is nodup
    have hnd : ((invPerm p).map (fun i => p.getD i 0)).Nodup := by rw [hmap]; exact List.nodup_range
    unfold List.Nodup at hnd ⊢
    rw [List.pairwise_map] at hnd
    exact hnd.imp (by intro a b h e; exact h (by rw [e]))
  · intro i hi
    unfold invPerm at hi
    simp only [List.mem_map, List.mem_range] at hi
    obtain ⟨k, hk, rfl⟩ := hi
    rw [← hlen]; exact List.idxOf_lt_length_of_mem ((perm_range_mem hp k).2 (by omega))
  · simp [invPerm, hlen]

theorem idxOf_map_ofNat (p : List Nat) (k : Nat) : (p.map Int.ofNat).idxOf (Int.ofNat k) = p.idxOf k := by
  induction p with
  | nil => rfl
  | cons a p ih =>
    simp only [List.map_cons, List.idxOf_cons]
    by_cases h : a = k
    · subst h; simp
    · have h1 : (Int.ofNat a == Int.ofNat k) = false := by simp; omega
      have h2 : (a == k) = false := by simp [h]
      rw [h1, h2]; simp only [cond_false]; rw [ih]

/-- `np.argsort` of a permutation (spelled with non-negative ints) is the inverse permutation -/
theorem argsort_eq_invPerm (p : List Nat) (n : Nat) (hp : p.Perm (List.range n)) :
    argsort (natsToInts p) = natsToInts (invPerm p) := by
  have hlen : p.length = n := by simpa using hp.length_eq
  have hsort : (natsToInts p).mergeSort (fun a b => decide (a ≤ b)) = natsToInts (List.range n) := by
    apply List.Perm.eq_of_pairwise (le := fun a b => decide (a ≤ b))
    · intro a b _ _ h1 h2; simp at h1 h2; omega
    · apply List.pairwise_mergeSort
      · intro a b c h1 h2; simp at *; omega
      · intro a b; simp; omega
    · unfold natsToInts
      rw [List.pairwise_map]
      exact (List.pairwise_le_range (n := n)).imp (by intro a b h; simp; omega)
    · exact (List.mergeSort_perm _ _).trans (hp.map _)
  unfold argsort
  rw [hsort]
  unfold invPerm natsToInts
  rw [hlen, List.map_map, List.map_map]
  apply List.map_congr_left
  intro k _
  simp only [Function.comp_apply]
  have := idxOf_map_ofNat p k
  rw [this]; rfl

theorem splitC_ne_nil (c : Char) (s : List Char) : splitC c s ≠ [] := by
  induction s with
  | nil => simp [splitC]
  | cons x xs ih =>
    simp only [splitC]
    split
    · simp
    · split <;> simp

theorem splitC_no_sep (c : Char) : ∀ (k : List Char), c ∉ k → splitC c k = [k]
  | [], _ => rfl
  | x :: xs, h => by
    have hx : x ≠ c := fun e => h (by simp [e])
    have hxs : c ∉ xs := fun e => h (by simp [e])
    simp only [splitC, hx, if_false, splitC_no_sep c xs hxs]

theorem splitC_append_sep (c : Char) : ∀ (k tail : List Char), c ∉ k → splitC c (k ++ c :: tail) = k :: splitC c tail
  | [], tail, _ => by simp [splitC]
  | x :: xs, tail, h => by
    have hx : x ≠ c := fun e => h (by simp [e])
    have hxs : c ∉ xs := fun e => h (by simp [e])
    simp only [List.cons_append, splitC, hx, if_false, splitC_append_sep c xs tail hxs]

theorem applyEdits_frame : ∀ (es : List Edit) (y y' : St), applyEdits y es = .ok y' →
    y'.bs = y.bs ∧ y'.names = y.names ∧ y'.locked = y.locked
  | [], y, y', h => by simp [applyEdits] at h; subst h; exact ⟨rfl, rfl, rfl⟩
  | e :: es, y, y', h => by
    simp only [applyEdits, bind, Except.bind] at h
    split at h
    · cases h
    · rename_i y1 h1
      have ih := applyEdits_frame es y1 y' h
      have h2 : y1.bs = y.bs ∧ y1.names = y.names ∧ y1.locked = y.locked := by
        cases e with
        | value => simp [applyEdit] at h1; subst h1; exact ⟨rfl, rfl, rfl⟩
        | addKey k =>
          simp only [applyEdit] at h1
          split at h1
          · cases h1
          · simp only [Except.ok.injEq] at h1; subst h1; exact ⟨rfl, rfl, rfl⟩
      exact ⟨ih.1.trans h2.1, ih.2.1.trans h2.2.1, ih.2.2.trans h2.2.2⟩

theorem fwd_lock (s : St) : fwd "lock_" ⟨[], []⟩ s = .ok ⟨{ s with locked := true }, true, !s.locked⟩ := by
  simp [fwd, toOp, bindParams, bindLoop, applyFwd, bind, Except.bind, pure, Except.pure]

theorem fwd_unlock (s : St) : fwd "unlock_" ⟨[], []⟩ s = .ok ⟨{ s with locked := false }, true, s.locked⟩ := by
  simp [fwd, toOp, bindParams, bindLoop, applyFwd, bind, Except.bind, pure, Except.pure]

theorem writeBack_frame (out inv r : St) (h : writeBack out inv = .ok r) :
    r.bs = out.bs ∧ r.names = out.names ∧ r.locked = out.locked ∧ (out.locked = true → r.keys = out.keys) := by
  unfold writeBack at h
  split at h
  · cases h
  · split at h
    · cases h; exact ⟨rfl, rfl, rfl, fun _ => rfl⟩
    · rename_i hl
      cases h
      exact ⟨rfl, rfl, rfl, fun h' => absurd h' hl⟩

/-- which inverse names `reverse` can produce for a lock-type inverse -/
theorem reverse_lock_only (name : String) (c : Call) (y out : St) (inv : String) (ic : Call)
    (h : reverse name c y out = .ok (inv, ic)) (hinv : inv = "lock_" ∨ inv = "unlock_") :
    name = "lock_" ∨ name = "unlock_" := by
  unfold reverse at h
  split at h
  · left; rfl
  · right; rfl
  all_goals (
    exfalso
    try simp only [bind, Except.bind, pure, Except.pure] at h
    repeat' (split at h)
    all_goals (try (simp only [reduceCtorEq] at h))
    all_goals (try (simp only [Except.ok.injEq, Prod.mk.injEq] at h))
    all_goals (try (obtain ⟨h1, _⟩ := h; subst h1; rcases hinv with h2 | h2 <;> simp at h2)))

theorem exitBlock_frame (name : String) (c : Call) (isSelf : Bool) (y out r : St)
    (hn : name ≠ "lock_" ∧ name ≠ "unlock_")
    (h : exitBlock name c true isSelf y out = .ok r) :
    r.bs = out.bs ∧ r.names = out.names ∧ r.locked = out.locked ∧ (out.locked = true → r.keys = out.keys) := by
  unfold exitBlock at h
  simp only [not_true_eq_false, if_false, bind, Except.bind] at h
  split at h
  · cases h
  · rename_i v hrev
    obtain ⟨inv, ic⟩ := v
    simp only [] at h
    split at h
    · simp only [pure, Except.pure, Except.ok.injEq] at h; subst h; exact ⟨rfl, rfl, rfl, fun _ => rfl⟩
    · split at h
      · exact absurd (reverse_lock_only name c y out _ ic hrev (Or.inl rfl)) (by simp [hn.1, hn.2])
      · exact absurd (reverse_lock_only name c y out _ ic hrev (Or.inr rfl)) (by simp [hn.1, hn.2])
      · exact writeBack_frame _ _ _ h
      · split at h
        · cases h
        · exact writeBack_frame _ _ _ h

theorem toOp_lock_name (name : String) (c : Call) (f : Fwd) (h : toOp name c = .ok f)
    (hn : name = "lock_" ∨ name = "unlock_") : (f matches .lock) ∨ (f matches .unlock) := by
  rcases hn with rfl | rfl
  · simp only [toOp, bind, Except.bind] at h
    split at h
    · cases h
    · simp only [pure, Except.pure, Except.ok.injEq] at h; subst h; left; rfl
  · simp only [toOp, bind, Except.bind] at h
    split at h
    · cases h
    · simp only [pure, Except.pure, Except.ok.injEq] at h; subst h; right; rfl

theorem applyEdits_locked_keys : ∀ (es : List Edit) (y y' : St), y.locked = true → applyEdits y es = .ok y' → y'.keys = y.keys
  | [], y, y', _, h => by simp [applyEdits] at h; subst h; rfl
  | e :: es, y, y', hl, h => by
    simp only [applyEdits, bind, Except.bind] at h
    split at h
    · cases h
    · rename_i y1 h1
      cases e with
      | value =>
        simp [applyEdit] at h1; subst h1
        exact applyEdits_locked_keys es _ y' hl h
      | addKey k =>
        simp only [applyEdit, hl, if_true] at h1
        cases h1

theorem toOp_view_shape (c : Call) (f : Fwd) (h : toOp "view" c = .ok f) : ∃ l, f = .shape (.view l) := by
  simp only [toOp] at h
  split at h
  · cases h
  · generalize (c.kw "size").getD Val.none = v at h
    cases v with
    | ints l => simp only [Except.ok.injEq] at h; exact ⟨l, h.symm⟩
    | none =>
      simp only [bind, Except.bind, pure, Except.pure] at h
      split at h
      · cases h
      · simp only [Except.ok.injEq] at h; exact ⟨_, h.symm⟩
    | int i => cases h
    | str s => cases h
    | bool b => cases h

theorem toOp_nonlock (name : String) (c : Call) (f : Fwd) (h : toOp name c = .ok f)
    (hn : name ≠ "lock_" ∧ name ≠ "unlock_") : f.isLockOp = false := by
  by_cases hv : name = "view"
  · subst hv
    obtain ⟨l, rfl⟩ := toOp_view_shape c f h
    rfl
  · unfold toOp at h
    split at h
    all_goals (try (exact absurd rfl hn.1))
    all_goals (try (exact absurd rfl hn.2))
    all_goals (try (exact absurd rfl hv))
    all_goals (
      try simp only [bind, Except.bind, pure, Except.pure] at h
      repeat' (split at h)
      all_goals (try (simp only [reduceCtorEq] at h))
      all_goals (try (simp only [Except.ok.injEq] at h; subst h; rfl)))

/-- the forward call of a non-lock op: always recorded; when it returned `self` the state is unchanged -/
theorem applyFwd_nonlock (f : Fwd) (s : St) (y : Yielded) (hf : f.isLockOp = false)
    (h : applyFwd f s = .ok y) : y.recorded = true ∧ (y.isSelf = true → y.st = s) := by
  cases f with
  | shape op =>
    simp only [applyFwd] at h
    split at h
    · cases h
    · cases h; exact ⟨rfl, fun _ => rfl⟩
    · by_cases h1 : prod ‹Shape› ≠ prod s.bs
      · rw [if_pos h1] at h; cases h
      · rw [if_neg h1] at h
        by_cases h2 : emptyUnflatten op = true
        · rw [if_pos h2] at h; cases h
        · rw [if_neg h2] at h; cases h; exact ⟨rfl, fun h' => by cases h'⟩
  | flattenKeys sep =>
    simp only [applyFwd] at h
    split at h
    · cases h
    · cases h; exact ⟨rfl, fun h' => by cases h'⟩
  | unflattenKeys sep =>
    simp only [applyFwd] at h
    split at h
    · cases h
    · cases h; exact ⟨rfl, fun h' => by cases h'⟩
  | lock => cases hf
  | unlock => cases hf

theorem asStr_ok {v : Val} {s : List Char} (h : asStr v = .ok s) : v = .str s := by
  cases v <;> simp [asStr] at h; subst h; rfl

/-- first bound value of a parameter list whose first parameter has a default -/
theorem bindParams_first (p0 : String) (d0 : Val) (rest : List (String × Option Val)) (c : Call) (vs : List Val)
    (h : bindParams ((p0, some d0) :: rest) c = .ok vs) :
    ∃ v tl, vs = v :: tl ∧
      ((∃ a as, c.args = a :: as ∧ v = a) ∨ (c.args = [] ∧ v = (c.kw p0).getD d0)) := by
  unfold bindParams at h
  split at h
  · cases h
  · split at h
    · cases h
    · split at h
      · cases h
      · simp only [bindLoop] at h
        split at h
        · cases h
        · rename_i v hv
          split at h
          · cases h
          · rename_i tl _
            simp only [Except.ok.injEq] at h
            subst h
            refine ⟨v, tl, rfl, ?_⟩
            simp only [bindOne] at hv
            rcases hargs : c.args with _ | ⟨a, as⟩
            · right
              simp only [hargs, List.getElem?_nil] at hv
              rcases hk : c.kw p0 with _ | kv
              · simp [hk] at hv; simp [hv]
              · simp [hk] at hv; simp [hv]
            · left
              simp only [hargs, List.getElem?_cons_zero] at hv
              rcases hk : c.kw p0 with _ | kv
              · simp [hk] at hv; exact ⟨a, as, rfl, hv.symm⟩
              · simp [hk] at hv

theorem kw_some_kwargs_ne (c : Call) (k : String) (v : Val) (h : c.kw k = some v) : c.kwargs.isEmpty = false := by
  unfold Call.kw at h
  cases hk : c.kwargs with
  | nil => simp [hk] at h
  | cons _ _ => rfl

/-- what `bindParams` returns for one required parameter -/
theorem bindParams1 (a : String) (c : Call) (vs : List Val) (h : bindParams [(a, Option.none)] c = .ok vs) :
    ∃ x, vs = [x] ∧ ((c.args = [x] ∧ c.kw a = Option.none) ∨ (c.args = [] ∧ c.kw a = some x)) := by
  unfold bindParams at h
  split at h
  · cases h
  · split at h
    · cases h
    · split at h
      · cases h
      · rename_i hlen _ _
        simp only [bindLoop, bindOne] at h
        rcases hargs : c.args with _ | ⟨a0, _ | ⟨a1, rest⟩⟩
        · simp only [hargs, List.getElem?_nil] at h
          rcases hka : c.kw a with _ | va <;> simp [hka] at h
          subst h
          exact ⟨va, rfl, Or.inr ⟨rfl, rfl⟩⟩
        · simp only [hargs, List.getElem?_cons_zero] at h
          rcases hka : c.kw a with _ | va <;> simp [hka] at h
          subst h
          exact ⟨a0, rfl, Or.inl ⟨rfl, rfl⟩⟩
        · simp [hargs] at hlen

theorem ravel_unravel : ∀ (s : Shape) (x : Nat), x < prod s → ravel (unravel x s) s = x
  | [], x, h => by simp [prod] at h; subst h; rfl
  | d :: s, x, h => by
    have hP : 0 < prod s := by
      rcases Nat.eq_zero_or_pos (prod s) with h0 | h0
      · simp [prod, h0] at h
      · exact h0
    simp only [unravel, ravel]
    rw [ravel_unravel s (x % prod s) (Nat.mod_lt _ hP)]
    exact Nat.div_add_mod' x (prod s)

/-- in-bounds coordinates restricted to a sub-range of the dims -/
theorem InB_drop_take : ∀ {c : List Nat} {s : Shape} (a k : Nat), InB c s → InB ((c.drop a).take k) ((s.drop a).take k)
  | [], [], a, k, _ => by simp [InB]
  | x :: cs, d :: s, 0, 0, _ => by simp [InB]
  | x :: cs, d :: s, 0, k + 1, h => by
    simp only [InB] at h
    simp only [List.drop_zero, List.take_succ_cons, InB]
    exact ⟨h.1, by simpa using InB_drop_take 0 k h.2⟩
  | x :: cs, d :: s, a + 1, k, h => by
    simp only [InB] at h
    simpa using InB_drop_take a k h.2
  | [], _ :: _, _, _, h => by simp [InB] at h
  | _ :: _, [], _, _, h => by simp [InB] at h

/-- two parameters with defaults: the spellings Python accepts -/
theorem bindParams2d (a b : String) (da db : Val) (c : Call) (vs : List Val)
    (h : bindParams [(a, some da), (b, some db)] c = .ok vs) :
    ∃ x y, vs = [x, y] ∧
    ((c.args = [x, y] ∧ c.kw a = Option.none ∧ c.kw b = Option.none) ∨
     (∃ hx : c.args = [x], c.kw a = Option.none ∧ y = (c.kw b).getD db) ∨
     (c.args = [] ∧ x = (c.kw a).getD da ∧ y = (c.kw b).getD db)) := by
  unfold bindParams at h
  split at h
  · cases h
  · split at h
    · cases h
    · split at h
      · cases h
      · rename_i hlen _ _
        simp only [bindLoop, bindOne] at h
        rcases hargs : c.args with _ | ⟨a0, _ | ⟨a1, _ | ⟨a2, rest⟩⟩⟩
        · simp only [hargs, List.getElem?_nil] at h
          rcases hka : c.kw a with _ | va <;> rcases hkb : c.kw b with _ | vb <;> simp [hka, hkb] at h <;> subst h
          · exact ⟨da, db, rfl, Or.inr (Or.inr ⟨rfl, rfl, rfl⟩)⟩
          · exact ⟨da, vb, rfl, Or.inr (Or.inr ⟨rfl, rfl, rfl⟩)⟩
          · exact ⟨va, db, rfl, Or.inr (Or.inr ⟨rfl, rfl, rfl⟩)⟩
          · exact ⟨va, vb, rfl, Or.inr (Or.inr ⟨rfl, rfl, rfl⟩)⟩
        · simp only [hargs, List.getElem?_cons_zero, List.getElem?_cons_succ, List.getElem?_nil] at h
          rcases hka : c.kw a with _ | va <;> rcases hkb : c.kw b with _ | vb <;> simp [hka, hkb] at h <;> subst h
          · exact ⟨a0, db, rfl, Or.inr (Or.inl ⟨rfl, rfl, rfl⟩)⟩
          · exact ⟨a0, vb, rfl, Or.inr (Or.inl ⟨rfl, rfl, rfl⟩)⟩
        · simp only [hargs, List.getElem?_cons_zero, List.getElem?_cons_succ] at h
          rcases hka : c.kw a with _ | va <;> rcases hkb : c.kw b with _ | vb <;> simp [hka, hkb] at h
          subst h
          exact ⟨a0, a1, rfl, Or.inl ⟨rfl, rfl, rfl⟩⟩
        · simp [hargs] at hlen

/-- one parameter with a default -/
theorem bindParams1d (a : String) (da : Val) (c : Call) (vs : List Val)
    (h : bindParams [(a, some da)] c = .ok vs) :
    ∃ x, vs = [x] ∧ ((c.args = [x] ∧ c.kw a = Option.none) ∨ (c.args = [] ∧ x = (c.kw a).getD da)) := by
  unfold bindParams at h
  split at h
  · cases h
  · split at h
    · cases h
    · split at h
      · cases h
      · rename_i hlen _ _
        simp only [bindLoop, bindOne] at h
        rcases hargs : c.args with _ | ⟨a0, _ | ⟨a1, rest⟩⟩
        · simp only [hargs, List.getElem?_nil] at h
          rcases hka : c.kw a with _ | va <;> simp [hka] at h <;> subst h
          · exact ⟨da, rfl, Or.inr ⟨rfl, rfl⟩⟩
          · exact ⟨va, rfl, Or.inr ⟨rfl, rfl⟩⟩
        · simp only [hargs, List.getElem?_cons_zero] at h
          rcases hka : c.kw a with _ | va <;> simp [hka] at h
          subst h
          exact ⟨a0, rfl, Or.inl ⟨rfl, rfl⟩⟩
        · simp [hargs] at hlen

theorem asInts_ok {v : Val} {l : List Int} (h : asInts v = .ok l) : v = .ints l := by
  cases v <;> simp [asInts] at h; subst h; rfl



theorem insertPath_mem_self (ks : List Key) (p : Key) : p ∈ insertPath ks p := by
  unfold insertPath
  by_cases h : ks.contains p = true
  · simp only [h, if_true]; simpa using h
  · simp only [h, Bool.false_eq_true, if_false]; simp

theorem insertPath_mem_of_unrelated (ks : List Key) (p q : Key) (hq : q ∈ ks) (hu : q = p ∨ Unrelated q p) :
    q ∈ insertPath ks p := by
  rcases hu with rfl | hu
  · exact insertPath_mem_self ks q
  · unfold insertPath
    by_cases h : ks.contains p = true
    · simp only [h, if_true]; exact hq
    · simp only [h, Bool.false_eq_true, if_false, List.mem_append, List.mem_filter]
      left
      exact ⟨hq, by simp [hu.1, hu.2]⟩

/-- folding `insertPath` over a list of pairwise unrelated paths keeps every one of them, and keeps the earlier
keys that are unrelated to all of them -/
theorem foldl_insertPath_mem : ∀ (l : List Key) (ks : List Key) (k : Key),
    (∀ a ∈ l, ∀ b ∈ l, a = b ∨ Unrelated a b) →
    (k ∈ l ∨ (k ∈ ks ∧ ∀ p ∈ l, k = p ∨ Unrelated k p)) → k ∈ l.foldl insertPath ks
  | [], ks, k, _, h => by
    rcases h with h | h
    · simp at h
    · simpa using h.1
  | p :: l, ks, k, hl, h => by
    simp only [List.foldl_cons]
    apply foldl_insertPath_mem l (insertPath ks p) k (fun a ha b hb => hl a (by simp [ha]) b (by simp [hb]))
    rcases h with h | h
    · rcases List.mem_cons.1 h with rfl | hk
      · right
        refine ⟨insertPath_mem_self ks k, ?_⟩
        intro q hq
        exact hl k (by simp) q (by simp [hq])
      · left; exact hk
    · right
      refine ⟨insertPath_mem_of_unrelated ks p k h.1 (h.2 p (by simp)), ?_⟩
      intro q hq
      exact h.2 q (by simp [hq])


/-! ### the whole `with` block: exit succeeds, and a block without key edits leaves the original as it was -/

theorem applyFwd_shape_res (op : Op) (s : St) (y : Yielded) (h : applyFwd (.shape op) s = .ok y) :
    resShape s.bs (opMeta op s.bs s.names) = some y.st.bs ∧ prod y.st.bs = prod s.bs ∧
    y.recorded = true ∧ (y.isSelf = true → y.st = s) ∧ y.st.locked = s.locked ∧ y.st.keys = s.keys := by
  unfold applyFwd at h
  simp only [] at h
  split at h
  · cases h
  · simp only [Except.ok.injEq] at h; subst h
    rename_i hm; simp [resShape, hm]
  · rename_i bs' nm lc hm
    split at h
    · cases h
    · split at h
      · cases h
      · simp only [Except.ok.injEq] at h; subst h
        rename_i hp _
        simp [resShape, hm]; omega

theorem applyFwd_shape_ok (op : Op) (s : St) (bs' : Shape)
    (h : resShape s.bs (opMeta op s.bs s.names) = some bs') (hp : prod bs' = prod s.bs)
    (hne : emptyUnflatten op = false) : ∃ y, applyFwd (.shape op) s = .ok y ∧ y.st.bs = bs' ∧ y.st.keys = s.keys := by
  unfold applyFwd
  simp only []
  split
  · rename_i e hm; simp [resShape, hm] at h
  · rename_i hm; simp only [resShape, hm, Option.some.injEq] at h; exact ⟨_, rfl, h, rfl⟩
  · rename_i b nm lc hm
    simp only [resShape, hm, Option.some.injEq] at h; subst h
    simp [hp, hne]

theorem insertPath_of_mem (ks : List Key) (p : Key) (h : p ∈ ks) : insertPath ks p = ks := by
  unfold insertPath
  have : ks.contains p = true := by simpa using h
  rw [if_pos this]

theorem foldl_insertPath_sub : ∀ (l ks : List Key), (∀ p ∈ l, p ∈ ks) → l.foldl insertPath ks = ks
  | [], _, _ => rfl
  | p :: l, ks, h => by
    rw [List.foldl_cons, insertPath_of_mem ks p (h p (by simp))]
    exact foldl_insertPath_sub l ks (fun q hq => h q (by simp [hq]))

theorem writeBack_ok (out inv : St) (h : inv.bs = out.bs) : ∃ r, writeBack out inv = .ok r := by
  unfold writeBack
  simp only [h, ne_eq, not_true_eq_false, if_false]
  split <;> exact ⟨_, rfl⟩

/-- writing back an object with the same batch size and the same keys leaves the original as it was -/
theorem writeBack_same_keys (out inv : St) (h : inv.bs = out.bs) (hk : inv.keys = out.keys) : writeBack out inv = .ok out := by
  unfold writeBack
  simp only [h, ne_eq, not_true_eq_false, if_false, hk, foldl_insertPath_sub out.keys out.keys (fun _ hp => hp)]
  split <;> rfl

theorem applyEdits_values : ∀ (es : List Edit) (y : St), (∀ e ∈ es, e = Edit.value) → applyEdits y es = .ok y
  | [], _, _ => rfl
  | e :: es, y, h => by
    have he : e = Edit.value := h e (by simp)
    subst he
    simp only [applyEdits, applyEdit, bind, Except.bind]
    exact applyEdits_values es y (fun e he => h e (by simp [he]))

theorem exit_ok_of_inverse (name : String) (c : Call) (isSelf : Bool) (y' out : St) (invName : String) (invCall : Call)
    (iop : Op) (hname : ¬ (name = "squeeze" ∧ isSelf = true))
    (hrev : reverse name c y' out = .ok (invName, invCall))
    (hinv : invName ≠ "lock_" ∧ invName ≠ "unlock_" ∧ invName ≠ "identity")
    (hiop : toOp invName invCall = .ok (.shape iop))
    (hshape : resShape y'.bs (opMeta iop y'.bs y'.names) = some out.bs)
    (hprod : prod out.bs = prod y'.bs) (hne : emptyUnflatten iop = false) :
    ∃ inv : St, inv.bs = out.bs ∧ inv.keys = y'.keys ∧ exitBlock name c true isSelf y' out = writeBack out inv := by
  obtain ⟨inv, hinvok, hbs, hkeys⟩ := applyFwd_shape_ok iop y' out.bs hshape hprod hne
  refine ⟨inv.st, hbs, hkeys, ?_⟩
  unfold exitBlock
  simp only [not_true_eq_false, if_false, hrev, bind, Except.bind, hname]
  split
  · exact absurd rfl hinv.1
  · exact absurd rfl hinv.2.1
  · exact absurd rfl hinv.2.2
  · simp only [fwd, hiop, bind, Except.bind, hinvok]

theorem block_total_of_inverse (name : String) (c : Call) (edits : List Edit) (s : St) (y : Yielded) (y' : St)
    (op iop : Op) (invName : String) (invCall : Call) (hname : ¬ (name = "squeeze" ∧ y.isSelf = true))
    (hop : toOp name c = .ok (.shape op)) (hf : applyFwd (.shape op) s = .ok y)
    (he : applyEdits y.st edits = .ok y')
    (hrev : ∀ out : St, out.bs = s.bs → reverse name c y' out = .ok (invName, invCall))
    (hinv : invName ≠ "lock_" ∧ invName ≠ "unlock_" ∧ invName ≠ "identity")
    (hiop : toOp invName invCall = .ok (.shape iop))
    (hshape : ∀ nm2, resShape y.st.bs (opMeta iop y.st.bs nm2) = some s.bs)
    (hne : emptyUnflatten iop = false) :
    (∃ r, withBlock name c edits s = .ok r) ∧
    ((∀ e ∈ edits, e = Edit.value) → withBlock name c edits s = .ok s) := by
  obtain ⟨_, hprod, hrec, hself, _, hkeys⟩ := applyFwd_shape_res op s y hf
  obtain ⟨hbs', _, _⟩ := applyEdits_frame edits y.st y' he
  have hout : (if y.isSelf = true then y' else s).bs = s.bs := by
    by_cases hs : y.isSelf = true
    · simp only [hs, if_true, hbs', hself hs]
    · simp only [hs]; rfl
  obtain ⟨inv, hib, hik, hex⟩ := exit_ok_of_inverse name c y.isSelf y' (if y.isSelf = true then y' else s)
    invName invCall iop hname (hrev _ hout) hinv hiop
    (by rw [hbs', hout]; exact hshape _) (by rw [hbs', hout]; exact hprod.symm) hne
  have hw : withBlock name c edits s = writeBack (if y.isSelf = true then y' else s) inv := by
    unfold withBlock
    simp only [fwd, hop, hf, he, bind, Except.bind, hrec]
    exact hex
  refine ⟨by rw [hw]; exact writeBack_ok _ _ hib, fun hv => ?_⟩
  have hy' : y' = y.st := by
    have := applyEdits_values edits y.st hv
    rw [this] at he; exact (Except.ok.inj he).symm
  have hos : (if y.isSelf = true then y' else s) = s := by
    by_cases hs : y.isSelf = true
    · simp only [hs, if_true, hy', hself hs]
    · simp only [hs]; rfl
  rw [hw, hos]
  rw [hos] at hib
  exact writeBack_same_keys s inv hib (by rw [hik, hy', hkeys])

theorem fwd_split (name : String) (c : Call) (s : St) (y : Yielded) (h : fwd name c s = .ok y) :
    ∃ f, toOp name c = .ok f ∧ applyFwd f s = .ok y := by
  unfold fwd at h
  simp only [bind, Except.bind] at h
  split at h
  · cases h
  · rename_i f hf; exact ⟨f, hf, h⟩

theorem toOp_transpose_shape (c : Call) (f : Fwd) (h : toOp "transpose" c = .ok f) :
    ∃ d0 d1, f = .shape (.transpose d0 d1) := by
  simp only [toOp, bind, Except.bind] at h
  repeat' split at h
  all_goals first | (cases h; done) | (simp only [pure, Except.pure, Except.ok.injEq] at h; exact ⟨_, _, h.symm⟩)

theorem toOp_transpose_pos (d0 d1 : Int) :
    toOp "transpose" ⟨[.int d0, .int d1], []⟩ = .ok (.shape (.transpose d0 d1)) := by
  rfl

theorem natsToInts_length (l : List Nat) : (natsToInts l).length = l.length := by simp [natsToInts]

theorem natsToInts_of_nonneg (dl : List Int) (h : ∀ d ∈ dl, 0 ≤ d) : natsToInts (dl.map Int.toNat) = dl := by
  induction dl with
  | nil => rfl
  | cons a l ih =>
    have ha : 0 ≤ a := h a (by simp)
    have := ih (fun d hd => h d (by simp [hd]))
    simp only [natsToInts, List.map_cons, List.map_map] at this ⊢
    rw [this]
    congr 1
    simp only [Int.ofNat_eq_natCast]; omega

/-- a `permute` call that is accepted names a permutation of the batch dims, and the result is the batch size read through it -/
theorem permuteMeta_ok_perm (dims : List Int) (bs bs' : Shape) (nm : Names)
    (h : resShape bs (permuteMeta dims bs nm) = some bs') :
    ∃ p : List Nat, dims.map (fun d => if d ≥ 0 then d else (bs.length : Int) + d) = natsToInts p ∧
      p.Perm (List.range bs.length) ∧ bs' = p.map (fun i => bs.getD i 0) := by
  unfold permuteMeta at h
  simp only [] at h
  generalize hdl : dims.map (fun d => if d ≥ 0 then d else (bs.length : Int) + d) = dl at h
  by_cases h1 : dl.any (fun d => d < 0 ∨ d ≥ (bs.length : Int)) = true
  · rw [if_pos h1] at h; simp [resShape] at h
  rw [if_neg h1] at h
  by_cases h2 : dl.length ≠ bs.length
  · rw [if_pos h2] at h; simp [resShape] at h
  rw [if_neg h2] at h
  by_cases h3 : (dl.map Int.toNat).mergeSort ≠ List.range (dl.map Int.toNat).length
  · rw [if_pos h3] at h; simp [resShape] at h
  rw [if_neg h3] at h
  have hpl : (dl.map Int.toNat).length = bs.length := by simp; omega
  have hperm := perm_range_of_mergeSort (dl.map Int.toNat) (by simpa using h3)
  rw [hpl] at hperm
  have hnn : ∀ d ∈ dl, 0 ≤ d := by
    intro d hd
    have := h1
    simp only [List.any_eq_true, not_exists, not_and] at this
    have := this d hd
    simp at this; omega
  refine ⟨dl.map Int.toNat, (natsToInts_of_nonneg dl hnn).symm, hperm, ?_⟩
  by_cases h4 : (dl.map Int.toNat).length = 0 ∧ bs.length = 0
  · rw [if_pos h4] at h
    simp only [resShape, Option.some.injEq] at h
    subst h
    have hb : bs = [] := List.eq_nil_of_length_eq_zero h4.2
    have hd0 : dl.map Int.toNat = [] := List.eq_nil_of_length_eq_zero h4.1
    rw [hd0, hb]; rfl
  rw [if_neg h4] at h
  by_cases h5 : dl.map Int.toNat = List.range (dl.map Int.toNat).length
  · rw [if_pos h5] at h
    simp only [resShape, Option.some.injEq] at h
    subst h
    rw [h5, hpl]; exact (range_map_getD' bs).symm
  · rw [if_neg h5] at h
    simp only [resShape, Option.some.injEq] at h
    rw [← h, hpl, List.drop_length, List.append_nil]

/-! ### bindings -/

theorem lookupB_map (b : Binds) (k k' : Key) (id : Nat) :
    lookupB (b.map (fun q => if q.1 = k then (q.1, id) else q)) k' =
      if k' = k then (lookupB b k').map (fun _ => id) else lookupB b k' := by
  induction b with
  | nil => simp [lookupB]
  | cons q b ih =>
    obtain ⟨qk, qid⟩ := q
    simp only [List.map_cons]
    by_cases hq : qk = k
    · subst hq
      simp only [if_true, lookupB]
      by_cases hk : qk = k'
      · subst hk; simp
      · have hk' : ¬ k' = qk := fun h => hk h.symm
        simp only [hk, if_false, hk'] at ih ⊢; exact ih
    · simp only [hq, if_false, lookupB]
      by_cases hk : qk = k'
      · subst hk; simp [hq]
      · simp only [hk, if_false]; exact ih

theorem lookupB_append (b c : Binds) (k : Key) :
    lookupB (b ++ c) k = match lookupB b k with | some i => some i | none => lookupB c k := by
  induction b with
  | nil => simp [lookupB]
  | cons q b ih =>
    obtain ⟨qk, qid⟩ := q
    simp only [List.cons_append, lookupB]
    by_cases hk : qk = k
    · simp [hk]
    · simp only [hk, if_false]; exact ih

theorem lookupB_filter (b : Binds) (f : Key × Nat → Bool) (k : Key) (hf : ∀ id, f (k, id) = true) :
    lookupB (b.filter f) k = lookupB b k := by
  induction b with
  | nil => rfl
  | cons q b ih =>
    obtain ⟨qk, qid⟩ := q
    simp only [List.filter_cons]
    by_cases hk : qk = k
    · subst hk; simp [hf, lookupB]
    · by_cases hfq : f (qk, qid) = true
      · simp only [hfq, if_true, lookupB, hk, if_false]; exact ih
      · simp only [hfq, lookupB, hk, if_false]; exact ih

theorem lookupB_filter_none (b : Binds) (f : Key × Nat → Bool) (k : Key) (h : lookupB b k = none) :
    lookupB (b.filter f) k = none := by
  induction b with
  | nil => rfl
  | cons q b ih =>
    obtain ⟨qk, qid⟩ := q
    simp only [lookupB] at h
    by_cases hk : qk = k
    · simp [hk] at h
    · simp only [hk, if_false] at h
      simp only [List.filter_cons]
      by_cases hfq : f (qk, qid) = true
      · simp only [hfq, if_true, lookupB, hk, if_false]; exact ih h
      · simp only [hfq]; exact ih h

/-- binding a path makes that path name the new tensor -/
theorem bindPath_lookup_self (b : Binds) (k : Key) (id : Nat) : lookupB (bindPath b (k, id)) k = some id := by
  unfold bindPath
  cases h : lookupB b k with
  | some i => simp [h, lookupB_map]
  | none =>
    simp only [h, Option.isSome_none, Bool.false_eq_true, if_false]
    rw [lookupB_append, lookupB_filter_none _ _ _ h]
    simp [lookupB]

theorem isPrefixOf_self' {β : Type} [BEq β] [ReflBEq β] : ∀ (l : List β), l.isPrefixOf l = true
  | [] => rfl
  | a :: l => by simp [List.isPrefixOf, isPrefixOf_self' l]

/-- ... and leaves every unrelated path bound as it was -/
theorem bindPath_lookup_other (b : Binds) (k k' : Key) (id : Nat) (hu : Unrelated k' k) :
    lookupB (bindPath b (k, id)) k' = lookupB b k' := by
  have hne : k' ≠ k := by
    intro e; subst e
    have := hu.1
    simp [isPrefixKey, isPrefixOf_self'] at this
  unfold bindPath
  cases h : lookupB b k with
  | some i => simp [h, lookupB_map, hne]
  | none =>
    simp only [h, Option.isSome_none, Bool.false_eq_true, if_false]
    rw [lookupB_append, lookupB_filter _ _ _ (by intro i; simp [hu.1, hu.2])]
    cases lookupB b k' with
    | some j => rfl
    | none => simp [lookupB, Ne.symm hne]

theorem foldl_bindPath_other : ∀ (l : Binds) (b : Binds) (k' : Key), (∀ p ∈ l, Unrelated k' p.1) →
    lookupB (l.foldl bindPath b) k' = lookupB b k'
  | [], _, _, _ => rfl
  | p :: l, b, k', h => by
    rw [List.foldl_cons, foldl_bindPath_other l _ k' (fun q hq => h q (by simp [hq]))]
    exact bindPath_lookup_other b p.1 k' p.2 (h p (by simp))

theorem lookupB_isSome_iff (b : Binds) (k : Key) : (lookupB b k).isSome = (b.map (·.1)).contains k := by
  induction b with
  | nil => rfl
  | cons q b ih =>
    obtain ⟨qk, qid⟩ := q
    simp only [lookupB, List.map_cons, List.contains_cons]
    by_cases hk : qk = k
    · subst hk; simp
    · have : (k == qk) = false := by simp [Ne.symm hk]
      simp only [hk, if_false, this, Bool.false_or]; exact ih

theorem bindPath_keys (b : Binds) (p : Key × Nat) : (bindPath b p).map (·.1) = insertPath (b.map (·.1)) p.1 := by
  unfold bindPath insertPath
  rw [lookupB_isSome_iff]
  by_cases h : (b.map (·.1)).contains p.1 = true
  · simp only [h, if_true, List.map_map]
    apply List.map_congr_left
    intro q _
    by_cases hq : q.1 = p.1 <;> simp [hq]
  · simp only [h, Bool.false_eq_true, if_false, List.map_append, List.map_cons, List.map_nil, List.filter_map]
    rfl

end TdVerif.C17
