/-
  C16 — the write path of shared-memory / memory-mapped holders (`storageAssign`): it extends the lazy-stack write `assign`
  (same result wherever `assign` succeeds) and swallows what `assign` refuses at a shared node.
-/
import TdVerif.Model.C16NonTensor

namespace TdVerif.C16
namespace NT
variable {O : Type}

mutual
theorem storageAssign_of_assign : ∀ (r : NT O) (rix : List RIx) (k : Nat) (v r' : NT O),
    assign r rix v = .ok r' → storageAssign r rix k v = .ok r'
  | .shared o s, rix, k, v, r', h => by
    unfold assign at h
    unfold storageAssign
    split at h
    · simp only [List.isEmpty_nil, Bool.or_true, if_true]
      exact h
    · cases h
  | .stack ms d, rix, k, v, r', h => by
    unfold assign at h
    unfold storageAssign
    split at h
    · cases h
    · rename_i before item after hsp
      simp only
      split at h
      · rename_i i
        cases hn : assignNth ms i (before ++ after) v with
        | error e => rw [hn] at h; cases h
        | ok ms' =>
          rw [hn] at h
          rw [storageAssignNth_of_assignNth ms i (before ++ after) _ v ms' hn]
          exact h
      · rename_i hnf
        split at h
        · cases h
        · rename_i P hP
          simp only at h ⊢
          split at h
          · cases h
          · rename_i hlen
            rw [if_neg hlen]
            cases hm : assignMembers ms 0 P (unbind v (outShape before).length) (before ++ after) with
            | error e => rw [hm] at h; cases h
            | ok ms' =>
              rw [hm] at h
              rw [storageAssignMembers_of_assignMembers ms 0 P _ (before ++ after) _ ms' hm]
              exact h
theorem storageAssignNth_of_assignNth : ∀ (ms : List (NT O)) (i : Nat) (rix : List RIx) (k : Nat) (v : NT O) (ms' : List (NT O)),
    assignNth ms i rix v = .ok ms' → storageAssignNth ms i rix k v = .ok ms'
  | [], _, _, _, _, _, h => by unfold assignNth at h; cases h
  | m :: r, 0, rix, k, v, ms', h => by
    unfold assignNth at h
    unfold storageAssignNth
    cases hm : assign m rix v with
    | error e => rw [hm] at h; cases h
    | ok m' => rw [hm] at h; rw [storageAssign_of_assign m rix k v m' hm]; exact h
  | m :: r, i + 1, rix, k, v, ms', h => by
    unfold assignNth at h
    unfold storageAssignNth
    cases hm : assignNth r i rix v with
    | error e => rw [hm] at h; cases h
    | ok r' => rw [hm] at h; rw [storageAssignNth_of_assignNth r i rix k v r' hm]; exact h
theorem storageAssignMembers_of_assignMembers : ∀ (ms : List (NT O)) (j : Nat) (P : List Nat) (pieces : List (NT O)) (rix : List RIx)
    (k : Nat) (ms' : List (NT O)), assignMembers ms j P pieces rix = .ok ms' → storageAssignMembers ms j P pieces rix k = .ok ms'
  | [], _, _, _, _, _, _, h => by unfold assignMembers at h; unfold storageAssignMembers; exact h
  | m :: r, j, P, pieces, rix, k, ms', h => by
    unfold assignMembers at h
    unfold storageAssignMembers
    cases hl : lastPiece P pieces j with
    | none =>
      rw [hl] at h
      simp only at h ⊢
      cases hm : assignMembers r (j + 1) P pieces rix with
      | error e => rw [hm] at h; cases h
      | ok r' => rw [hm] at h; rw [storageAssignMembers_of_assignMembers r (j + 1) P pieces rix k r' hm]; exact h
    | some piece =>
      rw [hl] at h
      simp only at h ⊢
      cases ha : assign m rix piece with
      | error e => rw [ha] at h; cases h
      | ok m' =>
        rw [ha] at h
        simp only at h
        rw [storageAssign_of_assign m rix k piece m' ha]
        simp only
        cases hm : assignMembers r (j + 1) P pieces rix with
        | error e => rw [hm] at h; cases h
        | ok r' => rw [hm] at h; rw [storageAssignMembers_of_assignMembers r (j + 1) P pieces rix k r' hm]; exact h
end

end NT
end TdVerif.C16
