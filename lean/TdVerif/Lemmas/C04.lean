/-
  C04 helper lemmas: the storage-dict primitives, the nested-dict laws of `lookup/insert/remove`,
  and the refinement of the transcribed primitives (`getTuple/setTuple/delTuple/containsNested`).
-/
import TdVerif.Model.C04Tree
import TdVerif.Model.C04Spec

namespace TdVerif.C04
open TdVerif TdVerif.Key

/-! ### storage dict -/

theorem dget_dset_same (k : String) (v : Entry) (l : Kids) : dget k (dset k v l) = some v := by
  induction l with
  | nil => simp [dset, dget]
  | cons a r ih => obtain ⟨k', v'⟩ := a; simp only [dset]; split <;> simp_all [dget]

theorem dget_dset_other {k k' : String} (v : Entry) (h : k ≠ k') (l : Kids) : dget k' (dset k v l) = dget k' l := by
  induction l with
  | nil => simp [dset, dget, h]
  | cons a r ih => obtain ⟨k'', v''⟩ := a; simp only [dset]; split <;> simp_all [dget]

theorem dget_ddel_other {k k' : String} (h : k ≠ k') (l : Kids) : dget k' (ddel k l) = dget k' l := by
  induction l with
  | nil => simp [ddel, dget]
  | cons a r ih => obtain ⟨k'', v''⟩ := a; simp only [ddel]; split <;> simp_all [dget]

theorem dget_isSome_iff_mem (k : String) (l : Kids) : (dget k l).isSome ↔ k ∈ l.map (·.1) := by
  induction l with
  | nil => simp [dget]
  | cons a r ih => obtain ⟨k', v'⟩ := a; simp only [dget]; split <;> simp_all <;> grind

theorem dget_none_iff (k : String) (l : Kids) : dget k l = none ↔ k ∉ l.map (·.1) := by
  have := dget_isSome_iff_mem k l
  cases h : dget k l <;> simp_all

theorem dget_mem {k : String} {v : Entry} {l : Kids} (h : dget k l = some v) : (k, v) ∈ l := by
  induction l with
  | nil => simp [dget] at h
  | cons a r ih => obtain ⟨k', v'⟩ := a; simp only [dget] at h; split at h <;> simp_all

theorem dget_ddel_same (k : String) (l : Kids) (h : (l.map (·.1)).Nodup) : dget k (ddel k l) = none := by
  induction l with
  | nil => simp [ddel, dget]
  | cons a r ih =>
    obtain ⟨k', v'⟩ := a
    simp only [ddel]; split
    · simp_all [dget_none_iff]
    · simp_all [dget]

theorem keys_dset (k : String) (v : Entry) (l : Kids) :
    (dset k v l).map (·.1) = if k ∈ l.map (·.1) then l.map (·.1) else l.map (·.1) ++ [k] := by
  induction l with
  | nil => simp [dset]
  | cons a r ih => obtain ⟨k', v'⟩ := a; simp only [dset]; split <;> simp_all <;> grind

theorem nodup_dset (k : String) (v : Entry) (l : Kids) (h : (l.map (·.1)).Nodup) :
    ((dset k v l).map (·.1)).Nodup := by
  rw [keys_dset]
  split
  · exact h
  · rename_i hk
    refine List.nodup_append.mpr ⟨h, by simp, ?_⟩
    intro a ha b hb; simp at hb; subst hb; intro e; subst e; exact hk ha

theorem mem_dset {k : String} {v : Entry} {l : Kids} {k' : String} {v' : Entry}
    (h : (k', v') ∈ dset k v l) : (k', v') ∈ l ∨ (k' = k ∧ v' = v) := by
  induction l with
  | nil => simp [dset] at h; exact Or.inr h
  | cons a r ih =>
    obtain ⟨k'', v''⟩ := a
    simp only [dset] at h; split at h <;> simp_all <;> grind

theorem mem_ddel {k : String} {l : Kids} {kv : String × Entry} (h : kv ∈ ddel k l) : kv ∈ l := by
  induction l with
  | nil => simp [ddel] at h
  | cons a r ih =>
    obtain ⟨k'', v''⟩ := a
    simp only [ddel] at h; split at h <;> simp_all <;> grind

theorem keys_ddel_sublist (k : String) (l : Kids) : ((ddel k l).map (·.1)).Sublist (l.map (·.1)) := by
  induction l with
  | nil => simp [ddel]
  | cons a r ih => obtain ⟨k', v'⟩ := a; simp only [ddel]; split <;> simp_all

theorem nodup_ddel (k : String) (l : Kids) (h : (l.map (·.1)).Nodup) : ((ddel k l).map (·.1)).Nodup :=
  List.Nodup.sublist (keys_ddel_sublist k l) h

/-! ### well-formedness is preserved by the primitives -/

theorem WF.kids_nodup {kids : Kids} (h : WF (.node kids)) : (kids.map (·.1)).Nodup := by
  cases h; assumption

theorem WF.child {kids : Kids} (h : WF (.node kids)) {k : String} {c : Entry} (hc : dget k kids = some c) : WF c := by
  cases h with
  | node _ _ hk => exact hk k c (dget_mem hc)

theorem WF.dset {kids : Kids} (h : WF (.node kids)) (k : String) {c : Entry} (hc : WF c) : WF (.node (dset k c kids)) := by
  cases h with
  | node _ hn hk =>
    refine WF.node _ (nodup_dset k c kids hn) ?_
    intro k' v' hm
    rcases mem_dset hm with h1 | ⟨_, h2⟩
    · exact hk k' v' h1
    · subst h2; exact hc

theorem WF.ddel {kids : Kids} (h : WF (.node kids)) (k : String) : WF (.node (ddel k kids)) := by
  cases h with
  | node _ hn hk =>
    exact WF.node _ (nodup_ddel k kids hn) (fun k' v' hm => hk k' v' (mem_ddel hm))

theorem WF.empty : WF (.node []) := WF.node [] (by simp) (by simp)

/-! ### nested-dict laws -/

theorem lookup_cons_node (k : String) (rest : Path) (kids : Kids) :
    lookup (k :: rest) (.node kids) = (dget k kids).bind (lookup rest) := by
  simp only [lookup]; cases dget k kids <;> rfl

theorem lookup_leaf_cons (k : String) (rest : Path) (nt : Bool) (v : Nat) : lookup (k :: rest) (.leaf nt v) = none := by
  simp [lookup]

theorem lookup_empty_node (k : String) (rest : Path) : lookup (k :: rest) (.node []) = none := by
  simp [lookup, dget]

theorem lookup_insert_same (p : Path) (v t t' : Entry) (h : insert p v t = some t') : lookup p t' = some v := by
  fun_induction insert p v t generalizing t' <;> simp_all
  · subst h; simp [lookup_cons_node, dget_dset_same, lookup]
  · obtain ⟨a, ha, rfl⟩ := h; simp [lookup_cons_node, dget_dset_same]; rename_i ih; exact ih a ha
  · obtain ⟨a, ha, rfl⟩ := h; simp [lookup_cons_node, dget_dset_same]; rename_i ih; exact ih a ha

theorem isPrefix_nil_right (p : Path) : isPrefix p [] = (p == []) := by cases p <;> simp [isPrefix]

theorem lookup_insert_other (p : Path) (v t t' : Entry) (h : insert p v t = some t') (q : Path)
    (h1 : isPrefix p q = false) (h2 : isPrefix q p = false) : lookup q t' = lookup q t := by
  fun_induction insert p v t generalizing t' q <;> simp_all
  · -- [k]
    subst h
    cases q with
    | nil => simp [isPrefix] at h2
    | cons k' q' =>
      simp [isPrefix] at h1
      rename_i k v kids
      have : k ≠ k' := by intro e; subst e; simp at h1
      simp [lookup_cons_node, dget_dset_other _ this]
  · obtain ⟨a, ha, rfl⟩ := h
    rename_i k k2 rest v kids hk ih
    cases q with
    | nil => simp [isPrefix] at h2
    | cons k' q' =>
      by_cases e : k = k'
      · subst e
        simp [isPrefix] at h1 h2
        simp [lookup_cons_node, dget_dset_same, hk]
        rw [ih a ha q' h1 h2]
        cases q' with
        | nil => simp [isPrefix] at h2
        | cons _ _ => simp [lookup_empty_node]
      · simp [lookup_cons_node, dget_dset_other _ e]
  · obtain ⟨a, ha, rfl⟩ := h
    rename_i k k2 rest v kids sub hk ih
    cases q with
    | nil => simp [isPrefix] at h2
    | cons k' q' =>
      by_cases e : k = k'
      · subst e
        simp [isPrefix] at h1 h2
        simp [lookup_cons_node, dget_dset_same, hk]
        exact ih a ha q' h1 h2
      · simp [lookup_cons_node, dget_dset_other _ e]



theorem lookup_remove_same (p : Path) (t t' : Entry) (hw : WF t) (h : remove p t = some t') : lookup p t' = none := by
  fun_induction remove p t generalizing t' <;> simp_all
  · obtain ⟨_, rfl⟩ := h
    simp [lookup_cons_node, dget_ddel_same _ _ hw.kids_nodup]
  · obtain ⟨a, ha, rfl⟩ := h
    rename_i k k2 rest kids c hk ih
    simp [lookup_cons_node, dget_dset_same]
    exact ih a (hw.child hk) ha

theorem lookup_remove_other (p : Path) (t t' : Entry) (h : remove p t = some t') (q : Path)
    (h1 : isPrefix p q = false) (h2 : isPrefix q p = false) : lookup q t' = lookup q t := by
  fun_induction remove p t generalizing t' q <;> simp_all
  · obtain ⟨_, rfl⟩ := h
    cases q with
    | nil => simp [isPrefix] at h2
    | cons k' q' =>
      simp [isPrefix] at h1
      simp [lookup_cons_node, dget_ddel_other h1]
  · obtain ⟨a, ha, rfl⟩ := h
    rename_i k k2 rest kids c hk ih
    cases q with
    | nil => simp [isPrefix] at h2
    | cons k' q' =>
      by_cases e : k = k'
      · subst e
        simp [isPrefix] at h1 h2
        simp [lookup_cons_node, dget_dset_same, hk]
        exact ih a ha q' h1 h2
      · simp [lookup_cons_node, dget_dset_other _ e]

theorem remove_isSome (p : Path) (t : Entry) : (remove p t).isSome = has p t := by
  fun_induction remove p t <;> simp_all [has, lookup_cons_node, lookup]
  all_goals (first | done | (rename_i k kids h; cases hd : dget k kids <;> simp_all [lookup]))

theorem throughLeaf_empty (p : Path) : throughLeaf p (.node []) = false := by
  match p with
  | [] => simp [throughLeaf]
  | [_] => simp [throughLeaf]
  | _ :: _ :: _ => simp [throughLeaf, dget]

theorem insert_eq_none_iff (p : Path) (v t : Entry) : insert p v t = none ↔ (p = [] ∨ throughLeaf p t = true) := by
  fun_induction insert p v t <;> simp_all [throughLeaf, throughLeaf_empty]

theorem lookup_none_of_throughLeaf (p : Path) (t : Entry) (h : throughLeaf p t = true) : lookup p t = none := by
  fun_induction throughLeaf p t <;> simp_all [lookup_cons_node, lookup]

theorem wf_insert (p : Path) (v t t' : Entry) (hw : WF t) (hv : WF v) (h : insert p v t = some t') : WF t' := by
  fun_induction insert p v t generalizing t' <;> simp_all
  · subst h; exact hw.dset _ hv
  · obtain ⟨a, ha, rfl⟩ := h; rename_i ih; exact hw.dset _ (ih a WF.empty ha)
  · obtain ⟨a, ha, rfl⟩ := h; rename_i hk ih; exact hw.dset _ (ih a (hw.child hk) ha)

theorem wf_remove (p : Path) (t t' : Entry) (hw : WF t) (h : remove p t = some t') : WF t' := by
  fun_induction remove p t generalizing t' <;> simp_all
  · obtain ⟨_, rfl⟩ := h; exact hw.ddel _
  · obtain ⟨a, ha, rfl⟩ := h; rename_i hk ih; exact hw.dset _ (ih a (hw.child hk) ha)

theorem wf_lookup (p : Path) (t c : Entry) (hw : WF t) (h : lookup p t = some c) : WF c := by
  fun_induction lookup p t <;> simp_all
  rename_i hk ih; exact ih (hw.child hk)


/-! ### the transcribed primitives refine the nested-dict primitives -/

theorem getTuple_ok (p : Path) (t : Entry) (r : Option Entry) (h : getTuple p t = .ok r) : r = lookup p t := by
  fun_induction getTuple p t <;> simp_all [lookup_cons_node, lookup]
  all_goals (subst h; first | rfl | (cases dget _ _ <;> rfl))

theorem getTuple_error (p : Path) (t : Entry) (e : Err) (h : getTuple p t = .error e) :
    p = [] ∨ throughLeaf p t = true := by
  fun_induction getTuple p t <;> simp_all [throughLeaf]

theorem getTuple_eq (p : Path) (t : Entry) (hp : p ≠ []) (hl : throughLeaf p t = false) :
    getTuple p t = .ok (lookup p t) := by
  cases h : getTuple p t with
  | ok r => rw [getTuple_ok p t r h]
  | error e => rcases getTuple_error p t e h with h1 | h1 <;> simp_all

theorem setTuple_toOption (p : Path) (v t : Entry) : (setTuple p v t).toOption = insert p v t := by
  fun_induction setTuple p v t <;> simp_all [insert, Except.toOption]
  all_goals (rename_i ih; rw [← ih]; cases setTuple _ _ _ <;> simp [Except.map, Except.toOption])

theorem delTuple_toOption (p : Path) (t : Entry) : (delTuple p t).toOption = remove p t := by
  fun_induction delTuple p t <;> simp_all [remove, Except.toOption]
  all_goals (first | done | (rename_i ih; rw [← ih]; cases delTuple _ _ <;> simp [Except.map, Except.toOption]))



/-- the entry bound to `x` inside `e` when `e` is a node -/
def childOf (x : String) : Entry → Option Entry
  | .node s => dget x s
  | .leaf .. => none

theorem lookup_snoc (q : Path) (x : String) (t : Entry) :
    lookup (q ++ [x]) t = (lookup q t).bind (childOf x) := by
  induction q generalizing t with
  | nil =>
    cases t with
    | leaf nt v => simp [lookup, childOf]
    | node kids => simp [lookup_cons_node, lookup, childOf]
  | cons k q ih =>
    cases t with
    | leaf nt v => simp [lookup]
    | node kids =>
      simp [lookup_cons_node]
      cases dget k kids with
      | none => simp
      | some c => simp [ih]

theorem containsNested_eq (p : Path) (kids : Kids) (hp : p ≠ []) :
    containsNested p (.node kids) = .ok (has p (.node kids)) := by
  match p with
  | [] => simp at hp
  | [k] => simp [containsNested, has, lookup_cons_node, lookup]; cases dget k kids <;> simp
  | k :: k2 :: rest =>
    simp only [containsNested, has]
    cases hk : dget k kids with
    | none => simp [lookup_cons_node, hk]
    | some c =>
      cases c with
      | leaf nt v => simp [lookup_cons_node, hk, lookup]
      | node sub =>
        cases rest with
        | nil => simp [lookup_cons_node, hk, lookup]; cases dget k2 sub <;> simp
        | cons r1 r2 =>
          simp only []
          have hsplit : (k2 :: r1 :: r2) = (k2 :: r1 :: r2).dropLast ++ [(k2 :: r1 :: r2).getLast (by simp)] :=
            (List.dropLast_concat_getLast (by simp)).symm
          have hl : lookup (k :: k2 :: r1 :: r2) (.node kids) =
              (lookup ((k2 :: r1 :: r2).dropLast) (.node sub)).bind (childOf ((k2 :: r1 :: r2).getLast (by simp))) := by
            rw [lookup_cons_node, hk]; simp only [Option.bind]
            conv => lhs; rw [hsplit]
            exact lookup_snoc _ _ _
          rw [hl]
          cases hg : getTuple ((k2 :: r1 :: r2).dropLast) (.node sub) with
          | error e =>
            have := getTuple_error _ _ _ hg
            rcases this with h1 | h1
            · simp at h1
            · have h0 := lookup_none_of_throughLeaf _ _ h1
              rw [h0]; simp
          | ok r =>
            have := getTuple_ok _ _ _ hg
            subst this
            cases hl2 : lookup ((k2 :: r1 :: r2).dropLast) (.node sub) with
            | none => simp
            | some e =>
              cases e with
              | leaf nt v => simp [childOf]
              | node s2 => simp [childOf]


/-! ### derived operations -/

theorem throughLeaf_false_of_lookup {p : Path} {t e : Entry} (h : lookup p t = some e) : throughLeaf p t = false := by
  cases hl : throughLeaf p t with
  | false => rfl
  | true => rw [lookup_none_of_throughLeaf p t hl] at h; simp at h

theorem delTuple_of_remove {p : Path} {t t' : Entry} (h : remove p t = some t') : delTuple p t = .ok t' := by
  have := delTuple_toOption p t
  rw [h] at this
  cases hd : delTuple p t <;> simp_all [Except.toOption]

theorem delTuple_error_of_remove {p : Path} {t : Entry} (h : remove p t = none) : ∃ e, delTuple p t = .error e := by
  have := delTuple_toOption p t
  rw [h] at this
  cases hd : delTuple p t <;> simp_all [Except.toOption]

theorem setTuple_of_insert {p : Path} {v t t' : Entry} (h : insert p v t = some t') : setTuple p v t = .ok t' := by
  have := setTuple_toOption p v t
  rw [h] at this
  cases hd : setTuple p v t <;> simp_all [Except.toOption]

theorem setTuple_error_of_insert {p : Path} {v t : Entry} (h : insert p v t = none) : ∃ e, setTuple p v t = .error e := by
  have := setTuple_toOption p v t
  rw [h] at this
  cases hd : setTuple p v t <;> simp_all [Except.toOption]

theorem remove_some_of_lookup {p : Path} {t e : Entry} (hp : p ≠ []) (h : lookup p t = some e) : ∃ t', remove p t = some t' := by
  have := remove_isSome p t
  simp [has, hp, h] at this
  exact Option.isSome_iff_exists.mp this

theorem remove_none_of_lookup {p : Path} {t : Entry} (h : lookup p t = none) : remove p t = none := by
  have := remove_isSome p t
  simp [has, h] at this
  exact this

theorem getTuple_error_of_throughLeaf (p : Path) (t : Entry) (h : throughLeaf p t = true) (hn : throughNt p t = false) :
    ∃ e, getTuple p t = .error e := by
  fun_induction getTuple p t <;> simp_all [throughLeaf, throughNt]

theorem delTuple_error_class (p : Path) (t : Entry) (e : Err) (h : delTuple p t = .error e) (hp : p ≠ [])
    (hl : throughLeaf p t = false) : e = .key := by
  induction p generalizing t e with
  | nil => simp at hp
  | cons k r ih =>
    cases t with
    | leaf nt v => simp [throughLeaf] at hl
    | node kids =>
      cases r with
      | nil =>
        simp only [delTuple] at h
        split at h <;> simp_all
      | cons k2 rest =>
        simp only [delTuple] at h
        cases hk : dget k kids with
        | none => simp [hk] at h; exact h.symm
        | some c =>
          simp only [hk] at h
          simp only [throughLeaf, hk] at hl
          cases hd : delTuple (k2 :: rest) c with
          | ok x => simp [hd, Except.map] at h
          | error e' =>
            simp [hd, Except.map] at h; subst h
            exact ih c e' hd (by simp) hl

theorem popT_cons (k : String) (r : Path) (d : Bool) (t : Entry) : popT (k :: r) d t =
    match getTuple (k :: r) t with
    | .error e => (t, .err e)
    | .ok none =>
      if d then
        match delTuple (k :: r) t with
        | .ok t' => (t', .val none)
        | .error .key => (t, .val none)
        | .error e => (t, .err e)
      else (t, .err .key)
    | .ok (some v) =>
      match delTuple (k :: r) t with
      | .ok t' => (t', .val (some v))
      | .error .key => if d then (t, .val (some v)) else (t, .err .key)
      | .error e => (t, .err e) := by
  rfl

/-- `pop` -/
theorem pop_refines_aux (p : Path) (d : Bool) (t : Entry) (hnt : throughNt p t = false ∨ d = false) :
    (popT p d t).1 = (specPop p d t).1 ∧ (popT p d t).2.erase = (specPop p d t).2.erase := by
  cases p with
  | nil => simp [popT, specPop]
  | cons k r =>
    rw [popT_cons]
    simp only [specPop, reduceCtorEq, if_false]
    cases hl : lookup (k :: r) t with
    | some v =>
      have h1 := getTuple_eq (k :: r) t (by simp) (throughLeaf_false_of_lookup hl)
      obtain ⟨t', ht'⟩ := remove_some_of_lookup (by simp) hl
      simp [h1, hl, ht', delTuple_of_remove ht']
    | none =>
      have hrm := remove_none_of_lookup hl
      obtain ⟨e, he⟩ := delTuple_error_of_remove hrm
      cases htl : throughLeaf (k :: r) t with
      | true =>
        cases hn : throughNt (k :: r) t with
        | false =>
          obtain ⟨e', he'⟩ := getTuple_error_of_throughLeaf _ _ htl hn
          simp [he', Out.erase]
        | true =>
          have hd : d = false := by rcases hnt with h | h <;> simp_all
          subst hd
          cases hg : getTuple (k :: r) t with
          | error e' => simp [Out.erase]
          | ok r' =>
            have := getTuple_ok _ _ _ hg
            rw [hl] at this; subst this
            simp [Out.erase]
      | false =>
        have h1 := getTuple_eq (k :: r) t (by simp) htl
        have hk := delTuple_error_class _ _ _ he (by simp) htl
        subst hk
        cases d <;> simp [h1, hl, he]



theorem containsFlat_single (k : String) (kids : Kids) : containsFlat [k] (.node kids) = .ok (has [k] (.node kids)) := by
  simp [containsFlat, has, lookup_cons_node, lookup]; cases dget k kids <;> simp

/-- `setdefault` -/
theorem setDefault_refines_aux (p : Path) (isTuple : Bool) (dflt : Entry) (kids : Kids) (hp : p ≠ [])
    (hstr : isTuple = false → p.length = 1) :
    (setDefault p isTuple dflt (.node kids)).1 = (specSetDefault p dflt (.node kids)).1 ∧
    (setDefault p isTuple dflt (.node kids)).2.erase = (specSetDefault p dflt (.node kids)).2.erase := by
  have hc : (if isTuple then containsNested p (.node kids) else containsFlat p (.node kids)) = .ok (has p (.node kids)) := by
    cases isTuple with
    | true => simp [containsNested_eq p kids hp]
    | false =>
      have := hstr rfl
      match p, this with
      | [k], _ => simp [containsFlat_single]
  simp only [setDefault, hc, specSetDefault, hp, if_false]
  cases hl : lookup p (.node kids) with
  | some v =>
    simp [has, hp, hl, getTuple_eq p _ hp (throughLeaf_false_of_lookup hl)]
  | none =>
    simp only [has, hl]
    cases hi : insert p dflt (.node kids) with
    | none =>
      obtain ⟨e, he⟩ := setTuple_error_of_insert hi
      simp [he, Out.erase, hp]
    | some t' =>
      have h2 := lookup_insert_same _ _ _ _ hi
      simp [setTuple_of_insert hi, getTuple_eq p t' hp (throughLeaf_false_of_lookup h2), h2, hp]

theorem clearLoop_kids (kids : Kids) : clearLoop (kids.map (·.1)) (.node kids) = (.node [], .ok) := by
  induction kids with
  | nil => simp [clearLoop]
  | cons a r ih =>
    obtain ⟨k, v⟩ := a
    simp [clearLoop, delTuple, dget, ddel, ih]

/-- `clear` -/
theorem clear_refines_aux (kids : Kids) : clearT (.node kids) = specClear (.node kids) := by
  simp [clearT, rootKeys, specClear, clearLoop_kids]


/-! ### rename: remove and insert commute -/

theorem dset_dset_same (k : String) (a b : Entry) (l : Kids) : dset k a (dset k b l) = dset k a l := by
  induction l with
  | nil => simp [dset]
  | cons x r ih => obtain ⟨k', v'⟩ := x; simp only [dset]; split <;> simp_all [dset]

theorem ddel_dset_comm {k k' : String} (h : k ≠ k') (v : Entry) (l : Kids) :
    ddel k (dset k' v l) = dset k' v (ddel k l) := by
  induction l with
  | nil => simp [dset, ddel, h]; intro e; exact absurd e.symm h
  | cons x r ih =>
    obtain ⟨k'', v''⟩ := x
    simp only [dset, ddel]
    split <;> split <;> simp_all [dset, ddel]

theorem dset_dset_comm {k k' : String} (h : k ≠ k') (a b : Entry) (l : Kids) (hk : (dget k l).isSome) :
    dset k a (dset k' b l) = dset k' b (dset k a l) := by
  induction l with
  | nil => simp [dget] at hk
  | cons x r ih =>
    obtain ⟨k'', v''⟩ := x
    simp only [dget] at hk
    simp only [dset]
    split <;> split <;> simp_all [dset]

theorem remove_shape {p : Path} {t t' : Entry} (h : remove p t = some t') : ∃ kids kids', t = .node kids ∧ t' = .node kids' := by
  fun_induction remove p t <;> simp_all
  · obtain ⟨_, rfl⟩ := h; exact ⟨_, rfl⟩
  · obtain ⟨a, _, rfl⟩ := h; exact ⟨_, rfl⟩

/-- (L1) once `old` is removed, writing below it cannot fail -/
theorem throughLeaf_after_remove (old ext : Path) (t t1 : Entry) (hw : WF t) (h : remove old t = some t1)
    (hext : ext ≠ []) : throughLeaf (old ++ ext) t1 = false := by
  fun_induction remove old t generalizing t1 <;> simp_all
  · obtain ⟨_, rfl⟩ := h
    rename_i k kids hk
    cases ext with
    | nil => simp at hext
    | cons e1 e2 => simp [throughLeaf, dget_ddel_same _ _ hw.kids_nodup]
  · obtain ⟨a, ha, rfl⟩ := h
    rename_i k k2 rest kids c hk ih
    simp [throughLeaf, dget_dset_same]
    exact ih a (hw.child hk) ha



/-- (L2) writing at a proper prefix of `old` overwrites whatever removing `old` changed -/
theorem insert_after_remove_below (new old : Path) (v t t1 : Entry) (h : remove old t = some t1)
    (hpre : isPrefix new old = true) (hne : new ≠ old) : insert new v t1 = insert new v t := by
  induction new generalizing old t t1 with
  | nil => simp [insert]
  | cons k nrest ih =>
    cases old with
    | nil => simp [isPrefix] at hpre
    | cons ko orest =>
      simp [isPrefix] at hpre
      obtain ⟨rfl, hpre⟩ := hpre
      have hne' : nrest ≠ orest := by intro e; subst e; exact hne rfl
      cases orest with
      | nil => cases nrest <;> simp_all [isPrefix]
      | cons o2 orest =>
        obtain ⟨kids, kids', rfl, rfl⟩ := remove_shape h
        simp only [remove] at h
        cases hk : dget k kids with
        | none => simp [hk] at h
        | some c =>
          simp [hk] at h
          obtain ⟨c1, hc1, hk'⟩ := h
          subst hk'
          cases nrest with
          | nil => simp [insert, dset_dset_same]
          | cons n2 nrest =>
            obtain ⟨sub, sub', rfl, rfl⟩ := remove_shape hc1
            simp only [insert, dget_dset_same, hk]
            rw [ih (o2 :: orest) (.node sub) (.node sub') hc1 hpre hne']
            cases insert (n2 :: nrest) v (.node sub) <;> simp [dset_dset_same]



theorem dget_isSome_of_eq {k : String} {l : Kids} {c : Entry} (h : dget k l = some c) : (dget k l).isSome = true := by simp [h]

/-- (L3) for unrelated paths, removing `old` after writing `new` = writing `new` after removing `old` -/
theorem insert_remove_comm (new old : Path) (v t t1 : Entry) (h : remove old t = some t1)
    (h1 : isPrefix old new = false) (h2 : isPrefix new old = false) :
    (insert new v t).bind (remove old) = insert new v t1 := by
  induction new generalizing old t t1 with
  | nil => simp [isPrefix] at h2
  | cons kn nrest ih =>
    cases old with
    | nil => simp [isPrefix] at h1
    | cons ko orest =>
      obtain ⟨kids, kids', rfl, rfl⟩ := remove_shape h
      by_cases hkk : ko = kn
      · -- same first component: both paths continue below the same child
        subst hkk
        simp [isPrefix] at h1 h2
        cases orest with
        | nil => simp [isPrefix] at h1
        | cons o2 orest =>
          cases nrest with
          | nil => simp [isPrefix] at h2
          | cons n2 nrest =>
            simp only [remove] at h
            cases hk : dget ko kids with
            | none => simp [hk] at h
            | some c =>
              simp [hk] at h
              obtain ⟨c1, hc1, hk'⟩ := h
              subst hk'
              obtain ⟨sub, sub', rfl, rfl⟩ := remove_shape hc1
              have ih' := ih (o2 :: orest) (.node sub) (.node sub') hc1 h1 h2
              simp only [insert, hk, dget_dset_same]
              rw [← ih']
              cases hi : insert (n2 :: nrest) v (.node sub) with
              | none => simp
              | some x =>
                simp [remove, dget_dset_same]
                cases remove (o2 :: orest) x <;> simp [dset_dset_same]
      · -- different first components
        have hkk' : kn ≠ ko := fun e => hkk e.symm
        cases orest with
        | nil =>
          -- old = [ko]
          simp only [remove] at h
          split at h
          · rename_i hsome
            simp at h; subst h
            cases nrest with
            | nil =>
              simp [insert, remove, dget_dset_other _ hkk', hsome, ddel_dset_comm hkk]
            | cons n2 nrest =>
              simp only [insert, dget_ddel_other hkk]
              cases hkn : dget kn kids with
              | none =>
                simp only []
                cases insert (n2 :: nrest) v (.node []) <;> simp [remove, dget_dset_other _ hkk', hsome, ddel_dset_comm hkk]
              | some c =>
                cases c with
                | leaf nt x => simp
                | node sub =>
                  simp only []
                  cases insert (n2 :: nrest) v (.node sub) <;> simp [remove, dget_dset_other _ hkk', hsome, ddel_dset_comm hkk]
          · simp at h
        | cons o2 orest =>
          simp only [remove] at h
          cases hk : dget ko kids with
          | none => simp [hk] at h
          | some c =>
            simp [hk] at h
            obtain ⟨c1, hc1, hk'⟩ := h
            subst hk'
            have hsome := dget_isSome_of_eq hk
            cases nrest with
            | nil =>
              simp [insert, remove, dget_dset_other _ hkk', hk, hc1, dset_dset_comm hkk _ _ _ hsome]
            | cons n2 nrest =>
              simp only [insert, dget_dset_other _ hkk]
              cases hkn : dget kn kids with
              | none =>
                simp only []
                cases insert (n2 :: nrest) v (.node []) <;>
                  simp [remove, dget_dset_other _ hkk', hk, hc1, dset_dset_comm hkk _ _ _ hsome]
              | some c' =>
                cases c' with
                | leaf nt x => simp
                | node sub =>
                  simp only []
                  cases insert (n2 :: nrest) v (.node sub) <;>
                    simp [remove, dget_dset_other _ hkk', hk, hc1, dset_dset_comm hkk _ _ _ hsome]



theorem isPrefix_iff_append (p q : Path) : isPrefix p q = true ↔ ∃ ext, q = p ++ ext := by
  induction p generalizing q with
  | nil => simp [isPrefix]
  | cons a p ih =>
    cases q with
    | nil => simp [isPrefix]
    | cons b q =>
      simp [isPrefix, ih]
      intro _ _; exact eq_comm

theorem has_eq_isSome {p : Path} (hp : p ≠ []) (t : Entry) : has p t = (lookup p t).isSome := by
  simp [has, hp]

/-- `rename_key_` -/
theorem rename_refines_aux (old new : Path) (safe : Bool) (kids : Kids) (hw : WF (.node kids)) :
    (renameKey old new safe (.node kids)).1 = (specRename old new safe (.node kids)).1 ∧
    (renameKey old new safe (.node kids)).2.erase = (specRename old new safe (.node kids)).2.erase := by
  unfold renameKey specRename
  by_cases h0 : old = [] ∨ new = []
  · simp [h0]
  · simp only [h0, if_false]
    have ho : old ≠ [] := fun e => h0 (Or.inl e)
    have hn : new ≠ [] := fun e => h0 (Or.inr e)
    by_cases heq : old = new
    · subst heq
      simp only [if_true]
      have hc : (if old.length = 1 then containsFlat old (.node kids) else containsNested old (.node kids))
          = .ok (has old (.node kids)) := by
        split
        · rename_i hl
          match old, hl with
          | [k], _ => exact containsFlat_single k kids
        · exact containsNested_eq old kids ho
      rw [hc, has_eq_isSome ho]
      cases lookup old (.node kids) <;> simp [Out.erase]
    · simp only [heq, if_false]
      have hs : (if safe then containsNested new (.node kids) else Except.ok false) = .ok (safe && has new (.node kids)) := by
        cases safe <;> simp [containsNested_eq new kids hn]
      rw [hs]
      cases hsafe : (safe && has new (.node kids)) with
      | true =>
        simp only []
        cases lookup old (.node kids) <;> simp [Out.erase]
      | false =>
        simp only []
        cases hl : lookup old (.node kids) with
        | none =>
          have hg : ∀ r, getTuple old (.node kids) = .ok r → r = none := by
            intro r hr; rw [getTuple_ok _ _ _ hr, hl]
          cases hgt : getTuple old (.node kids) with
          | error e => simp [Out.erase]
          | ok r => have := hg r hgt; subst this; simp [Out.erase]
        | some v =>
          have hgt := getTuple_eq old (.node kids) ho (throughLeaf_false_of_lookup hl)
          obtain ⟨t1, ht1⟩ := remove_some_of_lookup ho hl
          rw [hgt, hl]
          simp only [ht1]
          by_cases hpre : isPrefix old new = true
          · -- the new key extends the old one
            simp only [hpre, if_true, delTuple_of_remove ht1]
            obtain ⟨ext, hext⟩ := (isPrefix_iff_append old new).mp hpre
            have hext' : ext ≠ [] := by intro e; subst e; simp at hext; exact heq hext.symm
            have htl := throughLeaf_after_remove old ext _ t1 hw ht1 hext'
            rw [← hext] at htl
            cases hi : insert new v t1 with
            | none =>
              have := (insert_eq_none_iff new v t1).mp hi
              rcases this with h | h
              · exact absurd h hn
              · rw [htl] at h; simp at h
            | some t2 => simp [setTuple_of_insert hi]
          · have hpre' : isPrefix old new = false := by simpa using hpre
            simp only [hpre', Bool.false_eq_true, if_false]
            by_cases hpre2 : isPrefix new old = true
            · -- the new key is a proper prefix of the old one
              have h2 := insert_after_remove_below new old v _ t1 ht1 hpre2 (fun e => heq e.symm)
              rw [h2]
              cases hi : insert new v (.node kids) with
              | none => obtain ⟨e, he⟩ := setTuple_error_of_insert hi; simp [he, Out.erase]
              | some t2 => simp [setTuple_of_insert hi, hpre2]
            · have hpre2' : isPrefix new old = false := by simpa using hpre2
              have h3 := insert_remove_comm new old v _ t1 ht1 hpre' hpre2'
              cases hi : insert new v (.node kids) with
              | none =>
                obtain ⟨e, he⟩ := setTuple_error_of_insert hi
                rw [hi] at h3; simp at h3
                simp [he, ← h3, Out.erase]
              | some t2 =>
                rw [hi] at h3; simp at h3
                have hl2 : lookup old t2 = some v := by
                  rw [lookup_insert_other new v _ t2 hi old hpre2' hpre', hl]
                obtain ⟨t3, ht3⟩ := remove_some_of_lookup ho hl2
                rw [ht3] at h3
                simp [setTuple_of_insert hi, hpre2', delTuple_of_remove ht3, ← h3]


/-! ### spellings -/
mutual
theorem spells_tup : ∀ {k : Key} {p : List String}, Spells k p → unravelTupCpp k = p
  | _, _, .str s => by simp [unravelTupCpp]
  | _, _, .tup l p h => by simp [unravelTupCpp, unravelTupCppL, spellsL_tup h]
theorem spellsL_tup : ∀ {l : List Key} {p : List String}, SpellsL l p → unravelTupCppLO l = some p
  | _, _, .nil => by simp [unravelTupCppLO]
  | _, _, .cons k l p q hk hp hl => by
    have h1 := spells_tup hk
    have h2 := spellsL_tup hl
    cases k with
    | str s => simp [unravelTupCpp] at h1; subst h1; simp [unravelTupCppLO, h2]
    | bad => cases hk
    | tup l' =>
      simp only [unravelTupCppLO, h1, h2]
      cases p with
      | nil => exact absurd rfl hp
      | cons a b => simp
end

theorem spellsL_loop : ∀ {l : List Key} {p : List String}, SpellsL l p → unravelKeyLoopCpp l = p
  | _, _, .nil => by simp [unravelKeyLoopCpp]
  | _, _, .cons k l p q hk hp hl => by
    have h1 := spells_tup hk
    have h2 := spellsL_loop hl
    cases k with
    | str s => simp [unravelTupCpp] at h1; subst h1; simp [unravelKeyLoopCpp, h2]
    | bad => cases hk
    | tup l' => simp [unravelKeyLoopCpp, h1, h2]


/-! ### views -/
theorem WF.tail {k : String} {v : Entry} {r : Kids} (h : WF (.node ((k, v) :: r))) : WF (.node r) := by
  cases h with
  | node _ hn hk =>
    simp at hn
    exact WF.node _ hn.2 (fun k' v' hm => hk k' v' (List.mem_cons_of_mem _ hm))

theorem WF.head {k : String} {v : Entry} {r : Kids} (h : WF (.node ((k, v) :: r))) : WF v := by
  cases h with
  | node _ hn hk => exact hk k v (by simp)

theorem WF.head_fresh {k : String} {v : Entry} {r : Kids} (h : WF (.node ((k, v) :: r))) : dget k r = none := by
  cases h with
  | node _ hn hk => simp at hn; exact (dget_none_iff k r).mpr (by simpa using hn.1)

theorem bound_cons (k : String) (v : Entry) (r : Kids) (p : Path) (e : Entry) (hw : WF (.node ((k, v) :: r))) :
    bound p e ((k, v) :: r) ↔
      (p = [k] ∧ e = v) ∨ (∃ sub p', v = .node sub ∧ p = k :: p' ∧ bound p' e sub) ∨ bound p e r := by
  have hf := hw.head_fresh
  cases p with
  | nil => simp [bound]
  | cons k' p' =>
    by_cases hk : k = k'
    · subst hk
      have hr : ¬ bound (k :: p') e r := by simp [bound, lookup_cons_node, hf]
      simp only [hr, or_false]
      cases p' with
      | nil => simp [bound, lookup_cons_node, dget, lookup]; exact eq_comm
      | cons a b =>
        cases v with
        | leaf nt x => simp [bound, lookup_cons_node, dget, lookup]
        | node sub => simp [bound, lookup_cons_node, dget]
    · have h1 : ¬ (k' :: p' = [k] ∧ e = v) := by intro h; simp at h; exact hk h.1.1.symm
      have h2 : ¬ (∃ sub p'', v = .node sub ∧ k' :: p' = k :: p'' ∧ bound p'' e sub) := by
        rintro ⟨_, _, _, h, _⟩; simp at h; exact hk h.1.symm
      simp only [h1, h2, false_or]
      simp [bound, lookup_cons_node, dget, hk]

theorem mem_iterHelper_go (lo nt : Bool) (kids : Kids) (pre q : Path) (hw : WF (.node kids)) :
    q ∈ iterHelper.go lo nt kids pre ↔
      ∃ p e, q = pre ++ p ∧ bound p e kids ∧ (!lo || e.isLeafFor nt) = true := by
  fun_induction iterHelper.go lo nt kids pre generalizing q
  · simp [bound, lookup_cons_node, dget]; intro p e _ hp; cases p <;> simp_all [lookup_cons_node, dget]
  · rename_i k v r pre full ih2 ih1
    have ih1' := ih1 q hw.tail
    simp only [List.mem_append, ih1']
    constructor
    · rintro ((h | h) | h)
      · cases v with
        | leaf nt' x => simp at h
        | node sub =>
          have := (ih2 q hw.head).mp h
          obtain ⟨p, e, rfl, hb, hf⟩ := this
          refine ⟨k :: p, e, by simp [full], ?_, hf⟩
          exact (bound_cons k _ r _ e hw).mpr (Or.inr (Or.inl ⟨sub, p, rfl, rfl, hb⟩))
      · split at h
        · simp at h; subst h
          rename_i hflag
          exact ⟨[k], v, rfl, (bound_cons k v r _ v hw).mpr (Or.inl ⟨rfl, rfl⟩), hflag⟩
        · simp at h
      · obtain ⟨p, e, rfl, hb, hf⟩ := h
        exact ⟨p, e, rfl, (bound_cons k v r p e hw).mpr (Or.inr (Or.inr hb)), hf⟩
    · rintro ⟨p, e, rfl, hb, hf⟩
      rcases (bound_cons k v r p e hw).mp hb with ⟨rfl, rfl⟩ | ⟨sub, p', rfl, rfl, hb'⟩ | hb'
      · left; right; simp [hf, full]
      · left; left
        exact (ih2 _ hw.head).mpr ⟨p', e, by simp [full], hb', hf⟩
      · right; exact ⟨p, e, rfl, hb', hf⟩


theorem mem_iterItems_go (lo nt : Bool) (kids : Kids) (pre q : Path) (e : Entry) (hw : WF (.node kids)) :
    (q, e) ∈ iterItems.go lo nt kids pre ↔
      ∃ p, q = pre ++ p ∧ bound p e kids ∧ (!lo || e.isLeafFor nt) = true := by
  fun_induction iterItems.go lo nt kids pre generalizing q
  · simp [bound, lookup_cons_node, dget]; intro p _ hp; cases p <;> simp_all [lookup_cons_node, dget]
  · rename_i k v r pre full ih2 ih1
    have ih1' := ih1 q hw.tail
    simp only [List.mem_append, ih1']
    constructor
    · rintro ((h | h) | h)
      · split at h
        · simp at h; obtain ⟨rfl, rfl⟩ := h
          rename_i hflag
          exact ⟨[k], rfl, (bound_cons k e r _ e hw).mpr (Or.inl ⟨rfl, rfl⟩), hflag⟩
        · simp at h
      · cases v with
        | leaf nt' x => simp at h
        | node sub =>
          have := (ih2 q hw.head).mp h
          obtain ⟨p, rfl, hb, hf⟩ := this
          refine ⟨k :: p, by simp [full], ?_, hf⟩
          exact (bound_cons k _ r _ e hw).mpr (Or.inr (Or.inl ⟨sub, p, rfl, rfl, hb⟩))
      · obtain ⟨p, rfl, hb, hf⟩ := h
        exact ⟨p, rfl, (bound_cons k v r p e hw).mpr (Or.inr (Or.inr hb)), hf⟩
    · rintro ⟨p, rfl, hb, hf⟩
      rcases (bound_cons k v r p e hw).mp hb with ⟨rfl, rfl⟩ | ⟨sub, p', rfl, rfl, hb'⟩ | hb'
      · left; left; simp [hf, full]
      · left; right
        exact (ih2 _ hw.head).mpr ⟨p', by simp [full], hb', hf⟩
      · right; exact ⟨p, rfl, hb', hf⟩

theorem insertBefore_perm {α} (f : α → String) (x : α) (l : List α) : (sortBy.insertBefore f x l).Perm (x :: l) := by
  induction l with
  | nil => simp [sortBy.insertBefore]
  | cons y r ih =>
    simp only [sortBy.insertBefore]
    split
    · exact (List.Perm.cons y ih).trans (List.Perm.swap x y r)
    · exact List.Perm.refl _

theorem sortBy_perm {α} (f : α → String) (l : List α) : (sortBy f l).Perm l := by
  induction l with
  | nil => simp [sortBy]
  | cons x r ih =>
    have : sortBy f (x :: r) = sortBy.insertBefore f x (sortBy f r) := by simp [sortBy]
    rw [this]
    exact (insertBefore_perm f x _).trans (List.Perm.cons x ih)

theorem mem_sortBy {α} (f : α → String) (l : List α) (x : α) : x ∈ sortBy f l ↔ x ∈ l :=
  (sortBy_perm f l).mem_iff

theorem mem_kids_iff_dget {k : String} {e : Entry} {kids : Kids} (hn : (kids.map (·.1)).Nodup) :
    (k, e) ∈ kids ↔ dget k kids = some e := by
  induction kids with
  | nil => simp [dget]
  | cons a r ih =>
    obtain ⟨k', v'⟩ := a
    simp at hn
    simp only [dget, List.mem_cons]
    split
    · rename_i h; subst h
      constructor
      · rintro (h | h)
        · simp at h; simp [h]
        · exact absurd h (hn.1 e)
      · intro h; simp at h; simp [h]
    · rename_i h
      rw [← ih hn.2]
      constructor
      · rintro (h' | h')
        · simp at h'; exact absurd h'.1.symm h
        · exact h'
      · intro h'; exact Or.inr h'


end TdVerif.C04
