/-
  C04 helper lemmas: the storage-dict primitives, the nested-dict laws of `lookup/insert/remove`,
  and the refinement of the transcribed primitives (`getTuple/setTuple/delTuple/containsNested`).
-/
import TdVerif.Model.C04Tree
import TdVerif.Model.C04Spec

namespace TdVerif.C04
open TdVerif TdVerif.Key

/-! ### storage dict -/

theorem dget_dset_same (k : String) (v : Entry) (l : Kids) : dget k (dset k v l) = some v := by
  induction l with
  | nil => simp [dset, dget]
  | cons a r ih => obtain ⟨k', v'⟩ := a; simp only [dset]; split <;> simp_all [dget]

theorem dget_dset_other {k k' : String} (v : Entry) (h : k ≠ k') (l : Kids) : dget k' (dset k v l) = dget k' l := by
  induction l with
  | nil => simp [dset, dget, h]
  | cons a r ih => obtain ⟨k'', v''⟩ := a; simp only [dset]; split <;> simp_all [dget]

theorem dget_ddel_other {k k' : String} (h : k ≠ k') (l : Kids) : dget k' (ddel k l) = dget k' l := by
  induction l with
  | nil => simp [ddel, dget]
  | cons a r ih => obtain ⟨k'', v''⟩ := a; simp only [ddel]; split <;> simp_all [dget]

theorem dget_isSome_iff_mem (k : String) (l : Kids) : (dget k l).isSome ↔ k ∈ l.map (·.1) := by
  induction l with
  | nil => simp [dget]
  | cons a r ih => obtain ⟨k', v'⟩ := a; simp only [dget]; split <;> simp_all <;> grind

theorem dget_none_iff (k : String) (l : Kids) : dget k l = none ↔ k ∉ l.map (·.1) := by
  have := dget_isSome_iff_mem k l
  cases h : dget k l <;> simp_all

theorem dget_mem {k : String} {v : Entry} {l : Kids} (h : dget k l = some v) : (k, v) ∈ l := by
  induction l with
  | nil => simp [dget] at h
  | cons a r ih => obtain ⟨k', v'⟩ := a; simp only [dget] at h; split at h <;> simp_all

theorem dget_ddel_same (k : String) (l : Kids) (h : (l.map (·.1)).Nodup) : dget k (ddel k l) = none := by
  induction l with
  | nil => simp [ddel, dget]
  | cons a r ih =>
    obtain ⟨k', v'⟩ := a
    simp only [ddel]; split
    · simp_all [dget_none_iff]
    · simp_all [dget]

theorem keys_dset (k : String) (v : Entry) (l : Kids) :
    (dset k v l).map (·.1) = if k ∈ l.map (·.1) then l.map (·.1) else l.map (·.1) ++ [k] := by
  induction l with
  | nil => simp [dset]
  | cons a r ih => obtain ⟨k', v'⟩ := a; simp only [dset]; split <;> simp_all <;> grind

theorem nodup_dset (k : String) (v : Entry) (l : Kids) (h : (l.map (·.1)).Nodup) :
    ((dset k v l).map (·.1)).Nodup := by
  rw [keys_dset]
  split
  · exact h
  · rename_i hk
    refine List.nodup_append.mpr ⟨h, by simp, ?_⟩
    intro a ha b hb; simp at hb; subst hb; intro e; subst e; exact hk ha

theorem mem_dset {k : String} {v : Entry} {l : Kids} {k' : String} {v' : Entry}
    (h : (k', v') ∈ dset k v l) : (k', v') ∈ l ∨ (k' = k ∧ v' = v) := by
  induction l with
  | nil => simp [dset] at h; exact Or.inr h
  | cons a r ih =>
    obtain ⟨k'', v''⟩ := a
    simp only [dset] at h; split at h <;> simp_all <;> grind

theorem mem_ddel {k : String} {l : Kids} {kv : String × Entry} (h : kv ∈ ddel k l) : kv ∈ l := by
  induction l with
  | nil => simp [ddel] at h
  | cons a r ih =>
    obtain ⟨k'', v''⟩ := a
    simp only [ddel] at h; split at h <;> simp_all <;> grind

theorem keys_ddel_sublist (k : String) (l : Kids) : ((ddel k l).map (·.1)).Sublist (l.map (·.1)) := by
  induction l with
  | nil => simp [ddel]
  | cons a r ih => obtain ⟨k', v'⟩ := a; simp only [ddel]; split <;> simp_all

theorem nodup_ddel (k : String) (l : Kids) (h : (l.map (·.1)).Nodup) : ((ddel k l).map (·.1)).Nodup :=
  List.Nodup.sublist (keys_ddel_sublist k l) h

/-! ### well-formedness is preserved by the primitives -/

theorem WF.kids_nodup {kids : Kids} (h : WF (.node kids)) : (kids.map (·.1)).Nodup := by
  cases h; assumption

theorem WF.child {kids : Kids} (h : WF (.node kids)) {k : String} {c : Entry} (hc : dget k kids = some c) : WF c := by
  cases h with
  | node _ _ hk => exact hk k c (dget_mem hc)

theorem WF.dset {kids : Kids} (h : WF (.node kids)) (k : String) {c : Entry} (hc : WF c) : WF (.node (dset k c kids)) := by
  cases h with
  | node _ hn hk =>
    refine WF.node _ (nodup_dset k c kids hn) ?_
    intro k' v' hm
    rcases mem_dset hm with h1 | ⟨_, h2⟩
    · exact hk k' v' h1
    · subst h2; exact hc

theorem WF.ddel {kids : Kids} (h : WF (.node kids)) (k : String) : WF (.node (ddel k kids)) := by
  cases h with
  | node _ hn hk =>
    exact WF.node _ (nodup_ddel k kids hn) (fun k' v' hm => hk k' v' (mem_ddel hm))

theorem WF.empty : WF (.node []) := WF.node [] (by simp) (by simp)

/-! ### nested-dict laws -/

theorem lookup_cons_node (k : String) (rest : Path) (kids : Kids) :
    lookup (k :: rest) (.node kids) = (dget k kids).bind (lookup rest) := by
  simp only [lookup]; cases dget k kids <;> rfl

theorem lookup_leaf_cons (k : String) (rest : Path) (nt : Bool) (v : Nat) : lookup (k :: rest) (.leaf nt v) = none := by
  simp [lookup]

theorem lookup_empty_node (k : String) (rest : Path) : lookup (k :: rest) (.node []) = none := by
  simp [lookup, dget]

theorem lookup_insert_same (p : Path) (v t t' : Entry) (h : insert p v t = some t') : lookup p t' = some v := by
  fun_induction insert p v t generalizing t' <;> simp_all
  · subst h; simp [lookup_cons_node, dget_dset_same, lookup]
  · obtain ⟨a, ha, rfl⟩ := h; simp [lookup_cons_node, dget_dset_same]; rename_i ih; exact ih a ha
  · obtain ⟨a, ha, rfl⟩ := h; simp [lookup_cons_node, dget_dset_same]; rename_i ih; exact ih a ha

theorem isPrefix_nil_right (p : Path) : isPrefix p [] = (p == []) := by cases p <;> simp [isPrefix]

theorem lookup_insert_other (p : Path) (v t t' : Entry) (h : insert p v t = some t') (q : Path)
    (h1 : isPrefix p q = false) (h2 : isPrefix q p = false) : lookup q t' = lookup q t := by
  fun_induction insert p v t generalizing t' q <;> simp_all
  · -- [k]
    subst h
    cases q with
    | nil => simp [isPrefix] at h2
    | cons k' q' =>
      simp [isPrefix] at h1
      rename_i k v kids
      have : k ≠ k' := by intro e; subst e; simp at h1
      simp [lookup_cons_node, dget_dset_other _ this]
  · obtain ⟨a, ha, rfl⟩ := h
    rename_i k k2 rest v kids hk ih
    cases q with
    | nil => simp [isPrefix] at h2
    | cons k' q' =>
      by_cases e : k = k'
      · subst e
        simp [isPrefix] at h1 h2
        simp [lookup_cons_node, dget_dset_same, hk]
        rw [ih a ha q' h1 h2]
        cases q' with
        | nil => simp [isPrefix] at h2
        | cons _ _ => simp [lookup_empty_node]
      · simp [lookup_cons_node, dget_dset_other _ e]
  · obtain ⟨a, ha, rfl⟩ := h
    rename_i k k2 rest v kids sub hk ih
    cases q with
    | nil => simp [isPrefix] at h2
    | cons k' q' =>
      by_cases e : k = k'
      · subst e
        simp [isPrefix] at h1 h2
        simp [lookup_cons_node, dget_dset_same, hk]
        exact ih a ha q' h1 h2
      · simp [lookup_cons_node, dget_dset_other _ e]



theorem lookup_remove_same (p : Path) (t t' : Entry) (hw : WF t) (h : remove p t = some t') : lookup p t' = none := by
  fun_induction remove p t generalizing t' <;> simp_all
  · obtain ⟨_, rfl⟩ := h
    simp [lookup_cons_node, dget_ddel_same _ _ hw.kids_nodup]
  · obtain ⟨a, ha, rfl⟩ := h
    rename_i k k2 rest kids c hk ih
    simp [lookup_cons_node, dget_dset_same]
    exact ih a (hw.child hk) ha

theorem lookup_remove_other (p : Path) (t t' : Entry) (h : remove p t = some t') (q : Path)
    (h1 : isPrefix p q = false) (h2 : isPrefix q p = false) : lookup q t' = lookup q t := by
  fun_induction remove p t generalizing t' q <;> simp_all
  · obtain ⟨_, rfl⟩ := h
    cases q with
    | nil => simp [isPrefix] at h2
    | cons k' q' =>
      simp [isPrefix] at h1
      simp [lookup_cons_node, dget_ddel_other h1]
  · obtain ⟨a, ha, rfl⟩ := h
    rename_i k k2 rest kids c hk ih
    cases q with
    | nil => simp [isPrefix] at h2
    | cons k' q' =>
      by_cases e : k = k'
      · subst e
        simp [isPrefix] at h1 h2
        simp [lookup_cons_node, dget_dset_same, hk]
        exact ih a ha q' h1 h2
      · simp [lookup_cons_node, dget_dset_other _ e]

theorem remove_isSome (p : Path) (t : Entry) : (remove p t).isSome = has p t := by
  fun_induction remove p t <;> simp_all [has, lookup_cons_node, lookup]
  all_goals (first | done | (rename_i k kids h; cases hd : dget k kids <;> simp_all [lookup]))

theorem throughLeaf_empty (p : Path) : throughLeaf p (.node []) = false := by
  match p with
  | [] => simp [throughLeaf]
  | [_] => simp [throughLeaf]
  | _ :: _ :: _ => simp [throughLeaf, dget]

theorem insert_eq_none_iff (p : Path) (v t : Entry) : insert p v t = none ↔ (p = [] ∨ throughLeaf p t = true) := by
  fun_induction insert p v t <;> simp_all [throughLeaf, throughLeaf_empty]

theorem lookup_none_of_throughLeaf (p : Path) (t : Entry) (h : throughLeaf p t = true) : lookup p t = none := by
  fun_induction throughLeaf p t <;> simp_all [lookup_cons_node, lookup]

theorem wf_insert (p : Path) (v t t' : Entry) (hw : WF t) (hv : WF v) (h : insert p v t = some t') : WF t' := by
  fun_induction insert p v t generalizing t' <;> simp_all
  · subst h; exact hw.dset _ hv
  · obtain ⟨a, ha, rfl⟩ := h; rename_i ih; exact hw.dset _ (ih a WF.empty ha)
  · obtain ⟨a, ha, rfl⟩ := h; rename_i hk ih; exact hw.dset _ (ih a (hw.child hk) ha)

theorem wf_remove (p : Path) (t t' : Entry) (hw : WF t) (h : remove p t = some t') : WF t' := by
  fun_induction remove p t generalizing t' <;> simp_all
  · obtain ⟨_, rfl⟩ := h; exact hw.ddel _
  · obtain ⟨a, ha, rfl⟩ := h; rename_i hk ih; exact hw.dset _ (ih a (hw.child hk) ha)

theorem wf_lookup (p : Path) (t c : Entry) (hw : WF t) (h : lookup p t = some c) : WF c := by
  fun_induction lookup p t <;> simp_all
  rename_i hk ih; exact ih (hw.child hk)


/-! ### the transcribed primitives refine the nested-dict primitives -/

theorem getTuple_ok (p : Path) (t : Entry) (r : Option Entry) (h : getTuple p t = .ok r) : r = lookup p t := by
  fun_induction getTuple p t <;> simp_all [lookup_cons_node, lookup]
  all_goals (subst h; first | rfl | (cases dget _ _ <;> rfl))

theorem getTuple_error (p : Path) (t : Entry) (e : Err) (h : getTuple p t = .error e) :
    p = [] ∨ throughLeaf p t = true := by
  fun_induction getTuple p t <;> simp_all [throughLeaf]

theorem getTuple_eq (p : Path) (t : Entry) (hp : p ≠ []) (hl : throughLeaf p t = false) :
    getTuple p t = .ok (lookup p t) := by
  cases h : getTuple p t with
  | ok r => rw [getTuple_ok p t r h]
  | error e => rcases getTuple_error p t e h with h1 | h1 <;> simp_all

theorem setTuple_toOption (p : Path) (v t : Entry) : (setTuple p v t).toOption = insert p v t := by
  fun_induction setTuple p v t <;> simp_all [insert, Except.toOption]
  all_goals (rename_i ih; rw [← ih]; cases setTuple _ _ _ <;> simp [Except.map, Except.toOption])

theorem delTuple_toOption (p : Path) (t : Entry) : (delTuple p t).toOption = remove p t := by
  fun_induction delTuple p t <;> simp_all [remove, Except.toOption]
  all_goals (first | done | (rename_i ih; rw [← ih]; cases delTuple _ _ <;> simp [Except.map, Except.toOption]))



/-- the entry bound to `x` inside `e` when `e` is a node -/
def childOf (x : String) : Entry → Option Entry
  | .node s => dget x s
  | .leaf .. => none

theorem lookup_snoc (q : Path) (x : String) (t : Entry) :
    lookup (q ++ [x]) t = (lookup q t).bind (childOf x) := by
  induction q generalizing t with
  | nil =>
    cases t with
    | leaf nt v => simp [lookup, childOf]
    | node kids => simp [lookup_cons_node, lookup, childOf]
  | cons k q ih =>
    cases t with
    | leaf nt v => simp [lookup]
    | node kids =>
      simp [lookup_cons_node]
      cases dget k kids with
      | none => simp
      | some c => simp [ih]

theorem containsNested_eq (p : Path) (kids : Kids) (hp : p ≠ []) :
    containsNested p (.node kids) = .ok (has p (.node kids)) := by
  match p with
  | [] => simp at hp
  | [k] => simp [containsNested, has, lookup_cons_node, lookup]; cases dget k kids <;> simp
  | k :: k2 :: rest =>
    simp only [containsNested, has]
    cases hk : dget k kids with
    | none => simp [lookup_cons_node, hk]
    | some c =>
      cases c with
      | leaf nt v => simp [lookup_cons_node, hk, lookup]
      | node sub =>
        cases rest with
        | nil => simp [lookup_cons_node, hk, lookup]; cases dget k2 sub <;> simp
        | cons r1 r2 =>
          simp only []
          have hsplit : (k2 :: r1 :: r2) = (k2 :: r1 :: r2).dropLast ++ [(k2 :: r1 :: r2).getLast (by simp)] :=
            (List.dropLast_concat_getLast (by simp)).symm
          have hl : lookup (k :: k2 :: r1 :: r2) (.node kids) =
              (lookup ((k2 :: r1 :: r2).dropLast) (.node sub)).bind (childOf ((k2 :: r1 :: r2).getLast (by simp))) := by
            rw [lookup_cons_node, hk]; simp only [Option.bind]
            conv => lhs; rw [hsplit]
            exact lookup_snoc _ _ _
          rw [hl]
          cases hg : getTuple ((k2 :: r1 :: r2).dropLast) (.node sub) with
          | error e =>
            have := getTuple_error _ _ _ hg
            rcases this with h1 | h1
            · simp at h1
            · have h0 := lookup_none_of_throughLeaf _ _ h1
              rw [h0]; simp
          | ok r =>
            have := getTuple_ok _ _ _ hg
            subst this
            cases hl2 : lookup ((k2 :: r1 :: r2).dropLast) (.node sub) with
            | none => simp
            | some e =>
              cases e with
              | leaf nt v => simp [childOf]
              | node s2 => simp [childOf]


/-! ### derived operations -/

theorem throughLeaf_false_of_lookup {p : Path} {t e : Entry} (h : lookup p t = some e) : throughLeaf p t = false := by
  cases hl : throughLeaf p t with
  | false => rfl
  | true => rw [lookup_none_of_throughLeaf p t hl] at h; simp at h

theorem delTuple_of_remove {p : Path} {t t' : Entry} (h : remove p t = some t') : delTuple p t = .ok t' := by
  have := delTuple_toOption p t
  rw [h] at this
  cases hd : delTuple p t <;> simp_all [Except.toOption]

theorem delTuple_error_of_remove {p : Path} {t : Entry} (h : remove p t = none) : ∃ e, delTuple p t = .error e := by
  have := delTuple_toOption p t
  rw [h] at this
  cases hd : delTuple p t <;> simp_all [Except.toOption]

theorem setTuple_of_insert {p : Path} {v t t' : Entry} (h : insert p v t = some t') : setTuple p v t = .ok t' := by
  have := setTuple_toOption p v t
  rw [h] at this
  cases hd : setTuple p v t <;> simp_all [Except.toOption]

theorem setTuple_error_of_insert {p : Path} {v t : Entry} (h : insert p v t = none) : ∃ e, setTuple p v t = .error e := by
  have := setTuple_toOption p v t
  rw [h] at this
  cases hd : setTuple p v t <;> simp_all [Except.toOption]

theorem remove_some_of_lookup {p : Path} {t e : Entry} (hp : p ≠ []) (h : lookup p t = some e) : ∃ t', remove p t = some t' := by
  have := remove_isSome p t
  simp [has, hp, h] at this
  exact Option.isSome_iff_exists.mp this

theorem remove_none_of_lookup {p : Path} {t : Entry} (h : lookup p t = none) : remove p t = none := by
  have := remove_isSome p t
  simp [has, h] at this
  exact this

theorem getTuple_error_of_throughLeaf (p : Path) (t : Entry) (h : throughLeaf p t = true) (hn : throughNt p t = false) :
    ∃ e, getTuple p t = .error e := by
  fun_induction getTuple p t <;> simp_all [throughLeaf, throughNt]

theorem delTuple_error_class (p : Path) (t : Entry) (e : Err) (h : delTuple p t = .error e) (hp : p ≠ [])
    (hl : throughLeaf p t = false) : e = .key := by
  induction p generalizing t e with
  | nil => simp at hp
  | cons k r ih =>
    cases t with
    | leaf nt v => simp [throughLeaf] at hl
    | node kids =>
      cases r with
      | nil =>
        simp only [delTuple] at h
        split at h <;> simp_all
      | cons k2 rest =>
        simp only [delTuple] at h
        cases hk : dget k kids with
        | none => simp [hk] at h; exact h.symm
        | some c =>
          simp only [hk] at h
          simp only [throughLeaf, hk] at hl
          cases hd : delTuple (k2 :: rest) c with
          | ok x => simp [hd, Except.map] at h
          | error e' =>
            simp [hd, Except.map] at h; subst h
            exact ih c e' hd (by simp) hl

theorem popT_cons (k : String) (r : Path) (d : Bool) (t : Entry) : popT (k :: r) d t =
    match getTuple (k :: r) t with
    | .error e => (t, .err e)
    | .ok none =>
      if d then
        match delTuple (k :: r) t with
        | .ok t' => (t', .val none)
        | .error .key => (t, .val none)
        | .error e => (t, .err e)
      else (t, .err .key)
    | .ok (some v) =>
      match delTuple (k :: r) t with
      | .ok t' => (t', .val (some v))
      | .error .key => if d then (t, .val (some v)) else (t, .err .key)
      | .error e => (t, .err e) := by
  rfl

/-- `pop` -/
theorem pop_refines_aux (p : Path) (d : Bool) (t : Entry) (hnt : throughNt p t = false ∨ d = false) :
    (popT p d t).1 = (specPop p d t).1 ∧ (popT p d t).2.erase = (specPop p d t).2.erase := by
  cases p with
  | nil => simp [popT, specPop]
  | cons k r =>
    rw [popT_cons]
    simp only [specPop, reduceCtorEq, if_false]
    cases hl : lookup (k :: r) t with
    | some v =>
      have h1 := getTuple_eq (k :: r) t (by simp) (throughLeaf_false_of_lookup hl)
      obtain ⟨t', ht'⟩ := remove_some_of_lookup (by simp) hl
      simp [h1, hl, ht', delTuple_of_remove ht']
    | none =>
      have hrm := remove_none_of_lookup hl
      obtain ⟨e, he⟩ := delTuple_error_of_remove hrm
      cases htl : throughLeaf (k :: r) t with
      | true =>
        cases hn : throughNt (k :: r) t with
        | false =>
          obtain ⟨e', he'⟩ := getTuple_error_of_throughLeaf _ _ htl hn
          simp [he', Out.erase]
        | true =>
          have hd : d = false := by rcases hnt with h | h <;> simp_all
          subst hd
          cases hg : getTuple (k :: r) t with
          | error e' => simp [Out.erase]
          | ok r' =>
            have := getTuple_ok _ _ _ hg
            rw [hl] at this; subst this
            simp [Out.erase]
      | false =>
        have h1 := getTuple_eq (k :: r) t (by simp) htl
        have hk := delTuple_error_class _ _ _ he (by simp) htl
        subst hk
        cases d <;> simp [h1, hl, he]



theorem containsFlat_single (k : String) (kids : Kids) : containsFlat [k] (.node kids) = .ok (has [k] (.node kids)) := by
  simp [containsFlat, has, lookup_cons_node, lookup]; cases dget k kids <;> simp

/-- `setdefault` -/
theorem setDefault_refines_aux (p : Path) (isTuple : Bool) (dflt : Entry) (kids : Kids) (hp : p ≠ [])
    (hstr : isTuple = false → p.length = 1) :
    (setDefault p isTuple dflt (.node kids)).1 = (specSetDefault p dflt (.node kids)).1 ∧
    (setDefault p isTuple dflt (.node kids)).2.erase = (specSetDefault p dflt (.node kids)).2.erase := by
  have hc : (if isTuple then containsNested p (.node kids) else containsFlat p (.node kids)) = .ok (has p (.node kids)) := by
    cases isTuple with
    | true => simp [containsNested_eq p kids hp]
    | false =>
      have := hstr rfl
      match p, this with
      | [k], _ => simp [containsFlat_single]
  simp only [setDefault, hc, specSetDefault, hp, if_false]
  cases hl : lookup p (.node kids) with
  | some v =>
    simp [has, hp, hl, getTuple_eq p _ hp (throughLeaf_false_of_lookup hl)]
  | none =>
    simp only [has, hl]
    cases hi : insert p dflt (.node kids) with
    | none =>
      obtain ⟨e, he⟩ := setTuple_error_of_insert hi
      simp [he, Out.erase, hp]
    | some t' =>
      have h2 := lookup_insert_same _ _ _ _ hi
      simp [setTuple_of_insert hi, getTuple_eq p t' hp (throughLeaf_false_of_lookup h2), h2, hp]

theorem clearLoop_kids (kids : Kids) : clearLoop (kids.map (·.1)) (.node kids) = (.node [], .ok) := by
  induction kids with
  | nil => simp [clearLoop]
  | cons a r ih =>
    obtain ⟨k, v⟩ := a
    simp [clearLoop, delTuple, dget, ddel, ih]

/-- `clear` -/
theorem clear_refines_aux (kids : Kids) : clearT (.node kids) = specClear (.node kids) := by
  simp [clearT, rootKeys, specClear, clearLoop_kids]


/-! ### rename: remove and insert commute -/

theorem dset_dset_same (k : String) (a b : Entry) (l : Kids) : dset k a (dset k b l) = dset k a l := by
  induction l with
  | nil => simp [dset]
  | cons x r ih => obtain ⟨k', v'⟩ := x; simp only [dset]; split <;> simp_all [dset]

theorem ddel_dset_comm {k k' : String} (h : k ≠ k') (v : Entry) (l : Kids) :
    ddel k (dset k' v l) = dset k' v (ddel k l) := by
  induction l with
  | nil => simp [dset, ddel, h]; intro e; exact absurd e.symm h
  | cons x r ih =>
    obtain ⟨k'', v''⟩ := x
    simp only [dset, ddel]
    split <;> split <;> simp_all [dset, ddel]

theorem dset_dset_comm {k k' : String} (h : k ≠ k') (a b : Entry) (l : Kids) (hk : (dget k l).isSome) :
    dset k a (dset k' b l) = dset k' b (dset k a l) := by
  induction l with
  | nil => simp [dget] at hk
  | cons x r ih =>
    obtain ⟨k'', v''⟩ := x
    simp only [dget] at hk
    simp only [dset]
    split <;> split <;> simp_all [dset]

theorem remove_shape {p : Path} {t t' : Entry} (h : remove p t = some t') : ∃ kids kids', t = .node kids ∧ t' = .node kids' := by
  fun_induction remove p t <;> simp_all
  · obtain ⟨_, rfl⟩ := h; exact ⟨_, rfl⟩
  · obtain ⟨a, _, rfl⟩ := h; exact ⟨_, rfl⟩

/-- (L1) once `old` is removed, writing below it cannot fail -/
theorem throughLeaf_after_remove (old ext : Path) (t t1 : Entry) (hw : WF t) (h : remove old t = some t1)
    (hext : ext ≠ []) : throughLeaf (old ++ ext) t1 = false := by
  fun_induction remove old t generalizing t1 <;> simp_all
  · obtain ⟨_, rfl⟩ := h
    rename_i k kids hk
    cases ext with
    | nil => simp at hext
    | cons e1 e2 => simp [throughLeaf, dget_ddel_same _ _ hw.kids_nodup]
  · obtain ⟨a, ha, rfl⟩ := h
    rename_i k k2 rest kids c hk ih
    simp [throughLeaf, dget_dset_same]
    exact ih a (hw.child hk) ha



/-- (L2) writing at a proper prefix of `old` overwrites whatever removing `old` changed -/
theorem insert_after_remove_below (new old : Path) (v t t1 : Entry) (h : remove old t = some t1)
    (hpre : isPrefix new old = true) (hne : new ≠ old) : insert new v t1 = insert new v t := by
  induction new generalizing old t t1 with
  | nil => simp [insert]
  | cons k nrest ih =>
    cases old with
    | nil => simp [isPrefix] at hpre
    | cons ko orest =>
      simp [isPrefix] at hpre
      obtain ⟨rfl, hpre⟩ := hpre
      have hne' : nrest ≠ orest := by intro e; subst e; exact hne rfl
      cases orest with
      | nil => cases nrest <;> simp_all [isPrefix]
      | cons o2 orest =>
        obtain ⟨kids, kids', rfl, rfl⟩ := remove_shape h
        simp only [remove] at h
        cases hk : dget k kids with
        | none => simp [hk] at h
        | some c =>
          simp [hk] at h
          obtain ⟨c1, hc1, hk'⟩ := h
          subst hk'
          cases nrest with
          | nil => simp [insert, dset_dset_same]
          | cons n2 nrest =>
            obtain ⟨sub, sub', rfl, rfl⟩ := remove_shape hc1
            simp only [insert, dget_dset_same, hk]
            rw [ih (o2 :: orest) (.node sub) (.node sub') hc1 hpre hne']
            cases insert (n2 :: nrest) v (.node sub) <;> simp [dset_dset_same]



theorem dget_isSome_of_eq {k : String} {l : Kids} {c : Entry} (h : dget k l = some c) : (dget k l).isSome = true := by simp [h]

/-- (L3) for unrelated paths, removing `old` after writing `new` = writing `new` after removing `old` -/
theorem insert_remove_comm (new old : Path) (v t t1 : Entry) (h : remove old t = some t1)
    (h1 : isPrefix old new = false) (h2 : isPrefix new old = false) :
    (insert new v t).bind (remove old) = insert new v t1 := by
  induction new generalizing old t t1 with
  | nil => simp [isPrefix] at h2
  | cons kn nrest ih =>
    cases old with
    | nil => simp [isPrefix] at h1
    | cons ko orest =>
      obtain ⟨kids, kids', rfl, rfl⟩ := remove_shape h
      by_cases hkk : ko = kn
      · -- same first component: both paths continue below the same child
        subst hkk
        simp [isPrefix] at h1 h2
        cases orest with
        | nil => simp [isPrefix] at h1
        | cons o2 orest =>
          cases nrest with
          | nil => simp [isPrefix] at h2
          | cons n2 nrest =>
            simp only [remove] at h
            cases hk : dget ko kids with
            | none => simp [hk] at h
            | some c =>
              simp [hk] at h
              obtain ⟨c1, hc1, hk'⟩ := h
              subst hk'
              obtain ⟨sub, sub', rfl, rfl⟩ := remove_shape hc1
              have ih' := ih (o2 :: orest) (.node sub) (.node sub') hc1 h1 h2
              simp only [insert, hk, dget_dset_same]
              rw [← ih']
              cases hi : insert (n2 :: nrest) v (.node sub) with
              | none => simp
              | some x =>
                simp [remove, dget_dset_same]
                cases remove (o2 :: orest) x <;> simp [dset_dset_same]
      · -- different first components
        have hkk' : kn ≠ ko := fun e => hkk e.symm
        cases orest with
        | nil =>
          -- old = [ko]
          simp only [remove] at h
          split at h
          · rename_i hsome
            simp at h; subst h
            cases nrest with
            | nil =>
              simp [insert, remove, dget_dset_other _ hkk', hsome, ddel_dset_comm hkk]
            | cons n2 nrest =>
              simp only [insert, dget_ddel_other hkk]
              cases hkn : dget kn kids with
              | none =>
                simp only []
                cases insert (n2 :: nrest) v (.node []) <;> simp [remove, dget_dset_other _ hkk', hsome, ddel_dset_comm hkk]
              | some c =>
                cases c with
                | leaf nt x => simp
                | node sub =>
                  simp only []
                  cases insert (n2 :: nrest) v (.node sub) <;> simp [remove, dget_dset_other _ hkk', hsome, ddel_dset_comm hkk]
          · simp at h
        | cons o2 orest =>
          simp only [remove] at h
          cases hk : dget ko kids with
          | none => simp [hk] at h
          | some c =>
            simp [hk] at h
            obtain ⟨c1, hc1, hk'⟩ := h
            subst hk'
            have hsome := dget_isSome_of_eq hk
            cases nrest with
            | nil =>
              simp [insert, remove, dget_dset_other _ hkk', hk, hc1, dset_dset_comm hkk _ _ _ hsome]
            | cons n2 nrest =>
              simp only [insert, dget_dset_other _ hkk]
              cases hkn : dget kn kids with
              | none =>
                simp only []
                cases insert (n2 :: nrest) v (.node []) <;>
                  simp [remove, dget_dset_other _ hkk', hk, hc1, dset_dset_comm hkk _ _ _ hsome]
              | some c' =>
                cases c' with
                | leaf nt x => simp
                | node sub =>
                  simp only []
                  cases insert (n2 :: nrest) v (.node sub) <;>
                    simp [remove, dget_dset_other _ hkk', hk, hc1, dset_dset_comm hkk _ _ _ hsome]



theorem isPrefix_iff_append (p q : Path) : isPrefix p q = true ↔ ∃ ext, q = p ++ ext := by
  induction p generalizing q with
  | nil => simp [isPrefix]
  | cons a p ih =>
    cases q with
    | nil => simp [isPrefix]
    | cons b q =>
      simp [isPrefix, ih]
      intro _ _; exact eq_comm

theorem has_eq_isSome {p : Path} (hp : p ≠ []) (t : Entry) : has p t = (lookup p t).isSome := by
  simp [has, hp]

/-- `rename_key_` -/
theorem rename_refines_aux (old new : Path) (safe : Bool) (kids : Kids) (hw : WF (.node kids)) :
    (renameKey old new safe (.node kids)).1 = (specRename old new safe (.node kids)).1 ∧
    (renameKey old new safe (.node kids)).2.erase = (specRename old new safe (.node kids)).2.erase := by
  unfold renameKey specRename
  by_cases h0 : old = [] ∨ new = []
  · simp [h0, Out.erase]
  · simp only [h0, if_false]
    have ho : old ≠ [] := fun e => h0 (Or.inl e)
    have hn : new ≠ [] := fun e => h0 (Or.inr e)
    by_cases heq : old = new
    · subst heq
      simp only [if_true]
      have hc : (if old.length = 1 then containsFlat old (.node kids) else containsNested old (.node kids))
          = .ok (has old (.node kids)) := by
        split
        · rename_i hl
          match old, hl with
          | [k], _ => exact containsFlat_single k kids
        · exact containsNested_eq old kids ho
      rw [hc, has_eq_isSome ho]
      cases lookup old (.node kids) <;> simp [Out.erase]
    · simp only [heq, if_false]
      have hs : (if safe then containsNested new (.node kids) else Except.ok false) = .ok (safe && has new (.node kids)) := by
        cases safe <;> simp [containsNested_eq new kids hn]
      rw [hs]
      cases hsafe : (safe && has new (.node kids)) with
      | true =>
        simp only []
        cases lookup old (.node kids) <;> simp [Out.erase]
      | false =>
        simp only []
        cases hl : lookup old (.node kids) with
        | none =>
          have hg : ∀ r, getTuple old (.node kids) = .ok r → r = none := by
            intro r hr; rw [getTuple_ok _ _ _ hr, hl]
          cases hgt : getTuple old (.node kids) with
          | error e => simp [Out.erase]
          | ok r => have := hg r hgt; subst this; simp [Out.erase]
        | some v =>
          have hgt := getTuple_eq old (.node kids) ho (throughLeaf_false_of_lookup hl)
          obtain ⟨t1, ht1⟩ := remove_some_of_lookup ho hl
          rw [hgt, hl]
          simp only [ht1]
          by_cases hpre : isPrefix old new = true
          · -- the new key extends the old one
            simp only [hpre, if_true, delTuple_of_remove ht1]
            obtain ⟨ext, hext⟩ := (isPrefix_iff_append old new).mp hpre
            have hext' : ext ≠ [] := by intro e; subst e; simp at hext; exact heq hext.symm
            have htl := throughLeaf_after_remove old ext _ t1 hw ht1 hext'
            rw [← hext] at htl
            cases hi : insert new v t1 with
            | none =>
              have := (insert_eq_none_iff new v t1).mp hi
              rcases this with h | h
              · exact absurd h hn
              · rw [htl] at h; simp at h
            | some t2 => simp [setTuple_of_insert hi]
          · have hpre' : isPrefix old new = false := by simpa using hpre
            simp only [hpre', Bool.false_eq_true, if_false]
            by_cases hpre2 : isPrefix new old = true
            · -- the new key is a proper prefix of the old one
              have h2 := insert_after_remove_below new old v _ t1 ht1 hpre2 (fun e => heq e.symm)
              rw [h2]
              cases hi : insert new v (.node kids) with
              | none => obtain ⟨e, he⟩ := setTuple_error_of_insert hi; simp [he, Out.erase]
              | some t2 => simp [setTuple_of_insert hi, hpre2]
            · have hpre2' : isPrefix new old = false := by simpa using hpre2
              have h3 := insert_remove_comm new old v _ t1 ht1 hpre' hpre2'
              cases hi : insert new v (.node kids) with
              | none =>
                obtain ⟨e, he⟩ := setTuple_error_of_insert hi
                rw [hi] at h3; simp at h3
                simp [he, ← h3, Out.erase]
              | some t2 =>
                rw [hi] at h3; simp at h3
                have hl2 : lookup old t2 = some v := by
                  rw [lookup_insert_other new v _ t2 hi old hpre2' hpre', hl]
                obtain ⟨t3, ht3⟩ := remove_some_of_lookup ho hl2
                rw [ht3] at h3
                simp [setTuple_of_insert hi, hpre2', delTuple_of_remove ht3, ← h3]


/-! ### spellings -/
mutual
theorem spells_tup : ∀ {k : Key} {p : List String}, Spells k p → unravelTupCpp k = p
  | _, _, .str s => by simp [unravelTupCpp]
  | _, _, .tup l p h => by simp [unravelTupCpp, unravelTupCppL, spellsL_tup h]
theorem spellsL_tup : ∀ {l : List Key} {p : List String}, SpellsL l p → unravelTupCppLO l = some p
  | _, _, .nil => by simp [unravelTupCppLO]
  | _, _, .cons k l p q hk hp hl => by
    have h1 := spells_tup hk
    have h2 := spellsL_tup hl
    cases k with
    | str s => simp [unravelTupCpp] at h1; subst h1; simp [unravelTupCppLO, h2]
    | bad => cases hk
    | tup l' =>
      simp only [unravelTupCppLO, h1, h2]
      cases p with
      | nil => exact absurd rfl hp
      | cons a b => simp
end

theorem spellsL_loop : ∀ {l : List Key} {p : List String}, SpellsL l p → unravelKeyLoopCpp l = p
  | _, _, .nil => by simp [unravelKeyLoopCpp]
  | _, _, .cons k l p q hk hp hl => by
    have h1 := spells_tup hk
    have h2 := spellsL_loop hl
    cases k with
    | str s => simp [unravelTupCpp] at h1; subst h1; simp [unravelKeyLoopCpp, h2]
    | bad => cases hk
    | tup l' => simp [unravelKeyLoopCpp, h1, h2]


/-! ### views -/
theorem WF.tail {k : String} {v : Entry} {r : Kids} (h : WF (.node ((k, v) :: r))) : WF (.node r) := by
  cases h with
  | node _ hn hk =>
    simp at hn
    exact WF.node _ hn.2 (fun k' v' hm => hk k' v' (List.mem_cons_of_mem _ hm))

theorem WF.head {k : String} {v : Entry} {r : Kids} (h : WF (.node ((k, v) :: r))) : WF v := by
  cases h with
  | node _ hn hk => exact hk k v (by simp)

theorem WF.head_fresh {k : String} {v : Entry} {r : Kids} (h : WF (.node ((k, v) :: r))) : dget k r = none := by
  cases h with
  | node _ hn hk => simp at hn; exact (dget_none_iff k r).mpr (by simpa using hn.1)

theorem bound_cons (k : String) (v : Entry) (r : Kids) (p : Path) (e : Entry) (hw : WF (.node ((k, v) :: r))) :
    bound p e ((k, v) :: r) ↔
      (p = [k] ∧ e = v) ∨ (∃ sub p', v = .node sub ∧ p = k :: p' ∧ bound p' e sub) ∨ bound p e r := by
  have hf := hw.head_fresh
  cases p with
  | nil => simp [bound]
  | cons k' p' =>
    by_cases hk : k = k'
    · subst hk
      have hr : ¬ bound (k :: p') e r := by simp [bound, lookup_cons_node, hf]
      simp only [hr, or_false]
      cases p' with
      | nil => simp [bound, lookup_cons_node, dget, lookup]; exact eq_comm
      | cons a b =>
        cases v with
        | leaf nt x => simp [bound, lookup_cons_node, dget, lookup]
        | node sub => simp [bound, lookup_cons_node, dget]
    · have h1 : ¬ (k' :: p' = [k] ∧ e = v) := by intro h; simp at h; exact hk h.1.1.symm
      have h2 : ¬ (∃ sub p'', v = .node sub ∧ k' :: p' = k :: p'' ∧ bound p'' e sub) := by
        rintro ⟨_, _, _, h, _⟩; simp at h; exact hk h.1.symm
      simp only [h1, h2, false_or]
      simp [bound, lookup_cons_node, dget, hk]

theorem mem_iterHelper_go (lo nt : Bool) (kids : Kids) (pre q : Path) (hw : WF (.node kids)) :
    q ∈ iterHelper.go lo nt kids pre ↔
      ∃ p e, q = pre ++ p ∧ bound p e kids ∧ (!lo || e.isLeafFor nt) = true := by
  fun_induction iterHelper.go lo nt kids pre generalizing q
  · simp [bound, lookup_cons_node, dget]; intro p e _ hp; cases p <;> simp_all [lookup_cons_node, dget]
  · rename_i k v r pre full ih2 ih1
    have ih1' := ih1 q hw.tail
    simp only [List.mem_append, ih1']
    constructor
    · rintro ((h | h) | h)
      · cases v with
        | leaf nt' x => simp at h
        | node sub =>
          have := (ih2 q hw.head).mp h
          obtain ⟨p, e, rfl, hb, hf⟩ := this
          refine ⟨k :: p, e, by simp [full], ?_, hf⟩
          exact (bound_cons k _ r _ e hw).mpr (Or.inr (Or.inl ⟨sub, p, rfl, rfl, hb⟩))
      · split at h
        · simp at h; subst h
          rename_i hflag
          exact ⟨[k], v, rfl, (bound_cons k v r _ v hw).mpr (Or.inl ⟨rfl, rfl⟩), hflag⟩
        · simp at h
      · obtain ⟨p, e, rfl, hb, hf⟩ := h
        exact ⟨p, e, rfl, (bound_cons k v r p e hw).mpr (Or.inr (Or.inr hb)), hf⟩
    · rintro ⟨p, e, rfl, hb, hf⟩
      rcases (bound_cons k v r p e hw).mp hb with ⟨rfl, rfl⟩ | ⟨sub, p', rfl, rfl, hb'⟩ | hb'
      · left; right; simp [hf, full]
      · left; left
        exact (ih2 _ hw.head).mpr ⟨p', e, by simp [full], hb', hf⟩
      · right; exact ⟨p, e, rfl, hb', hf⟩


theorem mem_iterItems_go (lo nt : Bool) (kids : Kids) (pre q : Path) (e : Entry) (hw : WF (.node kids)) :
    (q, e) ∈ iterItems.go lo nt kids pre ↔
      ∃ p, q = pre ++ p ∧ bound p e kids ∧ (!lo || e.isLeafFor nt) = true := by
  fun_induction iterItems.go lo nt kids pre generalizing q
  · simp [bound, lookup_cons_node, dget]; intro p _ hp; cases p <;> simp_all [lookup_cons_node, dget]
  · rename_i k v r pre full ih2 ih1
    have ih1' := ih1 q hw.tail
    simp only [List.mem_append, ih1']
    constructor
    · rintro ((h | h) | h)
      · split at h
        · simp at h; obtain ⟨rfl, rfl⟩ := h
          rename_i hflag
          exact ⟨[k], rfl, (bound_cons k e r _ e hw).mpr (Or.inl ⟨rfl, rfl⟩), hflag⟩
        · simp at h
      · cases v with
        | leaf nt' x => simp at h
        | node sub =>
          have := (ih2 q hw.head).mp h
          obtain ⟨p, rfl, hb, hf⟩ := this
          refine ⟨k :: p, by simp [full], ?_, hf⟩
          exact (bound_cons k _ r _ e hw).mpr (Or.inr (Or.inl ⟨sub, p, rfl, rfl, hb⟩))
      · obtain ⟨p, rfl, hb, hf⟩ := h
        exact ⟨p, rfl, (bound_cons k v r p e hw).mpr (Or.inr (Or.inr hb)), hf⟩
    · rintro ⟨p, rfl, hb, hf⟩
      rcases (bound_cons k v r p e hw).mp hb with ⟨rfl, rfl⟩ | ⟨sub, p', rfl, rfl, hb'⟩ | hb'
      · left; left; simp [hf, full]
      · left; right
        exact (ih2 _ hw.head).mpr ⟨p', by simp [full], hb', hf⟩
      · right; exact ⟨p, rfl, hb', hf⟩

theorem insertBefore_perm {α} (f : α → String) (x : α) (l : List α) : (sortBy.insertBefore f x l).Perm (x :: l) := by
  induction l with
  | nil => simp [sortBy.insertBefore]
  | cons y r ih =>
    simp only [sortBy.insertBefore]
    split
    · exact (List.Perm.cons y ih).trans (List.Perm.swap x y r)
    · exact List.Perm.refl _

theorem sortBy_perm {α} (f : α → String) (l : List α) : (sortBy f l).Perm l := by
  induction l with
  | nil => simp [sortBy]
  | cons x r ih =>
    have : sortBy f (x :: r) = sortBy.insertBefore f x (sortBy f r) := by simp [sortBy]
    rw [this]
    exact (insertBefore_perm f x _).trans (List.Perm.cons x ih)

theorem mem_sortBy {α} (f : α → String) (l : List α) (x : α) : x ∈ sortBy f l ↔ x ∈ l :=
  (sortBy_perm f l).mem_iff

theorem mem_kids_iff_dget {k : String} {e : Entry} {kids : Kids} (hn : (kids.map (·.1)).Nodup) :
    (k, e) ∈ kids ↔ dget k kids = some e := by
  induction kids with
  | nil => simp [dget]
  | cons a r ih =>
    obtain ⟨k', v'⟩ := a
    simp at hn
    simp only [dget, List.mem_cons]
    split
    · rename_i h; subst h
      constructor
      · rintro (h | h)
        · simp at h; simp [h]
        · exact absurd h (hn.1 e)
      · intro h; simp at h; simp [h]
    · rename_i h
      rw [← ih hn.2]
      constructor
      · rintro (h' | h')
        · simp at h'; exact absurd h'.1.symm h
        · exact h'
      · intro h'; exact Or.inr h'


/-! ### flatten_keys -/

theorem mem_dedup (l : List String) (x : String) : x ∈ dedup l ↔ x ∈ l := by
  induction l with
  | nil => simp [dedup]
  | cons a r ih =>
    simp only [dedup]
    split
    · rename_i h
      have ha : a ∈ dedup r := by simpa using h
      rw [ih, List.mem_cons]
      constructor
      · intro h'; exact Or.inr h'
      · intro h'
        rcases h' with rfl | h'
        · exact ih.mp ha
        · exact h'
    · simp [ih]

theorem dedup_length_le (l : List String) : (dedup l).length ≤ l.length := by
  induction l with
  | nil => simp [dedup]
  | cons a r ih => simp only [dedup]; split <;> simp <;> omega

theorem dedup_length_eq_iff (l : List String) : (dedup l).length = l.length ↔ l.Nodup := by
  induction l with
  | nil => simp [dedup]
  | cons a r ih =>
    simp only [dedup, List.nodup_cons]
    split
    · rename_i h
      have ha : a ∈ r := (mem_dedup r a).mp (by simpa using h)
      have := dedup_length_le r
      constructor
      · intro h'; simp at h'; omega
      · intro h'; exact absurd ha h'.1
    · rename_i h
      have ha : a ∉ r := fun hm => h (by simpa using (mem_dedup r a).mpr hm)
      simp [ih, ha]

/-- `len(set(names)) < len(names)` is exactly "some name occurs twice" -/
theorem dedup_lt_iff (l : List String) : (dedup l).length < l.length ↔ ¬ l.Nodup := by
  rw [← dedup_length_eq_iff]; have := dedup_length_le l; omega

theorem dset_fresh (k : String) (v : Entry) (acc : Kids) (hk : k ∉ acc.map (·.1)) : dset k v acc = acc ++ [(k, v)] := by
  induction acc with
  | nil => simp [dset]
  | cons b acc' ih' =>
    obtain ⟨k', v'⟩ := b
    simp only [List.map_cons, List.mem_cons, not_or] at hk
    have hne : ¬ k' = k := fun e => hk.1 e.symm
    simp [dset, hne, ih' hk.2]

theorem foldl_dset_append (l acc : Kids) (h1 : (l.map (·.1)).Nodup) (h2 : ∀ k, k ∈ l.map (·.1) → k ∉ acc.map (·.1)) :
    l.foldl (fun d kv => dset kv.1 kv.2 d) acc = acc ++ l := by
  induction l generalizing acc with
  | nil => simp
  | cons a r ih =>
    obtain ⟨k, v⟩ := a
    simp only [List.foldl_cons]
    rw [dset_fresh k v acc (h2 k (by simp))]
    simp only [List.map_cons, List.nodup_cons] at h1
    rw [ih (acc ++ [(k, v)]) h1.2]
    · simp
    · intro k' hk' hm
      simp only [List.map_append, List.map_cons, List.map_nil, List.mem_append, List.mem_singleton] at hm
      rcases hm with hm | hm
      · exact h2 k' (by simp only [List.map_cons, List.mem_cons]; exact Or.inr hk') hm
      · subst hm; exact h1.1 hk'

theorem dictBuild_nodup (l : Kids) (h : (l.map (·.1)).Nodup) : dictBuild l = l := by
  have := foldl_dset_append l [] h (by simp)
  simpa [dictBuild] using this



theorem flatKids_keys (sep : String) (t : Entry) : (flatKids sep t).map (·.1) = flatNames sep t := by
  simp [flatKids, flatNames]

theorem zip_flat (sep : String) (t : Entry) :
    (flatNames sep t).zip ((leavesOf t).map (·.2)) = flatKids sep t := by
  simp only [flatNames, flatKids]
  induction leavesOf t with
  | nil => simp
  | cons a r ih => simp [ih]

/-- `flatten_keys` (out of place): a clash of flat names raises, otherwise the result is exactly the dict of the
leaves under their joined names, in items() order -/
theorem flattenOut_eq (sep : String) (t : Entry) :
    flattenOut sep t = if (flatNames sep t).Nodup then .ok (.node (flatKids sep t)) else .error .key := by
  unfold flattenOut
  simp only []
  have hz := zip_flat sep t
  simp only [flatNames] at hz
  by_cases hn : (flatNames sep t).Nodup
  · have hlt : ¬ (dedup (flatNames sep t)).length < (flatNames sep t).length := by
      rw [dedup_lt_iff]; simpa using hn
    rw [if_pos hn]
    simp only [flatNames] at hlt
    rw [if_neg hlt, hz]
    rw [dictBuild_nodup _ (by rw [flatKids_keys]; exact hn)]
  · have hlt : (dedup (flatNames sep t)).length < (flatNames sep t).length := by
      rw [dedup_lt_iff]; exact hn
    rw [if_neg hn]
    simp only [flatNames] at hlt
    rw [if_pos hlt]

/-- the leaves `flatten_keys` moves: exactly the bound paths that hold a tensor or a non-tensor -/
theorem mem_leavesOf (kids : Kids) (hw : WF (.node kids)) (p : Path) (e : Entry) :
    (p, e) ∈ leavesOf (.node kids) ↔ bound p e kids ∧ e.isLeafFor true = true := by
  have h := mem_iterItems_go true true kids [] p e hw
  simp only [List.nil_append, Bool.not_true, Bool.false_or] at h
  simp only [leavesOf, iterItems]; rw [h]
  constructor
  · rintro ⟨q, rfl, hb⟩; exact hb
  · intro hb; exact ⟨p, rfl, hb⟩


/-! ### unflatten_keys -/

theorem insert_shape {p : Path} {v t t' : Entry} (h : insert p v t = some t') : ∃ kids', t' = .node kids' := by
  match p, t, h with
  | [k], .node kids, h => simp [insert] at h; exact ⟨_, h.symm⟩
  | k :: k2 :: r, .node kids, h =>
    simp only [insert] at h
    split at h <;> simp at h
    all_goals (obtain ⟨a, _, rfl⟩ := h; exact ⟨_, rfl⟩)

/-- the replay of `rename_key_` keeps a well-formed node -/
theorem specRename_good (old new : Path) (safe : Bool) (kids : Kids) (hw : WF (.node kids)) :
    ∃ kids', (specRename old new safe (.node kids)).1 = .node kids' ∧ WF (.node kids') := by
  simp only [specRename]
  split
  · exact ⟨kids, rfl, hw⟩
  · split
    · exact ⟨kids, rfl, hw⟩
    · rename_i v hl
      split
      · exact ⟨kids, rfl, hw⟩
      · split
        · exact ⟨kids, rfl, hw⟩
        · split
          · exact ⟨kids, rfl, hw⟩
          · rename_i t1 hr
            obtain ⟨_, k1, _, rfl⟩ := remove_shape hr
            have hw1 := wf_remove old _ _ hw hr
            have hwv := wf_lookup old _ v hw hl
            split
            · exact ⟨kids, rfl, hw⟩
            · rename_i t2 hi
              obtain ⟨k2, rfl⟩ := insert_shape hi
              exact ⟨k2, rfl, wf_insert new v _ _ hw1 hwv hi⟩

/-- `unflatten_keys`: the loop of safe renames over the root keys equals the replay on the dict -/
theorem unflattenLoop_refines (sep : String) (ks : List String) (kids : Kids) (hw : WF (.node kids)) :
    (unflattenLoop sep ks (.node kids)).1 = (specUnflattenLoop sep ks (.node kids)).1 ∧
    (unflattenLoop sep ks (.node kids)).2.erase = (specUnflattenLoop sep ks (.node kids)).2.erase := by
  induction ks generalizing kids with
  | nil => simp [unflattenLoop, specUnflattenLoop]
  | cons k ks ih =>
    simp only [unflattenLoop, specUnflattenLoop]
    split
    · have hr := rename_refines_aux [k] (splitKeyS sep k) true kids hw
      obtain ⟨kids', hk', hw'⟩ := specRename_good [k] (splitKeyS sep k) true kids hw
      cases h1 : renameKey [k] (splitKeyS sep k) true (.node kids) with
      | mk t1 o1 =>
        cases h2 : specRename [k] (splitKeyS sep k) true (.node kids) with
        | mk t2 o2 =>
          rw [h1, h2] at hr
          rw [h2] at hk'
          simp only at hr hk'
          obtain ⟨hs, ho⟩ := hr
          subst hs; subst hk'
          cases o1 <;> cases o2 <;> simp [Out.erase] at ho ⊢
          all_goals (first | exact ih kids' hw' | skip)
    · exact ih kids hw


theorem specUnflattenLoop_good (sep : String) (ks : List String) (kids : Kids) (hw : WF (.node kids)) :
    ∃ kids', (specUnflattenLoop sep ks (.node kids)).1 = .node kids' ∧ WF (.node kids') := by
  induction ks generalizing kids with
  | nil => exact ⟨kids, rfl, hw⟩
  | cons k ks ih =>
    simp only [specUnflattenLoop]
    split
    · obtain ⟨kids', hk', hw'⟩ := specRename_good [k] (splitKeyS sep k) true kids hw
      cases h2 : specRename [k] (splitKeyS sep k) true (.node kids) with
      | mk t2 o2 =>
        rw [h2] at hk'; simp only at hk'; subst hk'
        cases o2 <;> simp
        all_goals (first | exact ih kids' hw' | exact ⟨kids', rfl, hw'⟩ | exact hw')
    · exact ih kids hw

/-! ### exclude -/

/-- `sx` on one entry -/
def sxE (keys : List Path) : Entry → Entry
  | .node sub => .node (sx keys sub)
  | .leaf nt v => .leaf nt v

theorem sx_cons_hit {keys : List Path} {k : String} (e : Entry) (r : Kids) (h : keys.contains [k] = true) :
    sx keys ((k, e) :: r) = sx keys r := by
  have h' : [k] ∈ keys := by simpa using h
  cases e <;> simp [sx, h']

theorem sx_cons_miss {keys : List Path} {k : String} (e : Entry) (r : Kids) (h : keys.contains [k] = false) :
    sx keys ((k, e) :: r) = (k, sxE (tailsOf k keys) e) :: sx keys r := by
  have h' : ¬ [k] ∈ keys := by simpa using h
  cases e <;> simp [sx, h', sxE]

theorem sx_nil_aux (keys : List Path) (kids : Kids) (h : keys = []) : sx keys kids = kids := by
  fun_induction sx keys kids
  · rfl
  · subst h; rename_i hc _; simp at hc
  · subst h
    rename_i k e r hc ih2 ih1
    rw [ih1 rfl]
    cases e with
    | leaf nt v => rfl
    | node sub => simp only at ih2 ⊢; rw [ih2 (by simp [tailsOf])]

theorem sx_nil (kids : Kids) : sx [] kids = kids := sx_nil_aux [] kids rfl

theorem sxE_nil (e : Entry) : sxE [] e = e := by cases e <;> simp [sxE, sx_nil]

theorem tailsOf_single_same (k k2 : String) (rest : Path) : tailsOf k [k :: k2 :: rest] = [k2 :: rest] := by
  simp [tailsOf]

theorem tailsOf_single_other {k k' : String} (h : k' ≠ k) (rest : Path) : tailsOf k [k' :: rest] = [] := by
  simp [tailsOf, h]

theorem tailsOf_single_short (k k' : String) : tailsOf k [[k']] = [] := by
  simp [tailsOf]

theorem sx_fresh (keys : List Path) (kids : Kids)
    (h : ∀ k, k ∈ kids.map (·.1) → keys.contains [k] = false ∧ tailsOf k keys = []) : sx keys kids = kids := by
  induction kids with
  | nil => simp [sx]
  | cons a r ih =>
    obtain ⟨k, e⟩ := a
    have hk := h k (by simp)
    rw [sx_cons_miss e r hk.1, hk.2, sxE_nil, ih (fun k' hk' => h k' (by simp only [List.map_cons, List.mem_cons]; exact Or.inr hk'))]

/-- deleting a one-component key of a dict with unique keys -/
theorem sx_single_key (k : String) (kids : Kids) (hn : (kids.map (·.1)).Nodup) : sx [[k]] kids = ddel k kids := by
  induction kids with
  | nil => simp [sx, ddel]
  | cons a r ih =>
    obtain ⟨k', e⟩ := a
    simp only [List.map_cons, List.nodup_cons] at hn
    by_cases h : k' = k
    · subst h
      rw [sx_cons_hit e r (by simp)]
      simp only [ddel, if_true]
      apply sx_fresh
      intro k2 hk2
      have hne : k2 ≠ k' := fun e => hn.1 (e ▸ hk2)
      exact ⟨by simp [hne], tailsOf_single_short _ _⟩
    · rw [sx_cons_miss e r (by simp [h]), tailsOf_single_short, sxE_nil, ih hn.2]
      simp [ddel, h]



theorem ddel_absent (k : String) (kids : Kids) (h : dget k kids = none) : ddel k kids = kids := by
  induction kids with
  | nil => simp [ddel]
  | cons a r ih =>
    obtain ⟨k', e⟩ := a
    simp only [dget] at h
    split at h
    · simp at h
    · rename_i hne; simp [ddel, hne, ih h]

theorem dset_same (k : String) (c : Entry) (kids : Kids) (h : dget k kids = some c) : dset k c kids = kids := by
  induction kids with
  | nil => simp [dget] at h
  | cons a r ih =>
    obtain ⟨k', e⟩ := a
    simp only [dget] at h
    split at h
    · rename_i he; simp at h; subst h; subst he; simp [dset]
    · rename_i hne; simp [dset, hne, ih h]

/-- a nested key prunes only the entry it starts with -/
theorem sx_single_deep (k k2 : String) (rest : Path) (kids : Kids) (c : Entry) (h : dget k kids = some c)
    (hn : (kids.map (·.1)).Nodup) : sx [k :: k2 :: rest] kids = dset k (sxE [k2 :: rest] c) kids := by
  induction kids with
  | nil => simp [dget] at h
  | cons a r ih =>
    obtain ⟨k', e⟩ := a
    simp only [List.map_cons, List.nodup_cons] at hn
    have hc : ([k :: k2 :: rest] : List Path).contains [k'] = false := by simp
    rw [sx_cons_miss e r hc]
    simp only [dget] at h
    split at h
    · rename_i he; simp at h; subst h; subst he
      rw [tailsOf_single_same]
      simp only [dset, if_true]
      congr 1
      apply sx_fresh
      intro k3 hk3
      have hne : k3 ≠ k' := fun e => hn.1 (e ▸ hk3)
      exact ⟨by simp, tailsOf_single_other (fun e => hne e.symm) _⟩
    · rename_i hne
      rw [tailsOf_single_other (fun e => hne e.symm), sxE_nil, ih h hn.2]
      simp [dset, hne]

theorem sx_single_deep_absent (k k2 : String) (rest : Path) (kids : Kids) (h : dget k kids = none) :
    sx [k :: k2 :: rest] kids = kids := by
  apply sx_fresh
  intro k' hk'
  have hne : k ≠ k' := by
    intro e; subst e
    have := (dget_none_iff k kids).mp h
    exact this hk'
  exact ⟨by simp, tailsOf_single_other hne _⟩

/-- `exclude(p)` of one key = "delete if present", on a dict with unique keys -/
theorem removeIfPresent_eq_sx (p : Path) (kids : Kids) (hw : WF (.node kids)) (hp : p ≠ []) :
    removeIfPresent p (.node kids) = .node (sx [p] kids) := by
  induction p generalizing kids with
  | nil => exact absurd rfl hp
  | cons k rest ih =>
    cases rest with
    | nil =>
      rw [sx_single_key k kids hw.kids_nodup]
      simp only [removeIfPresent, remove]
      split
      · simp
      · rename_i h
        have : dget k kids = none := by cases hd : dget k kids <;> simp_all
        simp [ddel_absent k kids this]
    | cons k2 rest2 =>
      simp only [removeIfPresent, remove]
      cases hk : dget k kids with
      | none => simp [sx_single_deep_absent k k2 rest2 kids hk]
      | some c =>
        rw [sx_single_deep k k2 rest2 kids c hk hw.kids_nodup]
        cases c with
        | leaf nt v => simp [remove, sxE, dset_same k _ kids hk]
        | node sub =>
          have ih' := ih sub (hw.child hk) (by simp)
          simp only [removeIfPresent] at ih'
          simp only [sxE]
          cases hr : remove (k2 :: rest2) (.node sub) with
          | none =>
            rw [hr] at ih'; simp at ih'
            simp [← ih', dset_same k _ kids hk]
          | some c' =>
            rw [hr] at ih'; simp at ih'
            simp [ih']



theorem tailsOf_append (k : String) (a b : List Path) : tailsOf k (a ++ b) = tailsOf k a ++ tailsOf k b := by
  simp [tailsOf, List.filterMap_append]

theorem contains_append (a b : List Path) (x : Path) : (a ++ b).contains x = (a.contains x || b.contains x) := by
  simp [List.contains_eq_mem, List.mem_append]

/-- excluding in two rounds = excluding everything at once -/
theorem sx_sx (k1 k2 : List Path) (kids : Kids) : sx k2 (sx k1 kids) = sx (k1 ++ k2) kids := by
  fun_induction sx k1 kids generalizing k2
  · simp [sx]
  · rename_i keys k e r hc ih
    have h12 : (keys ++ k2).contains [k] = true := by rw [contains_append, hc]; rfl
    rw [sx_cons_hit e r h12]; exact ih k2
  · rename_i keys k e r hc ih2 ih1
    have hc' : keys.contains [k] = false := by simpa using hc
    by_cases h2 : k2.contains [k] = true
    · have h12 : (keys ++ k2).contains [k] = true := by rw [contains_append, h2]; simp
      rw [sx_cons_hit _ _ h2, sx_cons_hit e r h12]; exact ih1 k2
    · have h2' : k2.contains [k] = false := by simpa using h2
      have h12 : (keys ++ k2).contains [k] = false := by rw [contains_append, hc', h2']; rfl
      rw [sx_cons_miss _ _ h2', sx_cons_miss e r h12, ih1 k2, tailsOf_append]
      congr 2
      cases e with
      | leaf nt v => simp [sxE]
      | node sub => simp only [sxE] at ih2 ⊢; rw [ih2]

theorem wf_sx (keys : List Path) (kids : Kids) (hw : WF (.node kids)) : WF (.node (sx keys kids)) := by
  fun_induction sx keys kids
  · exact hw
  · rename_i ih; exact ih hw.tail
  · rename_i keys k e r hc ih2 ih1
    have hr := ih1 hw.tail
    have hfresh := hw.head_fresh
    refine WF.node _ ?_ ?_
    · simp only [List.map_cons, List.nodup_cons]
      refine ⟨?_, hr.kids_nodup⟩
      intro hm
      -- keys of sx are among the keys of r
      have sub : ∀ (ks : List Path) (l : Kids) (x : String), x ∈ (sx ks l).map (·.1) → x ∈ l.map (·.1) := by
        intro ks l x
        induction l with
        | nil => simp [sx]
        | cons b l ihl =>
          obtain ⟨kb, eb⟩ := b
          by_cases hb : ks.contains [kb] = true
          · rw [sx_cons_hit eb l hb]; intro h; simp only [List.map_cons, List.mem_cons]; exact Or.inr (ihl h)
          · have hb' : ks.contains [kb] = false := by simpa using hb
            rw [sx_cons_miss eb l hb']; simp only [List.map_cons, List.mem_cons]
            rintro (h | h)
            · exact Or.inl h
            · exact Or.inr (ihl h)
      exact (dget_none_iff k r).mp hfresh (sub _ _ _ hm)
    · intro k' v' hm
      simp only [List.mem_cons, Prod.mk.injEq] at hm
      rcases hm with ⟨_, rfl⟩ | hm
      · cases e with
        | leaf nt v => exact WF.leaf _ _
        | node sub => simp only at ih2 ⊢; exact ih2 hw.head
      · cases hr with
        | node _ _ hk => exact hk k' v' hm



/-- the reference `exclude` (delete each listed entry if present, one after the other) is the order-independent
pruning `sx` -/
theorem specExclude_eq_sx (keys : List Path) (kids : Kids) (hw : WF (.node kids)) (hk : ∀ p ∈ keys, p ≠ []) :
    specExclude keys (.node kids) = .node (sx keys kids) := by
  induction keys generalizing kids with
  | nil => simp [specExclude, sx_nil]
  | cons p ks ih =>
    simp only [specExclude, List.foldl_cons]
    rw [removeIfPresent_eq_sx p kids hw (hk p (by simp))]
    have := ih (sx [p] kids) (wf_sx _ _ hw) (fun q hq => hk q (by simp [hq]))
    simp only [specExclude] at this
    rw [this, sx_sx]; rfl

/-- `sx` as filter + map -/
theorem sx_eq_filter_map (keys : List Path) (kids : Kids) :
    sx keys kids = (kids.filter (fun kv => !keys.contains [kv.1])).map (fun kv => (kv.1, sxE (tailsOf kv.1 keys) kv.2)) := by
  induction kids with
  | nil => simp [sx]
  | cons a r ih =>
    obtain ⟨k, e⟩ := a
    by_cases h : keys.contains [k] = true
    · rw [sx_cons_hit e r h, ih, List.filter_cons]; simp only [h, Bool.not_true, Bool.false_eq_true, if_false]
    · have h' : keys.contains [k] = false := by simpa using h
      rw [sx_cons_miss e r h', ih, List.filter_cons]; simp only [h', Bool.not_false, if_true, List.map_cons]

/-- the single-component keys of a key list -/
def singles (keys : List Path) : List String := keys.filterMap fun p => match p with
  | [k] => some k
  | _ => none

theorem mem_singles_iff (keys : List Path) (k : String) : k ∈ singles keys ↔ [k] ∈ keys := by
  simp only [singles, List.mem_filterMap]
  constructor
  · rintro ⟨p, hp, hm⟩
    match p, hm with
    | [k'], hm => simp at hm; subst hm; exact hp
  · intro h; exact ⟨[k], h, rfl⟩

theorem contains_single_iff (keys : List Path) (k : String) : keys.contains [k] = (singles keys).contains k := by
  have := mem_singles_iff keys k
  cases h1 : keys.contains [k] <;> cases h2 : (singles keys).contains k <;> simp_all

theorem foldl_ddel_eq_filter (ss : List String) (kids : Kids) (hn : (kids.map (·.1)).Nodup) :
    ss.foldl (fun c k => ddel k c) kids = kids.filter (fun kv => !ss.contains kv.1) := by
  induction ss generalizing kids with
  | nil => simp only [List.foldl_nil, List.contains_nil, Bool.not_false]; exact (List.filter_eq_self.mpr (fun _ _ => rfl)).symm
  | cons s ss ih =>
    simp only [List.foldl_cons]
    rw [ih (ddel s kids) (nodup_ddel s kids hn)]
    -- ddel of a unique key is a filter
    have hd : ∀ (l : Kids), (l.map (·.1)).Nodup → ddel s l = l.filter (fun kv => kv.1 != s) := by
      intro l hl
      induction l with
      | nil => simp [ddel]
      | cons a r ihl =>
        obtain ⟨k, e⟩ := a
        simp only [List.map_cons, List.nodup_cons] at hl
        by_cases hks : k = s
        · subst hks
          have : r.filter (fun kv => kv.1 != k) = r := by
            apply List.filter_eq_self.mpr
            intro kv hkv; simp; intro e; exact hl.1 (by rw [← e]; exact List.mem_map_of_mem hkv)
          simp [ddel, this]
        · simp [ddel, hks, ihl hl.2]
    rw [hd kids hn, List.filter_filter]
    congr 1
    funext kv
    simp only [List.contains_cons, bne]
    cases h1 : kv.1 == s <;> cases h2 : ss.contains kv.1 <;> simp [h1, h2]



/-- the sub-keys collected for `k` -/
def lookupG (k : String) : List (String × List Path) → List Path
  | [] => []
  | (k', l) :: r => if k' = k then l else lookupG k r

theorem lookupG_groupAdd (k : String) (sub : Path) (grp : List (String × List Path)) (k' : String) :
    lookupG k' (groupAdd k sub grp) = if k' = k then lookupG k grp ++ [sub] else lookupG k' grp := by
  induction grp with
  | nil => simp only [groupAdd, lookupG]; split <;> simp_all [eq_comm]
  | cons a r ih =>
    obtain ⟨k0, l0⟩ := a
    simp only [groupAdd]
    by_cases h0 : k0 = k
    · subst h0
      simp only [if_true, lookupG]
      by_cases h1 : k0 = k'
      · subst h1; simp
      · have : ¬ k' = k0 := fun e => h1 e.symm
        simp [h1, this]
    · simp only [h0, if_false, lookupG]
      by_cases h1 : k0 = k'
      · subst h1; simp [h0]
      · simp only [h1, if_false, ih]

theorem tailsOf_cons (k : String) (p : Path) (keys : List Path) :
    tailsOf k (p :: keys) = (match p with
      | k' :: r => if k' = k ∧ r ≠ [] then [r] else []
      | [] => []) ++ tailsOf k keys := by
  simp only [tailsOf, List.filterMap_cons]
  match p with
  | [] => rfl
  | k' :: r => by_cases h : k' = k ∧ r ≠ [] <;> simp [h]

theorem singles_cons (p : Path) (keys : List Path) :
    singles (p :: keys) = (match p with | [k] => [k] | _ => []) ++ singles keys := by
  simp only [singles, List.filterMap_cons]
  match p with
  | [] => rfl
  | [k'] => rfl
  | _ :: _ :: _ => rfl

/-- first loop of `_exclude`: the string keys are popped, the nested keys whose first component is bound in the
receiver are grouped by that component, in order -/
theorem excludeScan_spec (orig : Kids) (keys : List Path) (cur : Kids) (grp : List (String × List Path))
    (hk : ∀ p ∈ keys, p ≠ []) :
    ∃ grp', excludeScan orig keys cur grp = .ok ((singles keys).foldl (fun c k => ddel k c) cur, grp') ∧
      ∀ k, lookupG k grp' = lookupG k grp ++ (if (dget k orig).isSome then tailsOf k keys else []) := by
  induction keys generalizing cur grp with
  | nil => exact ⟨grp, by simp [excludeScan, singles], by simp [tailsOf]⟩
  | cons p ps ih =>
    have hps : ∀ q ∈ ps, q ≠ [] := fun q hq => hk q (by simp [hq])
    match p, hk p (by simp) with
    | [k], _ =>
      obtain ⟨g', h1, h2⟩ := ih (ddel k cur) grp hps
      refine ⟨g', by simp [excludeScan, h1, singles_cons], fun k' => ?_⟩
      rw [h2 k', tailsOf_cons]; simp
    | k :: k2 :: rest, _ =>
      by_cases hb : (dget k orig).isSome = true
      · obtain ⟨g', h1, h2⟩ := ih cur (groupAdd k (k2 :: rest) grp) hps
        refine ⟨g', by simp [excludeScan, hb, h1, singles_cons], fun k' => ?_⟩
        rw [h2 k', lookupG_groupAdd, tailsOf_cons]
        by_cases hkk : k' = k
        · subst hkk; simp [hb]
        · have : ¬ k = k' := fun e => hkk e.symm
          simp [hkk, this]
      · obtain ⟨g', h1, h2⟩ := ih cur grp hps
        refine ⟨g', by simp [excludeScan, hb, h1, singles_cons], fun k' => ?_⟩
        rw [h2 k', tailsOf_cons]
        by_cases hkk : k = k'
        · subst hkk; simp [hb]
        · simp [hkk]



theorem lookupG_absent (k : String) (G : List (String × List Path)) (h : k ∉ G.map (·.1)) : lookupG k G = [] := by
  induction G with
  | nil => rfl
  | cons a r ih =>
    obtain ⟨k0, l0⟩ := a
    simp only [List.map_cons, List.mem_cons, not_or] at h
    have : ¬ k0 = k := fun e => h.1 e.symm
    simp [lookupG, this, ih h.2]

theorem sxE_leaf (ks : List Path) (nt : Bool) (v : Nat) : sxE ks (.leaf nt v) = .leaf nt v := rfl

theorem map_id_of_mem {α} (f : α → α) (l : List α) (h : ∀ x ∈ l, f x = x) : l.map f = l := by
  have := List.map_congr_left (f := f) (g := id) (l := l) (by intro x hx; simpa using h x hx)
  simpa using this

theorem dset_eq_map (k : String) (v : Entry) (cur : Kids) (hn : (cur.map (·.1)).Nodup) (hb : (dget k cur).isSome = true) :
    dset k v cur = cur.map (fun kv => if kv.1 = k then (k, v) else kv) := by
  induction cur with
  | nil => simp [dget] at hb
  | cons a r ih =>
    obtain ⟨k0, e0⟩ := a
    simp only [List.map_cons, List.nodup_cons] at hn
    by_cases h0 : k0 = k
    · subst h0
      simp only [dset, if_true, List.map_cons, List.cons.injEq, true_and]
      symm; apply map_id_of_mem
      intro kv hkv
      have : kv.1 ≠ k0 := fun e => hn.1 (by rw [← e]; exact List.mem_map_of_mem hkv)
      simp [this]
    · simp only [dget, h0, if_false] at hb
      simp [dset, h0, ih hn.2 hb]

/-- second loop of `_exclude` when the recursive call is known to compute `sx` -/
theorem excludeGroups_spec (f : List Path → Kids → Except Err Kids) (P : List Path → Prop)
    (hf : ∀ subs sub, P subs → WF (.node sub) → f subs sub = .ok (sx subs sub))
    (G : List (String × List Path)) (cur : Kids) (hw : WF (.node cur)) (hG : (G.map (·.1)).Nodup)
    (hP : ∀ k l, (k, l) ∈ G → P l) :
    excludeGroups f G cur = .ok (cur.map (fun kv => (kv.1, sxE (lookupG kv.1 G) kv.2))) := by
  induction G generalizing cur with
  | nil =>
    simp only [excludeGroups, lookupG, sxE_nil]
    congr 1; symm; exact map_id_of_mem _ _ (fun _ _ => rfl)
  | cons a r ih =>
    obtain ⟨k, subs⟩ := a
    simp only [List.map_cons, List.nodup_cons] at hG
    have hPr : ∀ k' l, (k', l) ∈ r → P l := fun k' l h => hP k' l (List.mem_cons_of_mem _ h)
    have hkr : lookupG k r = [] := lookupG_absent k r hG.1
    simp only [excludeGroups]
    -- entries other than `k` see the same group list
    have other : ∀ kv : String × Entry, kv.1 ≠ k → lookupG kv.1 ((k, subs) :: r) = lookupG kv.1 r := by
      intro kv hne; have : ¬ k = kv.1 := fun e => hne e.symm
      simp [lookupG, this]
    cases hd : dget k cur with
    | none =>
      simp only []
      rw [ih cur hw hG.2 hPr]
      congr 1
      apply List.map_congr_left
      intro kv hkv
      have hne : kv.1 ≠ k := by
        intro e; have := (dget_none_iff k cur).mp hd
        exact this (by rw [← e]; exact List.mem_map_of_mem hkv)
      rw [other kv hne]
    | some c =>
      cases c with
      | leaf nt v =>
        simp only []
        rw [ih cur hw hG.2 hPr]
        congr 1
        apply List.map_congr_left
        intro kv hkv
        by_cases hne : kv.1 = k
        · have hkv' : (kv.1, kv.2) ∈ cur := hkv
          rw [hne] at hkv'
          have := (mem_kids_iff_dget hw.kids_nodup).mp hkv'
          rw [hd] at this; simp at this
          rw [← this, sxE_leaf, sxE_leaf]
        · rw [other kv hne]
      | node sub =>
        simp only []
        rw [hf subs sub (hP k subs (by simp)) (hw.child hd)]
        simp only []
        have hw' : WF (.node (dset k (.node (sx subs sub)) cur)) := hw.dset k (wf_sx _ _ (hw.child hd))
        rw [ih _ hw' hG.2 hPr, dset_eq_map k _ cur hw.kids_nodup (by simp [hd]), List.map_map]
        congr 1
        apply List.map_congr_left
        intro kv hkv
        by_cases hne : kv.1 = k
        · have hkv' : (kv.1, kv.2) ∈ cur := hkv
          rw [hne] at hkv'
          have := (mem_kids_iff_dget hw.kids_nodup).mp hkv'
          rw [hd] at this; simp at this
          simp only [Function.comp, hne, if_true, lookupG, hkr, sxE_nil]
          rw [← this]; simp [sxE]
        · simp only [Function.comp, hne, if_false]; rw [other kv hne]



theorem gkeys_groupAdd (k : String) (sub : Path) (G : List (String × List Path)) :
    (groupAdd k sub G).map (·.1) = if k ∈ G.map (·.1) then G.map (·.1) else G.map (·.1) ++ [k] := by
  induction G with
  | nil => simp [groupAdd]
  | cons a r ih =>
    obtain ⟨k0, l0⟩ := a
    simp only [groupAdd]
    by_cases h0 : k0 = k
    · subst h0; simp
    · have : ¬ k = k0 := fun e => h0 e.symm
      simp only [h0, if_false, List.map_cons, ih, List.mem_cons, this, false_or]
      split <;> simp

theorem nodup_groupAdd (k : String) (sub : Path) (G : List (String × List Path)) (h : (G.map (·.1)).Nodup) :
    ((groupAdd k sub G).map (·.1)).Nodup := by
  rw [gkeys_groupAdd]
  split
  · exact h
  · rename_i hk
    refine List.nodup_append.mpr ⟨h, by simp, ?_⟩
    intro a ha b hb; simp at hb; subst hb; intro e; subst e; exact hk ha

theorem excludeScan_nodup (orig : Kids) (keys : List Path) (cur : Kids) (grp grp' : List (String × List Path)) (c' : Kids)
    (h : excludeScan orig keys cur grp = .ok (c', grp')) (hn : (grp.map (·.1)).Nodup) : (grp'.map (·.1)).Nodup := by
  fun_induction excludeScan orig keys cur grp generalizing c' grp'
  · simp at h; rw [← h.2]; exact hn
  · simp at h
  · rename_i ih; exact ih _ _ h hn
  · rename_i ih; exact ih _ _ h (nodup_groupAdd _ _ _ hn)
  · rename_i ih; exact ih _ _ h hn

theorem mem_lookupG {k : String} {l : List Path} {G : List (String × List Path)} (hn : (G.map (·.1)).Nodup)
    (h : (k, l) ∈ G) : lookupG k G = l := by
  induction G with
  | nil => simp at h
  | cons a r ih =>
    obtain ⟨k0, l0⟩ := a
    simp only [List.map_cons, List.nodup_cons] at hn
    simp only [List.mem_cons, Prod.mk.injEq] at h
    rcases h with ⟨rfl, rfl⟩ | h
    · simp [lookupG]
    · have : ¬ k0 = k := by intro e; subst e; exact hn.1 (List.mem_map_of_mem (f := (·.1)) h)
      simp [lookupG, this, ih hn.2 h]

theorem mem_tailsOf {k : String} {keys : List Path} {q : Path} (h : q ∈ tailsOf k keys) : q ≠ [] ∧ (k :: q) ∈ keys := by
  simp only [tailsOf, List.mem_filterMap] at h
  obtain ⟨p, hp, hm⟩ := h
  match p, hm with
  | k' :: r, hm =>
    by_cases hc : k' = k ∧ r ≠ []
    · simp [hc] at hm; subst hm; obtain ⟨rfl, h2⟩ := hc; exact ⟨h2, hp⟩
    · simp [hc] at hm

/-- `_exclude` (grouping by first component, recursion into the nested tensordicts) computes the order-independent
pruning `sx` -/
theorem excludeF_spec (fuel : Nat) (keys : List Path) (kids : Kids) (hw : WF (.node kids))
    (hk : ∀ p ∈ keys, p ≠ [] ∧ p.length ≤ fuel) : excludeF (fuel + 1) keys kids = .ok (sx keys kids) := by
  induction fuel generalizing keys kids with
  | zero =>
    -- every key would be empty
    cases keys with
    | nil => simp [excludeF, sx_nil]
    | cons p ps => have := hk p (by simp); cases p <;> simp at this
  | succ n ih =>
    unfold excludeF
    by_cases hke : keys = []
    · subst hke; simp [sx_nil]
    · simp only [hke, if_false]
      obtain ⟨G, hscan, hlook⟩ := excludeScan_spec kids keys kids [] (fun p hp => (hk p hp).1)
      have hGn := excludeScan_nodup _ _ _ _ _ _ hscan (by simp)
      rw [hscan]
      simp only []
      have hcur : (singles keys).foldl (fun c k => ddel k c) kids = kids.filter (fun kv => !(singles keys).contains kv.1) :=
        foldl_ddel_eq_filter _ _ hw.kids_nodup
      have hwfold : ∀ (ss : List String) (l : Kids), WF (.node l) → WF (.node (ss.foldl (fun c k => ddel k c) l)) := by
        intro ss
        induction ss with
        | nil => intro l hl; exact hl
        | cons s ss ihs => intro l hl; exact ihs (ddel s l) (hl.ddel s)
      have hwcur := hwfold (singles keys) kids hw
      let P : List Path → Prop := fun l => ∀ p ∈ l, p ≠ [] ∧ p.length ≤ n
      have hP : ∀ k l, (k, l) ∈ G → P l := by
        intro k l hm p hp
        have hl := mem_lookupG hGn hm
        rw [hlook k] at hl
        simp only [lookupG, List.nil_append] at hl
        split at hl
        · rw [← hl] at hp
          obtain ⟨h1, h2⟩ := mem_tailsOf hp
          have := (hk _ h2).2; simp at this
          exact ⟨h1, by omega⟩
        · rw [← hl] at hp; simp at hp
      rw [excludeGroups_spec (excludeF (n + 1)) P (fun subs sub hs hws => ih subs sub hws hs) G _ hwcur hGn hP]
      congr 1
      rw [sx_eq_filter_map, hcur]
      have hf : (fun kv : String × Entry => !(singles keys).contains kv.1) = (fun kv => !keys.contains [kv.1]) := by
        funext kv; rw [contains_single_iff]
      rw [hf]
      apply List.map_congr_left
      intro kv hkv
      have hmem : kv ∈ kids := (List.mem_filter.mp hkv).1
      have hb : (dget kv.1 kids).isSome = true := by
        rw [dget_isSome_iff_mem]; exact List.mem_map_of_mem hmem
      rw [hlook kv.1]; simp [lookupG, hb]


theorem foldl_max_ge (l : List Path) (a : Nat) :
    a ≤ l.foldl (fun m p => max m p.length) a ∧ ∀ p ∈ l, p.length ≤ l.foldl (fun m p => max m p.length) a := by
  induction l generalizing a with
  | nil => simp
  | cons q qs ih =>
    simp only [List.foldl_cons, List.mem_cons]
    obtain ⟨h1, h2⟩ := ih (max a q.length)
    refine ⟨by omega, ?_⟩
    rintro p (rfl | hp)
    · omega
    · exact h2 p hp

theorem le_maxLen {p : Path} {keys : List Path} (h : p ∈ keys) : p.length ≤ maxLen keys :=
  (foldl_max_ge keys 0).2 p h

/-- `exclude(*keys)` = delete every listed entry if present (`specExclude`), for any order and any overlap of keys -/
theorem excludeT_refines (keys : List Path) (inplace : Bool) (kids : Kids) (hw : WF (.node kids))
    (hk : ∀ p ∈ keys, p ≠ []) :
    excludeT keys inplace (.node kids) =
      (if inplace then (specExclude keys (.node kids), .ok) else (.node kids, .res [specExclude keys (.node kids)])) := by
  simp only [excludeT]
  rw [excludeF_spec (maxLen keys) keys kids hw (fun p hp => ⟨hk p hp, le_maxLen hp⟩), specExclude_eq_sx keys kids hw hk]

/-! ### update -/

/-- apply a result obtained on the nested dict bound to `k` to the enclosing dict -/
def liftAt (k : String) (kids : Kids) (r : Entry × Except Err Unit) : Entry × Except Err Unit :=
  (.node (dset k r.1 kids), r.2)

theorem lookup_cons_some {k : String} {kids : Kids} {c : Entry} (h : dget k kids = some c) (q : Path) :
    lookup (k :: q) (.node kids) = lookup q c := by
  rw [lookup_cons_node, h]; rfl

theorem insert_cons_node {k : String} {kids sub : Kids} (h : dget k kids = some (.node sub)) (q : Path) (hq : q ≠ [])
    (v : Entry) : insert (k :: q) v (.node kids) = (insert q v (.node sub)).map (fun c => .node (dset k c kids)) := by
  match q, hq with
  | k2 :: rest, _ => simp [insert, h]

theorem writeAt_lift {k : String} {kids sub : Kids} (h : dget k kids = some (.node sub)) (q : Path) (hq : q ≠ [])
    (v : Entry) : writeAt (k :: q) v (.node kids) = liftAt k kids (writeAt q v (.node sub)) := by
  simp only [writeAt, insert_cons_node h q hq]
  cases insert q v (.node sub) with
  | none => simp [liftAt, dset_same k _ kids h]
  | some c => simp [liftAt]

theorem writeAt_node (q : Path) (v : Entry) (s : Kids) : ∃ s', (writeAt q v (.node s)).1 = .node s' := by
  simp only [writeAt]
  cases h : insert q v (.node s) with
  | none => exact ⟨s, rfl⟩
  | some t' => obtain ⟨s', rfl⟩ := insert_shape h; exact ⟨s', rfl⟩

/-- the nested-or-written first step for one dict-valued payload entry -/
theorem step_node (q : Path) (pv : Kids) (t t' : Entry) (o : Except Err Unit) (ht : ∃ s, t = .node s)
    (hm : ∃ s', (mergeKids q pv t).1 = .node s')
    (h : (match lookup q t with
      | some (.node _) => mergeKids q pv t
      | _ => writeAt q (.node pv) t) = (t', o)) : ∃ s', t' = .node s' := by
  obtain ⟨s, rfl⟩ := ht
  split at h
  · rw [h] at hm; exact hm
  · have := writeAt_node q (.node pv) s; rw [h] at this; exact this

theorem mergeKids_node (q : Path) (pv : Kids) (t : Entry) (ht : ∃ s, t = .node s) : ∃ s', (mergeKids q pv t).1 = .node s' := by
  fun_induction mergeKids q pv t
  · exact ht
  · rename_i p k' nt x r t t' e hx
    obtain ⟨s, rfl⟩ := ht; have := writeAt_node (p ++ [k']) (.leaf nt x) s; rw [hx] at this; exact this
  · rename_i p k' nt x r t t' hx ih
    obtain ⟨s, rfl⟩ := ht; have := writeAt_node (p ++ [k']) (.leaf nt x) s; rw [hx] at this; exact ih this
  · rename_i hx ih; exact step_node _ _ _ _ _ ht (ih ht) hx
  · rename_i hx ih2 ih1; exact ih1 (step_node _ _ _ _ _ ht (ih2 ht) hx)

/-- merging below `k :: q` in a dict = merging below `q` in the nested dict bound to `k` -/
theorem mergeKids_lift (q : Path) (pv : Kids) (t : Entry) (k : String) (kids sub : Kids)
    (h : dget k kids = some (.node sub)) (ht : t = .node sub) :
    mergeKids (k :: q) pv (.node kids) = (.node (dset k (mergeKids q pv t).1 kids), (mergeKids q pv t).2) := by
  fun_induction mergeKids q pv t generalizing kids sub
  · subst ht; simp [mergeKids, dset_same k _ kids h]
  · -- leaf value, refused
    rename_i p k' nt x r t t' e hx
    subst ht
    have hw := writeAt_lift h (p ++ [k']) (by simp) (.leaf nt x)
    rw [hx] at hw
    simp only [mergeKids, List.cons_append, hw, liftAt]
  · -- leaf value, written
    rename_i p k' nt x r t t' hx ih
    subst ht
    have hw := writeAt_lift h (p ++ [k']) (by simp) (.leaf nt x)
    rw [hx] at hw
    obtain ⟨s', hs'⟩ := writeAt_node (p ++ [k']) (.leaf nt x) sub
    rw [hx] at hs'; simp only at hs'
    simp only [mergeKids, List.cons_append, hw, liftAt]
    rw [ih (dset k t' kids) s' (by rw [dget_dset_same, hs']) hs', dset_dset_same]
  · -- dict value, refused
    rename_i p k' pv r t t' e hx ih
    subst ht
    have hm := ih kids sub h rfl
    have hw := writeAt_lift h (p ++ [k']) (by simp) (.node pv)
    cases hl : lookup (p ++ [k']) (.node sub) with
    | none =>
      simp only [hl] at hx; rw [hx] at hw
      simp only [mergeKids, List.cons_append, lookup_cons_some h, hl, hw, liftAt]
    | some c =>
      cases c with
      | leaf nt x =>
        simp only [hl] at hx; rw [hx] at hw
        simp only [mergeKids, List.cons_append, lookup_cons_some h, hl, hw, liftAt]
      | node s2 =>
        simp only [hl] at hx; rw [hx] at hm
        simp only [mergeKids, List.cons_append, lookup_cons_some h, hl, hm]
  · -- dict value, merged or written
    rename_i p k' pv r t t' hx ih2 ih1
    subst ht
    have hm := ih2 kids sub h rfl
    have hw := writeAt_lift h (p ++ [k']) (by simp) (.node pv)
    obtain ⟨s', hs'⟩ := step_node (p ++ [k']) pv (.node sub) t' _ ⟨sub, rfl⟩ (mergeKids_node _ _ _ ⟨sub, rfl⟩) hx
    have hrest := ih1 (dset k t' kids) s' (by rw [dget_dset_same, hs']) hs'
    rw [dset_dset_same] at hrest
    cases hl : lookup (p ++ [k']) (.node sub) with
    | none =>
      simp only [hl] at hx; rw [hx] at hw
      simp only [mergeKids, List.cons_append, lookup_cons_some h, hl, hw, liftAt, hrest]
    | some c =>
      cases c with
      | leaf nt x =>
        simp only [hl] at hx; rw [hx] at hw
        simp only [mergeKids, List.cons_append, lookup_cons_some h, hl, hw, liftAt, hrest]
      | node s2 =>
        simp only [hl] at hx; rw [hx] at hm
        simp only [mergeKids, List.cons_append, lookup_cons_some h, hl, hm, hrest]



/-- the items `{k: v for k, v in payload.items()}` of a nested payload, replayed at the root, are the merge of the payload -/
theorem specUpdate_kids (pv : Kids) (t : Entry) :
    specUpdate (pv.map (fun kv => ([kv.1], kv.2))) t = mergeKids [] pv t := by
  induction pv generalizing t with
  | nil => simp [specUpdate, mergeKids]
  | cons a r ih =>
    obtain ⟨k, v⟩ := a
    cases v with
    | leaf nt x =>
      simp only [List.map_cons, specUpdate, mergeKids, mergeTop, List.nil_append, List.cons_ne_nil, if_false]
      cases writeAt [k] (.leaf nt x) t with
      | mk t' o => cases o <;> simp [ih]
    | node pv' =>
      simp only [List.map_cons, specUpdate, mergeKids, mergeTop, List.nil_append, List.cons_ne_nil, if_false]
      generalize (match lookup [k] t with
        | some (.node _) => mergeKids [k] pv' t
        | _ => writeAt [k] (.node pv') t) = res
      obtain ⟨t', o⟩ := res
      cases o <;> simp [ih]

theorem mergeTop_lift (q : Path) (hq : q ≠ []) (v : Entry) (k : String) (kids sub : Kids)
    (h : dget k kids = some (.node sub)) :
    mergeTop (k :: q) v (.node kids) = (.node (dset k (mergeTop q v (.node sub)).1 kids), (mergeTop q v (.node sub)).2) := by
  cases v with
  | leaf nt x => simp only [mergeTop]; rw [writeAt_lift h q hq]; rfl
  | node pv =>
    simp only [mergeTop, lookup_cons_some h]
    cases hl : lookup q (.node sub) with
    | none => simp only []; rw [writeAt_lift h q hq]; rfl
    | some c =>
      cases c with
      | leaf nt x => simp only []; rw [writeAt_lift h q hq]; rfl
      | node s2 => simp only []; exact mergeKids_lift q pv (.node sub) k kids sub h rfl

theorem mergeTop_node (q : Path) (v : Entry) (s : Kids) : ∃ s', (mergeTop q v (.node s)).1 = .node s' := by
  cases v with
  | leaf nt x => exact writeAt_node _ _ _
  | node pv =>
    simp only [mergeTop]
    split
    · exact mergeKids_node _ _ _ ⟨s, rfl⟩
    · exact writeAt_node _ _ _



theorem payloadW_node (pv : Kids) : payloadW (.node pv) = payloadW.go pv := rfl

theorem updMeasure_kids (pv : Kids) : updMeasure (pv.map (fun kv => ([kv.1], kv.2))) = payloadW.go pv := by
  induction pv with
  | nil => simp [updMeasure, payloadW.go]
  | cons a r ih =>
    obtain ⟨k, v⟩ := a
    cases v with
    | leaf nt x => simp only [List.map_cons, updMeasure, ih, List.length_singleton, payloadW, payloadW.go]
    | node sub => simp only [List.map_cons, updMeasure, ih, List.length_singleton, payloadW, payloadW.go]

/-- what `_set_tuple` does to the state of a bulk operation -/
theorem direct_eq (p : Path) (v : Entry) (kids : Kids) :
    (match setTuple p v (.node kids) with
      | .error _ => (Entry.node kids, false)
      | .ok t' => (t', true)) = ((writeAt p v (.node kids)).1, okU (writeAt p v (.node kids)).2) := by
  simp only [writeAt]
  cases hi : insert p v (.node kids) with
  | none => obtain ⟨e, he⟩ := setTuple_error_of_insert hi; simp [he, okU]
  | some t' => simp [setTuple_of_insert hi, okU]

/-- the `_set_tuple` route of one item, followed by the rest -/
theorem direct_step (n : Nat) (p : Path) (v : Entry) (rest : List (Path × Entry)) (kids : Kids)
    (ih : ∀ kids', (updateF n rest (.node kids')).1 = (specUpdate rest (.node kids')).1 ∧
      okU (updateF n rest (.node kids')).2 = okU (specUpdate rest (.node kids')).2) :
    let code : Entry × Except Err Unit := match setTuple p v (.node kids) with
      | .error e => (.node kids, .error e)
      | .ok t' => updateF n rest t'
    let spec : Entry × Except Err Unit := match writeAt p v (.node kids) with
      | (t', .error e) => (t', .error e)
      | (t', .ok ()) => specUpdate rest t'
    code.1 = spec.1 ∧ okU code.2 = okU spec.2 := by
  simp only [writeAt]
  cases hi : insert p v (.node kids) with
  | none => obtain ⟨e, he⟩ := setTuple_error_of_insert hi; simp [he, okU]
  | some t' =>
    obtain ⟨kids', rfl⟩ := insert_shape hi
    simp only [setTuple_of_insert hi]
    exact ih kids'

/-- `update(payload)`: the recursive descent into the nested tensordicts equals the merge on the plain dict -/
theorem updateF_spec (n : Nat) (items : List (Path × Entry)) (kids : Kids) (hm : updMeasure items ≤ n) :
    (updateF n items (.node kids)).1 = (specUpdate items (.node kids)).1 ∧
    okU (updateF n items (.node kids)).2 = okU (specUpdate items (.node kids)).2 := by
  induction n generalizing items kids with
  | zero =>
    cases items with
    | nil => simp [updateF, specUpdate]
    | cons a r => obtain ⟨p, v⟩ := a; simp [updMeasure] at hm
  | succ n ih =>
    cases items with
    | nil => simp [updateF, specUpdate]
    | cons a rest =>
      obtain ⟨p, v⟩ := a
      simp only [updMeasure] at hm
      cases p with
      | nil => simp [updateF, specUpdate, okU]
      | cons k sub =>
        have hrest : updMeasure rest ≤ n := by omega
        have ihrest := fun kids' => ih rest kids' hrest
        -- the `_set_tuple` route
        have direct : ∀ (hne : ¬ (∃ tsub pv, dget k kids = some (.node tsub) ∧ v = .node pv)),
            mergeTop (k :: sub) v (.node kids) = writeAt (k :: sub) v (.node kids) := by
          intro hne
          cases v with
          | leaf nt x => rfl
          | node pv =>
            simp only [mergeTop]
            cases hl : lookup (k :: sub) (.node kids) with
            | none => rfl
            | some c =>
              cases c with
              | leaf nt x => rfl
              | node s2 =>
                exfalso
                rw [lookup_cons_node] at hl
                cases hd : dget k kids with
                | none => simp [hd] at hl
                | some c' =>
                  cases c' with
                  | leaf nt x => cases sub <;> simp [hd, lookup] at hl
                  | node tsub => exact hne ⟨tsub, pv, hd, rfl⟩
        by_cases hnest : ∃ tsub pv, dget k kids = some (.node tsub) ∧ v = .node pv
        · obtain ⟨tsub, pv, hd, rfl⟩ := hnest
          -- target.update(...)
          have hinner : updMeasure (if sub = [] then pv.map (fun kv => ([kv.1], kv.2)) else [(sub, Entry.node pv)]) ≤ n := by
            split
            · rename_i hs; subst hs; rw [updMeasure_kids]; simp [payloadW_node] at hm; omega
            · simp [updMeasure] at hm ⊢; omega
          have hIH := ih _ tsub hinner
          -- the replay of this item on the enclosing dict is the replay of the inner items on the nested dict
          have hlift : mergeTop (k :: sub) (.node pv) (.node kids) =
              (.node (dset k (specUpdate (if sub = [] then pv.map (fun kv => ([kv.1], kv.2)) else [(sub, Entry.node pv)]) (.node tsub)).1 kids),
               (specUpdate (if sub = [] then pv.map (fun kv => ([kv.1], kv.2)) else [(sub, Entry.node pv)]) (.node tsub)).2) := by
            by_cases hs : sub = []
            · subst hs
              have hl : lookup [k] (.node kids) = some (.node tsub) := by rw [lookup_cons_some hd]; rfl
              simp only [if_true, specUpdate_kids, mergeTop, hl]
              exact mergeKids_lift [] pv (.node tsub) k kids tsub hd rfl
            · simp only [hs, if_false]
              have : specUpdate [(sub, Entry.node pv)] (.node tsub) = mergeTop sub (.node pv) (.node tsub) := by
                simp only [specUpdate, hs, if_false]
                cases mergeTop sub (.node pv) (.node tsub) with
                | mk t' o => cases o <;> rfl
              rw [this]
              exact mergeTop_lift sub hs (.node pv) k kids tsub hd
          simp only [updateF, hd, specUpdate, List.cons_ne_nil, if_false, hlift]
          cases hc : updateF n (if sub = [] then pv.map (fun kv => ([kv.1], kv.2)) else [(sub, Entry.node pv)]) (.node tsub) with
          | mk c o =>
            cases hs2 : specUpdate (if sub = [] then pv.map (fun kv => ([kv.1], kv.2)) else [(sub, Entry.node pv)]) (.node tsub) with
            | mk c2 o2 =>
              rw [hc, hs2] at hIH
              obtain ⟨h1, h2⟩ := hIH
              simp only at h1 h2; subst h1
              cases o <;> cases o2 <;> simp [okU] at h2 ⊢
              exact ihrest _
        · -- `_set_tuple`
          have hcode : updateF (n + 1) ((k :: sub, v) :: rest) (.node kids) =
              (match setTuple (k :: sub) v (.node kids) with
                | .error e => (.node kids, .error e)
                | .ok t' => updateF n rest t') := by
            cases hd : dget k kids with
            | none => cases v <;> simp only [updateF, hd] <;> rfl
            | some c =>
              cases c with
              | leaf nt x => cases v <;> simp only [updateF, hd] <;> rfl
              | node tsub =>
                cases v with
                | leaf nt x => simp only [updateF, hd]; rfl
                | node pv => exact absurd ⟨tsub, pv, hd, rfl⟩ hnest
          rw [hcode]
          simp only [specUpdate, List.cons_ne_nil, if_false, direct hnest]
          exact direct_step n (k :: sub) v rest kids ihrest



theorem writeAt_wf (q : Path) (v t : Entry) (hw : WF t) (hv : WF v) : WF (writeAt q v t).1 := by
  simp only [writeAt]
  cases h : insert q v t with
  | none => exact hw
  | some t' => exact wf_insert q v t t' hw hv h

theorem WF.kid {kids : Kids} (h : WF (.node kids)) {k : String} {v : Entry} (hm : (k, v) ∈ kids) : WF v := by
  cases h with
  | node _ _ hk => exact hk k v hm

theorem mergeKids_wf (q : Path) (pv : Kids) (t : Entry) (hw : WF t) (hp : WF (.node pv)) : WF (mergeKids q pv t).1 := by
  fun_induction mergeKids q pv t
  · exact hw
  · rename_i p k' nt x r t t' e hx
    have := writeAt_wf (p ++ [k']) (.leaf nt x) t hw (WF.leaf _ _); rw [hx] at this; exact this
  · rename_i p k' nt x r t t' hx ih
    have := writeAt_wf (p ++ [k']) (.leaf nt x) t hw (WF.leaf _ _); rw [hx] at this
    exact ih this hp.tail
  · rename_i p k' pv r t t' e hx ih
    have hpv : WF (.node pv) := hp.head
    split at hx
    · have := ih hw hpv; rw [hx] at this; exact this
    · have := writeAt_wf (p ++ [k']) (.node pv) t hw hpv; rw [hx] at this; exact this
  · rename_i p k' pv r t t' hx ih2 ih1
    have hpv : WF (.node pv) := hp.head
    refine ih1 ?_ hp.tail
    split at hx
    · have := ih2 hw hpv; rw [hx] at this; exact this
    · have := writeAt_wf (p ++ [k']) (.node pv) t hw hpv; rw [hx] at this; exact this

theorem mergeTop_wf (q : Path) (v t : Entry) (hw : WF t) (hv : WF v) : WF (mergeTop q v t).1 := by
  cases v with
  | leaf nt x => exact writeAt_wf _ _ _ hw hv
  | node pv =>
    simp only [mergeTop]
    split
    · exact mergeKids_wf _ _ _ hw hv
    · exact writeAt_wf _ _ _ hw hv

/-- the replay of `update` keeps a well-formed node -/
theorem specUpdate_good (items : List (Path × Entry)) (kids : Kids) (hw : WF (.node kids)) (hv : ∀ kv ∈ items, WF kv.2) :
    ∃ kids', (specUpdate items (.node kids)).1 = .node kids' ∧ WF (.node kids') := by
  induction items generalizing kids with
  | nil => exact ⟨kids, rfl, hw⟩
  | cons a r ih =>
    obtain ⟨p, v⟩ := a
    simp only [specUpdate]
    by_cases hp : p = []
    · simp [hp]; exact hw
    · simp only [hp, if_false]
      obtain ⟨s', hs'⟩ := mergeTop_node p v kids
      have hwm := mergeTop_wf p v (.node kids) hw (hv (p, v) (by simp))
      cases hm : mergeTop p v (.node kids) with
      | mk t' o =>
        rw [hm] at hs' hwm; simp only at hs' hwm; subst hs'
        cases o with
        | error e => exact ⟨s', rfl, hwm⟩
        | ok u => cases u; exact ih s' hwm (fun kv hkv => hv kv (by simp [hkv]))


/-! ### select -/

/-- first components of the keys -/
def headsOf (keys : List Path) : List String := keys.filterMap List.head?

theorem headsOf_cons (p : Path) (keys : List Path) :
    headsOf (p :: keys) = (match p with | k :: _ => [k] | [] => []) ++ headsOf keys := by
  simp only [headsOf, List.filterMap_cons]
  cases p <;> rfl

/-- first loop of `_select` (all keys non-empty): `source` receives the entries named by the first components (when
bound), the nested sub-keys are grouped, the one-component keys are remembered as selected whole; a strict call
fails as soon as a first component is unbound -/
theorem selectScan_spec (strict : Bool) (kids : Kids) (keys : List Path) (src : Kids) (grp : List (String × List Path))
    (whole : List String) (hk : ∀ p ∈ keys, p ≠ []) (src' : Kids) (grp' : List (String × List Path)) (whole' : List String)
    (h : selectScan strict kids keys src grp whole = .ok (src', grp', whole')) :
    (∀ k, dget k src' = if k ∈ headsOf keys ∧ (dget k kids).isSome then dget k kids else dget k src) ∧
    (∀ k, lookupG k grp' = lookupG k grp ++ (if (dget k kids).isSome then tailsOf k keys else [])) ∧
    (∀ k, whole'.contains k = (whole.contains k || (keys.contains [k] && (dget k kids).isSome))) ∧
    ((grp.map (·.1)).Nodup → (grp'.map (·.1)).Nodup) ∧
    (strict = true → ∀ p ∈ keys, ∀ k, p.head? = some k → (dget k kids).isSome) := by
  induction keys generalizing src grp whole with
  | nil =>
    simp only [selectScan] at h; simp at h; obtain ⟨rfl, rfl, rfl⟩ := h
    simp [headsOf, tailsOf]
  | cons p ps ih =>
    have hps : ∀ q ∈ ps, q ≠ [] := fun q hq => hk q (by simp [hq])
    match p, hk p (by simp) with
    | k :: sub, _ =>
      simp only [selectScan] at h
      cases hd : dget k kids with
      | none =>
        simp only [hd] at h
        cases strict with
        | true => simp at h
        | false =>
          simp only [Bool.false_eq_true, if_false] at h
          obtain ⟨h1, h2, h3, h4, h5⟩ := ih src grp whole hps h
          refine ⟨fun k' => ?_, fun k' => ?_, fun k' => ?_, h4, by simp⟩
          · rw [h1 k', headsOf_cons]
            by_cases hkk : k' = k
            · subst hkk; simp [hd]
            · have : ¬ k = k' := fun e => hkk e.symm
              simp [this, hkk]
          · rw [h2 k', tailsOf_cons]
            by_cases hkk : k = k'
            · subst hkk; simp [hd]
            · simp [hkk]
          · rw [h3 k']
            by_cases hkk : k' = k
            · subst hkk; simp [hd]
            · have : (([k'] : Path) == k :: sub) = false := by simp [hkk]
              simp [List.contains_cons, this, hkk]
      | some v =>
        simp only [hd] at h
        by_cases hs : sub = []
        · subst hs
          simp only [if_true] at h
          obtain ⟨h1, h2, h3, h4, h5⟩ := ih (dset k v src) grp (k :: whole) hps h
          refine ⟨fun k' => ?_, fun k' => ?_, fun k' => ?_, h4, fun hst p hp k' hk' => ?_⟩
          · rw [h1 k', headsOf_cons]
            by_cases hkk : k' = k
            · subst hkk; simp [hd, dget_dset_same]
            · have hne : k ≠ k' := fun e => hkk e.symm
              have : ¬ k = k' := hne
              simp [this, hkk, dget_dset_other _ hne]
          · rw [h2 k', tailsOf_cons]; simp
          · rw [h3 k']
            by_cases hkk : k' = k
            · subst hkk; simp [hd]
            · have : (([k'] : Path) == [k]) = false := by simp [hkk]
              have h2' : (k' == k) = false := by simp [hkk]
              simp [List.contains_cons, this, h2', hkk]
          · simp only [List.mem_cons] at hp
            rcases hp with rfl | hp
            · simp at hk'; subst hk'; simp [hd]
            · exact h5 hst p hp k' hk'
        · simp only [hs, if_false] at h
          obtain ⟨h1, h2, h3, h4, h5⟩ := ih (dset k v src) (groupAdd k sub grp) whole hps h
          refine ⟨fun k' => ?_, fun k' => ?_, fun k' => ?_, fun hn => h4 (nodup_groupAdd _ _ _ hn), fun hst p hp k' hk' => ?_⟩
          · rw [h1 k', headsOf_cons]
            by_cases hkk : k' = k
            · subst hkk; simp [hd, dget_dset_same]
            · have hne : k ≠ k' := fun e => hkk e.symm
              have : ¬ k = k' := hne
              simp [this, hkk, dget_dset_other _ hne]
          · rw [h2 k', lookupG_groupAdd, tailsOf_cons]
            by_cases hkk : k' = k
            · subst hkk; simp [hd, hs]
            · have : ¬ k = k' := fun e => hkk e.symm
              simp [hkk, this]
          · rw [h3 k']
            have : (([k'] : Path) == k :: sub) = false := by
              cases sub with
              | nil => exact absurd rfl hs
              | cons a b => simp
            simp [List.contains_cons, this, hs]
          · simp only [List.mem_cons] at hp
            rcases hp with rfl | hp
            · simp at hk'; subst hk'; simp [hd]
            · exact h5 hst p hp k' hk'



/-- what the second loop of `_select` leaves in `source` for the group `(k, l)` (out of place) -/
def GroupDone (f : List Path → Bool → Bool → Entry → Entry × Except Err Entry) (strict : Bool) (whole : List String)
    (src srcF : Kids) (k : String) (l : List Path) : Prop :=
  match dget k src with
  | none => dget k srcF = none
  | some child =>
    if whole.contains k then dget k srcF = some child ∧ (strict = true → ∃ c, (f l true false child).2 = .ok c)
    else ∃ c, (f l strict false child).2 = .ok c ∧ dget k srcF = some c

theorem selectGroups_out (f : List Path → Bool → Bool → Entry → Entry × Except Err Entry) (strict : Bool)
    (whole : List String) (G : List (String × List Path)) (cur src : Kids) (hG : (G.map (·.1)).Nodup) :
    (selectGroups f strict false whole G cur src).1 = cur ∧
    ∀ srcF, (selectGroups f strict false whole G cur src).2 = .ok srcF →
      (∀ k, k ∉ G.map (·.1) → dget k srcF = dget k src) ∧
      (∀ k l, (k, l) ∈ G → GroupDone f strict whole src srcF k l) := by
  induction G generalizing src with
  | nil =>
    simp only [selectGroups]
    exact ⟨trivial, fun srcF h => by simp at h; subst h; exact ⟨fun _ _ => rfl, by simp⟩⟩
  | cons a r ih =>
    obtain ⟨k, subs⟩ := a
    simp only [List.map_cons, List.nodup_cons] at hG
    -- the tail never touches `k`
    have tail_k : ∀ (src2 : Kids) srcF, (selectGroups f strict false whole r cur src2).2 = .ok srcF → dget k srcF = dget k src2 :=
      fun src2 srcF h => ((ih src2 hG.2).2 srcF h).1 k hG.1
    simp only [selectGroups]
    cases hd : dget k src with
    | none =>
      simp only []
      obtain ⟨h1, h2⟩ := ih src hG.2
      refine ⟨h1, fun srcF h => ?_⟩
      obtain ⟨ha, hb⟩ := h2 srcF h
      refine ⟨fun k' hk' => ha k' (by simp only [List.map_cons, List.mem_cons, not_or] at hk'; exact hk'.2), fun k' l hm => ?_⟩
      simp only [List.mem_cons, Prod.mk.injEq] at hm
      rcases hm with ⟨rfl, rfl⟩ | hm
      · simp only [GroupDone, hd]; rw [tail_k src srcF h, hd]
      · exact hb k' l hm
    | some child =>
      simp only []
      by_cases hw : whole.contains k = true
      · simp only [hw, if_true]
        cases strict with
        | false =>
          simp only [Bool.false_eq_true, if_false]
          obtain ⟨h1, h2⟩ := ih src hG.2
          refine ⟨h1, fun srcF h => ?_⟩
          obtain ⟨ha, hb⟩ := h2 srcF h
          refine ⟨fun k' hk' => ha k' (by simp only [List.map_cons, List.mem_cons, not_or] at hk'; exact hk'.2), fun k' l hm => ?_⟩
          simp only [List.mem_cons, Prod.mk.injEq] at hm
          rcases hm with ⟨rfl, rfl⟩ | hm
          · simp only [GroupDone, hd, hw, if_true]; rw [tail_k src srcF h, hd]; simp
          · exact hb k' l hm
        | true =>
          simp only [if_true]
          cases hf : (f subs true false child).2 with
          | error e => simp only []; exact ⟨trivial, fun srcF h => by simp at h⟩
          | ok c =>
            simp only []
            obtain ⟨h1, h2⟩ := ih src hG.2
            refine ⟨h1, fun srcF h => ?_⟩
            obtain ⟨ha, hb⟩ := h2 srcF h
            refine ⟨fun k' hk' => ha k' (by simp only [List.map_cons, List.mem_cons, not_or] at hk'; exact hk'.2), fun k' l hm => ?_⟩
            simp only [List.mem_cons, Prod.mk.injEq] at hm
            rcases hm with ⟨rfl, rfl⟩ | hm
            · simp only [GroupDone, hd, hw, if_true]; rw [tail_k src srcF h, hd]; exact ⟨rfl, fun _ => ⟨c, hf⟩⟩
            · exact hb k' l hm
      · have hw' : whole.contains k = false := by simpa using hw
        simp only [hw', Bool.false_eq_true, if_false]
        cases hf : f subs strict false child with
        | mk child' o =>
          cases o with
          | error e => simp only []; exact ⟨trivial, fun srcF h => by simp at h⟩
          | ok c =>
            simp only []
            obtain ⟨h1, h2⟩ := ih (dset k c src) hG.2
            refine ⟨h1, fun srcF h => ?_⟩
            obtain ⟨ha, hb⟩ := h2 srcF h
            refine ⟨fun k' hk' => ?_, fun k' l hm => ?_⟩
            · simp only [List.map_cons, List.mem_cons, not_or] at hk'
              rw [ha k' hk'.2, dget_dset_other _ (fun e => hk'.1 e.symm)]
            · simp only [List.mem_cons, Prod.mk.injEq] at hm
              rcases hm with ⟨rfl, rfl⟩ | hm
              · simp only [GroupDone, hd, hw', Bool.false_eq_true, if_false]
                refine ⟨c, by rw [hf], ?_⟩
                rw [tail_k _ srcF h, dget_dset_same]
              · -- a later group: its entry of `source` was not touched by this one
                have hne : k ≠ k' := by
                  intro e; subst e; exact hG.1 (List.mem_map_of_mem (f := (·.1)) hm)
                have := hb k' l hm
                simp only [GroupDone, dget_dset_other _ hne] at this ⊢
                exact this



theorem mem_tailsOf_iff {k : String} {keys : List Path} {q : Path} : q ∈ tailsOf k keys ↔ q ≠ [] ∧ (k :: q) ∈ keys := by
  constructor
  · exact mem_tailsOf
  · rintro ⟨h1, h2⟩
    simp only [tailsOf, List.mem_filterMap]
    exact ⟨k :: q, h2, by simp [h1]⟩

theorem mem_headsOf_iff {k : String} {keys : List Path} : k ∈ headsOf keys ↔ ∃ r, (k :: r) ∈ keys := by
  simp only [headsOf, List.mem_filterMap]
  constructor
  · rintro ⟨p, hp, hh⟩
    cases p with
    | nil => simp at hh
    | cons a b => simp at hh; subst hh; exact ⟨b, hp⟩
  · rintro ⟨r, hr⟩; exact ⟨k :: r, hr, rfl⟩

theorem isLeaf_lookup_nil {e : Entry} {nt : Bool} {v : Nat} (h : lookup [] e = some (.leaf nt v)) : e = .leaf nt v := by
  simpa [lookup] using h

/-- a key that is a prefix of `k :: rest` is `[k]` or `k :: q'` with `q'` a non-empty prefix of `rest` -/
theorem prefix_cons_cases {q : Path} {k : String} {rest : Path} (hq : q ≠ []) (h : isPrefix q (k :: rest) = true) :
    q = [k] ∨ ∃ q', q' ≠ [] ∧ q = k :: q' ∧ isPrefix q' rest = true := by
  cases q with
  | nil => exact absurd rfl hq
  | cons a q' =>
    simp only [isPrefix, Bool.and_eq_true, beq_iff_eq] at h
    obtain ⟨rfl, h2⟩ := h
    cases q' with
    | nil => exact Or.inl rfl
    | cons b c => exact Or.inr ⟨b :: c, by simp, rfl, h2⟩



theorem select_leaves (n : Nat) : ∀ (keys : List Path) (strict : Bool) (kids : Kids) (r : Entry),
    (∀ p ∈ keys, p ≠ [] ∧ p.length ≤ n) →
    (selectF (n + 1) keys strict false (.node kids)).2 = .ok r →
    ∃ rk, r = .node rk ∧ SelectsLeaves keys kids rk := by
  induction n with
  | zero =>
    intro keys strict kids r hk h
    -- no key can exist
    have hke : keys = [] := by
      cases keys with
      | nil => rfl
      | cons p ps => have := hk p (by simp); cases p <;> simp at this
    subst hke
    simp [selectF, selectScan, selectGroups] at h
    subst h
    exact ⟨[], rfl, fun p nt v hp => by cases p <;> simp [lookup_cons_node, dget] at hp ⊢⟩
  | succ m ih =>
    intro keys strict kids r hk h
    simp only [selectF] at h
    cases hscan : selectScan strict kids keys [] [] [] with
    | error e => simp [hscan] at h
    | ok res =>
      obtain ⟨src0, G, whole⟩ := res
      simp only [hscan] at h
      obtain ⟨ha, hb, hc, hd, _⟩ := selectScan_spec strict kids keys [] [] [] (fun p hp => (hk p hp).1) src0 G whole hscan
      have hGn := hd (by simp)
      obtain ⟨_, hgroups⟩ := selectGroups_out (selectF (m + 1)) strict whole G kids src0 hGn
      cases hg : selectGroups (selectF (m + 1)) strict false whole G kids src0 with
      | mk cur R =>
        rw [hg] at h hgroups
        cases R with
        | error e => simp at h
        | ok srcF =>
          simp at h; subst h
          obtain ⟨hout, hin⟩ := hgroups srcF rfl
          refine ⟨srcF, rfl, ?_⟩
          intro p nt v hp
          cases p with
          | nil => exact absurd rfl hp
          | cons k rest =>
            rw [lookup_cons_node, lookup_cons_node]
            -- facts from the scan, specialised to `k`
            have ha' := ha k; simp only [dget] at ha'
            have hb' := hb k; simp only [lookupG, List.nil_append] at hb'
            have hc' := hc k; simp only [List.contains_nil, Bool.false_or] at hc'
            by_cases hkG : k ∈ G.map (·.1)
            · -- a group exists for `k`
              obtain ⟨⟨k0, l⟩, hm, hk0⟩ := List.mem_map.mp hkG
              simp only at hk0; subst hk0
              have hl := mem_lookupG hGn hm
              have hdone := hin k0 l hm
              simp only [GroupDone] at hdone
              cases hs0 : dget k0 src0 with
              | none =>
                simp only [hs0] at hdone
                rw [hdone]
                simp only [Option.bind]
                constructor
                · intro h; simp at h
                · rintro ⟨hl2, q, hq, hpre⟩
                  exfalso
                  -- then `k0` is bound and a key starts with it: `source` must hold it
                  have hbound : (dget k0 kids).isSome = true := by
                    cases hdk : dget k0 kids with
                    | none => simp [hdk] at hl2
                    | some c => rfl
                  have hhead : k0 ∈ headsOf keys := by
                    rcases prefix_cons_cases (hk q hq).1 hpre with rfl | ⟨q', _, rfl, _⟩
                    · exact mem_headsOf_iff.mpr ⟨[], hq⟩
                    · exact mem_headsOf_iff.mpr ⟨q', hq⟩
                  rw [hs0] at ha'
                  simp [hhead, hbound] at ha'
                  rw [← ha'] at hbound; simp at hbound
              | some child =>
                simp only [hs0] at hdone
                -- `child` is the receiver's entry
                have hchild : dget k0 kids = some child := by
                  rw [hs0] at ha'
                  by_cases hcond : k0 ∈ headsOf keys ∧ (dget k0 kids).isSome = true
                  · simp [hcond] at ha'; exact ha'.symm
                  · simp [hcond] at ha'
                have hbound : (dget k0 kids).isSome = true := by simp [hchild]
                by_cases hw : whole.contains k0 = true
                · simp only [hw, if_true] at hdone
                  rw [hdone.1, hchild]
                  have hmem : [k0] ∈ keys := by
                    rw [hc'] at hw; simp at hw; exact hw.1
                  constructor
                  · intro h; exact ⟨h, [k0], hmem, by simp [isPrefix]⟩
                  · intro h; exact h.1
                · have hw' : whole.contains k0 = false := by simpa using hw
                  simp only [hw', Bool.false_eq_true, if_false] at hdone
                  obtain ⟨c, hfc, hsc⟩ := hdone
                  have hnot : [k0] ∉ keys := by
                    intro hmem; rw [hc'] at hw'; simp [hmem, hbound] at hw'
                  have hl' : l = tailsOf k0 keys := by rw [← hl, hb']; simp [hbound]
                  subst hl'
                  rw [hsc, hchild]
                  simp only [Option.bind]
                  cases child with
                  | leaf nt' v' => simp [selectF] at hfc
                  | node ck =>
                    have hkl : ∀ q ∈ tailsOf k0 keys, q ≠ [] ∧ q.length ≤ m := by
                      intro q hq
                      obtain ⟨h1, h2⟩ := mem_tailsOf hq
                      have := (hk _ h2).2; simp at this
                      exact ⟨h1, by omega⟩
                    obtain ⟨rk', hrk, hsel⟩ := ih (tailsOf k0 keys) strict ck c hkl hfc
                    subst hrk
                    cases rest with
                    | nil =>
                      simp only [lookup]
                      constructor
                      · intro h; simp at h
                      · intro h; simp at h
                    | cons r1 r2 =>
                      rw [hsel (r1 :: r2) nt v (by simp)]
                      constructor
                      · rintro ⟨h1, q', hq', hpre⟩
                        exact ⟨h1, k0 :: q', (mem_tailsOf hq').2, by simp [isPrefix, hpre]⟩
                      · rintro ⟨h1, q, hq, hpre⟩
                        refine ⟨h1, ?_⟩
                        rcases prefix_cons_cases (hk q hq).1 hpre with rfl | ⟨q', hq'ne, rfl, hpre'⟩
                        · exact absurd hq hnot
                        · exact ⟨q', mem_tailsOf_iff.mpr ⟨hq'ne, hq⟩, hpre'⟩
            · -- no group for `k`: `source` kept what the scan put there
              rw [hout k hkG]
              have hlG : lookupG k G = [] := lookupG_absent k G hkG
              by_cases hwk : [k] ∈ keys ∧ (dget k kids).isSome = true
              · have hhead : k ∈ headsOf keys := mem_headsOf_iff.mpr ⟨[], hwk.1⟩
                rw [ha']; simp only [hhead, hwk.2, and_self, if_true]
                constructor
                · intro h; exact ⟨h, [k], hwk.1, by simp [isPrefix]⟩
                · intro h; exact h.1
              · -- nothing selected under `k`
                have hnone : dget k src0 = none ∨ ((dget k kids).isSome = true ∧ k ∈ headsOf keys) := by
                  rw [ha']
                  by_cases hcond : k ∈ headsOf keys ∧ (dget k kids).isSome = true
                  · exact Or.inr ⟨hcond.2, hcond.1⟩
                  · simp [hcond]
                have hfalse : ¬ ((dget k kids).isSome = true ∧ k ∈ headsOf keys) := by
                  rintro ⟨hbd, hh⟩
                  obtain ⟨r', hr'⟩ := mem_headsOf_iff.mp hh
                  have hr'ne : r' ≠ [] := by
                    intro e; subst e; exact hwk ⟨hr', hbd⟩
                  have : r' ∈ tailsOf k keys := mem_tailsOf_iff.mpr ⟨hr'ne, hr'⟩
                  rw [hlG] at hb'; simp [hbd] at hb'
                  rw [hb'] at this; simp at this
                rcases hnone with hn | hn
                · rw [hn]; simp only [Option.bind]
                  constructor
                  · intro h; simp at h
                  · rintro ⟨hl2, q, hq, hpre⟩
                    exfalso
                    have hbound : (dget k kids).isSome = true := by
                      cases hdk : dget k kids with
                      | none => simp [hdk] at hl2
                      | some c => rfl
                    have hhead : k ∈ headsOf keys := by
                      rcases prefix_cons_cases (hk q hq).1 hpre with rfl | ⟨q', _, rfl, _⟩
                      · exact mem_headsOf_iff.mpr ⟨[], hq⟩
                      · exact mem_headsOf_iff.mpr ⟨q', hq⟩
                    exact hfalse ⟨hbound, hhead⟩
                · exact absurd hn hfalse



theorem selectGroups_inplace_result (f : List Path → Bool → Bool → Entry → Entry × Except Err Entry) (strict : Bool)
    (whole : List String) (hf : ∀ subs s child, (f subs s true child).2 = (f subs s false child).2)
    (G : List (String × List Path)) (cur cur' src : Kids) :
    (selectGroups f strict true whole G cur src).2 = (selectGroups f strict false whole G cur' src).2 := by
  induction G generalizing cur cur' src with
  | nil => simp [selectGroups]
  | cons a r ih =>
    obtain ⟨k, subs⟩ := a
    simp only [selectGroups]
    cases hd : dget k src with
    | none => exact ih cur cur' src
    | some child =>
      simp only []
      by_cases hw : whole.contains k = true
      · simp only [hw, if_true]
        cases strict with
        | false => simp only [Bool.false_eq_true, if_false]; exact ih cur cur' src
        | true =>
          simp only [if_true]
          cases (f subs true false child).2 with
          | error e => rfl
          | ok c => exact ih cur cur' src
      · have hw' : whole.contains k = false := by simpa using hw
        simp only [hw', Bool.false_eq_true, if_false]
        have := hf subs strict child
        cases h1 : f subs strict true child with
        | mk c1 o1 =>
          cases h2 : f subs strict false child with
          | mk c2 o2 =>
            rw [h1, h2] at this; simp only at this; subst this
            cases o1 with
            | error e => rfl
            | ok c => exact ih _ _ _

/-- `select(inplace=True)` computes the same result as `select(inplace=False)`, and when it succeeds the receiver *is*
that result; out of place the receiver is untouched -/
theorem selectF_inplace (n : Nat) : ∀ (keys : List Path) (strict : Bool) (t : Entry),
    (selectF n keys strict true t).2 = (selectF n keys strict false t).2 ∧
    (∀ r, (selectF n keys strict true t).2 = .ok r → (selectF n keys strict true t).1 = r) ∧
    (selectF n keys strict false t).1 = t := by
  induction n with
  | zero =>
    intro keys strict t
    cases t <;> simp [selectF]
  | succ m ih =>
    intro keys strict t
    cases t with
    | leaf nt v => simp [selectF]
    | node kids =>
      simp only [selectF]
      cases hscan : selectScan strict kids keys [] [] [] with
      | error e => simp
      | ok res =>
        obtain ⟨src0, G, whole⟩ := res
        simp only []
        have hres := selectGroups_inplace_result (selectF m) strict whole (fun subs s child => (ih subs s child).1) G kids kids src0
        -- out of place the receiver's entries are never replaced
        have hcur : ∀ (G : List (String × List Path)) (cur src : Kids),
            (selectGroups (selectF m) strict false whole G cur src).1 = cur := by
          intro G
          induction G with
          | nil => intro cur src; simp [selectGroups]
          | cons a r ihG =>
            intro cur src
            obtain ⟨k, subs⟩ := a
            simp only [selectGroups]
            cases dget k src with
            | none => exact ihG cur src
            | some child =>
              simp only []
              split
              · split
                · split
                  · rfl
                  · exact ihG cur src
                · exact ihG cur src
              · split
                · simp
                · simp only [Bool.false_eq_true, if_false]; exact ihG _ _
        cases h1 : selectGroups (selectF m) strict true whole G kids src0 with
        | mk c1 R1 =>
          cases h2 : selectGroups (selectF m) strict false whole G kids src0 with
          | mk c2 R2 =>
            rw [h1, h2] at hres; simp only at hres; subst hres
            have := hcur G kids src0; rw [h2] at this; simp only at this; subst this
            cases R1 with
            | error e => simp
            | ok srcF => simp


/-! ### is_empty, duplicate-free views -/

theorem isEmpty_go_iff (kids : Kids) (pre : Path) : isEmpty.go kids = true ↔ iterItems.go true true kids pre = [] := by
  fun_induction isEmpty.go kids generalizing pre
  · simp [iterItems.go]
  · rename_i k v r ih2 ih1
    cases v with
    | leaf nt x => cases nt <;> simp [iterItems.go, Entry.isLeafFor]
    | node sub =>
      simp only at ih2
      simp only [Bool.and_eq_true, iterItems.go, Entry.isLeafFor, Bool.not_true, Bool.false_or, Bool.false_eq_true,
        if_false, List.nil_append, List.append_eq_nil_iff]
      rw [ih2 (pre ++ [k]), ih1 pre]

/-- `is_empty()` is true exactly when no tensor / non-tensor is bound anywhere below (empty nested tensordicts do not count) -/
theorem isEmpty_iff (kids : Kids) (hw : WF (.node kids)) :
    isEmpty (.node kids) = true ↔ ∀ p e, bound p e kids → e.isLeafFor true = false := by
  simp only [isEmpty]
  rw [isEmpty_go_iff kids []]
  constructor
  · intro h p e hb
    cases hl : e.isLeafFor true with
    | false => rfl
    | true =>
      have := (mem_leavesOf kids hw p e).mpr ⟨hb, hl⟩
      simp only [leavesOf, iterItems] at this
      rw [h] at this; simp at this
  · intro h
    cases hi : iterItems.go true true kids [] with
    | nil => rfl
    | cons a r =>
      obtain ⟨p, e⟩ := a
      have hm : (p, e) ∈ leavesOf (.node kids) := by simp [leavesOf, iterItems, hi]
      obtain ⟨hb, hl⟩ := (mem_leavesOf kids hw p e).mp hm
      rw [h p e hb] at hl; simp at hl



theorem bound_head_mem {p : Path} {e : Entry} {kids : Kids} (h : bound p e kids) : ∃ k rest, p = k :: rest ∧ k ∈ kids.map (·.1) := by
  obtain ⟨hp, hl⟩ := h
  cases p with
  | nil => exact absurd rfl hp
  | cons k rest =>
    refine ⟨k, rest, rfl, ?_⟩
    rw [lookup_cons_node] at hl
    cases hd : dget k kids with
    | none => simp [hd] at hl
    | some c => exact (dget_isSome_iff_mem k kids).mp (by simp [hd])

/-- the nested key view lists no key twice (unique keys per node) -/
theorem iterHelper_go_nodup (lo nt : Bool) (kids : Kids) (pre : Path) (hw : WF (.node kids)) :
    (iterHelper.go lo nt kids pre).Nodup := by
  fun_induction iterHelper.go lo nt kids pre
  · simp
  · rename_i k v r pre full ih2 ih1
    have hr := ih1 hw.tail
    have hfresh := hw.head_fresh
    have hA : (match v with | .node sub => iterHelper.go lo nt sub full | .leaf .. => ([] : List Path)).Nodup := by
      cases v with
      | leaf nt' x => simp
      | node sub => exact ih2 hw.head
    -- what the three parts contain
    have memA : ∀ q, q ∈ (match v with | .node sub => iterHelper.go lo nt sub full | .leaf .. => ([] : List Path)) →
        ∃ p', p' ≠ [] ∧ q = pre ++ k :: p' := by
      intro q hq
      cases v with
      | leaf nt' x => simp at hq
      | node sub =>
        obtain ⟨p', e, rfl, hb, _⟩ := (mem_iterHelper_go lo nt sub full q hw.head).mp hq
        exact ⟨p', hb.1, by simp [full]⟩
    have memC : ∀ q, q ∈ iterHelper.go lo nt r pre → ∃ k' rest, k' ≠ k ∧ q = pre ++ k' :: rest := by
      intro q hq
      obtain ⟨p, e, rfl, hb, _⟩ := (mem_iterHelper_go lo nt r pre q hw.tail).mp hq
      obtain ⟨k', rest, rfl, hk'⟩ := bound_head_mem hb
      refine ⟨k', rest, ?_, rfl⟩
      intro e'; subst e'
      exact (dget_none_iff k' r).mp hfresh hk'
    refine List.nodup_append.mpr ⟨List.nodup_append.mpr ⟨hA, by split <;> simp, ?_⟩, hr, ?_⟩
    · intro a ha b hb
      split at hb
      · simp at hb; subst hb
        obtain ⟨p', hp', rfl⟩ := memA a ha
        intro e; simp [full] at e; exact hp' e
      · simp at hb
    · intro a ha b hb
      obtain ⟨k', rest, hne, rfl⟩ := memC b hb
      simp only [List.mem_append] at ha
      rcases ha with ha | ha
      · obtain ⟨p', _, rfl⟩ := memA a ha
        intro e; simp at e; exact hne e.1.symm
      · split at ha
        · simp at ha; subst ha
          intro e; simp [full] at e; exact hne e.1.symm
        · simp at ha


/-! ### flatten_keys in place -/

/-- leaves-only: the key view and the item view run through the leaves in the same order -/
theorem iterHelper_eq_items_leaves (kids : Kids) (pre : Path) :
    iterHelper.go true true kids pre = (iterItems.go true true kids pre).map (·.1) := by
  fun_induction iterHelper.go true true kids pre
  · simp [iterItems.go]
  · rename_i k v r pre full ih2 ih1
    cases v with
    | leaf nt x => cases nt <;> simp [iterItems.go, Entry.isLeafFor, ih1, full]
    | node sub =>
      simp only at ih2
      simp [iterItems.go, Entry.isLeafFor, ih1, ih2, full]

theorem keysView_leaves (kids : Kids) :
    keysView ⟨true, true, false, true⟩ (.node kids) = (leavesOf (.node kids)).map (·.1) := by
  simp [keysView, iterHelper, leavesOf, iterItems, iterHelper_eq_items_leaves]

/-- generic `set()` lemmas -/
theorem mem_dedup' {α} [BEq α] [LawfulBEq α] (l : List α) (x : α) : x ∈ dedup l ↔ x ∈ l := by
  induction l with
  | nil => simp [dedup]
  | cons a r ih =>
    simp only [dedup]
    split
    · rename_i h
      have ha : a ∈ dedup r := by simpa using h
      rw [ih, List.mem_cons]
      constructor
      · intro h'; exact Or.inr h'
      · intro h'
        rcases h' with rfl | h'
        · exact ih.mp ha
        · exact h'
    · simp [ih]

theorem dedup_nodup_eq {α} [BEq α] [LawfulBEq α] (l : List α) (h : l.Nodup) : dedup l = l := by
  induction l with
  | nil => simp [dedup]
  | cons a r ih =>
    simp only [List.nodup_cons] at h
    simp only [dedup]
    have : (dedup r).contains a = false := by
      cases hc : (dedup r).contains a with
      | false => rfl
      | true => exact absurd ((mem_dedup' r a).mp (by simpa using hc)) h.1
    rw [ih h.2] at this ⊢
    simp [h.1]

/-- a path through a leaf is bound to nothing -/
theorem lookup_below_leaf (p q : Path) (t : Entry) (nt : Bool) (v : Nat) (hq : q ≠ [])
    (h : lookup p t = some (.leaf nt v)) : lookup (p ++ q) t = none := by
  induction p generalizing t with
  | nil =>
    simp [lookup] at h; subst h
    cases q with
    | nil => exact absurd rfl hq
    | cons a b => simp [lookup]
  | cons k rest ih =>
    cases t with
    | leaf nt' v' => simp [lookup] at h
    | node kids =>
      rw [lookup_cons_node] at h
      simp only [List.cons_append, lookup_cons_node]
      cases hd : dget k kids with
      | none => simp [hd] at h
      | some c => simp only [hd, Option.bind] at h ⊢; exact ih c h

/-- two different leaf paths are never prefixes of one another -/
theorem leaf_paths_unrelated (p q : Path) (t : Entry) (e1 e2 : Entry) (h1 : lookup p t = some e1) (h2 : lookup q t = some e2)
    (hl1 : e1.isLeafFor true = true) (hne : p ≠ q) : isPrefix p q = false := by
  cases hp : isPrefix p q with
  | false => rfl
  | true =>
    obtain ⟨ext, rfl⟩ := (isPrefix_iff_append p q).mp hp
    have hext : ext ≠ [] := by intro e; subst e; simp at hne
    cases e1 with
    | node s => simp [Entry.isLeafFor] at hl1
    | leaf nt v =>
      rw [lookup_below_leaf p ext t nt v hext h1] at h2; simp at h2



theorem popT_leaf (p : Path) (t t1 e : Entry) (hp : p ≠ []) (hl : lookup p t = some e) (hr : remove p t = some t1) :
    popT p false t = (t1, .val (some e)) := by
  cases p with
  | nil => exact absurd rfl hp
  | cons k r =>
    rw [popT_cons, getTuple_eq (k :: r) t (by simp) (throughLeaf_false_of_lookup hl), hl]
    simp [delTuple_of_remove hr]

/-- `[self.pop(leaf) for leaf in all_leaves]`: every leaf comes out with its value, nothing else is touched -/
theorem popAll_spec (L : List Path) (t : Entry) (acc : List Entry) (hw : WF t)
    (hL : ∀ p ∈ L, p ≠ [] ∧ ∃ e, lookup p t = some e ∧ e.isLeafFor true = true) (hn : L.Nodup) :
    popAll L t acc = (removeAll L t, .ok (acc.reverse ++ L.map (fun p => (lookup p t).getD (.node [])))) := by
  induction L generalizing t acc with
  | nil => simp [popAll, removeAll]
  | cons p r ih =>
    obtain ⟨hp, e, hl, hleaf⟩ := hL p (by simp)
    obtain ⟨t1, hr⟩ := remove_some_of_lookup hp hl
    simp only [List.nodup_cons] at hn
    simp only [popAll, popT_leaf p t t1 e hp hl hr]
    -- the other leaves are untouched by the removal of `p`
    have hother : ∀ q ∈ r, lookup q t1 = lookup q t := by
      intro q hq
      obtain ⟨_, e2, hl2, hleaf2⟩ := hL q (by simp [hq])
      have hne : p ≠ q := fun e => hn.1 (e ▸ hq)
      exact lookup_remove_other p t t1 hr q (leaf_paths_unrelated p q t e e2 hl hl2 hleaf hne)
        (leaf_paths_unrelated q p t e2 e hl2 hl hleaf2 (fun e => hne e.symm))
    have hL1 : ∀ q ∈ r, q ≠ [] ∧ ∃ e, lookup q t1 = some e ∧ e.isLeafFor true = true := by
      intro q hq
      obtain ⟨h1, e2, hl2, hleaf2⟩ := hL q (by simp [hq])
      exact ⟨h1, e2, by rw [hother q hq]; exact hl2, hleaf2⟩
    rw [ih t1 (e :: acc) (wf_remove p t t1 hw hr) hL1 hn.2]
    simp only [removeAll, List.foldl_cons, hr, Option.getD_some, List.reverse_cons, List.map_cons, hl,
      List.append_assoc, List.singleton_append]
    have hmap : List.map (fun p => (lookup p t1).getD (Entry.node [])) r = List.map (fun p => (lookup p t).getD (Entry.node [])) r :=
      List.map_congr_left (fun q hq => by rw [hother q hq])
    rw [hmap]

theorem removeAll_node (L : List Path) (kids : Kids) (hw : WF (.node kids)) :
    ∃ kids', removeAll L (.node kids) = .node kids' ∧ WF (.node kids') := by
  induction L generalizing kids with
  | nil => exact ⟨kids, rfl, hw⟩
  | cons p r ih =>
    simp only [removeAll, List.foldl_cons]
    cases hr : remove p (.node kids) with
    | none => simpa [removeAll] using ih kids hw
    | some t1 =>
      obtain ⟨_, k1, _, rfl⟩ := remove_shape hr
      simpa [removeAll] using ih k1 (wf_remove p _ _ hw hr)



theorem sx_all_roots (kids : Kids) : sx (kids.map (fun kv => [kv.1])) kids = [] := by
  rw [sx_eq_filter_map]
  have : kids.filter (fun kv => !(kids.map (fun kv => [kv.1])).contains [kv.1]) = [] := by
    apply List.filter_eq_nil_iff.mpr
    intro kv hkv
    simp only [Bool.not_eq_true', Bool.not_eq_false, List.contains_eq_mem, decide_eq_true_eq, List.mem_map]
    exact ⟨kv, hkv, rfl⟩
  rw [this]; rfl

/-- `flatten_keys(sep, inplace=True)` (repaired: pop every leaf, drop what is left, write the flat names) computes
exactly what the out-of-place variant returns, or refuses on a name clash without touching anything -/
theorem flattenIn_eq (sep : String) (kids : Kids) (hw : WF (.node kids)) :
    flattenIn sep (.node kids) =
      if (flatNames sep (.node kids)).Nodup then (.node (flatKids sep (.node kids)), .ok) else (.node kids, .err .key) := by
  have hLP := keysView_leaves kids
  have hnd : (keysView ⟨true, true, false, true⟩ (.node kids)).Nodup := by
    have h : (iterHelper true true (.node kids) []).Nodup := by simp only [iterHelper]; exact iterHelper_go_nodup true true kids [] hw
    simpa [keysView] using h
  have hflat : (keysView ⟨true, true, false, true⟩ (.node kids)).map (joinWith sep) = flatNames sep (.node kids) := by
    rw [hLP]; simp [flatNames, List.map_map]
  unfold flattenIn
  simp only []
  rw [hflat, dedup_nodup_eq _ hnd]
  have hlen : (keysView ⟨true, true, false, true⟩ (.node kids)).length = (flatNames sep (.node kids)).length := by
    rw [← hflat]; simp
  rw [hlen]
  by_cases hn : (flatNames sep (.node kids)).Nodup
  · have hlt : ¬ (dedup (flatNames sep (.node kids))).length < (flatNames sep (.node kids)).length := by
      rw [dedup_lt_iff]; simpa using hn
    rw [if_neg hlt, if_pos hn]
    -- the pops
    have hL : ∀ p ∈ keysView ⟨true, true, false, true⟩ (.node kids), p ≠ [] ∧ ∃ e, lookup p (.node kids) = some e ∧ e.isLeafFor true = true := by
      intro p hp
      rw [hLP] at hp
      obtain ⟨⟨p', e⟩, hm, rfl⟩ := List.mem_map.mp hp
      obtain ⟨hb, hl⟩ := (mem_leavesOf kids hw p' e).mp hm
      exact ⟨hb.1, e, hb.2, hl⟩
    rw [popAll_spec _ _ [] hw hL hnd]
    obtain ⟨k1, hk1, hw1⟩ := removeAll_node (keysView ⟨true, true, false, true⟩ (.node kids)) kids hw
    simp only [hk1, List.reverse_nil, List.nil_append]
    -- exclude every remaining root key
    have hex := excludeT_refines ((rootKeys (.node k1)).map ([·])) true k1 hw1 (by intro p hp; simp at hp; obtain ⟨_, _, rfl⟩ := hp; simp)
    rw [hex, specExclude_eq_sx _ k1 hw1 (by intro p hp; simp at hp; obtain ⟨_, _, rfl⟩ := hp; simp)]
    have hroots : (rootKeys (.node k1)).map ([·]) = k1.map (fun kv => [kv.1]) := by simp [rootKeys, List.map_map]
    rw [hroots, sx_all_roots]
    simp only []
    -- the values popped are the leaves' values, in order
    have hvals : (keysView ⟨true, true, false, true⟩ (.node kids)).map (fun p => (lookup p (.node kids)).getD (.node []))
        = (leavesOf (.node kids)).map (·.2) := by
      rw [hLP, List.map_map]
      apply List.map_congr_left
      intro pe hm
      obtain ⟨p', e⟩ := pe
      have := ((mem_leavesOf kids hw p' e).mp hm).1.2
      simp [this]
    rw [hvals, zip_flat]
    have := dictBuild_nodup (flatKids sep (.node kids)) (by rw [flatKids_keys]; exact hn)
    simp only [dictBuild] at this
    simp only [if_true, this]
  · have hlt : (dedup (flatNames sep (.node kids))).length < (flatNames sep (.node kids)).length := by
      rw [dedup_lt_iff]; exact hn
    rw [if_pos hlt, if_neg hn]


theorem wf_flatKids (sep : String) (kids : Kids) (hw : WF (.node kids)) (hn : (flatNames sep (.node kids)).Nodup) :
    WF (.node (flatKids sep (.node kids))) := by
  refine WF.node _ (by rw [flatKids_keys]; exact hn) ?_
  intro k v hm
  simp only [flatKids, List.mem_map] at hm
  obtain ⟨⟨p, e⟩, hme, heq⟩ := hm
  simp at heq; obtain ⟨_, rfl⟩ := heq
  have := ((mem_leavesOf kids hw p e).mp hme).2
  cases e with
  | leaf nt x => exact WF.leaf _ _
  | node s => simp [Entry.isLeafFor] at this

end TdVerif.C04
