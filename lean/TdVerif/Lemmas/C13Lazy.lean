/-
  C13 — lazy (uninitialised) parameters: `_set_tensor_dict` registers a forward pre-hook
  (`_add_batch_dim_pre_hook`) on the module every time it places an `UninitializedParameter` into `_parameters`.
  The model counts them (`Mod.preHooks`); here: the count never decreases, and does not move when no placed tensor is lazy.
-/
import TdVerif.Lemmas.C13

namespace TdVerif.C13

mutual
/-- no leaf of the tree is an uninitialised parameter -/
def NoLazyT : PTree → Prop
  | .leaf t => t.lazy = false
  | .node es => NoLazyEs es
def NoLazyEs : List (Name × PTree) → Prop
  | [] => True
  | (_, t) :: r => NoLazyT t ∧ NoLazyEs r
end

/-- no tensor bound in any module is an uninitialised parameter -/
def HeapNoLazy (h : Heap) : Prop := ∀ c n t, Holds (cellAt h c n) t → t.lazy = false

theorem place_hooks (md : Mod) (n : Name) (t : Tn) (b : Bool) :
    (place md n t b).preHooks = md.preHooks + (if !b && t.isParam && t.lazy then 1 else 0) := by
  unfold place
  cases b <;> cases hp : t.isParam <;> cases hl : t.lazy <;> simp [hp, hl]

theorem setTensor_hooks {md md' : Mod} {n : Name} {t out : Tn} (h : setTensor md n t = .ok (md', out)) :
    md.preHooks ≤ md'.preHooks ∧ (t.lazy = false → md'.preHooks = md.preHooks) := by
  unfold setTensor at h
  split at h
  · -- custom __setattr__: swap_tensor / setattr, no hook
    unfold setTensorCustom at h
    repeat' split at h
    all_goals first
      | (injection h with h; injection h with h1 h2; subst h1; exact ⟨Nat.le_refl _, fun _ => rfl⟩)
      | cases h
  · unfold setTensorNative at h
    repeat' split at h
    all_goals first
      | (injection h with h; injection h with h1 h2; subst h1
         rw [place_hooks]
         refine ⟨Nat.le_add_right _ _, fun hl => ?_⟩
         simp [hl])
      | (injection h with h; injection h with h1 h2; subst h1; exact ⟨Nat.le_refl _, fun _ => rfl⟩)
      | (injection h with h; injection h with h1 h2; subst h1
         exact ⟨by simp, fun hl => by simp_all⟩)
      | cases h

theorem swap_hooks : ∀ (es : List (Name × PTree)) (h : Heap) (memo : Memo) (m : MId) (h1 : Heap)
    (memo1 : Memo) (outs : List (Name × PTree)),
    swapEntries h memo m es = .ok (h1, memo1, outs) →
    (∀ c, (h c).preHooks ≤ (h1 c).preHooks) ∧ (NoLazyEs es → ∀ c, (h1 c).preHooks = (h c).preHooks)
  | [], h, memo, m, h1, memo1, outs, hr => by
    rw [swapEntries_nil] at hr
    injection hr with hr; injection hr with e1 hr; injection hr with e2 e3
    subst e1 e2 e3
    exact ⟨fun _ => Nat.le_refl _, fun _ _ => rfl⟩
  | (k, .leaf t) :: rest, h, memo, m, h1, memo1, outs, hr => by
    obtain ⟨md, out, outs', hst, hrest, rfl⟩ := swapEntries_leaf_inv hr
    obtain ⟨ih1, ih2⟩ := swap_hooks rest (h.upd m md) memo m h1 memo1 outs' hrest
    obtain ⟨hle, heq⟩ := setTensor_hooks hst
    have hupd : ∀ c, (h c).preHooks ≤ ((h.upd m md) c).preHooks := by
      intro c; unfold Heap.upd; split
      · rename_i hc; rw [hc]; exact hle
      · exact Nat.le_refl _
    refine ⟨fun c => Nat.le_trans (hupd c) (ih1 c), ?_⟩
    intro hnl c
    simp only [NoLazyEs, NoLazyT] at hnl
    rw [ih2 hnl.2 c]
    unfold Heap.upd; split
    · rename_i hc; rw [hc]; exact heq hnl.1
    · rfl
  | (k, .node es) :: rest, h, memo, m, h1, memo1, outs, hr => by
    obtain ⟨c, hk, hcase⟩ := swapEntries_node_inv hr
    rcases hcase with ⟨sw, outs', hhit, hrest, rfl⟩ | ⟨h2, memo2, sw, outs', hmiss, hchild, hrest, rfl⟩
    · obtain ⟨ih1, ih2⟩ := swap_hooks rest h memo m h1 memo1 outs' hrest
      exact ⟨ih1, fun hnl => ih2 (by simp only [NoLazyEs] at hnl; exact hnl.2)⟩
    · obtain ⟨a1, a2⟩ := swap_hooks es h ((c, none) :: memo) c h2 memo2 sw hchild
      obtain ⟨b1, b2⟩ := swap_hooks rest h2 ((c, some sw) :: memo2) m h1 memo1 outs' hrest
      refine ⟨fun x => Nat.le_trans (a1 x) (b1 x), ?_⟩
      intro hnl x
      simp only [NoLazyEs, NoLazyT] at hnl
      rw [b2 hnl.2 x, a2 hnl.1 x]

theorem installs_noLazy {hi : Heap} (hh : HeapNoLazy hi) : ∀ (es : List (Name × PTree)) (m : MId),
    Installs hi m es → NoLazyEs es
  | [], _, _ => by simp [NoLazyEs]
  | (k, .leaf t) :: r, m, h => by
    simp only [Installs] at h
    simp only [NoLazyEs, NoLazyT]
    exact ⟨hh m k t h.1, installs_noLazy hh r m h.2⟩
  | (k, .node es) :: r, m, h => by
    simp only [Installs] at h
    obtain ⟨⟨c, _, hc⟩, hr⟩ := h
    simp only [NoLazyEs, NoLazyT]
    exact ⟨installs_noLazy hh es c hc, installs_noLazy hh r m hr⟩

end TdVerif.C13
