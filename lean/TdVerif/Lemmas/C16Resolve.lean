/-
  C16 — the front end `resolve` only produces valid resolved indices.
-/
import TdVerif.Lemmas.C16IndexMain

namespace TdVerif.C16
namespace NT
variable {O : Type}

theorem normInt_lt (i : Int) (n : Nat) (j : Nat) (h : normInt i n = some j) : j < n := by
  unfold normInt at h
  split at h
  · injection h with h; omega
  · split at h
    · injection h with h; omega
    · cases h

theorem mapM_normInt (n : Nat) : ∀ (l : List Int) (js : List Nat), l.mapM (fun i => normInt i n) = some js →
    js.all (fun j => decide (j < n)) = true
  | [], js, h => by simp at h; subst h; rfl
  | i :: l, js, h => by
    simp only [List.mapM_cons, Option.bind_eq_bind, Option.pure_def] at h
    cases hi : normInt i n with
    | none => simp [hi] at h
    | some j =>
      cases hl : l.mapM (fun i => normInt i n) with
      | none => simp [hi, hl] at h
      | some js' =>
        simp [hi, hl] at h
        subst h
        simp [normInt_lt i n j hi, mapM_normInt n l js' hl]

theorem resolveItems_valid : ∀ (s : Shape) (ix : List Ix) (rix : List RIx),
    resolveItems s ix = .ok rix → validIx rix s = true
  | [], [], rix, h => by simp [resolveItems] at h; cases h; rfl
  | s, .none :: r, rix, h => by
    simp only [resolveItems] at h
    cases hr : resolveItems s r with
    | error e => simp [hr, Except.map] at h
    | ok rr =>
      simp only [hr, Except.map] at h
      injection h with h; subst h
      simpa [validIx] using resolveItems_valid s r rr hr
  | s, .ell :: r, rix, h => by simp [resolveItems] at h
  | [], .int i :: r, rix, h => by simp [resolveItems] at h
  | [], .slice a b c :: r, rix, h => by simp [resolveItems] at h
  | [], .list l :: r, rix, h => by simp [resolveItems] at h
  | [], .mask b :: r, rix, h => by simp [resolveItems] at h
  | n :: s, [], rix, h => by simp [resolveItems] at h
  | n :: s, .int i :: r, rix, h => by
    simp only [resolveItems] at h
    cases hi : normInt i n with
    | none => simp [hi] at h
    | some j =>
      simp only [hi] at h
      cases hr : resolveItems s r with
      | error e => simp [hr, Except.map] at h
      | ok rr =>
        simp only [hr, Except.map] at h
        injection h with h; subst h
        simp [validIx, normInt_lt i n j hi, resolveItems_valid s r rr hr]
  | n :: s, .slice a b c :: r, rix, h => by
    simp only [resolveItems] at h
    cases hsl : SliceSpec.indices a b c n with
    | error e => simp [hsl] at h
    | ok t =>
      obtain ⟨lo, hi, st⟩ := t
      simp only [hsl] at h
      split at h
      · cases h
      · split at h
        · cases h
        · rename_i hchk
          cases hr : resolveItems s r with
          | error e => simp [hr, Except.map] at h
          | ok rr =>
            simp only [hr, Except.map] at h
            injection h with h; subst h
            simp only [Bool.not_eq_true, Bool.not_eq_false'] at hchk
            simp only [validIx, Bool.and_eq_true]
            exact ⟨by simpa using hchk, resolveItems_valid s r rr hr⟩
  | n :: s, .list l :: r, rix, h => by
    simp only [resolveItems] at h
    cases hl : l.mapM (fun i => normInt i n) with
    | none => simp [hl] at h
    | some js =>
      simp only [hl] at h
      cases hr : resolveItems s r with
      | error e => simp [hr, Except.map] at h
      | ok rr =>
        simp only [hr, Except.map] at h
        injection h with h; subst h
        simp [validIx, mapM_normInt n l js hl, resolveItems_valid s r rr hr]
  | n :: s, .mask bits :: r, rix, h => by
    simp only [resolveItems] at h
    by_cases hl : bits.length ≠ n
    · rw [if_pos hl] at h; cases h
    · rw [if_neg hl] at h
      by_cases he : truePositions bits = []
      · rw [if_pos he] at h; cases h
      · rw [if_neg he] at h
        cases hr : resolveItems s r with
        | error e => simp [hr, Except.map] at h
        | ok rr =>
          simp only [hr, Except.map] at h
          injection h with h; subst h
          have hlen : bits.length = n := by simpa using hl
          have hpos : (truePositions bits).all (fun i => decide (i < n)) = true := by
            rw [List.all_eq_true]
            intro i hi
            unfold truePositions at hi
            have := (List.mem_filter.mp hi).1
            rw [List.mem_range, hlen] at this
            simpa using this
          simp [validIx, hpos, resolveItems_valid s r rr hr]

end NT
end TdVerif.C16
