/-
  Helper lemmas for C02: in-bounds coordinates, dim wrapping, the batch view.
-/
import TdVerif.Model.C02Tensor

namespace TdVerif.C02

theorem InB.length_eq : ∀ {c : List Nat} {s : Shape}, InB c s → c.length = s.length
  | [], [], _ => rfl
  | _ :: cs, _ :: s, h => by simp [InB] at h; simp [InB.length_eq h.2]
  | [], _ :: _, h => by simp [InB] at h
  | _ :: _, [], h => by simp [InB] at h

theorem InB.append : ∀ {c : List Nat} {s : Shape} {f : List Nat} {s2 : Shape},
    InB c s → InB f s2 → InB (c ++ f) (s ++ s2)
  | [], [], _, _, _, h2 => by simpa using h2
  | _ :: cs, _ :: s, _, _, h1, h2 => by
    simp [InB] at h1 ⊢; exact ⟨h1.1, InB.append h1.2 h2⟩
  | [], _ :: _, _, _, h1, _ => by simp [InB] at h1
  | _ :: _, [], _, _, h1, _ => by simp [InB] at h1

theorem InB.getD_lt : ∀ {c : List Nat} {s : Shape}, InB c s → ∀ i, i < s.length → c.getD i 0 < s.getD i 0
  | [], [], _, i, hi => by simp at hi
  | x :: cs, d :: s, h, i, hi => by
    simp [InB] at h
    cases i with
    | zero => simpa using h.1
    | succ i => simpa using InB.getD_lt h.2 i (by simpa using hi)
  | [], _ :: _, h, _, _ => by simp [InB] at h
  | _ :: _, [], h, _, _ => by simp [InB] at h

theorem normDim_ofNat {n i : Nat} (h : i < n) : normDim n (i : Int) = some i := by
  unfold normDim
  simp; omega

theorem wrapDim_ofNat {n i : Nat} (h : i < n) : wrapDim n (i : Int) = some i := by
  unfold wrapDim
  have hn : n ≠ 0 := by omega
  simp only [hn, if_false]; exact normDim_ofNat h

end TdVerif.C02
