/-
  C13 — the order of the registries. `_set_tensor_dict` (repaired) replaces in place an entry that stays in the dict it
  was found in; an entry changes dict only when a non-Parameter is aimed at a `_parameters` slot or a Parameter at a plain
  attribute. Here: a swap in which every leaf keeps the kind of its slot (`KindOK`) leaves the key order of
  `_parameters` and `_buffers` of every module unchanged.
-/
import TdVerif.Lemmas.C13

namespace TdVerif.C13

/-- the incoming tensor stays in the dict the slot lives in -/
def KindOK (c : Cell) (t : Tn) : Prop :=
  (c.p.join.isSome = true → t.isParam = true) ∧
  (c.p.join = none → c.b.join = none → t.isParam = false)

/-- key order of the two registries of a module -/
def Mod.keys2 (md : Mod) : List Name × List Name := (md.params.map (·.1), md.buffers.map (·.1))

theorem dict_set_keys' {α : Type} : ∀ (d : Dict α) (k : Name) (v : α), (Dict.get? d k).isSome = true →
    (Dict.set d k v).map (·.1) = d.map (·.1)
  | [], _, _, h => by simp [Dict.get?] at h
  | (k', v') :: r, k, v, h => by
    simp only [Dict.get?] at h
    by_cases hk : k' = k
    · subst hk
      simp only [Dict.set, if_true, List.map_cons]
    · simp only [hk, if_false] at h
      simp only [Dict.set, hk, if_false, List.map_cons]
      rw [dict_set_keys' r k v h]

theorem join_some_isSome {α : Type} {o : Option (Option α)} {v : α} (h : o.join = some v) : o.isSome = true := by
  cases o with
  | none => simp [Option.join] at h
  | some x => rfl

/-- one leaf step that keeps the kind of its slot keeps the key order of `_parameters` and `_buffers` -/
theorem setTensor_keys {md md' : Mod} {n : Name} {t out : Tn} (h : setTensor md n t = .ok (md', out))
    (hk : KindOK (md.cell n) t) : md'.keys2 = md.keys2 := by
  obtain ⟨hk1, hk2⟩ := hk
  unfold setTensor at h
  split at h
  · -- custom __setattr__
    unfold setTensorCustom at h
    cases hp : Dict.get? md.params n with
    | some v =>
      cases v with
      | none => simp [hp] at h
      | some o =>
        have htp : t.isParam = true := hk1 (by simp [Mod.cell, hp, Option.join])
        simp only [hp, htp, if_true] at h
        injection h with h; injection h with h1 _; subst h1
        simp [Mod.keys2, dict_set_keys' md.params n (some t) (by simp [hp])]
    | none =>
      simp only [hp] at h
      cases hb : Dict.get? md.buffers n with
      | some v =>
        cases v with
        | none => simp [hb] at h
        | some o =>
          simp only [hb] at h
          injection h with h; injection h with h1 _; subst h1
          simp [Mod.keys2, dict_set_keys' md.buffers n (some t) (by simp [hb])]
      | none =>
        simp only [hb] at h
        cases hd : Dict.get? md.plain n with
        | none => simp [hd] at h
        | some o =>
          have htp : t.isParam = false := hk2 (by simp [Mod.cell, hp, Option.join]) (by simp [Mod.cell, hb, Option.join])
          simp only [hd, htp, Bool.false_eq_true, if_false] at h
          injection h with h; injection h with h1 _; subst h1
          simp [Mod.keys2]
  · unfold setTensorNative at h
    cases hp : (Dict.get? md.params n).join with
    | some o =>
      have htp : t.isParam = true := hk1 (by simp [Mod.cell, hp])
      simp only [hp, htp, if_true] at h
      injection h with h; injection h with h1 _; subst h1
      simp [Mod.keys2, dict_set_keys' md.params n (some t) (join_some_isSome hp)]
    | none =>
      simp only [hp] at h
      cases hb : (Dict.get? md.buffers n).join with
      | some o =>
        simp only [hb] at h
        injection h with h; injection h with h1 _; subst h1
        simp [Mod.keys2, dict_set_keys' md.buffers n (some t) (join_some_isSome hb)]
      | none =>
        simp only [hb] at h
        cases hd : Dict.get? md.plain n with
        | none => simp [hd] at h
        | some o =>
          have htp : t.isParam = false := hk2 (by simp [Mod.cell, hp]) (by simp [Mod.cell, hb])
          simp only [hd] at h
          injection h with h; injection h with h1 _; subst h1
          simp [Mod.keys2, place, htp]

/-- which of the three dicts binds the name to a tensor -/
def slotKind (c : Cell) : Bool × Bool × Bool := (c.p.join.isSome, c.b.join.isSome, c.d.isSome)

/-- a kind-preserving leaf step leaves the name in the dict it was in -/
theorem cellSwap_slotKind {c c' : Cell} {t out : Tn} (hwf : CellWF c) (hk : KindOK c t)
    (h : cellSwap c t = some (c', out)) : slotKind c' = slotKind c := by
  obtain ⟨p, b, d⟩ := c
  obtain ⟨hk1, hk2⟩ := hk
  unfold CellWF at hwf
  unfold cellSwap cellPlace at h
  rcases p with _ | _ | v <;> rcases b with _ | _ | w <;> rcases d with _ | u <;>
    simp at hwf <;> simp [Option.join] at h
  · obtain ⟨h1, _⟩ := h
    have : t.isParam = false := hk2 (by simp [Option.join]) (by simp [Option.join])
    simp [this] at h1; subst h1; simp [slotKind, Option.join]
  · obtain ⟨h1, _⟩ := h; subst h1; simp [slotKind, Option.join]
  · obtain ⟨h1, _⟩ := h
    have : t.isParam = true := hk1 (by simp [Option.join])
    simp [this] at h1; subst h1; simp [slotKind, Option.join]

/-- every leaf of the tree keeps the kind of the slot it is aimed at (slots read in the heap `hi`) -/
def KindOKTree (hi : Heap) : MId → List (Name × PTree) → Prop
  | _, [] => True
  | m, (k, .leaf t) :: r => KindOK (cellAt hi m k) t ∧ KindOKTree hi m r
  | m, (k, .node es) :: r =>
    (∀ c, Dict.get? (hi m).kids k = some (some c) → KindOKTree hi c es) ∧ KindOKTree hi m r

/-- **order is kept by a kind-preserving run** (stated, like `swap_outs_held`, for any heap `hi` that agrees with the start
heap on the cells the run writes) -/
theorem swap_keys : ∀ (es : List (Name × PTree)) (h : Heap) (memo : Memo) (m : MId) (h1 : Heap)
    (memo1 : Memo) (outs : List (Name × PTree)),
    swapEntries h memo m es = .ok (h1, memo1, outs) → memo.find m = some none → LeafNodup es →
    ∀ hi : Heap, HeapWF hi → KindOKTree hi m es →
      (∀ c, memo.find c = none → memo1.find c ≠ none → ∀ n, cellAt hi c n = cellAt h c n) →
      (∀ n, n ∈ leafKeys es → cellAt hi m n = cellAt h m n) →
      (∀ c, (hi c).kids = (h c).kids) →
      ∀ x, (h1 x).keys2 = (h x).keys2 ∧ ∀ n, slotKind (cellAt h1 x n) = slotKind (cellAt h x n)
  | [], h, memo, m, h1, memo1, outs, hr, _, _ => by
    intro hi _ _ _ _ _ x
    rw [swapEntries_nil] at hr
    injection hr with hr; injection hr with e1 hr; injection hr with e2 e3
    subst e1 e2 e3
    exact ⟨rfl, fun _ => rfl⟩
  | (k, .leaf t) :: rest, h, memo, m, h1, memo1, outs, hr, hm, hnd => by
    intro hi hwfi hok hmods hnames hkids x
    obtain ⟨md, out, outs', hst, hrest, rfl⟩ := swapEntries_leaf_inv hr
    simp only [LeafNodup] at hnd
    obtain ⟨hknot, hnd'⟩ := hnd
    simp only [KindOKTree] at hok
    obtain ⟨hcs, hfr, hkd⟩ := setTensor_ok hst
    have hcellk : cellAt hi m k = (h m).cell k := hnames k (by simp [leafKeys])
    have hkeys : md.keys2 = (h m).keys2 := setTensor_keys hst (by rw [← hcellk]; exact hok.1)
    have hslot : slotKind (md.cell k) = slotKind ((h m).cell k) :=
      cellSwap_slotKind (by rw [← hcellk]; exact hwfi m k) (by rw [← hcellk]; exact hok.1) hcs
    have ih := swap_keys rest (h.upd m md) memo m h1 memo1 outs' hrest hm hnd' hi hwfi hok.2
      (by
        intro c h0 h1' n
        have hcm : c ≠ m := by intro e; subst e; rw [hm] at h0; cases h0
        rw [cellAt_upd, if_neg hcm]; exact hmods c h0 h1' n)
      (by
        intro n hn
        have hnk : n ≠ k := by intro e; subst e; exact hknot hn
        rw [cellAt_upd, if_pos rfl, hfr n hnk]
        exact hnames n (by simp [leafKeys, hn]))
      (by
        intro c; unfold Heap.upd; split
        · rename_i hc; subst hc; rw [hkd]; exact hkids c
        · exact hkids c)
      x
    refine ⟨?_, ?_⟩
    · rw [ih.1]
      unfold Heap.upd; split
      · rename_i hc; subst hc; exact hkeys
      · rfl
    · intro n
      rw [ih.2 n, cellAt_upd]
      split
      · rename_i hc; subst hc
        by_cases hnk : n = k
        · subst hnk; exact hslot
        · rw [hfr n hnk]; rfl
      · rfl
  | (k, .node es) :: rest, h, memo, m, h1, memo1, outs, hr, hm, hnd => by
    intro hi hwfi hok hmods hnames hkids x
    simp only [LeafNodup] at hnd
    obtain ⟨hnd1, hnd2⟩ := hnd
    simp only [KindOKTree] at hok
    obtain ⟨c, hk, hcase⟩ := swapEntries_node_inv hr
    have hki : Dict.get? (hi m).kids k = some (some c) := by rw [hkids m]; exact hk
    rcases hcase with ⟨sw, outs', hhit, hrest, rfl⟩ | ⟨h2, memo2, sw, outs', hmiss, hchild, hrest, rfl⟩
    · exact swap_keys rest h memo m h1 memo1 outs' hrest hm hnd2 hi hwfi hok.2 hmods
        (fun n hn => hnames n (by simpa [leafKeys] using hn)) hkids x
    · have hcm : c ≠ m := by intro e; subst e; rw [hmiss] at hm; cases hm
      have frc := swap_frame es h ((c, none) :: memo) c h2 memo2 sw hchild (by simp [find_cons])
      have hm2 : Memo.find ((c, some sw) :: memo2) m = some none := by
        rw [find_cons, if_neg hcm]; apply frc.keep; rw [find_cons, if_neg hcm]; exact hm
      have frr := swap_frame rest h2 ((c, some sw) :: memo2) m h1 memo1 outs' hrest hm2
      have hc1 : memo1.find c ≠ none := find_ne_none_of_some (frr.keep c (some sw) (by simp [find_cons]))
      have h2m : h2 m = h m := frc.others m (Ne.symm hcm) (Or.inl (by rw [find_cons, if_neg hcm, hm]; simp))
      have ihc := swap_keys es h ((c, none) :: memo) c h2 memo2 sw hchild (by simp [find_cons]) hnd1 hi hwfi
        (hok.1 c hki)
        (by
          intro x h0 h1' n
          have hxc : c ≠ x := by intro e; subst e; simp [find_cons] at h0
          rw [find_cons, if_neg hxc] at h0
          have hx1 : memo1.find x ≠ none := by
            cases hv : memo2.find x with
            | none => exact absurd hv h1'
            | some v => exact find_ne_none_of_some (frr.keep x v (by rw [find_cons, if_neg hxc]; exact hv))
          exact hmods x h0 hx1 n)
        (fun n _ => hmods c hmiss hc1 n)
        hkids x
      have ihr := swap_keys rest h2 ((c, some sw) :: memo2) m h1 memo1 outs' hrest hm2 hnd2 hi hwfi hok.2
        (by
          intro x h0 h1' n
          have hxc : c ≠ x := by intro e; subst e; simp [find_cons] at h0
          rw [find_cons, if_neg hxc] at h0
          have h00 : memo.find x = none := by
            cases hv : memo.find x with
            | none => rfl
            | some v =>
              have := frc.keep x v (by rw [find_cons, if_neg hxc]; exact hv)
              rw [h0] at this; cases this
          have : h2 x = h x := frc.others x (Ne.symm hxc) (Or.inr h0)
          rw [hmods x h00 h1' n]; simp [cellAt, this])
        (by
          intro n hn
          rw [hnames n (by simpa [leafKeys] using hn)]; simp [cellAt, h2m])
        (by intro x; rw [frc.kids]; exact hkids x)
        x
      exact ⟨by rw [ihr.1, ihc.1], fun n => by rw [ihr.2 n, ihc.2 n]⟩

/-- what came out of a slot keeps the kind of that slot: the swap back of a kind-preserving swap is kind-preserving -/
theorem kindOK_of_held {c c1 : Cell} {out : Tn} (hwf : CellWF c) (hh : Holds c out)
    (hs : slotKind c1 = slotKind c) : KindOK c1 out := by
  have hs1 : c1.p.join.isSome = c.p.join.isSome := congrArg (·.1) hs
  have hs2 : c1.b.join.isSome = c.b.join.isSome := congrArg (·.2.1) hs
  obtain ⟨p, b, d⟩ := c
  unfold CellWF at hwf
  unfold Holds at hh
  rcases p with _ | _ | v <;> rcases b with _ | _ | w <;> rcases d with _ | u <;>
    simp at hwf <;> simp at hh
  · subst hh
    refine ⟨fun hx => ?_, fun _ _ => hwf⟩
    rw [hs1] at hx; simp [Option.join] at hx
  · subst hh
    refine ⟨fun hx => ?_, fun _ hx => ?_⟩
    · rw [hs1] at hx; simp [Option.join] at hx
    · have : c1.b.join.isSome = true := by rw [hs2]; simp [Option.join]
      rw [hx] at this; simp at this
  · subst hh
    refine ⟨fun _ => hwf, fun hx _ => ?_⟩
    have : c1.p.join.isSome = true := by rw [hs1]; simp [Option.join]
    rw [hx] at this; simp at this

theorem kindOKTree_of_installs {h h1 : Heap} (hwf : HeapWF h) (hkids : ∀ c, (h1 c).kids = (h c).kids)
    (hslot : ∀ x n, slotKind (cellAt h1 x n) = slotKind (cellAt h x n)) :
    ∀ (s : List (Name × PTree)) (m : MId), Installs h m s → KindOKTree h1 m s
  | [], _, _ => by simp [KindOKTree]
  | (k, .leaf t) :: r, m, hi => by
    simp only [Installs] at hi
    simp only [KindOKTree]
    exact ⟨kindOK_of_held (hwf m k) hi.1 (hslot m k), kindOKTree_of_installs hwf hkids hslot r m hi.2⟩
  | (k, .node es) :: r, m, hi => by
    simp only [Installs] at hi
    obtain ⟨⟨c, hk, hc⟩, hr⟩ := hi
    simp only [KindOKTree]
    refine ⟨?_, kindOKTree_of_installs hwf hkids hslot r m hr⟩
    intro c' hk'
    rw [hkids m, hk] at hk'
    injection hk' with hk'; injection hk' with hk'; subst hk'
    exact kindOKTree_of_installs hwf hkids hslot es c hc

end TdVerif.C13
