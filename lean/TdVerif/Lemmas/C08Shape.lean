/-
  C08 — shape operations: commutation of unsqueeze / squeeze / select with the stack (tensor level).
-/
import TdVerif.Lemmas.C08Set
namespace TdVerif.C08

theorem eraseIdx_eraseIdx_le {β} : ∀ (l : List β) (d sd : Nat), d ≤ sd →
    (l.eraseIdx d).eraseIdx sd = (l.eraseIdx (sd + 1)).eraseIdx d
  | [], d, sd, _ => by simp
  | a :: l, 0, sd, _ => by simp
  | a :: l, d + 1, sd + 1, h => by
    simp [eraseIdx_eraseIdx_le l d sd (by omega)]
  | a :: l, d + 1, 0, h => by omega

theorem at0_eraseIdx_of_le (l : List Nat) (d sd : Nat) (h : d ≤ sd) : at0 (l.eraseIdx d) sd = at0 l (sd + 1) := by
  simp [at0, List.getElem?_eraseIdx_of_ge h]

theorem at0_eraseIdx_of_gt (l : List Nat) (d sd : Nat) (h : sd < d) : at0 (l.eraseIdx d) sd = at0 l sd := by
  simp [at0, List.getElem?_eraseIdx_of_lt h]

theorem map_head_shape {α} (ms : List (T α)) (f : T α → T α) (g : Shape → Shape)
    (hf : ∀ t, (f t).shape = g t.shape) (hne : ms ≠ []) :
    ((ms.map f).head?.map T.shape).getD [] = g ((ms.head?.map T.shape).getD []) := by
  cases ms with
  | nil => exact absurd rfl hne
  | cons m r => simp [hf]

/-- a new dim at or before the stack dim: the members get it at the same place, the stack dim shifts -/
theorem unsqueeze_stack_le [Inhabited α] (ms : List (T α)) (sd d : Nat) (hne : ms ≠ [])
    (hd : d ≤ sd) (hsd : sd ≤ ((ms.head?.map T.shape).getD []).length) :
    T.stack (ms.map fun m => m.unsqueeze d) (sd + 1) ≈ₜ (T.stack ms sd).unsqueeze d := by
  constructor
  · show _ = ((T.stack ms sd).shape).insertIdx d 1
    rw [T.stack_shape, T.stack_shape, map_head_shape ms (fun (m : T α) => m.unsqueeze d) (fun s => s.insertIdx d 1) (fun _ => rfl) hne]
    simp only [List.length_map]
    exact List.insertIdx_comm _ _ hd hsd
  · intro c _
    show ((ms.map fun (m : T α) => m.unsqueeze d)[at0 c (sd + 1)]?.getD default).get (c.eraseIdx (sd + 1))
      = (T.stack ms sd).get (c.eraseIdx d)
    rw [T.stack_get, at0_eraseIdx_of_le c d sd hd, eraseIdx_eraseIdx_le c d sd hd]
    cases h : ms[at0 c (sd + 1)]? with
    | none => simp [h]; rfl
    | some m => simp [h]; rfl

/-- a new dim after the stack dim: the members get it one position earlier -/
theorem unsqueeze_stack_gt [Inhabited α] (ms : List (T α)) (sd d : Nat) (hne : ms ≠ [])
    (hd : sd < d) (hdl : d ≤ ((ms.head?.map T.shape).getD []).length + 1) :
    T.stack (ms.map fun m => m.unsqueeze (d - 1)) sd ≈ₜ (T.stack ms sd).unsqueeze d := by
  obtain ⟨e, rfl⟩ : ∃ e, d = e + 1 := ⟨d - 1, by omega⟩
  constructor
  · show _ = ((T.stack ms sd).shape).insertIdx (e + 1) 1
    rw [T.stack_shape, T.stack_shape, map_head_shape ms (fun (m : T α) => m.unsqueeze (e + 1 - 1)) (fun s => s.insertIdx e 1) (fun _ => rfl) hne]
    simp only [List.length_map]
    exact (List.insertIdx_comm _ _ (by omega) (by omega)).symm
  · intro c _
    show ((ms.map fun (m : T α) => m.unsqueeze (e + 1 - 1))[at0 c sd]?.getD default).get (c.eraseIdx sd)
      = (T.stack ms sd).get (c.eraseIdx (e + 1))
    rw [T.stack_get, at0_eraseIdx_of_gt c (e + 1) sd hd, ← eraseIdx_eraseIdx_le c sd e (by omega)]
    cases h : ms[at0 c sd]? with
    | none => simp [h]; rfl
    | some m => simp [h]; rfl

theorem squeezeAt_eq_select (t : T α) (d : Nat) : t.squeezeAt d = t.select d 0 := rfl

/-- selecting (or squeezing) a dim before the stack dim: the members are selected at the same
dim, the stack dim moves one to the left -/
theorem select_stack_lt [Inhabited α] (ms : List (T α)) (sd d i : Nat) (hne : ms ≠ [])
    (hd : d < sd) (hsd : sd ≤ ((ms.head?.map T.shape).getD []).length) :
    T.stack (ms.map fun (m : T α) => m.select d i) (sd - 1) ≈ₜ (T.stack ms sd).select d i := by
  obtain ⟨e, rfl⟩ : ∃ e, sd = e + 1 := ⟨sd - 1, by omega⟩
  have hshape : (T.stack (ms.map fun (m : T α) => m.select d i) (e + 1 - 1)).shape
      = ((T.stack ms (e + 1)).select d i).shape := by
    show _ = ((T.stack ms (e + 1)).shape).eraseIdx d
    rw [T.stack_shape, T.stack_shape, map_head_shape ms (fun (m : T α) => m.select d i) (fun s => s.eraseIdx d) (fun _ => rfl) hne]
    simp only [List.length_map, Nat.add_sub_cancel]
    exact List.insertIdx_eraseIdx_of_ge (by omega) (by omega)
  refine ⟨hshape, ?_⟩
  intro c hc
  have hcl : e < c.length := by
    have := InB.length hc
    rw [T.stack_shape, map_head_shape ms (fun (m : T α) => m.select d i) (fun s => s.eraseIdx d) (fun _ => rfl) hne] at this
    simp only [Nat.add_sub_cancel] at this
    rw [this, List.length_insertIdx_of_le_length (by rw [List.length_eraseIdx_of_lt (by omega)]; omega),
      List.length_eraseIdx_of_lt (by omega)]
    omega
  show ((ms.map fun (m : T α) => m.select d i)[at0 c (e + 1 - 1)]?.getD default).get (c.eraseIdx (e + 1 - 1))
    = (T.stack ms (e + 1)).get (c.insertIdx d i)
  simp only [Nat.add_sub_cancel]
  rw [T.stack_get]
  have h1 : at0 (c.insertIdx d i) (e + 1) = at0 c e := by
    simp [at0, List.getElem?_insertIdx_of_gt (show d < e + 1 by omega)]
  have h2 : (c.insertIdx d i).eraseIdx (e + 1) = (c.eraseIdx e).insertIdx d i :=
    (List.insertIdx_eraseIdx_of_le hcl (by omega)).symm
  rw [h1, h2]
  cases h : ms[at0 c e]? with
  | none => simp [h]; rfl
  | some m => simp [h]; rfl

/-- selecting (or squeezing) a dim after the stack dim: the members are selected one dim
earlier, the stack dim stays -/
theorem select_stack_gt [Inhabited α] (ms : List (T α)) (sd d i : Nat) (hne : ms ≠ [])
    (hd : sd < d) (hdl : d ≤ ((ms.head?.map T.shape).getD []).length) :
    T.stack (ms.map fun (m : T α) => m.select (d - 1) i) sd ≈ₜ (T.stack ms sd).select d i := by
  obtain ⟨e, rfl⟩ : ∃ e, d = e + 1 := ⟨d - 1, by omega⟩
  have hshape : (T.stack (ms.map fun (m : T α) => m.select (e + 1 - 1) i) sd).shape
      = ((T.stack ms sd).select (e + 1) i).shape := by
    show _ = ((T.stack ms sd).shape).eraseIdx (e + 1)
    rw [T.stack_shape, T.stack_shape, map_head_shape ms (fun (m : T α) => m.select (e + 1 - 1) i) (fun s => s.eraseIdx e) (fun _ => rfl) hne]
    simp only [List.length_map]
    exact List.insertIdx_eraseIdx_of_le (by omega) (by omega)
  refine ⟨hshape, ?_⟩
  intro c hc
  have hcl : sd < c.length := by
    have := InB.length hc
    rw [T.stack_shape, map_head_shape ms (fun (m : T α) => m.select (e + 1 - 1) i) (fun s => s.eraseIdx e) (fun _ => rfl) hne] at this
    rw [this, List.length_insertIdx_of_le_length (by rw [List.length_eraseIdx_of_lt (by omega)]; omega),
      List.length_eraseIdx_of_lt (by omega)]
    omega
  show ((ms.map fun (m : T α) => m.select (e + 1 - 1) i)[at0 c sd]?.getD default).get (c.eraseIdx sd)
    = (T.stack ms sd).get (c.insertIdx (e + 1) i)
  simp only [Nat.add_sub_cancel]
  rw [T.stack_get]
  have h1 : at0 (c.insertIdx (e + 1) i) sd = at0 c sd := by
    simp [at0, List.getElem?_insertIdx_of_lt hd]
  have h2 : (c.insertIdx (e + 1) i).eraseIdx sd = (c.eraseIdx sd).insertIdx e i :=
    (List.insertIdx_eraseIdx_of_ge hcl (by omega)).symm
  rw [h1, h2]
  cases h : ms[at0 c sd]? with
  | none => simp [h]; rfl
  | some m => simp [h]; rfl
end TdVerif.C08
