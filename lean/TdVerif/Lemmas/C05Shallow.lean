/-
  C05 — `unlock_()` of a `TensorDictParams(lock=True)` (`unlockShallowEv`): the wrapper's own flag only; the content stays
  locked.  The lock-graph invariant is preserved in both outcomes.
-/
import TdVerif.Lemmas.C05Inv3

namespace TdVerif.C05

theorem Heap.ext' {a b : Heap} (hs : a.size = b.size) (hn : ∀ m, a.node m = b.node m) : a = b := by
  cases a; cases b
  simp only at hs hn
  subst hs
  congr
  funext m
  exact hn m

/-- re-locking a plain node whose own flag was just cleared is re-locking the node -/
theorem propLockF_root_flag (h : Heap) (i n : Nat) (hz : (h.node i).lazy = false) :
    propLockF (n + 1) (h.upd i (fun x => { x with flag := some false })) none i = propLockF (n + 1) h none i := by
  have nself : ((h.upd i (fun x => { x with flag := some false })).node i) = { h.node i with flag := some false } := upd_node_self _ _ _
  have hk : kidIds (h.upd i (fun x => { x with flag := some false })) i = kidIds h i := by
    unfold kidIds; rw [nself]
  have hh : (h.upd i (fun x => { x with flag := some false })).upd i (fun x => { x with flag := some true, parents := x.parents ++ [] }) =
      h.upd i (fun x => { x with flag := some true, parents := x.parents ++ [] }) := by
    refine Heap.ext' (by rfl) ?_
    intro m
    by_cases hm : m = i
    · subst hm; simp [Heap.upd]
    · simp [Heap.upd, hm]
  have hz' : ({ h.node i with flag := some false } : LNode).lazy = false := hz
  simp only [propLockF, nself, hz', hz, hk, Bool.false_eq_true, if_false]
  rw [hh]

/-- clearing flag and lock parents of a plain node that no live locked tensordict lists keeps the invariant -/
theorem inv_clear_node {h : Heap} (hinv : Inv h) {i : Nat} (hz : (h.node i).lazy = false)
    (hno : ∀ p, p ≠ i → p ∈ parentsOf h i → live h p = true → flagged h p = true → False) :
    Inv (h.upd i (fun x => { x with flag := some false, parents := [] })) := by
  have nself : (h.upd i (fun x => { x with flag := some false, parents := [] })).node i =
      { h.node i with flag := some false, parents := [] } := upd_node_self _ _ _
  have nne : ∀ m, m ≠ i → (h.upd i (fun x => { x with flag := some false, parents := [] })).node m = h.node m :=
    fun m hm => upd_node_ne _ _ _ _ hm
  have s : SameShape h (h.upd i (fun x => { x with flag := some false, parents := [] })) := by
    refine ⟨rfl, fun m => ?_⟩
    by_cases hm : m = i
    · subst hm; rw [nself]; exact ⟨rfl, rfl, rfl⟩
    · rw [nne m hm]; exact ⟨rfl, rfl, rfl⟩
  have hfi : flagged (h.upd i (fun x => { x with flag := some false, parents := [] })) i = false := by
    unfold flagged; rw [nself]; rfl
  refine ⟨s.ordered hinv.ordered, s.kidsAlive hinv.kidsAlive, s.nonEmptyLazy hinv.nonEmptyLazy, ?_, ?_⟩
  · intro k hk
    have hk' : h.size ≤ k := hk
    by_cases hki : k = i
    · subst hki
      have hb := hinv.bounded k hk'
      rw [nself, hb]
    · rw [nne k hki]; exact hinv.bounded k hk'
  · intro p j hlp hfp hj
    have hpi : p ≠ i := by
      intro e; subst e; rw [hfi] at hfp; cases hfp
    have hlp0 : live h p = true := by rw [← s.live]; exact hlp
    have hfp0 : flagged h p = true := by unfold flagged at hfp ⊢; rw [nne p hpi] at hfp; exact hfp
    have hj0 : j ∈ kidIds h p := by rw [← s.kidIds]; exact hj
    obtain ⟨fj, pj⟩ := hinv.closed p j hlp0 hfp0 hj0
    have hji : j ≠ i := by
      intro e; subst e
      exact hno p hpi pj hlp0 hfp0
    refine ⟨by unfold flagged at fj ⊢; rw [nne j hji]; exact fj, ?_⟩
    have hlj : live h j = true := hinv.kidsAlive p j hlp0 hj0
    have hcong : parentsOfF (j + 1) (h.upd i (fun x => { x with flag := some false, parents := [] })) j = parentsOfF (j + 1) h j := by
      apply parentsOfF_congr_reach
      intro m r
      have hmi : m ≠ i := by
        intro e; subst e
        -- `m` below `j`: its direct container on that path is a live locked tensordict that lists it
        cases r with
        | refl => exact hji rfl
        | step r' hc =>
          rename_i c
          have ⟨hlc, hfc⟩ := closed_reach hinv hlj fj c r'
          have hcm := (hinv.closed c m hlc hfc hc).2
          have hne : c ≠ m := by
            have := hinv.ordered c m hc
            omega
          exact hno c hne hcm hlc hfc
      exact nne m hmi
    unfold parentsOf at pj ⊢
    rw [hcong]; exact pj

/-- the three outcomes of `unlockShallowEv`: not a plain node (nothing happens); refused (= locked again from the wrapper,
which is the state before); accepted (flag and lock parents of the wrapper cleared, nothing else) -/
theorem unlockShallowEv_cases (h : Heap) (i : Nat) :
    (unlockShallowEv h i).1 = h ∨
    ((h.node i).lazy = false ∧ (unlockShallowEv h i).1 = propLockF (i + 1) h none i) ∨
    ((h.node i).lazy = false ∧ (unlockShallowEv h i).1 = h.upd i (fun x => { x with flag := some false, parents := [] }) ∧
      ∀ p, p ≠ i → p ∈ parentsOf h i → live h p = true → flagged h p = true → False) := by
  unfold unlockShallowEv
  split
  · exact .inl rfl
  · rename_i hz0
    have hz : (h.node i).lazy = false := by simpa using hz0
    have nself1 : ((h.upd i (fun x => { x with flag := some false })).node i) = { h.node i with flag := some false } := upd_node_self _ _ _
    have nne1 : ∀ m, m ≠ i → (h.upd i (fun x => { x with flag := some false })).node m = h.node m := fun m hm => upd_node_ne _ _ _ _ hm
    have hz1 : ((h.upd i (fun x => { x with flag := some false })).node i).lazy = false := by rw [nself1]; exact hz
    have hpar1 : parentsOf (h.upd i (fun x => { x with flag := some false })) i = parentsOf h i := by
      rw [parentsOf_plain _ _ hz1, parentsOf_plain _ _ hz, nself1]
    by_cases hany : (parentsOf (h.upd i (fun x => { x with flag := some false })) i).any
        (fun p => live (h.upd i (fun x => { x with flag := some false })) p && flagged (h.upd i (fun x => { x with flag := some false })) p) = true
    · right; left
      have hc : checkUnlock (h.upd i (fun x => { x with flag := some false })) i = (h.upd i (fun x => { x with flag := some false }), false) := by
        simp only [checkUnlock, hany, if_true]
      simp only [hc]
      have hnl : isLocked (h.upd i (fun x => { x with flag := some false })) i = false := by
        simp [isLocked, isLockedF, nself1]
      refine ⟨hz, ?_⟩
      simp only [lockEv, hnl, Bool.false_eq_true, if_false]
      exact propLockF_root_flag h i i hz
    · right; right
      have hc : checkUnlock (h.upd i (fun x => { x with flag := some false })) i =
          ((h.upd i (fun x => { x with flag := some false })).upd i (fun x => { x with parents := [] }), true) := by
        simp only [checkUnlock, hany, hz1, Bool.false_eq_true, if_false]
      simp only [hc]
      have hh : (h.upd i (fun x => { x with flag := some false })).upd i (fun x => { x with parents := [] }) =
          h.upd i (fun x => { x with flag := some false, parents := [] }) := by
        refine Heap.ext' (by rfl) ?_
        intro m
        by_cases hm : m = i
        · subst hm; simp [Heap.upd]
        · simp [Heap.upd, hm]
      refine ⟨hz, hh, ?_⟩
      intro p hpi hp hlp hfp
      apply hany
      rw [hpar1]
      apply List.any_eq_true.mpr
      refine ⟨p, hp, ?_⟩
      unfold live flagged
      rw [nne1 p hpi]
      unfold live at hlp; unfold flagged at hfp
      rw [hlp, hfp]; rfl

theorem inv_unlockShallowEv {h : Heap} (hinv : Inv h) {i : Nat} (hi : i < h.size) :
    Inv (unlockShallowEv h i).1 := by
  rcases unlockShallowEv_cases h i with e | ⟨_, e⟩ | ⟨hz, e, hno⟩
  · rw [e]; exact hinv
  · rw [e]; exact inv_propLock_root hinv hi
  · rw [e]; exact inv_clear_node hinv hz hno

/-- an accepted shallow unlock touches the wrapper only -/
theorem unlockShallowEv_ok_frame (h : Heap) (i : Nat) (hok : (unlockShallowEv h i).2 = .ok) :
    (unlockShallowEv h i).1 = h.upd i (fun x => { x with flag := some false, parents := [] }) := by
  unfold unlockShallowEv at hok ⊢
  split
  · rename_i hz; simp [hz] at hok
  · rename_i hz0
    have hz : (h.node i).lazy = false := by simpa using hz0
    have nself1 : ((h.upd i (fun x => { x with flag := some false })).node i) = { h.node i with flag := some false } := upd_node_self _ _ _
    have hz1 : ((h.upd i (fun x => { x with flag := some false })).node i).lazy = false := by rw [nself1]; exact hz
    by_cases hany : (parentsOf (h.upd i (fun x => { x with flag := some false })) i).any
        (fun p => live (h.upd i (fun x => { x with flag := some false })) p && flagged (h.upd i (fun x => { x with flag := some false })) p) = true
    · have hc : checkUnlock (h.upd i (fun x => { x with flag := some false })) i = (h.upd i (fun x => { x with flag := some false }), false) := by
        simp only [checkUnlock, hany, if_true]
      simp [hz, hc] at hok
    · have hc : checkUnlock (h.upd i (fun x => { x with flag := some false })) i =
          ((h.upd i (fun x => { x with flag := some false })).upd i (fun x => { x with parents := [] }), true) := by
        simp only [checkUnlock, hany, hz1, Bool.false_eq_true, if_false]
      simp only [hc]
      refine Heap.ext' (by rfl) ?_
      intro m
      by_cases hm : m = i
      · subst hm; simp [Heap.upd]
      · simp [Heap.upd, hm]

end TdVerif.C05
