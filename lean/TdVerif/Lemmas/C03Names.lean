/-
  C03 lemmas, part 7: `_get_names_idx` for basic indices (ints, 0-d integer tensors, slices, None).
-/
import TdVerif.Lemmas.C03Set

namespace TdVerif.C03
open TorchSpec Td

/-- the dim names torch's plan induces: a selected dim loses its name, a sliced dim keeps it, a new dim has none
    (advanced pieces: names of the consumed dims are dropped — outside the theorem below) -/
def pieceNames : List Piece → Names → Names
  | [], _ => []
  | .sel .. :: r, ns => pieceNames r (ns.drop 1)
  | .sl .. :: r, ns => ns.headD none :: pieceNames r (ns.drop 1)
  | .new :: r, ns => none :: pieceNames r ns
  | .adv ks _ _ :: r, ns => pieceNames r (ns.drop ks.length)

/-- `None` when every name is `None` (the last lines of `_get_names_idx`) -/
def normNames (l : Names) : Option Names := if l.all (· == none) then none else some l

/-- `idx_to_take` for basic items, starting at dim `k` -/
def takeOf : List Ix → Nat → List (Option Nat)
  | [], _ => []
  | .none :: r, k => none :: takeOf r k
  | .int _ :: r, k => takeOf r (k + 1)
  | .tensor [] _ :: r, k => takeOf r (k + 1)
  | _ :: r, k => some k :: takeOf r (k + 1)

def basicNoEll (items : List Ix) : Bool := items.all (fun x => isBasic x && x != Ix.ell)

theorem namesLoop_basic (items : List Ix) : ∀ (st : NamesSt), basicNoEll items = true →
    (namesLoop items st).take = st.take ++ takeOf items st.count ∧ (namesLoop items st).advPos = st.advPos := by
  induction items with
  | nil => intro st _; simp [namesLoop, takeOf]
  | cons x r ih =>
    intro st h
    simp only [basicNoEll, List.all_cons, Bool.and_eq_true] at h
    have hr : basicNoEll r = true := h.2
    cases x with
    | none => simp only [namesLoop, namesStep]; rw [(ih _ hr).1, (ih _ hr).2]; simp [takeOf]
    | int i => simp only [namesLoop, namesStep, isNumber, if_true]; rw [(ih _ hr).1, (ih _ hr).2]; simp [takeOf]
    | slice a b c =>
      simp only [namesLoop, namesStep, isNumber, advInfo, sepStep, Bool.false_eq_true, if_false]
      rw [(ih _ hr).1, (ih _ hr).2]; simp [takeOf]
    | ell => simp at h
    | list l => simp [isBasic] at h
    | range a b c => simp [isBasic] at h
    | mask s d => simp [isBasic] at h
    | tensor s d =>
      cases s with
      | nil => simp only [namesLoop, namesStep, isNumber, if_true]; rw [(ih _ hr).1, (ih _ hr).2]; simp [takeOf]
      | cons m s => simp [isBasic] at h

theorem lookNames_cons_none (names : Names) (t : List (Option Nat)) :
    lookNames names (none :: t) = (lookNames names t).map (none :: ·) := by
  simp only [lookNames, List.mapM_cons, bind, Except.bind, pure, Except.pure, lookOne]
  cases List.mapM (lookOne names) t <;> rfl

theorem lookNames_cons_some (names : Names) (t : List (Option Nat)) (i : Nat) (nm : Option String)
    (h : names[i]? = some nm) : lookNames names (some i :: t) = (lookNames names t).map (nm :: ·) := by
  simp only [lookNames, List.mapM_cons, bind, Except.bind, pure, Except.pure, lookOne, h]
  cases List.mapM (lookOne names) t <;> rfl

theorem takeOf_fulls (names pre : Names) (dims : Shape) : ∀ (ns : Names), names = pre ++ ns → ns.length = dims.length →
    lookNames names (takeOf (List.replicate dims.length slAll) pre.length) = .ok (pieceNames (dims.map Piece.full) ns) := by
  induction dims generalizing pre with
  | nil => intro ns _ _; simp [takeOf, lookNames, pieceNames, pure, Except.pure]
  | cons n r ih =>
    intro ns hnames hlen
    cases ns with
    | nil => simp at hlen
    | cons nm ns' =>
      have hget : names[pre.length]? = some nm := by rw [hnames]; simp
      simp only [List.length_cons, List.replicate_succ, slAll, takeOf]
      rw [lookNames_cons_some names _ _ nm hget]
      have := ih (pre ++ [nm]) ns' (by rw [hnames]; simp) (by simpa using hlen)
      simp only [List.length_append, List.length_cons, List.length_nil, slAll] at this
      simp [this, Except.map, pieceNames, Piece.full]

end TdVerif.C03

namespace TdVerif.C03
open TorchSpec Td

theorem takeOf_walk (items : List Ix) : ∀ (e : Nat) (dims : Shape) (P : List Piece) (names pre ns : Names),
    basicNoEll items = true → walk e dims items = .ok P → names = pre ++ ns → ns.length = dims.length →
    lookNames names (takeOf (items ++ List.replicate (dims.length - specified items) slAll) pre.length)
      = .ok (pieceNames P ns) := by
  induction items with
  | nil =>
    intro e dims P names pre ns _ h hnames hlen
    simp [walk] at h; subst h
    simpa [specified] using takeOf_fulls names pre dims ns hnames hlen
  | cons x r ih =>
    intro e dims P names pre ns hb h hnames hlen
    simp only [basicNoEll, List.all_cons, Bool.and_eq_true] at hb
    have hr : basicNoEll r = true := hb.2
    cases x with
    | ell => simp at hb
    | list l => simp [isBasic] at hb
    | range a b c => simp [isBasic] at hb
    | mask s d => simp [isBasic] at hb
    | none =>
      simp only [walk] at h
      obtain ⟨P', h1, rfl⟩ := map_ok h
      simp only [List.cons_append, takeOf, specified]
      rw [lookNames_cons_none, ih e dims P' names pre ns hr h1 hnames hlen]
      simp [Except.map, pieceNames]
    | int i =>
      cases dims with
      | nil => simp [walk] at h
      | cons n ds =>
        cases ns with
        | nil => simp at hlen
        | cons nm ns' =>
          simp only [walk] at h
          obtain ⟨P', h1, rfl, -⟩ := consSel_ok h
          have := ih e ds P' names (pre ++ [nm]) ns' hr h1 (by rw [hnames]; simp) (by simpa using hlen)
          simp only [List.cons_append, takeOf, specified, List.length_cons, pieceNames, List.drop_succ_cons, List.drop_zero]
          rw [show ds.length + 1 - (1 + specified r) = ds.length - specified r by omega]
          simpa using this
    | slice a b c =>
      cases dims with
      | nil => simp [walk] at h
      | cons n ds =>
        cases ns with
        | nil => simp at hlen
        | cons nm ns' =>
          simp only [walk] at h
          obtain ⟨P', s, e', st', h1, -, -, rfl⟩ := consSlice_ok h
          have hget : names[pre.length]? = some nm := by rw [hnames]; simp
          have := ih e ds P' names (pre ++ [nm]) ns' hr h1 (by rw [hnames]; simp) (by simpa using hlen)
          simp only [List.cons_append, takeOf, specified, List.length_cons, pieceNames, List.drop_succ_cons, List.drop_zero]
          rw [show ds.length + 1 - (1 + specified r) = ds.length - specified r by omega]
          rw [lookNames_cons_some names _ _ nm hget]
          simp only [List.length_append, List.length_cons, List.length_nil] at this
          simp [this, Except.map]
    | tensor s d =>
      cases s with
      | cons m s => simp [isBasic] at hb
      | nil =>
        cases dims with
        | nil => simp [walk] at h
        | cons n ds =>
          cases ns with
          | nil => simp at hlen
          | cons nm ns' =>
            simp only [walk] at h
            obtain ⟨P', h1, rfl, -⟩ := consSel_ok h
            have := ih e ds P' names (pre ++ [nm]) ns' hr h1 (by rw [hnames]; simp) (by simpa using hlen)
            simp only [List.cons_append, takeOf, specified, List.length_cons, pieceNames, List.drop_succ_cons, List.drop_zero]
            rw [show ds.length + 1 - (1 + specified r) = ds.length - specified r by omega]
            simpa using this

end TdVerif.C03

namespace TdVerif.C03
open TorchSpec Td

theorem noEll_of_basicNoEll (items : List Ix) (h : basicNoEll items = true) : noEll items = true := by
  simp only [basicNoEll, noEll, List.all_eq_true, Bool.and_eq_true] at h ⊢
  exact fun x hx => (h x hx).2

theorem filter_nonNone_length (items : List Ix) (h : basicNoEll items = true) :
    (items.filter (· ≠ Ix.none)).length = specified items := by
  induction items with
  | nil => rfl
  | cons x r ih =>
    simp only [basicNoEll, List.all_cons, Bool.and_eq_true] at h
    have := ih h.2
    cases x with
    | ell => simp at h
    | list l => simp [isBasic] at h
    | range a b c => simp [isBasic] at h
    | mask s d => simp [isBasic] at h
    | none => simpa [specified] using this
    | int i => simp only [specified, ← this]; simp; omega
    | slice a b c => simp only [specified, ← this]; simp; omega
    | tensor s d => simp only [specified, ← this]; simp; omega

theorem isBoolean_basic (items : List Ix) (h : basicNoEll items = true) : isBoolean (.tuple items) = none := by
  match items, h with
  | [], _ => rfl
  | [x], h =>
    cases x with
    | mask s d => simp [basicNoEll, isBasic] at h
    | _ => rfl
  | x :: y :: r, _ => cases x <;> rfl

theorem basicNoEll_append_slAll (items : List Ix) (k : Nat) (h : basicNoEll items = true) :
    basicNoEll (items ++ List.replicate k slAll) = true := by
  simp only [basicNoEll, List.all_append, Bool.and_eq_true] at h ⊢
  refine ⟨h, ?_⟩
  simp [List.all_eq_true, slAll, isBasic]

/-- `_get_names_idx` on a basic Ellipsis-free tuple index: the names follow the dims of torch's plan -/
theorem namesIdx_basic (names : Names) (bs : Shape) (items : List Ix) (P : List Piece)
    (hb : basicNoEll items = true) (hlen : names.length = bs.length)
    (hs : specified items ≤ bs.length) (hw : walk (bs.length - specified items) bs items = .ok P) :
    namesIdx (some names) bs.length (.tuple items) = .ok (normNames (pieceNames P names)) := by
  have hn := noEll_of_basicNoEll items hb
  have hlook := takeOf_walk items _ bs P names [] names hb hw rfl hlen
  simp only [List.length_nil] at hlook
  have hconv : convertEllipsis (.tuple (namesItems items bs.length)) bs.length
      = .ok (.tuple (items ++ List.replicate (bs.length - specified items) slAll)) := by
    unfold namesItems
    rw [filter_nonNone_length items hb]
    by_cases hlt : specified items < bs.length
    · rw [if_pos hlt]
      have := convertEllipsis_one items [] bs.length hn rfl (by simpa [specified] using hs)
      simpa [specified] using this
    · rw [if_neg hlt]
      have h0 : bs.length - specified items = 0 := by omega
      have hall : items.all (· != Ix.ell) = true := hn
      simp [convertEllipsis, hall, h0]
  obtain ⟨hloop, hadv⟩ := namesLoop_basic (items ++ List.replicate (bs.length - specified items) slAll)
    NamesSt.init (basicNoEll_append_slAll items _ hb)
  have hfin : namesFinish (namesLoop (items ++ List.replicate (bs.length - specified items) slAll) NamesSt.init)
      = takeOf (items ++ List.replicate (bs.length - specified items) slAll) 0 := by
    unfold namesFinish
    rw [hadv, hloop]
    rfl
  have htake : namesTake names bs.length items = .ok (pieceNames P names) := by
    simp only [namesTake, hconv, PyIndex.items, hfin, hlook]
  simp only [namesIdx, isBoolean_basic items hb, PyIndex.items, htake, normNames]
  split <;> rfl

end TdVerif.C03

namespace TdVerif.C03
open TorchSpec Td

/-- what one iteration does to `count` -/
def nmConsumed : Ix → Nat
  | .none => 0
  | .mask [] _ => 1
  | .mask s _ => s.length
  | _ => 1

/-- invariants of the loop that make every later lookup `names[i]` legal -/
structure NmInv (st : NamesSt) : Prop where
  take_lt : ∀ i, some i ∈ st.take → i < st.count
  adv_lt : st.advPos.isSome = true → st.advDim < st.count
  pos_le : ∀ p, st.advPos = some p → p ≤ st.take.length

theorem advStep_count (nd c : Nat) (m : Bool) (st : NamesSt) : (advStep nd c m st).count = st.count + c := by
  unfold advStep; split <;> (try split) <;> rfl

theorem advStep_inv (nd c : Nat) (m : Bool) (st : NamesSt) (hc : 0 < c) (h : NmInv st) : NmInv (advStep nd c m st) := by
  obtain ⟨h1, h2, h3⟩ := h
  unfold advStep
  cases hp : st.advPos with
  | none =>
    simp only [Option.isNone_none, if_true]
    exact ⟨fun i hi => by have := h1 i hi; simp; omega, fun _ => by simp; omega,
      fun p hp' => by simp at hp'; subst hp'; simp⟩
  | some p0 =>
    have hp0 := h2 (by simp [hp])
    have hle := h3 p0 hp
    simp only [Option.isNone_some, Bool.false_eq_true, if_false]
    split
    · exact ⟨fun i hi => by have := h1 i hi; simp; omega, fun _ => by simp; omega,
        fun p hp' => by simp [hp] at hp'; subst hp'; simpa using hle⟩
    · exact ⟨fun i hi => by have := h1 i hi; simp; omega, fun _ => by simp; omega,
        fun p hp' => by simp [hp] at hp'; subst hp'; simpa using hle⟩

theorem sepStep_inv (st : NamesSt) (h : NmInv st) : NmInv (sepStep st) := by
  obtain ⟨h1, h2, h3⟩ := h
  refine ⟨?_, fun ha => Nat.lt_succ_of_lt (h2 ha), ?_⟩
  · intro i hi
    simp [sepStep] at hi
    rcases hi with hi | hi
    · exact Nat.lt_succ_of_lt (h1 i hi)
    · subst hi; exact Nat.lt_succ_self _
  · intro p hp; have := h3 p hp; simp [sepStep]; omega

theorem namesStep_count (x : Ix) (st : NamesSt) : (namesStep x st).count = st.count + nmConsumed x := by
  cases x with
  | mask s d => cases s <;> simp [namesStep, isNumber, advInfo, nmConsumed, advStep_count]
  | tensor s d => cases s <;> simp [namesStep, isNumber, advInfo, nmConsumed, advStep_count]
  | list l => simp [namesStep, isNumber, advInfo, nmConsumed, advStep_count]
  | range a b c => simp [namesStep, isNumber, advInfo, nmConsumed, advStep_count]
  | none => simp [namesStep, nmConsumed]
  | int i => simp [namesStep, isNumber, nmConsumed]
  | slice a b c => simp [namesStep, isNumber, advInfo, nmConsumed, sepStep]
  | ell => simp [namesStep, isNumber, advInfo, nmConsumed, sepStep]

theorem namesStep_inv (x : Ix) (st : NamesSt) (h : NmInv st) : NmInv (namesStep x st) := by
  have numInv : NmInv { st with count := st.count + 1 } :=
    ⟨fun i hi => Nat.lt_succ_of_lt (h.1 i hi), fun ha => Nat.lt_succ_of_lt (h.2 ha), h.3⟩
  cases x with
  | none =>
    refine ⟨?_, ?_, ?_⟩
    · intro i hi; simp [namesStep] at hi; exact h.1 i hi
    · intro ha; exact h.2 (by simpa [namesStep] using ha)
    · intro p hp; have := h.3 p (by simpa [namesStep] using hp); simp [namesStep]; omega
  | int i => simpa [namesStep, isNumber] using numInv
  | slice a b c => simpa [namesStep, isNumber, advInfo] using sepStep_inv st h
  | ell => simpa [namesStep, isNumber, advInfo] using sepStep_inv st h
  | list l => simpa [namesStep, isNumber, advInfo] using advStep_inv 1 1 false st (by omega) h
  | range a b c => simpa [namesStep, isNumber, advInfo] using advStep_inv 1 1 false st (by omega) h
  | tensor s d =>
    cases s with
    | nil => simpa [namesStep, isNumber] using numInv
    | cons m s => simpa [namesStep, isNumber, advInfo] using advStep_inv _ 1 false st (by omega) h
  | mask s d =>
    cases s with
    | nil => simpa [namesStep, isNumber] using numInv
    | cons m s => simpa [namesStep, isNumber, advInfo] using advStep_inv 1 _ true st (by simp) h

def nmConsumedAll : List Ix → Nat
  | [] => 0
  | x :: r => nmConsumed x + nmConsumedAll r

theorem namesLoop_inv (items : List Ix) : ∀ st, NmInv st →
    NmInv (namesLoop items st) ∧ (namesLoop items st).count = st.count + nmConsumedAll items := by
  induction items with
  | nil => intro st h; exact ⟨h, by simp [namesLoop, nmConsumedAll]⟩
  | cons x r ih =>
    intro st h
    obtain ⟨h1, h2⟩ := ih (namesStep x st) (namesStep_inv x st h)
    refine ⟨by simpa [namesLoop] using h1, ?_⟩
    simp only [namesLoop, h2, namesStep_count, nmConsumedAll]; omega

theorem NmInv_init : NmInv NamesSt.init :=
  ⟨fun i hi => by simp [NamesSt.init] at hi, fun ha => by simp [NamesSt.init] at ha, fun p hp => by simp [NamesSt.init] at hp⟩

/-- every position `namesFinish` asks for has been counted -/
theorem namesFinish_lt (st : NamesSt) (h : NmInv st) : ∀ i, some i ∈ namesFinish st → i < st.count := by
  intro i hi
  unfold namesFinish at hi
  cases hp : st.advPos with
  | none => rw [hp] at hi; exact h.1 i hi
  | some p =>
    rw [hp] at hi
    simp only at hi
    have hblock : ∀ n (v : Option Nat), some i ∈ List.replicate n v → v = some i := by
      intro n v hv; exact (List.eq_of_mem_replicate hv).symm
    have hadv : ∀ (v : Option Nat), v = (if st.nAdv = 1 ∧ (!st.advIsMask) = true then some st.advDim else none) →
        v = some i → i < st.count := by
      intro v hv hvi
      rw [hv] at hvi
      split at hvi
      · cases hvi; exact h.2 (by simp [hp])
      · cases hvi
    split at hi
    · rcases List.mem_append.mp hi with hi | hi
      · exact hadv _ rfl (hblock _ _ hi)
      · exact h.1 i hi
    · rcases List.mem_append.mp hi with hi | hi
      · rcases List.mem_append.mp hi with hi | hi
        · exact h.1 i (List.mem_of_mem_take hi)
        · exact hadv _ rfl (hblock _ _ hi)
      · exact h.1 i (List.mem_of_mem_drop hi)

end TdVerif.C03

namespace TdVerif.C03
open TorchSpec Td

theorem lookNames_ok (names : Names) (t : List (Option Nat)) (h : ∀ i, some i ∈ t → i < names.length) :
    ∃ l, lookNames names t = .ok l ∧ l.length = t.length := by
  induction t with
  | nil => exact ⟨[], by simp [lookNames, pure, Except.pure], rfl⟩
  | cons x r ih =>
    obtain ⟨l, hl, hlen⟩ := ih (fun i hi => h i (by simp [hi]))
    cases x with
    | none => exact ⟨none :: l, by rw [lookNames_cons_none, hl]; rfl, by simp [hlen]⟩
    | some i =>
      have hi := h i (by simp)
      have hget : names[i]? = some names[i] := List.getElem?_eq_getElem hi
      exact ⟨names[i] :: l, by rw [lookNames_cons_some names r i _ hget, hl]; rfl, by simp [hlen]⟩

theorem nmConsumedAll_append (a b : List Ix) : nmConsumedAll (a ++ b) = nmConsumedAll a + nmConsumedAll b := by
  induction a with
  | nil => simp [nmConsumedAll]
  | cons x r ih => simp [nmConsumedAll, ih]; omega

theorem nmConsumedAll_replicate_slAll (k : Nat) : nmConsumedAll (List.replicate k slAll) = k := by
  induction k with
  | zero => rfl
  | succ k ih => simp [List.replicate_succ, nmConsumedAll, nmConsumed, slAll] at ih ⊢; omega

/-- on an index torch accepts, `count` advances by the dims torch says the index names -/
theorem nmConsumedAll_eq_specified (items : List Ix) : ∀ (e : Nat) (dims : Shape) (P : List Piece),
    noEll items = true → walk e dims items = .ok P → nmConsumedAll items = specified items := by
  induction items with
  | nil => intro _ _ _ _ _; rfl
  | cons x r ih =>
    intro e dims P hn h
    simp only [noEll_cons, Bool.and_eq_true] at hn
    obtain ⟨hx, hr⟩ := hn
    cases x with
    | ell => simp at hx
    | none =>
      simp only [walk] at h
      obtain ⟨P', h1, -⟩ := map_ok h
      simpa [nmConsumedAll, nmConsumed, specified] using ih _ _ _ hr h1
    | mask s d =>
      simp only [walk] at h
      split at h
      · rename_i hs
        obtain ⟨P', h1, -⟩ := map_ok h
        have := ih _ _ _ hr h1
        cases s with
        | nil => exact absurd rfl hs.1
        | cons m s' => simp [nmConsumedAll, nmConsumed, specified, this]
      · cases h
    | int i =>
      cases dims with
      | nil => simp [walk] at h
      | cons n ds =>
        simp only [walk] at h
        obtain ⟨P', h1, -, -⟩ := consSel_ok h
        simp [nmConsumedAll, nmConsumed, specified, ih _ _ _ hr h1]
    | slice a b c =>
      cases dims with
      | nil => simp [walk] at h
      | cons n ds =>
        simp only [walk] at h
        obtain ⟨P', s, e', st', h1, -, -, -⟩ := consSlice_ok h
        simp [nmConsumedAll, nmConsumed, specified, ih _ _ _ hr h1]
    | list l =>
      cases dims with
      | nil => simp [walk] at h
      | cons n ds =>
        simp only [walk] at h
        obtain ⟨P', h1, -⟩ := consAdv_ok h
        simp [nmConsumedAll, nmConsumed, specified, ih _ _ _ hr h1]
    | range a b c =>
      cases dims with
      | nil => simp [walk] at h
      | cons n ds =>
        simp only [walk] at h
        obtain ⟨P', h1, -⟩ := consAdv_ok h
        simp [nmConsumedAll, nmConsumed, specified, ih _ _ _ hr h1]
    | tensor s d =>
      cases dims with
      | nil => cases s <;> simp [walk] at h
      | cons n ds =>
        cases s with
        | nil =>
          simp only [walk] at h
          obtain ⟨P', h1, -, -⟩ := consSel_ok h
          simp [nmConsumedAll, nmConsumed, specified, ih _ _ _ hr h1]
        | cons m s =>
          simp only [walk] at h
          obtain ⟨P', h1, -⟩ := consAdv_ok h
          simp [nmConsumedAll, nmConsumed, specified, ih _ _ _ hr h1]

/-- the index `_get_names_idx` iterates over, for an index torch accepts: the items followed by explicit full slices
    for the dims left (whether or not an Ellipsis had to be appended) -/
theorem namesItems_convert (bs : Shape) (items : List Ix) (e : Nat) (P : List Piece)
    (hn : noEll items = true) (hs : specified items ≤ bs.length) (hw : walk e bs items = .ok P) :
    ∃ k, k + specified items ≤ bs.length ∧
      convertEllipsis (.tuple (namesItems items bs.length)) bs.length = .ok (.tuple (items ++ List.replicate k slAll)) := by
  unfold namesItems
  by_cases hlt : (items.filter (· ≠ Ix.none)).length < bs.length
  · rw [if_pos hlt]
    have := convertEllipsis_one items [] bs.length hn rfl (by simpa [specified] using hs)
    exact ⟨bs.length - specified items, by omega, by simpa [specified] using this⟩
  · rw [if_neg hlt]
    have hall : items.all (· != Ix.ell) = true := hn
    exact ⟨0, by omega, by simp [convertEllipsis, hall]⟩

/-- `_get_names_idx` never fails on an index torch accepts on the batch shape (coherent names): every `names[i]` it looks up
    exists; and it returns as many names as it announces (`namesFinish`) -/
theorem namesTake_ok (names : Names) (bs : Shape) (items : List Ix) (e : Nat) (P : List Piece)
    (hn : noEll items = true) (hlen : names.length = bs.length)
    (hs : specified items ≤ bs.length) (hw : walk e bs items = .ok P) :
    ∃ k l, k + specified items ≤ bs.length ∧ namesTake names bs.length items = .ok l ∧
      l.length = (namesFinish (namesLoop (items ++ List.replicate k slAll) NamesSt.init)).length := by
  obtain ⟨k, hk, hc⟩ := namesItems_convert bs items e P hn hs hw
  obtain ⟨hinv, hcount⟩ := namesLoop_inv (items ++ List.replicate k slAll) NamesSt.init NmInv_init
  have hcnt : (namesLoop (items ++ List.replicate k slAll) NamesSt.init).count ≤ bs.length := by
    rw [hcount, nmConsumedAll_append, nmConsumedAll_replicate_slAll, nmConsumedAll_eq_specified items e bs P hn hw]
    simp [NamesSt.init]; omega
  obtain ⟨l, hl, hll⟩ := lookNames_ok names (namesFinish (namesLoop (items ++ List.replicate k slAll) NamesSt.init))
    (fun i hi => by have := namesFinish_lt _ hinv i hi; omega)
  exact ⟨k, l, hk, by simp only [namesTake, hc, PyIndex.items, hl], hll⟩

theorem namesIdx_ok (names : Names) (bs : Shape) (items : List Ix) (e : Nat) (P : List Piece)
    (hn : noEll items = true) (hlen : names.length = bs.length)
    (hs : specified items ≤ bs.length) (hw : walk e bs items = .ok P) :
    ∃ nm, namesIdx (some names) bs.length (.tuple items) = .ok nm := by
  obtain ⟨k, l, -, htake, -⟩ := namesTake_ok names bs items e P hn hlen hs hw
  simp only [namesIdx, PyIndex.items, htake]
  cases hb : isBoolean (.tuple items) with
  | some k =>
    cases k with
    | zero => simp only []; split <;> exact ⟨_, rfl⟩
    | succ k => simp only []; split <;> exact ⟨_, rfl⟩
  | none => simp only []; split <;> exact ⟨_, rfl⟩

end TdVerif.C03

namespace TdVerif.C03
open TorchSpec Td

/-- names never make `td[idx]` fail: for a tensordict without names or with one name per batch dim -/
theorem namesIdx_ok_of_index (tdnames : Option Names) (bs : Shape) (items : List Ix) (R : IndexResult)
    (hn : noEll items = true) (hcoh : ∀ names, tdnames = some names → names.length = bs.length)
    (h : index bs items = .ok R) :
    ∃ nm, namesIdx tdnames bs.length (.tuple items) = .ok nm := by
  cases hnm : tdnames with
  | none => exact ⟨none, by simp [namesIdx]⟩
  | some names =>
    obtain ⟨hs, P, hw, -⟩ := index_inv h
    exact namesIdx_ok names bs items _ P hn (hcoh names hnm) hs hw

theorem namesIdx_single (tdnames : Option Names) (n : Nat) (x : Ix) :
    namesIdx tdnames n (.single x) = namesIdx tdnames n (.tuple [x]) := by
  cases tdnames with
  | none => rfl
  | some names => cases x <;> rfl

end TdVerif.C03

namespace TdVerif.C03
open TorchSpec Td

/-- number of dims of the broadcast of a list of shapes -/
def maxRank : List Shape → Nat
  | [] => 0
  | s :: r => max s.length (maxRank r)

theorem bcRev_length : ∀ (a b r : List Nat), bcRev a b = some r → r.length = max a.length b.length := by
  intro a
  induction a with
  | nil => intro b r h; simp [bcRev] at h; subst h; simp
  | cons x a ih =>
    intro b r h
    cases b with
    | nil => simp [bcRev] at h; subst h; simp
    | cons y b =>
      simp only [bcRev] at h
      cases hr : bcRev a b with
      | none => simp [hr] at h
      | some r' =>
        have := ih b r' hr
        simp only [hr] at h
        split at h
        · cases h; simp [this]; try omega
        · split at h
          · cases h; simp [this]; try omega
          · split at h
            · cases h; simp [this]; try omega
            · cases h

theorem broadcast2_length (a b r : Shape) (h : broadcast2 a b = some r) : r.length = max a.length b.length := by
  unfold broadcast2 at h
  cases hr : bcRev a.reverse b.reverse with
  | none => simp [hr] at h
  | some r' =>
    simp [hr] at h; subst h
    have := bcRev_length _ _ _ hr
    simpa using this

theorem broadcastAll_length : ∀ (l : List Shape) (B : Shape), broadcastAll l = some B → B.length = maxRank l := by
  intro l
  induction l with
  | nil => intro B h; simp [broadcastAll] at h; subst h; rfl
  | cons s r ih =>
    intro B h
    simp only [broadcastAll] at h
    cases hr : broadcastAll r with
    | none => simp [hr] at h
    | some B' =>
      simp only [hr, Option.bind_some] at h
      rw [broadcast2_length s B' B h, ih B' hr, maxRank]

theorem maxRank_append (a b : List Shape) : maxRank (a ++ b) = max (maxRank a) (maxRank b) := by
  induction a with
  | nil => simp [maxRank]
  | cons s r ih => simp [maxRank, ih]; try omega

/-- the loop of `_get_names_idx` in torch's terms: it keeps one position per sliced / new dim, counts the broadcast dims
    as the largest rank among the index arrays, and notices whether there is an index array at all -/
theorem namesLoop_walk (items : List Ix) : ∀ (e : Nat) (dims : Shape) (P : List Piece) (st : NamesSt),
    noEll items = true → walk e dims items = .ok P →
    (namesLoop items st).take.length + dims.length = st.take.length + streamLen P + specified items ∧
    (namesLoop items st).advNdim = max st.advNdim (maxRank (advShapes P)) ∧
    (namesLoop items st).advPos.isSome = (st.advPos.isSome || hasAdv P) := by
  induction items with
  | nil =>
    intro e dims P st _ h
    simp [walk] at h; subst h
    simp [namesLoop, streamLen_fulls, specified, hasAdv, maxRank]
  | cons x r ih =>
    intro e dims P st hn h
    simp only [noEll_cons, Bool.and_eq_true] at hn
    obtain ⟨hx, hr⟩ := hn
    have advFields : ∀ nd c m, (advStep nd c m st).take = st.take ∧ (advStep nd c m st).advNdim = max st.advNdim nd ∧
        (advStep nd c m st).advPos.isSome = true := by
      intro nd c m
      unfold advStep
      cases hp : st.advPos with
      | none => simp
      | some p => simp only [Option.isNone_some, Bool.false_eq_true, if_false]; split <;> simp [hp]
    cases x with
    | ell => simp at hx
    | none =>
      simp only [walk] at h
      obtain ⟨P', h1, rfl⟩ := map_ok h
      obtain ⟨a1, a2, a3⟩ := ih e dims P' { st with take := st.take ++ [none], sepAfterAdv := st.advPos.isSome } hr h1
      have hstep : namesStep Ix.none st = { st with take := st.take ++ [none], sepAfterAdv := st.advPos.isSome } := rfl
      simp only [namesLoop, hstep]
      dsimp only at a1 a2 a3
      refine ⟨?_, ?_, ?_⟩
      · simp only [List.length_append, List.length_cons, List.length_nil] at a1
        simp only [streamLen, specified]; omega
      · rw [a2]; simp [advShapes]
      · rw [a3]; simp [hasAdv, advShapes]
    | mask s d =>
      simp only [walk] at h
      split at h
      · rename_i hs
        obtain ⟨P', h1, rfl⟩ := map_ok h
        cases s with
        | nil => exact absurd rfl hs.1
        | cons m s' =>
          have hlen : (m :: s').length ≤ dims.length := by
            have := congrArg List.length hs.2; simp at this; simp; omega
          have hstep : namesStep (Ix.mask (m :: s') d) st = advStep 1 (m :: s').length true st := by simp [namesStep, isNumber, advInfo]
          obtain ⟨a1, a2, a3⟩ := ih e (dims.drop (m :: s').length) P' (advStep 1 (m :: s').length true st) hr h1
          obtain ⟨f1, f2, f3⟩ := advFields 1 (m :: s').length true
          simp only [namesLoop, hstep]
          rw [f1] at a1; rw [f2] at a2; rw [f3] at a3
          refine ⟨?_, ?_, ?_⟩
          · simp only [List.length_drop] at a1
            simp only [streamLen, specified, maskPiece]; omega
          · rw [a2]; simp [advShapes, maskPiece, maxRank]; try omega
          · rw [a3]; simp [hasAdv, advShapes, maskPiece]
      · cases h
    | int i =>
      cases dims with
      | nil => simp [walk] at h
      | cons n ds =>
        simp only [walk] at h
        obtain ⟨P', h1, rfl, -⟩ := consSel_ok h
        have hstep : namesStep (Ix.int i) st = { st with count := st.count + 1 } := by simp [namesStep, isNumber]
        obtain ⟨a1, a2, a3⟩ := ih e ds P' { st with count := st.count + 1 } hr h1
        simp only [namesLoop, hstep]
        dsimp only at a1 a2 a3
        exact ⟨by simp only [streamLen, specified]; rw [show (n :: ds).length = ds.length + 1 from rfl]; omega, by rw [a2]; simp [advShapes],
          by rw [a3]; simp [hasAdv, advShapes]⟩
    | slice a b c =>
      cases dims with
      | nil => simp [walk] at h
      | cons n ds =>
        simp only [walk] at h
        obtain ⟨P', s, e', st', h1, -, -, rfl⟩ := consSlice_ok h
        have hstep : namesStep (Ix.slice a b c) st = sepStep st := by simp [namesStep, isNumber, advInfo]
        obtain ⟨a1, a2, a3⟩ := ih e ds P' (sepStep st) hr h1
        simp only [namesLoop, hstep]
        have s1 : (sepStep st).take.length = st.take.length + 1 := by simp [sepStep]
        have s2 : (sepStep st).advNdim = st.advNdim := rfl
        have s3 : (sepStep st).advPos = st.advPos := rfl
        rw [s1] at a1; rw [s2] at a2; rw [s3] at a3
        refine ⟨?_, ?_, ?_⟩
        · simp only [streamLen, specified]; rw [show (n :: ds).length = ds.length + 1 from rfl]; omega
        · rw [a2]; simp [advShapes]
        · rw [a3]; simp [hasAdv, advShapes]
    | list l =>
      cases dims with
      | nil => simp [walk] at h
      | cons n ds =>
        simp only [walk] at h
        obtain ⟨P', h1, rfl⟩ := consAdv_ok h
        have hstep : namesStep (Ix.list l) st = advStep 1 1 false st := by simp [namesStep, isNumber, advInfo]
        obtain ⟨a1, a2, a3⟩ := ih e ds P' (advStep 1 1 false st) hr h1
        obtain ⟨f1, f2, f3⟩ := advFields 1 1 false
        simp only [namesLoop, hstep]
        rw [f1] at a1; rw [f2] at a2; rw [f3] at a3
        refine ⟨?_, ?_, ?_⟩
        · simp only [streamLen, specified]; rw [show (n :: ds).length = ds.length + 1 from rfl]; omega
        · rw [a2]; simp [advShapes, maxRank]; try omega
        · rw [a3]; simp [hasAdv, advShapes]
    | range a b c =>
      cases dims with
      | nil => simp [walk] at h
      | cons n ds =>
        simp only [walk] at h
        obtain ⟨P', h1, rfl⟩ := consAdv_ok h
        have hstep : namesStep (Ix.range a b c) st = advStep 1 1 false st := by simp [namesStep, isNumber, advInfo]
        obtain ⟨a1, a2, a3⟩ := ih e ds P' (advStep 1 1 false st) hr h1
        obtain ⟨f1, f2, f3⟩ := advFields 1 1 false
        simp only [namesLoop, hstep]
        rw [f1] at a1; rw [f2] at a2; rw [f3] at a3
        refine ⟨?_, ?_, ?_⟩
        · simp only [streamLen, specified]; rw [show (n :: ds).length = ds.length + 1 from rfl]; omega
        · rw [a2]; simp [advShapes, maxRank]; try omega
        · rw [a3]; simp [hasAdv, advShapes]
    | tensor s d =>
      cases dims with
      | nil => cases s <;> simp [walk] at h
      | cons n ds =>
        cases s with
        | nil =>
          simp only [walk] at h
          obtain ⟨P', h1, rfl, -⟩ := consSel_ok h
          have hstep : namesStep (Ix.tensor [] d) st = { st with count := st.count + 1 } := by simp [namesStep, isNumber]
          obtain ⟨a1, a2, a3⟩ := ih e ds P' { st with count := st.count + 1 } hr h1
          simp only [namesLoop, hstep]
          dsimp only at a1 a2 a3
          exact ⟨by simp only [streamLen, specified]; rw [show (n :: ds).length = ds.length + 1 from rfl]; omega, by rw [a2]; simp [advShapes],
            by rw [a3]; simp [hasAdv, advShapes]⟩
        | cons m s' =>
          simp only [walk] at h
          obtain ⟨P', h1, rfl⟩ := consAdv_ok h
          have hstep : namesStep (Ix.tensor (m :: s') d) st = advStep (m :: s').length 1 false st := by simp [namesStep, isNumber, advInfo]
          obtain ⟨a1, a2, a3⟩ := ih e ds P' (advStep (m :: s').length 1 false st) hr h1
          obtain ⟨f1, f2, f3⟩ := advFields (m :: s').length 1 false
          simp only [namesLoop, hstep]
          rw [f1] at a1; rw [f2] at a2; rw [f3] at a3
          refine ⟨?_, ?_, ?_⟩
          · simp only [streamLen, specified]; rw [show (n :: ds).length = ds.length + 1 from rfl]; omega
          · rw [a2]; simp [advShapes, maxRank]; try omega
          · rw [a3]; simp [hasAdv, advShapes]

end TdVerif.C03

namespace TdVerif.C03
open TorchSpec Td

theorem namesFinish_length (st : NamesSt) (h : NmInv st) :
    (namesFinish st).length = st.take.length + (if st.advPos.isSome then st.advNdim else 0) := by
  unfold namesFinish
  cases hp : st.advPos with
  | none => simp
  | some p =>
    have hle := h.3 p hp
    simp only [Option.isSome_some, if_true]
    split
    · simp; omega
    · simp [List.length_take, List.length_drop]; omega

/-- explicit trailing full slices are torch's implicit tail -/
theorem walk_append_slAll (items : List Ix) : ∀ (e k : Nat) (dims : Shape), noEll items = true →
    k + specified items ≤ dims.length →
    walk e dims (items ++ List.replicate k slAll) = walk e dims items := by
  induction items with
  | nil =>
    intro e k dims _ hk
    have := walk_replicate k e dims [] (by simpa [specified] using hk)
    simp only [List.append_nil] at this
    simp only [List.nil_append, this, walk, Except.map, ← List.map_append, List.take_append_drop]
  | cons x r ih =>
    intro e k dims hn hk
    simp only [noEll_cons, Bool.and_eq_true] at hn
    obtain ⟨hx, hr⟩ := hn
    cases x with
    | ell => simp at hx
    | none => simp only [List.cons_append, walk]; rw [ih e k dims hr (by simpa [specified] using hk)]
    | mask s d =>
      simp only [List.cons_append, walk]
      split
      · rename_i hs
        have hlen : s.length ≤ dims.length := by
          have := congrArg List.length hs.2; simp at this; omega
        rw [ih e k _ hr (by simp [specified] at hk ⊢; omega)]
      · rfl
    | int i =>
      cases dims with
      | nil => simp [walk]
      | cons n ds => simp only [List.cons_append, walk]; rw [ih e k ds hr (by simp [specified] at hk ⊢; omega)]
    | slice a b c =>
      cases dims with
      | nil => simp [walk]
      | cons n ds => simp only [List.cons_append, walk]; rw [ih e k ds hr (by simp [specified] at hk ⊢; omega)]
    | list l =>
      cases dims with
      | nil => simp [walk]
      | cons n ds => simp only [List.cons_append, walk]; rw [ih e k ds hr (by simp [specified] at hk ⊢; omega)]
    | range a b c =>
      cases dims with
      | nil => simp [walk]
      | cons n ds => simp only [List.cons_append, walk]; rw [ih e k ds hr (by simp [specified] at hk ⊢; omega)]
    | tensor s d =>
      cases dims with
      | nil => cases s <;> simp [walk]
      | cons n ds =>
        cases s <;>
        · simp only [List.cons_append, walk]; rw [ih e k ds hr (by simp [specified] at hk ⊢; omega)]

/-- an index torch accepts names at least one dim per non-`None` item -/
theorem filterLen_le_specified (items : List Ix) : ∀ (e : Nat) (dims : Shape) (P : List Piece),
    noEll items = true → walk e dims items = .ok P → (items.filter (· ≠ Ix.none)).length ≤ specified items := by
  induction items with
  | nil => intro _ _ _ _ _; exact Nat.le_refl _
  | cons x r ih =>
    intro e dims P hn h
    simp only [noEll_cons, Bool.and_eq_true] at hn
    obtain ⟨hx, hr⟩ := hn
    cases x with
    | ell => simp at hx
    | none =>
      simp only [walk] at h
      obtain ⟨P', h1, -⟩ := map_ok h
      simpa [specified] using ih _ _ _ hr h1
    | mask s d =>
      simp only [walk] at h
      split at h
      · rename_i hs
        obtain ⟨P', h1, -⟩ := map_ok h
        have := ih _ _ _ hr h1
        have hpos : 0 < s.length := by cases s <;> simp_all
        simp [specified] at this ⊢; omega
      · cases h
    | int i =>
      cases dims with
      | nil => simp [walk] at h
      | cons n ds =>
        simp only [walk] at h
        obtain ⟨P', h1, -, -⟩ := consSel_ok h
        have := ih _ _ _ hr h1; simp [specified] at this ⊢; omega
    | slice a b c =>
      cases dims with
      | nil => simp [walk] at h
      | cons n ds =>
        simp only [walk] at h
        obtain ⟨P', s, e', st', h1, -, -, -⟩ := consSlice_ok h
        have := ih _ _ _ hr h1; simp [specified] at this ⊢; omega
    | list l =>
      cases dims with
      | nil => simp [walk] at h
      | cons n ds =>
        simp only [walk] at h
        obtain ⟨P', h1, -⟩ := consAdv_ok h
        have := ih _ _ _ hr h1; simp [specified] at this ⊢; omega
    | range a b c =>
      cases dims with
      | nil => simp [walk] at h
      | cons n ds =>
        simp only [walk] at h
        obtain ⟨P', h1, -⟩ := consAdv_ok h
        have := ih _ _ _ hr h1; simp [specified] at this ⊢; omega
    | tensor s d =>
      cases dims with
      | nil => cases s <;> simp [walk] at h
      | cons n ds =>
        cases s with
        | nil =>
          simp only [walk] at h
          obtain ⟨P', h1, -, -⟩ := consSel_ok h
          have := ih _ _ _ hr h1; simp [specified] at this ⊢; omega
        | cons m s =>
          simp only [walk] at h
          obtain ⟨P', h1, -⟩ := consAdv_ok h
          have := ih _ _ _ hr h1; simp [specified] at this ⊢; omega

theorem namesItems_convert_eq (bs : Shape) (items : List Ix) (e : Nat) (P : List Piece)
    (hn : noEll items = true) (hs : specified items ≤ bs.length) (hw : walk e bs items = .ok P) :
    convertEllipsis (.tuple (namesItems items bs.length)) bs.length
      = .ok (.tuple (items ++ List.replicate (bs.length - specified items) slAll)) := by
  unfold namesItems
  by_cases hlt : (items.filter (· ≠ Ix.none)).length < bs.length
  · rw [if_pos hlt]
    have := convertEllipsis_one items [] bs.length hn rfl (by simpa [specified] using hs)
    simpa [specified] using this
  · rw [if_neg hlt]
    have hfl := filterLen_le_specified items e bs P hn hw
    have h0 : bs.length - specified items = 0 := by omega
    have hall : items.all (· != Ix.ell) = true := hn
    simp [convertEllipsis, hall, h0]

/-- **one name per dim of the result**: for an Ellipsis-free tuple index torch accepts on the batch shape with result `R`,
    the general branch of `_get_names_idx` succeeds and returns exactly `R.shape.length` names -/
theorem namesTake_length (names : Names) (bs : Shape) (items : List Ix) (R : IndexResult)
    (hn : noEll items = true) (hlen : names.length = bs.length) (h : index bs items = .ok R) :
    ∃ l, namesTake names bs.length items = .ok l ∧ l.length = R.shape.length := by
  obtain ⟨hs, P, hw, hf⟩ := index_inv h
  obtain ⟨B, hB, hshape, -, -⟩ := finalize_ok hf
  let k := bs.length - specified items
  have hc := namesItems_convert_eq bs items _ P hn hs hw
  have hwc : walk (bs.length - specified items) bs (items ++ List.replicate k slAll) = .ok P := by
    rw [walk_append_slAll items _ k bs hn (by omega)]; exact hw
  have hnc : noEll (items ++ List.replicate k slAll) = true := by
    rw [noEll_append, hn, noEll_replicate_slAll]; rfl
  obtain ⟨hinv, hcount⟩ := namesLoop_inv (items ++ List.replicate k slAll) NamesSt.init NmInv_init
  obtain ⟨w1, w2, w3⟩ := namesLoop_walk (items ++ List.replicate k slAll) _ bs P NamesSt.init hnc hwc
  have hcnt : (namesLoop (items ++ List.replicate k slAll) NamesSt.init).count ≤ bs.length := by
    rw [hcount, nmConsumedAll_append, nmConsumedAll_replicate_slAll, nmConsumedAll_eq_specified items _ bs P hn hw]
    simp [NamesSt.init]; omega
  obtain ⟨l, hl, hll⟩ := lookNames_ok names (namesFinish (namesLoop (items ++ List.replicate k slAll) NamesSt.init))
    (fun i hi => by have := namesFinish_lt _ hinv i hi; omega)
  refine ⟨l, by simp only [namesTake, hc, PyIndex.items]; exact hl, ?_⟩
  rw [hll, namesFinish_length _ hinv, hshape, outShape_length, w2, w3, broadcastAll_length _ B hB]
  have hsp : specified (items ++ List.replicate k slAll) = bs.length := by
    rw [specified_append, specified_replicate_slAll]; omega
  rw [hsp] at w1
  simp only [NamesSt.init, List.length_nil, Nat.zero_add, Option.isSome_none, Bool.false_or, Nat.zero_max] at w1 ⊢
  omega

end TdVerif.C03

namespace TdVerif.C03
open TorchSpec Td

/-- torch's result for a lone boolean mask of rank k: one dim for the selected elements, then the remaining dims -/
theorem index_mask_rank (bs : Shape) (s : Shape) (d : List Bool) (R : IndexResult)
    (h : index bs [Ix.mask s d] = .ok R) : R.shape.length + s.length = 1 + bs.length ∧ s.length ≤ bs.length := by
  obtain ⟨hs, P, hw, hf⟩ := index_inv h
  obtain ⟨B, hB, hshape, -, -⟩ := finalize_ok hf
  simp only [walk] at hw
  split at hw
  · rename_i hsm
    simp only [walk, Except.map] at hw
    cases hw
    have hlen : s.length ≤ bs.length := by
      have := congrArg List.length hsm.2; simp at this; omega
    have hBl := broadcastAll_length _ B hB
    simp only [advShapes, maskPiece, advShapes_map_full, maxRank] at hBl
    rw [hshape, outShape_length]
    simp only [hasAdv, advShapes, maskPiece, advShapes_map_full, streamLen, streamLen_fulls, List.length_drop]
    simp at hBl ⊢
    omega
  · cases hw

/-- **`_get_names_idx` returns one name per dim of the result** (or `None`), for every Ellipsis-free tuple index torch
    accepts on the batch shape — basic or advanced, adjacent or not, lone masks included -/
theorem namesIdx_length (names : Names) (bs : Shape) (items : List Ix) (R : IndexResult)
    (hn : noEll items = true) (hlen : names.length = bs.length) (h : index bs items = .ok R) :
    ∃ nm, namesIdx (some names) bs.length (.tuple items) = .ok nm ∧ ∀ l, nm = some l → l.length = R.shape.length := by
  obtain ⟨l, htake, hl⟩ := namesTake_length names bs items R hn hlen h
  have general : ∃ nm, (match (Except.ok l : Except Err Names) with
      | .error e => (.error e : Except Err (Option Names))
      | .ok l => if l.all (· == none) then .ok none else .ok (some l)) = .ok nm ∧
      ∀ l', nm = some l' → l'.length = R.shape.length := by
    by_cases hall : l.all (· == none) = true
    · exact ⟨none, by simp only [hall, if_true], by intro l' h'; cases h'⟩
    · exact ⟨some l, by simp only [hall, Bool.false_eq_true, if_false], by intro l' h'; cases h'; exact hl⟩
  simp only [namesIdx, PyIndex.items, htake]
  cases hb : isBoolean (.tuple items) with
  | none => exact general
  | some k =>
    cases k with
    | zero => exact general
    | succ k =>
      -- a lone mask of rank k + 1
      have hitems : ∃ s d, items = [Ix.mask s d] ∧ s.length = k + 1 := by
        match items, hb with
        | [Ix.mask s d], hb => exact ⟨s, d, rfl, by simpa [isBoolean] using hb⟩
      obtain ⟨s, d, rfl, hsl⟩ := hitems
      obtain ⟨hr, hle⟩ := index_mask_rank bs s d R h
      simp only []
      by_cases hall : (none :: names.drop (k + 1)).all (· == none) = true
      · exact ⟨none, by simp only [hall, if_true], by intro l' h'; cases h'⟩
      · refine ⟨some (none :: names.drop (k + 1)), by simp only [hall, Bool.false_eq_true, if_false], ?_⟩
        intro l' h'; cases h'
        simp only [List.length_cons, List.length_drop]; omega

end TdVerif.C03
