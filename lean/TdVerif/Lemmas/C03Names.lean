/-
  C03 lemmas, part 7: `_get_names_idx` for basic indices (ints, 0-d integer tensors, slices, None).
-/
import TdVerif.Lemmas.C03Set

namespace TdVerif.C03
open TorchSpec Td

/-- the dim names torch's plan induces: a selected dim loses its name, a sliced dim keeps it, a new dim has none
    (advanced pieces: names of the consumed dims are dropped — outside the theorem below) -/
def pieceNames : List Piece → Names → Names
  | [], _ => []
  | .sel .. :: r, ns => pieceNames r (ns.drop 1)
  | .sl .. :: r, ns => ns.headD none :: pieceNames r (ns.drop 1)
  | .new :: r, ns => none :: pieceNames r ns
  | .adv ks _ _ :: r, ns => pieceNames r (ns.drop ks.length)

/-- `None` when every name is `None` (the last lines of `_get_names_idx`) -/
def normNames (l : Names) : Option Names := if l.all (· == none) then none else some l

/-- `idx_to_take` for basic items, starting at dim `k` -/
def takeOf : List Ix → Nat → List (Option Nat)
  | [], _ => []
  | .none :: r, k => none :: takeOf r k
  | .int _ :: r, k => takeOf r (k + 1)
  | .tensor [] _ :: r, k => takeOf r (k + 1)
  | _ :: r, k => some k :: takeOf r (k + 1)

def basicNoEll (items : List Ix) : Bool := items.all (fun x => isBasic x && x != Ix.ell)

theorem namesLoop_basic (items : List Ix) : ∀ (st : NamesSt), basicNoEll items = true →
    (namesLoop items st).take = st.take ++ takeOf items st.count := by
  induction items with
  | nil => intro st _; simp [namesLoop, takeOf]
  | cons x r ih =>
    intro st h
    simp only [basicNoEll, List.all_cons, Bool.and_eq_true] at h
    have hr : basicNoEll r = true := h.2
    cases x with
    | none => simp [namesLoop, takeOf, ih _ hr]
    | int i => simp [namesLoop, takeOf, ih _ hr]
    | slice a b c => simp [namesLoop, takeOf, ih _ hr]
    | ell => simp at h
    | list l => simp [isBasic] at h
    | range a b c => simp [isBasic] at h
    | mask s d => simp [isBasic] at h
    | tensor s d =>
      cases s with
      | nil => simp [namesLoop, takeOf, ih _ hr]
      | cons m s => simp [isBasic] at h

theorem lookNames_cons_none (names : Names) (t : List (Option Nat)) :
    lookNames names (none :: t) = (lookNames names t).map (none :: ·) := by
  simp only [lookNames, List.mapM_cons, bind, Except.bind, pure, Except.pure, lookOne]
  cases List.mapM (lookOne names) t <;> rfl

theorem lookNames_cons_some (names : Names) (t : List (Option Nat)) (i : Nat) (nm : Option String)
    (h : names[i]? = some nm) : lookNames names (some i :: t) = (lookNames names t).map (nm :: ·) := by
  simp only [lookNames, List.mapM_cons, bind, Except.bind, pure, Except.pure, lookOne, h]
  cases List.mapM (lookOne names) t <;> rfl

theorem takeOf_fulls (names pre : Names) (dims : Shape) : ∀ (ns : Names), names = pre ++ ns → ns.length = dims.length →
    lookNames names (takeOf (List.replicate dims.length slAll) pre.length) = .ok (pieceNames (dims.map Piece.full) ns) := by
  induction dims generalizing pre with
  | nil => intro ns _ _; simp [takeOf, lookNames, pieceNames, pure, Except.pure]
  | cons n r ih =>
    intro ns hnames hlen
    cases ns with
    | nil => simp at hlen
    | cons nm ns' =>
      have hget : names[pre.length]? = some nm := by rw [hnames]; simp
      simp only [List.length_cons, List.replicate_succ, slAll, takeOf]
      rw [lookNames_cons_some names _ _ nm hget]
      have := ih (pre ++ [nm]) ns' (by rw [hnames]; simp) (by simpa using hlen)
      simp only [List.length_append, List.length_cons, List.length_nil, slAll] at this
      simp [this, Except.map, pieceNames, Piece.full]

end TdVerif.C03

namespace TdVerif.C03
open TorchSpec Td

theorem takeOf_walk (items : List Ix) : ∀ (e : Nat) (dims : Shape) (P : List Piece) (names pre ns : Names),
    basicNoEll items = true → walk e dims items = .ok P → names = pre ++ ns → ns.length = dims.length →
    lookNames names (takeOf (items ++ List.replicate (dims.length - specified items) slAll) pre.length)
      = .ok (pieceNames P ns) := by
  induction items with
  | nil =>
    intro e dims P names pre ns _ h hnames hlen
    simp [walk] at h; subst h
    simpa [specified] using takeOf_fulls names pre dims ns hnames hlen
  | cons x r ih =>
    intro e dims P names pre ns hb h hnames hlen
    simp only [basicNoEll, List.all_cons, Bool.and_eq_true] at hb
    have hr : basicNoEll r = true := hb.2
    cases x with
    | ell => simp at hb
    | list l => simp [isBasic] at hb
    | range a b c => simp [isBasic] at hb
    | mask s d => simp [isBasic] at hb
    | none =>
      simp only [walk] at h
      obtain ⟨P', h1, rfl⟩ := map_ok h
      simp only [List.cons_append, takeOf, specified]
      rw [lookNames_cons_none, ih e dims P' names pre ns hr h1 hnames hlen]
      simp [Except.map, pieceNames]
    | int i =>
      cases dims with
      | nil => simp [walk] at h
      | cons n ds =>
        cases ns with
        | nil => simp at hlen
        | cons nm ns' =>
          simp only [walk] at h
          obtain ⟨P', h1, rfl, -⟩ := consSel_ok h
          have := ih e ds P' names (pre ++ [nm]) ns' hr h1 (by rw [hnames]; simp) (by simpa using hlen)
          simp only [List.cons_append, takeOf, specified, List.length_cons, pieceNames, List.drop_succ_cons, List.drop_zero]
          rw [show ds.length + 1 - (1 + specified r) = ds.length - specified r by omega]
          simpa using this
    | slice a b c =>
      cases dims with
      | nil => simp [walk] at h
      | cons n ds =>
        cases ns with
        | nil => simp at hlen
        | cons nm ns' =>
          simp only [walk] at h
          obtain ⟨P', s, e', st', h1, -, -, rfl⟩ := consSlice_ok h
          have hget : names[pre.length]? = some nm := by rw [hnames]; simp
          have := ih e ds P' names (pre ++ [nm]) ns' hr h1 (by rw [hnames]; simp) (by simpa using hlen)
          simp only [List.cons_append, takeOf, specified, List.length_cons, pieceNames, List.drop_succ_cons, List.drop_zero]
          rw [show ds.length + 1 - (1 + specified r) = ds.length - specified r by omega]
          rw [lookNames_cons_some names _ _ nm hget]
          simp only [List.length_append, List.length_cons, List.length_nil] at this
          simp [this, Except.map]
    | tensor s d =>
      cases s with
      | cons m s => simp [isBasic] at hb
      | nil =>
        cases dims with
        | nil => simp [walk] at h
        | cons n ds =>
          cases ns with
          | nil => simp at hlen
          | cons nm ns' =>
            simp only [walk] at h
            obtain ⟨P', h1, rfl, -⟩ := consSel_ok h
            have := ih e ds P' names (pre ++ [nm]) ns' hr h1 (by rw [hnames]; simp) (by simpa using hlen)
            simp only [List.cons_append, takeOf, specified, List.length_cons, pieceNames, List.drop_succ_cons, List.drop_zero]
            rw [show ds.length + 1 - (1 + specified r) = ds.length - specified r by omega]
            simpa using this

end TdVerif.C03

namespace TdVerif.C03
open TorchSpec Td

theorem noEll_of_basicNoEll (items : List Ix) (h : basicNoEll items = true) : noEll items = true := by
  simp only [basicNoEll, noEll, List.all_eq_true, Bool.and_eq_true] at h ⊢
  exact fun x hx => (h x hx).2

theorem filter_nonNone_length (items : List Ix) (h : basicNoEll items = true) :
    (items.filter (· ≠ Ix.none)).length = specified items := by
  induction items with
  | nil => rfl
  | cons x r ih =>
    simp only [basicNoEll, List.all_cons, Bool.and_eq_true] at h
    have := ih h.2
    cases x with
    | ell => simp at h
    | list l => simp [isBasic] at h
    | range a b c => simp [isBasic] at h
    | mask s d => simp [isBasic] at h
    | none => simpa [specified] using this
    | int i => simp only [specified, ← this]; simp; omega
    | slice a b c => simp only [specified, ← this]; simp; omega
    | tensor s d => simp only [specified, ← this]; simp; omega

theorem isBoolean_basic (items : List Ix) (h : basicNoEll items = true) : isBoolean (.tuple items) = none := by
  match items, h with
  | [], _ => rfl
  | [x], h =>
    cases x with
    | mask s d => simp [basicNoEll, isBasic] at h
    | _ => rfl
  | x :: y :: r, _ => cases x <;> rfl

theorem basicNoEll_append_slAll (items : List Ix) (k : Nat) (h : basicNoEll items = true) :
    basicNoEll (items ++ List.replicate k slAll) = true := by
  simp only [basicNoEll, List.all_append, Bool.and_eq_true] at h ⊢
  refine ⟨h, ?_⟩
  simp [List.all_eq_true, slAll, isBasic]

/-- `_get_names_idx` on a basic Ellipsis-free tuple index: the names follow the dims of torch's plan -/
theorem namesIdx_basic (names : Names) (bs : Shape) (items : List Ix) (P : List Piece)
    (hb : basicNoEll items = true) (hlen : names.length = bs.length)
    (hs : specified items ≤ bs.length) (hw : walk (bs.length - specified items) bs items = .ok P) :
    namesIdx (some names) bs.length (.tuple items) = .ok (normNames (pieceNames P names)) := by
  have hn := noEll_of_basicNoEll items hb
  have hlook := takeOf_walk items _ bs P names [] names hb hw rfl hlen
  simp only [List.length_nil] at hlook
  have hconv : convertEllipsis (.tuple (namesItems items bs.length)) bs.length
      = .ok (.tuple (items ++ List.replicate (bs.length - specified items) slAll)) := by
    unfold namesItems
    rw [filter_nonNone_length items hb]
    by_cases hlt : specified items < bs.length
    · rw [if_pos hlt]
      have := convertEllipsis_one items [] bs.length hn rfl (by simpa [specified] using hs)
      simpa [specified] using this
    · rw [if_neg hlt]
      have h0 : bs.length - specified items = 0 := by omega
      have hall : items.all (· != Ix.ell) = true := hn
      simp [convertEllipsis, hall, h0]
  have hloop := namesLoop_basic (items ++ List.replicate (bs.length - specified items) slAll)
    { take := [], count := 0, noMore := false } (basicNoEll_append_slAll items _ hb)
  simp only [List.nil_append] at hloop
  have htake : namesTake names bs.length items = .ok (pieceNames P names) := by
    simp only [namesTake, hconv, PyIndex.items, hloop, hlook]
  simp only [namesIdx, isBoolean_basic items hb, PyIndex.items, htake, normNames]
  split <;> rfl

end TdVerif.C03

namespace TdVerif.C03
open TorchSpec Td

/-- number of items that are not `None` (each advances `count` in `_get_names_idx` by one) -/
def nonNone (items : List Ix) : Nat := (items.filter (· ≠ Ix.none)).length

theorem nonNone_cons_none (r : List Ix) : nonNone (Ix.none :: r) = nonNone r := by simp [nonNone]

theorem nonNone_cons (x : Ix) (r : List Ix) (h : x ≠ Ix.none) : nonNone (x :: r) = nonNone r + 1 := by
  simp [nonNone, h]

/-- `_get_names_idx` only ever asks for names of dims it has counted -/
theorem namesLoop_bound (items : List Ix) : ∀ (st : NamesSt),
    (namesLoop items st).count = st.count + nonNone items ∧
    ∀ i, some i ∈ (namesLoop items st).take → (some i ∈ st.take ∨ i < st.count + nonNone items) := by
  induction items with
  | nil => intro st; exact ⟨by simp [namesLoop, nonNone], fun i hi => Or.inl (by simpa [namesLoop] using hi)⟩
  | cons x r ih =>
    intro st
    cases x with
    | none =>
      obtain ⟨h1, h2⟩ := ih { st with take := st.take ++ [none] }
      simp only [namesLoop, nonNone_cons_none]
      refine ⟨h1, fun i hi => ?_⟩
      rcases h2 i hi with h | h
      · left; simpa using h
      · right; exact h
    | int i' =>
      obtain ⟨h1, h2⟩ := ih { st with count := st.count + 1 }
      simp only [namesLoop, nonNone_cons _ _ (by simp : Ix.int i' ≠ Ix.none)]
      refine ⟨by simp at h1 ⊢; omega, fun i hi => ?_⟩
      rcases h2 i hi with h | h
      · left; exact h
      · right; simp at h ⊢; omega
    | slice a b c =>
      obtain ⟨h1, h2⟩ := ih { st with take := st.take ++ [some st.count], count := st.count + 1 }
      simp only [namesLoop, nonNone_cons _ _ (by simp : Ix.slice a b c ≠ Ix.none)]
      refine ⟨by simp at h1 ⊢; omega, fun i hi => ?_⟩
      rcases h2 i hi with h | h
      · simp at h; rcases h with h | h
        · left; exact h
        · right; omega
      · right; simp at h ⊢; omega
    | ell =>
      obtain ⟨h1, h2⟩ := ih { st with take := st.take ++ [some st.count], count := st.count + 1 }
      simp only [namesLoop, nonNone_cons _ _ (by simp : Ix.ell ≠ Ix.none)]
      refine ⟨by simp at h1 ⊢; omega, fun i hi => ?_⟩
      rcases h2 i hi with h | h
      · simp at h; rcases h with h | h
        · left; exact h
        · right; omega
      · right; simp at h ⊢; omega
    | list l =>
      obtain ⟨h1, h2⟩ := ih { st with take := st.take ++ [some st.count], count := st.count + 1 }
      simp only [namesLoop, nonNone_cons _ _ (by simp : Ix.list l ≠ Ix.none)]
      refine ⟨by simp at h1 ⊢; omega, fun i hi => ?_⟩
      rcases h2 i hi with h | h
      · simp at h; rcases h with h | h
        · left; exact h
        · right; omega
      · right; simp at h ⊢; omega
    | range a b c =>
      obtain ⟨h1, h2⟩ := ih { st with take := st.take ++ [some st.count], count := st.count + 1 }
      simp only [namesLoop, nonNone_cons _ _ (by simp : Ix.range a b c ≠ Ix.none)]
      refine ⟨by simp at h1 ⊢; omega, fun i hi => ?_⟩
      rcases h2 i hi with h | h
      · simp at h; rcases h with h | h
        · left; exact h
        · right; omega
      · right; simp at h ⊢; omega
    | tensor s d =>
      have hne : Ix.tensor s d ≠ Ix.none := by simp
      cases s with
      | nil =>
        obtain ⟨h1, h2⟩ := ih { st with count := st.count + 1 }
        simp only [namesLoop, nonNone_cons _ _ hne]
        refine ⟨by simp at h1 ⊢; omega, fun i hi => ?_⟩
        rcases h2 i hi with h | h
        · left; exact h
        · right; simp at h ⊢; omega
      | cons m s' =>
        simp only [namesLoop, nonNone_cons _ _ hne]
        cases hnm : st.noMore
        · obtain ⟨h1, h2⟩ := ih { take := st.take ++ List.replicate (m :: s').length (some st.count), count := st.count + 1, noMore := true }
          simp only [Bool.not_false, if_true]
          refine ⟨by simp at h1 ⊢; omega, fun i hi => ?_⟩
          rcases h2 i hi with h | h
          · simp at h; rcases h with h | h
            · left; exact h
            · right; omega
          · right; simp at h ⊢; omega
        · obtain ⟨h1, h2⟩ := ih { take := st.take, count := st.count + 1, noMore := true }
          simp only [Bool.not_true, Bool.false_eq_true, if_false]
          refine ⟨by simp at h1 ⊢; omega, fun i hi => ?_⟩
          rcases h2 i hi with h | h
          · left; exact h
          · right; simp at h ⊢; omega
    | mask s d =>
      have hne : Ix.mask s d ≠ Ix.none := by simp
      simp only [namesLoop, nonNone_cons _ _ hne]
      cases hnm : st.noMore
      · obtain ⟨h1, h2⟩ := ih { take := st.take ++ List.replicate s.length (some st.count), count := st.count + 1, noMore := true }
        simp only [Bool.not_false, if_true]
        refine ⟨by simp at h1 ⊢; omega, fun i hi => ?_⟩
        rcases h2 i hi with h | h
        · simp at h; rcases h with h | h
          · left; exact h
          · right; omega
        · right; simp at h ⊢; omega
      · obtain ⟨h1, h2⟩ := ih { take := st.take, count := st.count + 1, noMore := true }
        simp only [Bool.not_true, Bool.false_eq_true, if_false]
        refine ⟨by simp at h1 ⊢; omega, fun i hi => ?_⟩
        rcases h2 i hi with h | h
        · left; exact h
        · right; simp at h ⊢; omega

theorem lookNames_ok (names : Names) (t : List (Option Nat)) (h : ∀ i, some i ∈ t → i < names.length) :
    ∃ l, lookNames names t = .ok l := by
  induction t with
  | nil => exact ⟨[], by simp [lookNames, pure, Except.pure]⟩
  | cons x r ih =>
    obtain ⟨l, hl⟩ := ih (fun i hi => h i (by simp [hi]))
    cases x with
    | none => exact ⟨none :: l, by rw [lookNames_cons_none, hl]; rfl⟩
    | some i =>
      have hi := h i (by simp)
      have hget : names[i]? = some names[i] := List.getElem?_eq_getElem hi
      exact ⟨names[i] :: l, by rw [lookNames_cons_some names r i _ hget, hl]; rfl⟩

end TdVerif.C03

namespace TdVerif.C03
open TorchSpec Td

theorem nonNone_append (a b : List Ix) : nonNone (a ++ b) = nonNone a + nonNone b := by
  simp [nonNone, List.filter_append]

theorem nonNone_replicate_slAll (k : Nat) : nonNone (List.replicate k slAll) = k := by
  induction k with
  | zero => rfl
  | succ k ih => rw [List.replicate_succ, nonNone_cons _ _ (by simp [slAll]), ih]

/-- an index torch accepts names at least one dim per non-`None` item (a mask at least one) -/
theorem nonNone_le_specified (items : List Ix) : ∀ (e : Nat) (dims : Shape) (P : List Piece),
    noEll items = true → walk e dims items = .ok P → nonNone items ≤ specified items := by
  induction items with
  | nil => intro _ _ _ _ _; exact Nat.le_refl _
  | cons x r ih =>
    intro e dims P hn h
    simp only [noEll_cons, Bool.and_eq_true] at hn
    obtain ⟨hx, hr⟩ := hn
    cases x with
    | ell => simp at hx
    | none =>
      simp only [walk] at h
      obtain ⟨P', h1, -⟩ := map_ok h
      simpa [nonNone_cons_none, specified] using ih _ _ _ hr h1
    | mask s d =>
      simp only [walk] at h
      split at h
      · rename_i hs
        obtain ⟨P', h1, -⟩ := map_ok h
        have := ih _ _ _ hr h1
        have hpos : 0 < s.length := by cases s <;> simp_all
        rw [nonNone_cons _ _ (by simp)]; simp only [specified]; omega
      · cases h
    | int i =>
      cases dims with
      | nil => simp [walk] at h
      | cons n ds =>
        simp only [walk] at h
        obtain ⟨P', h1, -, -⟩ := consSel_ok h
        have := ih _ _ _ hr h1
        rw [nonNone_cons _ _ (by simp)]; simp only [specified]; omega
    | slice a b c =>
      cases dims with
      | nil => simp [walk] at h
      | cons n ds =>
        simp only [walk] at h
        obtain ⟨P', s, e', st', h1, -, -, -⟩ := consSlice_ok h
        have := ih _ _ _ hr h1
        rw [nonNone_cons _ _ (by simp)]; simp only [specified]; omega
    | list l =>
      cases dims with
      | nil => simp [walk] at h
      | cons n ds =>
        simp only [walk] at h
        obtain ⟨P', h1, -⟩ := consAdv_ok h
        have := ih _ _ _ hr h1
        rw [nonNone_cons _ _ (by simp)]; simp only [specified]; omega
    | range a b c =>
      cases dims with
      | nil => simp [walk] at h
      | cons n ds =>
        simp only [walk] at h
        obtain ⟨P', h1, -⟩ := consAdv_ok h
        have := ih _ _ _ hr h1
        rw [nonNone_cons _ _ (by simp)]; simp only [specified]; omega
    | tensor s d =>
      cases dims with
      | nil => cases s <;> simp [walk] at h
      | cons n ds =>
        cases s with
        | nil =>
          simp only [walk] at h
          obtain ⟨P', h1, -, -⟩ := consSel_ok h
          have := ih _ _ _ hr h1
          rw [nonNone_cons _ _ (by simp)]; simp only [specified]; omega
        | cons m s =>
          simp only [walk] at h
          obtain ⟨P', h1, -⟩ := consAdv_ok h
          have := ih _ _ _ hr h1
          rw [nonNone_cons _ _ (by simp)]; simp only [specified]; omega

/-- `_get_names_idx` never fails on an index torch accepts on the batch shape (coherent names): every `names[i]` it looks up
    exists. (What it returns for advanced indices is another matter: `names_follow_index_counterexample`.) -/
theorem namesIdx_ok (names : Names) (bs : Shape) (items : List Ix) (e : Nat) (P : List Piece)
    (hn : noEll items = true) (hlen : names.length = bs.length)
    (hs : specified items ≤ bs.length) (hw : walk e bs items = .ok P) :
    ∃ nm, namesIdx (some names) bs.length (.tuple items) = .ok nm := by
  have hle := nonNone_le_specified items e bs P hn hw
  -- the converted index and the number of its non-None items
  have hconv : ∃ conv, convertEllipsis (.tuple (namesItems items bs.length)) bs.length
      = .ok (.tuple conv) ∧ nonNone conv ≤ bs.length := by
    unfold namesItems
    by_cases hlt : (items.filter (· ≠ Ix.none)).length < bs.length
    · rw [if_pos hlt]
      have := convertEllipsis_one items [] bs.length hn rfl (by simpa [specified] using hs)
      refine ⟨_, this, ?_⟩
      rw [nonNone_append, nonNone_append, nonNone_replicate_slAll]
      simp only [specified, nonNone, List.filter_nil, List.length_nil] at hle ⊢
      omega
    · rw [if_neg hlt]
      have hall : items.all (· != Ix.ell) = true := hn
      refine ⟨items, by simp [convertEllipsis, hall], ?_⟩
      simp only [nonNone] at hle ⊢
      omega
  obtain ⟨conv, hc, hcnt⟩ := hconv
  obtain ⟨h1, h2⟩ := namesLoop_bound conv { take := [], count := 0, noMore := false }
  obtain ⟨l, hl⟩ := lookNames_ok names (namesLoop conv { take := [], count := 0, noMore := false }).take (by
    intro i hi
    rcases h2 i hi with h | h
    · simp at h
    · simp at h; omega)
  have htake : namesTake names bs.length items = .ok l := by
    simp only [namesTake, hc, PyIndex.items, hl]
  simp only [namesIdx, PyIndex.items, htake]
  cases hb : isBoolean (.tuple items) with
  | some k =>
    cases k with
    | zero => simp only []; split <;> exact ⟨_, rfl⟩
    | succ k => simp only []; split <;> exact ⟨_, rfl⟩
  | none => simp only []; split <;> exact ⟨_, rfl⟩

end TdVerif.C03

namespace TdVerif.C03
open TorchSpec Td

/-- names never make `td[idx]` fail: for a tensordict without names or with one name per batch dim -/
theorem namesIdx_ok_of_index (tdnames : Option Names) (bs : Shape) (items : List Ix) (R : IndexResult)
    (hn : noEll items = true) (hcoh : ∀ names, tdnames = some names → names.length = bs.length)
    (h : index bs items = .ok R) :
    ∃ nm, namesIdx tdnames bs.length (.tuple items) = .ok nm := by
  cases hnm : tdnames with
  | none => exact ⟨none, by simp [namesIdx]⟩
  | some names =>
    obtain ⟨hs, P, hw, -⟩ := index_inv h
    exact namesIdx_ok names bs items _ P hn (hcoh names hnm) hs hw

theorem namesIdx_single (tdnames : Option Names) (n : Nat) (x : Ix) :
    namesIdx tdnames n (.single x) = namesIdx tdnames n (.tuple [x]) := by
  cases tdnames with
  | none => rfl
  | some names => cases x <;> rfl

end TdVerif.C03
