/-
  C03 lemmas, part 4: indexing a leaf of shape `bs ++ feat` with an Ellipsis-free batch index is indexing
  the batch dims and keeping the feature dims whole.
-/
import TdVerif.Lemmas.C03Ell

namespace TdVerif.C03
open TorchSpec Td

/-- the plan on a leaf is the plan on the batch shape followed by one full piece per feature dim -/
theorem walk_append_feat (items : List Ix) : ∀ (e e' : Nat) (dims feat : Shape) (P : List Piece),
    noEll items = true → walk e dims items = .ok P →
    walk e' (dims ++ feat) items = .ok (P ++ feat.map Piece.full) := by
  induction items with
  | nil => intro e e' dims feat P _ h; simp [walk] at h ⊢; subst h; rfl
  | cons x r ih =>
    intro e e' dims feat P hn h
    simp only [noEll_cons, Bool.and_eq_true] at hn
    obtain ⟨hx, hr⟩ := hn
    cases x with
    | ell => simp at hx
    | none =>
      simp only [walk] at h ⊢
      obtain ⟨P', h1, rfl⟩ := map_ok h
      simp [ih e e' dims feat P' hr h1, Except.map]
    | mask s d =>
      simp only [walk] at h ⊢
      split at h
      · rename_i hs
        obtain ⟨P', h1, rfl⟩ := map_ok h
        have hlen : s.length ≤ dims.length := by
          have := congrArg List.length hs.2; simp at this; omega
        have ht : (dims ++ feat).take s.length = s := by rw [List.take_append_of_le_length hlen]; exact hs.2
        have hd : (dims ++ feat).drop s.length = dims.drop s.length ++ feat := List.drop_append_of_le_length hlen
        simp [hs.1, ht, hd, ih e e' _ feat P' hr h1, Except.map]
      · cases h
    | int i =>
      cases dims with
      | nil => simp [walk] at h
      | cons n ds =>
        simp only [walk, List.cons_append] at h ⊢
        obtain ⟨P', h1, rfl, hb⟩ := consSel_ok h
        simp [consSel, hb, ih e e' ds feat P' hr h1, Except.map]
    | slice a b c =>
      cases dims with
      | nil => simp [walk] at h
      | cons n ds =>
        simp only [walk, List.cons_append] at h ⊢
        obtain ⟨P', s, e1, st1, h1, hc, hi, rfl⟩ := consSlice_ok h
        have : ¬ c.getD 1 ≤ 0 := by omega
        simp [consSlice, this, hi, ih e e' ds feat P' hr h1, Except.map]
    | list l =>
      cases dims with
      | nil => simp [walk] at h
      | cons n ds =>
        simp only [walk, List.cons_append] at h ⊢
        obtain ⟨P', h1, rfl⟩ := consAdv_ok h
        simp [consAdv, ih e e' ds feat P' hr h1, Except.map]
    | range a b c =>
      cases dims with
      | nil => simp [walk] at h
      | cons n ds =>
        simp only [walk, List.cons_append] at h ⊢
        obtain ⟨P', h1, rfl⟩ := consAdv_ok h
        simp [consAdv, ih e e' ds feat P' hr h1, Except.map]
    | tensor s d =>
      cases dims with
      | nil => cases s <;> simp [walk] at h
      | cons n ds =>
        cases s with
        | nil =>
          simp only [walk, List.cons_append] at h ⊢
          obtain ⟨P', h1, rfl, hb⟩ := consSel_ok h
          rw [ih e e' ds feat P' hr h1]
          simp only [consSel, hb, and_self, if_true, Except.map, List.cons_append]
        | cons m s =>
          simp only [walk, List.cons_append] at h ⊢
          obtain ⟨P', h1, rfl⟩ := consAdv_ok h
          simp [consAdv, ih e e' ds feat P' hr h1, Except.map]

end TdVerif.C03

namespace TdVerif.C03
open TorchSpec Td

/-- number of output dims that do not belong to the broadcast block -/
def streamLen : List Piece → Nat
  | [] => 0
  | .sl .. :: r => 1 + streamLen r
  | .new :: r => 1 + streamLen r
  | _ :: r => streamLen r

theorem outDims_true_length (B : Shape) (P : List Piece) : (outDims B true P).length = streamLen P := by
  induction P with
  | nil => rfl
  | cons p r ih => cases p <;> simp [outDims, streamLen, ih] <;> omega

theorem outDims_false_length (B : Shape) (P : List Piece) :
    (outDims B false P).length = streamLen P + (if hasAdv P then B.length else 0) := by
  induction P with
  | nil => rfl
  | cons p r ih =>
    cases p with
    | adv ns s cols => simp [outDims, streamLen, hasAdv, advShapes, outDims_true_length]; omega
    | sel n i => simpa [outDims, streamLen, hasAdv, advShapes] using ih
    | sl n a b c => simp [outDims, streamLen, hasAdv, advShapes] at ih ⊢; omega
    | new => simp [outDims, streamLen, hasAdv, advShapes] at ih ⊢; omega

theorem preLen_le (P : List Piece) : preLen P ≤ streamLen P := by
  induction P with
  | nil => exact Nat.le_refl _
  | cons p r ih => cases p <;> simp [preLen, streamLen] <;> omega

theorem preLen_append (P Q : List Piece) (h : hasAdv P = true) : preLen (P ++ Q) = preLen P := by
  induction P with
  | nil => simp [hasAdv, advShapes] at h
  | cons p r ih =>
    cases p with
    | adv ns s cols => simp [preLen]
    | sel n i => simpa [preLen] using ih (by simpa [hasAdv, advShapes] using h)
    | sl n a b c => simpa [preLen] using ih (by simpa [hasAdv, advShapes] using h)
    | new => simpa [preLen] using ih (by simpa [hasAdv, advShapes] using h)

theorem walkSrc_append (b : List Nat) (P Q : List Piece) : ∀ s,
    walkSrc b (P ++ Q) s = walkSrc b P s ++ walkSrc b Q (s.drop (streamLen P)) := by
  induction P with
  | nil => intro s; simp [walkSrc, streamLen]
  | cons p r ih =>
    intro s
    cases p with
    | adv ns sh cols => simp [walkSrc, streamLen, ih]
    | sel n i => simp [walkSrc, streamLen, ih]
    | sl n a c len =>
      simp only [List.cons_append, walkSrc, streamLen, ih, List.cons.injEq, true_and, List.append_cancel_left_eq]
      cases s with
      | nil => simp
      | cons x s' => simp [Nat.add_comm 1 (streamLen r)]
    | new =>
      simp only [List.cons_append, walkSrc, streamLen, ih, List.append_cancel_left_eq]
      cases s with
      | nil => simp
      | cons x s' => simp [Nat.add_comm 1 (streamLen r)]

/-- only the first `streamLen P` stream coordinates are read -/
theorem walkSrc_ext (b : List Nat) (P : List Piece) : ∀ s t, streamLen P ≤ s.length →
    walkSrc b P (s ++ t) = walkSrc b P s := by
  induction P with
  | nil => intro s t _; rfl
  | cons p r ih =>
    intro s t h
    cases p with
    | adv ns sh cols => simp [walkSrc, ih s t (by simpa [streamLen] using h)]
    | sel n i => simp [walkSrc, ih s t (by simpa [streamLen] using h)]
    | sl n a c len =>
      cases s with
      | nil => simp [streamLen] at h
      | cons x s' => simp [walkSrc, ih s' t (by simp [streamLen] at h; omega)]
    | new =>
      cases s with
      | nil => simp [streamLen] at h
      | cons x s' => simp [walkSrc, ih s' t (by simp [streamLen] at h; omega)]

theorem walkSrc_fulls (b : List Nat) (feat : Shape) : ∀ f : List Nat, f.length = feat.length →
    walkSrc b (feat.map Piece.full) f = f := by
  induction feat with
  | nil => intro f h; cases f <;> simp_all [walkSrc]
  | cons n r ih =>
    intro f h
    cases f with
    | nil => simp at h
    | cons x f' => simp [walkSrc, Piece.full, ih f' (by simpa using h)]

theorem streamLen_fulls (feat : Shape) : streamLen (feat.map Piece.full) = feat.length := by
  induction feat with
  | nil => rfl
  | cons n r ih => simp [streamLen, Piece.full, ih]; omega

end TdVerif.C03

namespace TdVerif.C03
open TorchSpec Td

theorem all_not_append_false (k : List Bool) (n : Nat) :
    (k ++ List.replicate n false).all (!·) = k.all (!·) := by
  simp [List.all_append]

theorem afterRun_append_false (k : List Bool) (n : Nat) : afterRun (k ++ List.replicate n false) = afterRun k := by
  induction k with
  | nil =>
    cases n with
    | zero => rfl
    | succ m => simp [List.replicate_succ, afterRun]
  | cons b r ih => cases b <;> simp [afterRun, ih, List.all_append]

theorem contiguous_append_false (k : List Bool) (n : Nat) : contiguous (k ++ List.replicate n false) = contiguous k := by
  induction k with
  | nil =>
    induction n with
    | zero => rfl
    | succ m ih => simpa [List.replicate_succ, contiguous] using ih
  | cons b r ih => cases b <;> simp [contiguous, ih, afterRun_append_false]

theorem kinds_append_fulls (P : List Piece) (feat : Shape) :
    contiguous (kinds (P ++ feat.map Piece.full)) = contiguous (kinds P) := by
  rw [kinds_append, kinds_map_full, contiguous_append_false]

theorem outDims_append_fulls (B : Shape) (f : Bool) (P : List Piece) (feat : Shape) :
    outDims B f (P ++ feat.map Piece.full) = outDims B f P ++ feat := by
  induction P generalizing f with
  | nil => simp [outDims]
  | cons p r ih =>
    cases p with
    | adv ns s cols => cases f <;> simp [outDims, ih]
    | sel n i => simp [outDims, ih]
    | sl n a b c => simp [outDims, ih]
    | new => simp [outDims, ih]

theorem outShape_append_fulls (P : List Piece) (B feat : Shape) :
    outShape (P ++ feat.map Piece.full) B = outShape P B ++ feat := by
  simp only [outShape, kinds_append_fulls, outDims_append_fulls]
  split <;> simp

theorem numel_append (a b : Shape) : numel (a ++ b) = numel a * numel b := by
  induction a with
  | nil => simp [numel]
  | cons n r ih => simp [numel, ih, Nat.mul_assoc]

theorem hasZero_append_fulls (P : List Piece) (feat : Shape) :
    hasZeroIndexedDim (P ++ feat.map Piece.full) = hasZeroIndexedDim P := by
  induction P with
  | nil => induction feat with
    | nil => rfl
    | cons n r ih => simpa [hasZeroIndexedDim, Piece.full] using ih
  | cons p r ih => cases p <;> simp [hasZeroIndexedDim, ih]

theorem advInRange_append_fulls (P : List Piece) (feat : Shape) :
    advInRange (P ++ feat.map Piece.full) = advInRange P := by
  induction P with
  | nil => induction feat with
    | nil => rfl
    | cons n r ih => simpa [advInRange, Piece.full] using ih
  | cons p r ih => cases p <;> simp [advInRange, ih]

theorem hasAdv_append_fulls (P : List Piece) (feat : Shape) : hasAdv (P ++ feat.map Piece.full) = hasAdv P := by
  simp [hasAdv, advShapes_append]

/-- without index arrays the source coordinate is a plain walk over all output coordinates -/
theorem srcCoord_noAdv (P : List Piece) (c : List Nat) (h : hasAdv P = false) :
    srcCoord P [] c = walkSrc [] P c := by
  unfold srcCoord
  split <;> simp

theorem outShape_length (P : List Piece) (B : Shape) :
    (outShape P B).length = streamLen P + (if hasAdv P then B.length else 0) := by
  unfold outShape
  split
  · exact outDims_false_length B P
  · rename_i hc
    have : hasAdv P = true := by
      cases h : hasAdv P
      · exfalso; apply hc
        have : ∀ P : List Piece, hasAdv P = false → contiguous (kinds P) = true := by
          intro P; induction P with
          | nil => intro _; rfl
          | cons p r ih => cases p <;> simp_all [hasAdv, advShapes, kinds, contiguous]
        exact this P h
      · rfl
    simp [this, outDims_true_length]; omega

end TdVerif.C03

namespace TdVerif.C03
open TorchSpec Td

theorem walkSrc_feat (b : List Nat) (P : List Piece) (feat : Shape) (s f : List Nat)
    (hs : s.length = streamLen P) (hf : f.length = feat.length) :
    walkSrc b (P ++ feat.map Piece.full) (s ++ f) = walkSrc b P s ++ f := by
  rw [walkSrc_append, walkSrc_ext b P s f (by omega)]
  have : (s ++ f).drop (streamLen P) = f := by
    rw [← hs]; simp
  rw [this, walkSrc_fulls b feat f hf]

/-- the coordinate map on the leaf: batch coordinates go through the batch map, feature coordinates are kept -/
theorem srcCoord_append_feat (P : List Piece) (B feat : Shape) (c f : List Nat)
    (hB : hasAdv P = false → B = [])
    (hc : c.length = (outShape P B).length) (hf : f.length = feat.length) :
    srcCoord (P ++ feat.map Piece.full) B (c ++ f) = srcCoord P B c ++ f := by
  rw [outShape_length] at hc
  cases hA : hasAdv P
  · have hB' := hB hA; subst hB'
    rw [srcCoord_noAdv _ _ (by rw [hasAdv_append_fulls]; exact hA), srcCoord_noAdv _ _ hA]
    exact walkSrc_feat [] P feat c f (by simpa [hA] using hc) hf
  · simp only [hA, if_true] at hc
    unfold srcCoord
    simp only [kinds_append_fulls, preLen_append P _ hA]
    have hk := preLen_le P
    split
    · -- contiguous: c = pre ++ b ++ post
      have h1 : ((c ++ f).drop (preLen P)).take B.length = (c.drop (preLen P)).take B.length := by
        rw [List.drop_append_of_le_length (by omega), List.take_append_of_le_length (by simp; omega)]
      have h2 : (c ++ f).take (preLen P) = c.take (preLen P) := List.take_append_of_le_length (by omega)
      have h3 : (c ++ f).drop (preLen P + B.length) = c.drop (preLen P + B.length) ++ f :=
        List.drop_append_of_le_length (by omega)
      rw [h1, h2, h3, ← List.append_assoc]
      exact walkSrc_feat _ P feat _ f (by simp; omega) hf
    · have h1 : (c ++ f).take B.length = c.take B.length := List.take_append_of_le_length (by omega)
      have h2 : (c ++ f).drop B.length = c.drop B.length ++ f := List.drop_append_of_le_length (by omega)
      rw [h1, h2]
      exact walkSrc_feat _ P feat _ f (by simp; omega) hf

theorem numel_pos_of_append {a b : Shape} (h : numel (a ++ b) > 0) : numel a > 0 := by
  rw [numel_append] at h
  exact Nat.pos_of_mul_pos_right h |> fun _ => by
    cases ha : numel a with
    | zero => simp [ha] at h
    | succ k => omega

/-- torch on a leaf `bs ++ feat`, from torch on `bs`: same acceptance, shape extended by the feature dims,
    same aliasing, coordinate map acting on the batch coordinates only -/
theorem finalize_append_feat (P : List Piece) (feat : Shape) (R : IndexResult) (h : finalize P = .ok R) :
    ∃ R', finalize (P ++ feat.map Piece.full) = .ok R' ∧ R'.shape = R.shape ++ feat ∧ R'.view = R.view ∧
      ∀ c f, c.length = R.shape.length → f.length = feat.length → R'.src (c ++ f) = R.src c ++ f := by
  obtain ⟨B, hB, hshape, hsrc, hview⟩ := finalize_ok h
  have hchk : ¬ (hasZeroIndexedDim P && !B.contains 0) = true ∧ ¬ (decide (numel (outShape P B) > 0) && !advInRange P) = true := by
    unfold finalize at h
    simp only [hB] at h
    split at h
    · cases h
    · split at h
      · cases h
      · constructor <;> assumption
  have hfin : finalize (P ++ feat.map Piece.full) = .ok
      { shape := outShape P B ++ feat, src := srcCoord (P ++ feat.map Piece.full) B, view := (advShapes P).isEmpty } := by
    unfold finalize
    simp only [advShapes_append, advShapes_map_full, List.append_nil, hB, hasZero_append_fulls, advInRange_append_fulls,
      outShape_append_fulls]
    rw [if_neg hchk.1]
    have : ¬ (decide (numel (outShape P B ++ feat) > 0) && !advInRange P) = true := by
      intro hcon
      simp only [Bool.and_eq_true, decide_eq_true_eq] at hcon
      apply hchk.2
      simp only [Bool.and_eq_true, decide_eq_true_eq]
      exact ⟨numel_pos_of_append hcon.1, hcon.2⟩
    rw [if_neg this]
  refine ⟨_, hfin, by simp [hshape], by simp [hview], ?_⟩
  intro c f hc hf
  simp only [hsrc]
  apply srcCoord_append_feat P B feat c f _ (by rw [hc, hshape]) hf
  intro hA
  have : advShapes P = [] := by simpa [hasAdv] using hA
  rw [this] at hB; simpa [broadcastAll] using hB.symm

end TdVerif.C03
