/-
  C05 — what `_propagate_unlock` and the `_check_unlock` loop do.
-/
import TdVerif.Lemmas.C05Lock

namespace TdVerif.C05

/-! ### generic folds along a preorder -/

theorem foldl_pre {α β} (R : β → β → Prop) (rrefl : ∀ b, R b b) (rtrans : ∀ a b c, R a b → R b c → R a c)
    (g : β → α → β) (hg : ∀ acc j, R acc (g acc j)) : ∀ (ks : List α) (b : β), R b (ks.foldl g b) := by
  intro ks
  induction ks with
  | nil => intro b; exact rrefl b
  | cons k ks ih => intro b; exact rtrans _ _ _ (hg b k) (ih (g b k))

theorem foldl_pre_mem {α β} (R : β → β → Prop) (rrefl : ∀ b, R b b) (rtrans : ∀ a b c, R a b → R b c → R a c)
    (g : β → α → β) (hg : ∀ acc j, R acc (g acc j)) :
    ∀ (ks : List α) (b : β) (j : α), j ∈ ks → ∃ acc, R b acc ∧ R (g acc j) (ks.foldl g b) := by
  intro ks
  induction ks with
  | nil => intro b j hj; cases hj
  | cons k ks ih =>
    intro b j hj
    rcases List.mem_cons.mp hj with rfl | hj
    · exact ⟨b, rrefl b, foldl_pre R rrefl rtrans g hg ks _⟩
    · obtain ⟨acc, l1, l2⟩ := ih (g b k) j hj
      exact ⟨acc, rtrans _ _ _ (hg b k) l1, l2⟩

theorem foldl_inv' {α β} (g : β → α → β) (P : β → Prop) :
    ∀ (ks : List α), (∀ acc j, j ∈ ks → P acc → P (g acc j)) → ∀ b, P b → P (ks.foldl g b) := by
  intro ks
  induction ks with
  | nil => intro _ b hp; exact hp
  | cons k ks ih =>
    intro hstep b hp
    exact ih (fun acc j hj => hstep acc j (List.mem_cons_of_mem _ hj)) _ (hstep b k List.mem_cons_self hp)

/-! ### `_propagate_unlock` -/

/-- the value `_propagate_unlock` writes into `_is_locked` -/
def unflagVal (n : LNode) : Option Bool := if n.lazy then none else some false

/-- `h'` = `h` with some flags cleared: same shape, same registered parents -/
def Ue (h h' : Heap) : Prop :=
  SameShape h h' ∧ (∀ m, (h'.node m).parents = (h.node m).parents) ∧
    (∀ m, (h'.node m).flag = (h.node m).flag ∨ (h'.node m).flag = unflagVal (h.node m))

theorem Ue.refl (h : Heap) : Ue h h := ⟨SameShape.refl h, fun _ => rfl, fun _ => .inl rfl⟩
theorem Ue.trans {a b c : Heap} (h1 : Ue a b) (h2 : Ue b c) : Ue a c := by
  refine ⟨h1.1.trans h2.1, fun m => by rw [h2.2.1, h1.2.1], fun m => ?_⟩
  have e : unflagVal (b.node m) = unflagVal (a.node m) := by unfold unflagVal; rw [h1.1.lazy]
  rcases h2.2.2 m with x | x
  · rw [x]; exact h1.2.2 m
  · right; rw [x, e]

theorem ue_upd (h : Heap) (i : Nat) :
    Ue h (h.upd i (fun x => { x with flag := if x.lazy then none else some false })) := by
  refine ⟨sameShape_upd h i _ (fun x => ⟨rfl, rfl, rfl⟩), fun m => ?_, fun m => ?_⟩
  · by_cases hm : m = i
    · subst hm; simp [upd_node_self]
    · simp [upd_node_ne _ _ _ _ hm]
  · by_cases hm : m = i
    · subst hm; right; simp [upd_node_self, unflagVal]
    · left; simp [upd_node_ne _ _ _ _ hm]

/-- order on the accumulator of the children loop: heap cleared further, list extended -/
def UeP (a b : Heap × List Nat) : Prop := Ue a.1 b.1 ∧ ∀ x, x ∈ a.2 → x ∈ b.2

theorem UeP.refl (a : Heap × List Nat) : UeP a a := ⟨Ue.refl _, fun _ h => h⟩
theorem UeP.trans (a b c : Heap × List Nat) (h1 : UeP a b) (h2 : UeP b c) : UeP a c :=
  ⟨h1.1.trans h2.1, fun x hx => h2.2 x (h1.2 x hx)⟩

/-- the body of the children loop of `_propagate_unlock` -/
def unlockStep (n : Nat) (acc : Heap × List Nat) (j : Nat) : Heap × List Nat :=
  ((propUnlockF n acc.1 j).1, acc.2 ++ (propUnlockF n acc.1 j).2 ++ [j])

theorem propUnlockF_succ (n : Nat) (h : Heap) (i : Nat) :
    propUnlockF (n + 1) h i =
      (kidIds h i).foldl (unlockStep n) (h.upd i (fun x => { x with flag := if x.lazy then none else some false }), []) := rfl

theorem propUnlockF_ue : ∀ n h i, Ue h (propUnlockF n h i).1 := by
  intro n
  induction n with
  | zero => intro h i; exact Ue.refl h
  | succ n ih =>
    intro h i
    rw [propUnlockF_succ]
    have := foldl_pre UeP UeP.refl UeP.trans (unlockStep n)
      (fun acc j => ⟨ih acc.1 j, fun x hx => by simp [unlockStep, hx]⟩) (kidIds h i)
      (h.upd i (fun x => { x with flag := if x.lazy then none else some false }), [])
    exact (ue_upd h i).trans this.1

theorem unlockStep_le (n : Nat) (acc : Heap × List Nat) (j : Nat) : UeP acc (unlockStep n acc j) :=
  ⟨propUnlockF_ue n acc.1 j, fun x hx => by simp [unlockStep, hx]⟩

/-- frame: nodes that are not below `i` keep their node -/
theorem propUnlockF_frame : ∀ n h i m, ¬ Reach h i m → (propUnlockF n h i).1.node m = h.node m := by
  intro n
  induction n with
  | zero => intro h i m _; rfl
  | succ n ih =>
    intro h i m hm
    have hmi : m ≠ i := fun e => hm (e ▸ Reach.refl _)
    rw [propUnlockF_succ]
    have := foldl_inv' (unlockStep n) (fun acc => Ue h acc.1 ∧ acc.1.node m = h.node m) (kidIds h i)
      (fun acc j hj ⟨la, ea⟩ => ⟨la.trans (propUnlockF_ue n acc.1 j), by
        show (propUnlockF n acc.1 j).1.node m = h.node m
        rw [ih acc.1 j m (fun r => hm ((Reach.kid hj).trans (la.1.symm.reach r))), ea]⟩)
      (h.upd i (fun x => { x with flag := if x.lazy then none else some false }), [])
      ⟨ue_upd h i, by dsimp only; exact upd_node_ne h i m _ hmi⟩
    exact this.2

/-- the returned list only contains proper descendants -/
theorem propUnlockF_subs_sound : ∀ n h i m, m ∈ (propUnlockF n h i).2 →
    ∃ j, j ∈ kidIds h i ∧ Reach h j m := by
  intro n
  induction n with
  | zero => intro h i m hm; simp [propUnlockF] at hm
  | succ n ih =>
    intro h i m hm
    rw [propUnlockF_succ] at hm
    have := foldl_inv' (unlockStep n)
      (fun acc => Ue h acc.1 ∧ ∀ m, m ∈ acc.2 → ∃ j, j ∈ kidIds h i ∧ Reach h j m) (kidIds h i)
      (fun acc j hj ⟨la, ea⟩ => ⟨la.trans (propUnlockF_ue n acc.1 j), by
        intro m hm
        simp only [unlockStep, List.mem_append, List.mem_singleton] at hm
        rcases hm with (hm | hm) | rfl
        · exact ea m hm
        · obtain ⟨j', hj', r⟩ := ih acc.1 j m hm
          exact ⟨j, hj, (Reach.kid (by rw [← la.1.kidIds]; exact hj')).trans (la.1.symm.reach r)⟩
        · exact ⟨_, hj, Reach.refl _⟩⟩)
      (h.upd i (fun x => { x with flag := if x.lazy then none else some false }), [])
      ⟨ue_upd h i, fun m hm => by cases hm⟩
    exact this.2 m hm

/-- on an ordered heap with enough fuel: every node below `i` has its flag cleared, and every proper
descendant is in the returned list -/
theorem propUnlockF_complete : ∀ n h i, Ordered h → i < n →
    (∀ m, Reach h i m → ((propUnlockF n h i).1.node m).flag = unflagVal (h.node m)) ∧
    (∀ m, Reach h i m → m ≠ i → m ∈ (propUnlockF n h i).2) := by
  intro n
  induction n with
  | zero => intro h i _ hi; omega
  | succ n ih =>
    intro h i o hi
    rw [propUnlockF_succ]
    let h1 := h.upd i (fun x => { x with flag := if x.lazy then none else some false })
    have l1 : Ue h h1 := ue_upd h i
    have hle := unlockStep_le n
    have total := foldl_pre UeP UeP.refl UeP.trans (unlockStep n) hle (kidIds h i) (h1, [])
    have stable : ∀ (a b : Heap), Ue h a → Ue a b → ∀ m, (a.node m).flag = unflagVal (h.node m) →
        (b.node m).flag = unflagVal (h.node m) := by
      intro a b la lab m hm
      have e : unflagVal (a.node m) = unflagVal (h.node m) := by unfold unflagVal; rw [la.1.lazy]
      rcases lab.2.2 m with x | x
      · rw [x, hm]
      · rw [x, e]
    have below : ∀ j, j ∈ kidIds h i → ∀ m, Reach h j m →
        (((kidIds h i).foldl (unlockStep n) (h1, [])).1.node m).flag = unflagVal (h.node m) ∧
        m ∈ ((kidIds h i).foldl (unlockStep n) (h1, [])).2 := by
      intro j hj m hm
      obtain ⟨acc, la, lb⟩ := foldl_pre_mem UeP UeP.refl UeP.trans (unlockStep n) hle (kidIds h i) (h1, []) j hj
      have lacc : Ue h acc.1 := l1.trans la.1
      have hji := o i j hj
      obtain ⟨c1, c2⟩ := ih acc.1 j (lacc.1.ordered o) (by omega)
      have e : unflagVal (acc.1.node m) = unflagVal (h.node m) := by unfold unflagVal; rw [lacc.1.lazy]
      refine ⟨stable _ _ (lacc.trans (propUnlockF_ue n acc.1 j)) lb.1 m (by
        show ((propUnlockF n acc.1 j).1.node m).flag = _
        rw [c1 m (lacc.1.reach hm), e]), lb.2 m ?_⟩
      simp only [unlockStep, List.mem_append, List.mem_singleton]
      by_cases hmj : m = j
      · exact .inr hmj
      · exact .inl (.inr (c2 m (lacc.1.reach hm) hmj))
    refine ⟨fun m hm => ?_, fun m hm hne => ?_⟩
    · rcases hm.cases_left with rfl | ⟨b, hb, rb⟩
      · exact stable h1 _ l1 total.1 _ (by simp [h1, upd_node_self, unflagVal])
      · exact (below b hb m rb).1
    · rcases hm.cases_left with rfl | ⟨b, hb, rb⟩
      · exact absurd rfl hne
      · exact (below b hb m rb).2

/-- a subtree whose flags have all been cleared reports `is_locked = False` everywhere -/
theorem isLocked_false_of_cleared (h : Heap) (o : Ordered h) (i : Nat)
    (hc : ∀ m, Reach h i m → (h.node m).flag = unflagVal (h.node m)) :
    ∀ k m, m < k → Reach h i m → isLocked h m = false := by
  intro k
  induction k with
  | zero => intro m hm; omega
  | succ k ih =>
    intro m hm r
    have hf := hc m r
    unfold unflagVal at hf
    by_cases hl : (h.node m).lazy = true
    · simp only [hl, if_true] at hf
      unfold isLocked
      simp only [isLockedF, hf]
      by_cases he : kidIds h m = []
      · simp [he]
      · have : (kidIds h m).all (fun j => isLockedF m h j) = false := by
          obtain ⟨j, hj⟩ := List.exists_mem_of_ne_nil _ he
          rw [List.all_eq_false]
          refine ⟨j, hj, ?_⟩
          have hjm := o m j hj
          have := ih j (by omega) (r.trans (Reach.kid hj))
          unfold isLocked at this
          rw [isLockedF_fuel h o m (j + 1) j hjm (by omega), this]; simp
        simp [this]
    · have hl' : (h.node m).lazy = false := by simpa using hl
      simp only [hl'] at hf
      exact isLocked_of_some h m false (by simpa using hf)

/-! ### the `_check_unlock` loop -/

/-- `i` has a live parent whose flag is set (`_check_unlock` would raise) -/
def hasLockedParent (h : Heap) (i : Nat) : Bool := (parentsOf h i).any (fun p => live h p && flagged h p)

/-- `h'` = `h` with some parent lists reset, none of which held a live locked parent -/
def Ce (h h' : Heap) : Prop :=
  SameShape h h' ∧ (∀ m, (h'.node m).flag = (h.node m).flag) ∧
    (∀ m x, x ∈ (h'.node m).parents → x ∈ (h.node m).parents) ∧
    (∀ m x, live h x = true → flagged h x = true → x ∈ parentsOf h m → x ∈ parentsOf h' m)

theorem Ce.refl (h : Heap) : Ce h h := ⟨SameShape.refl h, fun _ => rfl, fun _ _ x => x, fun _ _ _ _ x => x⟩

theorem Ce.flagged {h h' : Heap} (c : Ce h h') (m : Nat) : flagged h' m = flagged h m := by
  unfold C05.flagged; rw [c.2.1]

theorem Ce.trans {a b c : Heap} (h1 : Ce a b) (h2 : Ce b c) : Ce a c := by
  refine ⟨h1.1.trans h2.1, fun m => by rw [h2.2.1, h1.2.1], fun m x hx => h1.2.2.1 m x (h2.2.2.1 m x hx),
    fun m x hl hf hx => h2.2.2.2 m x (by rw [h1.1.live]; exact hl) (by rw [h1.flagged]; exact hf)
      (h1.2.2.2 m x hl hf hx)⟩

theorem Ce.parentsOf_sub {h h' : Heap} (c : Ce h h') (m x : Nat) (hx : x ∈ parentsOf h' m) : x ∈ parentsOf h m :=
  parentsOfF_mem_congr h' h c.1.symm x (fun k => c.2.2.1 k x) (m + 1) m hx

theorem Ce.hasLockedParent {h h' : Heap} (c : Ce h h') (m : Nat) : hasLockedParent h' m = hasLockedParent h m := by
  unfold C05.hasLockedParent
  rw [Bool.eq_iff_iff]
  simp only [List.any_eq_true, Bool.and_eq_true]
  constructor
  · rintro ⟨x, hx, hl, hf⟩
    exact ⟨x, c.parentsOf_sub m x hx, by rw [← c.1.live]; exact hl, by rw [← c.flagged]; exact hf⟩
  · rintro ⟨x, hx, hl, hf⟩
    exact ⟨x, c.2.2.2 m x hl hf hx, by rw [c.1.live]; exact hl, by rw [c.flagged]; exact hf⟩

theorem checkUnlock_eq_fail (h : Heap) (i : Nat) (hp : hasLockedParent h i = true) :
    checkUnlock h i = (h, false) := by
  unfold hasLockedParent at hp
  simp [checkUnlock, hp]
theorem checkUnlock_eq_lazy (h : Heap) (i : Nat) (hp : hasLockedParent h i = false) (hl : (h.node i).lazy = true) :
    checkUnlock h i = (h, true) := by
  unfold hasLockedParent at hp
  simp [checkUnlock, hp, hl]
theorem checkUnlock_eq_plain (h : Heap) (i : Nat) (hp : hasLockedParent h i = false) (hl : (h.node i).lazy = false) :
    checkUnlock h i = (h.upd i (fun x => { x with parents := [] }), true) := by
  unfold hasLockedParent at hp
  simp [checkUnlock, hp, hl]

theorem checkUnlock_spec (h : Heap) (i : Nat) :
    Ce h (checkUnlock h i).1 ∧ (checkUnlock h i).2 = !hasLockedParent h i ∧
      ∀ m, m ≠ i → (checkUnlock h i).1.node m = h.node m := by
  by_cases hp : hasLockedParent h i = true
  · rw [checkUnlock_eq_fail h i hp]
    exact ⟨Ce.refl h, by simp [hp], fun _ _ => rfl⟩
  · have hp' : hasLockedParent h i = false := by simpa using hp
    by_cases hl : (h.node i).lazy = true
    · rw [checkUnlock_eq_lazy h i hp' hl]
      exact ⟨Ce.refl h, by simp [hp'], fun _ _ => rfl⟩
    · have hl' : (h.node i).lazy = false := by simpa using hl
      rw [checkUnlock_eq_plain h i hp' hl']
      have s : SameShape h (h.upd i (fun x => { x with parents := [] })) :=
        sameShape_upd h i _ (fun x => ⟨rfl, rfl, rfl⟩)
      refine ⟨⟨s, fun m => ?_, fun m x hx => ?_, fun m x hlx hfx hx => ?_⟩, by simp [hp'],
        fun m hm => by dsimp only; exact upd_node_ne h i m _ hm⟩
      · by_cases hm : m = i
        · subst hm; simp [upd_node_self]
        · simp [upd_node_ne _ _ _ _ hm]
      · by_cases hm : m = i
        · subst hm; simp [upd_node_self] at hx
        · simpa [upd_node_ne _ _ _ _ hm] using hx
      · refine parentsOfF_mem_congr h _ s x (fun k hk => ?_) (m + 1) m hx
        by_cases hki : k = i
        · subst hki
          exfalso
          have : hasLockedParent h k = true := by
            unfold hasLockedParent
            rw [List.any_eq_true]
            exact ⟨x, by rw [parentsOf_plain h k hl']; exact hk, by simp [hlx, hfx]⟩
          rw [hp'] at this; cases this
        · simpa [upd_node_ne _ _ _ _ hki] using hk

theorem checkAll_spec : ∀ (L : List Nat) (h : Heap),
    Ce h (checkAll h L).1 ∧ ((checkAll h L).2 = true ↔ ∀ m, m ∈ L → hasLockedParent h m = false) ∧
      ∀ m, m ∉ L → (checkAll h L).1.node m = h.node m := by
  intro L
  induction L with
  | nil => intro h; exact ⟨Ce.refl h, by simp [checkAll], fun _ _ => rfl⟩
  | cons c L ih =>
    intro h
    obtain ⟨c1, c2, c3⟩ := checkUnlock_spec h c
    simp only [checkAll]
    rcases hck : checkUnlock h c with ⟨h', b⟩
    rw [hck] at c1 c2 c3
    simp only at c1 c2 c3
    cases b with
    | true =>
      simp only
      obtain ⟨i1, i2, i3⟩ := ih h'
      have hc : hasLockedParent h c = false := by simpa using c2
      refine ⟨c1.trans i1, ?_, fun m hm => ?_⟩
      · rw [i2]
        constructor
        · intro hall m hm
          rcases List.mem_cons.mp hm with rfl | hm
          · exact hc
          · rw [← c1.hasLockedParent]; exact hall m hm
        · intro hall m hm
          rw [c1.hasLockedParent]; exact hall m (List.mem_cons_of_mem _ hm)
      · have h1 : m ≠ c := fun e => hm (e ▸ List.mem_cons_self)
        have h2 : m ∉ L := fun e => hm (List.mem_cons_of_mem _ e)
        rw [i3 m h2, c3 m h1]
    | false =>
      simp only
      have hc : hasLockedParent h c = true := by simpa using c2
      refine ⟨c1, ?_, fun m hm => c3 m (fun e => hm (e ▸ List.mem_cons_self))⟩
      constructor
      · intro hf; cases hf
      · intro hall; have := hall c List.mem_cons_self; rw [hc] at this; cases this

end TdVerif.C05
