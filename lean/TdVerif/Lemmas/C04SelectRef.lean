/-
  C04 — select as a state refinement: the two loops of `_select` (scan + groups, recursing into the nested tensordicts)
  compute the fold `selFold` of Model/C04Spec.lean (`out = {}; for p in keys: merge d along p into out`).
-/
import TdVerif.Model.C04Tree
import TdVerif.Model.C04Spec
import TdVerif.Lemmas.C04
import TdVerif.Lemmas.C04Select

namespace TdVerif.C04
open TdVerif

/-! ### insertion-ordered dicts: keys -/

/-- append `k` unless it is there -/
def addKey (l : List String) (k : String) : List String := if l.contains k then l else l ++ [k]

theorem dset_keys (k : String) (v : Entry) (l : Kids) : (dset k v l).map (·.1) = addKey (l.map (·.1)) k := by
  induction l with
  | nil => simp [dset, addKey]
  | cons a r ih =>
    obtain ⟨k', v'⟩ := a
    simp only [dset]
    split
    · rename_i h; subst h; simp [addKey]
    · rename_i h
      simp only [List.map_cons, ih, addKey]
      have hcc : (k' :: r.map (·.1)).contains k = (r.map (·.1)).contains k := by
        rw [List.contains_cons]
        have hne : (k == k') = false := by simpa using fun e => h e.symm
        simp [hne]
      rw [hcc]
      split <;> simp

theorem addKey_nodup (l : List String) (k : String) (h : l.Nodup) : (addKey l k).Nodup := by
  unfold addKey
  split
  · exact h
  · rename_i hc
    rw [List.nodup_append]
    refine ⟨h, by simp, ?_⟩
    intro a ha b hb
    simp at hb; subst hb
    intro e; subst e
    exact hc (by simpa using ha)

theorem mem_addKey (l : List String) (k x : String) : x ∈ addKey l k ↔ x ∈ l ∨ x = k := by
  unfold addKey
  split
  · rename_i hc
    constructor
    · exact Or.inl
    · rintro (h | h)
      · exact h
      · subst h; simpa using hc
  · simp

/-- two dicts with the same (duplicate-free) key order and the same values are equal -/
theorem kids_ext (a b : Kids) (hk : a.map (·.1) = b.map (·.1)) (hn : (a.map (·.1)).Nodup)
    (hv : ∀ k, dget k a = dget k b) : a = b := by
  induction a generalizing b with
  | nil => cases b <;> simp_all
  | cons x r ih =>
    cases b with
    | nil => simp at hk
    | cons y s =>
      obtain ⟨kx, vx⟩ := x
      obtain ⟨ky, vy⟩ := y
      simp only [List.map_cons, List.cons.injEq] at hk
      obtain ⟨hkk, hrs⟩ := hk
      subst hkk
      simp only [List.map_cons, List.nodup_cons] at hn
      have h0 := hv kx
      simp [dget] at h0
      subst h0
      have : r = s := by
        apply ih s hrs hn.2
        intro k
        have := hv k
        simp only [dget] at this
        by_cases hk : kx = k
        · subst hk
          have h1 : dget kx r = none := (dget_none_iff kx r).mpr hn.1
          have h2 : dget kx s = none := (dget_none_iff kx s).mpr (by rw [← hrs]; exact hn.1)
          rw [h1, h2]
        · simpa [hk] using this
      rw [this]


/-! ### the fold -/

theorem selFold_append (K : List Path) (strict : Bool) (pre : Path) (dk : Kids) (a b : List Path) (o : Kids) :
    selFold K strict pre dk (a ++ b) o =
      match selFold K strict pre dk a o with
      | .error e => .error e
      | .ok o' => selFold K strict pre dk b o' := by
  induction a generalizing o with
  | nil => simp [selFold]
  | cons p ps ih =>
    simp only [List.cons_append, selFold]
    cases selIns K strict pre p dk o with
    | error e => rfl
    | ok o' => exact ih o'

/-- the keys of `out` after one key has been merged: the first component is appended when it is bound and new -/
theorem selIns_keys (K : List Path) (strict : Bool) (pre p : Path) (dk ok ok' : Kids)
    (h : selIns K strict pre p dk ok = .ok ok') :
    ok'.map (·.1) = match p with
      | [] => ok.map (·.1)
      | k :: _ => if (dget k dk).isSome then addKey (ok.map (·.1)) k else ok.map (·.1) := by
  match p with
  | [] => simp [selIns] at h
  | [k] =>
    simp only [selIns] at h
    cases hd : dget k dk with
    | none =>
      rw [hd] at h
      simp only at h
      split at h
      · simp at h
      · simp at h; subst h; simp [hd]
    | some v => rw [hd] at h; simp at h; subst h; simp [hd, dset_keys]
  | k :: k2 :: rest =>
    simp only [selIns] at h
    cases hd : dget k dk with
    | none =>
      rw [hd] at h
      simp only at h
      split at h
      · simp at h
      · simp at h; subst h; simp [hd]
    | some v =>
      rw [hd] at h
      simp only at h
      simp only [hd, Option.isSome_some, if_true]
      split at h
      · split at h
        · simp at h
        · simp at h; subst h
          split
          · rename_i hs
            have hmem : k ∈ ok.map (·.1) := (dget_isSome_iff_mem k ok).mp hs
            have : (ok.map (·.1)).contains k = true := List.contains_iff_mem.mpr hmem
            unfold addKey; rw [if_pos this]
          · exact dset_keys _ _ _
      · cases v with
        | leaf nt x => simp at h
        | node dsub =>
          simp only at h
          split at h
          · simp at h
          · simp at h; subst h; exact dset_keys _ _ _

/-- the first components of the keys that are bound in `dk`, in order of first mention, starting from `acc` -/
def headFold (dk : Kids) : List String → List Path → List String
  | acc, [] => acc
  | acc, [] :: ps => headFold dk acc ps
  | acc, (k :: _) :: ps => headFold dk (if (dget k dk).isSome then addKey acc k else acc) ps

theorem selFold_keys (K : List Path) (strict : Bool) (pre : Path) (dk : Kids) (keys : List Path) (ok ok' : Kids)
    (h : selFold K strict pre dk keys ok = .ok ok') : ok'.map (·.1) = headFold dk (ok.map (·.1)) keys := by
  induction keys generalizing ok with
  | nil => simp [selFold] at h; subst h; simp [headFold]
  | cons p ps ih =>
    simp only [selFold] at h
    cases hi : selIns K strict pre p dk ok with
    | error e => simp [hi] at h
    | ok o1 =>
      simp only [hi] at h
      have hk := selIns_keys K strict pre p dk ok o1 hi
      rw [ih o1 h]
      cases p with
      | nil => simp [selIns] at hi
      | cons k sub => simp only [headFold]; rw [hk]

theorem headFold_nodup (dk : Kids) (acc : List String) (keys : List Path) (h : acc.Nodup) : (headFold dk acc keys).Nodup := by
  induction keys generalizing acc with
  | nil => exact h
  | cons p ps ih =>
    cases p with
    | nil => exact ih acc h
    | cons k sub =>
      simp only [headFold]
      split
      · exact ih _ (addKey_nodup acc k h)
      · exact ih _ h


/-- the key list of one level of the recursion is the global key list seen from `pre`: the whole-test of the code
(`[k] ∈ keys`) is the whole-test of the fold (`pre ++ [k] ∈ K`) -/
def KeysAt (K : List Path) (pre : Path) (keys : List Path) : Prop :=
  ∀ q, q ≠ [] → keys.contains q = K.contains (pre ++ q)

theorem KeysAt.tails {K : List Path} {pre : Path} {keys : List Path} (h : KeysAt K pre keys) (k : String) :
    KeysAt K (pre ++ [k]) (tailsOf k keys) := by
  intro q hq
  have := h (k :: q) (by simp)
  rw [List.append_assoc, List.singleton_append, ← this]
  rw [Bool.eq_iff_iff]
  simp only [List.contains_iff_mem]
  rw [mem_tailsOf_iff]
  simp [hq]

/-- what `out` holds once the keys `P` have been merged (one level) -/
def LevelVal (K : List Path) (strict : Bool) (pre : Path) (dk : Kids) (P : List Path) (out : Kids) : Prop :=
  ∀ k, match dget k dk with
    | none => dget k out = none
    | some v =>
      if k ∈ headsOf P then
        (if K.contains (pre ++ [k]) then dget k out = some v
         else ∃ dsub c, v = .node dsub ∧ selFold K strict (pre ++ [k]) dsub (tailsOf k P) [] = .ok c ∧
            dget k out = some (.node c))
      else dget k out = none

theorem headsOf_append (a b : List Path) : headsOf (a ++ b) = headsOf a ++ headsOf b := by
  simp [headsOf, List.filterMap_append]

theorem tailsOf_of_not_head {k : String} {P : List Path} (h : k ∉ headsOf P) : tailsOf k P = [] := by
  cases ht : tailsOf k P with
  | nil => rfl
  | cons q r =>
    exfalso
    have : q ∈ tailsOf k P := by rw [ht]; simp
    exact h (mem_headsOf_iff.mpr ⟨q, (mem_tailsOf_iff.mp this).2⟩)

theorem level_step (K : List Path) (strict : Bool) (pre : Path) (dk : Kids) (keys P : List Path) (p : Path)
    (hK : KeysAt K pre keys) (hp : p ∈ keys) (out out' : Kids)
    (hv : LevelVal K strict pre dk P out) (h : selIns K strict pre p dk out = .ok out') :
    LevelVal K strict pre dk (P ++ [p]) out' := by
  match p, hp, h with
  | [], _, h => simp [selIns] at h
  | [k], hp, h =>
    have hwhole : K.contains (pre ++ [k]) = true := by
      rw [← hK [k] (by simp)]; exact List.contains_iff_mem.mpr hp
    simp only [selIns] at h
    intro k'
    have hv' := hv k'
    rw [headsOf_append, tailsOf_append]
    cases hd : dget k dk with
    | none =>
      rw [hd] at h; simp only at h
      split at h
      · simp at h
      · simp at h; subst h
        by_cases hkk : k' = k
        · subst hkk; rw [hd] at hv' ⊢; simpa using hv'
        · cases hd' : dget k' dk with
          | none => rw [hd'] at hv'; simpa using hv'
          | some v' =>
            rw [hd'] at hv'
            simp only [headsOf, List.filterMap_cons, List.head?, List.filterMap_nil, List.mem_append, List.mem_singleton, hkk, or_false]
            rw [tailsOf_single_short, List.append_nil]
            simpa [headsOf] using hv'
    | some v =>
      rw [hd] at h; simp at h; subst h
      by_cases hkk : k' = k
      · subst hkk
        rw [hd]
        have hin : k' ∈ headsOf P ++ headsOf [[k']] := by simp [headsOf]
        simp only [hin, if_true, hwhole]
        exact dget_dset_same _ _ _
      · have hne : k ≠ k' := fun e => hkk e.symm
        rw [dget_dset_other _ hne]
        cases hd' : dget k' dk with
        | none => rw [hd'] at hv'; simpa using hv'
        | some v' =>
          rw [hd'] at hv'
          simp only [headsOf, List.filterMap_cons, List.head?, List.filterMap_nil, List.mem_append, List.mem_singleton, hkk, or_false]
          rw [tailsOf_single_short, List.append_nil]
          simpa [headsOf] using hv'
  | k :: k2 :: rest, hp, h =>
    simp only [selIns] at h
    intro k'
    have hv' := hv k'
    rw [headsOf_append, tailsOf_append]
    have hheads : ∀ x : String, (x ∈ headsOf P ++ headsOf [k :: k2 :: rest]) ↔ (x ∈ headsOf P ∨ x = k) := by
      intro x; simp [headsOf]
    cases hd : dget k dk with
    | none =>
      rw [hd] at h; simp only at h
      split at h
      · simp at h
      · simp at h; subst h
        by_cases hkk : k' = k
        · subst hkk; rw [hd] at hv' ⊢; simpa using hv'
        · cases hd' : dget k' dk with
          | none => rw [hd'] at hv'; simpa using hv'
          | some v' =>
            rw [hd'] at hv'
            simp only [hheads, hkk, or_false]
            rw [tailsOf_single_other (fun e => hkk e.symm), List.append_nil]
            exact hv'
    | some v =>
      rw [hd] at h; simp only at h
      by_cases hkk : k' = k
      · subst hkk
        rw [hd] at hv' ⊢
        simp only [hheads, or_true, if_true]
        rw [tailsOf_single_same]
        by_cases hw : K.contains (pre ++ [k']) = true
        · simp only [hw, if_true] at h hv' ⊢
          split at h
          · simp at h
          · simp at h; subst h
            by_cases hin : k' ∈ headsOf P
            · simp only [hin, if_true] at hv'
              simp [hv']
            · simp only [hin, if_false] at hv'
              simp [hv', dget_dset_same]
        · have hw' : K.contains (pre ++ [k']) = false := by simpa using hw
          simp only [hw', Bool.false_eq_true, if_false] at h hv' ⊢
          cases v with
          | leaf nt x => simp at h
          | node dsub =>
            simp only at h
            -- what is there for k' so far
            have hcur : selFold K strict (pre ++ [k']) dsub (tailsOf k' P) [] = .ok (curOf k' out) := by
              by_cases hin : k' ∈ headsOf P
              · simp only [hin, if_true] at hv'
                obtain ⟨dsub', c, hvd, hf, hg⟩ := hv'
                simp at hvd; subst hvd
                simp only [curOf, hg]; exact hf
              · simp only [hin, if_false] at hv'
                simp only [curOf, hv', tailsOf_of_not_head hin]; rfl
            split at h
            · simp at h
            · rename_i c hrec
              simp at h; subst h
              refine ⟨dsub, c, rfl, ?_, dget_dset_same _ _ _⟩
              rw [selFold_append, hcur]
              simp [selFold, hrec]
      · have hne : k ≠ k' := fun e => hkk e.symm
        have hsame : dget k' out' = dget k' out := by
          split at h
          · split at h
            · simp at h
            · simp at h; subst h
              split
              · rfl
              · exact dget_dset_other _ hne _
          · cases v with
            | leaf nt x => simp at h
            | node dsub =>
              simp only at h
              split at h
              · simp at h
              · simp at h; subst h; exact dget_dset_other _ hne _
        rw [hsame]
        cases hd' : dget k' dk with
        | none => rw [hd'] at hv'; simpa using hv'
        | some v' =>
          rw [hd'] at hv'
          simp only [hheads, hkk, or_false]
          rw [tailsOf_single_other hne, List.append_nil]
          exact hv'


/-! ### when the two loops of `_select` succeed (any `strict`) -/

theorem selectScan_ok_iff (strict : Bool) (kids : Kids) (keys : List Path) (src : Kids) (grp : List (String × List Path))
    (whole : List String) :
    (∃ r, selectScan strict kids keys src grp whole = .ok r) ↔
      ∀ p ∈ keys, ∃ k sub, p = k :: sub ∧ (strict = true → (dget k kids).isSome = true) := by
  induction keys generalizing src grp whole with
  | nil => simp [selectScan]
  | cons p ps ih =>
    cases p with
    | nil =>
      simp only [selectScan]
      constructor
      · rintro ⟨r, hr⟩; simp at hr
      · intro h; obtain ⟨k, sub, hk, _⟩ := h [] (by simp); simp at hk
    | cons k sub =>
      simp only [selectScan]
      have key : ∀ (P : Prop) (hgood : strict = true → (dget k kids).isSome = true),
          (P ↔ ∀ p ∈ ps, ∃ k sub, p = k :: sub ∧ (strict = true → (dget k kids).isSome = true)) →
          (P ↔ ∀ p ∈ (k :: sub) :: ps, ∃ k' sub', p = k' :: sub' ∧ (strict = true → (dget k' kids).isSome = true)) := by
        intro P hgood hP
        rw [hP]
        constructor
        · intro h p hp
          rcases List.mem_cons.mp hp with rfl | hp
          · exact ⟨k, sub, rfl, hgood⟩
          · exact h p hp
        · intro h p hp; exact h p (List.mem_cons_of_mem _ hp)
      cases hd : dget k kids with
      | none =>
        simp only []
        by_cases hs : strict = true
        · rw [if_pos hs]
          constructor
          · rintro ⟨r, hr⟩; simp at hr
          · intro h
            obtain ⟨k', sub', hk, hs'⟩ := h (k :: sub) (by simp)
            simp at hk; obtain ⟨rfl, rfl⟩ := hk
            have := hs' hs; rw [hd] at this; simp at this
        · rw [if_neg hs]
          exact key _ (fun h => absurd h hs) (ih _ _ _)
      | some v =>
        simp only []
        split
        · exact key _ (by simp [hd]) (ih _ _ _)
        · exact key _ (by simp [hd]) (ih _ _ _)

theorem selectGroups_ok_iff (f : List Path → Bool → Bool → Entry → Entry × Except Err Entry) (strict : Bool)
    (whole : List String) (G : List (String × List Path)) (cur src : Kids) (hG : (G.map (·.1)).Nodup) :
    (∃ r, (selectGroups f strict false whole G cur src).2 = .ok r) ↔
      ∀ k l child, (k, l) ∈ G → dget k src = some child →
        if whole.contains k then (strict = true → ∃ c, (f l true false child).2 = .ok c)
        else ∃ c, (f l strict false child).2 = .ok c := by
  induction G generalizing cur src with
  | nil => simp [selectGroups]
  | cons a r ih =>
    obtain ⟨k, subs⟩ := a
    simp only [List.map_cons, List.nodup_cons] at hG
    have hfresh : ∀ l, (k, l) ∉ r := fun l hm => hG.1 (List.mem_map_of_mem (f := (·.1)) hm)
    simp only [selectGroups]
    cases hd : dget k src with
    | none =>
      simp only []
      rw [ih cur src hG.2]
      constructor
      · intro h k' l child hm hc
        simp only [List.mem_cons, Prod.mk.injEq] at hm
        rcases hm with ⟨rfl, rfl⟩ | hm
        · rw [hd] at hc; simp at hc
        · exact h k' l child hm hc
      · intro h k' l child hm hc; exact h k' l child (List.mem_cons_of_mem _ hm) hc
    | some child =>
      simp only []
      have step : ∀ (src' : Kids) (Q : Prop), (∀ k', k' ≠ k → dget k' src' = dget k' src) →
          (Q ↔ if whole.contains k then (strict = true → ∃ c, (f subs true false child).2 = .ok c)
                else ∃ c, (f subs strict false child).2 = .ok c) →
          (Q ∧ (∃ r', (selectGroups f strict false whole r cur src').2 = .ok r') ↔
            ∀ k' l child', (k', l) ∈ (k, subs) :: r → dget k' src = some child' →
              if whole.contains k' then (strict = true → ∃ c, (f l true false child').2 = .ok c)
              else ∃ c, (f l strict false child').2 = .ok c) := by
        intro src' Q hsrc' hQ
        rw [ih cur src' hG.2, hQ]
        constructor
        · rintro ⟨h1, h2⟩ k' l child' hm hc
          simp only [List.mem_cons, Prod.mk.injEq] at hm
          rcases hm with ⟨rfl, rfl⟩ | hm
          · rw [hd] at hc; simp at hc; subst hc; exact h1
          · have hne : k' ≠ k := fun e => by subst e; exact hfresh l hm
            exact h2 k' l child' hm (by rw [hsrc' k' hne]; exact hc)
        · intro h
          refine ⟨h k subs child (by simp) hd, fun k' l child' hm hc => ?_⟩
          have hne : k' ≠ k := fun e => by subst e; exact hfresh l hm
          exact h k' l child' (List.mem_cons_of_mem _ hm) (by rw [← hsrc' k' hne]; exact hc)
      by_cases hw : whole.contains k = true
      · simp only [hw, if_true]
        by_cases hs : strict = true
        · rw [if_pos hs]
          rw [← step src (∃ c, (f subs true false child).2 = .ok c) (fun _ _ => rfl)
            (by rw [if_pos hw]; exact ⟨fun h _ => h, fun h => h hs⟩)]
          cases hf : (f subs true false child).2 with
          | error e => simp
          | ok c => simp
        · rw [if_neg hs]
          rw [← step src True (fun _ _ => rfl) (by rw [if_pos hw]; exact ⟨fun _ h => absurd h hs, fun _ => trivial⟩)]
          simp
      · have hw' : whole.contains k = false := by simpa using hw
        simp only [hw', Bool.false_eq_true, if_false]
        cases hf : f subs strict false child with
        | mk child' o =>
          cases o with
          | error e =>
            simp only []
            rw [← step src (∃ c, (f subs strict false child).2 = .ok c) (fun _ _ => rfl) (by rw [if_neg hw])]
            simp [hf]
          | ok c =>
            simp only []
            rw [← step (dset k c src) (∃ c, (f subs strict false child).2 = .ok c)
              (fun k' hne => dget_dset_other _ (fun e => hne e.symm) _) (by rw [if_neg hw])]
            simp [hf]


/-! ### when the fold succeeds -/

/-- the conditions under which merging `p` cannot fail at this level, the recursion aside -/
def LocOK (K : List Path) (strict : Bool) (pre : Path) (dk : Kids) (p : Path) : Prop :=
  match p with
  | [] => False
  | [k] => strict = true → (dget k dk).isSome = true
  | k :: k2 :: rest =>
    match dget k dk with
    | none => ¬ strict = true
    | some v =>
      if K.contains (pre ++ [k]) then (strict = true → (lookup (k2 :: rest) v).isSome = true)
      else ∃ dsub, v = .node dsub

theorem levelVal_cur {K : List Path} {strict : Bool} {pre : Path} {dk : Kids} {P : List Path} {out : Kids}
    (hv : LevelVal K strict pre dk P out) {k : String} {dsub : Kids} (hd : dget k dk = some (.node dsub))
    (hw : K.contains (pre ++ [k]) = false) :
    selFold K strict (pre ++ [k]) dsub (tailsOf k P) [] = .ok (curOf k out) := by
  have hv' := hv k
  rw [hd] at hv'
  simp only [hw, Bool.false_eq_true, if_false] at hv'
  by_cases hin : k ∈ headsOf P
  · simp only [hin, if_true] at hv'
    obtain ⟨dsub', c, hvd, hf, hg⟩ := hv'
    simp at hvd; subst hvd
    simp only [curOf, hg]; exact hf
  · simp only [hin, if_false] at hv'
    simp only [curOf, hv', tailsOf_of_not_head hin]; rfl

theorem selIns_locOK (K : List Path) (strict : Bool) (pre p : Path) (dk o o' : Kids)
    (h : selIns K strict pre p dk o = .ok o') : LocOK K strict pre dk p := by
  match p, h with
  | [], h => simp [selIns] at h
  | [k], h =>
    simp only [selIns] at h
    simp only [LocOK]
    intro hs
    cases hd : dget k dk with
    | none => rw [hd] at h; simp [hs] at h
    | some v => rfl
  | k :: k2 :: rest, h =>
    simp only [selIns] at h
    simp only [LocOK]
    cases hd : dget k dk with
    | none =>
      rw [hd] at h; simp only at h ⊢
      intro hs; simp [hs] at h
    | some v =>
      rw [hd] at h; simp only at h ⊢
      split
      · rename_i hw
        rw [if_pos hw] at h
        intro hs
        cases hl : lookup (k2 :: rest) v with
        | none => simp [hs, hl] at h
        | some x => rfl
      · rename_i hw
        rw [if_neg hw] at h
        cases v with
        | leaf nt x => simp at h
        | node dsub => exact ⟨dsub, rfl⟩

/-- merging the keys `R` after the keys `P`: the description of `out` follows, and no key of `R` was bad -/
theorem fold_inv (K : List Path) (strict : Bool) (pre : Path) (dk : Kids) (keys : List Path) (hK : KeysAt K pre keys) :
    ∀ (R P : List Path) (out out' : Kids), (∀ q ∈ R, q ∈ keys) → LevelVal K strict pre dk P out →
      selFold K strict pre dk R out = .ok out' →
      LevelVal K strict pre dk (P ++ R) out' ∧ ∀ p ∈ R, LocOK K strict pre dk p := by
  intro R
  induction R with
  | nil => intro P out out' _ hv h; simp [selFold] at h; subst h; simpa using hv
  | cons p ps ih =>
    intro P out out' hR hv h
    simp only [selFold] at h
    cases hi : selIns K strict pre p dk out with
    | error e => simp [hi] at h
    | ok o1 =>
      simp only [hi] at h
      have h1 := level_step K strict pre dk keys P p hK (hR p (by simp)) out o1 hv hi
      obtain ⟨h2, h3⟩ := ih (P ++ [p]) o1 out' (fun q hq => hR q (List.mem_cons_of_mem _ hq)) h1 h
      refine ⟨by simpa using h2, fun q hq => ?_⟩
      rcases List.mem_cons.mp hq with rfl | hq
      · exact selIns_locOK K strict pre q dk out o1 hi
      · exact h3 q hq

/-- the fold succeeds as soon as no key is bad: neither at this level nor (for the nested tensordicts that are
narrowed) one level down -/
theorem fold_ok_of_good (K : List Path) (strict : Bool) (pre : Path) (dk : Kids) (keys : List Path) (hK : KeysAt K pre keys)
    (hloc : ∀ p ∈ keys, LocOK K strict pre dk p)
    (hrec : ∀ k dsub, dget k dk = some (.node dsub) → K.contains (pre ++ [k]) = false → k ∈ headsOf keys →
      ∃ c, selFold K strict (pre ++ [k]) dsub (tailsOf k keys) [] = .ok c) :
    ∀ (R P : List Path) (out : Kids), keys = P ++ R → LevelVal K strict pre dk P out →
      ∃ out', selFold K strict pre dk R out = .ok out' := by
  intro R
  induction R with
  | nil => intro P out _ _; exact ⟨out, rfl⟩
  | cons p ps ih =>
    intro P out hkeys hv
    have hpk : p ∈ keys := by rw [hkeys]; simp
    have hl := hloc p hpk
    have hstep : ∃ o1, selIns K strict pre p dk out = .ok o1 := by
      match p, hl, hpk, hkeys with
      | [], hl, _, _ => simp [LocOK] at hl
      | [k], hl, _, _ =>
        simp only [LocOK] at hl
        simp only [selIns]
        cases hd : dget k dk with
        | none =>
          simp only []
          by_cases hs : strict = true
          · have := hl hs; rw [hd] at this; simp at this
          · rw [if_neg hs]; exact ⟨_, rfl⟩
        | some v => exact ⟨_, rfl⟩
      | k :: k2 :: rest, hl, hpk, hkeys =>
        simp only [LocOK] at hl
        simp only [selIns]
        cases hd : dget k dk with
        | none =>
          rw [hd] at hl; simp only at hl ⊢
          rw [if_neg hl]; exact ⟨_, rfl⟩
        | some v =>
          rw [hd] at hl; simp only at hl ⊢
          by_cases hw : K.contains (pre ++ [k]) = true
          · rw [if_pos hw] at hl ⊢
            have : (strict && (lookup (k2 :: rest) v).isNone) = false := by
              by_cases hs : strict = true
              · have := hl hs
                cases hlk : lookup (k2 :: rest) v with
                | none => rw [hlk] at this; simp at this
                | some x => simp
              · have : strict = false := by simpa using hs
                simp [this]
            rw [this]; exact ⟨_, rfl⟩
          · rw [if_neg hw] at hl ⊢
            obtain ⟨dsub, rfl⟩ := hl
            simp only []
            have hw' : K.contains (pre ++ [k]) = false := by simpa using hw
            have hcur := levelVal_cur hv hd hw'
            obtain ⟨c, hc⟩ := hrec k dsub hd hw' (mem_headsOf_iff.mpr ⟨_, hpk⟩)
            have htl : tailsOf k keys = (tailsOf k P ++ [k2 :: rest]) ++ tailsOf k ps := by
              rw [hkeys, tailsOf_append, tailsOf_cons]; simp
            rw [htl, selFold_append, selFold_append, hcur] at hc
            simp only [selFold] at hc
            cases hrec' : selIns K strict (pre ++ [k]) (k2 :: rest) dsub (curOf k out) with
            | error e => rw [hrec'] at hc; simp at hc
            | ok c1 => exact ⟨_, rfl⟩
    obtain ⟨o1, ho1⟩ := hstep
    have h1 := level_step K strict pre dk keys P p hK hpk out o1 hv ho1
    obtain ⟨out', ho'⟩ := ih (P ++ [p]) o1 (by rw [hkeys]; simp) h1
    exact ⟨out', by simp only [selFold, ho1]; exact ho'⟩


/-! ### the key order computed by the code -/

theorem selectScan_keys (strict : Bool) (kids : Kids) (keys : List Path) (src : Kids) (grp : List (String × List Path))
    (whole : List String) (src' : Kids) (grp' : List (String × List Path)) (whole' : List String)
    (h : selectScan strict kids keys src grp whole = .ok (src', grp', whole')) :
    src'.map (·.1) = headFold kids (src.map (·.1)) keys := by
  induction keys generalizing src grp whole with
  | nil => simp [selectScan] at h; obtain ⟨rfl, _, _⟩ := h; simp [headFold]
  | cons p ps ih =>
    cases p with
    | nil => simp [selectScan] at h
    | cons k sub =>
      simp only [selectScan] at h
      simp only [headFold]
      cases hd : dget k kids with
      | none =>
        rw [hd] at h; simp only at h
        split at h
        · simp at h
        · simpa using ih _ _ _ h
      | some v =>
        rw [hd] at h; simp only at h
        simp only [Option.isSome_some, if_true]
        split at h
        · rw [ih _ _ _ h, dset_keys]
        · rw [ih _ _ _ h, dset_keys]

theorem selectGroups_keys (f : List Path → Bool → Bool → Entry → Entry × Except Err Entry) (strict : Bool)
    (whole : List String) (G : List (String × List Path)) (cur src srcF : Kids)
    (h : (selectGroups f strict false whole G cur src).2 = .ok srcF) : srcF.map (·.1) = src.map (·.1) := by
  induction G generalizing cur src with
  | nil => simp [selectGroups] at h; subst h; rfl
  | cons a r ih =>
    obtain ⟨k, subs⟩ := a
    simp only [selectGroups] at h
    cases hd : dget k src with
    | none => rw [hd] at h; exact ih cur src h
    | some child =>
      rw [hd] at h; simp only at h
      split at h
      · split at h
        · split at h
          · simp at h
          · exact ih cur src h
        · exact ih cur src h
      · split at h
        · simp at h
        · rename_i child' c hf
          simp only [Bool.false_eq_true, if_false] at h
          rw [ih cur (dset k c src) h, dset_keys]
          have : (src.map (·.1)).contains k = true :=
            List.contains_iff_mem.mpr ((dget_isSome_iff_mem k src).mp (by simp [hd]))
          unfold addKey; rw [if_pos this]


/-! ### the refinement -/

theorem levelVal_nil (K : List Path) (strict : Bool) (pre : Path) (dk : Kids) : LevelVal K strict pre dk [] [] := by
  intro k
  cases dget k dk <;> simp [headsOf, dget]

theorem toOption_ok_iff {α} (x : Except Err α) (a : α) : x.toOption = some a ↔ x = .ok a := by
  cases x <;> simp [Except.toOption]

/-- out of place, the two loops of `_select` compute the fold — same result (entries, their order, the nested
selections, empty nested dicts included), same refusals — at every level of the recursion -/
theorem selectF_refines (K : List Path) (strict : Bool) (n : Nat) : ∀ (keys : List Path) (pre : Path) (kids : Kids),
    KeysAt K pre keys → (∀ p ∈ keys, p.length ≤ n) →
    (selectF (n + 1) keys strict false (.node kids)).2.toOption =
      (selFold K strict pre kids keys []).toOption.map Entry.node := by
  induction n with
  | zero =>
    intro keys pre kids _ hk
    cases keys with
    | nil => simp [selectF, selectScan, selectGroups, selFold, Except.toOption]
    | cons p ps =>
      have : p = [] := by have := hk p (by simp); cases p <;> simp at this ⊢
      subst this
      simp [selectF, selectScan, selFold, selIns, Except.toOption]
  | succ m ih =>
    intro keys pre kids hK hk
    -- the two descriptions of "no key is bad"
    have hspec_ok : ∀ out, selFold K strict pre kids keys [] = .ok out →
        LevelVal K strict pre kids keys out ∧ ∀ p ∈ keys, LocOK K strict pre kids p := by
      intro out h
      have := fold_inv K strict pre kids keys hK keys [] [] out (fun q hq => hq) (levelVal_nil K strict pre kids) h
      simpa using this
    simp only [selectF]
    cases hscan : selectScan strict kids keys [] [] [] with
    | error e =>
      simp only [Except.toOption]
      -- the fold fails too
      cases hf : selFold K strict pre kids keys [] with
      | error e' => simp [Except.toOption]
      | ok out =>
        exfalso
        obtain ⟨_, hloc⟩ := hspec_ok out hf
        have : ∃ r, selectScan strict kids keys [] [] [] = .ok r := by
          rw [selectScan_ok_iff]
          intro p hp
          have hl := hloc p hp
          match p, hl with
          | [], hl => simp [LocOK] at hl
          | [k], hl => exact ⟨k, [], rfl, hl⟩
          | k :: k2 :: rest, hl =>
            refine ⟨k, k2 :: rest, rfl, fun hs => ?_⟩
            simp only [LocOK] at hl
            cases hd : dget k kids with
            | none => rw [hd] at hl; exact absurd hs hl
            | some v => rfl
        obtain ⟨r, hr⟩ := this
        rw [hscan] at hr; simp at hr
    | ok res =>
      obtain ⟨src0, G, whole⟩ := res
      simp only []
      have hheads := (selectScan_ok_iff strict kids keys [] [] []).mp ⟨_, hscan⟩
      have hne : ∀ p ∈ keys, p ≠ [] := by
        intro p hp; obtain ⟨k, sub, rfl, _⟩ := hheads p hp; simp
      obtain ⟨ha, hb, hc, hd, _⟩ := selectScan_spec strict kids keys [] [] [] hne src0 G whole hscan
      have hGn := hd (by simp)
      have hGne := selectScan_groups_nonempty strict kids keys [] [] [] (by simp) src0 G whole hscan
      have hkeys0 := selectScan_keys strict kids keys [] [] [] src0 G whole hscan
      have hgr := selectGroups_ok_iff (selectF (m + 1)) strict whole G kids src0 hGn
      -- facts about one name
      have hsrc : ∀ k, dget k src0 = if k ∈ headsOf keys ∧ (dget k kids).isSome = true then dget k kids else none := by
        intro k; have := ha k; simpa [dget] using this
      have hwhole : ∀ k, (dget k kids).isSome = true → whole.contains k = K.contains (pre ++ [k]) := by
        intro k hs
        have := hc k
        simp only [List.contains_nil, Bool.false_or, hs, Bool.and_true] at this
        rw [this, hK [k] (by simp)]
      have hgrp : ∀ k l, (k, l) ∈ G → (dget k kids).isSome = true → l = tailsOf k keys := by
        intro k l hm hs
        have h1 := mem_lookupG hGn hm
        have h2 := hb k
        simp only [lookupG, List.nil_append, hs, if_true] at h2
        rw [← h1, h2]
      have hgroup_exists : ∀ k q, (k :: q) ∈ keys → q ≠ [] → (dget k kids).isSome = true → (k, tailsOf k keys) ∈ G := by
        intro k q hq hqne hs
        have hmemt : q ∈ tailsOf k keys := mem_tailsOf_iff.mpr ⟨hqne, hq⟩
        have hlk : lookupG k G = tailsOf k keys := by
          have h2 := hb k
          simpa [lookupG, hs] using h2
        have hkG : k ∈ G.map (·.1) := by
          by_cases hcn : k ∈ G.map (·.1)
          · exact hcn
          · rw [lookupG_absent k G hcn] at hlk; rw [← hlk] at hmemt; simp at hmemt
        obtain ⟨⟨k0, l⟩, hm, hk0⟩ := List.mem_map.mp hkG
        simp only at hk0; subst hk0
        rw [← hgrp k0 l hm hs]; exact hm
      have hlen : ∀ k, ∀ q ∈ tailsOf k keys, q.length ≤ m := by
        intro k q hq
        have := hk (k :: q) (mem_tailsOf_iff.mp hq).2
        simp at this; omega
      have hIH : ∀ k dsub, (selectF (m + 1) (tailsOf k keys) strict false (.node dsub)).2.toOption =
          (selFold K strict (pre ++ [k]) dsub (tailsOf k keys) []).toOption.map Entry.node :=
        fun k dsub => ih (tailsOf k keys) (pre ++ [k]) dsub (hK.tails k) (hlen k)
      -- (1) when the fold succeeds, the groups succeed
      have hcode_of_spec : ∀ out, selFold K strict pre kids keys [] = .ok out →
          ∃ srcF, (selectGroups (selectF (m + 1)) strict false whole G kids src0).2 = .ok srcF := by
        intro out hf
        obtain ⟨hval, hloc⟩ := hspec_ok out hf
        rw [hgr]
        intro k l child hm hsc
        have hdk : dget k kids = some child := by
          rw [hsrc k] at hsc
          split at hsc
          · exact hsc
          · simp at hsc
        have hs : (dget k kids).isSome = true := by simp [hdk]
        have hl := hgrp k l hm hs
        have hlne : l ≠ [] := hGne (k, l) hm
        obtain ⟨q, hq⟩ := List.exists_mem_of_ne_nil l hlne
        rw [hwhole k hs]
        have hlocq : ∀ q ∈ l, ∃ k2 rest, q = k2 :: rest ∧ LocOK K strict pre kids (k :: k2 :: rest) := by
          intro q hq
          rw [hl] at hq
          obtain ⟨hq1, hq2⟩ := mem_tailsOf_iff.mp hq
          cases q with
          | nil => exact absurd rfl hq1
          | cons k2 rest => exact ⟨k2, rest, rfl, hloc _ hq2⟩
        by_cases hw : K.contains (pre ++ [k]) = true
        · rw [if_pos hw]
          intro hstrict
          have hbound : ∀ q ∈ l, q ≠ [] ∧ (lookup q child).isSome = true := by
            intro q hq
            obtain ⟨k2, rest, rfl, hlq⟩ := hlocq q hq
            simp only [LocOK, hdk, hw, if_true] at hlq
            exact ⟨by simp, hlq hstrict⟩
          cases child with
          | leaf nt x =>
            exfalso
            obtain ⟨hq1, hq2⟩ := hbound q hq
            cases q with
            | nil => exact hq1 rfl
            | cons a b => simp [lookup] at hq2
          | node ck =>
            have := (selectF_strict_ok_iff m l ck (by rw [hl]; exact hlen k)).mpr hbound
            exact this
        · rw [if_neg hw]
          have hw' : K.contains (pre ++ [k]) = false := by simpa using hw
          obtain ⟨k2, rest, rfl, hlq⟩ := hlocq q hq
          simp only [LocOK, hdk, hw', Bool.false_eq_true, if_false] at hlq
          obtain ⟨dsub, rfl⟩ := hlq
          have hin : k ∈ headsOf keys := by
            rw [hl] at hq; exact mem_headsOf_iff.mpr ⟨_, (mem_tailsOf_iff.mp hq).2⟩
          have hv := hval k
          rw [hdk] at hv
          simp only [hin, if_true, hw', Bool.false_eq_true, if_false] at hv
          obtain ⟨dsub', c, hvd, hfold, _⟩ := hv
          simp at hvd; subst hvd
          have := hIH k dsub
          rw [hfold] at this
          simp only [Except.toOption, Option.map] at this
          rw [hl]
          exact ⟨_, (toOption_ok_iff _ _).mp this⟩
      -- (2) when the groups succeed, the fold succeeds and yields the same dict
      cases hg : selectGroups (selectF (m + 1)) strict false whole G kids src0 with
      | mk cur R =>
        cases R with
        | error e =>
          simp only [Except.toOption]
          cases hf : selFold K strict pre kids keys [] with
          | error e' => simp [Except.toOption]
          | ok out =>
            exfalso
            obtain ⟨srcF, hsF⟩ := hcode_of_spec out hf
            rw [hg] at hsF; simp at hsF
        | ok srcF =>
          simp only [Except.toOption]
          have hgok : ∃ r, (selectGroups (selectF (m + 1)) strict false whole G kids src0).2 = .ok r := ⟨srcF, by rw [hg]⟩
          have hgfacts := hgr.mp hgok
          obtain ⟨_, hgo⟩ := selectGroups_out (selectF (m + 1)) strict whole G kids src0 hGn
          obtain ⟨hout, hin⟩ := hgo srcF (by rw [hg])
          -- every key is good
          have hloc : ∀ p ∈ keys, LocOK K strict pre kids p := by
            intro p hp
            obtain ⟨k, sub, rfl, hsb⟩ := hheads p hp
            cases sub with
            | nil => exact hsb
            | cons k2 rest =>
              simp only [LocOK]
              cases hdk : dget k kids with
              | none => simp only []; intro hs; have := hsb hs; rw [hdk] at this; simp at this
              | some v =>
                simp only []
                have hs : (dget k kids).isSome = true := by simp [hdk]
                have hm := hgroup_exists k (k2 :: rest) hp (by simp) hs
                have hsc : dget k src0 = some v := by
                  rw [hsrc k]; simp [mem_headsOf_iff.mpr ⟨_, hp⟩, hdk]
                have hfact := hgfacts k _ v hm hsc
                rw [hwhole k hs] at hfact
                by_cases hw : K.contains (pre ++ [k]) = true
                · rw [if_pos hw] at hfact ⊢
                  intro hstrict
                  obtain ⟨c, hc'⟩ := hfact hstrict
                  cases v with
                  | leaf nt x => rw [selectF_leaf] at hc'; simp at hc'
                  | node vk =>
                    have := (selectF_strict_ok_iff m (tailsOf k keys) vk (hlen k)).mp ⟨c, hc'⟩ (k2 :: rest)
                      (mem_tailsOf_iff.mpr ⟨by simp, hp⟩)
                    exact this.2
                · rw [if_neg hw] at hfact ⊢
                  obtain ⟨c, hc'⟩ := hfact
                  cases v with
                  | leaf nt x => rw [selectF_leaf] at hc'; simp at hc'
                  | node vk => exact ⟨vk, rfl⟩
          have hrec : ∀ k dsub, dget k kids = some (.node dsub) → K.contains (pre ++ [k]) = false → k ∈ headsOf keys →
              ∃ c, selFold K strict (pre ++ [k]) dsub (tailsOf k keys) [] = .ok c := by
            intro k dsub hdk hw hinh
            have hs : (dget k kids).isSome = true := by simp [hdk]
            obtain ⟨r, hr⟩ := mem_headsOf_iff.mp hinh
            have hrne : r ≠ [] := by
              intro e; subst e
              have : keys.contains [k] = true := List.contains_iff_mem.mpr hr
              rw [hK [k] (by simp), hw] at this; simp at this
            have hm := hgroup_exists k r hr hrne hs
            have hsc : dget k src0 = some (.node dsub) := by rw [hsrc k]; simp [hinh, hdk]
            have hfact := hgfacts k _ _ hm hsc
            rw [hwhole k hs, hw] at hfact
            simp only [Bool.false_eq_true, if_false] at hfact
            obtain ⟨c, hc'⟩ := hfact
            have := hIH k dsub
            rw [hc'] at this
            simp only [Except.toOption] at this
            cases hfo : selFold K strict (pre ++ [k]) dsub (tailsOf k keys) [] with
            | error e => rw [hfo] at this; simp [Except.toOption] at this
            | ok c2 => exact ⟨c2, rfl⟩
          obtain ⟨out, hfold⟩ := fold_ok_of_good K strict pre kids keys hK hloc hrec keys [] [] (by simp) (levelVal_nil K strict pre kids)
          rw [hfold]
          simp only [Except.toOption, Option.map]
          obtain ⟨hval, _⟩ := hspec_ok out hfold
          -- same keys, same values
          have hk1 : srcF.map (·.1) = out.map (·.1) := by
            rw [selectGroups_keys _ _ _ _ _ _ srcF (by rw [hg]), hkeys0, selFold_keys K strict pre kids keys [] out hfold]
          have hnd : (srcF.map (·.1)).Nodup := by
            rw [hk1, selFold_keys K strict pre kids keys [] out hfold]
            exact headFold_nodup kids [] keys (by simp)
          suffices heq : srcF = out by rw [heq]; simp
          apply kids_ext srcF out hk1 hnd
          intro k
          have hv := hval k
          by_cases hkG : k ∈ G.map (·.1)
          · obtain ⟨⟨k0, l⟩, hm, hk0⟩ := List.mem_map.mp hkG
            simp only at hk0; subst hk0
            have hdone := hin k0 l hm
            simp only [GroupDone] at hdone
            cases hdk : dget k0 kids with
            | none =>
              rw [hdk] at hv; simp only at hv
              have : dget k0 src0 = none := by rw [hsrc k0]; simp [hdk]
              rw [this] at hdone; simp only at hdone
              rw [hdone, hv]
            | some v =>
              rw [hdk] at hv; simp only at hv
              have hs : (dget k0 kids).isSome = true := by simp [hdk]
              have hl := hgrp k0 l hm hs
              have hlne : l ≠ [] := hGne (k0, l) hm
              obtain ⟨q, hq⟩ := List.exists_mem_of_ne_nil l hlne
              have hinh : k0 ∈ headsOf keys := by
                rw [hl] at hq; exact mem_headsOf_iff.mpr ⟨_, (mem_tailsOf_iff.mp hq).2⟩
              have hsc : dget k0 src0 = some v := by rw [hsrc k0]; simp [hinh, hdk]
              rw [hsc] at hdone; simp only at hdone
              rw [hwhole k0 hs] at hdone
              simp only [hinh, if_true] at hv
              by_cases hw : K.contains (pre ++ [k0]) = true
              · rw [if_pos hw] at hdone hv
                rw [hdone.1, hv]
              · rw [if_neg hw] at hdone hv
                obtain ⟨c', hfc, hsc'⟩ := hdone
                obtain ⟨dsub, c, hvd, hfo, hgo'⟩ := hv
                subst hvd
                have := hIH k0 dsub
                rw [← hl, hfc] at this
                rw [hl] at this
                rw [hfo] at this
                simp only [Except.toOption, Option.map] at this
                simp at this
                rw [hsc', hgo', this]
          · rw [hout k hkG, hsrc k]
            cases hdk : dget k kids with
            | none => rw [hdk] at hv; simp only at hv; simp [hv]
            | some v =>
              rw [hdk] at hv; simp only at hv
              have hs : (dget k kids).isSome = true := by simp [hdk]
              by_cases hinh : k ∈ headsOf keys
              · simp only [hinh, if_true] at hv
                -- no group: every key starting with k is [k], which is then a whole key
                have hwk : K.contains (pre ++ [k]) = true := by
                  obtain ⟨r, hr⟩ := mem_headsOf_iff.mp hinh
                  cases r with
                  | nil =>
                    rw [← hK [k] (by simp)]; exact List.contains_iff_mem.mpr hr
                  | cons r1 r2 =>
                    exfalso
                    have hm := hgroup_exists k (r1 :: r2) hr (by simp) hs
                    exact hkG (List.mem_map_of_mem (f := (·.1)) hm)
                rw [if_pos hwk] at hv
                rw [hv]; simp [hinh]
              · simp only [hinh, if_false] at hv
                simp [hinh, hv]


theorem keysAt_root (K : List Path) : KeysAt K [] K := by intro q _; simp

theorem curOf_wf (k : String) (ok : Kids) (hw : WF (.node ok)) : WF (.node (curOf k ok)) := by
  unfold curOf
  split
  · rename_i c hc
    exact hw.child hc
  · exact WF.empty

theorem selIns_wf (K : List Path) (strict : Bool) : ∀ (p pre : Path) (dk ok ok' : Kids),
    WF (.node dk) → WF (.node ok) → selIns K strict pre p dk ok = .ok ok' → WF (.node ok') := by
  intro p
  induction p with
  | nil => intro pre dk ok ok' _ _ h; simp [selIns] at h
  | cons k sub ih =>
    intro pre dk ok ok' hd ho h
    cases sub with
    | nil =>
      simp only [selIns] at h
      cases hdk : dget k dk with
      | none =>
        rw [hdk] at h; simp only at h
        split at h
        · simp at h
        · simp at h; subst h; exact ho
      | some v => rw [hdk] at h; simp at h; subst h; exact ho.dset k (hd.child hdk)
    | cons k2 rest =>
      simp only [selIns] at h
      cases hdk : dget k dk with
      | none =>
        rw [hdk] at h; simp only at h
        split at h
        · simp at h
        · simp at h; subst h; exact ho
      | some v =>
        rw [hdk] at h; simp only at h
        split at h
        · split at h
          · simp at h
          · simp at h; subst h
            split
            · exact ho
            · exact ho.dset k (hd.child hdk)
        · cases v with
          | leaf nt x => simp at h
          | node dsub =>
            simp only at h
            split at h
            · simp at h
            · rename_i c hrec
              simp at h; subst h
              exact ho.dset k (ih (pre ++ [k]) dsub (curOf k ok) c (hd.child hdk) (curOf_wf k ok ho) hrec)

theorem selFold_wf (K : List Path) (strict : Bool) (pre : Path) (dk : Kids) (hd : WF (.node dk)) :
    ∀ (keys : List Path) (ok ok' : Kids), WF (.node ok) → selFold K strict pre dk keys ok = .ok ok' → WF (.node ok') := by
  intro keys
  induction keys with
  | nil => intro ok ok' ho h; simp [selFold] at h; subst h; exact ho
  | cons p ps ih =>
    intro ok ok' ho h
    simp only [selFold] at h
    cases hi : selIns K strict pre p dk ok with
    | error e => simp [hi] at h
    | ok o1 =>
      simp only [hi] at h
      exact ih o1 ok' (selIns_wf K strict p pre dk ok o1 hd ho hi) h

/-- `select(*keys, strict, inplace)`: the scan of the first components, the grouping of the nested sub-keys, the
recursion into the nested tensordicts (out of place, or — after the dry run — in place) equal the fold on plain dicts -/
theorem selectT_refines (keys : List Path) (strict inplace : Bool) (kids : Kids) :
    (selectT keys strict inplace (.node kids)).1 = (specSelect keys strict inplace (.node kids)).1 ∧
    (selectT keys strict inplace (.node kids)).2.erase = (specSelect keys strict inplace (.node kids)).2.erase := by
  have href := selectF_refines keys strict (maxLen keys) keys [] kids (keysAt_root keys) (fun p hp => le_maxLen hp)
  obtain ⟨hin1, hin2, hin3⟩ := selectF_inplace (maxLen keys + 1) keys strict (.node kids)
  simp only [specSelect]
  cases hf : selFold keys strict [] kids keys [] with
  | error e =>
    rw [hf] at href
    simp only [Except.toOption, Option.map] at href
    cases hout : selectF (maxLen keys + 1) keys strict false (.node kids) with
    | mk t0 o0 =>
      rw [hout] at href hin3
      simp only at href hin3
      cases o0 with
      | ok r => simp at href
      | error e0 =>
        cases inplace with
        | true => simp [selectT, hout, Out.erase]
        | false => simp [selectT, hout, Out.erase, hin3]
  | ok r =>
    rw [hf] at href
    simp only [Except.toOption, Option.map] at href
    cases hout : selectF (maxLen keys + 1) keys strict false (.node kids) with
    | mk t0 o0 =>
      rw [hout] at href hin3 hin1
      simp only at href hin3 hin1
      cases o0 with
      | error e0 => simp at href
      | ok r0 =>
        simp at href; subst href
        cases inplace with
        | false => simp [selectT, hout, hin3]
        | true =>
          cases hi : selectF (maxLen keys + 1) keys strict true (.node kids) with
          | mk t1 o1 =>
            rw [hi] at hin1 hin2
            simp only at hin1 hin2
            subst hin1
            have := hin2 _ rfl
            subst this
            simp [selectT, hout, hi]

theorem specSelect_good (keys : List Path) (strict inplace : Bool) (kids : Kids) (hw : WF (.node kids)) :
    ∃ kids', (specSelect keys strict inplace (.node kids)).1 = .node kids' ∧ WF (.node kids') := by
  simp only [specSelect]
  cases hf : selFold keys strict [] kids keys [] with
  | error e => exact ⟨kids, rfl, hw⟩
  | ok r =>
    cases inplace with
    | false => exact ⟨kids, rfl, hw⟩
    | true => exact ⟨r, rfl, selFold_wf keys strict [] kids hw keys [] r WF.empty hf⟩

end TdVerif.C04
