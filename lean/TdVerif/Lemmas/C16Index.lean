/-
  C16 — lemmas about resolved indices: `srcCoord`, `outShape`, `splitAt`, validity.
-/
import TdVerif.Lemmas.C16Basic

namespace TdVerif.C16
namespace NT
variable {O : Type}

/-- number of source dims an index consumes -/
def nCons : List RIx → Nat
  | [] => 0
  | x :: r => (bif x.consumes then 1 else 0) + nCons r

theorem outShape_append : ∀ (a b : List RIx), outShape (a ++ b) = outShape a ++ outShape b
  | [], b => rfl
  | x :: a, b => by simp [outShape, outShape_append a b]

/-- a source coordinate exists only for output coordinates of the right rank -/
theorem srcCoord_out_length : ∀ (rix : List RIx) (c' c : List Nat), srcCoord rix c' = some c →
    c'.length = (outShape rix).length
  | [], [], _, _ => rfl
  | [], _ :: _, _, h => by simp [srcCoord] at h
  | .fixed i :: r, c', c, h => by
    simp only [srcCoord, Option.map_eq_some_iff] at h
    obtain ⟨c0, h0, _⟩ := h
    simpa [outShape, RIx.outDim] using srcCoord_out_length r c' c0 h0
  | .range lo st len :: r, [], c, h => by simp [srcCoord] at h
  | .range lo st len :: r, k :: c', c, h => by
    simp only [srcCoord] at h
    split at h
    · simp only [Option.map_eq_some_iff] at h
      obtain ⟨c0, h0, _⟩ := h
      simp [outShape, RIx.outDim, srcCoord_out_length r c' c0 h0]
    · cases h
  | .newaxis :: r, [], c, h => by simp [srcCoord] at h
  | .newaxis :: r, k :: c', c, h => by
    simp only [srcCoord] at h
    split at h
    · simp [outShape, RIx.outDim, srcCoord_out_length r c' c h]
    · cases h
  | .pick l :: r, [], c, h => by simp [srcCoord] at h
  | .pick l :: r, k :: c', c, h => by
    simp only [srcCoord] at h
    split at h
    · simp only [Option.map_eq_some_iff] at h
      obtain ⟨c0, h0, _⟩ := h
      simp [outShape, RIx.outDim, srcCoord_out_length r c' c0 h0]
    · cases h

/-- the source coordinate has one component per consuming item -/
theorem srcCoord_length : ∀ (rix : List RIx) (c' c : List Nat), srcCoord rix c' = some c → c.length = nCons rix
  | [], [], c, h => by simp [srcCoord] at h; simp [h, nCons]
  | [], _ :: _, _, h => by simp [srcCoord] at h
  | .fixed i :: r, c', c, h => by
    simp only [srcCoord, Option.map_eq_some_iff] at h
    obtain ⟨c0, h0, rfl⟩ := h
    simp [nCons, RIx.consumes, srcCoord_length r c' c0 h0, Nat.add_comm]
  | .range lo st len :: r, [], c, h => by simp [srcCoord] at h
  | .range lo st len :: r, k :: c', c, h => by
    simp only [srcCoord] at h
    split at h
    · simp only [Option.map_eq_some_iff] at h
      obtain ⟨c0, h0, rfl⟩ := h
      simp [nCons, RIx.consumes, srcCoord_length r c' c0 h0, Nat.add_comm]
    · cases h
  | .newaxis :: r, [], c, h => by simp [srcCoord] at h
  | .newaxis :: r, k :: c', c, h => by
    simp only [srcCoord] at h
    split at h
    · simpa [nCons, RIx.consumes] using srcCoord_length r c' c h
    · cases h
  | .pick l :: r, [], c, h => by simp [srcCoord] at h
  | .pick l :: r, k :: c', c, h => by
    simp only [srcCoord] at h
    split at h
    · simp only [Option.map_eq_some_iff] at h
      obtain ⟨c0, h0, rfl⟩ := h
      simp [nCons, RIx.consumes, srcCoord_length r c' c0 h0, Nat.add_comm]
    · cases h

/-- the source coordinate of a valid index lies in the source shape -/
theorem srcCoord_inB : ∀ (rix : List RIx) (s : Shape) (c' c : List Nat), validIx rix s = true →
    srcCoord rix c' = some c → inB c s = true
  | [], [], [], c, _, h => by simp [srcCoord] at h; subst h; simp [inB]
  | [], [], _ :: _, c, _, h => by simp [srcCoord] at h
  | [], _ :: _, _, _, hv, _ => by simp [validIx] at hv
  | .newaxis :: r, s, [], c, _, h => by simp [srcCoord] at h
  | .newaxis :: r, s, k :: c', c, hv, h => by
    simp only [srcCoord] at h
    split at h
    · exact srcCoord_inB r s c' c (by simpa [validIx] using hv) h
    · cases h
  | .fixed i :: r, [], _, _, hv, _ => by simp [validIx] at hv
  | .fixed i :: r, n :: s, c', c, hv, h => by
    simp only [validIx, Bool.and_eq_true, decide_eq_true_eq] at hv
    simp only [srcCoord, Option.map_eq_some_iff] at h
    obtain ⟨c0, h0, rfl⟩ := h
    simp [inB, hv.1, srcCoord_inB r s c' c0 hv.2 h0]
  | .range lo st len :: r, [], _, _, hv, _ => by simp [validIx] at hv
  | .range lo st len :: r, n :: s, [], c, _, h => by simp [srcCoord] at h
  | .range lo st len :: r, n :: s, k :: c', c, hv, h => by
    simp only [validIx, Bool.and_eq_true, List.all_eq_true, List.mem_range, decide_eq_true_eq] at hv
    simp only [srcCoord] at h
    split at h
    · rename_i hk
      simp only [Option.map_eq_some_iff] at h
      obtain ⟨c0, h0, rfl⟩ := h
      simp [inB, (hv.1 k hk).2, srcCoord_inB r s c' c0 hv.2 h0]
    · cases h
  | .pick l :: r, [], _, _, hv, _ => by simp [validIx] at hv
  | .pick l :: r, n :: s, [], c, _, h => by simp [srcCoord] at h
  | .pick l :: r, n :: s, k :: c', c, hv, h => by
    simp only [validIx, Bool.and_eq_true, List.all_eq_true, decide_eq_true_eq] at hv
    simp only [srcCoord] at h
    split at h
    · rename_i i hi
      simp only [Option.map_eq_some_iff] at h
      obtain ⟨c0, h0, rfl⟩ := h
      have : i ∈ l := List.mem_of_getElem? hi
      simp [inB, hv.1 i this, srcCoord_inB r s c' c0 hv.2 h0]
    · cases h

/-- a source coordinate exists exactly for the coordinates of the result shape -/
theorem srcCoord_isSome : ∀ (rix : List RIx) (c' : List Nat),
    (srcCoord rix c').isSome = inB c' (outShape rix)
  | [], [] => by simp [srcCoord, outShape, inB]
  | [], _ :: _ => by simp [srcCoord, outShape, inB]
  | .fixed i :: r, c' => by
    simp [srcCoord, outShape, RIx.outDim, srcCoord_isSome r c']
  | .range lo st len :: r, [] => by simp [srcCoord, outShape, RIx.outDim, inB]
  | .range lo st len :: r, k :: c' => by
    simp only [srcCoord, outShape, RIx.outDim, List.singleton_append, inB]
    by_cases hk : k < len <;> simp [hk, srcCoord_isSome r c']
  | .newaxis :: r, [] => by simp [srcCoord, outShape, RIx.outDim, inB]
  | .newaxis :: r, k :: c' => by
    simp only [srcCoord, outShape, RIx.outDim, List.singleton_append, inB]
    by_cases hk : k = 0
    · simp [hk, srcCoord_isSome r c']
    · have : ¬ k < 1 := by omega
      simp [hk, this]
  | .pick l :: r, [] => by simp [srcCoord, outShape, RIx.outDim, inB]
  | .pick l :: r, k :: c' => by
    simp only [srcCoord, outShape, RIx.outDim, List.singleton_append, inB]
    by_cases hk : k < l.length
    · simp [hk, List.getElem?_eq_getElem hk, srcCoord_isSome r c']
    · have : l[k]? = none := by simpa using Nat.le_of_not_lt hk
      simp [hk, this]

/-- the source coordinate of a concatenated index: split the output coordinate after the dims the first part produces -/
theorem srcCoord_append : ∀ (a b : List RIx) (c' : List Nat),
    srcCoord (a ++ b) c' =
      (srcCoord a (c'.take (outShape a).length)).bind (fun ca =>
        (srcCoord b (c'.drop (outShape a).length)).map (ca ++ ·))
  | [], b, c' => by simp [srcCoord, outShape]
  | .fixed i :: a, b, c' => by
    simp only [List.cons_append, srcCoord, outShape, RIx.outDim, List.nil_append, srcCoord_append a b c']
    cases h1 : srcCoord a (List.take (outShape a).length c') <;>
      cases h2 : srcCoord b (List.drop (outShape a).length c') <;> simp [h1, h2]
  | .range lo st len :: a, b, [] => by simp [srcCoord, outShape, RIx.outDim]
  | .range lo st len :: a, b, k :: c' => by
    simp only [List.cons_append, srcCoord, outShape, RIx.outDim, List.singleton_append, List.length_cons,
      List.take_succ_cons, List.drop_succ_cons, srcCoord_append a b c']
    by_cases hk : k < len
    · simp only [hk, ↓reduceIte]
      cases h1 : srcCoord a (List.take (outShape a).length c') <;>
        cases h2 : srcCoord b (List.drop (outShape a).length c') <;> simp [h1, h2]
    · simp [hk]
  | .newaxis :: a, b, [] => by simp [srcCoord, outShape, RIx.outDim]
  | .newaxis :: a, b, k :: c' => by
    simp only [List.cons_append, srcCoord, outShape, RIx.outDim, List.singleton_append, List.length_cons,
      List.take_succ_cons, List.drop_succ_cons, srcCoord_append a b c']
    by_cases hk : k = 0 <;> simp [hk]
  | .pick l :: a, b, [] => by simp [srcCoord, outShape, RIx.outDim]
  | .pick l :: a, b, k :: c' => by
    simp only [List.cons_append, srcCoord, outShape, RIx.outDim, List.singleton_append, List.length_cons,
      List.take_succ_cons, List.drop_succ_cons, srcCoord_append a b c']
    cases l[k]? with
    | none => simp
    | some i =>
      simp only
      cases h1 : srcCoord a (List.take (outShape a).length c') <;>
        cases h2 : srcCoord b (List.drop (outShape a).length c') <;> simp [h1, h2]


theorem splitAt_spec : ∀ (rix : List RIx) (d : Nat) (b : List RIx) (x : RIx) (a : List RIx),
    splitAt rix d = some (b, x, a) → rix = b ++ x :: a ∧ x.consumes = true ∧ nCons b = d
  | [], d, b, x, a, h => by simp [splitAt] at h
  | y :: r, d, b, x, a, h => by
    simp only [splitAt] at h
    by_cases hy : y.consumes = true
    · simp only [hy, ↓reduceIte] at h
      cases d with
      | zero =>
        simp only [Option.some.injEq, Prod.mk.injEq] at h
        obtain ⟨rfl, rfl, rfl⟩ := h
        simp [hy, nCons]
      | succ d =>
        simp only [Option.map_eq_some_iff, Prod.mk.injEq, Prod.exists] at h
        obtain ⟨b0, x0, a0, h0, rfl, rfl, rfl⟩ := h
        obtain ⟨h1, h2, h3⟩ := splitAt_spec r d b0 x0 a0 h0
        simp [h1, h2, nCons, hy, h3, Nat.add_comm]
    · simp only [hy, Bool.false_eq_true, ↓reduceIte, Option.map_eq_some_iff, Prod.mk.injEq, Prod.exists] at h
      obtain ⟨b0, x0, a0, h0, rfl, rfl, rfl⟩ := h
      obtain ⟨h1, h2, h3⟩ := splitAt_spec r d b0 x0 a0 h0
      have hy' : y.consumes = false := by simpa using hy
      simp [h1, h2, nCons, hy', h3]

/-- SPEC: a consuming item fits a dim of size `n` -/
def validItem : RIx → Nat → Bool
  | .fixed i, n => decide (i < n)
  | .range lo st len, n => (List.range len).all (fun k => decide (0 ≤ lo + st * k) && decide (rangePos lo st k < n))
  | .pick l, n => l.all (fun i => decide (i < n))
  | .newaxis, _ => false

/-- validity of a split index: the middle item fits dim `d`, the rest fits the shape without dim `d` -/
theorem validIx_split : ∀ (b : List RIx) (x : RIx) (a : List RIx) (s : Shape),
    validIx (b ++ x :: a) s = true → x.consumes = true →
    ∃ n, s[nCons b]? = some n ∧ validItem x n = true ∧ validIx (b ++ a) (s.eraseIdx (nCons b)) = true
  | [], x, a, s, hv, hx => by
    cases x with
    | newaxis => simp [RIx.consumes] at hx
    | fixed i =>
      cases s with
      | nil => simp [validIx] at hv
      | cons n s =>
        simp only [List.nil_append, validIx, Bool.and_eq_true] at hv
        exact ⟨n, by simp [nCons], by simpa [validItem] using hv.1, by simpa [nCons] using hv.2⟩
    | range lo st len =>
      cases s with
      | nil => simp [validIx] at hv
      | cons n s =>
        simp only [List.nil_append, validIx, Bool.and_eq_true] at hv
        exact ⟨n, by simp [nCons], by simpa [validItem] using hv.1, by simpa [nCons] using hv.2⟩
    | pick l =>
      cases s with
      | nil => simp [validIx] at hv
      | cons n s =>
        simp only [List.nil_append, validIx, Bool.and_eq_true] at hv
        exact ⟨n, by simp [nCons], by simpa [validItem] using hv.1, by simpa [nCons] using hv.2⟩
  | y :: b, x, a, s, hv, hx => by
    cases y with
    | newaxis =>
      simp only [List.cons_append, validIx] at hv
      obtain ⟨n, h1, h2, h3⟩ := validIx_split b x a s hv hx
      exact ⟨n, by simpa [nCons, RIx.consumes] using h1, h2, by simpa [nCons, RIx.consumes, validIx] using h3⟩
    | fixed i =>
      cases s with
      | nil => simp [validIx] at hv
      | cons m s =>
        simp only [List.cons_append, validIx, Bool.and_eq_true] at hv
        obtain ⟨n, h1, h2, h3⟩ := validIx_split b x a s hv.2 hx
        refine ⟨n, ?_, h2, ?_⟩
        · have : 1 + nCons b = nCons b + 1 := Nat.add_comm _ _
          simpa [nCons, RIx.consumes, this] using h1
        · simp only [nCons, RIx.consumes, cond_true, Nat.add_comm 1, List.eraseIdx_cons_succ, List.cons_append, validIx,
            Bool.and_eq_true]
          exact ⟨hv.1, h3⟩
    | range lo st len =>
      cases s with
      | nil => simp [validIx] at hv
      | cons m s =>
        simp only [List.cons_append, validIx, Bool.and_eq_true] at hv
        obtain ⟨n, h1, h2, h3⟩ := validIx_split b x a s hv.2 hx
        refine ⟨n, ?_, h2, ?_⟩
        · have : 1 + nCons b = nCons b + 1 := Nat.add_comm _ _
          simpa [nCons, RIx.consumes, this] using h1
        · simp only [nCons, RIx.consumes, cond_true, Nat.add_comm 1, List.eraseIdx_cons_succ, List.cons_append, validIx,
            Bool.and_eq_true]
          exact ⟨hv.1, h3⟩
    | pick l =>
      cases s with
      | nil => simp [validIx] at hv
      | cons m s =>
        simp only [List.cons_append, validIx, Bool.and_eq_true] at hv
        obtain ⟨n, h1, h2, h3⟩ := validIx_split b x a s hv.2 hx
        refine ⟨n, ?_, h2, ?_⟩
        · have : 1 + nCons b = nCons b + 1 := Nat.add_comm _ _
          simpa [nCons, RIx.consumes, this] using h1
        · simp only [nCons, RIx.consumes, cond_true, Nat.add_comm 1, List.eraseIdx_cons_succ, List.cons_append, validIx,
            Bool.and_eq_true]
          exact ⟨hv.1, h3⟩

theorem mapM_except_ok {α β ε : Type} (f : α → Except ε β) : ∀ (l : List α) (l' : List β),
    l.mapM f = .ok l' → l'.length = l.length ∧ ∀ (k : Nat) (y : β), l'[k]? = some y → ∃ x, l[k]? = some x ∧ f x = .ok y
  | [], l', h => by
    simp only [List.mapM_nil, pure, Except.pure] at h
    injection h with h; subst h; simp
  | x :: l, l', h => by
    simp only [List.mapM_cons, bind, Except.bind] at h
    cases hx : f x with
    | error e => simp [hx] at h
    | ok y =>
      simp only [hx] at h
      cases hl : l.mapM f with
      | error e => simp [hl] at h
      | ok ys =>
        simp only [hl, pure, Except.pure] at h
        injection h with h; subst h
        obtain ⟨h1, h2⟩ := mapM_except_ok f l ys hl
        refine ⟨by simp [h1], ?_⟩
        intro k y' hk
        cases k with
        | zero => simp at hk; subst hk; exact ⟨x, by simp, hx⟩
        | succ k => simpa using h2 k y' (by simpa using hk)

theorem mapM_option_all {α β : Type} (p : α → Bool) (g : α → β) : ∀ (l : List α),
    l.all p = true → l.mapM (fun x => if p x = true then some (g x) else none) = some (l.map g)
  | [], _ => by simp
  | x :: l, h => by
    simp only [List.all_cons, Bool.and_eq_true] at h
    simp [List.mapM_cons, h.1, mapM_option_all p g l h.2]

theorem selectPositions_valid (n : Nat) (x : RIx) (h : validItem x n = true) :
    selectPositions n x = some (match x with
      | .fixed i => [i]
      | .range lo st len => (List.range len).map (rangePos lo st)
      | .pick l => l
      | .newaxis => []) := by
  cases x with
  | fixed i => simpa [selectPositions, validItem] using h
  | newaxis => simp [validItem] at h
  | range lo st len =>
    simp only [validItem] at h
    have h' : (List.range len).all (fun k => decide (rangePos lo st k < n)) = true := by
      rw [List.all_eq_true] at h ⊢
      intro k hk
      have := h k hk
      simp only [Bool.and_eq_true, decide_eq_true_eq] at this
      simpa using this.2
    have := mapM_option_all (fun k => decide (rangePos lo st k < n)) (rangePos lo st) (List.range len) h'
    simpa [selectPositions] using this
  | pick l =>
    simp only [validItem] at h
    have := mapM_option_all (fun i => decide (i < n)) (fun i => i) l h
    simpa [selectPositions] using this


end NT
end TdVerif.C16
