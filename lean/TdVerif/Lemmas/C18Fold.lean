/-
  Generic lemma for the loops produced by harness/py2lean.py:
  `for i in range(len(xs)): body(i, xs[i])` is translated to
  `(List.range xs.length).foldlM (fun st i => g st i (xs.getD i 0)) init`; this file turns that into a
  structural recursion over `xs` carrying the index of the head (`scanM`).
-/
namespace TdVerif.Fold

/-- the loop as a structural recursion: `g` sees the state, the index and the element -/
def scanM {σ : Type} (g : σ → Nat → Int → Except String σ) : List Int → Nat → σ → Except String σ
  | [], _, st => .ok st
  | x :: xs, i, st => g st i x >>= scanM g xs (i + 1)

theorem foldlM_range'_eq_scanM {σ : Type} (g : σ → Nat → Int → Except String σ) (f : Nat → Int) :
    ∀ (suf : List Int) (k : Nat) (st : σ), (∀ j (h : j < suf.length), f (k + j) = suf[j]) →
      (List.range' k suf.length).foldlM (m := Except String) (fun st i => g st i (f i)) st = scanM g suf k st
  | [], k, st, _ => by simp [scanM]; rfl
  | x :: xs, k, st, h => by
    have h0 : f k = x := by have := h 0 (by simp); simpa using this
    have ih := fun st' => foldlM_range'_eq_scanM g f xs (k + 1) st' (by
      intro j hj
      have := h (j + 1) (by simpa using hj)
      simpa [Nat.add_assoc, Nat.add_comm 1 j] using this)
    simp only [List.length_cons, List.range'_succ, List.foldlM_cons, scanM, h0]
    congr 1
    funext st'
    exact ih st'

/-- the form py2lean emits -/
theorem foldlM_range_getD {σ : Type} (g : σ → Nat → Int → Except String σ) (l : List Int) (st : σ) :
    (List.range l.length).foldlM (m := Except String) (fun st i => g st i (l.getD i 0)) st = scanM g l 0 st := by
  rw [List.range_eq_range']
  exact foldlM_range'_eq_scanM g (fun i => l.getD i 0) l 0 st (by
    intro j hj; simp [List.getD, List.getElem?_eq_getElem hj])

end TdVerif.Fold
