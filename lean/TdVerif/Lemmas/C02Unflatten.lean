/-
  C02: lemmas for the whole-tree `unflatten` theorem (Props/C02 `unflatten_coherent_all`): the names setter accepts the names
  `unflatten` builds, the batch arithmetic on natural sizes, its inversion.
-/
import TdVerif.Lemmas.C02Tree

namespace TdVerif.C02
variable {α : Type}

theorem eraseDups_of_nodup {β : Type} [BEq β] [LawfulBEq β] : ∀ (l : List β), l.Nodup → l.eraseDups = l
  | [], _ => by simp
  | a :: as, h => by
    rw [List.nodup_cons] at h
    rw [List.eraseDups_cons]
    have : as.filter (fun b => !b == a) = as := by
      apply List.filter_eq_self.2
      intro b hb
      have : b ≠ a := fun e => h.1 (e ▸ hb)
      simpa using this
    rw [this, eraseDups_of_nodup as h.2]

theorem namesSetter_unflatten (l : List (Option String)) (n d k : Nat) (h : NamesOK (some l) n) (hd : d < n) (hk : 1 ≤ k) :
    ∃ nm, namesSetter (l.take d ++ List.replicate (k - 1) none ++ l.drop d) (n + k - 1) = .ok nm := by
  obtain ⟨hl, hnd⟩ := h
  unfold namesSetter
  have hf : ((l.take d ++ List.replicate (k - 1) none ++ l.drop d).filter (· != none)) = l.filter (· != none) := by
    simp only [List.filter_append]
    have : (List.replicate (k - 1) (none : Option String)).filter (· != none) = [] := by
      simp [List.filter_replicate]
    rw [this, List.append_nil, ← List.filter_append, List.take_append_drop]
  rw [hf, eraseDups_of_nodup _ hnd]
  have hlen : (l.take d ++ List.replicate (k - 1) none ++ l.drop d).length = n + k - 1 := by
    simp; omega
  split
  · exact ⟨_, rfl⟩
  · simp only [ne_eq, not_true_eq_false, if_false, hlen]
    exact ⟨_, rfl⟩
theorem unflattenMeta_nats (d : Nat) (sz bs : Shape) (names : Names) (hd : d < bs.length) :
    unflattenMeta (d : Int) (natsToInts sz) bs names =
      .ok (some (bs.take d ++ sz ++ bs.drop (d + 1),
        names.map (fun l => l.take d ++ List.replicate (sz.length - 1) none ++ l.drop d), .unflatten d (natsToInts sz))) := by
  unfold unflattenMeta maybeCorrectNegDim
  have h1 : ¬ ((d : Int) < 0) := by omega
  have h2 : ¬ ((d : Int) < 0 ∨ (d : Int) ≥ (bs.length : Nat)) := by omega
  have h3 : (natsToInts sz).any (· < 0) = false := by
    simp [natsToInts]
  have h4 : (natsToInts sz).map Int.toNat = sz := by
    simp [natsToInts, Function.comp_def]
  simp only [h1, h2, if_false, bind, Except.bind, h3, Bool.false_eq_true, pure, Except.pure, Int.toNat_natCast, h4]
  have h5 : ¬ (bs.length ≤ d) := by omega
  simp [natsToInts, h5]

theorem unflat_prefix (bs ext sz : Shape) (d : Nat) (hd : d < bs.length) :
    ((bs ++ ext).take d ++ sz ++ (bs ++ ext).drop (d + 1)).take (bs.take d ++ sz ++ bs.drop (d + 1)).length
      = bs.take d ++ sz ++ bs.drop (d + 1) := by
  have h1 : (bs ++ ext).take d = bs.take d := by rw [List.take_append_of_le_length (by omega)]
  have h2 : (bs ++ ext).drop (d + 1) = bs.drop (d + 1) ++ ext := by rw [List.drop_append_of_le_length (by omega)]
  rw [h1, h2, ← List.append_assoc]
  exact List.take_left' rfl

theorem maybeCorrectNegDim_lt (d : Int) (n nd : Nat) (h : maybeCorrectNegDim d n = .ok nd) : nd < n := by
  unfold maybeCorrectNegDim at h
  by_cases hd : d < 0
  · simp only [hd, if_true] at h
    split at h
    · simp at h
    · simp only [Except.ok.injEq] at h; omega
  · simp only [hd, if_false] at h
    split at h
    · simp at h
    · simp only [Except.ok.injEq] at h; omega

theorem unflattenMeta_inv (d : Int) (sizes : List Int) (bs bs' : Shape) (names nm' : Names) (call : LeafCall)
    (h : unflattenMeta d sizes bs names = .ok (some (bs', nm', call))) :
    ∃ nd szI, maybeCorrectNegDim d bs.length = .ok nd ∧ call = .unflatten nd szI ∧
      bs' = bs.take nd ++ szI.map Int.toNat ++ bs.drop (nd + 1) ∧
      nm' = names.map (fun l => l.take nd ++ List.replicate (szI.length - 1) none ++ l.drop nd) := by
  unfold unflattenMeta at h
  cases hnd : maybeCorrectNegDim d bs.length with
  | error e => simp [hnd, bind, Except.bind] at h
  | ok nd =>
    simp only [hnd, bind, Except.bind] at h
    by_cases hneg : sizes.any (· < 0) = true
    · rw [if_pos hneg] at h
      cases hi : inferSizeImpl sizes (bs.getD nd 0) with
      | error e => rw [hi] at h; simp [Except.map] at h
      | ok v =>
        rw [hi] at h
        simp only [Except.map, pure, Except.pure, Except.ok.injEq, Option.some.injEq, Prod.mk.injEq] at h
        exact ⟨nd, _, rfl, h.2.2.symm, h.1.symm, h.2.1.symm⟩
    · rw [if_neg hneg] at h
      simp only [pure, Except.pure, Except.ok.injEq, Option.some.injEq, Prod.mk.injEq] at h
      exact ⟨nd, _, rfl, h.2.2.symm, h.1.symm, h.2.1.symm⟩

/-! ### list facts for the whole-tree split / repeat / repeat_interleave theorems -/

theorem set_take_prefix (l b : List Nat) (d v : Nat) (h : l.take b.length = b) (hd : d < b.length) :
    (l.set d v).take (b.set d v).length = b.set d v := by
  rw [List.length_set, List.take_set, h]

theorem set_append_left (b ext : List Nat) (d v : Nat) (hd : d < b.length) : (b ++ ext).set d v = b.set d v ++ ext := by
  rw [List.set_append_left _ _ hd]

theorem zipWith_mul_append_ones (bs ext r : List Nat) (h : r.length = bs.length) :
    List.zipWith (· * ·) (bs ++ ext) (r ++ List.replicate ext.length 1) = List.zipWith (· * ·) bs r ++ ext := by
  rw [List.zipWith_append (by omega)]
  congr 1
  induction ext with
  | nil => simp
  | cons a t ih => simp [List.replicate_succ, ih]

theorem modify_append_left' (bs ext : List Nat) (d : Nat) (f : Nat → Nat) (hd : d < bs.length) :
    (bs ++ ext).modify d f = bs.modify d f ++ ext := by
  induction bs generalizing d with
  | nil => simp at hd
  | cons a t ih =>
    cases d with
    | zero => simp
    | succ d => simp at hd; simp [ih d (by omega)]


theorem cols_row_coherent (bs' : Shape) (n i : Nat) : ∀ (cols : List (String × List (TD α))), ColsOK bs' n cols →
    CoherentList bs' (cols.filterMap fun (k, l) => l[i]?.map (fun e => (k, e)))
  | [], _ => by simp [CoherentList]
  | (k, l) :: rest, h => by
    have hrest : ColsOK bs' n rest := fun c hc => h c (List.mem_cons_of_mem _ hc)
    have ih := cols_row_coherent bs' n i rest hrest
    simp only [List.filterMap_cons]
    cases hi : l[i]? with
    | none => simpa using ih
    | some e =>
      have hmem : e ∈ l := List.mem_of_getElem? hi
      have := (h (k, l) (by simp)).2 e hmem
      simp only [Option.map, CoherentList]
      exact ⟨this.1, this.2, ih⟩

theorem eraseIdx_prefix (bs ext : Shape) (d : Nat) (hd : d < bs.length) :
    ((bs ++ ext).eraseIdx d).take (bs.eraseIdx d).length = bs.eraseIdx d := by
  rw [List.eraseIdx_append_of_lt_length hd]
  exact List.take_left' rfl


theorem inferSizeImpl_neg1 (n : Nat) : inferSizeImpl [-1] n = .ok [n] := by
  simp [inferSizeImpl, inferLoop, bind, Except.bind, pure, Except.pure]
  intro _; exact Nat.mod_one n


end TdVerif.C02
