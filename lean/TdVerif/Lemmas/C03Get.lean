/-
  C03 lemmas, part 5: `__getitem__` / `_index_tensordict` as a whole.
-/
import TdVerif.Lemmas.C03Leaf

namespace TdVerif.C03
open TorchSpec Td

/-- pointwise relation between two lists of the same length -/
inductive Forall2 {α β : Type} (R : α → β → Prop) : List α → List β → Prop
  | nil : Forall2 R [] []
  | cons {a b l₁ l₂} : R a b → Forall2 R l₁ l₂ → Forall2 R (a :: l₁) (b :: l₂)

theorem Forall2.length_eq {α β : Type} {R : α → β → Prop} {l₁ : List α} {l₂ : List β} (h : Forall2 R l₁ l₂) :
    l₁.length = l₂.length := by
  induction h with
  | nil => rfl
  | cons _ _ ih => simp [ih]

theorem mapM_ok_forall₂ {α β : Type} {f : α → Except Err β} {Q : α → β → Prop} :
    ∀ (l : List α), (∀ a ∈ l, ∃ b, f a = .ok b ∧ Q a b) → ∃ bs, l.mapM f = .ok bs ∧ Forall2 Q l bs := by
  intro l
  induction l with
  | nil => intro _; exact ⟨[], by simp [pure, Except.pure], Forall2.nil⟩
  | cons a r ih =>
    intro h
    obtain ⟨b, hb, hq⟩ := h a (by simp)
    obtain ⟨bs, hbs, hf⟩ := ih (fun x hx => h x (by simp [hx]))
    refine ⟨b :: bs, ?_, Forall2.cons hq hf⟩
    simp [List.mapM_cons, hb, hbs, bind, Except.bind, pure, Except.pure]

/-- what a correct leaf result is, given torch's result `R` on the batch shape: shape extended by the feature dims,
    same aliasing, coordinate map acting on the batch coordinates only -/
def LeafOk (R : IndexResult) (feat : Shape) (R' : IndexResult) : Prop :=
  R'.shape = R.shape ++ feat ∧ R'.view = R.view ∧
    ∀ c f, c.length = R.shape.length → f.length = feat.length → R'.src (c ++ f) = R.src c ++ f

/-- what a correct `td[idx]` is, given torch's result `R` for `idx` on a tensor of the batch shape -/
def GoodRes (td : TD) (R : IndexResult) : GetRes → Prop
  | .self => R.shape = td.bs ∧ R.view = true ∧ ∀ c, c.length = td.bs.length → R.src c = c
  | .new bs _ leaves nested =>
    bs = R.shape ∧ Forall2 (LeafOk R) td.leaves leaves ∧
      Forall2 (fun (nd : Nested) (r : Shape × List IndexResult) =>
        r.1 = R.shape ++ nd.extra ∧ Forall2 (fun feat R' => LeafOk R (nd.extra ++ feat) R') nd.leaves r.2) td.nested nested

theorem indexNdim_eq_specified (items : List Ix) : indexNdim items = specified items := by
  induction items with
  | nil => rfl
  | cons x r ih => cases x <;> simp [indexNdim, specified, ih]

/-- on a rank-0 tensor torch accepts only `None`s -/
theorem all_none_of_walk_nil (items : List Ix) : ∀ (e : Nat) (P : List Piece), noEll items = true →
    walk e [] items = .ok P → items.all (· = Ix.none) = true := by
  induction items with
  | nil => intro _ _ _ _; rfl
  | cons x r ih =>
    intro e P hn h
    simp only [noEll_cons, Bool.and_eq_true] at hn
    cases x with
    | ell => simp at hn
    | none =>
      simp only [walk] at h
      obtain ⟨P', h1, -⟩ := map_ok h
      simpa using ih e P' hn.2 h1
    | mask s d =>
      simp only [walk] at h
      split at h
      · rename_i hs; exfalso; apply hs.1; simpa using hs.2.symm
      · cases h
    | int i => simp [walk] at h
    | slice a b c => simp [walk] at h
    | list l => simp [walk] at h
    | range a b c => simp [walk] at h
    | tensor s d => simp [walk] at h

theorem checkInvalidIndex_ok (bs extra : Shape) (items : List Ix) (e : Nat) (P : List Piece)
    (hn : noEll items = true) (hne : items ≠ []) (hw : walk e bs items = .ok P) :
    checkInvalidIndex (bs ++ extra) (.tuple items) = .ok () := by
  unfold checkInvalidIndex
  by_cases hb : bs ++ extra = []
  · have hb' : bs = [] := by cases bs <;> simp_all
    subst hb'
    have hall := all_none_of_walk_nil items e P hn hw
    simp only [hb, ne_eq, not_true_eq_false, if_false]
    match items, hall, hne with
    | [x], hall, _ =>
      have : x = Ix.none := by simpa using hall
      subst this; rfl
    | x :: y :: r, hall, _ => simp [hall]
  · simp [hb]

end TdVerif.C03

namespace TdVerif.C03
open TorchSpec Td

theorem index_inv {dims : Shape} {items : List Ix} {R : IndexResult} (h : index dims items = .ok R) :
    specified items ≤ dims.length ∧
    ∃ P, walk (dims.length - specified items) dims items = .ok P ∧ finalize P = .ok R := by
  unfold index plan at h
  split at h
  · cases h
  · rename_i P hP
    split at hP
    · cases hP
    · exact ⟨by omega, P, hP, h⟩

theorem leaf_commutes (bs feat : Shape) (items : List Ix) (R : IndexResult)
    (hn : noEll items = true) (h : index bs items = .ok R) :
    ∃ R', index (bs ++ feat) items = .ok R' ∧ LeafOk R feat R' := by
  obtain ⟨hs, P, hw, hf⟩ := index_inv h
  obtain ⟨R', h1, h2, h3, h4⟩ := finalize_append_feat P feat R hf
  refine ⟨R', ?_, h2, h3, h4⟩
  have hw' := walk_append_feat items _ ((bs ++ feat).length - specified items) bs feat P hn hw
  have : ¬ specified items > (bs ++ feat).length := by simp; omega
  simp only [index, plan]
  rw [if_neg this, hw']
  exact h1

/-- `_index_tensordict`, given that its index check and its batch-size helper behave -/
theorem indexTensordict_ok_gen (td : TD) (idx : PyIndex) (R : IndexResult)
    (hn : noEll idx.items = true) (hnm : ∃ nm, namesIdx td.names td.bs.length idx = .ok nm)
    (hc : ∀ extra, checkInvalidIndex (td.bs ++ extra) idx = .ok ())
    (hb : getitemBatchSize td.bs idx = .ok R.shape)
    (h : index td.bs idx.items = .ok R) :
    ∃ res, indexTensordict td idx = .ok res ∧ GoodRes td R res := by
  have h1 : checkInvalidIndex td.bs idx = .ok () := by simpa using hc []
  obtain ⟨nm, h3⟩ := hnm
  obtain ⟨leaves, hl, hlq⟩ := mapM_ok_forall₂ (f := fun feat => leafGet (td.bs ++ feat) idx)
    (Q := fun feat R' => LeafOk R feat R') td.leaves
    (fun feat _ => by simpa [leafGet] using leaf_commutes td.bs feat idx.items R hn h)
  obtain ⟨nested, hnd, hnq⟩ := mapM_ok_forall₂
    (f := fun (nd : Nested) => (do
      checkInvalidIndex (td.bs ++ nd.extra) idx
      let ls ← nd.leaves.mapM (fun feat => leafGet (td.bs ++ nd.extra ++ feat) idx)
      pure (R.shape ++ nd.extra, ls) : Except Err (Shape × List IndexResult)))
    (Q := fun (nd : Nested) (r : Shape × List IndexResult) =>
        r.1 = R.shape ++ nd.extra ∧ Forall2 (fun feat R' => LeafOk R (nd.extra ++ feat) R') nd.leaves r.2) td.nested
    (fun nd _ => by
      obtain ⟨ls, hls, hlsq⟩ := mapM_ok_forall₂ (f := fun feat => leafGet (td.bs ++ nd.extra ++ feat) idx)
        (Q := fun feat R' => LeafOk R (nd.extra ++ feat) R') nd.leaves
        (fun feat _ => by
          have := leaf_commutes td.bs (nd.extra ++ feat) idx.items R hn h
          simpa [leafGet, List.append_assoc] using this)
      exact ⟨(R.shape ++ nd.extra, ls), by simp only [hc nd.extra, hls, bind, Except.bind, pure, Except.pure], rfl, hlsq⟩)
  refine ⟨.new R.shape nm leaves nested, ?_, rfl, hlq, hnq⟩
  simp only [indexTensordict, h1, hb, h3, hl, bind, Except.bind, pure, Except.pure]
  simp only [bind, Except.bind, pure, Except.pure] at hnd
  rw [hnd]

/-- `_index_tensordict` on an Ellipsis-free tuple that torch accepts on the batch shape (no dim names) -/
theorem indexTensordict_ok (td : TD) (items : List Ix) (R : IndexResult)
    (hn : noEll items = true) (hne : items ≠ []) (hnm : ∃ nm, namesIdx td.names td.bs.length (.tuple items) = .ok nm)
    (h : index td.bs items = .ok R) :
    ∃ res, indexTensordict td (.tuple items) = .ok res ∧ GoodRes td R res := by
  obtain ⟨hs, P, hw, hf⟩ := index_inv h
  exact indexTensordict_ok_gen td (.tuple items) R hn hnm
    (fun extra => checkInvalidIndex_ok td.bs extra items _ P hn hne hw)
    (getitemBatchSize_tuple td.bs items _ P R hn hw hf) h

/-- torch's result for a lone int: the first dim is selected away -/
theorem index_int_shape (bs : Shape) (i : Int) (R : IndexResult) (h : index bs [Ix.int i] = .ok R) :
    bs ≠ [] ∧ R.shape = bs.drop 1 := by
  obtain ⟨hs, P, hw, hf⟩ := index_inv h
  cases bs with
  | nil => simp [specified] at hs
  | cons n ds =>
    refine ⟨by simp, ?_⟩
    simp only [walk] at hw
    obtain ⟨P', h1, rfl, -⟩ := consSel_ok hw
    simp [walk] at h1; subst h1
    obtain ⟨B, hB, hshape, -, -⟩ := finalize_ok hf
    simp [advShapes, broadcastAll] at hB
    subst hB
    simp [hshape, outShape, kinds, kinds_map_full, outDims]

/-- `td[i]` with a bare int -/
theorem indexTensordict_int_ok (td : TD) (i : Int) (R : IndexResult)
    (hnm : ∃ nm, namesIdx td.names td.bs.length (.single (.int i)) = .ok nm)
    (h : index td.bs [Ix.int i] = .ok R) :
    ∃ res, indexTensordict td (.single (.int i)) = .ok res ∧ GoodRes td R res := by
  obtain ⟨hne, hshape⟩ := index_int_shape td.bs i R h
  refine indexTensordict_ok_gen td (.single (.int i)) R (by simp [PyIndex.items]) hnm ?_ ?_ h
  · intro extra
    have : td.bs ++ extra ≠ [] := by cases hb : td.bs <;> simp_all
    simp [checkInvalidIndex, this]
  · simp [getitemBatchSize, hshape]

/-- the plan "keep every dim whole" is the identity view -/
theorem finalize_fulls (bs : Shape) (R : IndexResult) (hf : finalize (bs.map Piece.full) = .ok R) :
    R.shape = bs ∧ R.view = true ∧ ∀ c, c.length = bs.length → R.src c = c := by
  obtain ⟨B, hB, hshape, hsrc, hview⟩ := finalize_ok hf
  simp only [advShapes_map_full, broadcastAll] at hB
  cases hB
  refine ⟨?_, by simp [hview], ?_⟩
  · simp [hshape, outShape, kinds_map_full]
  · intro c hc
    rw [hsrc, srcCoord_noAdv _ _ (by simp [hasAdv])]
    exact walkSrc_fulls [] bs c hc

/-- an index made of `:` only selects everything, as a view -/
theorem index_all_full (bs : Shape) (items : List Ix) (R : IndexResult)
    (hall : items.all (· = slAll) = true) (h : index bs items = .ok R) :
    R.shape = bs ∧ R.view = true ∧ ∀ c, c.length = bs.length → R.src c = c := by
  have hrep : items = List.replicate items.length slAll := by
    rw [List.eq_replicate_iff]; exact ⟨rfl, by simpa using hall⟩
  obtain ⟨hs, P, hw, hf⟩ := index_inv h
  have hk : items.length ≤ bs.length := by
    have : specified items = items.length := by
      rw [hrep]; generalize items.length = k
      induction k with
      | zero => rfl
      | succ k ih => simp [List.replicate_succ, specified, slAll] at ih ⊢; omega
    omega
  have hP : P = bs.map Piece.full := by
    rw [hrep] at hw
    have := walk_replicate items.length (bs.length - specified (List.replicate items.length slAll)) bs [] hk
    simp only [List.append_nil] at this
    rw [this] at hw
    simp only [walk, Except.map] at hw
    cases hw
    rw [← List.map_append, List.take_append_drop]
  subst hP
  exact finalize_fulls bs R hf

/-- `x[...]` is the identity view -/
theorem index_ell_identity (bs : Shape) (R : IndexResult) (h : index bs [Ix.ell] = .ok R) :
    R.shape = bs ∧ R.view = true ∧ ∀ c, c.length = bs.length → R.src c = c := by
  obtain ⟨hs, P, hw, hf⟩ := index_inv h
  have hP : P = bs.map Piece.full := by
    simp [specified, walk, Except.map] at hw
    exact hw.symm
  subst hP
  exact finalize_fulls bs R hf

/-- the part of `__getitem__` after the Ellipsis conversion, on an index torch accepts on the batch shape -/
theorem getitemTail_ok' (td : TD) (items : List Ix) (R : IndexResult)
    (hn : noEll items = true) (hnm : ∃ nm, namesIdx td.names td.bs.length (.tuple items) = .ok nm)
    (h : index td.bs items = .ok R) :
    ∃ res, getitemTail td (.tuple items) = .ok res ∧ GoodRes td R res := by
  obtain ⟨hs, -⟩ := index_inv h
  have hc : checkIndexNdim (.tuple items) td.bs.length = .ok () := by
    simp [checkIndexNdim, PyIndex.items, indexNdim_eq_specified]; omega
  simp only [getitemTail, hc, PyIndex.items]
  by_cases hall : items.all (· = slAll) = true
  · simp only [hall, if_true]
    exact ⟨.self, rfl, index_all_full td.bs items R hall h⟩
  · simp only [hall, Bool.false_eq_true, if_false]
    have hne : items ≠ [] := by intro h0; subst h0; exact hall rfl
    exact indexTensordict_ok td items R hn hne hnm h

theorem getitemTail_ok (td : TD) (items : List Ix) (R : IndexResult)
    (hn : noEll items = true) (hnames : td.names = none)
    (h : index td.bs items = .ok R) :
    ∃ res, getitemTail td (.tuple items) = .ok res ∧ GoodRes td R res :=
  getitemTail_ok' td items R hn ⟨none, by simp [namesIdx, hnames]⟩ h

end TdVerif.C03

namespace TdVerif.C03
open TorchSpec Td

theorem mapM_ok_mem {α β : Type} {f : α → Except Err β} : ∀ (l : List α) (bs : List β),
    l.mapM f = .ok bs → ∀ a ∈ l, ∃ b, f a = .ok b := by
  intro l
  induction l with
  | nil => intro _ _ a ha; simp at ha
  | cons x r ih =>
    intro bs h a ha
    simp only [List.mapM_cons, bind, Except.bind] at h
    cases hx : f x with
    | error e => simp [hx] at h
    | ok b =>
      simp only [hx] at h
      cases hr : r.mapM f with
      | error e => simp [hr] at h
      | ok bs' =>
        rcases List.mem_cons.mp ha with rfl | ha'
        · exact ⟨b, hx⟩
        · exact ih bs' hr a ha'

theorem hasZero_fulls (bs : Shape) : hasZeroIndexedDim (bs.map Piece.full) = false := by
  induction bs with
  | nil => rfl
  | cons n r ih => simpa [hasZeroIndexedDim, Piece.full] using ih

theorem advInRange_fulls (bs : Shape) : advInRange (bs.map Piece.full) = true := by
  induction bs with
  | nil => rfl
  | cons n r ih => simpa [advInRange, Piece.full] using ih

theorem finalize_fulls_ok (bs : Shape) : ∃ R, finalize (bs.map Piece.full) = .ok R := by
  simp [finalize, broadcastAll, hasZero_fulls, advInRange_fulls]

theorem specified_replicate_slAll (k : Nat) : specified (List.replicate k slAll) = k := by
  induction k with
  | zero => rfl
  | succ k ih => simp [List.replicate_succ, specified, slAll] at ih ⊢; omega

/-- torch accepts an all-`:` index that is not longer than the rank -/
theorem index_all_full_ok (bs : Shape) (items : List Ix) (hall : items.all (· = slAll) = true)
    (hs : specified items ≤ bs.length) : ∃ R, index bs items = .ok R := by
  have hrep : items = List.replicate items.length slAll := by
    rw [List.eq_replicate_iff]; exact ⟨rfl, by simpa using hall⟩
  have hk : items.length ≤ bs.length := by
    rw [hrep, specified_replicate_slAll] at hs; exact hs
  obtain ⟨R, hR⟩ := finalize_fulls_ok bs
  refine ⟨R, ?_⟩
  have hw := walk_replicate items.length (bs.length - specified items) bs [] hk
  simp only [List.append_nil, walk, Except.map, ← List.map_append, List.take_append_drop] at hw
  rw [← hrep] at hw
  have : ¬ specified items > bs.length := by omega
  simp only [index, plan, if_neg this, hw, hR]

/-- if `_index_tensordict` succeeds, torch accepted the index on every leaf -/
theorem indexTensordict_ok_inv (td : TD) (idx : PyIndex) (res : GetRes) (h : indexTensordict td idx = .ok res) :
    ∀ feat ∈ td.leaves, ∃ R', index (td.bs ++ feat) idx.items = .ok R' := by
  intro feat hf
  simp only [indexTensordict, bind, Except.bind] at h
  split at h
  · cases h
  · split at h
    · cases h
    · split at h
      · cases h
      · split at h
        · cases h
        · rename_i leaves hl
          obtain ⟨R', hR'⟩ := mapM_ok_mem td.leaves leaves hl feat hf
          exact ⟨R', by simpa [leafGet] using hR'⟩

theorem checkIndexNdim_ok_iff (items : List Ix) (n : Nat) :
    checkIndexNdim (.tuple items) n = .ok () ↔ specified items ≤ n := by
  simp only [checkIndexNdim, PyIndex.items, indexNdim_eq_specified]
  constructor
  · intro h; split at h
    · cases h
    · omega
  · intro h; rw [if_neg (by omega)]

/-- the end of `__getitem__` accepts only what torch accepts on the batch shape, provided one entry has exactly the
    batch shape -/
theorem getitemTail_ok_inv (td : TD) (items : List Ix) (res : GetRes) (hstrict : [] ∈ td.leaves)
    (h : getitemTail td (.tuple items) = .ok res) : ∃ R, index td.bs items = .ok R := by
  unfold getitemTail at h
  cases hc : checkIndexNdim (.tuple items) td.bs.length with
  | error e => simp [hc] at h
  | ok u =>
    have hs := (checkIndexNdim_ok_iff items td.bs.length).mp hc
    by_cases hall : items.all (· = slAll) = true
    · exact index_all_full_ok td.bs items hall hs
    · simp only [hc, PyIndex.items, hall, Bool.false_eq_true, if_false] at h
      obtain ⟨R', hR'⟩ := indexTensordict_ok_inv td (.tuple items) res h [] hstrict
      exact ⟨R', by simpa [PyIndex.items] using hR'⟩

end TdVerif.C03

namespace TdVerif.C03
open TorchSpec Td

/-- torch treats an Ellipsis exactly as the full slices `convert_ellipsis_to_idx` writes out -/
theorem index_ell_convert (bs : Shape) (pre post : List Ix) (hpre : noEll pre = true) (hpost : noEll post = true)
    (hs : specified pre + specified post ≤ bs.length) :
    index bs (pre ++ Ix.ell :: post) =
      index bs (pre ++ List.replicate (bs.length - specified pre - specified post) slAll ++ post) := by
  have hsp : specified (pre ++ List.replicate (bs.length - specified pre - specified post) slAll ++ post) = bs.length := by
    simp only [specified_append, specified_replicate_slAll]; omega
  have h1 : ¬ specified (pre ++ Ix.ell :: post) > bs.length := by rw [specified_ell]; omega
  have h2 : ¬ specified (pre ++ List.replicate (bs.length - specified pre - specified post) slAll ++ post) > bs.length := by omega
  simp only [index, plan, if_neg h1, if_neg h2, hsp, Nat.sub_self, specified_ell]
  rw [walk_ell_convert pre post (bs.length - (specified pre + specified post)) 0 bs hpre hpost (by omega), Nat.sub_sub]
  have e1 : ¬ specified pre + specified post > bs.length := by omega
  have e2 : ¬ bs.length > bs.length := by omega
  rw [if_neg e1, if_neg e2]

/-- `convert_ellipsis_to_idx` refuses an index that addresses more dims than the batch has -/
theorem convertEllipsis_too_many (pre post : List Ix) (n : Nat)
    (hpre : noEll pre = true) (hpost : noEll post = true) (hs : n < specified pre + specified post) :
    convertEllipsis (.tuple (pre ++ Ix.ell :: post)) n = .error .runtime := by
  have g1 := extra_nones_eq pre hpre
  have g2 := extra_nones_eq post hpost
  have hc1 := count_ell_of_noEll pre hpre
  have hc2 := count_ell_of_noEll post hpost
  have hne : (pre ++ Ix.ell :: post).all (· != Ix.ell) = false := by simp
  have hcnt : (pre ++ Ix.ell :: post).count Ix.ell = 1 := by simp [List.count_append, hc1, hc2]
  have hnones : (pre ++ Ix.ell :: post).count Ix.none = pre.count Ix.none + post.count Ix.none := by
    simp [List.count_append, List.count_cons]
  have hlen : (pre ++ Ix.ell :: post).length = pre.length + post.length + 1 := by simp; omega
  have hextra : ((pre ++ Ix.ell :: post).map maskExtra).sum = (pre.map maskExtra).sum + (post.map maskExtra).sum := by
    simp [List.sum_append, maskExtra]
  simp only [convertEllipsis, hne, PyIndex.items, hcnt, hnones, hlen, hextra]
  have hlt : ((n : Int) < ((pre.length + post.length + 1 : Nat) : Int) - (1 : Nat) - ((pre.count Ix.none + post.count Ix.none : Nat) : Int)
      + ((pre.map maskExtra).sum + (post.map maskExtra).sum)) := by
    push_cast; omega
  simp only [Bool.false_eq_true, if_false, hlt, if_true]

end TdVerif.C03
