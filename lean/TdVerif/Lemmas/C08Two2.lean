/-
  C08 — stacks of stacks: the read with a rank-1 integer tensor on the outer stack dim composes.
-/
import TdVerif.Model.C08Lazy2T
import TdVerif.Lemmas.C08Two
namespace TdVerif.C08

theorem getitem2_tens1 [Inhabited α] (Lo : Lazy2 α) (bIn : Shape) (keys : List String) (feat : String → Shape)
    (sdIn nIn : Nat) (hU : Uniform2 Lo bIn keys feat sdIn nIn) (hne0 : Lo.members ≠ []) (ix : List Ix)
    (hp : Plain Lo.sd ix) (hne : ∀ it ∈ ix, it ≠ Ix.ell) (hadv : AtMostOneAdv ix)
    (t : T Int) (k : Nat) (hitem : (splitRec Lo.sd ix).item = some (.tens t)) (hk : t.shape = [k])
    (hin : InnerOK Lo (splitRec Lo.sd ix).out)
    (r2 : LRes2 α) (hr : lazyGetCore2T Lo ix = some r2)
    (d : TD α) (hd : (abs2 Lo).index ix = some d) : absR2 r2 ≈ d := by
  have hpm := Plain.toM ix Lo.sd hp
  obtain ⟨so, ish, hso, hish⟩ := dense_itemShape Lo bIn keys feat sdIn nIn hU hne0 ix hpm d hd
  have hB := splitLoop_before Lo.sd Lo.members.length Lo.batch ix Lo.sd 0 {} (by simp) hp hne
    (by simpa [AtMostOneAdv] using hadv) rfl rfl rfl rfl
  obtain ⟨st', hloop, hspec⟩ := hB.2 (.tens t) false true (by rw [hitem]; rfl)
  have hq : (Lo.sd : Int) - st'.numSingle + st'.numNone - st'.numSquash = (splitRec Lo.sd ix).pos := by
    have := hspec.q; simp [Q] at this; omega
  have hnm := tens_mem_no_mask ix t (by simpa [AtMostOneAdv] using hadv) (splitRec_item_mem ix Lo.sd _ hitem)
  have hsq : st'.numSquash = 0 := by
    have := splitLoop_numSquash Lo.sd Lo.members.length Lo.batch ix 0 {} st' hnm hloop
    simpa using this
  have hq' : (Lo.sd : Int) - st'.numSingle + st'.numNone = (splitRec Lo.sd ix).pos := by
    rw [hsq] at hq; simpa using hq
  unfold lazyGetCore2T splitIndex2 at hr
  simp only [hloop, Option.bind_some, hspec.hasBool, Bool.false_eq_true, if_false, hspec.isNd, and_self, if_true,
    hspec.sel, hspec.out, List.nil_append, hq', hk] at hr
  split at hr
  · simp at hr
  cases hres : allSome ((List.range k).map fun j =>
      (normInt (t.get [j]) Lo.members.length).bind (memberIndex2 Lo (splitRec Lo.sd ix).out)) with
  | none => rw [hres] at hr; simp at hr
  | some res =>
    rw [hres] at hr
    simp only [Option.bind_some, Option.map_eq_some_iff] at hr
    obtain ⟨q, hq2, rfl⟩ := hr
    obtain ⟨rfl, hres0⟩ := lazyStackR_some res _ q hq2
    show stackTD (res.map absR) (splitRec Lo.sd ix).pos ≈ d
    -- every entry is a valid position
    have hmap := (allSome_eq_some _ _).mp hres
    have hnorm : ∀ j, j < k → ∃ i, normInt (t.get [j]) Lo.members.length = some i := by
      intro j hj
      have := congrArg (fun l => l[j]?) hmap
      simp only [List.getElem?_map, List.getElem?_range hj, Option.map_some] at this
      cases hn : normInt (t.get [j]) Lo.members.length with
      | none =>
        rw [hn] at this
        cases hr : res[j]? <;> simp [hr] at this
      | some i => exact ⟨i, rfl⟩
    have hres' : allSome ((List.range k).map fun j =>
        memberIndex2 Lo (splitRec Lo.sd ix).out ((normInt (t.get [j]) Lo.members.length).getD 0)) = some res := by
      rw [← hres]; congr 1
      apply List.map_congr_left
      intro j hj
      obtain ⟨i, hi⟩ := hnorm j (List.mem_range.mp hj)
      simp [hi]
    exact get2_one_case Lo bIn keys feat sdIn nIn hU ix hpm k
      (fun j => (normInt (t.get [j]) Lo.members.length).getD 0)
      (by simp [hitem, hk])
      (by
        simp only [hitem, Option.getD_some, itemShape] at hish ⊢
        split at hish
        · rename_i hc; rw [if_pos hc, hk]
        · simp at hish)
      (by intro x hx; simp [hitem, itemCoord])
      res hres0 hres' hin d hd

end TdVerif.C08
