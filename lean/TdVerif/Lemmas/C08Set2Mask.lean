/-
  C08 — index writes through a stack of stacks with a rank-1 mask on the OUTER stack dim.
-/
import TdVerif.Lemmas.C08Set2
import TdVerif.Lemmas.C08Cat
import TdVerif.Lemmas.C08Mask
namespace TdVerif.C08

/-- **Index writes through a stack of stacks with a rank-1 mask on the OUTER stack dim**: the kept
inner stacks, in order, receive the successive slices of the value along
`split_dim = mask_loc - num_single`, each through its own `__setitem__` with the index without the
mask; if these inner writes are write-throughs (`InnerSetOK`), the dense stack of dense stacks
afterwards is `IsSetT` of the one before -/
theorem setitem2_mask1 [Inhabited α] (Lo : Lazy2 α) (bIn : Shape) (keys : List String) (feat : String → Shape)
    (sdIn nIn : Nat) (hU : Uniform2 Lo bIn keys feat sdIn nIn) (hne0 : Lo.members ≠ []) (ix : List Ix)
    (hp : PlainM Lo.sd ix) (hne : ∀ it ∈ ix, it ≠ Ix.ell) (hadv : AtMostOneAdv ix)
    (m : T Bool) (hitem : (splitRec Lo.sd ix).item = some (.mask m))
    (hin : InnerSetOK Lo bIn keys feat (splitRec Lo.sd ix).out)
    (v : TD α) (hvk : v.keys = keys) (hvl : ∀ k ∈ keys, (v.leaf k).shape = v.batch ++ feat k)
    (bd : Shape) (hbd : idxShape ix (abs2 Lo).batch = some bd)
    (Lo' : Lazy2 α) (h : lazySetCore2 Lo ix v = some Lo') :
    Lo'.sd = Lo.sd ∧ Uniform2 Lo' bIn keys feat sdIn nIn ∧ Lo'.members.length = Lo.members.length ∧
    ∀ k ∈ keys, IsSetT ix ((abs2 Lo).leaf k) (v.leaf k) ((abs2 Lo').leaf k) := by
  have hUd := denseOf_uniform Lo bIn keys feat sdIn nIn hU
  have hned : (denseOf Lo).members ≠ [] := by simpa [denseOf] using hne0
  have hbatch : (abs2 Lo).batch = (bIn.insertIdx sdIn nIn).insertIdx Lo.sd Lo.members.length := by
    have := absL_batch_eq (denseOf Lo) _ keys feat hUd hned
    simpa [denseOf, abs2_eq] using this
  have hLb : Lo.batch = (bIn.insertIdx sdIn nIn).insertIdx Lo.sd Lo.members.length := by
    rw [← denseOf_batch]; exact hbatch
  have hsdD : Lo.sd ≤ (bIn.insertIdx sdIn nIn).length := hUd.hsd
  rw [hbatch] at hbd
  obtain ⟨st', hloop, hspec⟩ := splitLoop_mask Lo.sd Lo.members.length Lo.batch m ix Lo.sd 0 {} (by simp) hp hne
    (by simpa [AtMostOneAdv] using hadv) hitem rfl
  have hrank := plainM_mask_rank1 ix Lo.sd m hp hitem
  obtain ⟨k, hk⟩ : ∃ k, m.shape = [k] := by
    match hm : m.shape with
    | [k] => exact ⟨k, rfl⟩
    | [] => simp [hm] at hrank
    | _ :: _ :: _ => simp [hm] at hrank
  have hcat : (st'.maskLoc : Int) - st'.numSingle = (splitRec Lo.sd ix).pos := by
    have := hspec.catDim; simpa using this
  have hsplitDim : st'.splitDim = ((splitRec Lo.sd ix).pos : Int) := by rw [hspec.splitDim, hcat]
  have hsplit := shape_splitM Lo.members.length ix Lo.sd (bIn.insertIdx sdIn nIn) hsdD hp
  rw [hbd, hitem] at hsplit
  cases hso : idxShape (splitRec Lo.sd ix).out (bIn.insertIdx sdIn nIn) with
  | none => simp [hso] at hsplit
  | some so =>
  simp only [hso, Option.getD_some, itemShape, Option.bind_some] at hsplit
  have hkn : k = Lo.members.length := by
    by_cases h' : m.shape = [Lo.members.length]
    · rw [hk] at h'; simpa using h'
    · simp [h'] at hsplit
  subst hkn
  have hnz := nonzero_rank1 m _ hk
  unfold lazySetCore2 splitIndex2 at h
  rw [hLb, hbd] at h
  simp only [Option.bind_some] at h
  split at h
  · simp at h
  rename_i hvb
  have hvb : v.batch = bd := by simpa using hvb
  rw [hvb] at hvl
  rw [← hLb] at h
  have hsel : (st'.sel.ids Lo.members.length).length ≤ m.shape.headD 0 := by
    rw [hspec.sel, hk]; simp [Sel.ids]
  simp only [hloop, Option.bind_some, hspec.hasBool, if_true, hspec.maskAt] at h
  rw [if_pos hsel] at h
  simp only [Option.bind_some, hspec.hasBool, if_true, hspec.maskAt, hk, hsplitDim,
    hspec.outWo, List.nil_append, Int.toNat_natCast] at h
  have hneg : ¬ (Lo.members.length ≠ Lo.members.length ∨ ((splitRec Lo.sd ix).pos : Int) < 0) := by omega
  rw [if_neg hneg] at h
  generalize hch : ((List.range Lo.members.length).filter fun i => m.get [i]) = chosen at h hnz
  split at h
  · simp at h
  simp only [Option.map_eq_some_iff] at h
  obtain ⟨ms', hw, rfl⟩ := h
  have hcnt : (nonzero m).length = chosen.length := by rw [hnz]; simp
  have hw' : writeAll2 (splitRec Lo.sd ix).out ((List.range chosen.length).map fun j =>
      (chosen[j]?.getD 0, v.select (splitRec Lo.sd ix).pos j)) Lo.members = some ms' := by
    rw [← hw]; congr 1
    apply List.map_congr_left
    intro j hj
    simp [List.getElem?_eq_getElem (List.mem_range.mp hj)]
  obtain ⟨h1, h2, h3⟩ := set2_one_case Lo bIn keys feat sdIn nIn hU hne0 ix hp bd hbd chosen.length
    (fun j => chosen[j]?.getD 0) (by simp [hitem]) (by simp [hitem, itemShape, hk, hcnt])
    (by
      intro x
      simp only [hitem, Option.getD_some, itemCoord, at0, List.getElem?_cons_zero, Option.getD_some]
      rw [hnz]
      by_cases hx : x < chosen.length
      · simp [List.getElem?_map, List.getElem?_eq_getElem hx]
      · simp [List.getElem?_map, List.getElem?_eq_none (show chosen.length ≤ x by omega)])
    (by
      intro j j' hj hj' heq
      rw [← hch] at hj hj' heq
      exact filter_range_getElem_inj _ _ j j' hj hj' heq)
    hin v hvk hvb hvl ms' hw'
  exact ⟨rfl, h1, h2, h3⟩

end TdVerif.C08
