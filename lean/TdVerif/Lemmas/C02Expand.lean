/-
  C02: expand — both torch's size resolution (`expandSizes`) and the code's two-phase version (`expandResolve` + compatibility check)
  are characterised by the same per-position rule (`expandRule`).
-/
import TdVerif.Lemmas.C02Meta

namespace TdVerif.C02

/-- `mapM` in `Except` succeeds iff every element succeeds, with the pointwise results -/
theorem mapM_ok_iff {β γ : Type} (f : β → Except Err γ) : ∀ (l : List β) (out : List γ),
    l.mapM f = .ok out ↔ (out.length = l.length ∧ ∀ i (h : i < l.length) (h' : i < out.length), f l[i] = .ok out[i])
  | [], out => by
    cases out with
    | nil => simp [List.mapM_nil, pure, Except.pure]
    | cons a as => simp [List.mapM_nil, pure, Except.pure]
  | x :: l, out => by
    rw [List.mapM_cons]
    simp only [bind, Except.bind]
    cases hfx : f x with
    | error e =>
      simp only []
      constructor
      · intro h; cases h
      · rintro ⟨hl, h⟩
        cases out with
        | nil => simp at hl
        | cons a as =>
          have := h 0 (by simp) (by simp)
          simp [hfx] at this
    | ok v =>
      simp only []
      cases hrest : l.mapM f with
      | error e =>
        simp only []
        constructor
        · intro h; cases h
        · rintro ⟨hl, h⟩
          cases out with
          | nil => simp at hl
          | cons a as =>
            have : l.mapM f = .ok as := (mapM_ok_iff f l as).2 ⟨by simpa using hl, fun i hi hi' => by
              have := h (i + 1) (by simp; omega) (by simp; omega)
              simpa using this⟩
            rw [hrest] at this; cases this
      | ok vs =>
        simp only [pure, Except.pure, Except.ok.injEq]
        have ih := (mapM_ok_iff f l vs).1 hrest
        constructor
        · intro h; subst h
          refine ⟨by simp [ih.1], ?_⟩
          intro i hi hi'
          cases i with
          | zero => simpa using hfx
          | succ i => simpa using ih.2 i (by simpa using hi) (by simpa using hi')
        · rintro ⟨hl, h⟩
          cases out with
          | nil => simp at hl
          | cons a as =>
            have h0 := h 0 (by simp) (by simp)
            simp [hfx] at h0
            have : l.mapM f = .ok as := (mapM_ok_iff f l as).2 ⟨by simpa using hl, fun i hi hi' => by
              have := h (i + 1) (by simp; omega) (by simp; omega)
              simpa using this⟩
            rw [hrest] at this
            simp only [Except.ok.injEq] at this
            rw [h0, this]


theorem expand_pointwise (v : Int) (old x : Nat) (isLead : Bool) :
    ((if isLead = true then (if v < 0 then (Except.error Err.runtime : Except Err Nat) else Except.ok v.toNat)
      else if v = -1 then Except.ok old
      else if old = 1 then (if v < 0 then Except.error Err.runtime else Except.ok v.toNat)
      else if v = (old : Int) then Except.ok old else Except.error Err.runtime) = Except.ok x) ↔
    ((if isLead = true then (if v < 0 then none else some v.toNat)
      else if v = -1 then some old
      else if v < 0 then none
      else if old = 1 ∨ v = (old : Int) then some v.toNat
      else none) = some x) := by
  cases isLead <;> simp only [Bool.false_eq_true, if_false, if_true]
  · by_cases h1 : v = -1
    · simp [h1]
    · by_cases h2 : v < 0
      · by_cases h3 : old = 1
        · simp [h1, h2, h3]
        · have : ¬ (v = (old : Int)) := by omega
          simp [h1, h2, h3, this]
      · by_cases h3 : old = 1
        · simp [h1, h2, h3]
        · by_cases h4 : v = (old : Int)
          · simp [h1, h2, h3, h4]
          · simp [h1, h2, h3, h4]
  · by_cases h2 : v < 0 <;> simp [h2]

theorem expandSizes_eq_rule (bs : Shape) (shape : List Int) (hlen : bs.length ≤ shape.length) (sh : Shape) :
    expandSizes bs shape = .ok sh ↔
      (sh.length = shape.length ∧ ∀ i, i < shape.length → expandRule bs shape i = some (sh.getD i 0)) := by
  unfold expandSizes
  simp only [show ¬ shape.length < bs.length by omega, if_false]
  rw [mapM_ok_iff]
  simp only [List.length_range, List.getElem_range]
  have key : ∀ i x, ((if i < shape.length - bs.length then
            (if shape.getD i 0 < 0 then (Except.error Err.runtime : Except Err Nat) else Except.ok (shape.getD i 0).toNat)
          else if shape.getD i 0 = -1 then Except.ok (bs.getD (i - (shape.length - bs.length)) 0)
          else if bs.getD (i - (shape.length - bs.length)) 0 = 1 then
            (if shape.getD i 0 < 0 then Except.error Err.runtime else Except.ok (shape.getD i 0).toNat)
          else if shape.getD i 0 = ((bs.getD (i - (shape.length - bs.length)) 0 : Nat) : Int) then
            Except.ok (bs.getD (i - (shape.length - bs.length)) 0)
          else Except.error Err.runtime) = Except.ok x) ↔ expandRule bs shape i = some x := by
    intro i x
    unfold expandRule
    have := expand_pointwise (shape.getD i 0) (bs.getD (i - (shape.length - bs.length)) 0) x (decide (i < shape.length - bs.length))
    simpa only [decide_eq_true_eq] using this
  constructor
  · rintro ⟨hl, h⟩
    refine ⟨hl, fun i hi => ?_⟩
    have hi' : i < sh.length := by omega
    have hg : sh.getD i 0 = sh[i] := by simp [List.getD_eq_getElem?_getD, List.getElem?_eq_getElem hi']
    rw [hg]
    exact (key i _).1 (h i hi hi')
  · rintro ⟨hl, h⟩
    refine ⟨hl, fun i hi hi' => ?_⟩
    have hg : sh.getD i 0 = sh[i] := by simp [List.getD_eq_getElem?_getD, List.getElem?_eq_getElem hi']
    have := h i hi
    rw [hg] at this
    exact (key i _).2 this


theorem any_zip_iff {β γ : Type} (l1 : List β) (l2 : List γ) (p : β × γ → Bool) :
    (l1.zip l2).any p = true ↔ ∃ j, ∃ (h1 : j < l1.length) (h2 : j < l2.length), p (l1[j], l2[j]) = true := by
  rw [List.any_eq_true]
  constructor
  · rintro ⟨x, hx, hp⟩
    obtain ⟨j, hj, rfl⟩ := List.mem_iff_getElem.1 hx
    have hj' : j < l1.length ∧ j < l2.length := by
      have : j < min l1.length l2.length := by simpa using hj
      omega
    exact ⟨j, hj'.1, hj'.2, by simpa using hp⟩
  · rintro ⟨j, h1, h2, hp⟩
    exact ⟨(l1[j], l2[j]), List.mem_iff_getElem.2 ⟨j, by simp; omega, by simp⟩, hp⟩

theorem expandResolve_eq_rule (bs : Shape) (shape : List Int) (sh : Shape) :
    expandResolve bs shape = .ok sh ↔
      (sh.length = shape.length ∧ ∀ i, i < shape.length → resolveRule bs shape i = some (sh.getD i 0)) := by
  unfold expandResolve
  by_cases hneg : shape.any (· < 0) = true
  · simp only [hneg, if_true]
    rw [mapM_ok_iff]
    simp only [List.length_range, List.getElem_range]
    have key : ∀ i x, ((if shape.getD i 0 = -1 ∧ i ≥ shape.length - bs.length then
          (Except.ok (bs.getD (i - (shape.length - bs.length)) 0) : Except Err Nat)
        else if shape.getD i 0 < 0 then Except.error Err.runtime else Except.ok (shape.getD i 0).toNat) = Except.ok x)
        ↔ resolveRule bs shape i = some x := by
      intro i x
      unfold resolveRule
      simp only []
      split
      · simp
      · split <;> simp
    constructor
    · rintro ⟨hl, h⟩
      refine ⟨hl, fun i hi => ?_⟩
      have hi' : i < sh.length := by omega
      have hg : sh.getD i 0 = sh[i] := by simp [List.getD_eq_getElem?_getD, List.getElem?_eq_getElem hi']
      rw [hg]; exact (key i _).1 (h i hi hi')
    · rintro ⟨hl, h⟩
      refine ⟨hl, fun i hi hi' => ?_⟩
      have hg : sh.getD i 0 = sh[i] := by simp [List.getD_eq_getElem?_getD, List.getElem?_eq_getElem hi']
      have := h i hi
      rw [hg] at this; exact (key i _).2 this
  · simp only [hneg, Bool.false_eq_true, if_false, Except.ok.injEq]
    have hnn : ∀ i, i < shape.length → ¬ (shape.getD i 0 < 0) := by
      intro i hi hlt
      apply hneg
      rw [List.any_eq_true]
      refine ⟨shape[i], List.getElem_mem hi, ?_⟩
      have : shape.getD i 0 = shape[i] := by simp [List.getD_eq_getElem?_getD, List.getElem?_eq_getElem hi]
      rw [this] at hlt; simpa using hlt
    have hrule : ∀ i, i < shape.length → resolveRule bs shape i = some (shape.getD i 0).toNat := by
      intro i hi
      unfold resolveRule
      have h1 := hnn i hi
      have h2 : ¬ (shape.getD i 0 = -1 ∧ i ≥ shape.length - bs.length) := by omega
      simp only [h2, h1, if_false]
    constructor
    · intro h; subst h
      refine ⟨by simp, fun i hi => ?_⟩
      rw [hrule i hi]
      simp [List.getD_eq_getElem?_getD, List.getElem?_map, List.getElem?_eq_getElem hi]
    · rintro ⟨hl, h⟩
      apply List.ext_getElem?; intro i
      by_cases hi : i < shape.length
      · have := h i hi
        rw [hrule i hi] at this
        have hi' : i < sh.length := by omega
        simp only [Option.some.injEq] at this
        rw [List.getElem?_map, List.getElem?_eq_getElem hi, List.getElem?_eq_getElem hi']
        have hg : sh.getD i 0 = sh[i] := by simp [List.getD_eq_getElem?_getD, List.getElem?_eq_getElem hi']
        have hv : shape.getD i 0 = shape[i] := by simp [List.getD_eq_getElem?_getD, List.getElem?_eq_getElem hi]
        rw [hg, hv] at this
        simp [this]
      · have h1 : (shape.map Int.toNat)[i]? = none := by rw [List.getElem?_eq_none_iff]; simp; omega
        have h2 : sh[i]? = none := by rw [List.getElem?_eq_none_iff]; omega
        rw [h1, h2]


/-- pointwise: first phase + compatibility check of the code = torch's rule -/
theorem rule_combine (bs : Shape) (shape : List Int) (i x : Nat) :
    (resolveRule bs shape i = some x ∧
      (i ≥ shape.length - bs.length → bs.getD (i - (shape.length - bs.length)) 0 = 1 ∨ x = bs.getD (i - (shape.length - bs.length)) 0))
    ↔ expandRule bs shape i = some x := by
  unfold resolveRule expandRule
  simp only []
  generalize shape.getD i 0 = v
  generalize bs.getD (i - (shape.length - bs.length)) 0 = old
  by_cases hl : i < shape.length - bs.length
  · have h2 : ¬ (i ≥ shape.length - bs.length) := by omega
    simp only [hl, h2, and_false, if_false, if_true, false_imp_iff, and_true]
  · have h2 : i ≥ shape.length - bs.length := by omega
    simp only [hl, h2, and_true, if_false, true_imp_iff]
    by_cases h1 : v = -1
    · simp only [h1, if_true, Option.some.injEq]
      constructor
      · rintro ⟨rfl, _⟩; rfl
      · intro h; exact ⟨h, Or.inr h.symm⟩
    · simp only [h1, if_false]
      by_cases h3 : v < 0
      · simp [h3]
      · simp only [h3, if_false, Option.some.injEq]
        constructor
        · rintro ⟨rfl, h⟩
          have : old = 1 ∨ v = (old : Int) := by
            rcases h with h | h
            · exact Or.inl h
            · right; omega
          simp [this]
        · intro h
          split at h
          · rename_i hc
            simp only [Option.some.injEq] at h
            refine ⟨h, ?_⟩
            rcases hc with hc | hc
            · exact Or.inl hc
            · right; omega
          · cases h


/-- the code's compatibility check `zip(batch_size, shape[-ndim:])` in index form -/
theorem expand_check_iff (bs sh : Shape) (hlen : bs.length ≤ sh.length) :
    ((bs.zip (sh.drop (sh.length - bs.length))).any (fun x => decide (x.1 ≠ 1 ∧ x.2 ≠ x.1)) = false) ↔
      ∀ i, i < sh.length → i ≥ sh.length - bs.length →
        bs.getD (i - (sh.length - bs.length)) 0 = 1 ∨ sh.getD i 0 = bs.getD (i - (sh.length - bs.length)) 0 := by
  rw [← Bool.not_eq_true, any_zip_iff]
  constructor
  · intro h i hi hge
    by_cases hc : bs.getD (i - (sh.length - bs.length)) 0 = 1 ∨ sh.getD i 0 = bs.getD (i - (sh.length - bs.length)) 0
    · exact hc
    · exfalso
      apply h
      have hj : i - (sh.length - bs.length) < bs.length := by omega
      have hj2 : i - (sh.length - bs.length) < (sh.drop (sh.length - bs.length)).length := by simp; omega
      refine ⟨i - (sh.length - bs.length), hj, hj2, ?_⟩
      have e1 : bs.getD (i - (sh.length - bs.length)) 0 = bs[i - (sh.length - bs.length)] := by
        simp [List.getD_eq_getElem?_getD, List.getElem?_eq_getElem hj]
      have e2 : sh.getD i 0 = (sh.drop (sh.length - bs.length))[i - (sh.length - bs.length)] := by
        rw [List.getElem_drop]
        have : sh.length - bs.length + (i - (sh.length - bs.length)) = i := by omega
        simp [List.getD_eq_getElem?_getD, List.getElem?_eq_getElem hi, this]
      rw [e1, e2] at hc
      simp only [decide_eq_true_eq]
      constructor
      · intro h1; exact hc (Or.inl h1)
      · intro h2; exact hc (Or.inr h2)
  · intro h
    rintro ⟨j, hj, hj2, hp⟩
    simp only [decide_eq_true_eq] at hp
    have hi : sh.length - bs.length + j < sh.length := by omega
    have := h (sh.length - bs.length + j) hi (by omega)
    have hjj : sh.length - bs.length + j - (sh.length - bs.length) = j := by omega
    rw [hjj] at this
    have e1 : bs.getD j 0 = bs[j] := by simp [List.getD_eq_getElem?_getD, List.getElem?_eq_getElem hj]
    have e2 : sh.getD (sh.length - bs.length + j) 0 = (sh.drop (sh.length - bs.length))[j] := by
      rw [List.getElem_drop]
      simp [List.getD_eq_getElem?_getD, List.getElem?_eq_getElem hi]
    rw [e1, e2] at this
    rcases this with h1 | h2
    · exact hp.1 h1
    · exact hp.2 h2


/-- the code's `expand` arithmetic on an already resolved, compatible target shape -/
theorem expandMeta_nats (sh bs : Shape) (nm : Names) (hlen : bs.length ≤ sh.length)
    (hc : ∀ i, i < bs.length → bs.getD i 0 = 1 ∨ sh.getD (sh.length - bs.length + i) 0 = bs.getD i 0) :
    expandMeta (natsToInts sh) bs nm =
      .ok (some (sh, nm.map (fun l => List.replicate (sh.length - bs.length) none ++ l), .expand sh bs.length)) := by
  unfold expandMeta expandResolve
  have hl : (natsToInts sh).length = sh.length := by simp [natsToInts]
  have hchk : ((bs.zip (sh.drop (sh.length - bs.length))).any (fun x => decide (x.1 ≠ 1 ∧ x.2 ≠ x.1))) = false := by
    rw [expand_check_iff bs sh hlen]
    intro i hi hge
    have := hc (i - (sh.length - bs.length)) (by omega)
    rw [show sh.length - bs.length + (i - (sh.length - bs.length)) = i by omega] at this
    exact this
  simp only [hl, natsToInts_any_neg, natsToInts_toNat, Bool.false_eq_true, if_false, bind, Except.bind, pure, Except.pure,
    throw, throwThe, MonadExceptOf.throw, show ¬ sh.length < bs.length by omega, hchk]


end TdVerif.C02
